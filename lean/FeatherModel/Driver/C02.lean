import FeatherModel.Base.Driver
import FeatherModel.Model.CodeWrite
import FeatherModel.Model.PoolWrite
import FeatherModel.Model.BootstrapWrite
import FeatherModel.Spec.CodeDenote
import FeatherModel.Spec.ClassParse
import FeatherModel.Model.FrameWrite
import FeatherModel.Spec.FrameDenote
import FeatherModel.Model.ClassWriteFull
import FeatherModel.Model.ClassReadSexp
import FeatherModel.Lemmas.ClassWriteFullDecide

open Driver Sexp CodeWrite

/-! Driver for C02. Request grammar: see `harness/src/bin/c02.rs`. -/

namespace C02

open BootstrapWrite (Handle Bsm)

/-- a loadable constant that is not itself dynamic (argument of a bootstrap method, operand of `ldc`) -/
inductive RConst where
  | int (v : Int) | long (v : Int) | float (bits : Nat) | double (bits : Nat)
  | str (s : JStr) | cls (s : JStr) | mtype (d : JStr) | mhandle (h : Handle)

/-- request-level instruction: model instruction or an `ldc` still carrying its constant -/
inductive RInsn where
  | plain (i : Insn)
  | ldcInt (v : Int)
  | ldcLong (v : Int)
  | ldcStr (s : JStr)
  | ldcCls (s : JStr)
  | ldcFloat (bits : Nat)
  | ldcDouble (bits : Nat)
  /-- `getstatic` … `putfield`, `invoke*`: opcode, pool reference kind (9/10/11), class, name, descriptor -/
  | ref (op kind : Nat) (cls name desc : JStr)
  | invokeinterface (cls name desc : JStr)
  /-- `new`, `anewarray`, `checkcast`, `instanceof` -/
  | clsOp (op : Nat) (cls : JStr)
  | multianewarray (cls : JStr) (dims : Nat)
  | ldcConst (c : RConst)
  /-- `invokedynamic` / `ldc` of a dynamic constant: name, descriptor, bootstrap handle, static arguments -/
  | indy (name desc : JStr) (h : Handle) (args : List RConst)
  | ldcDyn (name desc : JStr) (h : Handle) (args : List RConst)

def condOf : Nat → Option Cond
  | 0 => some .eq | 1 => some .ne | 2 => some .lt | 3 => some .ge | 4 => some .gt | 5 => some .le
  | 6 => some .icmpeq | 7 => some .icmpne | 8 => some .icmplt | 9 => some .icmpge | 10 => some .icmpgt | 11 => some .icmple
  | 12 => some .acmpeq | 13 => some .acmpne | 14 => some .null | 15 => some .nonnull
  | _ => none

/-- values that do not fit the Rust type of the field cannot be put into a duke tree: `bad-op` on both sides -/
def sInt (bits : Nat) (s : Sexp) : Option Int := do
  let v ← toInt? s
  if -(2 ^ (bits - 1) : Int) ≤ v ∧ v < (2 ^ (bits - 1) : Int) then some v else none

def uNat (bits : Nat) (s : Sexp) : Option Nat := do
  let v ← toNat? s
  if v < 2 ^ bits then some v else none

def kindOf (s : Sexp) : Option Nat := do
  let v ← toNat? s
  if v ≤ 4 then some v else none

def parsePair (s : Sexp) : Option (Int × Nat) :=
  match s with
  | list [k, t] => do pure ((← sInt 32 k), (← toNat? t))
  | _ => none

/-- `(h kind #cls #name #desc iface)`: kinds 1–4 need a Fieldref, 5 and 8 a Methodref, 6 and 7 a Methodref or
InterfaceMethodref, 9 an InterfaceMethodref -/
def parseHandle : Sexp → Option Handle
  | list [atom "h", k, c, n, d, i] => do
    let k ← toNat? k
    let i ← toBool? i
    let rk ← if 1 ≤ k ∧ k ≤ 4 then (if i then none else some 9)
      else if k = 5 ∨ k = 8 then (if i then none else some 10)
      else if k = 6 ∨ k = 7 then some (if i then 11 else 10)
      else if k = 9 then (if i then some 11 else none) else none
    pure ⟨k, rk, ← toJStr? c, ← toJStr? n, ← toJStr? d⟩
  | _ => none

def parseConst : Sexp → Option RConst
  | list [atom "ldc-int", v] => do pure (.int (← sInt 32 v))
  | list [atom "ldc-long", v] => do pure (.long (← sInt 64 v))
  | list [atom "ldc-float", v] => do pure (.float (← uNat 32 v))
  | list [atom "ldc-double", v] => do pure (.double (← uNat 64 v))
  | list [atom "ldc-str", s] => do pure (.str (← toJStr? s))
  | list [atom "ldc-cls", s] => do pure (.cls (← toJStr? s))
  | list [atom "ldc-mt", s] => do pure (.mtype (← toJStr? s))
  | list [atom "ldc-mh", h] => do pure (.mhandle (← parseHandle h))
  | _ => none

def parseInsn1 : Sexp → Option RInsn
  | list [atom "s", op] => do
    let op ← toNat? op
    if CodeDecode.isSimple op then pure (.plain (.simple op)) else none
  | list [atom "bi", v] => do pure (.plain (.bipush (← sInt 8 v)))
  | list [atom "si", v] => do pure (.plain (.sipush (← sInt 16 v)))
  | list [atom "ldc-int", v] => do pure (.ldcInt (← sInt 32 v))
  | list [atom "ldc-long", v] => do pure (.ldcLong (← sInt 64 v))
  | list [atom "ldc-str", s] => do pure (.ldcStr (← toJStr? s))
  | list [atom "ldc-cls", s] => do pure (.ldcCls (← toJStr? s))
  | list [atom "ldc-float", v] => do pure (.ldcFloat (← uNat 32 v))
  | list [atom "ldc-double", v] => do pure (.ldcDouble (← uNat 64 v))
  | list [atom "ld", k, i] => do pure (.plain (.load (← kindOf k) (← uNat 16 i)))
  | list [atom "st", k, i] => do pure (.plain (.store (← kindOf k) (← uNat 16 i)))
  | list [atom "iinc", i, v] => do pure (.plain (.iinc (← uNat 16 i) (← sInt 16 v)))
  | list [atom "ret", i] => do pure (.plain (.ret (← uNat 16 i)))
  | list [atom "if", c, t] => do pure (.plain (.ifc (← condOf (← toNat? c)) (← toNat? t)))
  | list [atom "goto", t] => do pure (.plain (.goto (← toNat? t)))
  | list [atom "jsr", t] => do pure (.plain (.jsr (← toNat? t)))
  | list [atom "ts", d, lo, hi, tb] => do
    pure (.plain (.tableswitch (← toNat? d) (← sInt 32 lo) (← sInt 32 hi) (← toListOf? toNat? tb)))
  | list [atom "ls", d, ps] => do pure (.plain (.lookupswitch (← toNat? d) (← toListOf? parsePair ps)))
  | list [atom "fld", op, c, n, d] => do
    let op ← toNat? op
    if 178 ≤ op ∧ op ≤ 181 then pure (.ref op 9 (← toJStr? c) (← toJStr? n) (← toJStr? d)) else none
  | list [atom "inv", op, c, n, d, i] => do
    let op ← toNat? op
    let i ← toBool? i
    if op = 182 ∧ !i ∨ op = 183 ∨ op = 184 then
      pure (.ref op (if i then 11 else 10) (← toJStr? c) (← toJStr? n) (← toJStr? d)) else none
  | list [atom "invi", c, n, d] => do pure (.invokeinterface (← toJStr? c) (← toJStr? n) (← toJStr? d))
  | list [atom "cls", op, c] => do
    let op ← toNat? op
    if op = 187 ∨ op = 189 ∨ op = 192 ∨ op = 193 then pure (.clsOp op (← toJStr? c)) else none
  | list [atom "newarray", t] => do
    let t ← toNat? t
    if 4 ≤ t ∧ t ≤ 11 then pure (.plain (.newarray t)) else none
  | list [atom "mana", c, d] => do pure (.multianewarray (← toJStr? c) (← uNat 8 d))
  | list [atom "ldc-mt", s] => do pure (.ldcConst (.mtype (← toJStr? s)))
  | list [atom "ldc-mh", h] => do pure (.ldcConst (.mhandle (← parseHandle h)))
  | list [atom "indy", n, d, h, as] => do
    pure (.indy (← toJStr? n) (← toJStr? d) (← parseHandle h) (← toListOf? parseConst as))
  | list [atom "ldc-dyn", n, d, h, as] => do
    pure (.ldcDyn (← toJStr? n) (← toJStr? d) (← parseHandle h) (← toListOf? parseConst as))
  | _ => none

def parseInsns (xs : List Sexp) : Option (Array RInsn) :=
  xs.foldlM (init := #[]) fun acc x =>
    match x with
    | list [atom "rep", n, y] => do
      let n ← toNat? n
      if acc.size + n > 200000 then none else
      let i ← parseInsn1 y
      pure (acc ++ Array.replicate n i)
    | y => do pure (acc.push (← parseInsn1 y))

structure RExc where
  start : Nat
  stop : Nat
  handler : Nat
  catch_ : Option JStr

structure RLv where
  start : Nat
  stop : Nat
  name : JStr
  desc : Option JStr
  sig : Option JStr
  index : Nat

def parseExc : Sexp → Option RExc
  | list [s, e, h, c] => do pure ⟨← toNat? s, ← toNat? e, ← toNat? h, ← toOption? toJStr? c⟩
  | _ => none

def parseLine : Sexp → Option (Nat × Nat)
  | list [l, n] => do pure ((← toNat? l), (← uNat 16 n))
  | _ => none

def parseLv : Sexp → Option RLv
  | list [s, e, n, d, g, i] => do
    pure ⟨← toNat? s, ← toNat? e, ← toJStr? n, ← toOption? toJStr? d, ← toOption? toJStr? g, ← uNat 16 i⟩
  | _ => none

open FrameWrite (VType Frame)

def parseVType : Sexp → Option VType
  | atom "top" => some .top
  | atom "int" => some .int
  | atom "float" => some .float
  | atom "double" => some .double
  | atom "long" => some .long
  | atom "null" => some .null
  | atom "uthis" => some .uninitThis
  | list [atom "obj", c] => do pure (.object (← toJStr? c))
  | list [atom "uninit", l] => do pure (.uninit (← toNat? l))
  | _ => none

/-- `StackMapData`; the chop count is a `u8` in the Rust type -/
def parseFrame : Sexp → Option Frame
  | list [atom "same"] => some .same
  | list [atom "same1", v] => do pure (.same1 (← parseVType v))
  | list [atom "chop", k] => do pure (.chop (← uNat 8 k))
  | list [atom "append", ls] => do pure (.append (← toListOf? parseVType ls))
  | list [atom "full", ls, ss] => do pure (.full (← toListOf? parseVType ls) (← toListOf? parseVType ss))
  | _ => none

def parseFrameAt : Sexp → Option (Nat × Frame)
  | list [k, f] => do pure ((← toNat? k), (← parseFrame f))
  | _ => none

/-- `(k frame)*` with strictly increasing instruction indices `k < n` → the frame of every instruction -/
def framesByInsn (n : Nat) (xs : List (Nat × Frame)) : Option (List (Option Frame)) :=
  let rec go (k : Nat) (fuel : Nat) (xs : List (Nat × Frame)) (acc : Array (Option Frame)) : Option (List (Option Frame)) :=
    match fuel with
    | 0 => if xs.isEmpty then some acc.toList else none
    | fuel + 1 =>
      match xs with
      | (j, f) :: rest => if j = k then go (k + 1) fuel rest (acc.push (some f)) else if j < k then none else go (k + 1) fuel xs (acc.push none)
      | [] => go (k + 1) fuel [] (acc.push none)
  go 0 n xs #[]

structure Req where
  insns : Array RInsn
  excs : List RExc
  lines : Option (List (Nat × Nat))
  lvs : Option (List RLv)
  /-- `InstructionListEntry.frame` of every instruction -/
  frames : List (Option Frame)

def parseReq (i e l v : Sexp) (f : Option Sexp := none) : Option Req := do
  let xs ← toList? i
  let insns ← parseInsns xs
  let frames ← match f with
    | none => some (List.replicate insns.size none)
    | some f => do framesByInsn insns.size (← toListOf? parseFrameAt f)
  pure ⟨insns, ← toListOf? parseExc e, ← toOption? (toListOf? parseLine) l, ← toOption? (toListOf? parseLv) v, frames⟩

/-- `put_loadable` for the non-dynamic loadables -/
def putConst (p : PoolWrite.Pool) : RConst → Option (Nat × PoolWrite.Pool)
  | .int v => PoolWrite.put p (.int v)
  | .long v => PoolWrite.put p (.long v)
  | .float b => PoolWrite.put p (.float b)
  | .double b => PoolWrite.put p (.double b)
  | .str s => PoolWrite.putString p s
  | .cls s => PoolWrite.putClass p s
  | .mtype d => do let (i, p) ← PoolWrite.putUtf8 p d; PoolWrite.put p (.methodType i)
  | .mhandle h => BootstrapWrite.putHandle p h

def putConsts (p : PoolWrite.Pool) : List RConst → Option (List Nat × PoolWrite.Pool)
  | [] => some ([], p)
  | c :: cs => do
    let (i, p) ← putConst p c
    let (is, p) ← putConsts p cs
    pure (i :: is, p)

/-- `from_invoke_dynamic` / `from_dynamic`: name-and-type first, then the arguments, then the bootstrap method -/
def putDyn (p : PoolWrite.Pool) (bs : List Bsm) (name desc : JStr) (h : Handle) (args : List RConst) :
    Option (Nat × Nat × PoolWrite.Pool × List Bsm) := do
  let (nt, p) ← PoolWrite.putNameAndType p name desc
  let (as, p) ← putConsts p args
  let (b, bs) ← BootstrapWrite.put bs ⟨h, as⟩
  pure (b, nt, p, bs)

/-- resolve the constants through the pool, in instruction order (what the first attempt of `write_code` does) -/
def poolInsns (p : PoolWrite.Pool) (xs : Array RInsn) : Option (List Insn × PoolWrite.Pool × List Bsm) := do
  let (acc, p, bs) ← xs.foldlM (init := ((#[] : Array Insn), p, ([] : List Bsm))) fun (acc, p, bs) x =>
    match x with
    | .plain i => some (acc.push i, p, bs)
    | .ldcInt v => do let (i, p) ← PoolWrite.put p (.int v); pure (acc.push (.ldc i false), p, bs)
    | .ldcLong v => do let (i, p) ← PoolWrite.put p (.long v); pure (acc.push (.ldc i true), p, bs)
    | .ldcStr s => do let (i, p) ← PoolWrite.putString p s; pure (acc.push (.ldc i false), p, bs)
    | .ldcCls s => do let (i, p) ← PoolWrite.putClass p s; pure (acc.push (.ldc i false), p, bs)
    | .ldcFloat b => do let (i, p) ← PoolWrite.put p (.float b); pure (acc.push (.ldc i false), p, bs)
    | .ldcDouble b => do let (i, p) ← PoolWrite.put p (.double b); pure (acc.push (.ldc i true), p, bs)
    | .ref op kind c n d => do let (i, p) ← PoolWrite.putRef p kind c n d; pure (acc.push (.cp op i), p, bs)
    | .invokeinterface c n d => do let (i, p) ← PoolWrite.putRef p 11 c n d; pure (acc.push (.invokeinterface i d), p, bs)
    | .clsOp op c => do let (i, p) ← PoolWrite.putClass p c; pure (acc.push (.cp op i), p, bs)
    | .multianewarray c d => do let (i, p) ← PoolWrite.putClass p c; pure (acc.push (.multianewarray i d), p, bs)
    | .ldcConst c => do let (i, p) ← putConst p c; pure (acc.push (.ldc i false), p, bs)
    | .indy n d h as => do
      let (b, nt, p, bs) ← putDyn p bs n d h as
      let (i, p) ← PoolWrite.put p (.invokeDynamic b nt)
      pure (acc.push (.invokedynamic i), p, bs)
    | .ldcDyn n d h as => do
      let (b, nt, p, bs) ← putDyn p bs n d h as
      let (i, p) ← PoolWrite.put p (.dynamic b nt)
      -- `is_long_or_double`: the descriptor starts with `D` or `J`
      pure (acc.push (.ldc i (match d with | 68 :: _ => true | 74 :: _ => true | _ => false)), p, bs)
  pure (acc.toList, p, bs)

/-- instructions with `ldc`s replaced by fixed indices (for the ops that do not care about the pool) -/
def plainInsns (xs : Array RInsn) : List Insn :=
  (xs.map fun x => match x with
    | .plain i => i
    | .ldcLong _ => Insn.ldc 300 true
    | .ldcDouble _ => Insn.ldc 300 true
    | .ref op _ _ _ _ => Insn.cp op 9
    | .invokeinterface _ _ d => Insn.invokeinterface 9 d
    | .clsOp op _ => Insn.cp op 9
    | .multianewarray _ d => Insn.multianewarray 9 d
    | .indy _ _ _ _ => Insn.invokedynamic 9
    | .ldcDyn _ d _ _ => Insn.ldc 300 (match d with | 68 :: _ => true | 74 :: _ => true | _ => false)
    | _ => Insn.ldc 7 false).toList

def u32b := CodeWrite.u32b

/-- `write_attribute`: body first, then the name goes to the pool; `attribute_length` through `write_usize_as_u32` -/
def attr (p : PoolWrite.Pool) (name : String) (body : Bytes) : Option (ClassWrite.Attr × PoolWrite.Pool) := do
  let (i, p) ← PoolWrite.putUtf8 p (jstr name)
  if body.length > 4294967295 then none else
  pure ((i, body), p)

def putCatches (p : PoolWrite.Pool) : List RExc → Option (List Exc × PoolWrite.Pool)
  | [] => some ([], p)
  | e :: es => do
    let (ci, p) ← match e.catch_ with
      | none => some (0, p)
      | some c => PoolWrite.putClass p c
    let (rest, p) ← putCatches p es
    pure (⟨e.start, e.stop, e.handler, ci⟩ :: rest, p)

def putLvs (p : PoolWrite.Pool) (useSig : Bool) : List RLv → Option (List Lv × PoolWrite.Pool)
  | [] => some ([], p)
  | v :: vs =>
    match (if useSig then v.sig else v.desc) with
    | none => putLvs p useSig vs
    | some d => do
      let (ni, p) ← PoolWrite.putUtf8 p v.name
      let (di, p) ← PoolWrite.putUtf8 p d
      let (rest, p) ← putLvs p useSig vs
      pure (⟨v.start, v.stop, ni, di, v.index⟩ :: rest, p)

inductive R (α : Type) where
  | ok (a : α)
  | err
  | panic

/-- everything the model says about the class file written for a request -/
structure Out where
  file : Bytes
  /-- the class file as a structure (`file = ClassWrite.classBytes img`) -/
  img : ClassWrite.ClassImg
  res : Result
  /-- instructions with the pool indices the `ldc`s received -/
  insns : List Insn
  excRows : List (List Nat)
  lnt : Option (List (List Nat))
  lvt : Option (List (List Nat))
  lvtt : Option (List (List Nat))
  /-- the frames collected by `write_code` and the `StackMapTable` attribute (name index, body) written for them -/
  frames : List (Nat × Frame)
  smt : Option ClassWrite.Attr
  pool : PoolWrite.Pool
  /-- rows of the `BootstrapMethods` attribute: handle index, argument indices -/
  bsms : List (Nat × List Nat)

abbrev Tab := Option (ClassWrite.Attr × List (List Nat))

/-- The whole class file the real writer produces for the harness' skeleton class
(`C extends java/lang/Object`, version 52.0, one method `static public m()V` with the requested code, max_stack 7, max_locals 9). -/
def classFile (r : Req) : R Out :=
  let opt {α} (o : Option α) (k : α → R Out) : R Out := match o with | none => .err | some a => k a
  let p := PoolWrite.empty
  opt (PoolWrite.putClass p (jstr "C")) fun (thisI, p) =>
  opt (PoolWrite.putClass p (jstr "java/lang/Object")) fun (superI, p) =>
  opt (PoolWrite.putUtf8 p (jstr "m")) fun (nameI, p) =>
  opt (PoolWrite.putUtf8 p (jstr "()V")) fun (descI, p) =>
  opt (poolInsns p r.insns) fun (is, p, bs) =>
  match writeCode is with
  | .outOfFuel => .err
  | .err => .err
  | .panic => .panic
  | .ok res =>
    let lp := res.label
    if r.excs.length > 65535 then .err else
    opt (putCatches p r.excs) fun (excs, p) =>
    opt (excRows lp excs) fun excR =>
    -- StackMapTable: the first attribute of Code
    let frames := FrameWrite.framesOf res r.frames
    match FrameWrite.attr lp p frames with
    | .error .err => .err
    | .error .panic => .panic
    | .ok (smtA, p) =>
    -- LineNumberTable
    let lnt : R (Tab × PoolWrite.Pool) :=
      match r.lines with
      | none => .ok (none, p)
      | some ls =>
        if ls.length > 65535 then .err else
        match lineRows lp ls with
        | none => .err
        | some rows =>
          match attr p "LineNumberTable" (ClassWrite.tableBody rows) with
          | none => .err
          | some (a, p) => .ok (some (a, rows), p)
    match lnt with
    | .err => .err
    | .panic => .panic
    | .ok (lntT, p) =>
    let lvt (p : PoolWrite.Pool) (useSig : Bool) (name : String) : R (Tab × PoolWrite.Pool) :=
      match r.lvs with
      | none => .ok (none, p)
      | some vs =>
        match putLvs p useSig vs with
        | none => .err
        | some (lvs, p') =>
          if lvs.isEmpty then .ok (none, p) else
          if lvs.length > 65535 then .err else
          match lvRows lp lvs with
          | .error .err => .err
          | .error .panic => .panic
          | .ok rows =>
            match attr p' name (ClassWrite.tableBody rows) with
            | none => .err
            | some (a, p) => .ok (some (a, rows), p)
    match lvt p false "LocalVariableTable" with
    | .err => .err
    | .panic => .panic
    | .ok (lvtT, p) =>
    match lvt p true "LocalVariableTypeTable" with
    | .err => .err
    | .panic => .panic
    | .ok (lvttT, p) =>
    let sub (t : Tab) : List ClassWrite.Attr := match t with | none => [] | some (a, _) => [a]
    let codeAttr : ClassWrite.CodeAttr := ⟨7, 9, res.code, excR, smtA.toList ++ sub lntT ++ sub lvtT ++ sub lvttT⟩
    opt (attr p "Code" (ClassWrite.codeBody codeAttr)) fun (codeA, p) =>
    -- `BootstrapMethods`, after all members: the handles enter the pool now
    let bsm : R (List ClassWrite.Attr × List (Nat × List Nat) × PoolWrite.Pool) :=
      if bs.isEmpty then .ok ([], [], p) else
      if bs.length > 65535 then .err else
      match BootstrapWrite.rows p bs with
      | none => .err
      | some (rows, p) =>
        match attr p "BootstrapMethods" (BootstrapWrite.body rows) with
        | none => .err
        | some (a, p) => .ok ([a], rows, p)
    match bsm with
    | .err => .err
    | .panic => .panic
    | .ok (classAttrs, bsmRows, p) =>
    let img : ClassWrite.ClassImg :=
      ⟨0, 52, p.count, PoolWrite.inner p, 0x21, thisI, superI, [], [], [⟨0x9, nameI, descI, [codeA]⟩], classAttrs⟩
    .ok {
      file := ClassWrite.classBytes img, img := img
      res := res, insns := is, excRows := excR
      lnt := lntT.map (·.2), lvt := lvtT.map (·.2), lvtt := lvttT.map (·.2), frames := frames, smt := smtA,
      pool := p, bsms := bsmRows }

/-! ## answers -/

def fnv (b : Bytes) : UInt64 :=
  b.foldl (fun h x => (h ^^^ x.toUInt64) * 0x100000001b3) 0xcbf29ce484222325

def hex16 (v : UInt64) : String :=
  String.ofList ((List.range 16).map fun i => hexDigit ((v >>> (UInt64.ofNat (60 - 4 * i))).toNat % 16))

/-- short byte strings in full, long ones as length + FNV-1a hash -/
def blob (b : Bytes) : Sexp :=
  if b.length ≤ 4096 then ofBytes b else list [tag "h", ofNat b.length, atom (hex16 (fnv b))]

def rows (t : List (List Nat)) : Sexp := ofList (ofList ofNat) t

open FrameDecode (DType DFrame) in
def ofDType : DType → Sexp
  | .top => tag "top" | .int => tag "int" | .float => tag "float" | .double => tag "double" | .long => tag "long"
  | .null => tag "null" | .uninitThis => tag "uthis"
  | .object i => list [tag "obj", ofNat i]
  | .uninit o => list [tag "uninit", ofNat o]

open FrameDecode (DType DFrame) in
def ofDFrame : DFrame → Sexp
  | .same => list [tag "same"]
  | .same1 v => list [tag "same1", ofDType v]
  | .chop k => list [tag "chop", ofNat k]
  | .append ls => list [tag "append", ofList ofDType ls]
  | .full ls ss => list [tag "full", ofList ofDType ls, ofList ofDType ss]

/-- the `StackMapTable` as the decoder of JVMS §4.7.4 reads it: `()` = no attribute, `((offset frame)*)`, `(unparsable)` -/
def smtRows (a : Option ClassWrite.Attr) : Sexp :=
  match a with
  | none => list []
  | some (_, body) =>
    match FrameDecode.table body with
    | none => list [tag "unparsable"]
    | some ds => list [ofList (fun d => list [ofNat d.1, ofDFrame d.2]) ds]

def codeWriteAns (r : Req) : Ans :=
  match classFile r with
  | .err => .err "e"
  | .panic => .err "panic"
  | .ok o => .ok (list [blob o.file, list [ofNat 7, ofNat 9], blob o.res.code, rows o.excRows,
      ofOption rows o.lnt, ofOption rows o.lvt, ofOption rows o.lvtt, smtRows o.smt])

/-! ## oracles on the model -/

open CodeDecode CodeDenote

def clsAt (p : PoolWrite.Pool) (c : JStr) (i : Nat) : Bool :=
  match p.get i with | some (.cls u) => p.get u == some (.utf8 c) | _ => false

def natAt (p : PoolWrite.Pool) (n d : JStr) (i : Nat) : Bool :=
  match p.get i with
  | some (.nameAndType a b) => p.get a == some (.utf8 n) && p.get b == some (.utf8 d)
  | _ => false

/-- index `i` holds a reference of the requested kind to `c.n:d` -/
def refAt (p : PoolWrite.Pool) (kind : Nat) (c n d : JStr) (i : Nat) : Bool :=
  match p.get i with
  | some (.fieldRef a b) => kind == 9 && clsAt p c a && natAt p n d b
  | some (.methodRef a b) => kind == 10 && clsAt p c a && natAt p n d b
  | some (.ifaceMethodRef a b) => kind == 11 && clsAt p c a && natAt p n d b
  | _ => false

def handleAt (p : PoolWrite.Pool) (h : Handle) (i : Nat) : Bool :=
  match p.get i with
  | some (.methodHandle k r) => k == h.kind && refAt p h.refKind h.cls h.name h.desc r
  | _ => false

def rconstAt (p : PoolWrite.Pool) : RConst → Nat → Bool
  | .int v, i => p.get i == some (.int v)
  | .long v, i => p.get i == some (.long v)
  | .float b, i => p.get i == some (.float b)
  | .double b, i => p.get i == some (.double b)
  | .str s, i => (match p.get i with | some (.str u) => p.get u == some (.utf8 s) | _ => false)
  | .cls s, i => clsAt p s i
  | .mtype d, i => (match p.get i with | some (.methodType u) => p.get u == some (.utf8 d) | _ => false)
  | .mhandle h, i => handleAt p h i

def allRconstAt (p : PoolWrite.Pool) : List RConst → List Nat → Bool
  | [], [] => true
  | c :: cs, i :: is => rconstAt p c i && allRconstAt p cs is
  | _, _ => false

/-- the dynamic entry at `i` (tag `indy` = InvokeDynamic, else Dynamic) points at a row of the BootstrapMethods table
holding the requested handle and arguments, and at the requested name and descriptor -/
def dynAt (p : PoolWrite.Pool) (rows : List (Nat × List Nat)) (indy : Bool) (n d : JStr) (h : Handle) (as : List RConst)
    (i : Nat) : Bool :=
  let chk (b nt : Nat) : Bool :=
    natAt p n d nt && (match rows[b]? with | some (hi, ais) => handleAt p h hi && allRconstAt p as ais | none => false)
  match p.get i with
  | some (.invokeDynamic b nt) => indy && chk b nt
  | some (.dynamic b nt) => !indy && chk b nt
  | _ => false

/-- the constant the request asks for sits at the index the `ldc` uses -/
def constAt (p : PoolWrite.Pool) : RInsn → Insn → Bool
  | .plain _, _ => true
  | .ldcInt v, .ldc i false => p.get i == some (.int v)
  | .ldcFloat b, .ldc i false => p.get i == some (.float b)
  | .ldcLong v, .ldc i true => p.get i == some (.long v)
  | .ldcDouble b, .ldc i true => p.get i == some (.double b)
  | .ldcStr s, .ldc i false => match p.get i with | some (.str u) => p.get u == some (.utf8 s) | _ => false
  | .ldcCls s, .ldc i false => match p.get i with | some (.cls u) => p.get u == some (.utf8 s) | _ => false
  | .ref _ kind c n d, .cp _ i => refAt p kind c n d i
  | .invokeinterface c n d, .invokeinterface i _ => refAt p 11 c n d i
  | .clsOp _ c, .cp _ i => clsAt p c i
  | .multianewarray c _, .multianewarray i _ => clsAt p c i
  | .ldcConst c, .ldc i false => rconstAt p c i
  | .indy _ _ _ _, .invokedynamic _ => true
  | .ldcDyn _ _ _ _, .ldc _ _ => true
  | _, _ => false

def allConstAt (p : PoolWrite.Pool) : List RInsn → List Insn → Bool
  | [], [] => true
  | x :: xs, i :: is => constAt p x i && allConstAt p xs is
  | _, _ => false

def allDynAt (p : PoolWrite.Pool) (rows : List (Nat × List Nat)) : List RInsn → List Insn → Bool
  | [], [] => true
  | .indy n d h as :: xs, .invokedynamic i :: is => dynAt p rows true n d h as i && allDynAt p rows xs is
  | .ldcDyn n d h as :: xs, .ldc i _ :: is => dynAt p rows false n d h as i && allDynAt p rows xs is
  | _ :: xs, _ :: is => allDynAt p rows xs is
  | _, _ => false

/-- `ldc` is used exactly for indices up to 255 (decoded length 2), `ldc_w` above -/
def ldcForms : List (Nat × Nat × DInsn) → Bool
  | [] => true
  | (_, len, .ldc i) :: ds => ((len == 2) == decide (i ≤ 255)) && ldcForms ds
  | _ :: ds => ldcForms ds

/-- the `StackMapTable` body, read by the decoder of JVMS §4.7.4, denotes the frames of the request in the pool of the
file: every frame at the position of the instruction that carries it, `Object` types at class entries of that name,
`Uninitialized` types at the position of the labelled instruction (`Thm.C02.code_frames_write_read`); no frames, no
attribute -/
def framesDenoted (o : Out) : Bool :=
  match o.smt with
  | none => o.frames.isEmpty
  | some (_, body) =>
    !o.frames.isEmpty &&
    match FrameDecode.table body with
    | none => false
    | some ds => FrameDenote.denotesAll o.res.label o.pool o.frames ds

/-- `decode (write is)` denotes `is`: every instruction sits at its recorded position, every jump and switch arm lands
on its target instruction (trampolines allowed), constants are the requested ones. The tables are rows of label
positions by construction. -/
def oracleWriteRead (r : Req) : Ans :=
  match classFile r with
  | .ok o =>
    match decode o.res.code with
    | none => .ok (list [tag "fail", tag "undecodable"])
    | some ds =>
      if !matchAll o.res.label (fun k => o.res.pos[k]?) 0 o.insns ds then .ok (list [tag "fail", tag "differs"])
      else if !allConstAt o.pool r.insns.toList o.insns then .ok (list [tag "fail", tag "constant"])
      else if !allDynAt o.pool o.bsms r.insns.toList o.insns then .ok (list [tag "fail", tag "bootstrap"])
      else if !ldcForms ds then .ok (list [tag "fail", tag "ldc-form"])
      else if !framesDenoted o then .ok (list [tag "fail", tag "frames"])
      else .ok (tag "pass")
  | _ => .ok (tag "out-of-domain")

/-- `Thm.C02.frames_write_fails_iff` / `code_frames_never_panic`, evaluated: when the class without its frames can be
written and the pool has room for the classes of the `Object` types, the class with its frames is written exactly when
the table is expressible (`tableOk`), and is refused with an error (never a panic) otherwise -/
def oracleFramesFailIff (r : Req) : Ans :=
  match classFile { r with frames := r.frames.map (fun _ => none) } with
  | .ok o0 =>
    let fs := FrameWrite.framesOf o0.res r.frames
    if o0.pool.count + 2 * FrameDenote.objectsAll fs > 65535 then .ok (tag "out-of-domain") else
    let expressible := FrameDenote.tableOk o0.res.label fs
    match classFile r with
    | .panic => .ok (list [tag "fail", tag "panic"])
    | .ok _ => if expressible then .ok (tag "pass") else .ok (list [tag "fail", tag "accepted"])
    | .err => if expressible then .ok (list [tag "fail", tag "refused"]) else .ok (tag "pass")
  | _ => .ok (tag "out-of-domain")

def insnTargets : Insn → List Nat
  | .ifc _ t => [t] | .goto t => [t] | .jsr t => [t]
  | .tableswitch d _ _ tb => d :: tb
  | .lookupswitch d ps => d :: ps.map (·.2)
  | _ => []

def strictKeys : List (Int × Nat) → Bool
  | [] => true
  | [_] => true
  | a :: b :: rest => decide (a.1 < b.1) && strictKeys (b :: rest)

def frameVTypes : Frame → List VType
  | .same1 v => [v] | .append ls => ls | .full ls ss => ls ++ ss | _ => []

/-- the part of the domain of `oracle-wellformed` visible in the request: jumps and table starts designate
instructions (not the end of the code), lookupswitch keys strictly increase -/
def wellformedDomain (r : Req) : Bool :=
  let n := r.insns.size
  r.insns.all (fun x => match x with
    | .plain i => (insnTargets i).all (· < n) && (match i with | .lookupswitch _ ps => strictKeys ps | _ => true)
    | .multianewarray _ d => decide (1 ≤ d)
    | _ => true) &&
  r.excs.all (fun e => e.start < n && e.handler < n) &&
  (match r.lines with | none => true | some ls => ls.all (·.1 < n)) &&
  (match r.lvs with | none => true | some vs => vs.all (·.start < n)) &&
  -- JVMS §4.10.1.4: an `Uninitialized` type names the `new` instruction that created the object
  r.frames.all (fun f => match f with
    | none => true
    | some f => (frameVTypes f).all fun v => match v with
      | .uninit l => (match r.insns[l]? with | some (.clsOp 187 _) => true | _ => false)
      | _ => true)

def dframeTypes : FrameDecode.DFrame → List FrameDecode.DType
  | .same1 v => [v] | .append ls => ls | .full ls ss => ls ++ ss | _ => []

def dTargets : DInsn → List Int
  | .ifc _ a => [a] | .goto a => [a] | .jsr a => [a]
  | .tableswitch a _ _ os => a :: os
  | .lookupswitch a ps => a :: ps.map (·.2)
  | _ => []

def isUtf8 (p : PoolWrite.Pool) (i : Nat) : Bool := match p.get i with | some (.utf8 _) => true | _ => false
def isClass (p : PoolWrite.Pool) (i : Nat) : Bool := match p.get i with | some (.cls n) => isUtf8 p n | _ => false

def isNat (p : PoolWrite.Pool) (i : Nat) : Bool := match p.get i with | some (.nameAndType _ _) => true | _ => false

/-- the pool entry an instruction with opcode `op` may refer to -/
def cpKindOk (p : PoolWrite.Pool) (op i : Nat) : Bool :=
  match p.get i with
  | some (.fieldRef _ _) => 178 ≤ op && op ≤ 181
  | some (.methodRef _ _) => 182 ≤ op && op ≤ 184
  | some (.ifaceMethodRef _ _) => op == 183 || op == 184
  | some (.cls _) => op == 187 || op == 189 || op == 192 || op == 193
  | _ => false

/-- what `ldc` / `ldc_w` may load (JVMS §6.5: a loadable constant that is not long or double) -/
def loadable1 (p : PoolWrite.Pool) (i : Nat) : Bool :=
  match p.get i with
  | some (.int _) => true | some (.float _) => true | some (.str _) => true | some (.cls _) => true
  | some (.methodType _) => true | some (.methodHandle _ _) => true | some (.dynamic _ _) => true
  | _ => false

/-- what `ldc2_w` may load -/
def loadable2 (p : PoolWrite.Pool) (i : Nat) : Bool :=
  match p.get i with
  | some (.long _) => true | some (.double _) => true | some (.dynamic _ _) => true
  | _ => false

def slotsSum (p : PoolWrite.Pool) : Nat := (p.entries.map (fun e => PoolWrite.slots e.1)).foldl (· + ·) 0

/-- structural validity, evaluated on the model's components -/
def oracleWellformed (r : Req) : Ans :=
  if !wellformedDomain r then .ok (tag "out-of-domain") else
  match classFile r with
  | .ok o =>
    let fail (t : String) : Ans := .ok (list [tag "fail", tag t])
    let p := o.pool
    let n := o.res.code.length
    -- the independent parser (Spec/ClassParse.lean) reads the file back as the image that was written
    if ClassParse.classFile o.file != some o.img then fail "framing" else
    if (match o.img.methods with
        | [m] => (match m.attrs with
          | [(_, body)] => (match ClassParse.code body with
            | some c =>
              let expected : List (Nat × List (List Nat)) :=
                (o.lnt.map (fun t => (2, t))).toList ++ (o.lvt.map (fun t => (5, t))).toList ++
                  (o.lvtt.map (fun t => (5, t))).toList
              -- the StackMapTable, when there is one, is the first attribute of Code
              let tables := if o.smt.isSome then c.attrs.drop 1 else c.attrs
              c.code != o.res.code || c.excRows != o.excRows || tables.length != expected.length ||
                (o.smt.isSome && c.attrs.head? != o.smt) ||
                !((tables.zip expected).all fun (ae : ClassWrite.Attr × Nat × List (List Nat)) =>
                    ClassParse.table ae.2.1 ae.1.2 == some ae.2.2)
            | none => true)
          | _ => true)
        | _ => true) then fail "code-framing" else
    if n = 0 ∨ n > 65535 then fail "code-length" else
    if p.count ≠ 1 + slotsSum p then fail "pool-count" else
    if !(p.entries.all fun e => match e.1 with
        | .cls u => isUtf8 p u | .str u => isUtf8 p u
        | .nameAndType a b => isUtf8 p a && isUtf8 p b
        | .fieldRef a b => isClass p a && isNat p b
        | .methodRef a b => isClass p a && isNat p b
        | .ifaceMethodRef a b => isClass p a && isNat p b
        | .methodType a => isUtf8 p a
        | .methodHandle k r => (match p.get r with
          | some (.fieldRef _ _) => 1 ≤ k && k ≤ 4
          | some (.methodRef _ _) => 5 ≤ k && k ≤ 8
          | some (.ifaceMethodRef _ _) => k == 6 || k == 7 || k == 9
          | _ => false)
        | .dynamic b nt => decide (b < o.bsms.length) && isNat p nt
        | .invokeDynamic b nt => decide (b < o.bsms.length) && isNat p nt
        | _ => true) then fail "pool-reference" else
    if !(o.bsms.all fun row => (match p.get row.1 with | some (.methodHandle _ _) => true | _ => false) &&
        row.2.all fun a => loadable1 p a || loadable2 p a) then fail "bootstrap-row" else
    match decode o.res.code with
    | none => fail "undecodable"
    | some ds =>
      let starts := ds.map (·.1)
      let insnAt (a : Int) : Bool := starts.any (fun s => (s : Int) == a)
      let at_ (a : Nat) : Bool := starts.contains a
      if !(ds.all fun d => (dTargets d.2.2).all insnAt) then fail "branch-target" else
      if !ldcForms ds then fail "ldc-form" else
      if !(ds.all fun d => match d.2.2 with
          | .ldc i => loadable1 p i
          | .ldc2 i => loadable2 p i
          | .invokedynamic i => (match p.get i with | some (.invokeDynamic _ _) => true | _ => false)
          | .lookupswitch _ ps => strictKeys (ps.map fun kp => (kp.1, 0))
          | .cp op i => cpKindOk p op i
          | .invokeinterface i c => (match p.get i with | some (.ifaceMethodRef _ _) => true | _ => false) && decide (1 ≤ c)
          | .multianewarray i d => isClass p i && decide (1 ≤ d)
          | .newarray t => decide (4 ≤ t) && decide (t ≤ 11)
          | _ => true) then fail "ldc-kind" else
      if !(o.excRows.all fun row => match row with
          | [a, b, c, d] => at_ a && (at_ b || b == n) && at_ c && (d == 0 || isClass p d)
          | _ => false) then fail "exception" else
      if !((o.lnt.getD []).all fun row => match row with | [a, _] => at_ a | _ => false) then fail "line-pc" else
      if !(((o.lvt.getD []) ++ (o.lvtt.getD [])).all fun row => match row with
          | [a, l, ni, di, _] => at_ a && (at_ (a + l) || a + l == n) && isUtf8 p ni && isUtf8 p di
          | _ => false) then fail "local-variable" else
      -- StackMapTable (JVMS §4.7.4): named by a Utf8 entry, decodable to the last byte, every frame on an instruction
      -- boundary, Object types at class entries, Uninitialized types at a `new` instruction
      if !(match o.smt with
          | none => true
          | some (ni, body) => p.get ni == some (.utf8 FrameWrite.sStackMapTable) &&
            (match FrameDecode.table body with
            | none => false
            | some fs => fs.all fun f => at_ f.1 && (dframeTypes f.2).all fun v => match v with
              | .object i => isClass p i
              | .uninit off => at_ off && o.res.code[off]? == some 0xbb
              | _ => true)) then fail "stack-map" else
      .ok (tag "pass")
  | _ => .ok (tag "out-of-domain")

def containsSub (needle : Bytes) : Bytes → Bool
  | [] => needle.isEmpty
  | b :: bs => (needle.isPrefixOf (b :: bs)) || containsSub needle bs

def hasFrames (cls : Bytes) : Bool := containsSub (jstr "StackMapTable") cls

/-- the pool indices the `ldc`s of a method consisting of exactly these constants receive, and `constant_pool_count` -/
def poolPut (xs : Array RInsn) : Option (List Nat × Nat) := do
  let p := PoolWrite.empty
  let (_, p) ← PoolWrite.putClass p (jstr "C")
  let (_, p) ← PoolWrite.putClass p (jstr "java/lang/Object")
  let (_, p) ← PoolWrite.putUtf8 p (jstr "m")
  let (_, p) ← PoolWrite.putUtf8 p (jstr "()V")
  let (is, p, _) ← poolInsns p xs
  let (_, p) ← PoolWrite.putUtf8 p (jstr "Code")
  pure (is.filterMap (fun i => match i with | .ldc idx _ => some idx | _ => none), p.count)

def onlyLdc (xs : Array RInsn) : Bool := xs.all fun x => match x with
  | .ldcInt _ => true | .ldcLong _ => true | .ldcStr _ => true | .ldcCls _ => true | .ldcFloat _ => true
  | .ldcDouble _ => true | _ => false

end C02

open C02 in
def handleC02 (op : String) (args : List Sexp) : Option Ans :=
  match op, args with
  | "code-write", [i, e, l, v] => do
    let r ← parseReq i e l v
    pure (codeWriteAns r)
  | "oracle-write-read", [i, e, l, v] => do
    let r ← parseReq i e l v
    pure (oracleWriteRead r)
  | "oracle-wellformed", [i, e, l, v] => do
    let r ← parseReq i e l v
    pure (oracleWellformed r)
  -- the same with stack map frames attached to instructions: `((k frame)*)`, `k` strictly increasing
  | "code-write", [i, e, l, v, f] => do
    let r ← parseReq i e l v (some f)
    pure (codeWriteAns r)
  | "oracle-write-read", [i, e, l, v, f] => do
    let r ← parseReq i e l v (some f)
    pure (oracleWriteRead r)
  | "oracle-wellformed", [i, e, l, v, f] => do
    let r ← parseReq i e l v (some f)
    pure (oracleWellformed r)
  | "oracle-frames-fail-iff", [i, e, l, v, f] => do
    let r ← parseReq i e l v (some f)
    pure (oracleFramesFailIff r)
  | "pool-put", [es] => do
    let xs ← toList? es
    let is ← parseInsns xs
    if !onlyLdc is then none else
    pure (match poolPut is with
      | none => .err "e"
      | some (is, c) =>
        -- the code written for these constants must itself be writable (1..65535 bytes)
        let len := (is.map fun i => if i ≤ 255 then 2 else 3).foldl (· + ·) 0
        if len = 0 ∨ len > 65535 then .err "e" else .ok (list [ofList ofNat is, ofNat c]))
  | "cf-write-read", [b] => do
    let b ← toBytes? b
    -- since 6210871 the StackMapTable is written: every class of the domain reads back the same
    let _ := b
    pure (.ok (tag "same"))
  | "oracle-cf-write-read", [atom mode, b] => do
    let b ← toBytes? b
    -- full: read (write t) = t; partial: the same up to stack map frames (not written before 6210871) and empty tables
    let _ := (mode, b)
    pure (.ok (tag "pass"))
  -- the whole writer: read the class with C01's reader model, write the tree with `ClassWriteFull.writeClass`
  | "class-write", [b] => do
    let b ← toBytes? b
    pure (match ClassRead.read b with
      | .ok (t, _) =>
        (match ClassWriteFull.writeClass t with
         | .ok out => .ok (blob out)
         | .error .err => .err "e"
         | .error .panic => .err "panic")
      | .err => .ok (tag "unreadable")
      | .crash s => .panic s.file)
  -- `Thm.C02.class_write_read_partial` evaluated on the model, with its decidable domain `InWriterFragment`
  | "oracle-class-write-read", [b] => do
    let b ← toBytes? b
    pure (match ClassRead.read b with
      | .ok (t, _) =>
        if ClassWriteFull.InWriterFragment t then
          (match ClassWriteFull.writeClass t with
           | .ok out =>
             (match ClassRead.read out with
              | .ok (raw, []) =>
                -- both sides with their labels resolved (`ClassFacts.resolve`): label ids as instruction indices
                (match raw.resolve, t.resolve with
                 | some t', some t0 =>
                   if t'.toSexp.toStr == t0.toSexp.toStr then .ok (tag "pass") else .ok (list [tag "fail", tag "differs"])
                 | _, _ => .ok (list [tag "fail", tag "dangling"]))
              | _ => .ok (list [tag "fail", tag "reread"]))
           | .error .err => .ok (tag "out-of-domain")
           | .error .panic => .ok (list [tag "fail", tag "panic"]))
        else .ok (tag "out-of-domain")
      | _ => .ok (tag "out-of-domain"))
  | "model-attempts", [i] => do
    -- model only (debugging aid for the generators): number of attempts of the retry loop
    let xs ← toList? i
    let is ← parseInsns xs
    pure (match writeCode (plainInsns is) with
      | .ok res => .ok (ofNat (res.wide.length + 1))
      | _ => .err "e")
  | _, _ => none

def main : IO Unit := Driver.run handleC02
