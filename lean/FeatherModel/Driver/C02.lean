import FeatherModel.Base.Driver
import FeatherModel.Model.CodeWrite
import FeatherModel.Model.PoolWrite
import FeatherModel.Spec.CodeDenote

open Driver Sexp CodeWrite

/-! Driver for C02. Request grammar: see `harness/src/bin/c02.rs`. -/

namespace C02

/-- request-level instruction: model instruction or an `ldc` still carrying its constant -/
inductive RInsn where
  | plain (i : Insn)
  | ldcInt (v : Int)
  | ldcLong (v : Int)
  | ldcStr (s : JStr)
  | ldcCls (s : JStr)
  | ldcFloat (bits : Nat)
  | ldcDouble (bits : Nat)

def condOf : Nat → Option Cond
  | 0 => some .eq | 1 => some .ne | 2 => some .lt | 3 => some .ge | 4 => some .gt | 5 => some .le
  | 6 => some .icmpeq | 7 => some .icmpne | 8 => some .icmplt | 9 => some .icmpge | 10 => some .icmpgt | 11 => some .icmple
  | 12 => some .acmpeq | 13 => some .acmpne | 14 => some .null | 15 => some .nonnull
  | _ => none

def parsePair (s : Sexp) : Option (Int × Nat) :=
  match s with
  | list [k, t] => do pure ((← toInt? k), (← toNat? t))
  | _ => none

def parseInsn1 : Sexp → Option RInsn
  | list [atom "s", op] => do pure (.plain (.simple (← toNat? op)))
  | list [atom "bi", v] => do pure (.plain (.bipush (← toInt? v)))
  | list [atom "si", v] => do pure (.plain (.sipush (← toInt? v)))
  | list [atom "ldc-int", v] => do pure (.ldcInt (← toInt? v))
  | list [atom "ldc-long", v] => do pure (.ldcLong (← toInt? v))
  | list [atom "ldc-str", s] => do pure (.ldcStr (← toJStr? s))
  | list [atom "ldc-cls", s] => do pure (.ldcCls (← toJStr? s))
  | list [atom "ldc-float", v] => do pure (.ldcFloat (← toNat? v))
  | list [atom "ldc-double", v] => do pure (.ldcDouble (← toNat? v))
  | list [atom "ld", k, i] => do pure (.plain (.load (← toNat? k) (← toNat? i)))
  | list [atom "st", k, i] => do pure (.plain (.store (← toNat? k) (← toNat? i)))
  | list [atom "iinc", i, v] => do pure (.plain (.iinc (← toNat? i) (← toInt? v)))
  | list [atom "ret", i] => do pure (.plain (.ret (← toNat? i)))
  | list [atom "if", c, t] => do pure (.plain (.ifc (← condOf (← toNat? c)) (← toNat? t)))
  | list [atom "goto", t] => do pure (.plain (.goto (← toNat? t)))
  | list [atom "jsr", t] => do pure (.plain (.jsr (← toNat? t)))
  | list [atom "ts", d, lo, hi, tb] => do
    pure (.plain (.tableswitch (← toNat? d) (← toInt? lo) (← toInt? hi) (← toListOf? toNat? tb)))
  | list [atom "ls", d, ps] => do pure (.plain (.lookupswitch (← toNat? d) (← toListOf? parsePair ps)))
  | _ => none

def parseInsns (xs : List Sexp) : Option (Array RInsn) :=
  xs.foldlM (init := #[]) fun acc x =>
    match x with
    | list [atom "rep", n, y] => do
      let n ← toNat? n
      let i ← parseInsn1 y
      pure (acc ++ Array.replicate n i)
    | y => do pure (acc.push (← parseInsn1 y))

structure RExc where
  start : Nat
  stop : Nat
  handler : Nat
  catch_ : Option JStr

structure RLv where
  start : Nat
  stop : Nat
  name : JStr
  desc : Option JStr
  sig : Option JStr
  index : Nat

def parseExc : Sexp → Option RExc
  | list [s, e, h, c] => do pure ⟨← toNat? s, ← toNat? e, ← toNat? h, ← toOption? toJStr? c⟩
  | _ => none

def parseLine : Sexp → Option (Nat × Nat)
  | list [l, n] => do pure ((← toNat? l), (← toNat? n))
  | _ => none

def parseLv : Sexp → Option RLv
  | list [s, e, n, d, g, i] => do
    pure ⟨← toNat? s, ← toNat? e, ← toJStr? n, ← toOption? toJStr? d, ← toOption? toJStr? g, ← toNat? i⟩
  | _ => none

structure Req where
  insns : Array RInsn
  excs : List RExc
  lines : Option (List (Nat × Nat))
  lvs : Option (List RLv)

def parseReq (i e l v : Sexp) : Option Req := do
  let xs ← toList? i
  pure ⟨← parseInsns xs, ← toListOf? parseExc e, ← toOption? (toListOf? parseLine) l, ← toOption? (toListOf? parseLv) v⟩

/-- resolve the `ldc`s through the pool, in instruction order (what the first attempt of `write_code` does) -/
def poolInsns (p : PoolWrite.Pool) (xs : Array RInsn) : Option (List Insn × PoolWrite.Pool) := do
  let (acc, p) ← xs.foldlM (init := ((#[] : Array Insn), p)) fun (acc, p) x =>
    match x with
    | .plain i => some (acc.push i, p)
    | .ldcInt v => do let (i, p) ← PoolWrite.put p (.int v); pure (acc.push (.ldc i false), p)
    | .ldcLong v => do let (i, p) ← PoolWrite.put p (.long v); pure (acc.push (.ldc i true), p)
    | .ldcStr s => do let (i, p) ← PoolWrite.putString p s; pure (acc.push (.ldc i false), p)
    | .ldcCls s => do let (i, p) ← PoolWrite.putClass p s; pure (acc.push (.ldc i false), p)
    | .ldcFloat b => do let (i, p) ← PoolWrite.put p (.float b); pure (acc.push (.ldc i false), p)
    | .ldcDouble b => do let (i, p) ← PoolWrite.put p (.double b); pure (acc.push (.ldc i true), p)
  pure (acc.toList, p)

/-- instructions with `ldc`s replaced by fixed indices (for the ops that do not care about the pool) -/
def plainInsns (xs : Array RInsn) : List Insn :=
  (xs.map fun x => match x with
    | .plain i => i
    | .ldcLong _ => Insn.ldc 300 true
    | .ldcDouble _ => Insn.ldc 300 true
    | _ => Insn.ldc 7 false).toList

def u32b := CodeWrite.u32b

/-- `write_attribute`: body first, then the name goes to the pool -/
def attr (p : PoolWrite.Pool) (name : String) (body : Bytes) : Option (Bytes × PoolWrite.Pool) := do
  let (i, p) ← PoolWrite.putUtf8 p (jstr name)
  if body.length > 4294967295 then none else
  pure (u16b i ++ u32b body.length ++ body, p)

def putCatches (p : PoolWrite.Pool) : List RExc → Option (List Exc × PoolWrite.Pool)
  | [] => some ([], p)
  | e :: es => do
    let (ci, p) ← match e.catch_ with
      | none => some (0, p)
      | some c => PoolWrite.putClass p c
    let (rest, p) ← putCatches p es
    pure (⟨e.start, e.stop, e.handler, ci⟩ :: rest, p)

def putLvs (p : PoolWrite.Pool) (useSig : Bool) : List RLv → Option (List Lv × PoolWrite.Pool)
  | [] => some ([], p)
  | v :: vs =>
    match (if useSig then v.sig else v.desc) with
    | none => putLvs p useSig vs
    | some d => do
      let (ni, p) ← PoolWrite.putUtf8 p v.name
      let (di, p) ← PoolWrite.putUtf8 p d
      let (rest, p) ← putLvs p useSig vs
      pure (⟨v.start, v.stop, ni, di, v.index⟩ :: rest, p)

inductive R (α : Type) where
  | ok (a : α)
  | err
  | panic

/-- The whole class file the real writer produces for the harness' skeleton class
(`C extends java/lang/Object`, one method `m()V` with the requested code). -/
def classFile (r : Req) : R Bytes :=
  let opt {α} (o : Option α) (k : α → R Bytes) : R Bytes := match o with | none => .err | some a => k a
  let p := PoolWrite.empty
  opt (PoolWrite.putClass p (jstr "C")) fun (thisI, p) =>
  opt (PoolWrite.putClass p (jstr "java/lang/Object")) fun (superI, p) =>
  opt (PoolWrite.putUtf8 p (jstr "m")) fun (nameI, p) =>
  opt (PoolWrite.putUtf8 p (jstr "()V")) fun (descI, p) =>
  opt (poolInsns p r.insns) fun (is, p) =>
  match writeCode is with
  | .outOfFuel => .err
  | .err => .err
  | .panic => .panic
  | .ok res =>
    let lp := res.label
    if r.excs.length > 65535 then .err else
    opt (putCatches p r.excs) fun (excs, p) =>
    opt (excBytes lp excs) fun excB =>
    -- LineNumberTable
    let lnt : R (Bytes × Nat × PoolWrite.Pool) :=
      match r.lines with
      | none => .ok ([], 0, p)
      | some ls =>
        if ls.length > 65535 then .err else
        match lineBytes lp ls with
        | none => .err
        | some b =>
          match attr p "LineNumberTable" (u16b ls.length ++ b) with
          | none => .err
          | some (a, p) => .ok (a, 1, p)
    match lnt with
    | .err => .err
    | .panic => .panic
    | .ok (lntB, c1, p) =>
    let lvt (p : PoolWrite.Pool) (useSig : Bool) (name : String) : R (Bytes × Nat × PoolWrite.Pool) :=
      match r.lvs with
      | none => .ok ([], 0, p)
      | some vs =>
        match putLvs p useSig vs with
        | none => .err
        | some (lvs, p') =>
          if lvs.isEmpty then .ok ([], 0, p) else
          if lvs.length > 65535 then .err else
          match lvBytes lp lvs with
          | .error .err => .err
          | .error .panic => .panic
          | .ok b =>
            match attr p' name (u16b lvs.length ++ b) with
            | none => .err
            | some (a, p) => .ok (a, 1, p)
    match lvt p false "LocalVariableTable" with
    | .err => .err
    | .panic => .panic
    | .ok (lvtB, c2, p) =>
    match lvt p true "LocalVariableTypeTable" with
    | .err => .err
    | .panic => .panic
    | .ok (lvttB, c3, p) =>
    let body := u16b 7 ++ u16b 9 ++ u32b res.code.length ++ res.code ++ u16b excs.length ++ excB ++
      u16b (c1 + c2 + c3) ++ lntB ++ lvtB ++ lvttB
    opt (attr p "Code" body) fun (codeAttr, p) =>
    .ok ([0xca, 0xfe, 0xba, 0xbe, 0, 0, 0, 52] ++ PoolWrite.bytes p ++
      u16b 0x21 ++ u16b thisI ++ u16b superI ++ u16b 0 ++ u16b 0 ++ u16b 1 ++
      u16b 0x9 ++ u16b nameI ++ u16b descI ++ u16b 1 ++ codeAttr ++ u16b 0)

/-! ## oracles on the model -/

open CodeDecode CodeDenote in
/-- `decode (write is)` denotes `is` (every jump, switch arm lands on its target instruction, trampolines allowed) -/
def oracleWriteRead (is : List Insn) : Ans :=
  match writeCode is with
  | .ok res =>
    match decode res.code with
    | none => .ok (list [tag "fail", tag "undecodable"])
    | some ds =>
      if matchAll res.label (fun k => res.pos[k]?) 0 is ds then .ok (tag "pass") else .ok (list [tag "fail", tag "differs"])
  | _ => .ok (tag "out-of-domain")

open CodeDecode CodeDenote in
/-- every branching instruction, decoded at its recorded position, lands on the recorded position of its target -/
def oracleJumpsLand (is : List Insn) : Ans :=
  match writeCode is with
  | .ok res =>
    let lp := res.label
    -- `rest` = code from address `cur` on (addresses only grow, so the array is walked once)
    let rec go (k : Nat) (cur : Nat) (rest : Bytes) : List Insn → Bool
      | [] => true
      | i :: more =>
        match res.pos[k]? with
        | none => false
        | some pc =>
          if pc < cur then false else
          let rest := rest.drop (pc - cur)
          match decodeOne pc rest with
          | none => false
          | some (d, len) =>
            (denote1 lp i d ||
             (match i, d, decodeOne (pc + len) (rest.drop len) with
              | .ifc c t, .ifc op a, some (.goto g, len2) =>
                op == negIf c.opcode && a == ((pc + len + len2 : Nat) : Int) && lands lp t g
              | _, _, _ => false)) && go (k + 1) pc rest more
    if go 0 0 res.code is then .ok (tag "pass") else .ok (list [tag "fail", tag "jump"])
  | _ => .ok (tag "out-of-domain")

def containsSub (needle : Bytes) : Bytes → Bool
  | [] => needle.isEmpty
  | b :: bs => (needle.isPrefixOf (b :: bs)) || containsSub needle bs

def hasFrames (cls : Bytes) : Bool := containsSub (jstr "StackMapTable") cls

/-- the pool indices the `ldc`s of a method consisting of exactly these constants receive, and `constant_pool_count` -/
def poolPut (xs : Array RInsn) : Option (List Nat × Nat) := do
  let p := PoolWrite.empty
  let (_, p) ← PoolWrite.putClass p (jstr "C")
  let (_, p) ← PoolWrite.putClass p (jstr "java/lang/Object")
  let (_, p) ← PoolWrite.putUtf8 p (jstr "m")
  let (_, p) ← PoolWrite.putUtf8 p (jstr "()V")
  let (is, p) ← poolInsns p xs
  let (_, p) ← PoolWrite.putUtf8 p (jstr "Code")
  pure (is.filterMap (fun i => match i with | .ldc idx _ => some idx | _ => none), p.count)

end C02

open C02 in
def handleC02 (op : String) (args : List Sexp) : Option Ans :=
  match op, args with
  | "code-write", [i, e, l, v] => do
    let r ← parseReq i e l v
    pure (match classFile r with
      | .ok b => .ok (ofBytes b)
      | .err => .err "e"
      | .panic => .err "panic")
  | "oracle-write-read", [i] => do
    let xs ← toList? i
    let is ← parseInsns xs
    pure (oracleWriteRead (plainInsns is))
  | "oracle-jumps-land", [i] => do
    let xs ← toList? i
    let is ← parseInsns xs
    pure (oracleJumpsLand (plainInsns is))
  | "pool-put", [es] => do
    let xs ← toList? es
    let is ← parseInsns xs
    pure (match poolPut is with
      | none => .err "e"
      | some (is, c) => .ok (list [ofList ofNat is, ofNat c]))
  | "cf-write-read", [b] => do
    let b ← toBytes? b
    pure (if hasFrames b then .ok (list [tag "differs", tag "frames"]) else .ok (tag "same"))
  | "oracle-cf-write-read", [atom mode, b] => do
    let b ← toBytes? b
    pure (if mode == "partial" && hasFrames b then .ok (tag "out-of-domain") else .ok (tag "pass"))
  | _, _ => none

def main : IO Unit := Driver.run handleC02
