import FeatherModel.Base.Driver
import FeatherModel.Model.VisitTree

/-!
Driver for C17. Requests carry the class bytes (for the implementation; the model only uses their length), the framing
computed by the harness's independent parser, and the visitor configurations.

  read <bytes> (<frame>…) (<cfg>…)            successive reads on one stream
  replay <bytes> <frame> <cfg>                tree of the full read replayed into a visitor configured by cfg
  oracle-projection / oracle-consumed / oracle-concat / oracle-decline-local / oracle-replay / oracle-full-read
  oracle-replay-projection / oracle-replay-masked / oracle-replay-masked-full / oracle-replay-masked-nolocals
  oracle-members-skipped / replay-both / oracle-replay-both
-/

open Driver Sexp Visit

namespace C17

def kinds : List (String × K) :=
  [("dep", .deprecated), ("syn", .synthetic), ("inner", .innerClasses), ("encl", .enclosingMethod), ("sig", .signature),
   ("srcfile", .sourceFile), ("srcdbg", .sourceDebugExtension), ("rva", .rva), ("ria", .ria), ("rvta", .rvta),
   ("rita", .rita), ("module", .module), ("modpkgs", .modulePackages), ("modmain", .moduleMainClass),
   ("nesthost", .nestHost), ("nestmem", .nestMembers), ("permitted", .permittedSubclasses), ("record", .record),
   ("bsm", .bootstrapMethods), ("constval", .constantValue), ("code", .code), ("exc", .exceptions), ("rvpa", .rvpa),
   ("ripa", .ripa), ("annodef", .annotationDefault), ("mparams", .methodParameters), ("smt", .stackMapTable),
   ("smap", .stackMap), ("lnt", .lineNumberTable), ("lvt", .lvt), ("lvtt", .lvtt), ("other", .other)]

def kindOf? (s : String) : Option K := (kinds.find? (·.1 == s)).map (·.2)
def kindTag (k : K) : String := ((kinds.find? (·.2 == k)).map (·.1)).getD "?"

def toK? (s : Sexp) : Option K := do kindOf? (← toTag? s)

def toPay? (s : Sexp) : Option Pay := toListOf? toNat? s

def toAttr? : Sexp → Option Attr
  | .list [k, len, used, pay] => do
    pure { k := ← toK? k, len := ← toNat? len, used := ← toNat? used, pay := ← toPay? pay }
  | _ => none

def toMAttr? : Sexp → Option MAttr
  | .list [.atom "Code", len, hdr, maxs, insns, exc, attrs] => do
    pure (.code { len := ← toNat? len, hdr := ← toNat? hdr, maxs := ← toNat? maxs, insns := ← toNat? insns,
                  exc := ← toNat? exc, attrs := ← toListOf? toAttr? attrs })
  | s => (toAttr? s).map .leaf

def toRecComp? : Sexp → Option RecComp
  | .list [h, attrs] => do pure { h := ← toNat? h, attrs := ← toListOf? toAttr? attrs }
  | _ => none

def toCAttr? : Sexp → Option CAttr
  | .list [.atom "Record", len, comps] => do pure (.record (← toNat? len) (← toListOf? toRecComp? comps))
  | s => (toAttr? s).map .leaf

/-- a member is `(h attrs)`; a third element `f` says that its name / descriptor index does not resolve to a valid name -/
def toField? : Sexp → Option Field
  | .list [h, attrs] => do pure { h := ← toNat? h, attrs := ← toListOf? toAttr? attrs }
  | .list [h, attrs, ok] => do pure { h := ← toNat? h, attrs := ← toListOf? toAttr? attrs, ok := ← toBool? ok }
  | _ => none

def toMethod? : Sexp → Option Method
  | .list [h, attrs] => do pure { h := ← toNat? h, attrs := ← toListOf? toMAttr? attrs }
  | .list [h, attrs, ok] => do pure { h := ← toNat? h, attrs := ← toListOf? toMAttr? attrs, ok := ← toBool? ok }
  | _ => none

def toFrame? : Sexp → Option ClassFrame
  | .list [ok, hdr, h, fields, methods, attrs] => do
    pure { hdrOk := ← toBool? ok, hdr := ← toNat? hdr, h := ← toNat? h, fields := ← toListOf? toField? fields,
           methods := ← toListOf? toMethod? methods, attrs := ← toListOf? toCAttr? attrs }
  | _ => none

/-- a mask is the list of kinds whose interest flag is set -/
def toMask? (s : Sexp) : Option Mask := do
  let ks ← toListOf? toK? s
  pure (fun k => ks.contains k)

def toMethodCfg? : Sexp → Option MethodCfg
  | .list [mask, code, codeV] => do
    pure { mask := ← toMask? mask, code := ← toBool? code, codeV := ← toOption? toMask? codeV }
  | _ => none

def fullMc' : MethodCfg := { mask := allMask, code := true, codeV := some allMask }

/-- per-item choices are lists indexed by the item's position; past the end the visitor is the full one -/
def toCfg? : Sexp → Option Cfg
  | .list [cls, fi, mi, fields, methods, recs] => do
    let fs ← toListOf? (toOption? toMask?) fields
    let ms ← toListOf? (toOption? toMethodCfg?) methods
    let rs ← toListOf? (toOption? toMask?) recs
    pure { cls := ← toOption? toMask? cls, fieldsI := ← toBool? fi, methodsI := ← toBool? mi,
           field := fun i => (fs[i]?).getD (some allMask),
           method := fun i => (ms[i]?).getD (some fullMc'),
           recc := fun i => (rs[i]?).getD (some allMask) }
  | _ => none

def ofPay (p : Pay) : Sexp := ofList ofNat p
def sumPay (p : Pay) : Nat := p.foldl (· + ·) 0
def ofUnk (u : Bool) : Sexp := tag (if u then "u" else "k")

/-- identity rendering of an event (what the recording visitor of the harness prints as well) -/
def ofEv : Ev → Sexp
  | .classBegin h => list [tag "c-begin", ofNat h]
  | .cAttr u k p => list [tag "c-attr", ofUnk u, tag (kindTag k), ofPay p]
  | .recBegin r h => list [tag "r-begin", ofNat r, ofNat h]
  | .rAttr r u k p => list [tag "r-attr", ofNat r, ofUnk u, tag (kindTag k), ofPay p]
  | .recEnd r => list [tag "r-end", ofNat r]
  | .classFlags d s => list [tag "c-flags", ofBool d, ofBool s]
  | .fieldBegin i h => list [tag "f-begin", ofNat i, ofNat h]
  | .fAttr i u k p => list [tag "f-attr", ofNat i, ofUnk u, tag (kindTag k), ofPay p]
  | .fieldFlags i d s => list [tag "f-flags", ofNat i, ofBool d, ofBool s]
  | .fieldEnd i => list [tag "f-end", ofNat i]
  | .methodBegin i h => list [tag "m-begin", ofNat i, ofNat h]
  | .mAttr i u k p => list [tag "m-attr", ofNat i, ofUnk u, tag (kindTag k), ofPay p]
  | .codeBegin i => list [tag "k-begin", ofNat i]
  | .codeMaxs i h => list [tag "k-maxs", ofNat i, ofNat h]
  | .kAttr i u k p => list [tag "k-attr", ofNat i, ofUnk u, tag (kindTag k), ofPay p]
  | .codeInsns i fr h => list [tag "k-insns", ofNat i, ofNat ((fr.map sumPay).getD 0), ofNat h]
  | .codeExc i h => list [tag "k-exc", ofNat i, ofNat h]
  | .codeLines i parts => list [tag "k-lines", ofNat i, ofNat (parts.foldl (fun a p => a + sumPay p) 0)]
  | .codeLocals i parts =>
    -- entries that carry a descriptor, entries that carry a signature (one with both counts twice)
    list [tag "k-locals", ofNat i, ofNat ((parts.filter (fun x => x.1 != .s)).foldl (fun a p => a + sumPay p.2) 0),
          ofNat ((parts.filter (fun x => x.1 != .d)).foldl (fun a p => a + sumPay p.2) 0)]
  | .codeEnd i => list [tag "k-end", ofNat i]
  | .methodFlags i d s => list [tag "m-flags", ofNat i, ofBool d, ofBool s]
  | .methodEnd i => list [tag "m-end", ofNat i]
  | .classEnd => list [tag "c-end"]

def ofRes : R (Nat × List Ev) → Sexp
  | .ok (n, evs) => list [tag "ok", ofNat n, ofList ofEv evs]
  | .error .err => tag "err"
  | .error .desync => tag "desync"

def byteLen (s : Sexp) : Option Nat :=
  match s with
  | .atom a => if a.startsWith "x" then some ((a.length - 1) / 2) else none
  | _ => none

def pass : Ans := .ok (tag "pass")
def ood : Ans := .ok (tag "out-of-domain")
def fail (t : String) : Ans := .ok (list [tag "fail", tag t])

/-- domain of the oracles: every file of the stream is well formed and the stream holds exactly these files -/
def inDomain (cs : List ClassFrame) (total : Nat) : Bool :=
  cs.all wellFormed && total == (cs.map ClassFrame.size).foldl (· + ·) 0

def isOk : R (Nat × List Ev) → Bool
  | .ok _ => true
  | _ => false

/-- events of the class itself and its record components -/
def isClassLevel : Ev → Bool
  | .classBegin _ | .cAttr .. | .classFlags .. | .classEnd | .recBegin .. | .rAttr .. | .recEnd _ => true
  | _ => false

def evsOf : R (Nat × List Ev) → List Ev
  | .ok (_, e) => e
  | _ => []

def handle (op : String) (args : List Sexp) : Option Ans :=
  match op, args with
  | "read", [bytes, frames, cfgs] => do
    let total ← byteLen bytes
    let cs ← toListOf? toFrame? frames
    let cfgs ← toListOf? toCfg? cfgs
    pure (.ok (ofList ofRes (readStream cfgs cs 0 total)))
  | "replay", [_, frame, cfg] => do
    let c ← toFrame? frame
    let cfg ← toCfg? cfg
    pure (if !wellFormed c then .err "e" else
      match build (fullEvents c) with
      | some t => .ok (ofList ofEv (accept cfg t))
      | none => .err "e")
  | "oracle-projection", [bytes, frames, cfgs] => do
    let total ← byteLen bytes
    let cs ← toListOf? toFrame? frames
    let cfgs ← toListOf? toCfg? cfgs
    pure (if !inDomain cs total || cfgs.length != cs.length then ood else
      let masked := readStream cfgs cs 0 total
      let fullR := readStream (cs.map (fun _ => full)) cs 0 total
      if masked.length != cs.length || fullR.length != cs.length then fail "short" else
      if (List.zip cfgs (List.zip masked fullR)).all (fun (cfg, m, f) =>
          isOk m && isOk f && evsOf m == (evsOf f).filterMap (proj cfg)) then pass else fail "projection")
  | "oracle-consumed", [bytes, frames, cfgs] => do
    let total ← byteLen bytes
    let cs ← toListOf? toFrame? frames
    let cfgs ← toListOf? toCfg? cfgs
    pure (if !inDomain cs total || cfgs.length != cs.length then ood else
      let masked := readStream cfgs cs 0 total
      if masked.length != cs.length then fail "short" else
      if (List.zip cs masked).all (fun (c, m) => match m with | .ok (n, _) => n == c.size | _ => false)
      then pass else fail "consumed")
  | "oracle-concat", [bytes, frames, cfgs] => do
    let total ← byteLen bytes
    let cs ← toListOf? toFrame? frames
    let cfgs ← toListOf? toCfg? cfgs
    pure (if !inDomain cs total || cfgs.length != cs.length then ood else
      let masked := readStream cfgs cs 0 total
      if masked.length != cs.length then fail "short" else
      if (List.zip (List.zip cfgs cs) masked).all (fun ((cfg, c), m) => m == readWith cfg c c.size)
      then pass else fail "concat")
  | "oracle-decline-local", [bytes, frame, cfg, what, idx] => do
    let total ← byteLen bytes
    let c ← toFrame? frame
    let cfg ← toCfg? cfg
    let what ← toTag? what
    let j ← toNat? idx
    pure (if !inDomain [c] total then ood else
      let (cfg', keep) : Cfg × (Ev → Bool) :=
        match what with
        | "field" => ({ cfg with field := fun i => if i = j then none else cfg.field i },
                      fun e => match e with
                        | .fieldBegin i _ | .fAttr i _ _ _ | .fieldFlags i _ _ | .fieldEnd i => i != j | _ => true)
        | "method" => ({ cfg with method := fun i => if i = j then none else cfg.method i },
                      fun e => match e with
                        | .methodBegin i _ | .mAttr i _ _ _ | .methodFlags i _ _ | .methodEnd i | .codeBegin i
                        | .codeMaxs i _ | .kAttr i _ _ _ | .codeInsns i _ _ | .codeExc i _ | .codeLines i _
                        | .codeLocals i _ | .codeEnd i => i != j
                        | _ => true)
        | "code" => ({ cfg with method := fun i =>
                        if i = j then (cfg.method i).map (fun mc => { mc with codeV := none }) else cfg.method i },
                      fun e => match e with
                        | .codeBegin i | .codeMaxs i _ | .kAttr i _ _ _ | .codeInsns i _ _ | .codeExc i _
                        | .codeLines i _ | .codeLocals i _ | .codeEnd i => i != j
                        | _ => true)
        | _ => ({ cfg with recc := fun i => if i = j then none else cfg.recc i },
                      fun e => match e with
                        | .recBegin i _ | .rAttr i _ _ _ | .recEnd i => i != j | _ => true)
      let a := readWith cfg c total
      let b := readWith cfg' c total
      if isOk a && isOk b && (evsOf a).filter keep == (evsOf b).filter keep
          && (match a, b with | .ok (n, _), .ok (n', _) => n == n' && n == c.size | _, _ => false)
      then pass else fail "decline")
  | "oracle-replay", [bytes, frame] => do
    let total ← byteLen bytes
    let c ← toFrame? frame
    pure (if !inDomain [c] total then ood else
      match build (fullEvents c) with
      | none => ood
      | some t =>
        match build (accept full t) with
        | none => fail "rebuild"
        | some t' => if accept full t' == accept full t then pass else fail "replay")
  | "oracle-full-read", [bytes, frames] => do
    let total ← byteLen bytes
    let cs ← toListOf? toFrame? frames
    pure (if !inDomain cs total then ood else
      let rs := readStream (cs.map (fun _ => full)) cs 0 total
      if rs.length == cs.length
          && (List.zip cs rs).all (fun (c, r) => match r with | .ok (n, _) => n == c.size | _ => false)
      then pass else fail "full-read")
  | "oracle-replay-projection", [bytes, frame, cfg] => do
    let total ← byteLen bytes
    let c ← toFrame? frame
    let cfg ← toCfg? cfg
    pure (if !inDomain [c] total then ood else
      match build (fullEvents c) with
      | none => ood
      | some t => if accept cfg t == (accept full t).filterMap (projA cfg) then pass else fail "replay-projection")
  | "replay-both", [_, frame, cfg] => do
    -- the tree of the full read with a descriptor and a signature put into every local variable entry, replayed
    let c ← toFrame? frame
    let cfg ← toCfg? cfg
    pure (if !wellFormed c then .err "e" else
      match build (fullEvents c) with
      | some t => .ok (ofList ofEv (accept cfg t.bothHalves))
      | none => .err "e")
  | "oracle-replay-both", [bytes, frame, cfg] => do
    -- `accept_projection_as_read` / `_up_to_empty` on such a tree: masked replay = the reader's projection of the full
    -- replay (halves stripped), up to `visit_local_variables` calls without entries
    let total ← byteLen bytes
    let c ← toFrame? frame
    let cfg ← toCfg? cfg
    pure (if !inDomain [c] total then ood else
      match build (fullEvents c) with
      | none => ood
      | some t =>
        let t := t.bothHalves
        if (accept cfg t).filter (fun e => !e.vacuous) == ((accept full t).filterMap (proj cfg)).filter (fun e => !e.vacuous)
        then pass else fail "replay-both")
  | "oracle-replay-masked", [bytes, frame, cfg] => do
    -- `accept_projection_as_read` (per item and kind; local variable vectors without entries say nothing): replay = read
    -- for every visitor — fields / methods on or off, any stack map interest, any local variable interests
    let total ← byteLen bytes
    let c ← toFrame? frame
    let cfg ← toCfg? cfg
    pure (if !inDomain [c] total then ood else
      match build (fullEvents c) with
      | none => ood
      | some t =>
        match readWith cfg c total with
        | .ok (_, evs) => if sameDigest (accept cfg t) evs then pass else fail "replay-masked"
        | _ => fail "read")
  | "oracle-replay-masked-full", [bytes, frame, cfg] => do
    -- the property as stated (replay = read for every visitor), without any restriction on the visitor (since 52da0aa,
    -- 47a6ce7 and e55a129 the same as `oracle-replay-masked`; kept for the recorded witness lines)
    let total ← byteLen bytes
    let c ← toFrame? frame
    let cfg ← toCfg? cfg
    pure (if !inDomain [c] total then ood else
      match build (fullEvents c) with
      | none => ood
      | some t =>
        match readWith cfg c total with
        | .ok (_, evs) => if sameDigest (accept cfg t) evs then pass else fail "replay-masked"
        | _ => fail "read")
  | "oracle-replay-masked-nolocals", [bytes, frame, cfg] => do
    -- `accept_projection_as_read`: for every visitor, replay = read on everything but `visit_local_variables`
    let total ← byteLen bytes
    let c ← toFrame? frame
    let cfg ← toCfg? cfg
    pure (if !inDomain [c] total then ood else
      match build (fullEvents c) with
      | none => ood
      | some t =>
        match readWith cfg c total with
        | .ok (_, evs) =>
          if sameDigest ((accept cfg t).filter (fun e => !(e matches .codeLocals ..)))
              (evs.filter (fun e => !(e matches .codeLocals ..))) then pass else fail "replay-masked"
        | _ => fail "read")
  | "oracle-members-skipped", [bytes, frames, cfgs] => do
    -- `members_skipped_read_spec`: class visitors without interest in fields and methods (or declining the class) read a
    -- stream of files whose headers and class attributes are fine, one file per read — whatever is inside the members
    let total ← byteLen bytes
    let cs ← toListOf? toFrame? frames
    let cfgs ← toListOf? toCfg? cfgs
    pure (if !(cs.all classLevelWf && total == (cs.map ClassFrame.size).foldl (· + ·) 0) || cfgs.length != cs.length
          || !cfgs.all (fun cfg => cfg.cls.isNone || (!cfg.fieldsI && !cfg.methodsI)) then ood else
      let rs := readStream cfgs cs 0 total
      if rs.length != cs.length then fail "short" else
      if (List.zip cs rs).all (fun (c, r) => match r with
          | .ok (n, evs) => n == c.size && evs.all isClassLevel
          | _ => false)
      then pass else fail "members-skipped")
  | _, _ => none

end C17

def main : IO Unit := Driver.run C17.handle
