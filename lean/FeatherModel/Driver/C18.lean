import FeatherModel.Base.Driver
import FeatherModel.Model.Descriptor
import FeatherModel.Model.InnerNames

open Driver Sexp Descriptor

namespace C18Drv

/-! ## codec of type structures -/

def primTag : Prim → String
  | .B => "B" | .C => "C" | .D => "D" | .F => "F" | .I => "I" | .J => "J" | .S => "S" | .Z => "Z"

def primOfTag : String → Option Prim
  | "B" => some .B | "C" => some .C | "D" => some .D | "F" => some .F
  | "I" => some .I | "J" => some .J | "S" => some .S | "Z" => some .Z
  | _ => none

def baseTo : Base → Sexp
  | .prim p => tag (primTag p)
  | .obj n => list [tag "obj", ofJStr n]

def tyTo : Ty → Sexp
  | .prim p => tag (primTag p)
  | .obj n => list [tag "obj", ofJStr n]
  | .arr d b => list [tag "arr", ofNat d, baseTo b]

def methodTo (m : List Ty × Option Ty) : Sexp :=
  list [ofList tyTo m.1, ofOption tyTo m.2]

def baseFrom : Sexp → Option Base
  | atom a => (primOfTag a).map Base.prim
  | list [atom "obj", n] => (toJStr? n).map Base.obj
  | _ => none

def tyFrom : Sexp → Option Ty
  | atom a => (primOfTag a).map Ty.prim
  | list [atom "obj", n] => (toJStr? n).map Ty.obj
  | list [atom "arr", d, b] => do
    let d ← toNat? d
    let b ← baseFrom b
    pure (.arr d b)
  | _ => none

/-- can safe Rust construct this value?  `Type::Object` holds an `ObjClassName`, `ArrayType::Object` a `ClassName`,
the dimension is a `u8` -/
def constructible : Ty → Bool
  | .prim _ => true
  | .obj n => validObj n
  | .arr d (.prim _) => d ≤ 255
  | .arr d (.obj n) => validClass n && d ≤ 255

/-! ## independent recognisers for the oracles (mirror of the harness's `is_field_desc` etc.; they do not use the
parser model) -/

def isIdent (s : JStr) : Bool := !s.isEmpty && s.all (fun c => !(c == 46 || c == 59 || c == 91 || c == 47))
def isMethodIdent (s : JStr) : Bool :=
  s == jstr "<init>" || s == jstr "<clinit>" ||
    (!s.isEmpty && s.all (fun c => !(c == 46 || c == 59 || c == 91 || c == 47 || c == 60 || c == 62)))

def pieces (sep : Nat) (s : JStr) : List JStr :=
  let rec go (s : JStr) (cur : JStr) (acc : List JStr) : List JStr :=
    match s with
    | [] => (cur.reverse :: acc).reverse
    | c :: rest => if c == sep then go rest [] (cur.reverse :: acc) else go rest (c :: cur) acc
  go s [] []

def isClassName (s : JStr) : Bool := (pieces 47 s).all isIdent

/-- length of the field type at the start of `s` -/
def fieldTypeLen (s : JStr) : Option Nat :=
  let d := (s.takeWhile (· == 91)).length
  if d > 255 then none else
  match s.drop d with
  | [] => none
  | c :: rest =>
    if c == 66 || c == 67 || c == 68 || c == 70 || c == 73 || c == 74 || c == 83 || c == 90 then some (d + 1)
    else if c == 76 then
      let name := rest.takeWhile (· != 59)
      if name.length < rest.length && isClassName name then some (d + 1 + name.length + 1) else none
    else none

def isFieldDesc (s : JStr) : Bool := fieldTypeLen s == some s.length
def isReturnDesc (s : JStr) : Bool := s == [86] || isFieldDesc s
def isArrayDesc (s : JStr) : Bool := s.head? == some 91 && isFieldDesc s

partial def methodSlotsGo (s : JStr) (acc : List Nat) : Option (List Nat) :=
  match s with
  | [] => none
  | c :: rest =>
    if c == 41 then (if isReturnDesc rest then some acc.reverse else none)
    else match fieldTypeLen s with
      | none => none
      | some 0 => none
      | some n => methodSlotsGo (s.drop n) ((if n == 1 && (c == 68 || c == 74) then 2 else 1) :: acc)

def methodSlots (s : JStr) : Option (List Nat) :=
  match s with
  | 40 :: rest => methodSlotsGo rest []
  | _ => none

def nameValid (kind : String) (s : JStr) : Option Bool :=
  match kind with
  | "class" => some (validClass s)
  | "arr" => some (validArr s)
  | "obj" => some (validObj s)
  | "field" => some (validUnqualified s)
  | "method" => some (validMethod s)
  | "param" => some (validUnqualified s)
  | "local" => some (validUnqualified s)
  | "fdesc" | "mdesc" | "rdesc" => some (validDescriptorNewtype s)
  | _ => none

/-- the *documented* meaning of each name type -/
def nameSpec (kind : String) (s : JStr) : Option Bool :=
  match kind with
  | "arr" => some (isArrayDesc s)
  | "class" => some (isArrayDesc s || isClassName s)
  | "obj" => some (isClassName s)
  | "field" | "param" | "local" => some (isIdent s)
  | "method" => some (isMethodIdent s)
  | _ => none

def failT (t : String) : Ans := .ok (list [tag "fail", tag t])
def passT : Ans := .ok (tag "pass")
def oodT : Ans := .ok (tag "out-of-domain")

def printed : Option JStr → Ans
  | some s => .ok (ofJStr s)
  | none => .ok (tag "panic")

end C18Drv

open C18Drv

def handleC18 (op : String) (args : List Sexp) : Option Ans :=
  match op, args with
  | "desc-parse", [atom k, s] => do
    let s ← toJStr? s
    match k with
    | "field" => pure (match parseField s with | some t => .ok (tyTo t) | none => .err "e")
    | "method" => pure (match parseMethod s with | some m => .ok (methodTo m) | none => .err "e")
    | "return" => pure (match parseReturn s with | some t => .ok (ofOption tyTo t) | none => .err "e")
    | _ => none
  | "desc-parse3", [s] => do
    let s ← toJStr? s
    pure (.ok (list [ofOption tyTo (parseField s), ofOption methodTo (parseMethod s),
      ofOption (ofOption tyTo) (parseReturn s)]))
  | "desc-print", [atom "field", t] => do
    let t ← tyFrom t
    pure (if constructible t then printed (printTy t) else .err "e")
  | "desc-print", [atom "return", t] => do
    let t ← toOption? tyFrom t
    pure (if (match t with | some t => constructible t | none => true) then printed (printReturn t) else .err "e")
  | "desc-print", [atom "method", ps, rt] => do
    let ps ← toListOf? tyFrom ps
    let rt ← toOption? tyFrom rt
    pure (if ps.all constructible && (match rt with | some t => constructible t | none => true)
      then printed (printMethod ps rt) else .err "e")
  | "name-valid", [atom k, s] => do
    let s ← toJStr? s
    let b ← nameValid k s
    pure (.ok (ofBool b))
  | "args-size", [s] => do
    let s ← toJStr? s
    pure (match argsSize s with | .ok n => .ok (ofNat n) | .err => .err "e" | .overflow => .ok (tag "overflow"))
  | "split", [s] => do
    let s ← toJStr? s
    pure (if validObj s then
      .ok (ofOption (fun (p, i) => list [ofJStr p, ofJStr i]) (InnerNames.split s)) else .err "e")
  | "inner-parts", [s] => do
    -- `get_inner_class_parent` / `get_inner_class_name`: the two halves of `split` (`Thm.C18.inner_parts_are_split`)
    let s ← toJStr? s
    pure (if validObj s then
      .ok (list [ofOption ofJStr (InnerNames.innerParent s), ofOption ofJStr (InnerNames.innerName s)]) else .err "e")
  | "join", [p, i] => do
    let p ← toJStr? p; let i ← toJStr? i
    pure (if validObj p && validObj i then .ok (ofJStr (InnerNames.join p i)) else .err "e")
  | "simple-name", [s] => do
    let s ← toJStr? s
    pure (if validObj s then .ok (ofJStr (simpleName s)) else .err "e")
  | "arr-dimension", [s] => do
    let s ← toJStr? s
    pure (if validArr s then (match dimension s with | some d => .ok (ofNat d) | none => .ok (tag "panic")) else .err "e")
  | "from-class", [s] => do
    let s ← toJStr? s
    pure (if validClass s then .ok (ofJStr (fromClass s)) else .err "e")
  | "oracle-accepts", [s] => do
    let s ← toJStr? s
    pure (if (parseField s).isSome != isFieldDesc s then failT "field"
      else if (parseReturn s).isSome != isReturnDesc s then failT "return"
      else if (parseMethod s).isSome != (methodSlots s).isSome then failT "method"
      else passT)
  | "oracle-parse-print", [s] => do
    let s ← toJStr? s
    let f := parseField s; let r := parseReturn s; let m := parseMethod s
    pure (
      if (match f with | some t => printTy t != some s | none => false) then failT "field"
      else if (match r with | some t => printReturn t != some s | none => false) then failT "return"
      else if (match m with | some (ps, rt) => printMethod ps rt != some s | none => false) then failT "method"
      else if f.isSome || r.isSome || m.isSome then passT else oodT)
  | "oracle-print-parse", [ps, rt] => do
    let ps ← toListOf? tyFrom ps
    let rt ← toOption? tyFrom rt
    let all := match rt with | some t => t :: ps | none => ps
    pure (
      if !(all.all constructible) then oodT
      else if !(all.all Ty.wf) then oodT
      else if ps.any (fun t => match printTy t with | some s => parseField s != some t | none => true) then failT "field"
      else if all.any (fun t => match printReturn (some t) with | some s => parseReturn s != some (some t) | none => true) then failT "return"
      else if (match printReturn rt with | some s => parseReturn s != some rt | none => true) then failT "return"
      else match printMethod ps rt with
        | some s => if parseMethod s == some (ps, rt) then passT else failT "method"
        | none => failT "method_panic")
  | "oracle-args-size", [s] => do
    let s ← toJStr? s
    pure (match methodSlots s with
      | none => oodT
      | some slots =>
        let want := 1 + slots.foldl (· + ·) 0
        if want > 255 then oodT else
        match argsSize s with
        | .ok n => if n == want then passT else failT "size"
        | .err => failT "err"
        | .overflow => failT "overflow")
  | "oracle-name-spec", [atom k, s] => do
    let s ← toJStr? s
    let a ← nameValid k s
    let b ← nameSpec k s
    pure (if a == b then passT else failT k)
  | "oracle-join-split", [p, i] => do
    let p ← toJStr? p; let i ← toJStr? i
    pure (if !validObj p || !validUnqualified i || i.contains 36 then oodT else
      let j := InnerNames.join p i
      if !validObj j then failT "join_invalid"
      else if InnerNames.split j == some (p, i) then passT else failT "differs")
  | "oracle-dimension", [s] => do
    let s ← toJStr? s
    -- `dimension_total`: on every valid `ArrClassName`, no panic and the number of leading `[`
    pure (if !validArr s then oodT
      else if !isArrayDesc s then failT "valid_not_desc"
      else if dimension s == some (s.takeWhile (· == 91)).length then passT else failT "dimension")
  | "oracle-from-class", [s] => do
    let s ← toJStr? s
    pure (if !validClass s then oodT
      else if isArrayDesc s then (if fromClass s == s then passT else failT "arr")
      else if isClassName s then
        (if fromClass s == 76 :: s ++ [59] && parseField (fromClass s) == some (.obj s) then passT else failT "obj")
      else oodT)
  | "oracle-simple-name", [s] => do
    let s ← toJStr? s
    pure (if !validObj s then oodT
      else if simpleName s == ((pieces 47 s).getLast?.getD []) then passT else failT "simple")
  | "oracle-split-join", [s] => do
    let s ← toJStr? s
    pure (if !validObj s then oodT else
      match InnerNames.split s with
      | none => oodT
      | some (p, i) =>
        if !validObj p || !validObj i then failT "part_invalid"
        else if InnerNames.join p i == s then passT else failT "differs")
  | _, _ => none

def main : IO Unit := Driver.run handleC18
