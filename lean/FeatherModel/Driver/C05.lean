import FeatherModel.Base.Driver
import FeatherModel.Model.VersionGraph
import FeatherModel.Model.InnerNames
import FeatherModel.Model.Diff

/-!
# Driver of C05 (version graph)
Request: `<op> <base> (<file>…) (<query>…) [(<label>…)]`
  file    := (<name> <rank> <content>)        files are given in the listing order `read_dir` produced for the harness
  content := (tiny <mappings>) | (tinyw <mappings>) | (diff <diff>) | (raw x<bytes>)
  label   := (<node name> <mappings>)
Contents are passed as the S-expressions of `mapcodec` / `diffcodec` (text parsing is C03 / C04): the content pipeline is
`readRoot = contract_inner_class_names("named")`, `apply = MappingsDiff::apply_to(_, "named")`,
`extend = extend_inner_class_names("named")`, each followed by sorting of the entries (mapping sets are compared and
printed up to entry order). A `tiny` content in a `.tinydiff` file, a `diff` content in a `.tiny` file and the four fixed
`raw` contents are unreadable.
-/

namespace C05
open Driver Sexp Codec VG

/-! ## canonical entry order -/

def jlt : List Nat → List Nat → Bool
  | [], [] => false
  | [], _ :: _ => true
  | _ :: _, [] => false
  | a :: as, b :: bs => if a < b then true else if b < a then false else jlt as bs

def keyLt (a b : MemberKey) : Bool := jlt a.1 b.1 || (a.1 == b.1 && jlt a.2 b.2)

def insertBy {α : Type} (lt : α → α → Bool) (x : α) : List α → List α
  | [] => [x]
  | y :: ys => if lt x y then x :: y :: ys else y :: insertBy lt x ys

def sortBy {α : Type} (lt : α → α → Bool) (xs : List α) : List α := xs.foldr (insertBy lt) []

def canonMethod (m : Method) : Method := { m with params := sortBy (fun a b => a.1 < b.1) m.params }

def canonClass (c : Class) : Class :=
  { c with fields := sortBy (fun a b => keyLt a.1 b.1) c.fields,
           methods := sortBy (fun a b => keyLt a.1 b.1) (c.methods.map fun (k, m) => (k, canonMethod m)) }

def canon (m : Mappings) : Mappings :=
  { m with classes := sortBy (fun a b => jlt a.1 b.1) (m.classes.map fun (k, c) => (k, canonClass c)) }

/-! ## the content pipeline -/

inductive FileContent where
  | tiny (m : Mappings)
  | diff (d : DiffModel.Diff)
  | raw (b : Bytes)

def NAMED : JStr := jstr "named"

/-- the only raw contents the harness uses; both readers of /repo reject them -/
def rawAllowed : List Bytes := [[], jstr "garbage\n", jstr "tiny\t3\t0\n", [255, 254, 10]]

/-- file contents are referred to by their index in the request -/
def content (tbl : List FileContent) : Content Mappings DiffModel.Diff where
  readRoot b :=
    match b with
    | [i] =>
      match tbl[i]? with
      | some (.tiny m) => (InnerNames.contract m NAMED).map canon
      | _ => none
    | _ => none
  readDiff b :=
    match b with
    | [i] =>
      match tbl[i]? with
      | some (.diff d) => some d
      | _ => none
    | _ => none
  apply d m := (DiffModel.applyTo d m NAMED).map canon
  extend m := (InnerNames.extend m NAMED).map canon

/-! ## request decoding -/

def contentFrom : Sexp → Option FileContent
  | list [atom "tiny", m] => do
    let m ← mappingsFrom m
    if m.ns.length = 2 then pure (.tiny m) else none
  -- the same mapping set, the file written by the writer of /repo instead of the harness (the request ships the set itself)
  | list [atom "tinyw", m] => do
    let m ← mappingsFrom m
    if m.ns.length = 2 then pure (.tiny m) else none
  | list [atom "diff", d] => do let d ← DiffCodec.diffFrom d; pure (.diff d)
  | list [atom "raw", b] => do
    let b ← toBytes? b
    if rawAllowed.contains b then pure (.raw b) else none
  | _ => none

def fileFrom : Sexp → Option (JStr × Nat × FileContent)
  | list [n, r, c] => do
    let n ← toJStr? n; let r ← toNat? r; let c ← contentFrom c
    if n.isEmpty then none else pure (n, r, c)
  | _ => none

structure Req where
  dir : List (JStr × Bytes)
  tbl : List FileContent
  queries : List JStr

def indexed {α : Type} (xs : List α) : List (Nat × α) :=
  let rec go : List α → Nat → List (Nat × α)
    | [], _ => []
    | x :: rest, i => (i, x) :: go rest (i + 1)
  go xs 0

def nodupB (xs : List JStr) : Bool :=
  match xs with
  | [] => true
  | x :: rest => !rest.contains x && nodupB rest

def reqFrom (base files queries : Sexp) : Option Req := do
  let b ← toNat? base
  if b > 1 then none
  let fs ← toListOf? fileFrom files
  let qs ← toListOf? toJStr? queries
  if !nodupB (fs.map (·.1)) then none
  pure { dir := (indexed fs).map (fun (i, f) => (f.1, [i])), tbl := fs.map (·.2.2), queries := qs }

/-! ## canonical answer of `resolve` + `get` + `apply_diffs` -/

def splitTag : Split → Sexp
  | .none => tag "none"
  | .first => tag "first"
  | .second => tag "second"

def dedup {α : Type} [BEq α] : List α → List α
  | [] => []
  | x :: rest => if (dedup rest).contains x then dedup rest else x :: dedup rest

def resTo : Option Mappings → Sexp
  | some m => list [tag "ok", mappingsTo m]
  | none => tag "err"

/-- what is printed for `apply_diffs(v)`: the answer when all admissible answers agree, `(amb k t)` when `k ≥ 2`
different ones exist (the implementation side adds whether its answer is one of them), `(unreachable t)` when there is
no path (`t`: the implementation reports an error) -/
def applyTo (c : Content Mappings DiffModel.Diff) (r : Resolved Mappings) (v : JStr) : Sexp :=
  match dedup (applyDiffs c r v) with
  | [] => list [tag "unreachable", tag "t"]
  | [a] => resTo a
  | as => list [tag "amb", ofNat as.length, tag "t"]

def sortedNodes (r : Resolved Mappings) : List JStr := sortBy jlt r.graph.nodes

def edgeLt (a b : JStr × JStr) : Bool := jlt a.1 b.1 || (a.1 == b.1 && jlt a.2 b.2)

def vgAnswer (c : Content Mappings DiffModel.Diff) (dir : List (JStr × Bytes)) (queries : List JStr) : Option Sexp :=
  match resolve c dir with
  | none => none
  | some r =>
    let nodes := sortedNodes r
    some (list [
      list [tag "root", ofJStr r.rootName, mappingsTo r.rootMapping],
      list (tag "nodes" :: nodes.map fun n => list [ofJStr n, ofNat (depth r n)]),
      list (tag "edges" :: (sortBy edgeLt (r.graph.edges.map fun e => (e.parent, e.child))).map
        fun e => list [ofJStr e.1, ofJStr e.2]),
      list (tag "get" :: queries.map fun q =>
        list [ofJStr q, ofOption (fun (sp, n) => list [splitTag sp, ofJStr n]) (get r q)]),
      list (tag "apply" :: nodes.map fun n => list [ofJStr n, applyTo c r n])])

def ansOf : Option Sexp → Ans
  | some s => .ok s
  | none => .err "e"

/-! ## oracles (same decidable domains as the harness) -/

def pass : Ans := .ok (tag "pass")
def ood : Ans := .ok (tag "out-of-domain")
def fail (t : String) : Ans := .ok (list [tag "fail", tag t])

def rotate {α : Type} (xs : List α) : List α :=
  match xs with
  | [] => []
  | x :: rest => rest ++ [x]

def insertions {α : Type} (x : α) : List α → List (List α)
  | [] => [[x]]
  | y :: ys => (x :: y :: ys) :: (insertions x ys).map (y :: ·)

def permutations {α : Type} : List α → List (List α)
  | [] => [[]]
  | x :: xs => (permutations xs).flatMap (insertions x)

/-- `Thm.C05.resolve_perm`, `resolve_perm_eq`, `answers_perm`: the canonical answer is the same in other listing orders
(`all`: in every listing order of the files) -/
def oraclePerm (c : Content Mappings DiffModel.Diff) (req : Req) (all : Bool := false) : Ans :=
  if all && req.dir.length > 6 then ood else
  let base := (vgAnswer c req.dir req.queries).map Sexp.toStr
  let others := if all then permutations req.dir else
    [req.dir.reverse, rotate req.dir, rotate (rotate req.dir), sortBy (fun a b => jlt a.1 b.1) req.dir,
      (sortBy (fun a b => jlt a.1 b.1) req.dir).reverse]
  if others.all fun d => (vgAnswer c d req.queries).map Sexp.toStr == base then pass else fail "order"

/-- `Thm.C05.lookup_names`, `unknown_version`: what every version string of a file name and every other name looks up -/
def oracleNames (c : Content Mappings DiffModel.Diff) (req : Req) : Ans :=
  match resolve c req.dir with
  | none => ood
  | some r =>
    let vss := dirVersions req.dir
    let okNames := vss.all fun vs =>
      match splitOnce TILDE vs with
      | none =>
        match ownerOf vss vs with
        | some (sp, n) => get r vs == some (sp, n)
        | none => get r vs == some (Split.none, vs)
      | some (cl, sv) => get r cl == some (Split.first, vs) && (sv == cl || get r sv == some (Split.second, vs))
    let okUnknown := req.queries.all fun q =>
      (vss.any fun vs => (keyKind q vs).isSome) || (get r q).isNone
    if !okNames then fail "names" else if !okUnknown then fail "unknown" else pass

/-- reachability in the graph the file names describe -/
def reachFrom (edges : List (JStr × JStr)) : Nat → List JStr → List JStr
  | 0, seen => seen
  | fuel + 1, seen =>
    let next := (edges.filter fun e => seen.contains e.1 && !seen.contains e.2).map (·.2)
    if next.isEmpty then seen else reachFrom edges fuel (seen ++ dedup next)

/-- `Thm.C05.resolve_error_iff` (`bad_diff_name_is_error`, `no_root_is_error`, `two_roots_is_error`,
`ambiguous_is_error`, `second_diff_is_error`, `cycle_is_error`, `acyclic_resolves`), `unreachable_is_error`,
`reachable_has_answer`, evaluated from the file names alone -/
def oracleErrors (c : Content Mappings DiffModel.Diff) (req : Req) : Ans :=
  let vss := dirVersions req.dir
  let roots := dirRoots req.dir
  let res := resolve c req.dir
  let mustFail (t : String) : Ans := if res.isNone then pass else fail t
  if req.dir.any badDiffName then mustFail "bad-name-accepted"
  else if roots.length = 0 then mustFail "no-root-accepted"
  else if roots.length ≥ 2 then mustFail "two-roots-accepted"
  else if ambiguousB vss then mustFail "ambiguous-accepted"
  else if dupEdgesB req.dir then mustFail "second-diff-accepted"
  else
    match roots with
    | [(rootStr, rb)] =>
      let rootName := nodeOf vss rootStr
      let edges := (nodeEdges req.dir).map fun e => (e.parent, e.child)
      let reach := reachFrom edges (edges.length + 1) [rootName]
      -- a reachable cycle: an edge between reachable nodes whose child reaches its parent
      let cyc := edges.any fun e => reach.contains e.1 &&
        (reachFrom edges (edges.length + 1) [e.2]).contains e.1
      if cyc then mustFail "cycle-accepted"
      else
        match res with
        | none => if (c.readRoot rb).isNone then pass else fail "rejected"
        | some r =>
          let okNodes := sortBy jlt r.graph.nodes == sortBy jlt (dedup (nodeStrings vss))
          let okReach := r.graph.nodes.all fun n =>
            if reach.contains n then !(applyDiffs c r n).isEmpty else (applyDiffs c r n).isEmpty
          if !okNodes then fail "nodes" else if okReach then pass else fail "reachability"
    | _ => ood

/-- `Thm.C05.apply_is_fold`: on the model side the answer set is the set of folds by construction. The harness side
computes the expected folds from the request alone (contracted root content, specification of diff application over the
diff contents of a shortest path of the file-name graph, specification of the extension) and compares `apply_diffs` with
them; its domain "the property says the directory resolves" is decided from the request and is compared here with the
model's `resolve`. -/
def oracleFold (c : Content Mappings DiffModel.Diff) (req : Req) : Ans :=
  match resolve c req.dir with
  | none => ood
  | some _ => pass

def labelFrom : Sexp → Option (JStr × Mappings)
  | list [n, m] => do let n ← toJStr? n; let m ← mappingsFrom m; pure (n, canon m)
  | _ => none

/-- `Thm.C05.path_independent` with its hypotheses `Consistent` and `label root = root mappings` as the domain -/
def oraclePathIndependent (c : Content Mappings DiffModel.Diff) (req : Req) (labels : List (JStr × Mappings)) : Ans :=
  match resolve c req.dir with
  | none => ood
  | some r =>
    let label := fun n => AList.lookup n labels
    let consistent := r.graph.edges.all fun e =>
      match label e.parent with
      | none => true
      | some mp =>
        match c.readDiff e.content with
        | none => false
        | some d =>
          match c.apply d mp, label e.child with
          | some mc, some lc => mc == lc
          | _, _ => false
    if !(consistent && label r.rootName == some r.rootMapping) then ood else
    let ok := r.graph.nodes.all fun n =>
      (applyDiffs c r n).all fun a =>
        match label n with
        | some mv => a == c.extend mv
        | none => false
    if ok then pass else fail "path"

def handleC05 (op : String) (args : List Sexp) : Option Ans :=
  match op, args with
  | "vg", [b, fs, qs] => do
    let req ← reqFrom b fs qs
    pure (ansOf (vgAnswer (content req.tbl) req.dir req.queries))
  | "oracle-fold", [b, fs, qs] => do
    let req ← reqFrom b fs qs
    pure (oracleFold (content req.tbl) req)
  | "oracle-perm-full", [b, fs, qs] => do
    -- the name under which the former restriction-free replay op is recorded in known_findings.json
    let req ← reqFrom b fs qs
    pure (oraclePerm (content req.tbl) req)
  | "oracle-perm-all", [b, fs, qs] => do
    let req ← reqFrom b fs qs
    pure (oraclePerm (content req.tbl) req true)
  | "oracle-names", [b, fs, qs] => do
    let req ← reqFrom b fs qs
    pure (oracleNames (content req.tbl) req)
  | "oracle-errors", [b, fs, qs] => do
    let req ← reqFrom b fs qs
    pure (oracleErrors (content req.tbl) req)
  | "oracle-path-independent", [b, fs, qs, ls] => do
    let req ← reqFrom b fs qs
    let ls ← toListOf? labelFrom ls
    pure (oraclePathIndependent (content req.tbl) req ls)
  | _, _ => none

end C05

def main : IO Unit := Driver.run C05.handleC05
