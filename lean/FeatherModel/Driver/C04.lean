import FeatherModel.Base.Driver
import FeatherModel.Model.DiffSpec

open Driver Sexp Codec DiffCodec DiffModel

/-- key uniqueness at every level of a mapping set (what `IndexMap` guarantees on the Rust side) -/
def keysUnique (m : Mappings) : Bool := decide (KeysUnique m)

/-- the node `apply_diff_map` hands to the child closure for key `k` -/
def entryInput {K D T : Type} (ops : Ops K D T) (ns N : Nat) (k : K) (d : D) : Option T → T
  | some t =>
    match ops.action d with
    | .add b => ops.setNames t ((ops.names t).set ns (some b))
    | .edit _ b => ops.setNames t ((ops.names t).set ns (some b))
    | _ => t
  | none =>
    let t := ops.fromKey N k
    match ops.action d with
    | .add b => ops.setNames t ((ops.names t).set ns (some b))
    | _ => t

/-- `apply_exact` evaluated on the model at every level -/
def exactDeep (d : Diff) (t r : Mappings) (ns : Nat) : Bool :=
  let N := t.ns.length
  some r.ns == applyInfo d.info t.ns ns &&
  some r.doc == applyOption d.doc t.doc &&
  exactAt classOps ns N (applyClass ns N) d.classes t.classes r.classes &&
  d.classes.all fun (k, dc) =>
    match AList.lookup k r.classes with
    | none => true
    | some rc =>
      let tc := entryInput classOps ns N k dc (AList.lookup k t.classes)
      some rc.doc == applyOption dc.doc tc.doc &&
      exactAt fieldOps ns N applyField dc.fields tc.fields rc.fields &&
      exactAt methodOps ns N (applyMethod ns N) dc.methods tc.methods rc.methods &&
      dc.methods.all fun (mk, dm) =>
        match AList.lookup mk rc.methods with
        | none => true
        | some rm =>
          let tm := entryInput methodOps ns N mk dm (AList.lookup mk tc.methods)
          some rm.doc == applyOption dm.doc tm.doc &&
          exactAt paramOps ns N applyParam dm.params tm.params rm.params

def refusedTop (d : Diff) (t : Mappings) (ns : Nat) : Bool :=
  let N := t.ns.length
  (applyInfo d.info t.ns ns).isNone || (applyOption d.doc t.doc).isNone ||
    refusedAt classOps ns N (applyClass ns N) d.classes t.classes

def failTag (s : String) : Ans := .ok (list [tag "fail", tag s])
def passTag : Ans := .ok (tag "pass")
def oodTag : Ans := .ok (tag "out-of-domain")

/-- domain of `diff_apply`; gives the diff and the target namespace name -/
def diffApplyDomain (a b : Mappings) : Option (Diff × JStr) :=
  if !(decide (WF a) && decide (WF b)) then none else
  match diff a b with
  | none => none
  | some d =>
    match a.ns[1]? with
    | none => none
    | some nsName =>
      if a.getNamespace nsName != some 1 then none
      else if !decide (ParamSrcless a b) then none
      else some (d, nsName)

/-- `text` (lines separated by LF, cells by TAB) with cell 4 — the source cell — of its first parameter row (`\t\tp\t…`)
replaced by `src`; `none`: there is no such row (mirror of `with_param_src` in harness/src/bin/c04.rs) -/
def withParamSrc (text src : JStr) : Option JStr :=
  let lines := TinyDiff.splitOn TinyDiff.LF text
  match lines.findIdx? (fun l => l.take 4 == [9, 9, 112, 9]) with
  | none => none
  | some i =>
    let cells := TinyDiff.splitOn TinyDiff.TAB (lines.getD i [])
    if cells.length ≤ 4 then none else
    some (List.intercalate [TinyDiff.LF] (lines.set i (List.intercalate [TinyDiff.TAB] (cells.set 4 src))))

def handleC04 (op : String) (args : List Sexp) : Option Ans :=
  match op, args with
  | "apply", [d, t, ns] => do
    let d ← diffFrom d; let t ← mappingsFrom t; let ns ← toJStr? ns
    pure (match applyTo d t ns with | some r => .ok (mappingsTo r) | none => .err "e")
  | "diff", [a, b] => do
    let a ← mappingsFrom a; let b ← mappingsFrom b
    pure (match diff a b with | some d => .ok (diffTo d) | none => .err "e")
  | "tdiff-read", [text] => do
    let text ← toJStr? text
    pure (match TinyDiff.read text with | some d => .ok (diffTo d) | none => .err "e")
  | "tdiff-write", [d] => do
    let d ← diffFrom d
    pure (.ok (ofJStr (TinyDiff.writeSpec d)))
  | "oracle-diff-apply", [a, b] => do
    let a ← mappingsFrom a; let b ← mappingsFrom b
    pure (match diffApplyDomain a b with
      | none => oodTag
      | some (d, nsName) =>
        match applyTo d a nsName with
        | none => failTag "refused"
        | some r => if eqvMappings r b then passTag else failTag "differs")
  | "oracle-diff-apply-full", [a, b] => do
    -- `diff_apply` WITHOUT the hypothesis `ParamSrcless` (never generated; used to replay the known finding)
    let a ← mappingsFrom a; let b ← mappingsFrom b
    pure (
      if !(decide (WF a) && decide (WF b)) then oodTag else
      match diff a b, a.ns[1]? with
      | some d, some nsName =>
        if a.getNamespace nsName != some 1 then oodTag else
        match applyTo d a nsName with
        | none => failTag "refused"
        | some r => if eqvMappings r b then passTag else failTag "differs"
      | _, _ => oodTag)
  | "oracle-apply-wf", [d, t, ns] => do
    let d ← diffFrom d; let t ← mappingsFrom t; let nsName ← toJStr? ns
    pure (
      if !(decide (Diff.WF d) && decide (WF t)) then oodTag else
      match applyTo d t nsName with
      | none => oodTag
      | some r => if decide (WF r) then passTag else failTag "not_wf")
  | "oracle-apply-wf-full", [d, t, ns] => do
    -- historical name (the finding C04-add-first-namespace-absent-key is replayed with it); same as `oracle-apply-wf`
    let d ← diffFrom d; let t ← mappingsFrom t; let nsName ← toJStr? ns
    pure (
      if !(decide (Diff.WF d) && decide (WF t)) then oodTag else
      match applyTo d t nsName with
      | none => oodTag
      | some r => if decide (WF r) then passTag else failTag "not_wf")
  | "oracle-diff-total", [a, b] => do
    let a ← mappingsFrom a; let b ← mappingsFrom b
    pure (
      if a.ns.length != 2 || b.ns.length != 2 || !(keysUnique a && keysUnique b) then oodTag else
      if (diff a b).isSome == (decide (a.ns = b.ns) && allNamed a && allNamed b) then passTag
      else failTag (if (diff a b).isSome then "succeeds_outside_domain" else "fails_inside_domain"))
  | "oracle-apply-read-back", [d, t, ns] => do
    let d ← diffFrom d; let t ← mappingsFrom t; let nsName ← toJStr? ns
    pure (
      if !(decide (Diff.WF d) && keysUnique t) then oodTag else
      if d.info != .none || normAction d.doc != .none then oodTag else
      match applyTo d t nsName with
      | none => oodTag
      | some r =>
        match applyTo (normDiff d) t nsName with
        | none => failTag "refused_after_text"
        | some r' => if eqvMappings r' r then passTag else failTag "differs")
  | "oracle-diff-apply-text", [a, b] => do
    let a ← mappingsFrom a; let b ← mappingsFrom b
    pure (match diffApplyDomain a b with
      | none => oodTag
      | some (d, nsName) =>
        if !decide (Writable d) then oodTag else
        match TinyDiff.read (TinyDiff.writeSpec d) with
        | none => failTag "unreadable"
        | some d' =>
          if d' != normDiff d then failTag "read_differs" else
          match applyTo d' a nsName with
          | none => failTag "refused"
          | some r => if eqvMappings r b then passTag else failTag "differs")
  | "oracle-param-src-cell", [d, src] => do
    let d ← diffFrom d; let src ← toJStr? src
    pure (if !decide (Writable d) || !plainCell src then oodTag else
      match withParamSrc (TinyDiff.writeSpec d) src with
      | none => oodTag
      | some text =>
        match TinyDiff.read text, src.isEmpty with
        | some d', true => if d' == normDiff d then passTag else failTag "read_differs"
        | none, true => failTag "unreadable"
        | some _, false => failTag "source_cell_accepted"
        | none, false => passTag)
  | "oracle-read-write", [d] => do
    let d ← diffFrom d
    pure (if !decide (Writable d) then oodTag else
      match TinyDiff.read (TinyDiff.writeSpec d) with
      | none => failTag "unreadable"
      | some d' => if d' == normDiff d then passTag else failTag "read_differs")
  | "oracle-apply-exact", [d, t, ns] => do
    let d ← diffFrom d; let t ← mappingsFrom t; let nsName ← toJStr? ns
    pure (
      if !(decide (Diff.WF d) && keysUnique t) then oodTag else
      match t.getNamespace nsName with
      | none => (match applyTo d t nsName with | none => passTag | some _ => failTag "unknown_namespace_accepted")
      | some ns =>
        match applyTo d t nsName with
        | some r => if exactDeep d t r ns then passTag else failTag "inexact"
        | none => if refusedTop d t ns then passTag else failTag "refused_without_reason")
  | _, _ => none

def main : IO Unit := Driver.run handleC04
