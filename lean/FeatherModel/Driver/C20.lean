import FeatherModel.Base.Driver
import FeatherModel.Model.RawLayout
import FeatherModel.Gen.RawLayouts
import FeatherModel.Spec.JvmsRaw
import FeatherModel.Model.RawGolden

/-! Driver of C20: answers `raw-*` and `oracle-*` request lines with the layout interpreter run on the translated
layouts (`Gen.RawLayouts.env`, regenerated from `raw_class_file/src/lib.rs` before this file is built). -/

open Driver Sexp RawLayout

namespace C20Driver

partial def valFrom : Sexp → Option Val
  | .atom s =>
    match s.toList with
    | 'x' :: _ => (toBytes? (.atom s)).map fun bs => Val.list (bs.map Val.num)
    | _ => s.toNat?.map Val.num
  | .list (.atom "n" :: k :: fs) => do
    let k ← toNat? k
    let fs ← fs.mapM valFrom
    pure (.node k fs)
  | .list xs => do
    let vs ← xs.mapM valFrom
    pure (.list vs)

def smallNums : List Val → Option (List Nat)
  | [] => some []
  | .num n :: r => if n < 256 then (smallNums r).map (n :: ·) else none
  | _ :: _ => none

partial def valTo : Val → Sexp
  | .num n => ofNat n
  | .list vs =>
    match vs, smallNums vs with
    | _ :: _, some bs => ofBytes bs
    | _, _ => .list (vs.map valTo)
  | .node k fs => .list (tag "n" :: ofNat k :: fs.map valTo)

def env : Env := Gen.RawLayouts.env
def root : Ty := .ref Gen.RawLayouts.classFileId
/-- variants of `CpInfo` as translated -/
def cpVariants : List Variant :=
  match Gen.RawLayouts.defs[Gen.RawLayouts.cpInfoId]? with
  | some (.enum _ _ _ vs _) => vs
  | _ => []

def fuelFor (bs : Bytes) : Nat := (bs.length + 2) * (env.defs.length + 1)

def readClass (bs : Bytes) : Res (Val × Bytes) := read env (fuelFor bs) Gen.RawLayouts.classFileId none bs

/-- JVMS conformance of what the model writes for `v` (domain: `fitsV`, long/double pool entries included): the output
is a well-framed class file -/
def jvmsOracle (v : Val) : Ans :=
  if !fitsV env none [] root v then .ok (tag "out-of-domain") else
  match writeV env root v with
  | none => .ok (.list [tag "fail", tag "write-panics"])
  | some b => if JvmsRaw.Walk.classFile b then .ok (tag "pass") else .ok (.list [tag "fail", tag "not-framed"])

/-- byte round trip on the domain of well-framed class files (long/double pool entries included) -/
def rtBytesOracle (b : Bytes) : Ans :=
  if !JvmsRaw.Walk.classFile b then .ok (tag "out-of-domain") else
  match read env ((b.length + 2) * (env.defs.length + 1)) Gen.RawLayouts.classFileId none b with
  | .ok (v, rest) =>
    if !rest.isEmpty then .ok (.list [tag "fail", tag "rest-not-empty"]) else
    (match writeV env root v with
     | some b' => if b' == b then .ok (tag "pass") else .ok (.list [tag "fail", tag "bytes-differ"])
     | none => .ok (.list [tag "fail", tag "write-panics"]))
  | .err => .ok (.list [tag "fail", tag "read-err"])
  | .panic => .ok (.list [tag "fail", tag "read-panics"])
  | .fuel => .skip "fuel"

def panicAns : Ans := .ok (tag "panic")
def failAns (t : String) : Ans := .ok (.list [tag "fail", tag t])

def handleC20 (op : String) (args : List Sexp) : Option Ans :=
  match op, args with
  | "raw-write", [v] => do
    let v ← valFrom v
    if !typedV env root v then none else
    pure (match writeV env root v with
      | some b => .ok (ofBytes b)
      | none => panicAns)
  | "raw-len", [v] => do
    let v ← valFrom v
    if !typedV env root v then none else
    pure (match len32 (lenV env root v) with
      | some n => .ok (ofNat n)
      | none => panicAns)
  | "raw-read", [b] => do
    let b ← toBytes? b
    pure (match readClass b with
      | .ok (v, rest) => .ok (.list [valTo v, ofNat rest.length])
      | .err => .err "e"
      | .panic => panicAns
      | .fuel => .skip "fuel")
  | "raw-fits", [v] => do
    let v ← valFrom v
    if !typedV env root v then none else
    pure (.ok (ofBool (fitsV env none [] root v)))
  | "oracle-len", [v] => do
    let v ← valFrom v
    if !typedV env root v then none else
    pure (match writeV env root v with
      | none => .ok (tag "out-of-domain")
      | some b =>
        match len32 (lenV env root v) with
        | some n => if n == b.length then .ok (tag "pass") else failAns "length-differs"
        | none => failAns "len-panics")
  | "oracle-rt-val", [v] => do
    let v ← valFrom v
    if !typedV env root v then none else
    if !fitsV env none [] root v then pure (.ok (tag "out-of-domain")) else
    pure (match writeV env root v with
      | none => failAns "write-panics"
      | some b =>
        match readClass b with
        | .ok (v', rest) => if v' == v && rest.isEmpty then .ok (tag "pass") else failAns "value-differs"
        | .err => failAns "read-err"
        | .panic => failAns "read-panics"
        | .fuel => .skip "fuel")
  | "oracle-rt-bytes-full", [b] => do
    let b ← toBytes? b
    pure (rtBytesOracle b)
  -- the request carries the value and its encoding by the harness' own JVMS tables (only sent inside that encoder's
  -- domain): what the model writes for the value is exactly that encoding
  | "oracle-write-is-jvms", [v, b] => do
    let v ← valFrom v
    let b ← toBytes? b
    if !typedV env root v then none else
    pure (match writeV env root v with
      | some b' => if b' == b then .ok (tag "pass") else failAns "bytes-differ"
      | none => failAns "write-panics")
  -- ... and (sent when the pool names every attribute) reading that encoding gives the value back and consumes it all
  | "oracle-read-jvms", [v, b] => do
    let v ← valFrom v
    let b ← toBytes? b
    if !typedV env root v then none else
    pure (match readClass b with
      | .ok (v', rest) => if v' == v && rest.isEmpty then .ok (tag "pass") else failAns "value-differs"
      | .err => failAns "read-err"
      | .panic => failAns "read-panics"
      | .fuel => .skip "fuel")
  | "oracle-jvms-full", [v] => do
    let v ← valFrom v
    if !typedV env root v then none else
    pure (jvmsOracle v)
  | "raw-golden", [] =>
    pure (match writeV env root goldenClass with
      | some b => .ok (.list [valTo goldenClass, ofBytes b])
      | none => panicAns)
  | "jvms-frame", [b] => do
    let b ← toBytes? b
    pure (.ok (ofBool (JvmsRaw.Walk.classFile b)))
  -- theorem pool_count on one value: bytes 8-9 of what is written are the JVMS constant_pool_count
  | "oracle-pool-count", [v] => do
    let v ← valFrom v
    if !typedV env root v then none else
    pure (match writeV env root v, v with
      | some b, .node _ (_ :: _ :: .list es :: _) =>
        if (b.drop 8).take 2 == be .u16 (JvmsRaw.jvmsPoolCount cpVariants es % 65536) then .ok (tag "pass")
        else failAns "count-differs"
      | _, _ => .ok (tag "out-of-domain"))
  | "raw-consts-agree", [b] => do
    let b ← toBytes? b
    pure (.ok (ofBool (constsAgree env (fuelFor b) Gen.RawLayouts.classFileId none b)))
  | _, _ => none

end C20Driver

def main : IO Unit := Driver.run C20Driver.handleC20
