import FeatherModel.Base.Driver
import FeatherModel.Model.InnerNames

open Driver Sexp Codec InnerNames

/-- decidable domain of `Thm.C11.contract_extend`: mirrored by the harness oracle -/
def simpleB (m : Mappings) (ns : Nat) : Bool :=
  m.classes.all fun (_, c) =>
    match c.names[ns]?, c.names[0]? with
    | some (some b), some (some src) =>
      b != [] && b.getLast? != some SLASH &&
        (match split src with
         | some _ => !b.contains DOLLAR && !b.contains SLASH
         | none => (split b).isNone)
    | some (some _), _ => false
    | _, _ => true

def handleC11 (op : String) (args : List Sexp) : Option Ans :=
  match op, args with
  | "extend", [m, ns] => do
    let m ← mappingsFrom m; let ns ← toJStr? ns
    pure (match extend m ns with | some r => .ok (mappingsTo r) | none => .err "e")
  | "contract", [m, ns] => do
    let m ← mappingsFrom m; let ns ← toJStr? ns
    pure (match contract m ns with | some r => .ok (mappingsTo r) | none => .err "e")
  | "split", [s] => do
    let s ← toJStr? s
    pure (.ok (ofOption (fun (p, i) => list [ofJStr p, ofJStr i]) (split s)))
  | "join", [p, i] => do
    let p ← toJStr? p; let i ← toJStr? i
    pure (.ok (ofJStr (join p i)))
  | "oracle-contract-extend", [m, ns] => do
    let m ← mappingsFrom m; let nsn ← toJStr? ns
    pure (match m.getNamespace nsn with
      | none => .ok (tag "out-of-domain")
      | some ns =>
        if !simpleB m ns then .ok (tag "out-of-domain") else
        match extend m nsn with
        | none => .ok (tag "out-of-domain")
        | some m' =>
          match contract m' nsn with
          | some m'' => if m'' == m then .ok (tag "pass") else .ok (list [tag "fail", tag "differs"])
          | none => .ok (list [tag "fail", tag "contract_err"]))
  | _, _ => none

def main : IO Unit := Driver.run handleC11
