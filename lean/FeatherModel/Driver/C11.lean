import FeatherModel.Base.Driver
import FeatherModel.Model.InnerNames

open Driver Sexp Codec InnerNames

/-- decidable domain of `Thm.C11.contract_extend`: mirrored by the harness oracle -/
def simpleB (m : Mappings) (ns : Nat) : Bool :=
  m.classes.all fun (_, c) =>
    match c.names[ns]?, c.names[0]? with
    | some (some b), some (some src) =>
      b != [] && b.getLast? != some SLASH &&
        (match split src with
         | some _ => !b.contains DOLLAR && !b.contains SLASH
         | none => (split b).isNone)
    | some (some _), _ => false
    | _, _ => true

/-- hypothesis `KeysConsistent` of `Thm.C11.extend_nested` / `contract_extend`: every class is filed under its source name -/
def keysConsistentB (m : Mappings) : Bool :=
  m.classes.all fun (k, c) => c.names[0]? == some (some k)

/-- some outer class (by source name) of `name` is not in the set or has no name in the namespace:
the hypothesis of `Thm.C11.extend_fails_missing_outer`, followed along the whole chain -/
def chainMissing (m : Mappings) (ns : Nat) : Nat → JStr → Bool
  | 0, _ => false
  | fuel + 1, name =>
    match split name with
    | none => false
    | some (p, _) => (getClassName m p ns).isNone || chainMissing m ns fuel p

/-- the property says that extension is an error here (`extend_first_namespace_fails`, `extend_fails_missing_outer`) -/
def specErr (m : Mappings) (ns : Nat) : Bool :=
  ns == 0 || m.classes.any fun (k, c) =>
    match c.names[ns]? with
    | some (some _) => chainMissing m ns (k.length + 1) k
    | _ => false

/-- the conclusions of `extend_frame`, `extend_toplevel` and `extend_nested` evaluated on a result `m'`:
everything but the names of namespace `ns` is untouched, a top-level class keeps its name, a nested class gets
the NEW name of its outer class (looked up by source name in the result), `$`, its own old name -/
def extendSpecOk (m m' : Mappings) (ns : Nat) : Bool :=
  m'.ns == m.ns && m'.doc == m.doc && m'.classes.length == m.classes.length &&
  (List.zip m.classes m'.classes).all fun ((k, c), (k', c')) =>
    k' == k && c'.doc == c.doc && c'.fields == c.fields && c'.methods == c.methods &&
    c'.names.length == c.names.length &&
    (List.range c.names.length).all (fun j => j == ns || c'.names[j]? == c.names[j]?) &&
    (match c.names[ns]? with
     | some (some b) =>
       (match split k with
        | none => c'.names[ns]? == some (some b)
        | some (p, _) =>
          match AList.lookup p m'.classes with
          | some cp' =>
            (match cp'.names[ns]? with
             | some (some pn) => c'.names[ns]? == some (some (join pn b))
             | _ => false)
          | none => false)
     | o => c'.names[ns]? == o)

def handleC11 (op : String) (args : List Sexp) : Option Ans :=
  match op, args with
  | "extend", [m, ns] => do
    let m ← mappingsFrom m; let ns ← toJStr? ns
    pure (match extend m ns with | some r => .ok (mappingsTo r) | none => .err "e")
  | "contract", [m, ns] => do
    let m ← mappingsFrom m; let ns ← toJStr? ns
    pure (match contract m ns with | some r => .ok (mappingsTo r) | none => .err "e")
  | "split", [s] => do
    let s ← toJStr? s
    pure (.ok (ofOption (fun (p, i) => list [ofJStr p, ofJStr i]) (split s)))
  | "join", [p, i] => do
    let p ← toJStr? p; let i ← toJStr? i
    pure (.ok (ofJStr (join p i)))
  | "oracle-contract-extend", [m, ns] => do
    let m ← mappingsFrom m; let nsn ← toJStr? ns
    pure (match m.getNamespace nsn with
      | none => .ok (tag "out-of-domain")
      | some ns =>
        if !keysConsistentB m || (ns == 0 && m.classes.isEmpty) || specErr m ns || !simpleB m ns then .ok (tag "out-of-domain") else
        match extend m nsn with
        | none => .ok (list [tag "fail", tag "extend_err"])
        | some m' =>
          match contract m' nsn with
          | some m'' => if m'' == m then .ok (tag "pass") else .ok (list [tag "fail", tag "differs"])
          | none => .ok (list [tag "fail", tag "contract_err"]))
  | "oracle-extend-spec", [m, ns] => do
    let m ← mappingsFrom m; let nsn ← toJStr? ns
    let failed := (extend m nsn).isNone
    pure (
      if !keysConsistentB m then .ok (tag "out-of-domain") else
      match m.getNamespace nsn with
      | none => if failed then .ok (tag "pass") else .ok (list [tag "fail", tag "should_err"])
      | some ns =>
        if ns == 0 && m.classes.isEmpty then .ok (tag "out-of-domain") else
        if specErr m ns then (if failed then .ok (tag "pass") else .ok (list [tag "fail", tag "should_err"])) else
        match extend m nsn with
        | none => .ok (list [tag "fail", tag "err"])
        | some m' => if extendSpecOk m m' ns then .ok (tag "pass") else .ok (list [tag "fail", tag "differs"]))
  | _, _ => none

def main : IO Unit := Driver.run handleC11
