import FeatherModel.Base.Driver
import FeatherModel.Model.Maven
import FeatherModel.Spec.MavenLevels
import FeatherModel.Spec.MavenPom

open Driver Sexp Maven

namespace C19

/-! ## Codec -/

def scopeTag : Scope → String
  | .compile => "compile" | .runtime => "runtime" | .test => "test" | .system => "system" | .provided => "provided"

def scopeFrom : Sexp → Option Scope
  | atom "compile" => some .compile
  | atom "runtime" => some .runtime
  | atom "test" => some .test
  | atom "system" => some .system
  | atom "provided" => some .provided
  | _ => none

/-- managed scope: `import` ↦ `none` -/
def mscopeFrom : Sexp → Option (Option Scope)
  | atom "import" => some none
  | s => (scopeFrom s).map some

def coordFrom : Sexp → Option Coord
  | list [g, a, v, c, t] => do
    let g ← toJStr? g; let a ← toJStr? a; let v ← toJStr? v
    let c ← toOption? toJStr? c; let t ← toJStr? t
    pure { group := g, artifact := a, version := v, classifier := c, type_ := t }
  | _ => none

def coordTo (c : Coord) : Sexp :=
  list [ofJStr c.group, ofJStr c.artifact, ofJStr c.version, ofOption ofJStr c.classifier, ofJStr c.type_]

def depFrom {S : Type} (sc : Sexp → Option S) : Sexp → Option (RawDep S)
  | list [g, a, v, t, c, s, o] => do
    let g ← toJStr? g; let a ← toJStr? a
    let v ← toOption? toJStr? v; let t ← toOption? toJStr? t; let c ← toOption? toJStr? c
    let s ← toOption? sc s; let o ← toOption? toBool? o
    pure { group := g, artifact := a, version := v, type_ := t, classifier := c, scope := s, optional := o }
  | _ => none

def parentFrom : Sexp → Option Parent
  | list [g, a, v] => do
    let g ← toJStr? g; let a ← toJStr? a; let v ← toJStr? v
    pure { group := g, artifact := a, version := v }
  | _ => none

def pomFrom : Sexp → Option (Option Pom)
  | atom "bad" => some none
  | list [atom "pom", mv, parent, g, a, v, p, dm, deps] => do
    let mv ← toJStr? mv
    let parent ← toOption? parentFrom parent
    let g ← toOption? toJStr? g; let a ← toJStr? a; let v ← toOption? toJStr? v; let p ← toOption? toJStr? p
    let dm ← toListOf? (depFrom mscopeFrom) dm
    let deps ← toListOf? (depFrom scopeFrom) deps
    pure (some { modelVersion := mv, parent := parent, group := g, artifact := a, version := v, packaging := p,
                 depMgmt := dm, deps := deps })
  | _ => none

def universeFrom (s : Sexp) : Option Universe :=
  toListOf? (fun e => match e with
    | list [u, p] => do let u ← toJStr? u; let p ← pomFrom p; pure (u, p)
    | _ => none) s

def resolverFrom : Sexp → Option Resolver
  | list [n, m] => do let n ← toJStr? n; let m ← toJStr? m; pure { name := n, maven := m }
  | _ => none

def rootFrom : Sexp → Option (Coord × Scope)
  | list [c, s] => do let c ← coordFrom c; let s ← scopeFrom s; pure (c, s)
  | _ => none

def foundFrom : Sexp → Option Found
  | list [n, m, c, s] => do
    let n ← toJStr? n; let m ← toJStr? m; let c ← coordFrom c; let s ← scopeFrom s
    pure { resolver := { name := n, maven := m }, coord := c, scope := s }
  | _ => none

def foundTo (f : Found) : Sexp :=
  list [ofJStr f.resolver.name, ofJStr f.resolver.maven, coordTo f.coord, tag (scopeTag f.scope)]

/-- a resolved dependency as the harness prints it: fields, `make_url()`, `Display` -/
def foundFull (f : Found) : Sexp :=
  list [ofJStr f.resolver.name, ofJStr f.resolver.maven, coordTo f.coord, tag (scopeTag f.scope),
        ofJStr f.url, ofJStr f.print]

/-! ## Label forests: `(label child*)` -/

partial def treeFrom : Sexp → Option (Tree Nat)
  | list (lbl :: cs) => do
    let l ← toNat? lbl
    let cs ← cs.mapM treeFrom
    pure (.node l cs)
  | _ => none

def forestFrom (s : Sexp) : Option (List (Tree Nat)) :=
  match s with
  | list ts => ts.mapM treeFrom
  | _ => none

partial def treeTo : Tree Nat → Sexp
  | .node l cs => list (ofNat l :: cs.map treeTo)

def forestTo (f : List (Tree Nat)) : Sexp := list (f.map treeTo)

/-- preorder numbering (the harness gives node number `k` the version `v<k>`): `(label, k)` -/
partial def numberTree (t : Tree Nat) (k : Nat) : Tree (Nat × Nat) × Nat :=
  match t with
  | .node l cs =>
    let r := cs.foldl (fun (acc : List (Tree (Nat × Nat)) × Nat) c =>
      let x := numberTree c acc.2
      (acc.1 ++ [x.1], x.2)) ([], k + 1)
    (.node (l, k) r.1, r.2)

def numberForest (f : List (Tree Nat)) : List (Tree (Nat × Nat)) :=
  (f.foldl (fun (acc : List (Tree (Nat × Nat)) × Nat) c =>
      let x := numberTree c acc.2
      (acc.1 ++ [x.1], x.2)) ([], 0)).1

/-- nearest-wins reference answer: kept nodes of the level trace, in level order -/
def nearestRef {α ι : Type} [DecidableEq ι] (idOf : α → ι) (forest : List (Tree α)) : List α :=
  keptOf (considered (firstSeen idOf) [] forest)

def nodupB {ι : Type} [DecidableEq ι] : List ι → Bool
  | [] => true
  | x :: xs => !xs.contains x && nodupB xs

def noColon (s : JStr) : Bool := !s.contains COLON
def noAt (s : JStr) : Bool := !s.contains AT

def coordDomain (c : Coord) : Bool :=
  noColon c.group && noColon c.artifact && noColon c.version && noColon c.type_ &&
    (match c.classifier with
     | some k => noColon k
     | none => true)

def foundDomain (c : Coord) : Bool := coordDomain c && (splitOnceAt c.print).isNone

/-! ## Executable reading of the specification rules (`Spec/MavenPom.lean`): plain recursion, no stack, no queue -/

def resToOption {α : Type} : Res α → Option α
  | .ok a => some a
  | _ => none

/-- `Managed`: own entries, imports replaced in place -/
def managedRef (eff : Coord → Option PomDone) : List (RawDep (Option Scope)) → Option (List DepDone)
  | [] => some []
  | x :: rest => do
    let v ← x.version
    let r ← managedRef eff rest
    if x.scope == some none then
      let bom ← eff (depCoord x.group x.artifact v x.type_ x.classifier)
      pure (bom.depMgmt ++ r)
    else pure (managedEntry x v :: r)

/-- `EffRule`, recursing into the parent and the imported BOMs -/
def effRef (U : Universe) (rs : List Resolver) : Nat → Coord → Option (Resolver × PomDone)
  | 0, _ => none
  | fuel + 1, c => do
    let (r, pom) ← resToOption (tryGetPom U rs c)
    let par ← match pom.parentCoord with
      | none => some none
      | some pc => (effRef U rs fuel pc).map (fun x => some x.2)
    let coord ← inheritCoord par pom
    let own ← managedRef (fun c => (effRef U rs fuel c).map (·.2)) pom.depMgmt
    let deps ← fillDeps (own ++ parDM par) pom.deps
    pure (r, { coord := coord, depMgmt := own ++ parDM par, deps := deps ++ parDeps par })

/-- `TreeRule` -/
def treeRef (U : Universe) (rs : List Resolver) : Nat → Coord → Scope → Option (Tree Found)
  | 0, _, _ => none
  | fuel + 1, c, s => do
    let (r, e) ← effRef U rs fuel c
    let cs ← (transitive s e.deps).mapM (fun p => treeRef U rs fuel p.1 p.2)
    pure (.node { resolver := r, coord := c, scope := s } cs)

/-- right-hand side of `resolve_spec` -/
def resolveRef (U : Universe) (rs : List Resolver) (fuel : Nat) (roots : List (Coord × Scope)) : Option (List Found) := do
  let forest ← roots.mapM (fun p => treeRef U rs fuel p.1 p.2)
  pure (keptOf (considered (firstSeen (fun f : Found => f.coord.collisionId)) [] forest))

/-- `Pruned`, decided -/
partial def prunedB : List (Tree Nat) → List (Tree Nat) → Bool
  | _, [] => true
  | [], _ :: _ => false
  | .node d cs :: ts, .node e ds :: us =>
    if d == e && prunedB cs ds && prunedB ts us then true else prunedB ts (.node e ds :: us)

def toSpecScope : Scope → Spec.MavenScope.S := Scope.toSpec

def resAns {α : Type} (r : Res α) (f : α → Sexp) : Ans :=
  match r with
  | .ok a => .ok (f a)
  | .err => .err "e"
  | .fuel => .skip "fuel"

def fuelFor (U : Universe) : Nat := 3 * U.length + 6

def passFail (b : Bool) (why : String) : Ans :=
  if b then .ok (tag "pass") else .ok (list [tag "fail", tag why])

def handle (op : String) (args : List Sexp) : Option Ans :=
  match op, args with
  | "mvn-resolve", [u, rs, roots] => do
    let u ← universeFrom u; let rs ← toListOf? resolverFrom rs; let roots ← toListOf? rootFrom roots
    pure (resAns (resolve u rs (fuelFor u) roots) (fun l => list (l.map foundFull)))
  | "oracle-nodup", [u, rs, roots] => do
    let u ← universeFrom u; let rs ← toListOf? resolverFrom rs; let roots ← toListOf? rootFrom roots
    pure (match resolve u rs (fuelFor u) roots with
      | .ok l => passFail (nodupB (l.map (·.coord.collisionId))) "duplicate-id"
      | .err => .ok (tag "out-of-domain")
      | .fuel => .skip "fuel")
  | "oracle-resolve-spec", [u, rs, roots] => do
    let u ← universeFrom u; let rs ← toListOf? resolverFrom rs; let roots ← toListOf? rootFrom roots
    pure (match resolve u rs (fuelFor u) roots with
      | .ok l =>
        match resolveRef u rs (fuelFor u) roots with
        | some l' => passFail (l == l') "differs-from-spec"
        | none => .ok (list [tag "fail", tag "spec-undefined"])
      | .err =>
        -- the specification decides the domain: where it defines the list, an error is a failure
        match resolveRef u rs (fuelFor u) roots with
        | some _ => .ok (list [tag "fail", tag "impl-error"])
        | none => .ok (tag "out-of-domain")
      | .fuel => .skip "fuel")
  | "oracle-mediation", [f] => do
    let f ← forestFrom f
    let out := cleanUpBy (fun (x : Nat) => x) f
    let flat := bfs out
    pure (if !prunedB f out then .ok (list [tag "fail", tag "not-a-pruning"])
      else if !nodupB flat then .ok (list [tag "fail", tag "duplicate-id"])
      else passFail (flat == nearestRef (fun (x : Nat) => x) f) "not-nearest")
  | "oracle-levelorder", [f] => do
    let f ← forestFrom f
    pure (passFail (bfs f == levelOrder f) "not-level-order")
  | "oracle-scope-table", [a, b] => do
    let a ← scopeFrom a; let b ← scopeFrom b
    pure (passFail ((theScopeTable a b).map Scope.toSpec == Spec.MavenScope.table a.toSpec b.toSpec) "not-mavens-table")
  | "retain-first", [f] => do
    let f ← forestFrom f
    pure (.ok (forestTo (cleanUpBy (fun x => x) f)))
  | "retain-alt", [f] => do
    let f ← forestFrom f
    pure (.ok (forestTo (bfsRetain (fun (n : Nat) (_ : Nat) => (n % 2 == 0, n + 1)) 0 f)))
  | "retain-mod", [f, k] => do
    let f ← forestFrom f; let k ← toNat? k
    pure (.ok (forestTo (bfsRetain (fun (_ : Unit) (x : Nat) => (x % k != 0, ())) () f)))
  | "bfs", [f] => do
    let f ← forestFrom f
    pure (.ok (list ((bfs f).map ofNat)))
  | "clean-up", [f] => do
    let f ← forestFrom f
    let out := bfs (cleanUpBy (fun (x : Nat × Nat) => x.1) (numberForest f))
    pure (.ok (list (out.map fun x => list [ofNat x.1, ofNat x.2])))
  | "oracle-nearest", [f] => do
    let f ← forestFrom f
    let nf := numberForest f
    let out := bfs (cleanUpBy (fun (x : Nat × Nat) => x.1) nf)
    pure (passFail (out == nearestRef (fun (x : Nat × Nat) => x.1) nf) "not-nearest")
  | "coord-parse", [s] => do
    let s ← toJStr? s
    pure (match Coord.parse s with
      | some c => .ok (coordTo c)
      | none => .err "e")
  | "coord-print", [c] => do
    let c ← coordFrom c
    pure (.ok (ofJStr c.print))
  | "oracle-coord-rt", [c] => do
    let c ← coordFrom c
    pure (if !coordDomain c then .ok (tag "out-of-domain") else
      passFail (Coord.parse c.print == some c) "roundtrip")
  | "scope-table", [a, b] => do
    let a ← scopeFrom a; let b ← scopeFrom b
    pure (.ok (ofOption (fun s => tag (scopeTag s)) (theScopeTable a b)))
  | "scope-print", [a] => do
    let a ← scopeFrom a
    pure (.ok (ofJStr a.print))
  | "scope-parse", [s] => do
    let s ← toJStr? s
    pure (match Scope.parse s with
      | some c => .ok (tag (scopeTag c))
      | none => .err "e")
  | "oracle-scope-rt", [a] => do
    let a ← scopeFrom a
    pure (passFail (Scope.parse a.print == some a) "roundtrip")
  | "found-print", [f] => do
    let f ← foundFrom f
    pure (.ok (list [ofJStr f.print, ofJStr f.url]))
  | "found-parse", [s] => do
    let s ← toJStr? s
    pure (match Found.parse s with
      | some f => .ok (foundTo f)
      | none => .err "e")
  | "oracle-found-rt", [f] => do
    let f ← foundFrom f
    pure (if !foundDomain f.coord then .ok (tag "out-of-domain") else
      passFail (Found.parse f.print == some { f with resolver := { name := f.resolver.maven, maven := f.resolver.maven } })
        "roundtrip")
  | _, _ => none

end C19

def main : IO Unit := Driver.run C19.handle
