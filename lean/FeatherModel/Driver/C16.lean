import FeatherModel.Base.Driver
import FeatherModel.Model.TotalCode
import FeatherModel.Model.TotalDyn
import FeatherModel.Model.TotalText
import FeatherModel.Model.TotalWriter
import FeatherModel.Model.ClassRead

/-!
C16 driver: the outcome class (`ok …` | `err e` | `panic <site>`) of every parser model.  See
`harness/src/bin/c16.rs` for the ops.
-/

open Driver Sexp Total

def outAns {α : Type} (f : α → Sexp) (r : Outcome α × Acct) : Ans :=
  match r.1 with
  | .ok a => .ok (f a)
  | .err => .err "e"
  | .panic s => .panic (Sites.report s)

def unitS : Unit → Sexp := fun _ => tag "u"

/-- C01's whole-file reader model: its crash sites are sites 1, 2, 3 and the stack -/
def classReadOutcome (b : Bytes) : Outcome Unit :=
  match ClassRead.read b with
  | .ok _ => .ok ()
  | .err => .err
  | .crash .labelsRangeAdd => .panic Sites.labelsRange
  | .crash .labelsMaxId => .panic Sites.labelsMaxId
  | .crash .frameOffsetAdd => .panic Sites.frameOffset
  | .crash .recursion => .panic Sites.stackDynamic

def argOf : Sexp → Option Dyn.Arg
  | .atom "i" => some .int
  | .atom s => s.toNat?.map .dyn
  | _ => none

def specOf (args : List Sexp) : Option Dyn.Bsms := args.mapM fun a => do (← toList? a).mapM argOf

def be16 (n : Nat) : Bytes := [n / 256 % 256, n % 256]
def be32 (n : Nat) : Bytes := [n / 16777216 % 256, n / 65536 % 256, n / 256 % 256, n % 256]

/-- body of the `labels-full k` op: 65535 bytes of code, an exception range 0..65535 (labels 0 and 65535), line numbers
at 1..k: `k + 2` labels -/
def labelsFullBody (k : Nat) : Bytes :=
  let code := List.replicate 65534 0 ++ [177]
  let lnt := be16 k ++ (List.range k).flatMap (fun i => be16 (i + 1) ++ [0, 1])
  [0, 1, 0, 1] ++ be32 65535 ++ code ++ [0, 1, 0, 0, 255, 255, 0, 0, 0, 0] ++ [0, 1] ++ be16 25 ++ be32 lnt.length ++ lnt

def chainSpec (k : Nat) : Dyn.Bsms := (List.range k).map fun i => if i + 1 < k then [.dyn (i + 1)] else []

/-- the outcome class of a plain op -/
def runPlain (op : String) (args : List Sexp) : Option (Outcome Sexp × Acct) :=
  let u {α : Type} (r : Outcome α × Acct) (f : α → Sexp) : Outcome Sexp × Acct :=
    (match r.1 with | .ok a => .ok (f a) | .err => .err | .panic s => .panic s, r.2)
  match op, args with
  | "classread", [b] => do
    let b ← toBytes? b
    pure (match classReadOutcome b with | .ok _ => .ok (tag "u") | .err => .err | .panic s => .panic s, {})
  | "code", [b] => do let b ← toBytes? b; pure (u (Code.codeOp b).run unitS)
  | "labels-full", [k] => do let k ← toNat? k; pure (u (Code.codeOp (labelsFullBody k)).run unitS)
  | "anno", [b] => do let b ← toBytes? b; pure (u (Anno.annoOp stackBudget b).run ofNat)
  | "anno-nest", [d] => do let d ← toNat? d; pure (u (Anno.annoOp stackBudget (Anno.nested d)).run ofNat)
  | "dyn", spec => do let spec ← specOf spec; pure (u (Dyn.dynOp stackBudget spec).run ofNat)
  | "dyn-chain", [k] => do let k ← toNat? k; pure (u (Dyn.dynOp stackBudget (chainSpec k)).run ofNat)
  | "argsize", [d] => do let d ← toJStr? d; pure (u (Text.argSizeOp d).run unitS)
  | "writer-grow", [a, b] => do let a ← toNat? a; let b ← toNat? b; pure (u (Writer.growOp a b).run unitS)
  | "tiny", [n, b] => do let n ← toNat? n; let b ← toBytes? b; pure (u (Text.tinyOp n b).run unitS)
  | "tinydiff", [b] => do let b ← toBytes? b; pure (u (Text.tinyDiffOp b).run unitS)
  | "enigma", [b] => do let b ← toBytes? b; pure (u (Text.enigmaOp b).run unitS)
  | "nests", [b] => do let b ← toBytes? b; pure (u (Text.nestsOp b).run unitS)
  | "desc-field", [s] => do let s ← toJStr? s; pure (u (Text.descFieldOp s).run unitS)
  | "desc-method", [s] => do let s ← toJStr? s; pure (u (Text.descMethodOp s).run unitS)
  | "desc-return", [s] => do let s ← toJStr? s; pure (u (Text.descReturnOp s).run unitS)
  | _, _ => none

/-- largest `length` of a Utf8 constant, walking the pool like `PoolRead::read`; `none` = malformed.  Fuel: every entry
takes at least one slot. -/
def maxUtf8Loop : Nat → Nat → Nat → Nat → Bytes → Option Nat
  | 0, _, _, _, _ => none
  | fuel + 1, n, count, best, s =>
    if n < count then
      match s with
      | [] => none
      | tag :: s =>
        if tag = 1 then
          match s with
          | a :: b :: s => let l := a * 256 + b; if s.length < l then none else maxUtf8Loop fuel (n + 1) count (max best l) (s.drop l)
          | _ => none
        else
          let sz : Option (Nat × Nat) :=
            if tag = 3 ∨ tag = 4 then some (4, 1) else if tag = 5 ∨ tag = 6 then some (8, 2)
            else if tag = 7 ∨ tag = 8 ∨ tag = 16 ∨ tag = 19 ∨ tag = 20 then some (2, 1)
            else if tag = 9 ∨ tag = 10 ∨ tag = 11 ∨ tag = 12 ∨ tag = 17 ∨ tag = 18 then some (4, 1)
            else if tag = 15 then some (3, 1) else none
          match sz with
          | some (size, slots) => if s.length < size then none else maxUtf8Loop fuel (n + slots) count best (s.drop size)
          | none => none
    else some best

def maxUtf8Len (b : Bytes) : Option Nat :=
  if b.length < 10 then none
  else
    match b.drop 8 with
    | a :: c :: rest => maxUtf8Loop 65536 1 (a * 256 + c) 0 rest
    | _ => none

/-- domain of the writer oracle (mirrors `write_domain` of the harness): no descriptor can hold 255 argument slots
(sites 7, 8), no method can grow to 65533 bytes (site 9) -/
def writeDomain (b : Bytes) : Bool :=
  b.length ≤ 24000 && (match maxUtf8Len b with | some m => m < 128 | none => false)

def handleC16 (op : String) (args : List Sexp) : Option Ans :=
  match op, args with
  | "oracle-no-panic", .atom inner :: rest => do
    let r ← runPlain inner rest
    pure (match r.1 with
      | .panic s => if Sites.openIds.contains s then .ok (tag "out-of-domain") else .ok (list [tag "fail", tag (Sites.report s)])
      | _ => .ok (tag "pass"))
  | "oracle-write-no-panic", [b] => do
    let b ← toBytes? b
    pure (if !writeDomain b then .ok (tag "out-of-domain")
      else match classReadOutcome b with
        | .ok _ => .ok (tag "pass")
        | _ => .ok (tag "out-of-domain"))
  | "oracle-alloc", [.atom "code", b] => do
    let b ← toBytes? b
    let r := (Code.codeOp b).run
    let bound := 64 * b.length + 16777216
    let verdict : Ans :=
      if r.2.alloc > bound then .ok (list [tag "fail", tag "alloc"])   -- excluded by `alloc_bound_code`
      else if r.2.big > bound then .ok (tag "out-of-domain")            -- site 6
      else .ok (tag "pass")
    pure (match r.1 with
      | .panic s => if Sites.openIds.contains s then verdict else .ok (list [tag "fail", tag (Sites.report s)])
      | _ => verdict)
  | _, _ => do
    let r ← runPlain op args
    pure (outAns id r)

def main : IO Unit := Driver.run handleC16
