import FeatherModel.Base.Driver
import FeatherModel.Model.TotalCode
import FeatherModel.Model.TotalDyn
import FeatherModel.Model.TotalText
import FeatherModel.Model.TotalWriter
import FeatherModel.Model.TotalClass

/-!
C16 driver: the outcome class (`ok …` | `err e` | `panic <site>`) of every parser model.  See
`harness/src/bin/c16.rs` for the ops.
-/

open Driver Sexp Total

def outAns {α : Type} (f : α → Sexp) (r : Outcome α × Acct) : Ans :=
  match r.1 with
  | .ok a => .ok (f a)
  | .err => .err "e"
  | .panic s => .panic (Sites.report s)

def unitS : Unit → Sexp := fun _ => tag "u"

def argOf : Sexp → Option Dyn.Arg
  | .atom "i" => some .int
  | .atom s => s.toNat?.map .dyn
  | _ => none

def specOf (args : List Sexp) : Option Dyn.Bsms := args.mapM fun a => do (← toList? a).mapM argOf

def be16 (n : Nat) : Bytes := [n / 256 % 256, n % 256]
def be32 (n : Nat) : Bytes := [n / 16777216 % 256, n / 65536 % 256, n / 256 % 256, n % 256]

/-- body of the `labels-full k` op: 65535 bytes of code, an exception range 0..65535 (labels 0 and 65535), line numbers
at 1..k: `k + 2` labels -/
def labelsFullBody (k : Nat) : Bytes :=
  let code := List.replicate 65534 0 ++ [177]
  let lnt := be16 k ++ (List.range k).flatMap (fun i => be16 (i + 1) ++ [0, 1])
  [0, 1, 0, 1] ++ be32 65535 ++ code ++ [0, 1, 0, 0, 255, 255, 0, 0, 0, 0] ++ [0, 1] ++ be16 25 ++ be32 lnt.length ++ lnt

def chainSpec (k : Nat) : Dyn.Bsms := (List.range k).map fun i => if i + 1 < k then [.dyn (i + 1)] else []

/-- the outcome class of a plain op -/
def runPlain (op : String) (args : List Sexp) : Option (Outcome Sexp × Acct) :=
  let u {α : Type} (r : Outcome α × Acct) (f : α → Sexp) : Outcome Sexp × Acct :=
    (match r.1 with | .ok a => .ok (f a) | .err => .err | .panic s => .panic s, r.2)
  match op, args with
  | "classread", [b] => do let b ← toBytes? b; pure (u (classReadOp b).run unitS)
  | "code", [b] => do let b ← toBytes? b; pure (u (Code.codeOp b).run unitS)
  | "labels-full", [k] => do let k ← toNat? k; pure (u (Code.codeOp (labelsFullBody k)).run unitS)
  | "anno", [b] => do let b ← toBytes? b; pure (u (Anno.annoOp b).run ofNat)
  | "anno-nest", [d] => do let d ← toNat? d; pure (u (Anno.annoOp (Anno.nested d)).run ofNat)
  | "dyn", spec => do let spec ← specOf spec; pure (u (Dyn.dynOp spec).run ofNat)
  | "dyn-chain", [k] => do let k ← toNat? k; pure (u (Dyn.dynOp (chainSpec k)).run ofNat)
  | "argsize", [d] => do let d ← toJStr? d; pure (u (Text.argSizeOp d).run unitS)
  | "writer-grow", [a, b] => do let a ← toNat? a; let b ← toNat? b; pure (u (Writer.growOp a b).run unitS)
  | "tiny", [n, b] => do let n ← toNat? n; let b ← toBytes? b; pure (u (Text.tinyOp n b).run unitS)
  | "tinydiff", [b] => do let b ← toBytes? b; pure (u (Text.tinyDiffOp b).run unitS)
  | "enigma", [b] => do let b ← toBytes? b; pure (u (Text.enigmaOp b).run unitS)
  | "nests", [b] => do let b ← toBytes? b; pure (u (Text.nestsOp b).run unitS)
  | "desc-deep", [.atom kind, n] => do
    let n ← toNat? n
    if n > 4000000 then none else
    let dims := List.replicate n 91
    match kind with
    | "desc-field" => pure (u (Text.descFieldOp (dims ++ [73])).run unitS)
    | "desc-method" => pure (u (Text.descMethodOp (40 :: dims ++ [73, 41, 86])).run unitS)
    | "desc-return" => pure (u (Text.descReturnOp (dims ++ [73])).run unitS)
    | _ => none
  | "desc-field", [s] => do let s ← toJStr? s; pure (u (Text.descFieldOp s).run unitS)
  | "desc-method", [s] => do let s ← toJStr? s; pure (u (Text.descMethodOp s).run unitS)
  | "desc-return", [s] => do let s ← toJStr? s; pure (u (Text.descReturnOp s).run unitS)
  | _, _ => none

/-- domain of the writer oracle (mirrors `write_domain` of the harness): every file the reader accepts (the restriction to
files of at most 24000 bytes went with the repair of site 9, 136eeb3) -/
def writeDomain (_b : Bytes) : Bool := true

def handleC16 (op : String) (args : List Sexp) : Option Ans :=
  match op, args with
  | "oracle-no-panic", .atom inner :: rest => do
    let r ← runPlain inner rest
    pure (match r.1 with
      | .panic s => if Sites.openIds.contains s then .ok (tag "out-of-domain") else .ok (list [tag "fail", tag (Sites.report s)])
      | _ => .ok (tag "pass"))
  | "oracle-dyn-bounded", spec => do
    -- `dyn_nodes_bounded`: at most 65536 nodes per resolved constant
    let spec ← specOf spec
    pure (match (Dyn.dynOp spec).run.1 with
      | .ok n => if n ≤ 65536 then .ok (tag "pass") else .ok (list [tag "fail", tag "expansion"])
      | .err => .ok (tag "pass")
      | .panic s => .ok (list [tag "fail", tag (Sites.report s)]))
  | "oracle-write-no-panic", [b] => do
    let b ← toBytes? b
    pure (if !writeDomain b then .ok (tag "out-of-domain")
      else match (classReadOp b).run.1 with
        | .ok _ => .ok (tag "pass")
        | _ => .ok (tag "out-of-domain"))
  | "oracle-alloc", [.atom "code", b] => do
    let b ← toBytes? b
    let r := (Code.codeOp b).run
    -- `alloc_bound_code`: never more than `max 65535 (|body| + 2)` elements
    let verdict : Ans := if r.2.alloc ≤ 64 * b.length + 16777216 then .ok (tag "pass") else .ok (list [tag "fail", tag "alloc"])
    pure (match r.1 with
      | .panic s => .ok (list [tag "fail", tag (Sites.report s)])
      | _ => verdict)
  | _, _ => do
    let r ← runPlain op args
    pure (outAns id r)

def main : IO Unit := Driver.run handleC16
