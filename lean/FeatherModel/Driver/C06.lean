import FeatherModel.Base.Driver
import FeatherModel.Model.Remapper
import FeatherModel.Model.RemapperSpec
import FeatherModel.Model.RemapProv
import FeatherModel.Spec.DescGrammar

open Driver Sexp Codec Remapper

namespace C06

def supersFrom (s : Sexp) : Option Supers :=
  toListOf? (fun e => match e with
    | list [k, ss] => do
      let k ← toJStr? k; let ss ← toListOf? toJStr? ss
      pure (k, ss)
    | _ => none) s

def keyTo (k : MemberKey) : Sexp := list [ofJStr k.1, ofJStr k.2]
def refTo (k : JStr × MemberKey) : Sexp := list [ofJStr k.1, ofJStr k.2.1, ofJStr k.2.2]

def selOf (kind : String) : Option (BClass → AList MemberKey MemberKey) :=
  if kind == "f" then some BClass.fields else if kind == "m" then some BClass.methods else none

def membersOf (kind : String) (c : Class) : List (JStr × Names) :=
  if kind == "f" then fieldMembers c else methodMembers c

def pass : Ans := .ok (tag "pass")
def ood : Ans := .ok (tag "out-of-domain")
def fail (t : String) : Ans := .ok (list [tag "fail", tag t])

/-- `which` = `a`: `remapper_a`; `b`: the `ARemapper` half of `remapper_b` -/
def classTableOf (which : String) (m : Mappings) (src dst : Nat) : Option ATable :=
  if which == "a" then remapperA m src dst
  else match remapperB m src dst with
    | some r => some (classTable r)
    | none => none

/-- request-side domain of the member oracles (mirrors `all_descs_parse` of the harness): every member descriptor of the set is
a descriptor of the JVMS grammar -/
def allDescsParse (m : Mappings) : Bool :=
  m.classes.all fun e => (fieldMembers e.2 ++ methodMembers e.2).all fun md => (Spec.Desc.parse? md.1).isSome

/-- first class of a pre-order that declares `key` -/
def firstHit (sel : BClass → AList MemberKey MemberKey) (r : BTable) (key : MemberKey) (order : List JStr) : Option MemberKey :=
  order.findSome? (declares sel r key)

/-- `member_resolution` / `member_resolution_nearest`: the answer is the first declaration along the pre-order of the
provider's graph from the owner; out of domain only when the provider is cyclic (no pre-order) -/
def memberResolution (m kind src dst sup owner n d : Sexp) : Option Ans := do
  let m ← mappingsFrom m; let kind ← toTag? kind; let sel ← selOf kind
  let src ← toNat? src; let dst ← toNat? dst; let sup ← supersFrom sup
  let owner ← toJStr? owner; let n ← toJStr? n; let d ← toJStr? d
  pure (if !allDescsParse m then ood else
    match remapperB m src dst with
    | none => ood
    | some r =>
      match dfs sup (defaultFuel sup) owner with
      | none => ood
      | some order =>
        match mapMemberFail sel r sup (defaultFuel sup) owner (n, d) with
        | none => fail "fuel"
        | some res => if res == firstHit sel r (n, d) order then pass else fail "differs")

/-! ## `JarSuperProv::remap` -/

/-- `provs = (prov…)`, `prov = ((class (super…))…)`: every provider built the way a loop of `insert`s builds the
`IndexMap<_, IndexSet<_>>` (`provOf`) -/
def provsFrom (s : Sexp) : Option (List Supers) := toListOf? (fun p => (supersFrom p).map provOf) s

def provsTo (ps : List Supers) : Sexp :=
  ofList (fun s => ofList (fun e : JStr × List JStr => list [ofJStr e.1, ofList ofJStr e.2]) s) ps

/-- Kahn-style: repeatedly drop the rows none of whose targets is the key of a remaining row; acyclic iff nothing remains -/
def acyclicGo : Nat → List (JStr × List JStr) → Bool
  | 0, es => es.isEmpty
  | n + 1, es =>
    let keys := es.map Prod.fst
    let es' := es.filter fun e => e.2.any fun p => keys.contains p
    if es'.length == es.length then es.isEmpty else acyclicGo n es'

def acyclicRows (es : List (JStr × List JStr)) : Bool := acyclicGo es.length es

/-- the guard of the there-and-back ops: the graph of all rows and its image under the renaming (all rows, whether or not
they survive `insert`) are acyclic — the Rust search recurses without a visited set -/
def guardAcyclic (t : ATable) (ps : List Supers) : Bool :=
  acyclicRows ps.flatten && acyclicRows (ps.flatten.map fun e => (mapClass t e.1, e.2.map (mapClass t)))

/-- `prov_remap_spec` / `prov_remap_keeps_edges` evaluated on a result `out` of `remap`: as many providers; the keys of every
provider are the images of the keys, first occurrences in order; every surviving row (no later key with the same image)
is answered with exactly the images of its super types, first occurrences in order -/
def provEdgesOracle (t : ATable) (ps out : List Supers) : Ans :=
  if ps.length != out.length then fail "length" else
  let bad := (List.zip ps out).findSome? fun (s, s') =>
    if s'.map Prod.fst != (s.map fun e => mapClass t e.1).eraseDups then some "keys" else
    let rec go : List (JStr × List JStr) → Option String
      | [] => none
      | e :: rest =>
        if rest.any fun e2 => mapClass t e2.1 == mapClass t e.1 then go rest
        else if AList.lookup (mapClass t e.1) s' != some (e.2.map (mapClass t)).eraseDups then some "edges" else go rest
    go s
  match bad with
  | some w => fail w
  | none => pass

structure ThereBack where
  rf : BTable
  rb : BTable
  ps : List Supers
  sel : BClass → AList MemberKey MemberKey
  owner : JStr
  key : MemberKey

def thereBackFrom (m kind x y provs owner n d : Sexp) : Option (Option ThereBack) := do
  let m ← mappingsFrom m; let kind ← toTag? kind; let sel ← selOf kind
  let x ← toNat? x; let y ← toNat? y; let ps ← provsFrom provs
  let owner ← toJStr? owner; let n ← toJStr? n; let d ← toJStr? d
  pure (match remapperB m x y, remapperB m y x with
    | some rf, some rb => some { rf := rf, rb := rb, ps := ps, sel := sel, owner := owner, key := (n, d) }
    | _, _ => none)

/-- `remapper_b(X→Y, ps)` asked about the member, `ps' = JarSuperProv::remap(that remapper, ps)`, `remapper_b(Y→X, ps')`
asked about the answer in the image of the owner -/
def thereBack (c : ThereBack) : Ans :=
  let t := classTable c.rf
  if !guardAcyclic t c.ps then .ok (tag "cyclic") else
  let sup := flattenProvs c.ps
  match mapMemberFail c.sel c.rf sup (defaultFuel sup) c.owner c.key with
  | none => .skip "fuel"
  | some none => .ok (list [list [], list []])
  | some (some key') =>
    let sup' := flattenProvs (remapProvs t c.ps)
    match mapMemberFail c.sel c.rb sup' (defaultFuel sup') (mapClass t c.owner) key' with
    | none => .skip "fuel"
    | some back => .ok (list [list [keyTo key'], list [ofOption keyTo back]])

/-- `roundtrip_inherited` -/
def roundtripInherited (c : ThereBack) : Ans :=
  let t := classTable c.rf
  if !guardAcyclic t c.ps then ood else
  if !wfProvs c.ps then ood else
  if !injOnList (mapClass t) (c.owner :: nodesOf c.ps) then ood else
  let sup := flattenProvs c.ps
  match dfs sup (defaultFuel sup) c.owner with
  | none => ood
  | some order =>
    match order.findSome? (declares c.sel c.rf c.key) with
    | none => ood
    | some key' =>
      let okPath := order.all fun d =>
        match declares c.sel c.rf c.key d with
        | none => declares c.sel c.rb key' (mapClass t d) == none
        | some v => v != key' || declares c.sel c.rb key' (mapClass t d) == some c.key
      if !okPath then ood else
      let sup' := flattenProvs (remapProvs t c.ps)
      match mapMemberFail c.sel c.rb sup' (defaultFuel sup') (mapClass t c.owner) key' with
      | none => .skip "fuel"
      | some back => if back == some c.key then pass else fail "differs"

/-- `(class a|b c)` | `(desc a|b f|m|r d)` | `(member f|m owner n d)` | `(mref class n d)` -/
def queryFrom : Sexp → Option Query
  | list [atom "class", which, c] => do
    let which ← toTag? which; let c ← toJStr? c
    if which == "a" then pure (.cls true c) else if which == "b" then pure (.cls false c) else none
  | list [atom "desc", which, kind, d] => do
    let which ← toTag? which; let kind ← toTag? kind; let d ← toJStr? d
    if !(kind == "f" || kind == "m" || kind == "r") then none
    else if which == "a" then pure (.desc true d) else if which == "b" then pure (.desc false d) else none
  | list [atom "member", kind, owner, n, d] => do
    let kind ← toTag? kind; let owner ← toJStr? owner; let n ← toJStr? n; let d ← toJStr? d
    if kind == "f" then pure (.member true owner (n, d)) else if kind == "m" then pure (.member false owner (n, d)) else none
  | list [atom "mref", cls, n, d] => do
    let cls ← toJStr? cls; let n ← toJStr? n; let d ← toJStr? d
    pure (.mref cls (n, d))
  | _ => none

/-- `(ok …)` / `err` per question; `none` = out of fuel somewhere (cyclic provider, not generated) -/
def answerTo : Answer → Option Sexp
  | .cls f mc any => some (list [tag "ok", list [ofOption ofJStr f, ofJStr mc, ofOption ofJStr any]])
  | .desc (some d) => some (list [tag "ok", ofJStr d])
  | .desc none => some (tag "err")
  | .member f g h => some (list [tag "ok", list [ofOption keyTo f, ofOption keyTo g, ofOption refTo h]])
  | .mref (some h) => some (list [tag "ok", refTo h])
  | .mref none => some (tag "err")
  | .fuel => none

def handle (op : String) (args : List Sexp) : Option Ans :=
  match op, args with
  | "map-seq", [m, src, dst, sup, qs] => do
    let m ← mappingsFrom m; let src ← toNat? src; let dst ← toNat? dst; let sup ← supersFrom sup
    let qs ← toListOf? queryFrom qs
    pure (match instanceOf m src dst sup with
      | none => .err "e"
      | some i =>
        match (mapSeq i qs).mapM answerTo with
        | some l => .ok (list l)
        | none => .skip "fuel")
  | "oracle-seq-history-independent", [m, src, dst, sup, qs] => do
    let m ← mappingsFrom m; let src ← toNat? src; let dst ← toNat? dst; let sup ← supersFrom sup
    let qs ← toListOf? queryFrom qs
    -- On the model this is `seq_pointwise` / `seq_history_independent`: `mapSeq` carries no state, so the comparison of
    -- the sequence on one instance with every question on a fresh instance is trivially `pass`; it is evaluated anyway
    -- (same domain predicate as the harness: both remappers can be built). The verdict that matters is the harness's,
    -- computed on real `remapper_a` / `remapper_b` instances.
    pure (match instanceOf m src dst sup with
      | none => ood
      | some i =>
        match (List.range qs.length).find? (fun k => (mapSeq i qs)[k]? != (qs[k]?).map (mapOne i)) with
        | none => pass
        | some k => fail (toString k))
  | "map-class", [m, which, src, dst, c] => do
    let m ← mappingsFrom m; let which ← toTag? which; let src ← toNat? src; let dst ← toNat? dst; let c ← toJStr? c
    pure (match classTableOf which m src dst with
      | none => .err "e"
      | some t => .ok (list [ofOption ofJStr (mapClassFail t c), ofJStr (mapClass t c), ofOption ofJStr (mapClassAny t c)]))
  | "map-desc", [m, which, src, dst, _kind, d] => do
    let m ← mappingsFrom m; let which ← toTag? which; let src ← toNat? src; let dst ← toNat? dst; let d ← toJStr? d
    pure (match classTableOf which m src dst with
      | none => .err "e"
      | some t => match mapDescWith t d with
        | some r => .ok (ofJStr r)
        | none => .err "e")
  | "map-member", [m, kind, src, dst, sup, owner, n, d] => do
    let m ← mappingsFrom m; let kind ← toTag? kind; let sel ← selOf kind
    let src ← toNat? src; let dst ← toNat? dst; let sup ← supersFrom sup
    let owner ← toJStr? owner; let n ← toJStr? n; let d ← toJStr? d
    pure (match remapperB m src dst with
      | none => .err "e"
      | some r =>
        let fuel := defaultFuel sup
        match mapMemberFail sel r sup fuel owner (n, d), mapMember sel r sup fuel owner (n, d),
              mapRefObj sel r sup fuel owner (n, d) with
        | some f, some g, some h => .ok (list [ofOption keyTo f, ofOption keyTo g, ofOption refTo h])
        | _, _, _ => .skip "fuel")
  | "map-mref", [m, src, dst, sup, cls, n, d] => do
    let m ← mappingsFrom m
    let src ← toNat? src; let dst ← toNat? dst; let sup ← supersFrom sup
    let cls ← toJStr? cls; let n ← toJStr? n; let d ← toJStr? d
    pure (match remapperB m src dst with
      | none => .err "e"
      | some r =>
        match mapMethodRef r sup (defaultFuel sup) cls (n, d) with
        | some (some h) => .ok (refTo h)
        | some none => .err "e"
        | none => .skip "fuel")
  | "oracle-mapclass-spec", [m, src, dst, c] => do
    let m ← mappingsFrom m; let src ← toNat? src; let dst ← toNat? dst; let c ← toJStr? c
    pure (match remapperA m src dst with
      | none => ood
      | some t =>
        let spec := match lastPair (classPairs m src dst) c with | some y => y | none => c
        if mapClass t c == spec then pass else fail "differs")
  | "oracle-desc-shape", [m, src, dst, d] => do
    let m ← mappingsFrom m; let src ← toNat? src; let dst ← toNat? dst; let d ← toJStr? d
    pure (match remapperA m src dst, Spec.Desc.parse? d with
      | some t, some tree =>
        (match mapDescWith t d with
         | some r => if r == Spec.Desc.print (tree.map (mapClass t)) then pass else fail "differs"
         | none => fail "rejected")
      | _, _ => ood)
  | "oracle-desc-rejects", [m, src, dst, d] => do
    let m ← mappingsFrom m; let src ← toNat? src; let dst ← toNat? dst; let d ← toJStr? d
    pure (match remapperA m src dst with
      | none => ood
      | some t =>
        if (mapDescWith t d).isNone == !MapDesc.accepts d then pass else fail "differs")
  | "oracle-member-resolution", [m, kind, src, dst, sup, owner, n, d] => memberResolution m kind src dst sup owner n d
  -- since c873813 the statement of the property text holds without a domain; `-full` is kept as an alias so that the
  -- request line recorded for the (fixed) finding C06-unmapped-owner-hides-supers still replays
  | "oracle-member-nearest", [m, kind, src, dst, sup, owner, n, d] => memberResolution m kind src dst sup owner n d
  | "oracle-member-nearest-full", [m, kind, src, dst, sup, owner, n, d] => memberResolution m kind src dst sup owner n d
  | "oracle-fallback", [m, kind, src, dst, sup, owner, n, d] => do
    let m ← mappingsFrom m; let kind ← toTag? kind; let sel ← selOf kind
    let src ← toNat? src; let dst ← toNat? dst; let sup ← supersFrom sup
    let owner ← toJStr? owner; let n ← toJStr? n; let d ← toJStr? d
    pure (match remapperB m src dst with
      | none => ood
      | some r =>
        match mapMemberFail sel r sup (defaultFuel sup) owner (n, d), mapMember sel r sup (defaultFuel sup) owner (n, d) with
        | some f, some g =>
          let spec := match f with
            | some v => some v
            | none => (mapDescWith (classTable r) d).map (fun d' => (n, d'))
          if g == spec then pass else fail "differs"
        | _, _ => ood)
  | "oracle-roundtrip-class", [m, x, y, c] => do
    let m ← mappingsFrom m; let x ← toNat? x; let y ← toNat? y; let c ← toJStr? c
    pure (match remapperA m x y, remapperA m y x with
      | some f, some b =>
        if !injOn (classPairs m x y) (mapClass f c) c then ood
        else if mapClass b (mapClass f c) == c then pass else fail "differs"
      | _, _ => ood)
  | "oracle-roundtrip-desc", [m, x, y, d] => do
    let m ← mappingsFrom m; let x ← toNat? x; let y ← toNat? y; let d ← toJStr? d
    pure (match remapperA m x y, remapperA m y x, Spec.Desc.parse? d with
      | some f, some b, some tree =>
        if !(tree.names.all fun c => injOn (classPairs m x y) (mapClass f c) c && decide (Spec.Desc.validName (mapClass f c))) then ood
        else (match mapDescWith f d with
          | none => fail "fwd_rejected"
          | some d' => if mapDescWith b d' == some d then pass else fail "differs")
      | _, _, _ => ood)
  | "oracle-roundtrip-member", [m, kind, x, y, owner, n, d] => do
    let m ← mappingsFrom m; let kind ← toTag? kind; let sel ← selOf kind
    let x ← toNat? x; let y ← toNat? y
    let owner ← toJStr? owner; let n ← toJStr? n; let d ← toJStr? d
    pure (if !allDescsParse m then ood else
      match remapperB m x y, remapperB m y x with
      | some rf, some rb =>
        match AList.lookup owner rf, selectedRow m x y owner with
        | some cls, some row =>
          match AList.lookup (n, d) (sel cls), memberRows (aTable m 0 x) (aTable m 0 y) x y (membersOf kind row) with
          | some key', some rows =>
            if !injOn (classPairs m x y) cls.name owner then ood
            else if !injOn rows key' (n, d) then ood
            else if declares sel rb key' cls.name == some (n, d) then pass else fail "differs"
          | _, _ => ood
        | _, _ => ood
      | _, _ => ood)
  | "prov-remap", [m, which, src, dst, provs] => do
    let m ← mappingsFrom m; let which ← toTag? which; let src ← toNat? src; let dst ← toNat? dst; let ps ← provsFrom provs
    pure (match classTableOf which m src dst with
      | none => .err "e"
      | some t => .ok (provsTo (remapProvs t ps)))
  | "oracle-prov-remap-edges", [m, which, src, dst, provs] => do
    let m ← mappingsFrom m; let which ← toTag? which; let src ← toNat? src; let dst ← toNat? dst; let ps ← provsFrom provs
    pure (match classTableOf which m src dst with
      | none => ood
      | some t => provEdgesOracle t ps (remapProvs t ps))
  | "map-there-back", [m, kind, x, y, provs, owner, n, d] => do
    pure (match ← thereBackFrom m kind x y provs owner n d with
      | none => .err "e"
      | some c => thereBack c)
  | "oracle-roundtrip-inherited", [m, kind, x, y, provs, owner, n, d] => do
    let mm ← mappingsFrom m
    pure (match ← thereBackFrom m kind x y provs owner n d with
      | none => ood
      | some c => if !allDescsParse mm then ood else roundtripInherited c)
  | _, _ => none

end C06

def main : IO Unit := Driver.run C06.handle
