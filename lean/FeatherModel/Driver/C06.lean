import FeatherModel.Base.Driver
import FeatherModel.Model.Remapper
import FeatherModel.Model.RemapperSpec
import FeatherModel.Spec.DescGrammar

open Driver Sexp Codec Remapper

namespace C06

def supersFrom (s : Sexp) : Option Supers :=
  toListOf? (fun e => match e with
    | list [k, ss] => do
      let k ← toJStr? k; let ss ← toListOf? toJStr? ss
      pure (k, ss)
    | _ => none) s

def keyTo (k : MemberKey) : Sexp := list [ofJStr k.1, ofJStr k.2]
def refTo (k : JStr × MemberKey) : Sexp := list [ofJStr k.1, ofJStr k.2.1, ofJStr k.2.2]

def selOf (kind : String) : Option (BClass → AList MemberKey MemberKey) :=
  if kind == "f" then some BClass.fields else if kind == "m" then some BClass.methods else none

def membersOf (kind : String) (c : Class) : List (JStr × Names) :=
  if kind == "f" then fieldMembers c else methodMembers c

def pass : Ans := .ok (tag "pass")
def ood : Ans := .ok (tag "out-of-domain")
def fail (t : String) : Ans := .ok (list [tag "fail", tag t])

/-- `which` = `a`: `remapper_a`; `b`: the `ARemapper` half of `remapper_b` -/
def classTableOf (which : String) (m : Mappings) (src dst : Nat) : Option ATable :=
  if which == "a" then remapperA m src dst
  else match remapperB m src dst with
    | some r => some (classTable r)
    | none => none

/-- first class of a pre-order that declares `key` -/
def firstHit (sel : BClass → AList MemberKey MemberKey) (r : BTable) (key : MemberKey) (order : List JStr) : Option MemberKey :=
  order.findSome? (declares sel r key)

/-- `member_resolution` / `member_resolution_nearest`: the answer is the first declaration along the pre-order of the
provider's graph from the owner; out of domain only when the provider is cyclic (no pre-order) -/
def memberResolution (m kind src dst sup owner n d : Sexp) : Option Ans := do
  let m ← mappingsFrom m; let kind ← toTag? kind; let sel ← selOf kind
  let src ← toNat? src; let dst ← toNat? dst; let sup ← supersFrom sup
  let owner ← toJStr? owner; let n ← toJStr? n; let d ← toJStr? d
  pure (match remapperB m src dst with
    | none => ood
    | some r =>
      match dfs sup (defaultFuel sup) owner with
      | none => ood
      | some order =>
        match mapMemberFail sel r sup (defaultFuel sup) owner (n, d) with
        | none => fail "fuel"
        | some res => if res == firstHit sel r (n, d) order then pass else fail "differs")

/-- `(class a|b c)` | `(desc a|b f|m|r d)` | `(member f|m owner n d)` | `(mref class n d)` -/
def queryFrom : Sexp → Option Query
  | list [atom "class", which, c] => do
    let which ← toTag? which; let c ← toJStr? c
    if which == "a" then pure (.cls true c) else if which == "b" then pure (.cls false c) else none
  | list [atom "desc", which, kind, d] => do
    let which ← toTag? which; let kind ← toTag? kind; let d ← toJStr? d
    if !(kind == "f" || kind == "m" || kind == "r") then none
    else if which == "a" then pure (.desc true d) else if which == "b" then pure (.desc false d) else none
  | list [atom "member", kind, owner, n, d] => do
    let kind ← toTag? kind; let owner ← toJStr? owner; let n ← toJStr? n; let d ← toJStr? d
    if kind == "f" then pure (.member true owner (n, d)) else if kind == "m" then pure (.member false owner (n, d)) else none
  | list [atom "mref", cls, n, d] => do
    let cls ← toJStr? cls; let n ← toJStr? n; let d ← toJStr? d
    pure (.mref cls (n, d))
  | _ => none

/-- `(ok …)` / `err` per question; `none` = out of fuel somewhere (cyclic provider, not generated) -/
def answerTo : Answer → Option Sexp
  | .cls f mc any => some (list [tag "ok", list [ofOption ofJStr f, ofJStr mc, ofOption ofJStr any]])
  | .desc (some d) => some (list [tag "ok", ofJStr d])
  | .desc none => some (tag "err")
  | .member f g h => some (list [tag "ok", list [ofOption keyTo f, ofOption keyTo g, ofOption refTo h]])
  | .mref (some h) => some (list [tag "ok", refTo h])
  | .mref none => some (tag "err")
  | .fuel => none

def handle (op : String) (args : List Sexp) : Option Ans :=
  match op, args with
  | "map-seq", [m, src, dst, sup, qs] => do
    let m ← mappingsFrom m; let src ← toNat? src; let dst ← toNat? dst; let sup ← supersFrom sup
    let qs ← toListOf? queryFrom qs
    pure (match instanceOf m src dst sup with
      | none => .err "e"
      | some i =>
        match (mapSeq i qs).mapM answerTo with
        | some l => .ok (list l)
        | none => .skip "fuel")
  | "oracle-seq-history-independent", [m, src, dst, sup, qs] => do
    let m ← mappingsFrom m; let src ← toNat? src; let dst ← toNat? dst; let sup ← supersFrom sup
    let qs ← toListOf? queryFrom qs
    -- On the model this is `seq_pointwise` / `seq_history_independent`: `mapSeq` carries no state, so the comparison of
    -- the sequence on one instance with every question on a fresh instance is trivially `pass`; it is evaluated anyway
    -- (same domain predicate as the harness: both remappers can be built). The verdict that matters is the harness's,
    -- computed on real `remapper_a` / `remapper_b` instances.
    pure (match instanceOf m src dst sup with
      | none => ood
      | some i =>
        match (List.range qs.length).find? (fun k => (mapSeq i qs)[k]? != (qs[k]?).map (mapOne i)) with
        | none => pass
        | some k => fail (toString k))
  | "map-class", [m, which, src, dst, c] => do
    let m ← mappingsFrom m; let which ← toTag? which; let src ← toNat? src; let dst ← toNat? dst; let c ← toJStr? c
    pure (match classTableOf which m src dst with
      | none => .err "e"
      | some t => .ok (list [ofOption ofJStr (mapClassFail t c), ofJStr (mapClass t c), ofOption ofJStr (mapClassAny t c)]))
  | "map-desc", [m, which, src, dst, _kind, d] => do
    let m ← mappingsFrom m; let which ← toTag? which; let src ← toNat? src; let dst ← toNat? dst; let d ← toJStr? d
    pure (match classTableOf which m src dst with
      | none => .err "e"
      | some t => match mapDescWith t d with
        | some r => .ok (ofJStr r)
        | none => .err "e")
  | "map-member", [m, kind, src, dst, sup, owner, n, d] => do
    let m ← mappingsFrom m; let kind ← toTag? kind; let sel ← selOf kind
    let src ← toNat? src; let dst ← toNat? dst; let sup ← supersFrom sup
    let owner ← toJStr? owner; let n ← toJStr? n; let d ← toJStr? d
    pure (match remapperB m src dst with
      | none => .err "e"
      | some r =>
        let fuel := defaultFuel sup
        match mapMemberFail sel r sup fuel owner (n, d), mapMember sel r sup fuel owner (n, d),
              mapRefObj sel r sup fuel owner (n, d) with
        | some f, some g, some h => .ok (list [ofOption keyTo f, ofOption keyTo g, ofOption refTo h])
        | _, _, _ => .skip "fuel")
  | "map-mref", [m, src, dst, sup, cls, n, d] => do
    let m ← mappingsFrom m
    let src ← toNat? src; let dst ← toNat? dst; let sup ← supersFrom sup
    let cls ← toJStr? cls; let n ← toJStr? n; let d ← toJStr? d
    pure (match remapperB m src dst with
      | none => .err "e"
      | some r =>
        match mapMethodRef r sup (defaultFuel sup) cls (n, d) with
        | some (some h) => .ok (refTo h)
        | some none => .err "e"
        | none => .skip "fuel")
  | "oracle-mapclass-spec", [m, src, dst, c] => do
    let m ← mappingsFrom m; let src ← toNat? src; let dst ← toNat? dst; let c ← toJStr? c
    pure (match remapperA m src dst with
      | none => ood
      | some t =>
        let spec := match lastPair (classPairs m src dst) c with | some y => y | none => c
        if mapClass t c == spec then pass else fail "differs")
  | "oracle-desc-shape", [m, src, dst, d] => do
    let m ← mappingsFrom m; let src ← toNat? src; let dst ← toNat? dst; let d ← toJStr? d
    pure (match remapperA m src dst, Spec.Desc.parse? d with
      | some t, some tree =>
        (match mapDescWith t d with
         | some r => if r == Spec.Desc.print (tree.map (mapClass t)) then pass else fail "differs"
         | none => fail "rejected")
      | _, _ => ood)
  | "oracle-desc-rejects", [m, src, dst, d] => do
    let m ← mappingsFrom m; let src ← toNat? src; let dst ← toNat? dst; let d ← toJStr? d
    pure (match remapperA m src dst with
      | none => ood
      | some t =>
        if (mapDescWith t d).isNone == !MapDesc.accepts d then pass else fail "differs")
  | "oracle-member-resolution", [m, kind, src, dst, sup, owner, n, d] => memberResolution m kind src dst sup owner n d
  -- since c873813 the statement of the property text holds without a domain; `-full` is kept as an alias so that the
  -- request line recorded for the (fixed) finding C06-unmapped-owner-hides-supers still replays
  | "oracle-member-nearest", [m, kind, src, dst, sup, owner, n, d] => memberResolution m kind src dst sup owner n d
  | "oracle-member-nearest-full", [m, kind, src, dst, sup, owner, n, d] => memberResolution m kind src dst sup owner n d
  | "oracle-fallback", [m, kind, src, dst, sup, owner, n, d] => do
    let m ← mappingsFrom m; let kind ← toTag? kind; let sel ← selOf kind
    let src ← toNat? src; let dst ← toNat? dst; let sup ← supersFrom sup
    let owner ← toJStr? owner; let n ← toJStr? n; let d ← toJStr? d
    pure (match remapperB m src dst with
      | none => ood
      | some r =>
        match mapMemberFail sel r sup (defaultFuel sup) owner (n, d), mapMember sel r sup (defaultFuel sup) owner (n, d) with
        | some f, some g =>
          let spec := match f with
            | some v => some v
            | none => (mapDescWith (classTable r) d).map (fun d' => (n, d'))
          if g == spec then pass else fail "differs"
        | _, _ => ood)
  | "oracle-roundtrip-class", [m, x, y, c] => do
    let m ← mappingsFrom m; let x ← toNat? x; let y ← toNat? y; let c ← toJStr? c
    pure (match remapperA m x y, remapperA m y x with
      | some f, some b =>
        if !injOn (classPairs m x y) (mapClass f c) c then ood
        else if mapClass b (mapClass f c) == c then pass else fail "differs"
      | _, _ => ood)
  | "oracle-roundtrip-desc", [m, x, y, d] => do
    let m ← mappingsFrom m; let x ← toNat? x; let y ← toNat? y; let d ← toJStr? d
    pure (match remapperA m x y, remapperA m y x, Spec.Desc.parse? d with
      | some f, some b, some tree =>
        if !(tree.names.all fun c => injOn (classPairs m x y) (mapClass f c) c && decide (Spec.Desc.validName (mapClass f c))) then ood
        else (match mapDescWith f d with
          | none => fail "fwd_rejected"
          | some d' => if mapDescWith b d' == some d then pass else fail "differs")
      | _, _, _ => ood)
  | "oracle-roundtrip-member", [m, kind, x, y, owner, n, d] => do
    let m ← mappingsFrom m; let kind ← toTag? kind; let sel ← selOf kind
    let x ← toNat? x; let y ← toNat? y
    let owner ← toJStr? owner; let n ← toJStr? n; let d ← toJStr? d
    pure (match remapperB m x y, remapperB m y x with
      | some rf, some rb =>
        match AList.lookup owner rf, selectedRow m x y owner with
        | some cls, some row =>
          match AList.lookup (n, d) (sel cls), memberRows (aTable m 0 x) (aTable m 0 y) x y (membersOf kind row) with
          | some key', some rows =>
            if !injOn (classPairs m x y) cls.name owner then ood
            else if !injOn rows key' (n, d) then ood
            else if declares sel rb key' cls.name == some (n, d) then pass else fail "differs"
          | _, _ => ood
        | _, _ => ood
      | _, _ => ood)
  | _, _ => none

end C06

def main : IO Unit := Driver.run C06.handle
