import FeatherModel.Base.Driver
import FeatherModel.Model.Nest

open Driver Sexp Codec Nest

namespace C14Codec

def pairTo (p : JStr × JStr) : Sexp := list [ofJStr p.1, ofJStr p.2]
def pairFrom : Sexp → Option (JStr × JStr)
  | list [a, b] => do let a ← toJStr? a; let b ← toJStr? b; pure (a, b)
  | _ => none

def kindTo : Kind → Sexp
  | .anonymous => tag "a"
  | .inner => tag "i"
  | .local => tag "l"
def kindFrom : Sexp → Option Kind
  | atom "a" => some .anonymous
  | atom "i" => some .inner
  | atom "l" => some .local
  | _ => none

def nestTo (n : Nest) : Sexp :=
  list [kindTo n.kind, ofJStr n.className, ofJStr n.enclClass, ofOption pairTo n.enclMethod, ofJStr n.innerName,
        ofNat n.access]
def nestFrom : Sexp → Option Nest
  | list [k, cn, en, em, inn, acc] => do
    let k ← kindFrom k; let cn ← toJStr? cn; let en ← toJStr? en; let em ← toOption? pairFrom em
    let inn ← toJStr? inn; let acc ← toNat? acc
    pure { kind := k, className := cn, enclClass := en, enclMethod := em, innerName := inn, access := maskAccess acc }
  | _ => none

def nestsTo (ns : Nests) : Sexp := ofList nestTo ns
/-- a table is transmitted as the sequence of `add` calls that built it -/
def nestsFrom (s : Sexp) : Option Nests := (toListOf? nestFrom s).map (fun l => l.foldl add [])

def icTo (ic : InnerClass) : Sexp :=
  list [ofJStr ic.inner, ofOption ofJStr ic.outer, ofOption ofJStr ic.name, ofNat ic.flags]
def icFrom : Sexp → Option InnerClass
  | list [i, o, n, f] => do
    let i ← toJStr? i; let o ← toOption? toJStr? o; let n ← toOption? toJStr? n; let f ← toNat? f
    pure { inner := i, outer := o, name := n, flags := maskAccess f }
  | _ => none

def emTo (em : EnclMethod) : Sexp := list [ofJStr em.cls, ofOption pairTo em.method]
def emFrom : Sexp → Option EnclMethod
  | list [c, m] => do let c ← toJStr? c; let m ← toOption? pairFrom m; pure { cls := c, method := m }
  | _ => none

def classTo (c : JClass) : Sexp :=
  list [ofJStr c.name, ofNat c.version, ofBool c.pub, ofOption ofJStr c.super, ofList ofJStr c.interfaces,
        ofList pairTo c.methods, ofOption (ofList icTo) c.innerClasses, ofOption emTo c.enclosingMethod]
def classFrom : Sexp → Option JClass
  | list [n, v, p, s, is, ms, ics, em] => do
    let n ← toJStr? n; let v ← toNat? v; let p ← toBool? p; let s ← toOption? toJStr? s
    let is ← toListOf? toJStr? is; let ms ← toListOf? pairFrom ms
    let ics ← toOption? (toListOf? icFrom) ics; let em ← toOption? emFrom em
    pure { name := n, version := v, pub := p, super := s, interfaces := is, methods := ms, innerClasses := ics,
           enclosingMethod := em }
  | _ => none

def entryTo (e : JStr × Entry) : Sexp :=
  match e.2 with
  | .dir => list [ofJStr e.1, tag "d"]
  | .other => list [ofJStr e.1, tag "o"]
  | .cls c => list [ofJStr e.1, tag "c", classTo c]
def entryFrom : Sexp → Option (JStr × Entry)
  | list [n, atom "d"] => do let n ← toJStr? n; pure (n, .dir)
  | list [n, atom "o"] => do let n ← toJStr? n; pure (n, .other)
  | list [n, atom "c", c] => do let n ← toJStr? n; let c ← classFrom c; pure (n, .cls c)
  | _ => none

def jarTo (j : Jar) : Sexp := ofList entryTo j
/-- a jar is transmitted as the sequence of `IndexMap::insert` calls that built it -/
def jarFrom (s : Sexp) : Option Jar := (toListOf? entryFrom s).map (fun l => l.foldl (fun acc e => AList.insert e.1 e.2 acc) [])

end C14Codec

open C14Codec

def exceptAns (f : α → Sexp) : Except String α → Ans
  | .ok a => .ok (f a)
  | .error e => .err e

/-- class names mentioned by a table -/
def tableNames (ns : Nests) : List JStr := (ns.flatMap (fun n => [n.className, n.enclClass])).eraseDups

/-- decidable domain of `Thm.C14.names_agree`: acyclic table, jar with classes, every nest kept by the filter -/
def namesAgreeDomain (jar : Jar) (ns : Nests) : Bool :=
  (mapTable ns).isSome && (minVersion (classesOf jar)).isSome && ((filterRun jar ns).kept == ns)

/-- class names occurring in `L…;` groups of a descriptor, collected with the scanner itself -/
def descNames (d : JStr) : List JStr :=
  let rec go : List Nat → Option (List Nat) → List JStr → List JStr
    | [], _, acc => acc.reverse
    | c :: rest, none, acc => if c = MapDesc.CH_L then go rest (some []) acc else go rest none acc
    | c :: rest, some cur, acc =>
      if c = MapDesc.SEMI then go rest none (cur.reverse :: acc) else go rest (some (c :: cur)) acc
  go d none []

def usedNames (m : Mappings) : List JStr :=
  (m.classes.flatMap (fun e =>
    e.1 :: (e.2.fields.flatMap (fun f => descNames f.2.desc) ++ e.2.methods.flatMap (fun f => descNames f.2.desc)))).eraseDups

/-- no `;` and non-empty: what `map_desc` needs of a replacement name -/
def cleanName (s : JStr) : Bool := !s.isEmpty && !s.contains MapDesc.SEMI

/-- decidable domain of `Thm.C14.undo_apply`: translated names are clean and no nest's translation collides with the
translation of another used name -/
def undoApplyDomain (m : Mappings) (ns : Nests) : Bool :=
  match mapTable ns with
  | none => false
  | some t =>
    t.all (fun kv => cleanName kv.2) &&
    (usedNames m).all (fun c => cleanName c && t.all (fun kv => tableMap t c != kv.2 || c == kv.1))

/-- source-side projection compared by the oracle: keys, first names, descriptors, member keys -/
def srcView (m : Mappings) : List (JStr × Option JStr × List (MemberKey × JStr) × List (MemberKey × JStr)) :=
  m.classes.map (fun e => (e.1, name0 e.2.names, e.2.fields.map (fun f => (f.1, f.2.desc)),
    e.2.methods.map (fun f => (f.1, f.2.desc))))

def handleC14 (op : String) (args : List Sexp) : Option Ans :=
  match op, args with
  | "nests-read", [t] => do
    let t ← toJStr? t
    pure (match read t with | some ns => .ok (nestsTo ns) | none => .err "e")
  | "nest-jar", [r, ns, jar] => do
    let r ← toBool? r; let ns ← nestsFrom ns; let jar ← jarFrom jar
    pure (if (mapTable ns).isNone then .skip "cyclic" else exceptAns jarTo (nestJar r jar ns))
  | "nest-name-jar", [ns, jar, c] => do
    let ns ← nestsFrom ns; let jar ← jarFrom jar; let c ← toJStr? c
    pure (if (mapTable ns).isNone then .skip "cyclic"
      else if (minVersion (classesOf jar)).isNone then .err "e"
      else match jarName jar ns c with | some r => .ok (ofJStr r) | none => .err "diverge")
  | "nest-name-map", [ns, c] => do
    let ns ← nestsFrom ns; let c ← toJStr? c
    pure (match mapName ns c with | some r => .ok (ofJStr r) | none => .err "diverge")
  | "map-nests", [ns, m] => do
    let ns ← nestsFrom ns; let m ← mappingsFrom m
    pure (match mapNests ns m with | some r => .ok (nestsTo r) | none => .err "e")
  | "apply-nests", [m, ns] => do
    let ns ← nestsFrom ns; let m ← mappingsFrom m
    pure (exceptAns mappingsTo (applyNests m ns))
  | "undo-nests", [m, ns] => do
    let ns ← nestsFrom ns; let m ← mappingsFrom m
    pure (exceptAns mappingsTo (undoNests m ns))
  | "oracle-names-agree", [ns, jar] => do
    let ns ← nestsFrom ns; let jar ← jarFrom jar
    pure (if !namesAgreeDomain jar ns then .ok (tag "out-of-domain")
      else
        let names := (tableNames ns ++ (classesOf jar).map (·.name)).eraseDups
        if names.all (fun c => jarName jar ns c == mapName ns c) then .ok (tag "pass")
        else .ok (list [tag "fail", tag "names_differ"]))
  | "oracle-undo-apply", [m, ns] => do
    let ns ← nestsFrom ns; let m ← mappingsFrom m
    pure (if !undoApplyDomain m ns then .ok (tag "out-of-domain")
      else match applyNests m ns with
        | .error _ => .ok (tag "out-of-domain")
        | .ok m1 =>
          match undoNests m1 ns with
          | .error _ => .ok (list [tag "fail", tag "undo_err"])
          | .ok m2 => if srcView m2 == srcView m then .ok (tag "pass") else .ok (list [tag "fail", tag "differs"]))
  | _, _ => none

def main : IO Unit := Driver.run handleC14
