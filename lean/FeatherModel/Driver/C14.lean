import FeatherModel.Base.Driver
import FeatherModel.Model.NestDomain

open Driver Sexp Codec Nest

namespace C14Codec

def pairTo (p : JStr × JStr) : Sexp := list [ofJStr p.1, ofJStr p.2]
def pairFrom : Sexp → Option (JStr × JStr)
  | list [a, b] => do let a ← toJStr? a; let b ← toJStr? b; pure (a, b)
  | _ => none

def kindTo : Kind → Sexp
  | .anonymous => tag "a"
  | .inner => tag "i"
  | .local => tag "l"
def kindFrom : Sexp → Option Kind
  | atom "a" => some .anonymous
  | atom "i" => some .inner
  | atom "l" => some .local
  | _ => none

def nestTo (n : Nest) : Sexp :=
  list [kindTo n.kind, ofJStr n.className, ofJStr n.enclClass, ofOption pairTo n.enclMethod, ofJStr n.innerName,
        ofNat n.access]
def nestFrom : Sexp → Option Nest
  | list [k, cn, en, em, inn, acc] => do
    let k ← kindFrom k; let cn ← toJStr? cn; let en ← toJStr? en; let em ← toOption? pairFrom em
    let inn ← toJStr? inn; let acc ← toNat? acc
    pure { kind := k, className := cn, enclClass := en, enclMethod := em, innerName := inn, access := maskAccess acc }
  | _ => none

def nestsTo (ns : Nests) : Sexp := ofList nestTo ns
/-- a table is transmitted as the sequence of `add` calls that built it -/
def nestsFrom (s : Sexp) : Option Nests := (toListOf? nestFrom s).map (fun l => l.foldl add [])

def icTo (ic : InnerClass) : Sexp :=
  list [ofJStr ic.inner, ofOption ofJStr ic.outer, ofOption ofJStr ic.name, ofNat ic.flags]
def icFrom : Sexp → Option InnerClass
  | list [i, o, n, f] => do
    let i ← toJStr? i; let o ← toOption? toJStr? o; let n ← toOption? toJStr? n; let f ← toNat? f
    pure { inner := i, outer := o, name := n, flags := maskAccess f }
  | _ => none

def emTo (em : EnclMethod) : Sexp := list [ofJStr em.cls, ofOption pairTo em.method]
def emFrom : Sexp → Option EnclMethod
  | list [c, m] => do let c ← toJStr? c; let m ← toOption? pairFrom m; pure { cls := c, method := m }
  | _ => none

def classTo (c : JClass) : Sexp :=
  list [ofJStr c.name, ofNat c.version, ofBool c.pub, ofOption ofJStr c.super, ofList ofJStr c.interfaces,
        ofList pairTo c.methods, ofOption (ofList icTo) c.innerClasses, ofOption emTo c.enclosingMethod]
def classFrom : Sexp → Option JClass
  | list [n, v, p, s, is, ms, ics, em] => do
    let n ← toJStr? n; let v ← toNat? v; let p ← toBool? p; let s ← toOption? toJStr? s
    let is ← toListOf? toJStr? is; let ms ← toListOf? pairFrom ms
    let ics ← toOption? (toListOf? icFrom) ics; let em ← toOption? emFrom em
    pure { name := n, version := v, pub := p, super := s, interfaces := is, methods := ms, innerClasses := ics,
           enclosingMethod := em }
  | _ => none

def entryTo (e : JStr × Entry) : Sexp :=
  match e.2 with
  | .dir => list [ofJStr e.1, tag "d"]
  | .other => list [ofJStr e.1, tag "o"]
  | .cls c => list [ofJStr e.1, tag "c", classTo c]
def entryFrom : Sexp → Option (JStr × Entry)
  | list [n, atom "d"] => do let n ← toJStr? n; pure (n, .dir)
  | list [n, atom "o"] => do let n ← toJStr? n; pure (n, .other)
  | list [n, atom "c", c] => do let n ← toJStr? n; let c ← classFrom c; pure (n, .cls c)
  | _ => none

def jarTo (j : Jar) : Sexp := ofList entryTo j
/-- a jar is transmitted as the sequence of `IndexMap::insert` calls that built it -/
def jarFrom (s : Sexp) : Option Jar := (toListOf? entryFrom s).map (fun l => l.foldl (fun acc e => AList.insert e.1 e.2 acc) [])

end C14Codec

open C14Codec

def exceptAns (f : α → Sexp) : Except String α → Ans
  | .ok a => .ok (f a)
  | .error e => .err e

/-- class names mentioned by a table -/
def tableNames (ns : Nests) : List JStr := (ns.flatMap (fun n => [n.className, n.enclClass])).eraseDups

def emptyMappings : Mappings := { ns := [jstr "a", jstr "b"], doc := none, classes := [] }

/-- the harness reads mappings-side names through `apply_nests_to_mappings` on a set that only holds a probe class; that
works when the table can be translated through the empty mapping set and the translated table is acyclic too -/
def observable (ns : Nests) : Bool :=
  match mapNests ns emptyMappings with
  | some mapped => (mapTable mapped).isSome
  | none => false

/-- decidable domain of `Thm.C14.names_agree` (acyclic table, jar with classes, every nest kept by the filter as the property
states it: `keptSpec`, equal to the filter of the code by `filter_spec`), restricted to what the harness can observe -/
def namesAgreeDomain (jar : Jar) (ns : Nests) : Bool :=
  (mapTable ns).isSome && (minVersion (classesOf jar)).isSome && decide (keptSpec jar ns = ns) &&
  (tableNames ns ++ (classesOf jar).map (·.name)).all cleanName && observable ns

/-- `oracle-nest-jar-spec`: `filter_spec`, `attrs_spec`, `created_enclosing_partial`, `nothing_else` evaluated on one input.
`none` = outside the domain (jar without classes). -/
def nestJarSpecHolds (jar : Jar) (ns : Nests) : Option Bool :=
  match minVersion (classesOf jar) with
  | none => none
  | some v =>
    let kept := keptSpec jar ns
    let created := createdSpec jar ns
    if (mapTable kept).isNone then
      -- the applied nests form a cycle: an error is the specified answer (`cyclic_err`)
      some (match nestJar false jar ns with | .error _ => true | .ok _ => false)
    else
      match nestJar false jar ns with
      | .error _ => some false
      | .ok out =>
        let srcKeys := jar.map (·.1)
        some (jar.all (fun e => AList.lookup e.1 out == some (emitEntry kept e.2)) &&
          created.all (fun name => srcKeys.contains (name ++ DOT_CLASS) ||
            AList.lookup (name ++ DOT_CLASS) out == some (.cls (addAttrs kept (newClass v name)))) &&
          out.all (fun e => srcKeys.contains e.1 || created.any (fun name => name ++ DOT_CLASS == e.1)))

/-- `oracle-apply-spec`: `apply_classes`, `apply_field`, `apply_method` evaluated on one input -/
def applySpecHolds (m : Mappings) (ns : Nests) : Option Bool :=
  match applyNests m ns with
  | .error _ => none
  | .ok m1 =>
    let nm : JStr → JStr := fun c => (mapName ns c).getD c
    some (m1.classes.length == m.classes.length && (m.classes.zip m1.classes).all (fun (e, e') =>
      e'.1 == nm e.1 && name0 e'.2.names == some e'.1 && e'.2.doc == e.2.doc &&
      e'.2.fields.length == e.2.fields.length && (e.2.fields.zip e'.2.fields).all (fun (f, f') =>
        MapDesc.mapDesc nm f.2.desc == some f'.2.desc && some f'.1.1 == name0 f.2.names && f'.1.2 == f'.2.desc &&
        f'.2.names == f.2.names && f'.2.doc == f.2.doc) &&
      e'.2.methods.length == e.2.methods.length && (e.2.methods.zip e'.2.methods).all (fun (f, f') =>
        MapDesc.mapDesc nm f.2.desc == some f'.2.desc && some f'.1.1 == name0 f.2.names && f'.1.2 == f'.2.desc &&
        f'.2.names == f.2.names && f'.2.doc == f.2.doc && f'.2.params == f.2.params)))

/-- `oracle-map-nests-spec`: `mapNests_keeps_every_nest` evaluated on one input -/
def mapNestsSpecHolds (ns : Nests) (m : Mappings) : Option Bool :=
  match mapNests ns m, remB m with
  | some out, some r =>
    some (ns.all (fun n => match mapNest r n with
        | some n' => (match get out n'.className with | some o => ns.any (fun n2 => mapNest r n2 == some o) | none => false)
        | none => false) &&
      out.all (fun o => ns.any (fun n => mapNest r n == some o)) && keysUnique out)
  | _, _ => none

/-- `oracle-remap-names`: what the property asks of `nest_jar(remap = true)` on names (`remap_names_partial`, and
`<new name>.class` for synthesised classes, which is where the code deviates) -/
def remapNamesHolds (jar : Jar) (ns : Nests) : Option Bool :=
  if (minVersion (classesOf jar)).isNone then none
  else
    let kept := keptSpec jar ns
    let created := createdSpec jar ns
    match mapTable kept with
    | none => some (match nestJar true jar ns with | .error _ => true | .ok _ => false)
    | some t =>
      let f := tableMap t
      let want := created.map (createdView f) ++ jar.map (renamedView f)
      if !decide (want.map (·.1)).Nodup then none
      else
        match nestJar true jar ns with
        | .ok out => some (out.map nameView == want)
        | .error _ => some false

/-- `oracle-remap-attrs`: `attrs_renamed` evaluated on one input: with renaming, every applied nest's class carries, as last
`InnerClasses` entry and (anonymous / local) as `EnclosingMethod`, the attributes with the NEW names -/
def remapAttrsHolds (jar : Jar) (ns : Nests) : Option Bool :=
  if (minVersion (classesOf jar)).isNone then none
  else
    let kept := keptSpec jar ns
    let created := createdSpec jar ns
    match mapTable kept with
    | none => none
    | some t =>
      let f := tableMap t
      let want := created.map (createdView f) ++ jar.map (renamedView f)
      if !decide (want.map (·.1)).Nodup ||
          kept.any (fun n => n.className.head? == some LBRACK || n.enclClass.head? == some LBRACK) then none
      else
        match nestJar true jar ns with
        | .error _ => some false
        | .ok out =>
          some (kept.all (fun n =>
            let cs := (classesOf out).filter (fun c => c.name == f n.className)
            !cs.isEmpty && cs.all (fun c =>
              (c.innerClasses.getD []).getLast? == some (renamedInnerClass f n) &&
              (!(n.kind == .anonymous || n.kind == .local) ||
                (match renamedEnclMethod f n with | some em => c.enclosingMethod == some em | none => false)))))

/-- following enclosing classes from some nest never leaves the table (the harness's own notion of a cyclic table) -/
def chainCyclic (ns : Nests) : Bool :=
  let rec walk : Nat → JStr → Bool
    | 0, _ => true
    | k + 1, c => match get ns c with | some e => walk k e.enclClass | none => false
  ns.any (fun n => walk (ns.length + 1) n.enclClass)

/-- `oracle-cyclic-err`: `cyclic_err` / `acyclic_iff_mapTable` evaluated on one table: cyclic tables are errors for nesting
and un-nesting mappings, acyclic ones are not -/
def cyclicErrHolds (ns : Nests) : Option Bool :=
  let applyErr := match applyNests emptyMappings ns with | .error _ => true | .ok _ => false
  let undoErr := match undoNests emptyMappings ns with | .error _ => true | .ok _ => false
  if chainCyclic ns then some (applyErr && undoErr && (mapTable ns).isNone)
  else some (!undoErr && (mapTable ns).isSome)

/-- `oracle-read-spec`: `read_spec` evaluated on one text -/
def readSpecHolds (text : List Nat) : Option Bool :=
  match Nest.read text with
  | none => none
  | some ns =>
    some (keysUnique ns && ns.all (fun n => n.kind == kindOfInnerName n.innerName && !n.className.isEmpty &&
      !n.enclClass.isEmpty && !n.innerName.isEmpty && validObjClassName n.className && validObjClassName n.enclClass &&
      validObjClassName n.innerName))

def verdict : Option Bool → Ans
  | none => .ok (tag "out-of-domain")
  | some true => .ok (tag "pass")
  | some false => .ok (list [tag "fail", tag "model"])

def handleC14 (op : String) (args : List Sexp) : Option Ans :=
  match op, args with
  | "nests-read", [t] => do
    let t ← toJStr? t
    pure (match read t with | some ns => .ok (nestsTo ns) | none => .err "e")
  | "nest-jar", [r, ns, jar] => do
    let r ← toBool? r; let ns ← nestsFrom ns; let jar ← jarFrom jar
    pure (exceptAns jarTo (nestJar r jar ns))
  | "nest-name-jar", [ns, jar, c] => do
    let ns ← nestsFrom ns; let jar ← jarFrom jar; let c ← toJStr? c
    pure (if (minVersion (classesOf jar)).isNone then .err "e"
      else match jarName jar ns c with | some r => .ok (ofJStr r) | none => .err "e")
  | "nest-name-map", [ns, c] => do
    let ns ← nestsFrom ns; let c ← toJStr? c
    pure (match mapName ns c with
      | none => .err "e"
      | some r => if observable ns then .ok (ofJStr r) else .skip "unobservable")
  | "nest-name-map-unguarded", [ns, c] => do
    let ns ← nestsFrom ns; let _ ← toJStr? c
    pure (if (mapTable ns).isNone then .err "e" else .ok (tag "terminated"))
  | "map-nests", [ns, m] => do
    let ns ← nestsFrom ns; let m ← mappingsFrom m
    pure (match mapNests ns m with | some r => .ok (nestsTo r) | none => .err "e")
  | "apply-nests", [m, ns] => do
    let ns ← nestsFrom ns; let m ← mappingsFrom m
    pure (exceptAns mappingsTo (applyNests m ns))
  | "undo-nests", [m, ns] => do
    let ns ← nestsFrom ns; let m ← mappingsFrom m
    pure (exceptAns mappingsTo (undoNests m ns))
  | "oracle-names-agree", [ns, jar] => do
    let ns ← nestsFrom ns; let jar ← jarFrom jar
    pure (if !namesAgreeDomain jar ns then .ok (tag "out-of-domain")
      else
        let names := (tableNames ns ++ (classesOf jar).map (·.name)).eraseDups
        if names.all (fun c => jarName jar ns c == mapName ns c) then .ok (tag "pass")
        else .ok (list [tag "fail", tag "names_differ"]))
  | "oracle-undo-apply", [m, ns] => do
    let ns ← nestsFrom ns; let m ← mappingsFrom m
    pure (if !(wfMappings m && undoApplyDomain m ns) then .ok (tag "out-of-domain")
      else match applyNests m ns with
        -- a set the model cannot nest is outside. The harness answers `fail apply_err` instead when the request alone shows
        -- that nesting must succeed (`spec_apply_must_succeed`, a sufficient condition): never the case when the model errs
        | .error _ => .ok (tag "out-of-domain")
        | .ok m1 =>
          match undoNests m1 ns with
          | .error _ => .ok (list [tag "fail", tag "undo_err"])
          | .ok m2 => if srcView m2 == srcView m then .ok (tag "pass") else .ok (list [tag "fail", tag "differs"]))
  | "oracle-nest-jar-spec", [ns, jar] => do
    let ns ← nestsFrom ns; let jar ← jarFrom jar
    pure (verdict (nestJarSpecHolds jar ns))
  | "oracle-remap-names", [ns, jar] => do
    let ns ← nestsFrom ns; let jar ← jarFrom jar
    pure (verdict (remapNamesHolds jar ns))
  | "oracle-remap-attrs", [ns, jar] => do
    let ns ← nestsFrom ns; let jar ← jarFrom jar
    pure (verdict (remapAttrsHolds jar ns))
  | "oracle-cyclic-err", [ns] => do
    let ns ← nestsFrom ns
    pure (verdict (cyclicErrHolds ns))
  | "oracle-read-spec", [t] => do
    let t ← toJStr? t
    pure (verdict (readSpecHolds t))
  | "oracle-apply-spec", [m, ns] => do
    let ns ← nestsFrom ns; let m ← mappingsFrom m
    pure (verdict (applySpecHolds m ns))
  | "oracle-map-nests-spec", [ns, m] => do
    let ns ← nestsFrom ns; let m ← mappingsFrom m
    pure (verdict (mapNestsSpecHolds ns m))
  | _, _ => none

def main : IO Unit := Driver.run handleC14
