import FeatherModel.Base.Driver
import FeatherModel.Model.Tiny

/-!
Driver of C03 (Tiny v2). Requests:
* `tiny-write <M>`                 -> `ok <text>` | `err e` (a cell `write` refuses)
* `tiny-read <n> <text>`           -> `ok <M>` | `err e`
* `tiny-rt <M>`                    -> `read (write M)`: `ok <M'>` | `err e`
* `oracle-rt <M>`                  -> theorem `read_write` (domain `writable`)
* `oracle-perm <M> <M'>`           -> theorem `write_perm_dec` (domain `wf`, `wf`, `contentEqB`)
* `oracle-fixed-point <M>`         -> theorem `write_fixed_point` (domain `writable`)
* `oracle-write-rejects <M>`       -> theorem `write_rejects_iff` (every set): `write` fails iff `writeOk` is false
* `oracle-read-wf <n> <text>`      -> theorem `read_wf` (domain: `read` succeeds)
* `oracle-read-counts <n> <text>`  -> theorem `read_counts` (domain: `read` succeeds)
* `oracle-dup <n> <text> <m> <i> <j>` -> theorem `read_dup` (domain `dupAt` on the body; positions count from the first line at indentation 0)
* `oracle-toplevel-doc <n> <text>` -> theorem `read_toplevel_doc` (domain: `read` succeeds)
* `oracle-header-ignored <n> <text> <text'> <k>` -> theorem `header_unknown_property_ignored_at` (domain: same header line, `ignoredAt`)
* `oracle-header-bad <n> <text>`   -> theorem `read_header_bad` (domain `headerBad`)
* `oracle-orphan-indent <n> <text> <k>` -> theorem `indented_after_ignored_toplevel_error_at` (domain `orphanAt`)
-/

open Driver Sexp Codec Tiny

def verdict (tagName : String) : Ans := .ok (list [tag "fail", tag tagName])
def pass : Ans := .ok (tag "pass")
def outOfDomain : Ans := .ok (tag "out-of-domain")

def kindTag : LineKind → String
  | .cls => "classes" | .fld => "fields" | .mth => "methods" | .par => "params" | .doc => "docs" | .skip => "skip"

def handleC03 (op : String) (args : List Sexp) : Option Ans :=
  match op, args with
  | "tiny-write", [m] => do
    let m ← mappingsFrom m
    pure (match write? m with | some t => .ok (ofJStr t) | none => .err "e")
  | "tiny-read", [n, t] => do
    let n ← toNat? n; let t ← toJStr? t
    pure (match read n t with | some m => .ok (mappingsTo m) | none => .err "e")
  | "tiny-rt", [m] => do
    let m ← mappingsFrom m
    pure (match write? m with
      | none => .err "e"
      | some t => match read m.ns.length t with | some r => .ok (mappingsTo r) | none => .err "e")
  | "oracle-rt", [m] => do
    let m ← mappingsFrom m
    pure (if !writable m.ns.length m then outOfDomain else
      match write? m with
      | none => verdict "write_err"
      | some t =>
        match read m.ns.length t with
        | none => verdict "read_err"
        | some r => if r == canon m then pass else verdict "differs")
  | "oracle-perm", [a, b] => do
    let a ← mappingsFrom a; let b ← mappingsFrom b
    pure (if !(wf a && wf b && contentEqB a b) then outOfDomain else
      if write? a == write? b then pass else verdict "differs")
  | "oracle-fixed-point", [m] => do
    let m ← mappingsFrom m
    pure (if !writable m.ns.length m then outOfDomain else
      match write? m with
      | none => verdict "write_err"
      | some t =>
        match read m.ns.length t with
        | none => verdict "read_err"
        | some r => if write? r == some t then pass else verdict "differs")
  | "oracle-write-rejects", [m] => do
    let m ← mappingsFrom m
    pure (if (write? m).isNone == !writeOk m then pass else verdict (if writeOk m then "refused" else "accepted"))
  | "oracle-read-wf", [n, t] => do
    let n ← toNat? n; let t ← toJStr? t
    pure (match read n t with
      | none => outOfDomain
      | some m => if wf m then pass else verdict "not_wf")
  | "oracle-read-counts", [n, t] => do
    let n ← toNat? n; let t ← toJStr? t
    pure (match read n t with
      | none => outOfDomain
      | some m =>
        let kinds := lineKinds .field (bodyPart (textLines t).tail)
        match [LineKind.cls, .fld, .mth, .par, .doc].find? (fun κ => countOf κ m.classes != kinds.count κ) with
        | none => if docN m.doc == (headerDocLines (textLines t).tail).length then pass else verdict "topdoc"
        | some κ => verdict (kindTag κ))
  | "oracle-dup", [n, t, m, i, j] => do
    let n ← toNat? n; let t ← toJStr? t; let m ← toNat? m; let i ← toNat? i; let j ← toNat? j
    pure (if !dupAt (bodyPart (textLines t).tail) m i j then outOfDomain else
      match read n t with
      | none => pass
      | some _ => verdict "accepted")
  | "oracle-toplevel-doc", [n, t] => do
    let n ← toNat? n; let t ← toJStr? t
    pure (match read n t with
      | none => outOfDomain
      | some m =>
        if m.doc != headerDoc (textLines t).tail then verdict "doc"
        else if (headerPart (textLines t).tail).all (fun l => l.indent == 1) then pass else verdict "indent")
  | "oracle-header-ignored", [n, t, t', k] => do
    let n ← toNat? n; let t ← toJStr? t; let t' ← toJStr? t'; let k ← toNat? k
    pure (if !((textLines t).head? == (textLines t').head? && ignoredAt (textLines t).tail (textLines t').tail k) then outOfDomain
      else if read n t == read n t' then pass else verdict "differs")
  | "oracle-header-bad", [n, t] => do
    let n ← toNat? n; let t ← toJStr? t
    pure (if !headerBad (textLines t).tail then outOfDomain else
      match read n t with
      | none => pass
      | some _ => verdict "accepted")
  | "oracle-orphan-indent", [n, t, k] => do
    let n ← toNat? n; let t ← toJStr? t; let k ← toNat? k
    pure (if !orphanAt (textLines t).tail k then outOfDomain else
      match read n t with
      | none => pass
      | some _ => verdict "accepted")
  | _, _ => none

def main : IO Unit := Driver.run handleC03
