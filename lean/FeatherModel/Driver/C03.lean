import FeatherModel.Base.Driver
import FeatherModel.Model.Tiny

/-!
Driver of C03 (Tiny v2). Requests:
* `tiny-write <M>`                 -> `ok <text>` | `err e` (a cell `write` refuses)
* `tiny-read <n> <text>`           -> `ok <M>` | `err e`
* `tiny-rt <M>`                    -> `read (write M)`: `ok <M'>` | `err e`
* `oracle-rt <M>`                  -> theorem `read_write` (domain `writable`)
* `oracle-perm <M> <M'>`           -> theorem `write_perm_dec` (domain `wf`, `wf`, `contentEqB`)
* `oracle-fixed-point <M>`         -> theorem `write_fixed_point` (domain `writable`)
* `oracle-write-rejects <M>`       -> theorem `write_rejects_iff` (every set): `write` fails iff `writeOk` is false
* `oracle-read-wf <n> <text>`      -> theorem `read_wf` (domain: `read` succeeds)
* `oracle-read-counts <n> <text>`  -> theorem `read_counts` (domain: `read` succeeds)
* `oracle-dup <n> <text> <m> <i> <j>` -> theorem `read_dup` (domain `dupAt`)
-/

open Driver Sexp Codec Tiny

def verdict (tagName : String) : Ans := .ok (list [tag "fail", tag tagName])
def pass : Ans := .ok (tag "pass")
def outOfDomain : Ans := .ok (tag "out-of-domain")

def kindTag : LineKind → String
  | .cls => "classes" | .fld => "fields" | .mth => "methods" | .par => "params" | .doc => "docs" | .skip => "skip"

def handleC03 (op : String) (args : List Sexp) : Option Ans :=
  match op, args with
  | "tiny-write", [m] => do
    let m ← mappingsFrom m
    pure (match write? m with | some t => .ok (ofJStr t) | none => .err "e")
  | "tiny-read", [n, t] => do
    let n ← toNat? n; let t ← toJStr? t
    pure (match read n t with | some m => .ok (mappingsTo m) | none => .err "e")
  | "tiny-rt", [m] => do
    let m ← mappingsFrom m
    pure (match write? m with
      | none => .err "e"
      | some t => match read m.ns.length t with | some r => .ok (mappingsTo r) | none => .err "e")
  | "oracle-rt", [m] => do
    let m ← mappingsFrom m
    pure (if !writable m.ns.length m then outOfDomain else
      match write? m with
      | none => verdict "write_err"
      | some t =>
        match read m.ns.length t with
        | none => verdict "read_err"
        | some r => if r == canon m then pass else verdict "differs")
  | "oracle-perm", [a, b] => do
    let a ← mappingsFrom a; let b ← mappingsFrom b
    pure (if !(wf a && wf b && contentEqB a b) then outOfDomain else
      if write? a == write? b then pass else verdict "differs")
  | "oracle-fixed-point", [m] => do
    let m ← mappingsFrom m
    pure (if !writable m.ns.length m then outOfDomain else
      match write? m with
      | none => verdict "write_err"
      | some t =>
        match read m.ns.length t with
        | none => verdict "read_err"
        | some r => if write? r == some t then pass else verdict "differs")
  | "oracle-write-rejects", [m] => do
    let m ← mappingsFrom m
    pure (if (write? m).isNone == !writeOk m then pass else verdict (if writeOk m then "refused" else "accepted"))
  | "oracle-read-wf", [n, t] => do
    let n ← toNat? n; let t ← toJStr? t
    pure (match read n t with
      | none => outOfDomain
      | some m => if wf m then pass else verdict "not_wf")
  | "oracle-read-counts", [n, t] => do
    let n ← toNat? n; let t ← toJStr? t
    pure (match read n t with
      | none => outOfDomain
      | some m =>
        let kinds := lineKinds .field (textLines t).tail
        match [LineKind.cls, .fld, .mth, .par, .doc].find? (fun κ => countOf κ m.classes != kinds.count κ) with
        | none => pass
        | some κ => verdict (kindTag κ))
  | "oracle-dup", [n, t, m, i, j] => do
    let n ← toNat? n; let t ← toJStr? t; let m ← toNat? m; let i ← toNat? i; let j ← toNat? j
    pure (if !dupAt (textLines t).tail m i j then outOfDomain else
      match read n t with
      | none => pass
      | some _ => verdict "accepted")
  | _, _ => none

def main : IO Unit := Driver.run handleC03
