import FeatherModel.Base.Driver
import FeatherModel.Model.Tiny

open Driver Sexp Codec Tiny

def verdict (tagName : String) : Ans := .ok (list [tag "fail", tag tagName])

def handleC03 (op : String) (args : List Sexp) : Option Ans :=
  match op, args with
  | "tiny-write", [m] => do
    let m ← mappingsFrom m
    pure (match write? m with | some t => .ok (ofJStr t) | none => .err "e")
  | "tiny-read", [n, t] => do
    let n ← toNat? n; let t ← toJStr? t
    pure (match read n t with | some m => .ok (mappingsTo m) | none => .err "e")
  | "tiny-rt", [m] => do
    let m ← mappingsFrom m
    pure (match write? m with
      | none => .err "e"
      | some t => match read m.ns.length t with | some r => .ok (mappingsTo r) | none => .err "e")
  | "oracle-rt", [m] => do
    let m ← mappingsFrom m
    pure (if !writable m.ns.length m then .ok (tag "out-of-domain") else
      match write? m with
      | none => verdict "write_err"
      | some t =>
        match read m.ns.length t with
        | none => verdict "read_err"
        | some r => if r == canon m then .ok (tag "pass") else verdict "differs")
  | "oracle-perm", [a, b] => do
    let a ← mappingsFrom a; let b ← mappingsFrom b
    pure (if !(wf a && wf b && contentEqB a b) then .ok (tag "out-of-domain") else
      if write? a == write? b then .ok (tag "pass") else verdict "differs")
  | "oracle-fixed-point", [m] => do
    let m ← mappingsFrom m
    pure (if !writable m.ns.length m then .ok (tag "out-of-domain") else
      match write? m with
      | none => verdict "write_err"
      | some t =>
        match read m.ns.length t with
        | none => verdict "read_err"
        | some r => if write? r == some t then .ok (tag "pass") else verdict "differs")
  | _, _ => none

def main : IO Unit := Driver.run handleC03
