import FeatherModel.Base.Driver
import FeatherModel.Model.Merge

open Driver Sexp Codec Merge AList

/-! Driver of C09 (merge). The oracles evaluate the statements of `Thm/C09.lean` on the model's own result; the harness
(`harness/src/bin/c09.rs`) evaluates the same checks on the result of the real `Mappings::merge`. -/

namespace C09

inductive Path where
  | c (kc : JStr)
  | f (kc : JStr) (kf : MemberKey)
  | m (kc : JStr) (km : MemberKey)
  | p (kc : JStr) (km : MemberKey) (kp : Nat)
  deriving BEq

structure Ent where
  names : Names
  desc : Option JStr
  index : Option Nat
  doc : Option JStr

def flat (M : Mappings) : List (Path × Ent) :=
  M.classes.flatMap fun (kc, c) =>
    (Path.c kc, { names := c.names, desc := none, index := none, doc := c.doc : Ent }) ::
    (c.fields.map fun (kf, f) => (Path.f kc kf, { names := f.names, desc := some f.desc, index := none, doc := f.doc : Ent })) ++
    (c.methods.flatMap fun (km, m) =>
      (Path.m kc km, { names := m.names, desc := some m.desc, index := none, doc := m.doc : Ent }) ::
      (m.params.map fun (kp, p) => (Path.p kc km kp, { names := p.names, desc := none, index := some p.index, doc := p.doc : Ent })))

def find (M : Mappings) : Path → Option Ent
  | .c kc => (cls M kc).map fun c => { names := c.names, desc := none, index := none, doc := c.doc }
  | .f kc kf => (fld M kc kf).map fun f => { names := f.names, desc := some f.desc, index := none, doc := f.doc }
  | .m kc km => (mth M kc km).map fun m => { names := m.names, desc := some m.desc, index := none, doc := m.doc }
  | .p kc km kp => (prm M kc km kp).map fun p => { names := p.names, desc := none, index := some p.index, doc := p.doc }

/-- A's keys in A's order, then the keys only B has, in B's order -/
def expectKeys {K V : Type} [BEq K] (m n : AList K V) : List K :=
  m.keys ++ n.keys.filter (fun k => !contains k m)

def expectSide {K V : Type} [BEq K] (om on : Option (AList K V)) : List K :=
  match om, on with
  | some m, some n => expectKeys m n
  | some m, none => m.keys
  | none, some n => n.keys
  | none, none => []

def firstFail (checks : List (String × Bool)) : Ans :=
  match checks.find? (fun c => !c.2) with
  | some (t, _) => .ok (list [tag "fail", tag t])
  | none => .ok (tag "pass")

def oracleKeys (A B R : Mappings) : Ans :=
  firstFail [
    ("classes", R.classes.keys == expectKeys A.classes B.classes),
    ("fields", R.classes.all fun (kc, c) =>
      c.fields.keys == expectSide ((cls A kc).map (·.fields)) ((cls B kc).map (·.fields))),
    ("methods", R.classes.all fun (kc, c) =>
      c.methods.keys == expectSide ((cls A kc).map (·.methods)) ((cls B kc).map (·.methods))),
    ("params", R.classes.all fun (kc, c) => c.methods.all fun (km, m) =>
      m.params.keys == expectSide ((mth A kc km).map (·.params)) ((mth B kc km).map (·.params))),
    ("member", (flat A ++ flat B).all fun (p, _) => (find R p).isSome),
    ("extra", (flat R).all fun (p, _) => (find A p).isSome || (find B p).isSome)]

def oracleColumns (A B R : Mappings) : Ans :=
  firstFail [
    ("namespaces", R.ns == [A.ns[0]?.getD [], A.ns[1]?.getD [], B.ns[1]?.getD []]),
    ("row", (flat R).all fun (p, e) => e.names == joinRow ((find A p).map (·.names)) ((find B p).map (·.names)))]

def agreesB (A P : Mappings) : Bool :=
  P.ns == A.ns && (A.doc.isNone || P.doc == A.doc) &&
  (flat A).all fun (path, a) =>
    match find P path with
    | none => false
    | some p => p.names == a.names && p.desc == a.desc && p.index == a.index && (a.doc.isNone || p.doc == a.doc)

def oracleProject (A B R : Mappings) : Ans :=
  firstFail [
    ("a", agreesB A (project 0 1 R)),
    ("b", agreesB B (project 0 2 R)),
    ("doc", R.doc == joinDoc A.doc B.doc),
    ("docs", (flat R).all fun (p, e) => e.doc == joinDoc ((find A p).bind (·.doc)) ((find B p).bind (·.doc)))]

/-- `Conflict` of the model file, evaluated over the entries of `A` -/
def conflictPaths (A B : Mappings) : Bool :=
  A.ns[0]? != B.ns[0]? || docConflict A.doc B.doc ||
  (flat A).any fun (path, a) =>
    match find B path with
    | none => false
    | some b => docConflict a.doc b.doc ||
      (match path with | .p _ _ _ => a.names[0]? != b.names[0]? | _ => false)

def oracleErrors (A B : Mappings) : Ans :=
  let failed := (merge A B).isNone
  firstFail [
    ("general", failed == conflict A B),
    ("consistent", !(decide (KeysConsistent A) && decide (KeysConsistent B)) || failed == conflictPaths A B)]

def handle (op : String) (args : List Sexp) : Option Ans :=
  match args with
  | [a, b] => do
    let A ← mappingsFrom a; let B ← mappingsFrom b
    -- what `mapcodec::from_sexp::<2>` refuses is not a request
    if !(decide (Shape A) && decide (Shape B)) then none
    match op with
    | "merge" => pure (match merge A B with | some r => .ok (mappingsTo r) | none => .err "e")
    | "oracle-merge-errors" => pure (oracleErrors A B)
    | "oracle-merge-keys" | "oracle-merge-columns" | "oracle-merge-project" =>
      pure (match merge A B with
        | none => .ok (tag "out-of-domain")
        | some R =>
          if op == "oracle-merge-keys" then oracleKeys A B R
          else if op == "oracle-merge-columns" then oracleColumns A B R
          else oracleProject A B R)
    | _ => none
  | _ => none

end C09

def main : IO Unit := Driver.run C09.handle
