import FeatherModel.Base.Driver
import FeatherModel.Model.Enigma

open Driver Sexp Codec Enigma

/-- the harness only handles two-namespace sets (`Mappings<2, _>`) -/
def shape2 (m : Mappings) : Bool :=
  m.ns.length == 2 &&
  m.classes.all fun (_, c) =>
    c.names.length == 2 &&
    c.fields.all (fun (_, f) => f.names.length == 2) &&
    c.methods.all (fun (_, me) => me.names.length == 2 && me.params.all (fun (_, p) => p.names.length == 2))

def textTo (t : Text) : Sexp := ofJStr t

def sortClasses (cs : AList JStr Class) : AList JStr Class := isort keyLe cs

def mkLe (a b : MemberKey) : Bool :=
  match jcmp a.1 b.1 with
  | .lt => true
  | .gt => false
  | .eq => jcmp a.2 b.2 != .gt

/-- fully sorted form used by `oracle-perm` to decide "same content, other insertion order" -/
def sortAll (cs : AList JStr Class) : AList JStr Class :=
  sortClasses (cs.map fun (k, c) =>
    (k, { c with
      fields := isort (fun a b : MemberKey × Field => mkLe a.1 b.1) c.fields,
      methods := isort (fun a b : MemberKey × Method => mkLe a.1 b.1)
        (c.methods.map fun (mk, me) => (mk, { me with params := isort (fun a b : Nat × Param => decide (a.1 ≤ b.1)) me.params })) }))

/-- (depth, full source name) of every `CLASS` line of a text, names rebuilt from the enclosing `CLASS` lines -/
def classLinesOf (ls : List ELine) : List (Nat × JStr) :=
  let rec go : List ELine → List JStr → List (Nat × JStr)
    | [], _ => []
    | l :: rest, stack =>
      if l.first = kwCLASS then
        let st := stack.drop (stack.length - l.idents)
        let tok := l.fields.headD []
        let full := match st with
          | p :: _ => p ++ DOLLAR :: tok
          | [] => tok
        (l.idents, full) :: go rest (full :: st)
      else go rest stack
  go ls []

/-- `placement`, evaluated on the written files -/
def placementCheck (m : Mappings) (fs : List (JStr × Text)) : Option String :=
  let per := fs.map fun (_, t) => classLinesOf (lexText t)
  let all := per.flatMap id
  if per.any (fun f => match f with | (0, _) :: rest => rest.any (fun e => e.1 == 0) | _ => true) then some "file_shape"
  else if !(m.classes.all fun (k, _) => (all.filter (fun e => e.2 == k)).length == 1) then some "not_once"
  else if all.length != m.classes.length then some "extra"
  else if !(all.all fun (d, k) => (d != 0) == (parentInSet m.classes k).isSome) then some "nesting"
  else none

def handleC12 (op : String) (args : List Sexp) : Option Ans :=
  match op, args with
  | "enigma-write-all", [m] => do
    let m ← mappingsFrom m
    if !shape2 m then none
    pure (match writeAll m with | some t => .ok (textTo t) | none => .err "e")
  | "enigma-write-one", [m, d] => do
    let m ← mappingsFrom m; let d ← toJStr? d
    if !shape2 m then none
    pure (match writeOne m d with | some t => .ok (textTo t) | none => .err "e")
  | "enigma-read", [t] => do
    let t ← toJStr? t
    let m0 : Mappings := { ns := [jstr "official", jstr "named"], doc := none, classes := [] }
    pure (match readInto t m0 with | some r => .ok (mappingsTo r) | none => .err "e")
  | "enigma-rt", [m] => do
    let m ← mappingsFrom m
    if !shape2 m then none
    pure (match writeAll m with
      | none => .err "e"
      | some t => match readInto t (emptyLike m) with | some r => .ok (mappingsTo r) | none => .err "e")
  | "enigma-files", [m] => do
    let m ← mappingsFrom m
    if !shape2 m then none
    pure (match files m with
      | some fs => .ok (ofList (fun (e : JStr × Text) => list [ofJStr e.1, textTo e.2]) (isort keyLe fs))
      | none => .err "e")
  | "enigma-dir-rt", [m] => do
    let m ← mappingsFrom m
    if !shape2 m then none
    pure (match dirRoundTrip m with | some r => .ok (mappingsTo r) | none => .err "e")
  | "oracle-rt", [m] => do
    let m ← mappingsFrom m
    if !shape2 m then none
    pure (if !writableB m then .ok (tag "out-of-domain") else
      match writeAll m with
      | none => .ok (list [tag "fail", tag "write_err"])
      | some t =>
        match readInto t (emptyLike m) with
        | none => .ok (list [tag "fail", tag "read_err"])
        | some r =>
          if sortClasses r.classes == sortClasses (canonClasses m.classes) && r.ns == m.ns && r.doc == none
          then .ok (tag "pass") else .ok (list [tag "fail", tag "differs"]))
  | "oracle-dir-rt", [m] => do
    let m ← mappingsFrom m
    if !shape2 m then none
    pure (if !writableB m then .ok (tag "out-of-domain") else
      match dirRoundTrip m with
      | none => .ok (list [tag "fail", tag "io_err"])
      | some r =>
        if sortClasses r.classes == sortClasses (canonClasses m.classes) then .ok (tag "pass")
        else .ok (list [tag "fail", tag "differs"]))
  | "oracle-perm", [m, m'] => do
    let m ← mappingsFrom m; let m' ← mappingsFrom m'
    if !shape2 m || !shape2 m' then none
    pure (if !(writableB m && writableB m' && sortAll m.classes == sortAll m'.classes)
      then .ok (tag "out-of-domain")
      else if writeAll m == writeAll m' && files m == files m' then .ok (tag "pass") else .ok (list [tag "fail", tag "differs"]))
  | "oracle-placement", [m] => do
    let m ← mappingsFrom m
    if !shape2 m then none
    pure (if !writableB m then .ok (tag "out-of-domain") else
      match files m with
      | none => .ok (list [tag "fail", tag "io_err"])
      | some fs =>
        match placementCheck m fs with
        | none => .ok (tag "pass")
        | some why => .ok (list [tag "fail", tag why]))
  | _, _ => none

def main : IO Unit := Driver.run handleC12
