import FeatherModel.Base.Driver
import FeatherModel.Model.ClassReadSexp
import FeatherModel.Model.ClassReadResolve

/-!
C01 driver.  Ops:

* `read x<bytes>`                      -> `ok <class>` | `err e` | `panic <file>`
* `read-resolved x<bytes>`             -> the same with label ids read back as instruction positions
* `mutf8 x<bytes>`                     -> `ok #<code points>` | `err e`
* `oracle-read-expected x<bytes> <class>`   the fidelity statement on a generated class: reading the bytes and
  resolving labels gives exactly the description the class file was assembled from -> `ok pass` | `ok (fail _)`
* `oracle-parameter-annotations x<bytes> <n>`   known finding: parameter annotations are consumed, never delivered
* `oracle-read-parse x<bytes>`         (implementation side: independent parse of the same bytes; model side: the
  model's own read) -> `ok pass` | `ok out-of-domain` when the bytes are not a readable class
-/

open Driver Sexp ClassRead

def outcomeAns {α : Type} (f : α → Sexp) : Outcome α → Ans
  | .ok a => .ok (f a)
  | .err => .err "e"
  | .crash s => .panic s.file

def handleC01 (op : String) (args : List Sexp) : Option Ans :=
  match op, args with
  | "read", [b] => do
    let b ← toBytes? b
    pure (outcomeAns (fun (c, _) => c.toSexp) (ClassRead.read b))
  | "read-resolved", [b] => do
    let b ← toBytes? b
    pure (match ClassRead.read b with
      | .ok (c, _) => (match c.resolve with | some c => .ok c.toSexp | none => .err "dangling")
      | .err => .err "e"
      | .crash s => .panic s.file)
  | "mutf8", [b] => do
    let b ← toBytes? b
    pure (match Mutf8.decode b with | some s => .ok (ofJStr s) | none => .err "e")
  | "oracle-read-expected", [b, expected] => do
    let b ← toBytes? b
    pure (match ClassRead.read b with
      | .ok (c, _) =>
        (match c.resolve with
         | some c => if c.toSexp.toStr == expected.toStr then .ok (tag "pass") else .ok (list [tag "fail", tag "differs"])
         | none => .ok (list [tag "fail", tag "dangling"]))
      | .err => .ok (list [tag "fail", tag "err"])
      | .crash _ => .ok (list [tag "fail", tag "panic"]))
  | "oracle-parameter-annotations", [b, n] => do
    -- `n` = number of Runtime(In)VisibleParameterAnnotations attributes the class file states; the description has no
    -- place for them (`ClassRead.readMethodAttr` skips them), so 0 of `n` are delivered
    let b ← toBytes? b
    let n ← toNat? n
    pure (match ClassRead.read b with
      | .ok _ => if n == 0 then .ok (tag "pass") else .ok (list [tag "fail", tag "dropped"])
      | _ => .ok (list [tag "fail", tag "err"]))
  | "oracle-read-parse", [b] => do
    let b ← toBytes? b
    pure (match ClassRead.read b with
      | .ok _ => .ok (tag "pass")
      | _ => .ok (tag "out-of-domain"))
  | _, _ => none

def main : IO Unit := Driver.run handleC01
