import FeatherModel.Base.Driver
import FeatherModel.Model.RemapSpec
import FeatherModel.Model.Remapper

/-!
# Driver for C07 (jar remapping)

Wire format (mirrored by `harness/src/bin/c07.rs`); `x?` is `()` or `(x)`, `o` is any S-expression (opaque):

    jar      := ((name attr content)*)            content := dir | (other o) | (class class)
    class    := (o name name? (name*) (field*) (method*) ((inner*))? encl? sig? (ann*) (ann*) (tann*) (tann*)
                 module? ((name*))? name? name? ((name*))? ((name*))? (rc*) (o*))
    module   := (o (name*) ((name (name*))*))      -- shape, uses, provides (service, implementations)
    field    := (o name desc sig? (ann*) (ann*) (tann*) (tann*) (o*))
    method   := (o name desc code? ((name*))? sig? (ann*) (ann*) (tann*) (tann*) ev? o (o*))
    code     := (o (entry*) (exc*) ((lv*))? (tann*) (tann*) (o*))
    entry    := (o frame? insn)
    frame    := (p o) | (s1 vt) | (ap (vt*)) | (fu (vt*) (vt*))          vt := (p o) | (o name)
    insn     := (p o) | (ldc loadable) | (f o ref) | (m o ref) | (indy name desc handle (loadable*)) | (c o name)
    ref      := (cls name desc)                  handle := (f o ref) | (m o ref)
    loadable := (k o) | (c name) | (h handle) | (mt desc) | (d name desc handle (loadable*))
    exc      := (o name?)                         lv := (o name desc? sig?)
    ann      := (desc ((name ev)*))               tann := (o ann)
    ev       := (o o) | (e desc name) | (c desc) | (a ann) | (r (ev*))
    inner    := (name name? name? o)              encl := (name (name desc)?)
    rc       := (name desc sig? (ann*) (ann*) (tann*) (tann*) (o*))
    table    := ((name name?)*) ((desc desc?)*) (((owner name desc) (name desc)?)*) (((owner name desc) (name desc)?)*)

`oracle-reopen` takes a fifth argument (`t` / `f`): every class of the jar is one duke must be able to write (decided by the
generator from the hints; the entry-name half of the domain is recomputed here, `reopenNamesOk`). `oracle-table-spec` takes
`() mappings (supers hints) table` and recomputes every row of the table from mappings and supers with `Model/Remapper.lean`.

The table lists the remapper's answers (`()` = the remapper failed); a question that is not listed is answered like a
failure (the harness lists every question the traversal can ask, so this shows up as a disagreement).
-/

open Driver Sexp RemapTree

namespace C07

/-! ## decoding -/

def dOpt (f : Sexp → Option α) : Sexp → Option (Option α) := toOption? f
def dList (f : Sexp → Option α) : Sexp → Option (List α) := toListOf? f
def dStr : Sexp → Option JStr := toJStr?

def dRef : Sexp → Option MemberRef
  | .list [c, n, d] => do pure ⟨← dStr c, ← dStr n, ← dStr d⟩
  | _ => none

mutual
  partial def dAnn : Sexp → Option Annotation
    | .list [t, .list ps] => do
      let t ← dStr t
      let ps ← ps.mapM dPair
      pure (.mk t ps)
    | _ => none
  partial def dPair : Sexp → Option Pair
    | .list [n, v] => do pure (.mk (← dStr n) (← dEv v))
    | _ => none
  partial def dEv : Sexp → Option ElementValue
    | .list [.atom "o", o] => some (.object o)
    | .list [.atom "e", t, c] => do pure (.enum (← dStr t) (← dStr c))
    | .list [.atom "c", d] => do pure (.cls (← dStr d))
    | .list [.atom "a", a] => do pure (.ann (← dAnn a))
    | .list [.atom "r", .list vs] => do pure (.array (← vs.mapM dEv))
    | _ => none
end

def dTann : Sexp → Option TypeAnnotation
  | .list [t, a] => do pure ⟨t, ← dAnn a⟩
  | _ => none

def dHandle : Sexp → Option Handle
  | .list [.atom "f", k, r] => do pure (.field k (← dRef r))
  | .list [.atom "m", k, r] => do pure (.method k (← dRef r))
  | _ => none

mutual
  partial def dLoadable : Sexp → Option Loadable
    | .list [.atom "k", o] => some (.const o)
    | .list [.atom "c", n] => do pure (.cls (← dStr n))
    | .list [.atom "h", h] => do pure (.handle (← dHandle h))
    | .list [.atom "mt", d] => do pure (.methodType (← dStr d))
    | .list [.atom "d", n, d, h, .list args] => do
      pure (.dynamic (.mk (← dStr n) (← dStr d) (← dHandle h) (← args.mapM dLoadable)))
    | _ => none
end

def dVType : Sexp → Option VType
  | .list [.atom "p", o] => some (.plain o)
  | .list [.atom "o", n] => do pure (.object (← dStr n))
  | _ => none

def dFrame : Sexp → Option Frame
  | .list [.atom "p", o] => some (.plain o)
  | .list [.atom "s1", v] => do pure (.same1 (← dVType v))
  | .list [.atom "ap", ls] => do pure (.append (← dList dVType ls))
  | .list [.atom "fu", ls, ss] => do pure (.full (← dList dVType ls) (← dList dVType ss))
  | _ => none

def dInsn : Sexp → Option Insn
  | .list [.atom "p", o] => some (.plain o)
  | .list [.atom "ldc", l] => do pure (.ldc (← dLoadable l))
  | .list [.atom "f", op, r] => do pure (.field op (← dRef r))
  | .list [.atom "m", op, r] => do pure (.method op (← dRef r))
  | .list [.atom "indy", n, d, h, args] => do
    pure (.indy (← dStr n) (← dStr d) (← dHandle h) (← dList dLoadable args))
  | .list [.atom "c", op, n] => do pure (.cls op (← dStr n))
  | _ => none

def dEntry : Sexp → Option InsnEntry
  | .list [l, f, i] => do pure ⟨l, ← dOpt dFrame f, ← dInsn i⟩
  | _ => none

def dExc : Sexp → Option ExcEntry
  | .list [s, c] => do pure ⟨s, ← dOpt dStr c⟩
  | _ => none

def dLv : Sexp → Option Lv
  | .list [s, n, d, g] => do pure ⟨s, ← dStr n, ← dOpt dStr d, ← dOpt dStr g⟩
  | _ => none

def dOpaques : Sexp → Option (List Opaque)
  | .list xs => some xs
  | _ => none

def dCode : Sexp → Option Code
  | .list [s, is, es, lvs, rvta, rita, attrs] => do
    pure ⟨s, ← dList dEntry is, ← dList dExc es, ← dOpt (dList dLv) lvs, ← dList dTann rvta, ← dList dTann rita,
      ← dOpaques attrs⟩
  | _ => none

def dField : Sexp → Option RemapTree.Field
  | .list [s, n, d, sig, rva, ria, rvta, rita, attrs] => do
    pure ⟨s, ← dStr n, ← dStr d, ← dOpt dStr sig, ← dList dAnn rva, ← dList dAnn ria, ← dList dTann rvta,
      ← dList dTann rita, ← dOpaques attrs⟩
  | _ => none

def dMethod : Sexp → Option RemapTree.Method
  | .list [s, n, d, code, excs, sig, rva, ria, rvta, rita, ad, params, attrs] => do
    pure ⟨s, ← dStr n, ← dStr d, ← dOpt dCode code, ← dOpt (dList dStr) excs, ← dOpt dStr sig, ← dList dAnn rva,
      ← dList dAnn ria, ← dList dTann rvta, ← dList dTann rita, ← dOpt dEv ad, params, ← dOpaques attrs⟩
  | _ => none

def dInner : Sexp → Option InnerClass
  | .list [i, o, n, f] => do pure ⟨← dStr i, ← dOpt dStr o, ← dOpt dStr n, f⟩
  | _ => none

def dNameDesc : Sexp → Option (JStr × JStr)
  | .list [n, d] => do pure (← dStr n, ← dStr d)
  | _ => none

def dEncl : Sexp → Option Enclosing
  | .list [c, m] => do pure ⟨← dStr c, ← dOpt dNameDesc m⟩
  | _ => none

def dRc : Sexp → Option RecordComponent
  | .list [n, d, sig, rva, ria, rvta, rita, attrs] => do
    pure ⟨← dStr n, ← dStr d, ← dOpt dStr sig, ← dList dAnn rva, ← dList dAnn ria, ← dList dTann rvta,
      ← dList dTann rita, ← dOpaques attrs⟩
  | _ => none

def dProvides : Sexp → Option ModuleProvides
  | .list [n, ws] => do pure ⟨← dStr n, ← dList dStr ws⟩
  | _ => none

def dModule : Sexp → Option Module
  | .list [s, uses, provides] => do pure ⟨s, ← dList dStr uses, ← dList dProvides provides⟩
  | _ => none

def dClass : Sexp → Option ClassFile
  | .list [s, n, sup, itfs, fields, methods, ics, em, sig, rva, ria, rvta, rita, mod, mp, mmc, nh, nm, ps, rcs, attrs] => do
    pure {
      shape := s, name := ← dStr n, superClass := ← dOpt dStr sup, interfaces := ← dList dStr itfs,
      fields := ← dList dField fields, methods := ← dList dMethod methods, innerClasses := ← dOpt (dList dInner) ics,
      enclosingMethod := ← dOpt dEncl em, signature := ← dOpt dStr sig, rva := ← dList dAnn rva, ria := ← dList dAnn ria,
      rvta := ← dList dTann rvta, rita := ← dList dTann rita, module := ← dOpt dModule mod,
      modulePackages := ← dOpt (dList dStr) mp, moduleMainClass := ← dOpt dStr mmc, nestHost := ← dOpt dStr nh,
      nestMembers := ← dOpt (dList dStr) nm, permittedSubclasses := ← dOpt (dList dStr) ps,
      recordComponents := ← dList dRc rcs, attributes := ← dOpaques attrs }
  | _ => none

def dContent : Sexp → Option Content
  | .atom "dir" => some .dir
  | .list [.atom "other", d] => some (.other d)
  | .list [.atom "class", c] => do pure (.cls (← dClass c))
  | _ => none

def dJarEntry : Sexp → Option (JStr × Entry)
  | .list [n, a, c] => do pure (← dStr n, ⟨a, ← dContent c⟩)
  | _ => none

/-- `IndexMap` semantics for repeated names in the request (replace in place) -/
def dJar (s : Sexp) : Option Jar := do
  let es ← dList dJarEntry s
  pure (es.foldl (fun a ne => AList.insert ne.1 ne.2 a) [])

/-! ## encoding -/

def eStr := ofJStr
def eOpt (f : α → Sexp) (o : Option α) : Sexp := ofOption f o
def eList (f : α → Sexp) (xs : List α) : Sexp := ofList f xs
def eRef (r : MemberRef) : Sexp := list [eStr r.cls, eStr r.name, eStr r.desc]

mutual
  partial def eAnn : Annotation → Sexp
    | .mk t ps => list [eStr t, list (ps.map ePair)]
  partial def ePair : Pair → Sexp
    | .mk n v => list [eStr n, eEv v]
  partial def eEv : ElementValue → Sexp
    | .object o => list [tag "o", o]
    | .enum t c => list [tag "e", eStr t, eStr c]
    | .cls d => list [tag "c", eStr d]
    | .ann a => list [tag "a", eAnn a]
    | .array vs => list [tag "r", list (vs.map eEv)]
end

def eTann (t : TypeAnnotation) : Sexp := list [t.target, eAnn t.annotation]

def eHandle : Handle → Sexp
  | .field k r => list [tag "f", k, eRef r]
  | .method k r => list [tag "m", k, eRef r]

mutual
  partial def eLoadable : Loadable → Sexp
    | .const o => list [tag "k", o]
    | .cls n => list [tag "c", eStr n]
    | .handle h => list [tag "h", eHandle h]
    | .methodType d => list [tag "mt", eStr d]
    | .dynamic (.mk n d h args) => list [tag "d", eStr n, eStr d, eHandle h, list (args.map eLoadable)]
end

def eVType : VType → Sexp
  | .plain o => list [tag "p", o]
  | .object n => list [tag "o", eStr n]

def eFrame : Frame → Sexp
  | .plain o => list [tag "p", o]
  | .same1 v => list [tag "s1", eVType v]
  | .append ls => list [tag "ap", eList eVType ls]
  | .full ls ss => list [tag "fu", eList eVType ls, eList eVType ss]

def eInsn : Insn → Sexp
  | .plain o => list [tag "p", o]
  | .ldc l => list [tag "ldc", eLoadable l]
  | .field op r => list [tag "f", op, eRef r]
  | .method op r => list [tag "m", op, eRef r]
  | .indy n d h args => list [tag "indy", eStr n, eStr d, eHandle h, eList eLoadable args]
  | .cls op n => list [tag "c", op, eStr n]

def eEntry (e : InsnEntry) : Sexp := list [e.label, eOpt eFrame e.frame, eInsn e.insn]
def eExc (e : ExcEntry) : Sexp := list [e.shape, eOpt eStr e.catchType]
def eLv (l : Lv) : Sexp := list [l.shape, eStr l.name, eOpt eStr l.desc, eOpt eStr l.signature]

def eCode (c : Code) : Sexp :=
  list [c.shape, eList eEntry c.insns, eList eExc c.exceptions, eOpt (eList eLv) c.lvs, eList eTann c.rvta,
    eList eTann c.rita, list c.attributes]

def eField (f : RemapTree.Field) : Sexp :=
  list [f.shape, eStr f.name, eStr f.desc, eOpt eStr f.signature, eList eAnn f.rva, eList eAnn f.ria,
    eList eTann f.rvta, eList eTann f.rita, list f.attributes]

def eMethod (m : RemapTree.Method) : Sexp :=
  list [m.shape, eStr m.name, eStr m.desc, eOpt eCode m.code, eOpt (eList eStr) m.exceptions, eOpt eStr m.signature,
    eList eAnn m.rva, eList eAnn m.ria, eList eTann m.rvta, eList eTann m.rita, eOpt eEv m.annotationDefault,
    m.parameters, list m.attributes]

def eInner (i : InnerClass) : Sexp := list [eStr i.inner, eOpt eStr i.outer, eOpt eStr i.innerName, i.flags]
def eEncl (e : Enclosing) : Sexp := list [eStr e.cls, eOpt (fun p => list [eStr p.1, eStr p.2]) e.method]
def eRc (c : RecordComponent) : Sexp :=
  list [eStr c.name, eStr c.desc, eOpt eStr c.signature, eList eAnn c.rva, eList eAnn c.ria, eList eTann c.rvta,
    eList eTann c.rita, list c.attributes]
def eProvides (p : ModuleProvides) : Sexp := list [eStr p.name, eList eStr p.providesWith]
def eModule (m : Module) : Sexp := list [m.shape, eList eStr m.uses, eList eProvides m.provides]

def eClass (c : ClassFile) : Sexp :=
  list [c.shape, eStr c.name, eOpt eStr c.superClass, eList eStr c.interfaces, eList eField c.fields,
    eList eMethod c.methods, eOpt (eList eInner) c.innerClasses, eOpt eEncl c.enclosingMethod, eOpt eStr c.signature,
    eList eAnn c.rva, eList eAnn c.ria, eList eTann c.rvta, eList eTann c.rita, eOpt eModule c.module,
    eOpt (eList eStr) c.modulePackages, eOpt eStr c.moduleMainClass, eOpt eStr c.nestHost,
    eOpt (eList eStr) c.nestMembers, eOpt (eList eStr) c.permittedSubclasses, eList eRc c.recordComponents,
    list c.attributes]

def eContent : Content → Sexp
  | .dir => tag "dir"
  | .other d => list [tag "other", d]
  | .cls c => list [tag "class", eClass c]

def eJar (j : Jar) : Sexp := eList (fun ne => list [eStr ne.1, ne.2.attr, eContent ne.2.content]) j

def eRefTag : Ref → Sexp
  | .cls n => list [tag "cls", eStr n]
  | .clsAny n => list [tag "any", eStr n]
  | .desc d => list [tag "desc", eStr d]
  | .dynDesc d => list [tag "dyn", eStr d]
  | .fieldDecl n d => list [tag "fd", eStr n, eStr d]
  | .methodDecl n d => list [tag "md", eStr n, eStr d]
  | .fieldRef f => list [tag "fr", eRef f]
  | .methodRef m => list [tag "mr", eRef m]
  | .enumConst t c => list [tag "ec", eStr t, eStr c]
  | .recordDecl n d => list [tag "rd", eStr n, eStr d]

/-! ## the remapper given as a table of answers -/

def dAnswer1 : Sexp → Option (JStr × Option JStr)
  | .list [k, v] => do pure (← dStr k, ← dOpt dStr v)
  | _ => none

def dAnswer3 : Sexp → Option ((JStr × JStr × JStr) × Option (JStr × JStr))
  | .list [.list [o, n, d], v] => do pure ((← dStr o, ← dStr n, ← dStr d), ← dOpt dNameDesc v)
  | _ => none

def look {κ ν : Type} [BEq κ] (t : List (κ × Option ν)) (k : κ) : Option ν :=
  match AList.lookup k t with
  | some (some v) => some v
  | _ => none

def dTable : Sexp → Option Remapper
  | .list [cs, ds, fs, ms] => do
    let cs ← dList dAnswer1 cs
    let ds ← dList dAnswer1 ds
    let fs ← dList dAnswer3 fs
    let ms ← dList dAnswer3 ms
    pure { mapClass := look cs, mapDesc := look ds, mapField := fun o n d => look fs (o, n, d),
           mapMethod := fun o n d => look ms (o, n, d) }
  | _ => none

/-! ## oracles -/

def verdict (b : Bool) (why : String) : Ans := if b then .ok (tag "pass") else .ok (list [tag "fail", tag why])
def outOfDomain : Ans := .ok (tag "out-of-domain")

def sameSexp (a b : Sexp) : Bool := a.toStr == b.toStr

/-- `Thm.C07.remap_refs` evaluated on the model: no domain -/
def oracleRefs (r : Remapper) (c : ClassFile) : Ans :=
  verdict ((remapClass r c).map refsClass == omapM (applyRef r c.name) (refsClass c)) "refs"

/-- `Thm.C07.remap_shape`: whenever the remap succeeds -/
def oracleShape (r : Remapper) (c : ClassFile) : Ans :=
  match remapClass r c with
  | none => outOfDomain
  | some c' => verdict (sameSexp (eClass (eraseClass c')) (eClass (eraseClass c))) "shape"

/-- the inner names of the result are what a consistent renaming makes of them -/
def innerNamesOk (c c' : ClassFile) : Bool :=
  let olds := c.innerClasses.getD []
  let news := c'.innerClasses.getD []
  olds.length == news.length &&
    (List.zip olds news).all fun (i, j) => j.innerName == expectedInnerName i.inner j.inner i.innerName

/-- `Thm.C07.remap_inner_name`: whenever the remap succeeds -/
def oracleInnerNames (r : Remapper) (c : ClassFile) : Ans :=
  match remapClass r c with
  | none => outOfDomain
  | some c' => verdict (innerNamesOk c c') "inner-name"

def contentKind : Content → Nat
  | .dir => 0 | .other _ => 1 | .cls _ => 2

/-- `Thm.C07.remap_jar_partial`, `entry_class_stored`, `entry_other_unchanged` -/
def oracleEntries (r : Remapper) (j : Jar) : Ans :=
  match omapM (remapEntry r) j with
  | none => outOfDomain
  | some es =>
    let names := es.map Prod.fst
    if !(names.eraseDups.length == names.length) then outOfDomain else
    match remapJar r j with
    | none => .ok (list [tag "fail", tag "failed"])
    | some j' =>
      verdict (j'.length == j.length &&
        (List.zip j j').all fun (a, b) =>
          (match a.2.content, b.2.content with
           | .cls c, .cls c' => (!wellNamed a || b.1 == c'.name ++ dotClass) && some c'.name == r.mapClass c.name
           | .other d, .other d' => sameSexp d d'
           | .dir, .dir => true
           | _, _ => false) &&
          (stripDotClass a.1 != none || b.1 == a.1)) "entries"

/-- structural half of the domain of `oracle-reopen`, recomputed from the jar (mirror of `reopen_names_ok`): class entries
carry a `.class` name, nothing else does, directories and only they end in `/`, no empty name -/
def reopenNamesOk (j : Jar) : Bool :=
  j.all fun ne =>
    !ne.1.isEmpty && ((contentKind ne.2.content == 2) == (stripDotClass ne.1 != none)) &&
      ((contentKind ne.2.content == 0) == ([47] : JStr).isSuffixOf ne.1)

/-- `oracle-reopen`: the flag `w` of the request only says that every class of the jar is one duke must be able to write
(a statement about the classes the hints name, decided by the generator); the rest of the domain is decided here -/
def oracleReopen (r : Remapper) (j : Jar) (w : Bool) : Ans :=
  if !w || !reopenNamesOk j then outOfDomain else
  match omapM (remapEntry r) j with
  | none => outOfDomain
  | some es =>
    let names := es.map Prod.fst
    if names.eraseDups.length == names.length then .ok (tag "pass") else outOfDomain

/-! ### the same statements under the names the regression lines of the repaired findings use -/

def oracleFullRefs (r : Remapper) (c : ClassFile) : Ans := oracleRefs r c

def oracleFullShape (r : Remapper) (c : ClassFile) : Ans := oracleShape r c

/-! ### what a consistent renaming would also have renamed (replay of the open findings) -/

def isInfix (p s : JStr) : Bool := (List.range (s.length + 1)).any fun i => p.isPrefixOf (s.drop i)

def sigsOf (c : ClassFile) : List JStr :=
  c.signature.toList ++ c.fields.filterMap (·.signature) ++
  c.methods.flatMap fun m => m.signature.toList ++
    (match m.code with | some cd => (cd.lvs.getD []).filterMap (·.signature) | none => [])

/-- direct element names of the declaration annotations: (annotation type, element name) in document order -/
def pairsOf (c : ClassFile) : List (JStr × JStr) :=
  let ofAnn : Annotation → List (JStr × JStr) := fun a => match a with
    | .mk t ps => ps.map fun p => match p with | .mk n _ => (t, n)
  (c.fields.flatMap fun f => (f.rva ++ f.ria).flatMap ofAnn) ++
  (c.methods.flatMap fun m => (m.rva ++ m.ria).flatMap ofAnn) ++ (c.rva ++ c.ria).flatMap ofAnn

/-- rows of the mapping set in the request: (class, new class name?, [(method name, new name)]) -/
def dMapRows : Sexp → Option (List (JStr × Option JStr × List (JStr × JStr)))
  | .list [_, _, .list classes] => classes.mapM fun c =>
    match c with
    | .list [k, .list [_, dst], _, _, .list ms] => do
      let k ← dStr k
      let dst ← dOpt dStr dst
      let ms ← ms.mapM fun m => match m with
        | .list (n :: _ :: _ :: .list [_, .list [t]] :: _) => do pure (← dStr n, ← dStr t)
        | _ => none
      pure (k, dst, ms)
    | _ => none
  | _ => none

/-- what a consistent renaming would also have renamed: class names inside signatures, annotation element names
(methods of the annotation interface), `inner_name` (simple name of the inner class) -/
def oracleFullNames (rows : List (JStr × Option JStr × List (JStr × JStr))) (r : Remapper) (c : ClassFile) : Ans :=
  match remapClass r c with
  | none => outOfDomain
  | some c' =>
    let renamed := rows.filterMap fun (k, v, _) => if v != some k && v != none then some k else none
    let staleSig := (sigsOf c').any fun s => renamed.any fun n =>
      isInfix ([76] ++ n ++ [59]) s || isInfix ([76] ++ n ++ [60]) s
    let elemOk := (List.zip (pairsOf c) (pairsOf c')).all fun ((t, n), (_, n')) =>
      match classOfDesc t with
      | none => true
      | some k =>
        match rows.find? (fun row => row.1 == k) with
        | some (_, _, ms) =>
          (match ms.find? (fun m => m.1 == n) with
           | some (_, nn) => n' == nn
           | none => true)
        | none => true
    let innerOk := innerNamesOk c c'
    if staleSig then .ok (list [tag "fail", tag "signature"])
    else if !elemOk then .ok (list [tag "fail", tag "element-name"])
    else if !innerOk then .ok (list [tag "fail", tag "inner-name"])
    else .ok (tag "pass")

/-! ### the recorded table against the remapper the request describes

The table of a request is recorded from quill's remapper by the harness. `oracle-table-spec` recomputes every recorded
answer from the mappings and super-type rows of the request with C06's model of `remapper_b` (`Model/Remapper.lean`); the
harness answers the same question with its own reference lookup (nearest declaring super type in declaration order,
identity fallback), so a remapper that answers differently from both is a failing input of C07 as well. -/

def dSupers (s : Sexp) : Option _root_.Remapper.Supers :=
  toListOf? (fun e => match e with
    | .list [k, ss] => do
      let k ← toJStr? k; let ss ← toListOf? toJStr? ss
      pure (k, ss)
    | _ => none) s

def oracleTableSpec (m : Mappings) (sup : _root_.Remapper.Supers) (t : Sexp) : Option Ans :=
  match t with
  | .list [cs, ds, fs, ms] => do
    let cs ← dList dAnswer1 cs
    let ds ← dList dAnswer1 ds
    let fs ← dList dAnswer3 fs
    let ms ← dList dAnswer3 ms
    pure (match _root_.Remapper.remapperB m 0 1 with
      | none => outOfDomain
      | some r =>
        let ct := _root_.Remapper.classTable r
        let fuel := _root_.Remapper.defaultFuel sup
        let ask := fun (field : Bool) (row : (JStr × JStr × JStr) × Option (JStr × JStr)) =>
          _root_.Remapper.mapMember (_root_.Remapper.memberSel field) r sup fuel row.1.1 (row.1.2.1, row.1.2.2)
        if (fs.any fun row => ask true row == none) || (ms.any fun row => ask false row == none) then outOfDomain
        else if !(cs.all fun row => row.2 == some (_root_.Remapper.mapClass ct row.1)) then
          .ok (list [tag "fail", tag "table-class"])
        else if !(ds.all fun row => row.2 == _root_.Remapper.mapDescWith ct row.1) then
          .ok (list [tag "fail", tag "table-desc"])
        else if !(fs.all fun row => ask true row == some row.2) then .ok (list [tag "fail", tag "table-field"])
        else if !(ms.all fun row => ask false row == some row.2) then .ok (list [tag "fail", tag "table-method"])
        else .ok (tag "pass"))
  | _ => none

end C07

open C07

def handleC07 (op : String) (args : List Sexp) : Option Ans :=
  match op, args with
  | "remap-class", [c, _, _, t] => do
    let c ← dClass c; let r ← dTable t
    pure (match remapClass r c with | some c' => .ok (eClass c') | none => .err "e")
  | "remap-jar", [j, _, _, t] => do
    let j ← dJar j; let r ← dTable t
    pure (match remapJar r j with | some j' => .ok (eJar j') | none => .err "e")
  | "entry-name", [n, _, _, t] => do
    let n ← dStr n; let r ← dTable t
    pure (match remapEntryName r n with | some n' => .ok (eStr n') | none => .err "e")
  | "refs", [c, _] => do
    let c ← dClass c
    pure (.ok (eList eRefTag (refsClass c)))
  | "oracle-remap-refs", [c, _, _, t] => do
    let c ← dClass c; let r ← dTable t
    pure (oracleRefs r c)
  | "oracle-remap-shape", [c, _, _, t] => do
    let c ← dClass c; let r ← dTable t
    pure (oracleShape r c)
  | "oracle-inner-names", [c, _, _, t] => do
    let c ← dClass c; let r ← dTable t
    pure (oracleInnerNames r c)
  | "oracle-full-refs", [c, _, _, t] => do
    let c ← dClass c; let r ← dTable t
    pure (oracleFullRefs r c)
  | "oracle-full-shape", [c, _, _, t] => do
    let c ← dClass c; let r ← dTable t
    pure (oracleFullShape r c)
  | "oracle-full-names", [c, m, _, t] => do
    let c ← dClass c; let r ← dTable t; let rows ← dMapRows m
    pure (oracleFullNames rows r c)
  | "oracle-entries", [j, _, _, t] => do
    let j ← dJar j; let r ← dTable t
    pure (oracleEntries r j)
  | "oracle-reopen", [j, _, _, t, w] => do
    let j ← dJar j; let r ← dTable t; let w ← toBool? w
    pure (oracleReopen r j w)
  -- corpus and assembled classes are valid class files by construction: a reader that rejects one fails this line
  | "oracle-hint-reads", [_] => some (.ok (tag "pass"))
  | "oracle-table-spec", [_, m, .list [sup, _], t] => do
    let m ← Codec.mappingsFrom m; let sup ← dSupers sup
    oracleTableSpec m sup t
  | _, _ => none

def main : IO Unit := Driver.run handleC07
