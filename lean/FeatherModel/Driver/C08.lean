import FeatherModel.Base.Driver
import FeatherModel.Model.Reorder

open Driver Sexp Codec Reorder

/-! Driver of C08. `expected` recomputes the result of `reorder` by the route of `Thm.C08.reorder_spec`
(row-wise, keys from the new first names, uniqueness checked afterwards) — mirrored by the harness on the real types. -/

namespace C08Drv

def nodupB {α : Type} [BEq α] : List α → Bool
  | [] => true
  | a :: rest => !rest.contains a && nodupB rest

def expField (f : JStr → JStr) (table : List Nat) (e : MemberKey × Field) : Option (MemberKey × Field) := do
  let d ← MapDesc.mapDesc f e.2.desc
  let names := reorderNames table e.2.names
  let n ← firstName names
  pure ((n, d), { desc := d, names := names, doc := e.2.doc })

def expMethod (f : JStr → JStr) (table : List Nat) (e : MemberKey × Method) : Option (MemberKey × Method) := do
  let d ← MapDesc.mapDesc f e.2.desc
  let names := reorderNames table e.2.names
  let n ← firstName names
  let ps := e.2.params.map (fun p => (p.2.index, { p.2 with names := reorderNames table p.2.names }))
  if !nodupB (ps.map Prod.fst) then none else
  pure ((n, d), { desc := d, names := names, doc := e.2.doc, params := ps })

def expClass (f : JStr → JStr) (table : List Nat) (e : JStr × Class) : Option (JStr × Class) := do
  let names := reorderNames table e.2.names
  let n ← firstName names
  let fs ← mapOpt (expField f table) e.2.fields
  let ms ← mapOpt (expMethod f table) e.2.methods
  if !nodupB (fs.map Prod.fst) || !nodupB (ms.map Prod.fst) then none else
  pure (n, { names := names, doc := e.2.doc, fields := fs, methods := ms })

/-- `none`: the operation has to fail -/
def expected (m : Mappings) (req : List JStr) : Option Mappings := do
  if req.length ≠ m.ns.length then none else
  let table ← tableOf m req
  let t0 ← table.head?
  let f := mapClass (rows m t0)
  let cs ← mapOpt (expClass f table) m.classes
  if !nodupB (cs.map Prod.fst) then none else
  pure { ns := table.map (fun i => m.ns.getD i []), doc := m.doc, classes := cs }

def verdict (ok : Bool) (tagFail : String) : Ans :=
  if ok then .ok (tag "pass") else .ok (list [tag "fail", tag tagFail])

end C08Drv

open C08Drv

def handleC08 (op : String) (args : List Sexp) : Option Ans :=
  match op, args with
  | "reorder", [m, req] => do
    let m ← mappingsFrom m; let req ← toListOf? toJStr? req
    pure (match reorder m req with | some r => .ok (mappingsTo r) | none => .err "e")
  | "reorder2", [m, r1, r2] => do
    let m ← mappingsFrom m; let r1 ← toListOf? toJStr? r1; let r2 ← toListOf? toJStr? r2
    pure (match (reorder m r1).bind (fun m' => reorder m' r2) with | some r => .ok (mappingsTo r) | none => .err "e")
  | "oracle-reorder-spec", [m, req] => do
    let m ← mappingsFrom m; let req ← toListOf? toJStr? req
    pure (match reorder m req, expected m req with
      | none, none => .ok (tag "pass")
      | none, some _ => .ok (list [tag "fail", tag "spurious-error"])
      | some _, none => .ok (list [tag "fail", tag "error-missed"])
      | some r, some e => verdict (r == e) "differs")
  | "oracle-reorder-id", [m] => do
    let m ← mappingsFrom m
    pure (if !(decide (WF m) && decide (DescsOk m) && !m.ns.isEmpty) then .ok (tag "out-of-domain") else
      match reorder m m.ns with
      | some r => verdict (r == m) "differs"
      | none => .ok (list [tag "fail", tag "error"]))
  | "oracle-reorder-inverse", [m, req] => do
    let m ← mappingsFrom m; let req ← toListOf? toJStr? req
    pure (
      if !(decide (WF m) && req.length == m.ns.length && m.ns.all (fun n => req.contains n)) then .ok (tag "out-of-domain") else
      match tableOf m req with
      | some (t0 :: _) =>
        if !decide (DescInjective m t0) then .ok (tag "out-of-domain") else
        match reorder m req with
        | none => .ok (tag "out-of-domain")
        | some m' =>
          match reorder m' m.ns with
          | some r => verdict (r == m) "differs"
          | none => .ok (list [tag "fail", tag "error"])
      | _ => .ok (tag "out-of-domain"))
  | _, _ => none

def main : IO Unit := Driver.run handleC08
