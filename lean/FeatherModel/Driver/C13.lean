import FeatherModel.Base.Driver
import FeatherModel.Model.MergeJar

/-!
Driver of C13. Wire format (mirrored by `harness/src/bin/c13.rs`):

side    := c | s
ann     := (env side) | (itfs ((side #itf) …)) | (ann n)
member  := (#name #desc access dep syn payload (ann…))
inner   := (#name flags)
class   := (version access #name (#super)? (#itf…) (member…) (member…) dep syn (inner…) payload (ann…) (ann…))
content := dir | (other xBYTES) | (class p|v class)
entry   := (#name attr content)
jar     := (entry…)
-/

open Driver Sexp MergeJar

namespace C13Codec

def sideTo : Side → Sexp
  | Side.client => tag "c"
  | Side.server => tag "s"

def sideFrom : Sexp → Option Side
  | atom "c" => some Side.client
  | atom "s" => some Side.server
  | _ => none

def annTo : Ann → Sexp
  | Ann.env s => list [tag "env", sideTo s]
  | Ann.envItfs ms => list [tag "itfs", list (ms.map fun (s, i) => list [sideTo s, ofJStr i])]
  | Ann.other n => list [tag "ann", ofNat n]

def annFrom : Sexp → Option Ann
  | list [atom "env", s] => do pure (Ann.env (← sideFrom s))
  | list [atom "itfs", list ms] => do
    let ms ← ms.mapM fun m => match m with
      | list [s, i] => do pure ((← sideFrom s), (← toJStr? i))
      | _ => none
    pure (Ann.envItfs ms)
  | list [atom "ann", n] => do pure (Ann.other (← toNat? n))
  | _ => none

def memberTo (m : Member) : Sexp :=
  list [ofJStr m.name, ofJStr m.desc, ofNat m.access, ofBool m.deprecated, ofBool m.synthetic, ofNat m.payload,
        list (m.anns.map annTo)]

def memberFrom : Sexp → Option Member
  | list [n, d, a, dep, syn, p, anns] => do
    pure { name := ← toJStr? n, desc := ← toJStr? d, access := ← toNat? a, deprecated := ← toBool? dep,
           synthetic := ← toBool? syn, payload := ← toNat? p, anns := ← toListOf? annFrom anns }
  | _ => none

def innerTo (i : Inner) : Sexp := list [ofJStr i.name, ofNat i.flags]
def innerFrom : Sexp → Option Inner
  | list [n, f] => do pure { name := ← toJStr? n, flags := ← toNat? f }
  | _ => none

def classTo (c : Class) : Sexp :=
  list [ofNat c.version, ofNat c.access, ofJStr c.name, ofOption ofJStr c.super, list (c.interfaces.map ofJStr),
        list (c.fields.map memberTo), list (c.methods.map memberTo), ofBool c.deprecated, ofBool c.synthetic,
        list (c.inners.map innerTo), ofNat c.payload, list (c.visAnns.map annTo), list (c.invisAnns.map annTo)]

def classFrom : Sexp → Option Class
  | list [v, a, n, sup, itfs, fs, ms, dep, syn, inn, p, va, ia] => do
    pure { version := ← toNat? v, access := ← toNat? a, name := ← toJStr? n, super := ← toOption? toJStr? sup,
           interfaces := ← toListOf? toJStr? itfs, fields := ← toListOf? memberFrom fs,
           methods := ← toListOf? memberFrom ms, deprecated := ← toBool? dep, synthetic := ← toBool? syn,
           inners := ← toListOf? innerFrom inn, payload := ← toNat? p, visAnns := ← toListOf? annFrom va,
           invisAnns := ← toListOf? annFrom ia }
  | _ => none

def contentTo : Content → Sexp
  | Content.dir => tag "dir"
  | Content.other d => list [tag "other", ofBytes d]
  | Content.cls r c => list [tag "class", tag (match r with | ClsRepr.parsed => "p" | ClsRepr.vec => "v"), classTo c]

def contentFrom : Sexp → Option Content
  | atom "dir" => some Content.dir
  | list [atom "other", d] => do pure (Content.other (← toBytes? d))
  | list [atom "class", atom "p", c] => do pure (Content.cls ClsRepr.parsed (← classFrom c))
  | list [atom "class", atom "v", c] => do pure (Content.cls ClsRepr.vec (← classFrom c))
  | _ => none

def entryTo (e : JStr × Entry) : Sexp := list [ofJStr e.1, ofNat e.2.attr, contentTo e.2.content]
def entryFrom : Sexp → Option (JStr × Entry)
  | list [n, a, c] => do pure ((← toJStr? n), { attr := ← toNat? a, content := ← contentFrom c })
  | _ => none

def jarTo (j : Jar) : Sexp := list (j.map entryTo)
def jarFrom (s : Sexp) : Option Jar := do pure (jarOfList (← toListOf? entryFrom s))

def outcome {α : Type} (f : α → Sexp) : Outcome α → Ans
  | Outcome.ok a => Ans.ok (f a)
  | Outcome.err => Ans.err "e"
  | Outcome.panic s => Ans.panic s

end C13Codec

open C13Codec

def pass : Ans := .ok (tag "pass")
def ood : Ans := .ok (tag "out-of-domain")
def fail (t : String) : Ans := .ok (list [tag "fail", tag t])

def subsetB (xs ys : List Nat) : Bool := xs.all (fun x => ys.contains x)

/-- `oracle-marks`: the statement of `Thm.C13.slice_marks` / `itf_marks` evaluated on a merged class -/
def marksOfMembers (c s r : List Member) : Bool :=
  r.all fun m =>
    match c.find? (fun x => memberKey x == memberKey m), s.find? (fun x => memberKey x == memberKey m) with
    | some mc, some _ => m.anns == mc.anns
    | some mc, none => m.anns == mc.anns ++ [Ann.env Side.client]
    | none, some ms => m.anns == ms.anns ++ [Ann.env Side.server]
    | none, none => false

def marksOfItfs (c s r : Class) : Bool :=
  let only1 := r.interfaces.filter (fun i => c.interfaces.contains i != s.interfaces.contains i)
  if only1.isEmpty then r.invisAnns == c.invisAnns else
  match r.invisAnns.getLast? with
  | some (Ann.envItfs marks) =>
    r.invisAnns.dropLast == c.invisAnns && nodupB marks &&
    marks.all (fun (sd, i) => match sd with
      | Side.client => c.interfaces.contains i && !s.interfaces.contains i
      | Side.server => s.interfaces.contains i && !c.interfaces.contains i) &&
    only1.all (fun i => marks.any (fun (_, j) => i == j))
  | _ => false

def marksDomain (c s : Class) : Bool :=
  mergeOk c s && c != s && noEnv c.fields && noEnv s.fields && noEnv c.methods && noEnv s.methods &&
  nodupB c.interfaces && nodupB s.interfaces

def keepName (clientNames : List JStr) (n : JStr) : Bool :=
  !isSig n && !(isBundled n && !clientNames.contains n)

/-- the jar-level domain: names kinds agree, differing classes are mergeable -/
def jarDomain (client server : Jar) : Bool :=
  client.all fun (n, c) =>
    n == MANIFEST || isSig n ||
    match get n server with
    | none => true
    | some s =>
      match c.content, s.content with
      | Content.dir, Content.dir => true
      | Content.other _, Content.other _ => true
      | Content.cls _ cc, Content.cls _ cs => cc == cs || mergeOk cc cs
      | _, _ => false

def handleC13 (op : String) (args : List Sexp) : Option Ans :=
  match op, args with
  | "mpo", [_, a, b] => do
    let a ← toListOf? toNat? a; let b ← toListOf? toNat? b
    pure (.ok (list ((mergePreserveOrder a b).map ofNat)))
  | "merge-class", [c, s] => do
    let c ← classFrom c; let s ← classFrom s
    pure (outcome contentTo (mergeClassEntry ClsRepr.parsed c s))
  | "merge-jars", [c, s] => do
    let c ← jarFrom c; let s ← jarFrom s
    pure (outcome jarTo (mergeJar c s))
  | "oracle-mpo-once", [_, a, b] => do
    let a ← toListOf? toNat? a; let b ← toListOf? toNat? b
    if !(nodupB a && nodupB b) then pure ood else
    let r := mergePreserveOrder a b
    pure (if !nodupB r then fail "dup" else if !(subsetB r (a ++ b)) then fail "extra"
          else if !(subsetB (a ++ b) r) then fail "missing" else pass)
  | "oracle-mpo-client-order", [_, a, b] => do
    let a ← toListOf? toNat? a; let b ← toListOf? toNat? b
    pure (if a.isSublist (mergePreserveOrder a b) then pass else fail "client-order")
  | "oracle-mpo-server-order", [_, a, b] => do
    let a ← toListOf? toNat? a; let b ← toListOf? toNat? b
    if !(nodupB a && nodupB b && compatibleB a b) then pure ood else
    pure (if b.isSublist (mergePreserveOrder a b) then pass else fail "server-order")
  | "oracle-marks", [c, s] => do
    let c ← classFrom c; let s ← classFrom s
    if !marksDomain c s then pure ood else
    pure (match mergeClass c s with
      | Outcome.ok r =>
        if !marksOfMembers c.fields s.fields r.fields then fail "field-marks"
        else if !marksOfMembers c.methods s.methods r.methods then fail "method-marks"
        else if !marksOfItfs c s r then fail "itf-marks" else pass
      | _ => fail "not-ok")
  | "oracle-entries", [c, s] => do
    let c ← jarFrom c; let s ← jarFrom s
    if !jarDomain c s then pure ood else
    pure (match mergeJar c s with
      | Outcome.ok r =>
        let cn := c.map (·.1)
        let sn := s.map (·.1)
        let expect := (cn ++ sn.filter (fun n => !cn.contains n)).filter (keepName cn)
        if r.map (·.1) != expect then fail "names" else
        -- identical classes are passed through in the client's representation
        if c.all (fun (n, ce) => match ce.content, get n s with
            | Content.cls rc cc, some se =>
              n == MANIFEST || isSig n ||
              (match se.content with
               | Content.cls _ cs => cc != cs || (get n r).map (·.content) == some (Content.cls rc cc)
               | _ => true)
            | _, _ => true)
        then pass else fail "passthrough"
      | _ => fail "not-ok")
  | _, _ => none

def main : IO Unit := Driver.run handleC13
