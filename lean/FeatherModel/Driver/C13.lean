import FeatherModel.Base.Driver
import FeatherModel.Model.MergeJarDom

/-!
Driver of C13. Wire format (mirrored by `harness/src/bin/c13.rs`):

side    := c | s
ann     := (env side) | (itfs ((side #itf) …)) | (ann n)
member  := (#name #desc access dep syn payload (ann…))
inner   := (#name flags)
class   := (version access #name (#super)? (#itf…) (member…) (member…) dep syn (inner…) payload (ann…) (ann…))
content := dir | (other xBYTES) | (class p|v class)
entry   := (#name attr content)
jar     := (entry…)

Answers of `merge-class` / `merge-jars`: `ok <content|jar>`, `err e`, `ok (panic <site>)`. Since 9bfd462 merge.rs has no
reachable panic (`Thm.C13.merge_jar_no_panic`): the model never answers `ok (panic …)`; the harness still runs the real
code under `catch_unwind` and would answer `ok (panic merge.rs|other)` (a disagreement, and a failure of the
`oracle-no-panic` / `oracle-jar-no-panic` oracles, which have no domain restriction).
-/

open Driver Sexp MergeJar

namespace C13Codec

def sideTo : Side → Sexp
  | Side.client => tag "c"
  | Side.server => tag "s"

def sideFrom : Sexp → Option Side
  | atom "c" => some Side.client
  | atom "s" => some Side.server
  | _ => none

def annTo : Ann → Sexp
  | Ann.env s => list [tag "env", sideTo s]
  | Ann.envItfs ms => list [tag "itfs", list (ms.map fun (s, i) => list [sideTo s, ofJStr i])]
  | Ann.other n => list [tag "ann", ofNat n]

def annFrom : Sexp → Option Ann
  | list [atom "env", s] => do pure (Ann.env (← sideFrom s))
  | list [atom "itfs", list ms] => do
    let ms ← ms.mapM fun m => match m with
      | list [s, i] => do pure ((← sideFrom s), (← toJStr? i))
      | _ => none
    pure (Ann.envItfs ms)
  | list [atom "ann", n] => do pure (Ann.other (← toNat? n))
  | _ => none

def memberTo (m : Member) : Sexp :=
  list [ofJStr m.name, ofJStr m.desc, ofNat m.access, ofBool m.deprecated, ofBool m.synthetic, ofNat m.payload,
        list (m.anns.map annTo)]

def memberFrom : Sexp → Option Member
  | list [n, d, a, dep, syn, p, anns] => do
    pure { name := ← toJStr? n, desc := ← toJStr? d, access := ← toNat? a, deprecated := ← toBool? dep,
           synthetic := ← toBool? syn, payload := ← toNat? p, anns := ← toListOf? annFrom anns }
  | _ => none

def innerTo (i : Inner) : Sexp := list [ofJStr i.name, ofNat i.flags]
def innerFrom : Sexp → Option Inner
  | list [n, f] => do pure { name := ← toJStr? n, flags := ← toNat? f }
  | _ => none

def classTo (c : Class) : Sexp :=
  list [ofNat c.version, ofNat c.access, ofJStr c.name, ofOption ofJStr c.super, list (c.interfaces.map ofJStr),
        list (c.fields.map memberTo), list (c.methods.map memberTo), ofBool c.deprecated, ofBool c.synthetic,
        list (c.inners.map innerTo), ofNat c.payload, list (c.visAnns.map annTo), list (c.invisAnns.map annTo)]

def classFrom : Sexp → Option Class
  | list [v, a, n, sup, itfs, fs, ms, dep, syn, inn, p, va, ia] => do
    pure { version := ← toNat? v, access := ← toNat? a, name := ← toJStr? n, super := ← toOption? toJStr? sup,
           interfaces := ← toListOf? toJStr? itfs, fields := ← toListOf? memberFrom fs,
           methods := ← toListOf? memberFrom ms, deprecated := ← toBool? dep, synthetic := ← toBool? syn,
           inners := ← toListOf? innerFrom inn, payload := ← toNat? p, visAnns := ← toListOf? annFrom va,
           invisAnns := ← toListOf? annFrom ia }
  | _ => none

def contentTo : Content → Sexp
  | Content.dir => tag "dir"
  | Content.other d => list [tag "other", ofBytes d]
  | Content.cls r c => list [tag "class", tag (match r with | ClsRepr.parsed => "p" | ClsRepr.vec => "v"), classTo c]

def contentFrom : Sexp → Option Content
  | atom "dir" => some Content.dir
  | list [atom "other", d] => do pure (Content.other (← toBytes? d))
  | list [atom "class", atom "p", c] => do pure (Content.cls ClsRepr.parsed (← classFrom c))
  | list [atom "class", atom "v", c] => do pure (Content.cls ClsRepr.vec (← classFrom c))
  | _ => none

def entryTo (e : JStr × Entry) : Sexp := list [ofJStr e.1, ofNat e.2.attr, contentTo e.2.content]
def entryFrom : Sexp → Option (JStr × Entry)
  | list [n, a, c] => do pure ((← toJStr? n), { attr := ← toNat? a, content := ← contentFrom c })
  | _ => none

def jarTo (j : Jar) : Sexp := list (j.map entryTo)
def jarFrom (s : Sexp) : Option Jar := do pure (jarOfList (← toListOf? entryFrom s))

def outcome {α : Type} (f : α → Sexp) : Outcome α → Ans
  | Outcome.ok a => Ans.ok (f a)
  | Outcome.err => Ans.err "e"
  | Outcome.panic s => Ans.ok (list [tag "panic", tag s])

end C13Codec

open C13Codec

def pass : Ans := .ok (tag "pass")
def ood : Ans := .ok (tag "out-of-domain")
def fail (t : String) : Ans := .ok (list [tag "fail", tag t])

def subsetB (xs ys : List Nat) : Bool := xs.all (fun x => ys.contains x)

/-! ### class-level statements, evaluated on a merged class `r` (none = holds, some tag = violated) -/

/-- `ExactUnion`, client order, server order under compatibility for one pair of lists -/
def listCheck {α : Type} [BEq α] (tg : String) (a b r : List α) : Option String :=
  if !(nodupB r && r.all (fun x => a.contains x || b.contains x) && (a ++ b).all (fun x => r.contains x)) then some (tg ++ "-union")
  else if !a.isSublist r then some (tg ++ "-client-order")
  else if compatibleB a b && !b.isSublist r then some (tg ++ "-server-order")
  else none

def firstSome : List (Option String) → Option String
  | [] => none
  | some t :: _ => some t
  | none :: rest => firstSome rest

/-- `class_exactly_once`, `class_client_order`, `class_server_order`, `class_inners`, header part of `class_parts` -/
def unionCheck (c s r : Class) : Option String :=
  firstSome [
    listCheck "fields" (c.fields.map memberKey) (s.fields.map memberKey) (r.fields.map memberKey),
    listCheck "methods" (c.methods.map memberKey) (s.methods.map memberKey) (r.methods.map memberKey),
    listCheck "itfs" c.interfaces s.interfaces r.interfaces,
    listCheck "inners" (c.inners.map (·.name)) (s.inners.map (·.name)) (r.inners.map (·.name)),
    (if r.inners.all (fun i => c.inners.contains i || s.inners.contains i) then none else some "inner-entry"),
    (if r.version == c.version && r.access == c.access && r.name == c.name && r.super == c.super &&
        r.deprecated == c.deprecated && r.synthetic == c.synthetic && r.payload == c.payload && r.visAnns == c.visAnns
     then none else some "header")]

/-- `slice_marks` (with duplicate-free keys: the member found under the key) -/
def marksOfMembers (c s r : List Member) : Bool :=
  r.all fun m =>
    match c.find? (fun x => memberKey x == memberKey m), s.find? (fun x => memberKey x == memberKey m) with
    | some mc, some _ => m == mc
    | some mc, none => m == { mc with anns := mc.anns ++ [Ann.env Side.client] }
    | none, some ms => m == { ms with anns := ms.anns ++ [Ann.env Side.server] }
    | none, none => false

/-- `slice_mark_count` -/
def markCounts (c s r : List Member) : Bool :=
  r.all fun m =>
    envMarks m == (if (c.map memberKey).contains (memberKey m) then
                     (if (s.map memberKey).contains (memberKey m) then [] else [Side.client])
                   else [Side.server])

/-- `itf_marks` -/
def marksOfItfs (c s r : Class) : Bool :=
  let only1 := r.interfaces.filter (fun i => c.interfaces.contains i != s.interfaces.contains i)
  if only1.isEmpty then r.invisAnns == c.invisAnns else
  match r.invisAnns.getLast? with
  | some (Ann.envItfs marks) =>
    r.invisAnns.dropLast == c.invisAnns && nodupB marks &&
    marks.all (fun (sd, i) => r.interfaces.contains i && match sd with
      | Side.client => c.interfaces.contains i && !s.interfaces.contains i
      | Side.server => s.interfaces.contains i && !c.interfaces.contains i) &&
    only1.all (fun i => marks.any (fun (_, j) => i == j))
  | _ => false

def marksCheck (c s r : Class) : Option String :=
  if !marksOfMembers c.fields s.fields r.fields then some "field-marks"
  else if !marksOfMembers c.methods s.methods r.methods then some "method-marks"
  else if !(markCounts c.fields s.fields r.fields && markCounts c.methods s.methods r.methods) then some "mark-count"
  else if !marksOfItfs c s r then some "itf-marks" else none

/-! ### the entry table as a specification (`entry_*`, `one_sided_marks`) -/

def oneSidedSpec (e : Entry) (sd : Side) : Entry :=
  match e.content with
  | Content.cls _ c => { attr := e.attr, content := Content.cls ClsRepr.parsed { c with visAnns := c.visAnns ++ [Ann.env sd] } }
  | _ => e

def entryCheck (client server : Jar) (n : JStr) (e : Entry) : Option String :=
  let oc := get n client
  let os := get n server
  if n == MANIFEST then
    let attr := match oc, os with
      | some c, _ => c.attr
      | none, some s => s.attr
      | none, none => 0
    if e == { attr := attr, content := Content.other MANIFEST_BYTES } then none else some "manifest"
  else match oc, os with
    | some c, none => if e == oneSidedSpec c Side.client then none else some "client-only"
    | none, some s => if e == oneSidedSpec s Side.server then none else some "server-only"
    | none, none => some "extra"
    | some c, some s =>
      match c.content, s.content with
      | Content.dir, Content.dir => if e == { attr := c.attr, content := Content.dir } then none else some "dir"
      | Content.other dc, Content.other _ => if e == { attr := c.attr, content := Content.other dc } then none else some "resource"
      | Content.cls _ cc, Content.cls _ cs =>
        if cc == cs then (if e == c then none else some "passthrough") else
        (match e.content with
         | Content.cls ClsRepr.parsed m =>
           if e.attr != c.attr then some "merged-attr" else
           match (if unionDomain cc cs then unionCheck cc cs m else none) with
           | some t => some t
           | none => if marksDomain cc cs then marksCheck cc cs m else none
         | _ => some "merged-repr")
      | _, _ => some "kind"

def handleC13 (op : String) (args : List Sexp) : Option Ans :=
  match op, args with
  | "mpo", [_, a, b] => do
    let a ← toListOf? toNat? a; let b ← toListOf? toNat? b
    pure (.ok (list ((mergePreserveOrder a b).map ofNat)))
  | "merge-class", [c, s] => do
    let c ← classFrom c; let s ← classFrom s
    pure (outcome contentTo (mergeClassEntry ClsRepr.parsed c s))
  | "merge-jars", [c, s] => do
    let c ← jarFrom c; let s ← jarFrom s
    pure (outcome jarTo (mergeJar c s))
  | "oracle-mpo-once", [_, a, b] => do
    let a ← toListOf? toNat? a; let b ← toListOf? toNat? b
    if !(nodupB a && nodupB b) then pure ood else
    let r := mergePreserveOrder a b
    pure (if !nodupB r then fail "dup" else if !(subsetB r (a ++ b)) then fail "extra"
          else if !(subsetB (a ++ b) r) then fail "missing" else pass)
  | "oracle-mpo-client-order", [_, a, b] => do
    let a ← toListOf? toNat? a; let b ← toListOf? toNat? b
    pure (if a.isSublist (mergePreserveOrder a b) then pass else fail "client-order")
  | "oracle-mpo-server-order", [_, a, b] => do
    let a ← toListOf? toNat? a; let b ← toListOf? toNat? b
    if !(nodupB a && nodupB b && compatibleB a b) then pure ood else
    pure (if b.isSublist (mergePreserveOrder a b) then pass else fail "server-order")
  | "oracle-marks", [c, s] => do
    let c ← classFrom c; let s ← classFrom s
    if !marksDomain c s then pure ood else
    pure (match mergeClass c s with
      | Outcome.ok r => (match marksCheck c s r with | some t => fail t | none => pass)
      | Outcome.panic _ => fail "panic"
      | Outcome.err => fail "not-ok")
  | "oracle-class-union", [c, s] => do
    let c ← classFrom c; let s ← classFrom s
    if !unionDomain c s then pure ood else
    pure (match mergeClass c s with
      | Outcome.ok r => (match unionCheck c s r with | some t => fail t | none => pass)
      | Outcome.panic _ => fail "panic"
      | Outcome.err => fail "not-ok")
  | "oracle-class-ok-iff", [c, s] => do
    let c ← classFrom c; let s ← classFrom s
    if !keysOk c s then pure ood else
    let isOk := match mergeClassEntry ClsRepr.parsed c s with | Outcome.ok _ => true | _ => false
    pure (if isOk == mergeOk c s then pass else fail (if isOk then "ok-outside-mergeOk" else "not-ok-inside-mergeOk"))
  | "oracle-no-panic", [c, s] => do
    let c ← classFrom c; let s ← classFrom s
    pure (match mergeClassEntry ClsRepr.parsed c s with | Outcome.panic _ => fail "panic" | _ => pass)
  | "oracle-jar-no-panic", [c, s] => do
    let c ← jarFrom c; let s ← jarFrom s
    pure (match mergeJar c s with | Outcome.panic _ => fail "panic" | _ => pass)
  | "oracle-entries", [c, s] => do
    let c ← jarFrom c; let s ← jarFrom s
    if !jarDomain c s then pure ood else
    pure (match mergeJar c s with
      | Outcome.ok r =>
        let cn := names c
        let sn := names s
        let expect := (cn ++ sn.filter (fun n => !cn.contains n)).filter (kept c)
        if names r != expect then fail "names" else
        (match firstSome (r.map (fun (n, e) => entryCheck c s n e)) with
         | some t => fail t
         | none => pass)
      | Outcome.panic _ => fail "panic"
      | Outcome.err => fail "not-ok")
  | _, _ => none

def main : IO Unit := Driver.run handleC13
