import FeatherModel.Base.Driver
import FeatherModel.Model.DummySpec

open Driver Sexp Codec Dummy DummySpec

def passIf (b : Bool) (tagOnFail : String) : Ans :=
  if b then .ok (tag "pass") else .ok (list [tag "fail", tag tagOnFail])

/-- `oracle-remove-spec`: which part of the specification the result violates (first failing check);
mirrored check by check in `harness/src/bin/c10.rs` -/
def removeSpecVerdict (m r : Mappings) (ns : Nat) : Ans :=
  let exp := removeSpecAt m ns
  if r.ns != m.ns || r.doc != m.doc then .ok (list [tag "fail", tag "frame"])
  else if r.classes.map Prod.fst != exp.classes.map Prod.fst then .ok (list [tag "fail", tag "class-survivors"])
  else if r.classes.map (fun e => (e.2.names, e.2.doc)) != exp.classes.map (fun e => (e.2.names, e.2.doc)) then
    .ok (list [tag "fail", tag "class-changed"])
  else if r.classes.map (fun e => e.2.fields) != exp.classes.map (fun e => e.2.fields) then .ok (list [tag "fail", tag "fields"])
  else if r.classes.map (fun e => e.2.methods.map Prod.fst) != exp.classes.map (fun e => e.2.methods.map Prod.fst) then
    .ok (list [tag "fail", tag "method-survivors"])
  else if r != exp then .ok (list [tag "fail", tag "methods"])
  else .ok (tag "pass")

def handleC10 (op : String) (args : List Sexp) : Option Ans :=
  match op, args with
  | "remove-dummy", [m, ns] => do
    let m ← mappingsFrom m; let ns ← toJStr? ns
    pure (match removeDummy m ns with | some r => .ok (mappingsTo r) | none => .err "e")
  | "oracle-remove-idem", [m, ns] => do
    let m ← mappingsFrom m; let ns ← toJStr? ns
    pure (match removeDummy m ns with
      | none => .ok (tag "out-of-domain")
      | some r =>
        match removeDummy r ns with
        | some r2 => passIf (r2 == r) "differs"
        | none => .ok (list [tag "fail", tag "second-err"]))
  | "oracle-remove-spec", [m, ns] => do
    let m ← mappingsFrom m; let nsn ← toJStr? ns
    pure (match m.getNamespace nsn, removeDummy m nsn with
      | some ns, some r => removeSpecVerdict m r ns
      | none, none => .ok (tag "out-of-domain")
      | _, _ => .ok (list [tag "fail", tag "namespace"]))
  | "insert-dummy", [d] => do
    let d ← DummyDiff.Codec.diffFrom d
    pure (.ok (DummyDiff.Codec.diffTo (insertDummy d)))
  | "oracle-insert-idem", [d] => do
    let d ← DummyDiff.Codec.diffFrom d
    let r := insertDummy d
    pure (passIf (insertDummy r == r) "differs")
  | "oracle-insert-spec", [d] => do
    let d ← DummyDiff.Codec.diffFrom d
    let r := insertDummy d
    let exp := insertSpec d
    pure (
      if r.info != d.info || r.doc != d.doc then .ok (list [tag "fail", tag "frame"])
      else if r.classes.map Prod.fst != exp.classes.map Prod.fst then .ok (list [tag "fail", tag "class-kept"])
      else if r.classes.map (fun e => e.2.info) != exp.classes.map (fun e => e.2.info) then .ok (list [tag "fail", tag "class-info"])
      else passIf (r == exp) "members")
  | "placeholder", [kind, k] => do
    let kind ← toTag? kind
    match kind with
    | "param" => do let k ← toNat? k; pure (.ok (ofJStr (paramPlaceholder k)))
    | "class" => do let k ← toJStr? k; pure (.ok (ofJStr (classPlaceholder k)))
    | _ => none
  | _, _ => none

def main : IO Unit := Driver.run handleC10
