import FeatherModel.Base.Driver
import FeatherModel.Model.BridgeMap

open Driver Sexp Codec Bridge

/-! ## codec: jar descriptions, method references, remapper tables -/

def mrefTo (r : MRef) : Sexp := list [ofJStr r.cls, ofJStr r.name, ofJStr r.desc]
def mrefFrom : Sexp → Option MRef
  | list [c, n, d] => do pure ⟨← toJStr? c, ← toJStr? n, ← toJStr? d⟩
  | _ => none

def insnFrom : Sexp → Option Insn
  | atom "n" => some .other
  | atom "d" => some .other
  | list [atom k, c, n, d] =>
    if k == "v" || k == "s" || k == "t" || k == "i" then do pure (.invoke (← toJStr? c) (← toJStr? n) (← toJStr? d))
    else none
  | _ => none

def methodDescFrom : Sexp → Option MethodDesc
  | list [n, d, f, code] => do
    pure { name := ← toJStr? n, desc := ← toJStr? d, flags := ← toNat? f, code := ← toOption? (toListOf? insnFrom) code }
  | _ => none

def classDescFrom : Sexp → Option ClassDesc
  | list [n, s, is, ms] => do
    pure { name := ← toJStr? n, super := ← toOption? toJStr? s, ifaces := ← toListOf? toJStr? is,
           methods := ← toListOf? methodDescFrom ms }
  | _ => none

def jarFrom (s : Sexp) : Option JarDesc := toListOf? classDescFrom s

def pairsTo (ps : List (MRef × MRef)) : Sexp := ofList (fun p => list [mrefTo p.1, mrefTo p.2]) ps

/-! ## run-time guards: both sides skip hierarchies on which the Rust code does not terminate -/

/-- Kahn-style check on `class ↦ super ∪ interfaces` over all given jars: repeatedly drop the entries none of whose
targets is a remaining entry; acyclic iff nothing remains -/
def acyclicGo : Nat → List (JStr × List JStr) → Bool
  | 0, es => es.isEmpty
  | n + 1, es =>
    let keys := es.map Prod.fst
    let es' := es.filter fun e => e.2.any fun p => keys.contains p
    if es'.length == es.length then es.isEmpty else acyclicGo n es'

def jarEdges (jar : JarDesc) : List (JStr × List JStr) :=
  jar.map fun c => (c.name, c.super.toList ++ c.ifaces)

def acyclic (jars : List JarDesc) : Bool :=
  let es := jars.flatMap jarEdges
  acyclicGo es.length es

def FUEL : Nat := 200000

/-! ## spec-side (declarative) evaluation of the bridge predicate, for `oracle-bridge-iff` -/

def typeCompatB (idx : Index) (anc : JStr → List JStr) (tb ts : Ty) : Bool :=
  tb == ts || match tb, ts with
    | .obj b, .obj s => b == JLO || !idx.classes.contains b ||
        (anc s).any fun a => a == b || !idx.classes.contains a
    | _, _ => false

def potentialB (idx : Index) (anc : JStr → List JStr) (b : MRef) (acc : Access) (s : MRef) : Bool :=
  !acc.priv && !acc.static && !acc.final &&
  match parseMethodDesc b.desc, parseMethodDesc s.desc with
  | some (pb, rb), some (ps, rs) =>
    pb.length == ps.length && (List.zip pb ps).all (fun p => typeCompatB idx anc p.1 p.2) &&
      (match rb, rs with
       | some x, some y => typeCompatB idx anc x y
       | none, none => true
       | _, _ => false)
  | _, _ => false

def isBridgePairB (idx : Index) (anc : JStr → List JStr) (b s : MRef) : Bool :=
  match AList.lookup b idx.methods with
  | some acc => acc.synthetic && AList.lookup b idx.refs == some [s] && (acc.bridge || potentialB idx anc b acc s)
  | none => false

/-- every method of the index against every method reference occurring anywhere in it -/
def oracleBridgeIff (idx : Index) (b2s : AList MRef MRef) : Ans :=
  let anc := fun c => (ancestors idx FUEL c).getD []
  let univ := (idx.methods.map Prod.fst) ++ idx.refs.flatMap Prod.snd
  let bad := idx.methods.any fun (b, _) => univ.any fun s =>
    (List.contains b2s (b, s)) != isBridgePairB idx anc b s
  let badKeys := b2s.any fun (b, s) => !(idx.methods.any fun (m, _) => m == b) || AList.lookup b b2s != some s
  if bad then .ok (list [tag "fail", tag "iff"]) else if badKeys then .ok (list [tag "fail", tag "keys"]) else .ok (tag "pass")

/-! ## spec-side evaluation of the frame/effect statement, for `oracle-only-delegate` -/

def lastTouch (ps : List (MRef × MRef)) (c : JStr) (k : MemberKey) : Option (MRef × MRef) :=
  (ps.filter fun p => p.1.cls == c && (p.2.name, p.2.desc) == k).getLast?

def checkClass (namedOf : MRef → Option JStr) (ps : List (MRef × MRef)) (c : JStr) (old new : Class) : Option String :=
  if old.names != new.names || old.doc != new.doc || old.fields != new.fields then some "class-info" else
  if !(old.methods.map Prod.fst).isPrefixOf (new.methods.map Prod.fst) then some "method-order" else
  let bad := new.methods.any fun (k, nm) =>
    match lastTouch ps c k with
    | none => AList.lookup k old.methods != some nm
    | some (b, s) =>
      match namedOf b with
      | none => true
      | some named =>
        let o := AList.lookup k old.methods
        !(nm.desc == s.desc && nm.names == [mkName s.name, mkName named] &&
          nm.doc == (o.map (·.doc)).join && nm.params == (o.map (·.params)).getD [])
  if bad then some "method-entry" else
  -- every touched key of a present class is present afterwards
  let missing := ps.any fun p => p.1.cls == c && !(new.methods.any fun (k, _) => k == (p.2.name, p.2.desc))
  if missing then some "missing" else none

def oracleOnlyDelegate (namedOf : MRef → Option JStr) (ps : List (MRef × MRef)) (m m' : Mappings) : Ans :=
  if m.ns != m'.ns || m.doc != m'.doc then .ok (list [tag "fail", tag "header"]) else
  if m.classes.map Prod.fst != m'.classes.map Prod.fst then .ok (list [tag "fail", tag "class-keys"]) else
  let r := (List.zip m.classes m'.classes).findSome? fun (o, n) => checkClass namedOf ps o.1 o.2 n.2
  match r with
  | some t => .ok (list [tag "fail", tag t])
  | none => .ok (tag "pass")

/-! ## spec-side evaluation of the tie-break, for `oracle-higher` -/

def wantS2b (desc : JStr → List JStr) : List (MRef × MRef) → AList MRef MRef → AList MRef MRef
  | [], acc => acc
  | (b, s) :: rest, acc =>
    match AList.lookup s acc with
    | none => wantS2b desc rest (acc ++ [(s, b)])
    | some cur => wantS2b desc rest (if (desc b.cls).contains cur.cls then upsert s b acc else acc)

def oracleHigher (idx : Index) (st : SelState) : Ans :=
  let desc := fun c => (descendants idx FUEL c).getD []
  let want := wantS2b desc st.1 []
  if want.map Prod.fst != st.2.map Prod.fst then .ok (list [tag "fail", tag "keys"])
  else if want != st.2 then .ok (list [tag "fail", tag "higher"]) else .ok (tag "pass")

/-! ## ops -/

def withSel (jar : JarDesc) (k : Index → SelState → Ans) : Ans :=
  if !acyclic [jar] then .skip "cyclic" else
  let idx := ofJar jar
  match select idx FUEL with
  | none => .skip "fuel"
  | some st => k idx st

/-- the provider handed to the named remapper is acyclic as well (or is never built) -/
def remappedAcyclic (jars : List JarDesc) (cal : Mappings) : Bool :=
  match cal.getNamespace (jstr "official"), cal.getNamespace (jstr "intermediary") with
  | some o, some i =>
    match Remapper.remapperB cal o i with
    | some rc =>
      let es := remapProvider (Remapper.classTable rc) jars
      acyclicGo es.length es
    | none => true
  | _, _ => true

def withCtx (j libs cal m : Sexp) (k : JarDesc → List JarDesc → Mappings → Mappings → Ans) : Option Ans := do
  let jar ← jarFrom j; let libs ← toListOf? jarFrom libs; let cal ← mappingsFrom cal; let m ← mappingsFrom m
  if cal.ns.length != 2 || m.ns.length != 2 then none else
  pure (if !acyclic (jar :: libs) then .skip "cyclic" else
    if !remappedAcyclic (jar :: libs) cal then .skip "cyclic" else k jar libs cal m)

/-- the pairs the property text selects (`IsBridgePair`, evaluated declaratively), in the order of the method table -/
def ownPairs (idx : Index) : List (MRef × MRef) :=
  let anc := fun c => (ancestors idx FUEL c).getD []
  idx.methods.filterMap fun (b, _) =>
    match AList.lookup b idx.refs with
    | some (s :: _) => if isBridgePairB idx anc b s then some (b, s) else none
    | _ => none

/-- `oracle-only-delegate` (`own = false`: the pairs are the ones the selection loop produced) and
`oracle-delegate-named` (`own = true`: the pairs are the bridge pairs of the property text): frame and effect of the
insertion evaluated on the result -/
def delegateOracle (own : Bool) (jar : JarDesc) (libs : List JarDesc) (cal m : Mappings) : Ans :=
  match setup jar libs cal m with
  | none => .ok (tag "out-of-domain")
  | some su =>
    match select (ofJar jar) FUEL with
    | none => .skip "fuel"
    | some st =>
      let interC := mapRef su.calamus su.supC FUEL
      let namedN := mapRefName su.named su.supN FUEL
      if !(st.1.all fun p => (interC p.1).isSome && (interC p.2).isSome) then .skip "fuel" else
      -- the domain: the real function succeeds
      match remapPairs (fun r => (interC r).join) st.1 [] with
      | none => .ok (tag "out-of-domain")
      | some ps =>
        if !(ps.all fun p => (namedN p.1).isSome) then .skip "fuel" else
        let namedOf := fun r => (namedN r).join
        match applyPairs namedOf ps m with
        | none => .ok (tag "out-of-domain")
        | some r =>
          if !own then oracleOnlyDelegate namedOf ps m r else
          let sel := ownPairs (ofJar jar)
          if !(sel.all fun p => (interC p.1).isSome && (interC p.2).isSome) then .skip "fuel" else
          match remapPairs (fun r => (interC r).join) sel [] with
          | none => .ok (tag "out-of-domain")
          | some ps' =>
            if !(ps'.all fun p => (namedN p.1).isSome) then .skip "fuel" else
            oracleOnlyDelegate namedOf ps' m r

def handleC15 (op : String) (args : List Sexp) : Option Ans :=
  match op, args with
  | "bridges", [j] => do
    let jar ← jarFrom j
    pure (withSel jar fun _ st => .ok (pairsTo st.1))
  | "s2b", [j] => do
    let jar ← jarFrom j
    pure (withSel jar fun _ st => .ok (pairsTo (st.2.map fun p => (p.1, p.2))))
  | "oracle-bridge-iff", [j] => do
    let jar ← jarFrom j
    pure (withSel jar fun idx st => oracleBridgeIff idx st.1)
  | "oracle-higher", [j] => do
    let jar ← jarFrom j
    pure (withSel jar fun idx st => oracleHigher idx st)
  | "add-specialized", [j, libs, cal, m] =>
    withCtx j libs cal m fun jar libs cal m =>
      match addFull jar libs cal m FUEL with
      | none => .skip "fuel"
      | some none => .err "e"
      | some (some r) => .ok (mappingsTo r)
  | "oracle-only-delegate", [j, libs, cal, m] =>
    withCtx j libs cal m fun jar libs cal m => delegateOracle false jar libs cal m
  | "oracle-delegate-named", [j, libs, cal, m] =>
    withCtx j libs cal m fun jar libs cal m => delegateOracle true jar libs cal m
  | _, _ => none

def main : IO Unit := Driver.run handleC15
