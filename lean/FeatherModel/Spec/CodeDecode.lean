import FeatherModel.Base.Sexp

/-!
# Independent decoder for the instruction set of the C02 model, transcribed from JVMS §6.5

Written from the instruction descriptions of the specification (operand layout, `wide` forms, branch target =
address of *this* opcode + signed offset, switch padding "such that defaultbyte1 begins at an address that is a
multiple of four bytes from the start of the current method"), not by inverting the writer model.
Branch targets are decoded to **absolute addresses**.
-/

namespace CodeDecode

inductive DInsn where
  | simple (op : Nat)
  | bipush (v : Int)
  | sipush (v : Int)
  /-- `ldc` (u1 index) and `ldc_w` (u2 index) push the same constant: both decode to `ldc` -/
  | ldc (idx : Nat)
  | ldc2 (idx : Nat)
  /-- `<t>load`, `<t>load_<n>`, `wide <t>load`: kind 0..4 = i l f d a -/
  | load (kind idx : Nat)
  | store (kind idx : Nat)
  | iinc (idx : Nat) (v : Int)
  | ret (idx : Nat)
  /-- conditional branch: opcode and absolute target -/
  | ifc (op : Nat) (target : Int)
  /-- `goto` and `goto_w` -/
  | goto (target : Int)
  /-- `jsr` and `jsr_w` -/
  | jsr (target : Int)
  | tableswitch (dflt : Int) (low high : Int) (targets : List Int)
  | lookupswitch (dflt : Int) (pairs : List (Int × Int))
  /-- `getstatic putstatic getfield putfield invokevirtual invokespecial invokestatic new anewarray checkcast
  instanceof`: opcode, `indexbyte1 indexbyte2` -/
  | cp (op idx : Nat)
  /-- `invokeinterface indexbyte1 indexbyte2 count 0` -/
  | invokeinterface (idx count : Nat)
  | newarray (atype : Nat)
  /-- `multianewarray indexbyte1 indexbyte2 dimensions` -/
  | multianewarray (idx dims : Nat)
  /-- `invokedynamic indexbyte1 indexbyte2 0 0` -/
  | invokedynamic (idx : Nat)
  deriving DecidableEq, Repr

/-- opcodes without operands (JVMS §6.5 / §7): constants, array loads and stores, stack, arithmetic, conversions,
comparisons, returns, arraylength, athrow, monitorenter, monitorexit -/
def isSimple (op : Nat) : Bool :=
  op ≤ 0x0f || (0x2e ≤ op && op ≤ 0x35) || (0x4f ≤ op && op ≤ 0x83) || (0x85 ≤ op && op ≤ 0x98) ||
  (0xac ≤ op && op ≤ 0xb1) || op == 0xbe || op == 0xbf || op == 0xc2 || op == 0xc3

/-- conditional branch opcodes: `if<cond>` 0x99–0x9e, `if_icmp<cond>` 0x9f–0xa4, `if_acmp<cond>` 0xa5–0xa6,
`ifnull` 0xc6, `ifnonnull` 0xc7 -/
def isIf (op : Nat) : Bool := (0x99 ≤ op && op ≤ 0xa6) || op == 0xc6 || op == 0xc7

/-- opcodes followed by exactly one two-byte constant-pool index: field access 0xb2–0xb5, `invokevirtual`
`invokespecial` `invokestatic` 0xb6–0xb8, `new` 0xbb, `anewarray` 0xbd, `checkcast` 0xc0, `instanceof` 0xc1 -/
def isCp (op : Nat) : Bool := (0xb2 ≤ op && op ≤ 0xb8) || op == 0xbb || op == 0xbd || op == 0xc0 || op == 0xc1

/-- the conditional branch that succeeds exactly when `op` does not (eq/ne, lt/ge, gt/le, null/nonnull) -/
def negIf (op : Nat) : Nat :=
  if op == 0x99 then 0x9a else if op == 0x9a then 0x99
  else if op == 0x9b then 0x9c else if op == 0x9c then 0x9b
  else if op == 0x9d then 0x9e else if op == 0x9e then 0x9d
  else if op == 0x9f then 0xa0 else if op == 0xa0 then 0x9f
  else if op == 0xa1 then 0xa2 else if op == 0xa2 then 0xa1
  else if op == 0xa3 then 0xa4 else if op == 0xa4 then 0xa3
  else if op == 0xa5 then 0xa6 else if op == 0xa6 then 0xa5
  else if op == 0xc6 then 0xc7 else if op == 0xc7 then 0xc6
  else op

def s8 (n : Nat) : Int := if n < 128 then (n : Int) else (n : Int) - 256
def s16 (a b : Nat) : Int := if a < 128 then ((a * 256 + b : Nat) : Int) else ((a * 256 + b : Nat) : Int) - 65536
def u32 (a b c d : Nat) : Nat := a * 16777216 + b * 65536 + c * 256 + d
def s32 (a b c d : Nat) : Int := if a < 128 then (u32 a b c d : Int) else (u32 a b c d : Int) - 4294967296

/-- `n` consecutive signed 32-bit offsets, made absolute -/
def readOffsets (pc : Nat) : Nat → Bytes → Option (List Int × Bytes)
  | 0, bs => some ([], bs)
  | n + 1, a :: b :: c :: d :: bs =>
    match readOffsets pc n bs with
    | some (os, rest) => some (((pc : Int) + s32 a b c d) :: os, rest)
    | none => none
  | _ + 1, _ => none

/-- `n` match-offset pairs -/
def readPairs (pc : Nat) : Nat → Bytes → Option (List (Int × Int) × Bytes)
  | 0, bs => some ([], bs)
  | n + 1, k1 :: k2 :: k3 :: k4 :: a :: b :: c :: d :: bs =>
    match readPairs pc n bs with
    | some (ps, rest) => some ((s32 k1 k2 k3 k4, (pc : Int) + s32 a b c d) :: ps, rest)
    | none => none
  | _ + 1, _ => none

/-- padding after a switch opcode at address `pc` -/
def switchPad (pc : Nat) : Nat := (4 - (pc + 1) % 4) % 4

/-- decode the instruction whose opcode is at address `pc`; `bs` = the code array from `pc` on.
Returns the instruction and its length in bytes. -/
def decodeOne (pc : Nat) (bs : Bytes) : Option (DInsn × Nat) :=
  match bs with
  | [] => none
  | op :: rest =>
    if isSimple op then some (.simple op, 1)
    else if op == 0x10 then
      match rest with
      | b :: _ => some (.bipush (s8 b), 2)
      | _ => none
    else if op == 0x11 then
      match rest with
      | a :: b :: _ => some (.sipush (s16 a b), 3)
      | _ => none
    else if op == 0x12 then
      match rest with
      | b :: _ => some (.ldc b, 2)
      | _ => none
    else if op == 0x13 then
      match rest with
      | a :: b :: _ => some (.ldc (a * 256 + b), 3)
      | _ => none
    else if op == 0x14 then
      match rest with
      | a :: b :: _ => some (.ldc2 (a * 256 + b), 3)
      | _ => none
    else if 0x15 ≤ op && op ≤ 0x19 then
      match rest with
      | b :: _ => some (.load (op - 0x15) b, 2)
      | _ => none
    else if 0x1a ≤ op && op ≤ 0x2d then some (.load ((op - 0x1a) / 4) ((op - 0x1a) % 4), 1)
    else if 0x36 ≤ op && op ≤ 0x3a then
      match rest with
      | b :: _ => some (.store (op - 0x36) b, 2)
      | _ => none
    else if 0x3b ≤ op && op ≤ 0x4e then some (.store ((op - 0x3b) / 4) ((op - 0x3b) % 4), 1)
    else if op == 0x84 then
      match rest with
      | i :: c :: _ => some (.iinc i (s8 c), 3)
      | _ => none
    else if op == 0xa9 then
      match rest with
      | i :: _ => some (.ret i, 2)
      | _ => none
    else if op == 0xc4 then
      -- wide: <opcode> indexbyte1 indexbyte2 [constbyte1 constbyte2]
      match rest with
      | op2 :: a :: b :: rest2 =>
        if 0x15 ≤ op2 && op2 ≤ 0x19 then some (.load (op2 - 0x15) (a * 256 + b), 4)
        else if 0x36 ≤ op2 && op2 ≤ 0x3a then some (.store (op2 - 0x36) (a * 256 + b), 4)
        else if op2 == 0xa9 then some (.ret (a * 256 + b), 4)
        else if op2 == 0x84 then
          match rest2 with
          | c :: d :: _ => some (.iinc (a * 256 + b) (s16 c d), 6)
          | _ => none
        else none
      | _ => none
    else if isIf op then
      match rest with
      | a :: b :: _ => some (.ifc op ((pc : Int) + s16 a b), 3)
      | _ => none
    else if op == 0xa7 then
      match rest with
      | a :: b :: _ => some (.goto ((pc : Int) + s16 a b), 3)
      | _ => none
    else if op == 0xa8 then
      match rest with
      | a :: b :: _ => some (.jsr ((pc : Int) + s16 a b), 3)
      | _ => none
    else if op == 0xc8 then
      match rest with
      | a :: b :: c :: d :: _ => some (.goto ((pc : Int) + s32 a b c d), 5)
      | _ => none
    else if op == 0xc9 then
      match rest with
      | a :: b :: c :: d :: _ => some (.jsr ((pc : Int) + s32 a b c d), 5)
      | _ => none
    else if op == 0xaa then
      match rest.drop (switchPad pc) with
      | d1 :: d2 :: d3 :: d4 :: l1 :: l2 :: l3 :: l4 :: h1 :: h2 :: h3 :: h4 :: tl =>
        let low := s32 l1 l2 l3 l4
        let high := s32 h1 h2 h3 h4
        if low ≤ high then
          match readOffsets pc (high - low + 1).toNat tl with
          | some (os, _) =>
            some (.tableswitch ((pc : Int) + s32 d1 d2 d3 d4) low high os, 1 + switchPad pc + 12 + 4 * os.length)
          | none => none
        else none
      | _ => none
    else if op == 0xab then
      match rest.drop (switchPad pc) with
      | d1 :: d2 :: d3 :: d4 :: n1 :: n2 :: n3 :: n4 :: tl =>
        let n := s32 n1 n2 n3 n4
        if 0 ≤ n then
          match readPairs pc n.toNat tl with
          | some (ps, _) =>
            some (.lookupswitch ((pc : Int) + s32 d1 d2 d3 d4) ps, 1 + switchPad pc + 8 + 8 * ps.length)
          | none => none
        else none
      | _ => none
    else if isCp op then
      match rest with
      | a :: b :: _ => some (.cp op (a * 256 + b), 3)
      | _ => none
    else if op == 0xb9 then
      -- the fourth operand byte must always be zero
      match rest with
      | a :: b :: c :: z :: _ => if z == 0 then some (.invokeinterface (a * 256 + b) c, 5) else none
      | _ => none
    else if op == 0xbc then
      match rest with
      | t :: _ => some (.newarray t, 2)
      | _ => none
    else if op == 0xc5 then
      match rest with
      | a :: b :: d :: _ => some (.multianewarray (a * 256 + b) d, 4)
      | _ => none
    else if op == 0xba then
      -- the third and fourth operand bytes must always be zero
      match rest with
      | a :: b :: y :: z :: _ => if y == 0 && z == 0 then some (.invokedynamic (a * 256 + b), 5) else none
      | _ => none
    else none

def decodeAt (code : Bytes) (pc : Nat) : Option (DInsn × Nat) := decodeOne pc (code.drop pc)

/-- decode the whole array front to back: `(address, length, instruction)` list; `none` if some byte does not decode
or the last instruction overruns the array -/
def decodeAll : Nat → Nat → Bytes → Option (List (Nat × Nat × DInsn))
  | _, _, [] => some []
  | 0, _, _ :: _ => none
  | fuel + 1, pc, bs =>
    match decodeOne pc bs with
    | none => none
    | some (d, len) =>
      -- `len > bs.length` (the instruction overruns the array), written without walking the whole array
      if len = 0 ∨ (bs.drop (len - 1)).isEmpty then none
      else
        match decodeAll fuel (pc + len) (bs.drop len) with
        | none => none
        | some rest => some ((pc, len, d) :: rest)

def decode (code : Bytes) : Option (List (Nat × Nat × DInsn)) := decodeAll code.length 0 code

end CodeDecode
