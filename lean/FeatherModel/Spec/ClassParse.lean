import FeatherModel.Model.ClassWrite

/-!
# Independent class-file parser (JVMS §4.1, §4.4, §4.5/§4.6, §4.7, §4.7.3)

Reads what the structure definitions of the specification say, trusting every count and every `attribute_length` it
finds; it shares nothing with the writer model except the result types. `none` = malformed (truncated, unknown tag,
bytes left over).
-/

namespace ClassParse
open ClassWrite PoolWrite

def u8 : Bytes → Option (Nat × Bytes)
  | a :: r => some (a, r)
  | _ => none

def u16 : Bytes → Option (Nat × Bytes)
  | a :: b :: r => some (a * 256 + b, r)
  | _ => none

def u32 : Bytes → Option (Nat × Bytes)
  | a :: b :: c :: d :: r => some (a * 16777216 + b * 65536 + c * 256 + d, r)
  | _ => none

def u64 (bs : Bytes) : Option (Nat × Bytes) :=
  match u32 bs with
  | none => none
  | some (hi, r) =>
    match u32 r with
    | none => none
    | some (lo, r') => some (hi * 4294967296 + lo, r')

/-- exactly `n` bytes -/
def takeN (n : Nat) (bs : Bytes) : Option (Bytes × Bytes) :=
  if n ≤ bs.length then some (bs.take n, bs.drop n) else none

def s32 (n : Nat) : Int := if n < 2147483648 then (n : Int) else (n : Int) - 4294967296
def s64 (n : Nat) : Int := if n < 9223372036854775808 then (n : Int) else (n : Int) - 18446744073709551616

/-- `attributes_count` × `attribute_info { u2 name_index; u4 length; u1 info[length] }` -/
def attrs : Nat → Bytes → Option (List Attr × Bytes)
  | 0, bs => some ([], bs)
  | n + 1, bs =>
    match u16 bs with
    | none => none
    | some (name, bs) =>
      match u32 bs with
      | none => none
      | some (len, bs) =>
        match takeN len bs with
        | none => none
        | some (info, bs) =>
          match attrs n bs with
          | none => none
          | some (rest, bs) => some ((name, info) :: rest, bs)

/-- one row of `w` `u2` items -/
def row : Nat → Bytes → Option (List Nat × Bytes)
  | 0, bs => some ([], bs)
  | w + 1, bs =>
    match u16 bs with
    | none => none
    | some (x, bs) =>
      match row w bs with
      | none => none
      | some (xs, bs) => some (x :: xs, bs)

def rows (w : Nat) : Nat → Bytes → Option (List (List Nat) × Bytes)
  | 0, bs => some ([], bs)
  | n + 1, bs =>
    match row w bs with
    | none => none
    | some (r, bs) =>
      match rows w n bs with
      | none => none
      | some (rs, bs) => some (r :: rs, bs)

/-- a table attribute (`LineNumberTable`: w = 2, `LocalVariable(Type)Table`: w = 5): count, rows, nothing else -/
def table (w : Nat) (body : Bytes) : Option (List (List Nat)) :=
  match u16 body with
  | none => none
  | some (n, bs) =>
    match rows w n bs with
    | some (rs, []) => some rs
    | _ => none

/-- `Code_attribute` body (§4.7.3) -/
def code (body : Bytes) : Option CodeAttr :=
  match u16 body with
  | none => none
  | some (maxStack, bs) =>
    match u16 bs with
    | none => none
    | some (maxLocals, bs) =>
      match u32 bs with
      | none => none
      | some (len, bs) =>
        match takeN len bs with
        | none => none
        | some (c, bs) =>
          match u16 bs with
          | none => none
          | some (ne, bs) =>
            match rows 4 ne bs with
            | none => none
            | some (exc, bs) =>
              match u16 bs with
              | none => none
              | some (na, bs) =>
                match attrs na bs with
                | some (as, []) => some ⟨maxStack, maxLocals, c, exc, as⟩
                | _ => none

/-- `field_info` / `method_info` -/
def members : Nat → Bytes → Option (List Member × Bytes)
  | 0, bs => some ([], bs)
  | n + 1, bs =>
    match row 4 bs with
    | some ([access, name, desc, na], bs) =>
      match attrs na bs with
      | none => none
      | some (as, bs) =>
        match members n bs with
        | none => none
        | some (ms, bs) => some (⟨access, name, desc, as⟩ :: ms, bs)
    | _ => none

/-- `cp_info` by tag (§4.4, table 4.4-B) -/
def poolEntry (bs : Bytes) : Option (Entry × Bytes) :=
  match bs with
  | [] => none
  | tag :: r =>
    if tag = 1 then
      match u16 r with
      | none => none
      | some (n, r) => match takeN n r with | none => none | some (s, r) => some (.utf8 s, r)
    else if tag = 3 then match u32 r with | none => none | some (n, r) => some (.int (s32 n), r)
    else if tag = 4 then match u32 r with | none => none | some (n, r) => some (.float n, r)
    else if tag = 5 then match u64 r with | none => none | some (n, r) => some (.long (s64 n), r)
    else if tag = 6 then match u64 r with | none => none | some (n, r) => some (.double n, r)
    else if tag = 7 then match u16 r with | none => none | some (n, r) => some (.cls n, r)
    else if tag = 8 then match u16 r with | none => none | some (n, r) => some (.str n, r)
    else if tag = 9 then match row 2 r with | some ([a, b], r) => some (.fieldRef a b, r) | _ => none
    else if tag = 10 then match row 2 r with | some ([a, b], r) => some (.methodRef a b, r) | _ => none
    else if tag = 11 then match row 2 r with | some ([a, b], r) => some (.ifaceMethodRef a b, r) | _ => none
    else if tag = 12 then match row 2 r with | some ([a, b], r) => some (.nameAndType a b, r) | _ => none
    else if tag = 15 then
      match u8 r with
      | none => none
      | some (k, r) => match u16 r with | none => none | some (i, r) => some (.methodHandle k i, r)
    else if tag = 16 then match u16 r with | none => none | some (n, r) => some (.methodType n, r)
    else if tag = 17 then match row 2 r with | some ([a, b], r) => some (.dynamic a b, r) | _ => none
    else if tag = 18 then match row 2 r with | some ([a, b], r) => some (.invokeDynamic a b, r) | _ => none
    else if tag = 19 then match u16 r with | none => none | some (n, r) => some (.module n, r)
    else if tag = 20 then match u16 r with | none => none | some (n, r) => some (.package n, r)
    else none

/-- entries `idx .. count-1`; long and double take two indices (§4.4.5). `fuel` bounds the number of entries. -/
def pool : Nat → Nat → Nat → Bytes → Option (List Entry × Bytes)
  | 0, idx, count, bs => if idx = count then some ([], bs) else none
  | fuel + 1, idx, count, bs =>
    if idx = count then some ([], bs)
    else if idx > count then none
    else
      match poolEntry bs with
      | none => none
      | some (e, bs) =>
        match pool fuel (idx + slots e) count bs with
        | none => none
        | some (es, bs) => some (e :: es, bs)

/-- `ClassFile` (§4.1); every byte must be consumed -/
def classFile (bs : Bytes) : Option ClassImg :=
  match bs with
  | 0xca :: 0xfe :: 0xba :: 0xbe :: bs =>
    match row 3 bs with
    | some ([minor, major, count], bs) =>
      match pool count 1 count bs with
      | none => none
      | some (entries, bs) =>
        match row 4 bs with
        | some ([access, this, super, ni], bs) =>
          match row ni bs with
          | none => none
          | some (ifs, bs) =>
            match u16 bs with
            | none => none
            | some (nf, bs) =>
              match members nf bs with
              | none => none
              | some (fields, bs) =>
                match u16 bs with
                | none => none
                | some (nm, bs) =>
                  match members nm bs with
                  | none => none
                  | some (methods, bs) =>
                    match u16 bs with
                    | none => none
                    | some (na, bs) =>
                      match attrs na bs with
                      | some (as, []) => some ⟨minor, major, count, entries, access, this, super, ifs, fields, methods, as⟩
                      | _ => none
        | _ => none
    | _ => none
  | _ => none

end ClassParse
