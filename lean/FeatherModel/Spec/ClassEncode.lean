import FeatherModel.Model.ClassRead

/-!
# C01 — specification side: the JVMS encoding of a `Code` attribute as a function of free *choices*

Independent of the reader (it only shares the *types* of the facts).  A method body is described by
`CodeLayout`: the instructions with branch targets given as **instruction indices**, and for every instruction
the encoding choices that do not change its meaning:

* `form`: `short` (`xload_<n>`, `ldc`), `plain` (`xload n`, `ldc_w`, `goto`, `iinc`), `wide` (`wide xload`, `ldc2_w`,
  `goto_w`, `jsr_w`, `wide iinc`, `wide ret`);
* `cp`: which constant-pool index is used for the symbolic operand (any index that resolves to it: pool order,
  duplicates and unused entries are therefore free);
* `pad`: the value of the 0–3 padding bytes of a switch (their number is forced by the position) and of the `count`
  byte of `invokeinterface`.

`encode` lays the instructions out (JVMS §6.5), computes every offset from the positions this very layout
produces, then the exception table and the attributes of `Code` in the chosen order.
-/

namespace ClassRead
namespace Spec

inductive Form where
  | short | plain | wide
  deriving DecidableEq, Repr, Inhabited

structure SInsn where
  insn : Insn
  form : Form
  cp : Nat
  pad : Nat
  deriving Inhabited

/-- number of padding bytes of a switch whose opcode is at offset `at` -/
def padLen (at_ : Nat) : Nat := 3 - at_ % 4

/-- encoded size of an instruction placed at offset `at` -/
def SInsn.size (at_ : Nat) (si : SInsn) : Nat :=
  match si.insn, si.form with
  | .simple _, _ => 1
  | .bipush _, _ => 2
  | .sipush _, _ => 3
  | .ldc _, .short => 2
  | .ldc _, _ => 3
  | .load _ _, .short => 1
  | .load _ _, .plain => 2
  | .load _ _, .wide => 4
  | .store _ _, .short => 1
  | .store _ _, .plain => 2
  | .store _ _, .wide => 4
  | .iinc _ _, .wide => 6
  | .iinc _ _, _ => 3
  | .branch _ _, _ => 3
  | .goto _, .wide => 5
  | .goto _, _ => 3
  | .jsr _, .wide => 5
  | .jsr _, _ => 3
  | .ret _, .wide => 4
  | .ret _, _ => 2
  | .tableswitch _ _ _ tbl, _ => 1 + padLen at_ + 12 + 4 * tbl.length
  | .lookupswitch _ pairs, _ => 1 + padLen at_ + 8 + 8 * pairs.length
  | .field _ _, _ => 3
  | .invokevirtual _, _ => 3
  | .invokespecial _ _, _ => 3
  | .invokestatic _ _, _ => 3
  | .invokeinterface _, _ => 5
  | .invokedynamic _, _ => 5
  | .new _, _ => 3
  | .newarray _, _ => 2
  | .anewarray _, _ => 3
  | .checkcast _, _ => 3
  | .instanceof _, _ => 3
  | .multianewarray _ _, _ => 4

/-- offset reached after laying out `xs` from offset `at` -/
def endPos : List SInsn → Nat → Nat
  | [], at_ => at_
  | x :: xs, at_ => endPos xs (at_ + x.size at_)

/-- offset of instruction `i` (`i = length`: the code length) -/
def codePos (insns : List SInsn) (i : Nat) : Nat := endPos (insns.take i) 0

/-- signed offset from the instruction at `at` to instruction `t` -/
def relOff (pos : Nat → Nat) (at_ t : Nat) : Int := (pos t : Int) - (at_ : Int)

/-- bytes of one instruction placed at offset `at`; `pos` gives the offset of every instruction -/
def SInsn.encode (pos : Nat → Nat) (at_ : Nat) (si : SInsn) : Bytes :=
  match si.insn, si.form with
  | .simple op, _ => [op]
  | .bipush v, _ => [0x10, ofI8 v]
  | .sipush v, _ => 0x11 :: be16 (ofI16 v)
  | .ldc _, .short => [0x12, si.cp]
  | .ldc _, .plain => 0x13 :: be16 si.cp
  | .ldc _, .wide => 0x14 :: be16 si.cp
  | .load k i, .short => [0x1a + k * 4 + i]
  | .load k i, .plain => [0x15 + k, i]
  | .load k i, .wide => [0xc4, 0x15 + k] ++ be16 i
  | .store k i, .short => [0x3b + k * 4 + i]
  | .store k i, .plain => [0x36 + k, i]
  | .store k i, .wide => [0xc4, 0x36 + k] ++ be16 i
  | .iinc i v, .wide => [0xc4, 0x84] ++ be16 i ++ be16 (ofI16 v)
  | .iinc i v, _ => [0x84, i, ofI8 v]
  | .branch op t, _ => op :: be16 (ofI16 (relOff pos at_ t))
  | .goto t, .wide => 0xc8 :: be32 (ofI32 (relOff pos at_ t))
  | .goto t, _ => 0xa7 :: be16 (ofI16 (relOff pos at_ t))
  | .jsr t, .wide => 0xc9 :: be32 (ofI32 (relOff pos at_ t))
  | .jsr t, _ => 0xa8 :: be16 (ofI16 (relOff pos at_ t))
  | .ret i, .wide => [0xc4, 0xa9] ++ be16 i
  | .ret i, _ => [0xa9, i]
  | .tableswitch d lo hi tbl, _ =>
    0xaa :: List.replicate (padLen at_) si.pad ++ be32 (ofI32 (relOff pos at_ d)) ++ be32 (ofI32 lo) ++ be32 (ofI32 hi)
      ++ tbl.flatMap (fun t => be32 (ofI32 (relOff pos at_ t)))
  | .lookupswitch d pairs, _ =>
    0xab :: List.replicate (padLen at_) si.pad ++ be32 (ofI32 (relOff pos at_ d)) ++ be32 pairs.length
      ++ pairs.flatMap (fun kt => be32 (ofI32 kt.1) ++ be32 (ofI32 (relOff pos at_ kt.2)))
  | .field op _, _ => op :: be16 si.cp
  | .invokevirtual _, _ => 0xb6 :: be16 si.cp
  | .invokespecial _ _, _ => 0xb7 :: be16 si.cp
  | .invokestatic _ _, _ => 0xb8 :: be16 si.cp
  | .invokeinterface _, _ => 0xb9 :: be16 si.cp ++ [si.pad, 0]
  | .invokedynamic _, _ => 0xba :: be16 si.cp ++ [0, 0]
  | .new _, _ => 0xbb :: be16 si.cp
  | .newarray a, _ => [0xbc, a]
  | .anewarray _, _ => 0xbd :: be16 si.cp
  | .checkcast _, _ => 0xc0 :: be16 si.cp
  | .instanceof _, _ => 0xc1 :: be16 si.cp
  | .multianewarray _ d, _ => 0xc5 :: be16 si.cp ++ [d]

/-- the code array: instructions one after the other -/
def encInsns (pos : Nat → Nat) : List SInsn → Nat → Bytes
  | [], _ => []
  | x :: xs, at_ => x.encode pos at_ ++ encInsns pos xs (at_ + x.size at_)

def inI8 (v : Int) : Prop := -128 ≤ v ∧ v < 128
def inI16 (v : Int) : Prop := -32768 ≤ v ∧ v < 32768
def inI32 (v : Int) : Prop := -2147483648 ≤ v ∧ v < 2147483648

/-- the choices made for an instruction are admissible: the form can hold the operands, the pool index resolves to
the symbolic operand, targets exist.  `n` = number of instructions. -/
def SInsn.Legal (p : Pool) (bsms : Option (List Bsm)) (n : Nat) (pos : Nat → Nat) (at_ : Nat) (si : SInsn) : Prop :=
  match si.insn, si.form with
  | .simple op, _ => isSimpleOp op = true
  | .bipush v, _ => inI8 v
  | .sipush v, _ => inI16 v
  | .ldc k, .short => si.cp < 256 ∧ p.getLoadable bsms si.cp = .ok k
  | .ldc k, _ => si.cp < 65536 ∧ p.getLoadable bsms si.cp = .ok k
  | .load k i, .short => k < 5 ∧ i < 4
  | .load k i, .plain => k < 5 ∧ i < 256
  | .load k i, .wide => k < 5 ∧ i < 65536
  | .store k i, .short => k < 5 ∧ i < 4
  | .store k i, .plain => k < 5 ∧ i < 256
  | .store k i, .wide => k < 5 ∧ i < 65536
  | .iinc i v, .wide => i < 65536 ∧ inI16 v
  | .iinc i v, .plain => i < 256 ∧ inI8 v
  | .iinc _ _, .short => False
  | .branch op t, _ => isCondBranchOp op = true ∧ t < n ∧ inI16 (relOff pos at_ t)
  | .goto t, .wide => t < n
  | .goto t, .plain => t < n ∧ inI16 (relOff pos at_ t)
  | .goto _, .short => False
  | .jsr t, .wide => t < n
  | .jsr t, .plain => t < n ∧ inI16 (relOff pos at_ t)
  | .jsr _, .short => False
  | .ret i, .wide => i < 65536
  | .ret i, .plain => i < 256
  | .ret _, .short => False
  | .tableswitch d lo hi tbl, _ =>
    d < n ∧ (∀ t ∈ tbl, t < n) ∧ inI32 lo ∧ inI32 hi ∧ lo ≤ hi ∧ (tbl.length : Int) = hi - lo + 1 ∧ tbl.length < 16384 ∧ si.pad < 256
  | .lookupswitch d pairs, _ =>
    d < n ∧ (∀ kt ∈ pairs, kt.2 < n ∧ inI32 kt.1) ∧ pairs.length < 8192 ∧ si.pad < 256
  | .field op r, _ => 0xb2 ≤ op ∧ op ≤ 0xb5 ∧ si.cp < 65536 ∧ p.getFieldRef si.cp = .ok r
  | .invokevirtual m, _ => si.cp < 65536 ∧ p.getMethodRef si.cp = .ok m
  | .invokespecial m itf, _ => si.cp < 65536 ∧ p.getMethodRefOrInterface si.cp = .ok (m, itf)
  | .invokestatic m itf, _ => si.cp < 65536 ∧ p.getMethodRefOrInterface si.cp = .ok (m, itf)
  | .invokeinterface m, _ => si.cp < 65536 ∧ p.getInterfaceMethodRef si.cp = .ok m ∧ si.pad < 256
  | .invokedynamic d, _ => si.cp < 65536 ∧ ∃ d', p.getInvokeDynamic bsms si.cp = .ok d' ∧ d' = d
  | .new c, _ => si.cp < 65536 ∧ p.getClass si.cp = .ok c
  | .newarray a, _ => 4 ≤ a ∧ a ≤ 11
  | .anewarray c, _ => si.cp < 65536 ∧ p.getClass si.cp = .ok c
  | .checkcast c, _ => si.cp < 65536 ∧ p.getClass si.cp = .ok c
  | .instanceof c, _ => si.cp < 65536 ∧ p.getClass si.cp = .ok c
  | .multianewarray c d, _ => si.cp < 65536 ∧ p.getClass si.cp = .ok c ∧ d < 256

/-- branch targets of an instruction, in the order the first pass of the reader meets them -/
def targetsOf : Insn → List Nat
  | .branch _ t => [t]
  | .goto t => [t]
  | .jsr t => [t]
  | .tableswitch d _ _ tbl => d :: tbl
  | .lookupswitch d pairs => d :: pairs.map (·.2)
  | _ => []

/-- rename the targets of an instruction -/
def mapT (f : Nat → Nat) : Insn → Insn
  | .branch op t => .branch op (f t)
  | .goto t => .goto (f t)
  | .jsr t => .jsr (f t)
  | .tableswitch d lo hi tbl => .tableswitch (f d) lo hi (tbl.map f)
  | .lookupswitch d pairs => .lookupswitch (f d) (pairs.map fun kt => (kt.1, f kt.2))
  | i => i

/-! ## annotations (JVMS §4.7.16) -/

mutual
/-- `element_value` with the pool indices used -/
inductive SElem where
  /-- `B C D F I J S Z`: `const_value_index` and the value it denotes (after the narrowing the tag implies) -/
  | const (tag cp : Nat) (v : Int)
  | str (cp : Nat) (s : JStr)
  | enum (tcp : Nat) (ty : JStr) (ncp : Nat) (name : JStr)
  | cls (cp : Nat) (d : JStr)
  | anno (a : SAnno)
  | arr (vs : List SElem)
/-- `annotation`: type index, type descriptor, element-value pairs -/
inductive SAnno where
  | mk (tcp : Nat) (ty : JStr) (pairs : List SPair)
/-- `element_name_index`, the name, the value -/
inductive SPair where
  | mk (ncp : Nat) (name : JStr) (v : SElem)
end

instance : Inhabited SElem := ⟨.str 0 []⟩
instance : Inhabited SAnno := ⟨.mk 0 [] []⟩

mutual
def SElem.encode : SElem → Bytes
  | .const tag cp _ => tag :: be16 cp
  | .str cp _ => 115 :: be16 cp
  | .enum tcp _ ncp _ => 101 :: (be16 tcp ++ be16 ncp)
  | .cls cp _ => 99 :: be16 cp
  | .anno a => 64 :: a.encode
  | .arr vs => 91 :: (be16 vs.length ++ encElems vs)
def SAnno.encode : SAnno → Bytes
  | .mk tcp _ ps => be16 tcp ++ (be16 ps.length ++ encPairs ps)
def SPair.encode : SPair → Bytes
  | .mk ncp _ v => be16 ncp ++ v.encode
def encElems : List SElem → Bytes
  | [] => []
  | v :: r => v.encode ++ encElems r
def encPairs : List SPair → Bytes
  | [] => []
  | q :: r => q.encode ++ encPairs r
end

/-- the value a `const_value_index` denotes for a tag (JVMS table 4.7.16.1-A): `B C I S Z` name a `CONSTANT_Integer`
(narrowed to the type of the tag), `D` a `Double`, `F` a `Float`, `J` a `Long` -/
def constValue (p : Pool) (tag cp : Nat) : Outcome Int :=
  match tag with
  | 66 => do let v ← p.getInteger cp; pure (wrapI8 v)
  | 67 => do let v ← p.getInteger cp; pure (wrapU16 v)
  | 68 => do let v ← p.getDouble cp; pure (v : Int)
  | 70 => do let v ← p.getFloat cp; pure (v : Int)
  | 73 => p.getInteger cp
  | 74 => p.getLong cp
  | 83 => do let v ← p.getInteger cp; pure (wrapI16 v)
  | 90 => do let v ← p.getInteger cp; pure (if v != 0 then 1 else 0)
  | _ => .err

mutual
def SElem.Legal (p : Pool) : SElem → Prop
  | .const tag cp v => cp < 65536 ∧ constValue p tag cp = .ok v
  | .str cp s => cp < 65536 ∧ p.getUtf8 cp = .ok s
  | .enum tcp ty ncp name => tcp < 65536 ∧ ncp < 65536 ∧ p.getUtf8 tcp = .ok ty ∧ p.getUtf8 ncp = .ok name
  | .cls cp d => cp < 65536 ∧ p.getUtf8 cp = .ok d
  | .anno a => a.Legal p
  | .arr vs => vs.length < 65536 ∧ elemsLegal p vs
def SAnno.Legal (p : Pool) : SAnno → Prop
  | .mk tcp ty ps => tcp < 65536 ∧ p.getUtf8 tcp = .ok ty ∧ ps.length < 65536 ∧ pairsLegal p ps
def SPair.Legal (p : Pool) : SPair → Prop
  | .mk ncp name v => ncp < 65536 ∧ p.getUtf8 ncp = .ok name ∧ v.Legal p
def elemsLegal (p : Pool) : List SElem → Prop
  | [] => True
  | v :: r => v.Legal p ∧ elemsLegal p r
def pairsLegal (p : Pool) : List SPair → Prop
  | [] => True
  | q :: r => q.Legal p ∧ pairsLegal p r
end

mutual
/-- how many levels of `@` / `[` an element value nests below itself -/
def SElem.nest : SElem → Nat
  | .anno a => a.nest + 1
  | .arr vs => elemsNest vs + 1
  | _ => 0
def SAnno.nest : SAnno → Nat
  | .mk _ _ ps => pairsNest ps
def SPair.nest : SPair → Nat
  | .mk _ _ v => v.nest
def elemsNest : List SElem → Nat
  | [] => 0
  | v :: r => max v.nest (elemsNest r)
def pairsNest : List SPair → Nat
  | [] => 0
  | q :: r => max q.nest (pairsNest r)
end

/-- a top-level annotation inside the reader's domain: legal, and its element values nest at most
`MAX_ELEMENT_VALUE_DEPTH = 255` levels (deeper ones are rejected on purpose, see `annotation_depth_limit_witness`) -/
def SAnno.Ok (p : Pool) (a : SAnno) : Prop := a.Legal p ∧ a.nest ≤ 255

/-- a top-level element value (`AnnotationDefault`) inside the reader's domain -/
def SElem.Ok (p : Pool) (e : SElem) : Prop := e.Legal p ∧ e.nest ≤ 255

mutual
def SElem.fact : SElem → ElemVal
  | .const tag _ v => .const tag v
  | .str _ s => .str s
  | .enum _ ty _ name => .enum ty name
  | .cls _ d => .cls d
  | .anno a => .anno a.fact
  | .arr vs => .arr (elemFacts vs)
def SAnno.fact : SAnno → Annotation
  | .mk _ ty ps => .mk ty (pairFacts ps)
def SPair.fact : SPair → JStr × ElemVal
  | .mk _ name v => (name, v.fact)
def elemFacts : List SElem → List ElemVal
  | [] => []
  | v :: r => v.fact :: elemFacts r
def pairFacts : List SPair → List (JStr × ElemVal)
  | [] => []
  | q :: r => q.fact :: pairFacts r
end

/-- body of a `Runtime(In)VisibleAnnotations` attribute -/
def encAnnos (as : List SAnno) : Bytes := be16 as.length ++ as.flatMap SAnno.encode

/-- `type_path`: (kind 0..3, argument index; the index is 0 unless the kind is 3) -/
def encTypePath (path : List (Nat × Nat)) : Bytes := path.length :: path.flatMap (fun q => [q.1, q.2])

def typePathOk (path : List (Nat × Nat)) : Prop :=
  path.length < 256 ∧ ∀ q ∈ path, (q.1 ≤ 2 ∧ q.2 = 0) ∨ (q.1 = 3 ∧ q.2 < 256)

/-! ## the whole `Code` attribute -/

/-- all instructions of a method are legally encoded; the code array is non-empty and shorter than 65536 bytes -/
structure CodeLegal (p : Pool) (bsms : Option (List Bsm)) (insns : List SInsn) : Prop where
  nonempty : 0 < insns.length
  small : codePos insns insns.length ≤ 65535
  legal : ∀ i (h : i < insns.length), insns[i].Legal p bsms insns.length (codePos insns) (codePos insns i)

/-- exception table entry: protected range `[start, end_)` (`end_` may be the number of instructions = end of the
code), handler, and the pool index of the caught class (0 = any) -/
structure SException where
  start : Nat
  end_ : Nat
  handler : Nat
  catchCp : Nat
  catch_ : Option JStr
  deriving Inhabited

/-- one `LocalVariableTable` / `LocalVariableTypeTable` entry: live range `[start, end_)` in instructions -/
structure SLv where
  start : Nat
  end_ : Nat
  nameCp : Nat
  name : JStr
  descCp : Nat
  desc : JStr
  index : Nat
  deriving Inhabited

/-- `verification_type_info`; `object` with the pool index used, `uninit` with the index of the `new` instruction -/
inductive SVType where
  | top | int | float | double | long | null | uninitThis
  | object (cp : Nat) (c : JStr)
  | uninit (t : Nat)
  deriving Inhabited

inductive SFrameKind where
  | same
  | same1 (v : SVType)
  | chop (k : Nat)
  | append (vs : List SVType)
  | full (locals stack : List SVType)
  deriving Inhabited

/-- one `stack_map_frame`: the instruction it describes, the choice between the compact and the extended form
(`same_frame`/`same_frame_extended`, `same_locals_1_stack_item_frame`/`…_extended`), and its contents -/
structure SFrame where
  at_ : Nat
  ext : Bool
  kind : SFrameKind
  deriving Inhabited

/-- a type annotation inside `Code`: its target names instructions by index (`localVar`: live ranges `[start, end)`) -/
structure SCodeTypeAnno where
  target : Target
  path : List (Nat × Nat)
  anno : SAnno
  deriving Inhabited

/-- `target_type` and `target_info` of the targets admissible inside `Code` -/
def encCodeTarget (pos : Nat → Nat) : Target → Bytes
  | .localVar tag tbl => tag :: (be16 tbl.length ++ tbl.flatMap (fun e => be16 (pos e.1) ++ be16 (pos e.2.1 - pos e.1) ++ be16 e.2.2))
  | .exceptionParam i => 0x42 :: be16 i
  | .offset tag t => tag :: be16 (pos t)
  | .offsetArg tag t i => tag :: (be16 (pos t) ++ [i])
  | _ => []

def codeTargetOk (n : Nat) : Target → Prop
  | .localVar tag tbl => (tag = 0x40 ∨ tag = 0x41) ∧ tbl.length < 65536 ∧ ∀ e ∈ tbl, e.1 < n ∧ e.1 ≤ e.2.1 ∧ e.2.1 ≤ n ∧ e.2.2 < 65536
  | .exceptionParam i => i < 65536
  | .offset tag t => 0x43 ≤ tag ∧ tag ≤ 0x46 ∧ t < n
  | .offsetArg tag t i => 0x47 ≤ tag ∧ tag ≤ 0x4b ∧ t < n ∧ i < 256
  | _ => False

def codeTargetRefs : Target → Nat
  | .localVar _ tbl => 2 * tbl.length
  | .offset _ _ => 1
  | .offsetArg _ _ _ => 1
  | _ => 0

def SCodeTypeAnno.encode (pos : Nat → Nat) (a : SCodeTypeAnno) : Bytes :=
  encCodeTarget pos a.target ++ encTypePath a.path ++ a.anno.encode

def SCodeTypeAnno.Legal (p : Pool) (n : Nat) (a : SCodeTypeAnno) : Prop :=
  codeTargetOk n a.target ∧ typePathOk a.path ∧ a.anno.Ok p

def SCodeTypeAnno.fact (a : SCodeTypeAnno) : TypeAnno := ⟨a.target, a.path, a.anno.fact⟩

/-- the attributes of `Code` inside the proved fragment, in file order; `nameCp` is the pool index of the attribute name -/
inductive SCodeAttr where
  | frames (nameCp : Nat) (fs : List SFrame)
  | lines (nameCp : Nat) (entries : List (Nat × Nat))
  | lvt (nameCp : Nat) (entries : List SLv)
  | lvtt (nameCp : Nat) (entries : List SLv)
  /-- `RuntimeVisibleTypeAnnotations` (`visible`) / `RuntimeInvisibleTypeAnnotations` -/
  | typeAnnos (nameCp : Nat) (visible : Bool) (as : List SCodeTypeAnno)
  | unknown (nameCp : Nat) (name : JStr) (bytes : Bytes)
  deriving Inhabited

def SCodeAttr.isFrames : SCodeAttr → Bool
  | .frames _ _ => true
  | _ => false

structure CodeLayout where
  maxStack : Nat
  maxLocals : Nat
  insns : List SInsn
  exceptions : List SException
  attrs : List SCodeAttr
  deriving Inhabited

def SException.encode (pos : Nat → Nat) (e : SException) : Bytes :=
  be16 (pos e.start) ++ be16 (pos e.end_) ++ be16 (pos e.handler) ++ be16 e.catchCp

def SLv.encode (pos : Nat → Nat) (v : SLv) : Bytes :=
  be16 (pos v.start) ++ be16 (pos v.end_ - pos v.start) ++ be16 v.nameCp ++ be16 v.descCp ++ be16 v.index

/-- `attribute_name_index`, `attribute_length`, body -/
def attrFrame (nameCp : Nat) (body : Bytes) : Bytes := be16 nameCp ++ be32 body.length ++ body

def SVType.encode (pos : Nat → Nat) : SVType → Bytes
  | .top => [0] | .int => [1] | .float => [2] | .double => [3] | .long => [4] | .null => [5] | .uninitThis => [6]
  | .object cp _ => 7 :: be16 cp
  | .uninit t => 8 :: be16 (pos t)

/-- `offset_delta` of a frame at offset `off` when the previous frame (if any) is at offset `prev` -/
def frameDelta (prev : Option Nat) (off : Nat) : Nat :=
  match prev with
  | none => off
  | some p => off - p - 1

def SFrame.encode (pos : Nat → Nat) (prev : Option Nat) (f : SFrame) : Bytes :=
  let d := frameDelta prev (pos f.at_)
  match f.kind with
  | .same => if f.ext then 251 :: be16 d else [d]
  | .same1 v => if f.ext then 247 :: (be16 d ++ v.encode pos) else (64 + d) :: v.encode pos
  | .chop k => (251 - k) :: be16 d
  | .append vs => (251 + vs.length) :: (be16 d ++ vs.flatMap (SVType.encode pos))
  | .full ls ss => 255 :: (be16 d ++ (be16 ls.length ++ ls.flatMap (SVType.encode pos)) ++ (be16 ss.length ++ ss.flatMap (SVType.encode pos)))

def encFrames (pos : Nat → Nat) : Option Nat → List SFrame → Bytes
  | _, [] => []
  | prev, f :: fs => f.encode pos prev ++ encFrames pos (some (pos f.at_)) fs

def SCodeAttr.encode (pos : Nat → Nat) : SCodeAttr → Bytes
  | .frames n fs => attrFrame n (be16 fs.length ++ encFrames pos none fs)
  | .lines n es => attrFrame n (be16 es.length ++ es.flatMap (fun e => be16 (pos e.1) ++ be16 e.2))
  | .lvt n es => attrFrame n (be16 es.length ++ es.flatMap (SLv.encode pos))
  | .lvtt n es => attrFrame n (be16 es.length ++ es.flatMap (SLv.encode pos))
  | .typeAnnos n _ as => attrFrame n (be16 as.length ++ as.flatMap (SCodeTypeAnno.encode pos))
  | .unknown n _ b => attrFrame n b

def CodeLayout.pos (c : CodeLayout) : Nat → Nat := codePos c.insns

/-- the body of the `Code` attribute -/
def CodeLayout.encode (c : CodeLayout) : Bytes :=
  be16 c.maxStack ++ be16 c.maxLocals ++ be32 (c.pos c.insns.length) ++ encInsns c.pos c.insns 0
    ++ be16 c.exceptions.length ++ c.exceptions.flatMap (SException.encode c.pos)
    ++ be16 c.attrs.length ++ c.attrs.flatMap (SCodeAttr.encode c.pos)

/-- names the reader gives a meaning to inside `Code`; an `unknown` attribute must not use one of them -/
def codeAttrNames : List JStr :=
  [sStackMapTable, sStackMap, sLineNumberTable, sLocalVariableTable, sLocalVariableTypeTable, sRVTA, sRITA]

def SException.Legal (p : Pool) (n : Nat) (e : SException) : Prop :=
  e.start < n ∧ e.end_ ≤ n ∧ e.handler < n ∧ e.catchCp < 65536 ∧ p.getOptional e.catchCp Pool.getClass = .ok e.catch_

def SLv.Legal (p : Pool) (n : Nat) (v : SLv) : Prop :=
  v.start < n ∧ v.start ≤ v.end_ ∧ v.end_ ≤ n ∧ v.nameCp < 65536 ∧ v.descCp < 65536 ∧ v.index < 65536 ∧
    p.getUtf8 v.nameCp = .ok v.name ∧ validUnqualified v.name = true ∧ p.getUtf8 v.descCp = .ok v.desc

def SVType.Legal (p : Pool) (n : Nat) : SVType → Prop
  | .object cp c => cp < 65536 ∧ p.getClass cp = .ok c
  | .uninit t => t < n
  | _ => True

def SFrameKind.Legal (p : Pool) (n : Nat) : SFrameKind → Prop
  | .same => True
  | .same1 v => v.Legal p n
  | .chop k => 1 ≤ k ∧ k ≤ 3
  | .append vs => 1 ≤ vs.length ∧ vs.length ≤ 3 ∧ ∀ v ∈ vs, v.Legal p n
  | .full ls ss => ls.length < 65536 ∧ ss.length < 65536 ∧ (∀ v ∈ ls, v.Legal p n) ∧ ∀ v ∈ ss, v.Legal p n

/-- frames describe strictly increasing instructions; the compact forms need `offset_delta ≤ 63` -/
def framesLegal (p : Pool) (n : Nat) (pos : Nat → Nat) : Option Nat → List SFrame → Prop
  | _, [] => True
  | prev, f :: fs =>
    f.at_ < n ∧ (match prev with | none => True | some i => i < f.at_) ∧ f.kind.Legal p n ∧
      (f.ext = false → frameDelta (prev.map pos) (pos f.at_) ≤ 63) ∧ framesLegal p n pos (some f.at_) fs

def SCodeAttr.Legal (p : Pool) (n : Nat) (pos : Nat → Nat) : SCodeAttr → Prop
  | .frames nc fs => nc < 65536 ∧ p.getUtf8 nc = .ok sStackMapTable ∧ fs.length < 65536 ∧ framesLegal p n pos none fs ∧
      (be16 fs.length ++ encFrames pos none fs).length < 4294967296
  | .lines nc es => nc < 65536 ∧ p.getUtf8 nc = .ok sLineNumberTable ∧ es.length < 65536 ∧ ∀ e ∈ es, e.1 < n ∧ e.2 < 65536
  | .lvt nc es => nc < 65536 ∧ p.getUtf8 nc = .ok sLocalVariableTable ∧ es.length < 65536 ∧ ∀ e ∈ es, e.Legal p n
  | .lvtt nc es => nc < 65536 ∧ p.getUtf8 nc = .ok sLocalVariableTypeTable ∧ es.length < 65536 ∧ ∀ e ∈ es, e.Legal p n
  | .typeAnnos nc visible as => nc < 65536 ∧ p.getUtf8 nc = .ok (if visible then sRVTA else sRITA) ∧ as.length < 65536 ∧
      (∀ a ∈ as, a.Legal p n) ∧ (be16 as.length ++ as.flatMap (SCodeTypeAnno.encode pos)).length < 4294967296
  | .unknown nc name b => nc < 65536 ∧ p.getUtf8 nc = .ok name ∧ name ∉ codeAttrNames ∧ b.length < 4294967296

/-- number of label look-ups an attribute causes (bounds the label counter) -/
def SVType.labelRefs : SVType → Nat
  | .uninit _ => 1
  | _ => 0

def SFrameKind.labelRefs : SFrameKind → Nat
  | .same1 v => v.labelRefs
  | .append vs => (vs.map SVType.labelRefs).sum
  | .full ls ss => (ls.map SVType.labelRefs).sum + (ss.map SVType.labelRefs).sum
  | _ => 0

def SCodeAttr.labelRefs : SCodeAttr → Nat
  | .frames _ fs => (fs.map (fun f => f.kind.labelRefs + 1)).sum
  | .lines _ es => es.length
  | .lvt _ es => 2 * es.length
  | .lvtt _ es => 2 * es.length
  | .typeAnnos _ _ as => (as.map (fun a => codeTargetRefs a.target)).sum
  | .unknown _ _ _ => 0

def CodeLayout.labelRefs (c : CodeLayout) : Nat :=
  (c.insns.map (fun si => (targetsOf si.insn).length)).sum + 3 * c.exceptions.length + (c.attrs.map SCodeAttr.labelRefs).sum

structure CodeLayout.Legal (p : Pool) (bsms : Option (List Bsm)) (c : CodeLayout) : Prop where
  code : CodeLegal p bsms c.insns
  maxStack : c.maxStack < 65536
  maxLocals : c.maxLocals < 65536
  nExc : c.exceptions.length < 65536
  exc : ∀ e ∈ c.exceptions, e.Legal p c.insns.length
  nAttrs : c.attrs.length < 65536
  attrs : ∀ a ∈ c.attrs, a.Legal p c.insns.length c.pos
  /-- at most one `StackMapTable` -/
  oneFrames : (c.attrs.filter SCodeAttr.isFrames).length ≤ 1
  /-- the reader numbers labels in a `u16`: fewer than 65535 label references (a method with more panics the reader) -/
  refs : c.labelRefs < 65535

/-! ### what the layout denotes: the label-free description of the method body -/

def SLv.fact (typeTable : Bool) (v : SLv) : Lv :=
  if typeTable then ⟨v.start, v.end_, v.name, none, some v.desc, v.index⟩ else ⟨v.start, v.end_, v.name, some v.desc, none, v.index⟩

/-- line table delivered for the attributes seen so far (`none` until the first `LineNumberTable`) -/
def linesOf : List SCodeAttr → Option (List (Nat × Nat))
  | [] => none
  | .lines _ es :: r => some (es ++ (linesOf r).getD [])
  | _ :: r => linesOf r

def localsOf : List SCodeAttr → Option (List Lv)
  | [] => none
  | .lvt _ es :: r => some (es.map (SLv.fact false) ++ (localsOf r).getD [])
  | .lvtt _ es :: r => some (es.map (SLv.fact true) ++ (localsOf r).getD [])
  | _ :: r => localsOf r

/-- the type annotations of the given visibility, concatenated in file order -/
def typeAnnosOf (visible : Bool) : List SCodeAttr → List TypeAnno
  | [] => []
  | .typeAnnos _ v as :: r => (if v = visible then as.map SCodeTypeAnno.fact else []) ++ typeAnnosOf visible r
  | _ :: r => typeAnnosOf visible r

def unknownsOf : List SCodeAttr → List Attr
  | [] => []
  | .unknown _ name b :: r => ⟨name, b⟩ :: unknownsOf r
  | _ :: r => unknownsOf r

def SVType.fact : SVType → VType
  | .top => .top | .int => .int | .float => .float | .double => .double | .long => .long | .null => .null
  | .uninitThis => .uninitThis
  | .object _ c => .object c
  | .uninit t => .uninit t

def SFrameKind.fact : SFrameKind → Frame
  | .same => .same
  | .same1 v => .same1 v.fact
  | .chop k => .chop k
  | .append vs => .append (vs.map SVType.fact)
  | .full ls ss => .full (ls.map SVType.fact) (ss.map SVType.fact)

/-- the frames of the (at most one) `StackMapTable` -/
def framesOf : List SCodeAttr → List SFrame
  | [] => []
  | .frames _ fs :: _ => fs
  | _ :: r => framesOf r

/-- instruction entries from index `k` on; `rem` = the frames not yet attached, in increasing order of the instruction
they describe: a frame is attached to the instruction whose index it names -/
def factEntries : List SFrame → Nat → List SInsn → List InsnEntry
  | _, _, [] => []
  | [], k, si :: r => ⟨none, none, si.insn⟩ :: factEntries [] (k + 1) r
  | f :: rest, k, si :: r =>
    if f.at_ = k then ⟨none, some f.kind.fact, si.insn⟩ :: factEntries rest (k + 1) r
    else ⟨none, none, si.insn⟩ :: factEntries (f :: rest) (k + 1) r

/-- the facts: instructions with their targets as instruction indices and their frames, no label carriers -/
def CodeLayout.facts (c : CodeLayout) : Code :=
  { maxStack := c.maxStack, maxLocals := c.maxLocals,
    insns := factEntries (framesOf c.attrs) 0 c.insns,
    exceptions := c.exceptions.map (fun e => ⟨e.start, e.end_, e.handler, e.catch_⟩),
    lastLabel := none,
    lines := linesOf c.attrs, locals := localsOf c.attrs, rvta := typeAnnosOf true c.attrs,
    ritva := typeAnnosOf false c.attrs, attrs := unknownsOf c.attrs }

/-! ## constant pool -/

/-- `cp_info` (JVMS §4.4) -/
def encPoolEntry : PoolEntry → Bytes
  | .utf8 s => 1 :: (be16 (Mutf8.encode s).length ++ Mutf8.encode s)
  | .int v => 3 :: be32 (ofI32 v)
  | .float b => 4 :: be32 b
  | .long v => 5 :: be64 (ofI64 v)
  | .double b => 6 :: be64 b
  | .cls i => 7 :: be16 i
  | .str i => 8 :: be16 i
  | .fieldRef c n => 9 :: (be16 c ++ be16 n)
  | .methodRef c n => 10 :: (be16 c ++ be16 n)
  | .ifaceMethodRef c n => 11 :: (be16 c ++ be16 n)
  | .nameAndType n d => 12 :: (be16 n ++ be16 d)
  | .methodHandle k i => 15 :: k :: be16 i
  | .methodType d => 16 :: be16 d
  | .dynamic b n => 17 :: (be16 b ++ be16 n)
  | .invokeDynamic b n => 18 :: (be16 b ++ be16 n)
  | .module i => 19 :: be16 i
  | .package i => 20 :: be16 i

/-- `Long` and `Double` take two slots -/
def poolSlots : PoolEntry → Nat
  | .long _ => 2
  | .double _ => 2
  | _ => 1

def inI64 (v : Int) : Prop := -9223372036854775808 ≤ v ∧ v < 9223372036854775808

/-- the fields of an entry fit their widths; strings are encodable and shorter than 65536 bytes -/
def PoolEntryOk : PoolEntry → Prop
  | .utf8 s => Mutf8.Encodable s = true ∧ (Mutf8.encode s).length < 65536
  | .int v => inI32 v
  | .float b => b < 4294967296
  | .long v => inI64 v
  | .double b => b < 18446744073709551616
  | .cls i => i < 65536
  | .str i => i < 65536
  | .fieldRef c n => c < 65536 ∧ n < 65536
  | .methodRef c n => c < 65536 ∧ n < 65536
  | .ifaceMethodRef c n => c < 65536 ∧ n < 65536
  | .nameAndType n d => n < 65536 ∧ d < 65536
  | .methodHandle k i => k < 256 ∧ i < 65536
  | .methodType d => d < 65536
  | .dynamic b n => b < 65536 ∧ n < 65536
  | .invokeDynamic b n => b < 65536 ∧ n < 65536
  | .module i => i < 65536
  | .package i => i < 65536

/-- the slots the entries occupy, after slot 0 -/
def poolSlotsOf (es : List PoolEntry) : List (Option PoolEntry) :=
  es.flatMap (fun e => if poolSlots e = 2 then [some e, none] else [some e])

/-- the indexable table a list of entries denotes: slot 0 and the slot after a `Long`/`Double` are unusable -/
def poolTable (es : List PoolEntry) : Pool := none :: poolSlotsOf es

def poolCount (es : List PoolEntry) : Nat := 1 + (es.map poolSlots).sum

/-- `constant_pool_count` and the entries -/
def encPool (es : List PoolEntry) : Bytes := be16 (poolCount es) ++ es.flatMap encPoolEntry

/-! ## type annotations outside `Code` (JVMS §4.7.20) -/

/-- who owns the attribute: decides which `target_type`s are admissible -/
inductive Owner where
  | cls | field | method
  deriving DecidableEq, Repr, Inhabited

/-- `target_type` and `target_info` -/
def encTarget : Target → Bytes
  | .typeParam tag i => [tag, i]
  | .extends_ => 0x10 :: be16 65535
  | .implements i => 0x10 :: be16 i
  | .typeParamBound tag a b => [tag, a, b]
  | .field => [0x13]
  | .ret => [0x14]
  | .receiver => [0x15]
  | .formalParam i => [0x16, i]
  | .throws i => 0x17 :: be16 i
  | _ => []

/-- the targets an owner admits, with operands fitting their fields -/
def targetOk : Owner → Target → Prop
  | .cls, .typeParam tag i => tag = 0x00 ∧ i < 256
  | .cls, .extends_ => True
  | .cls, .implements i => i < 65535
  | .cls, .typeParamBound tag a b => tag = 0x11 ∧ a < 256 ∧ b < 256
  | .field, .field => True
  | .method, .typeParam tag i => tag = 0x01 ∧ i < 256
  | .method, .typeParamBound tag a b => tag = 0x12 ∧ a < 256 ∧ b < 256
  | .method, .ret => True
  | .method, .receiver => True
  | .method, .formalParam i => i < 256
  | .method, .throws i => i < 65536
  | _, _ => False

structure STypeAnno where
  target : Target
  path : List (Nat × Nat)
  anno : SAnno
  deriving Inhabited

def STypeAnno.encode (a : STypeAnno) : Bytes := encTarget a.target ++ encTypePath a.path ++ a.anno.encode

def STypeAnno.Legal (p : Pool) (o : Owner) (a : STypeAnno) : Prop := targetOk o a.target ∧ typePathOk a.path ∧ a.anno.Ok p

def STypeAnno.fact (a : STypeAnno) : TypeAnno := ⟨a.target, a.path, a.anno.fact⟩

def encTypeAnnos (as : List STypeAnno) : Bytes := be16 as.length ++ as.flatMap STypeAnno.encode

/-- a `Runtime(In)VisibleTypeAnnotations` attribute of the given owner -/
def typeAnnosLegal (p : Pool) (o : Owner) (nc : Nat) (visible : Bool) (as : List STypeAnno) : Prop :=
  nc < 65536 ∧ p.getUtf8 nc = .ok (if visible then sRVTA else sRITA) ∧ as.length < 65536 ∧ (∀ a ∈ as, a.Legal p o) ∧
    (encTypeAnnos as).length < 4294967296

/-! ## attributes of fields, methods and the class; the class file -/

/-- `attributes_count` and the attributes, each framed by name index and length -/
def encAttrs (as : List (Nat × Bytes)) : Bytes := be16 as.length ++ as.flatMap (fun a => attrFrame a.1 a.2)

/-- names with a meaning on a field -/
def fieldAttrNames : List JStr := [sDeprecated, sSynthetic, sConstantValue, sSignature, sRVA, sRIA, sRVTA, sRITA]
/-- names with a meaning on a method -/
def methodAttrNames : List JStr :=
  [sDeprecated, sSynthetic, sCode, sExceptions, sSignature, sRVA, sRIA, sRVTA, sRITA, sRVPA, sRIPA, sAnnotationDefault, sMethodParameters]
/-- names with a meaning on a class -/
def classAttrNames : List JStr :=
  [sDeprecated, sSynthetic, sInnerClasses, sEnclosingMethod, sSignature, sSourceFile, sSourceDebugExtension, sRVA, sRIA, sRVTA,
   sRITA, sModule, sModulePackages, sModuleMainClass, sNestHost, sNestMembers, sPermittedSubclasses, sRecord, sBootstrapMethods]

/-- a `Runtime(In)VisibleAnnotations` attribute: name, every annotation legal, body fits `attribute_length` -/
def annosLegal (p : Pool) (nc : Nat) (visible : Bool) (as : List SAnno) : Prop :=
  nc < 65536 ∧ p.getUtf8 nc = .ok (if visible then sRVA else sRIA) ∧ as.length < 65536 ∧ (∀ a ∈ as, a.Ok p) ∧
    (encAnnos as).length < 4294967296

/-- field attributes of the proved fragment (`nc` = pool index of the attribute name) -/
inductive SFieldAttr where
  | deprecated (nc : Nat)
  | synthetic (nc : Nat)
  | constantValue (nc cp : Nat) (v : ConstantValue)
  | signature (nc cp : Nat) (sig : JStr)
  /-- `RuntimeVisibleAnnotations` (`visible`) / `RuntimeInvisibleAnnotations` -/
  | annotations (nc : Nat) (visible : Bool) (as : List SAnno)
  | typeAnnotations (nc : Nat) (visible : Bool) (as : List STypeAnno)
  | unknown (nc : Nat) (name : JStr) (bytes : Bytes)
  deriving Inhabited

def SFieldAttr.raw : SFieldAttr → Nat × Bytes
  | .deprecated nc => (nc, [])
  | .synthetic nc => (nc, [])
  | .constantValue nc cp _ => (nc, be16 cp)
  | .signature nc cp _ => (nc, be16 cp)
  | .annotations nc _ as => (nc, encAnnos as)
  | .typeAnnotations nc _ as => (nc, encTypeAnnos as)
  | .unknown nc _ b => (nc, b)

def SFieldAttr.Legal (p : Pool) : SFieldAttr → Prop
  | .deprecated nc => nc < 65536 ∧ p.getUtf8 nc = .ok sDeprecated
  | .synthetic nc => nc < 65536 ∧ p.getUtf8 nc = .ok sSynthetic
  | .constantValue nc cp v => nc < 65536 ∧ p.getUtf8 nc = .ok sConstantValue ∧ cp < 65536 ∧ p.getConstantValue cp = .ok v
  | .signature nc cp sig => nc < 65536 ∧ p.getUtf8 nc = .ok sSignature ∧ cp < 65536 ∧ p.getUtf8 cp = .ok sig
  | .annotations nc visible as => annosLegal p nc visible as
  | .typeAnnotations nc visible as => typeAnnosLegal p .field nc visible as
  | .unknown nc name b => nc < 65536 ∧ p.getUtf8 nc = .ok name ∧ name ∉ fieldAttrNames ∧ b.length < 4294967296

/-- what an attribute adds to the description of the field; `none`: a second `ConstantValue` / `Signature` -/
def SFieldAttr.apply (f : FieldFacts) : SFieldAttr → Option FieldFacts
  | .deprecated _ => some { f with deprecated := true }
  | .synthetic _ => some { f with synthetic := true }
  | .constantValue _ _ v => if f.constant.isNone then some { f with constant := some v } else none
  | .signature _ _ sig => if f.signature.isNone then some { f with signature := some sig } else none
  | .annotations _ visible as =>
    if visible then some { f with rva := f.rva ++ as.map SAnno.fact } else some { f with ria := f.ria ++ as.map SAnno.fact }
  | .typeAnnotations _ visible as =>
    if visible then some { f with rvta := f.rvta ++ as.map STypeAnno.fact } else some { f with rita := f.rita ++ as.map STypeAnno.fact }
  | .unknown _ name b => some { f with attrs := f.attrs ++ [⟨name, b⟩] }

def mapOpt {α β : Type} (f : α → Option β) : List α → Option (List β)
  | [] => some []
  | a :: r => match f a, mapOpt f r with
    | some b, some bs => some (b :: bs)
    | _, _ => none

def applyAll {σ α : Type} (step : σ → α → Option σ) : σ → List α → Option σ
  | st, [] => some st
  | st, a :: as => match step st a with
    | some st' => applyAll step st' as
    | none => none

structure FieldLayout where
  access : Nat
  nameCp : Nat
  name : JStr
  descCp : Nat
  desc : JStr
  attrs : List SFieldAttr
  deriving Inhabited

def FieldLayout.encode (f : FieldLayout) : Bytes :=
  be16 f.access ++ be16 f.nameCp ++ be16 f.descCp ++ encAttrs (f.attrs.map SFieldAttr.raw)

def FieldLayout.Legal (p : Pool) (f : FieldLayout) : Prop :=
  f.access < 65536 ∧ f.nameCp < 65536 ∧ f.descCp < 65536 ∧ p.getUtf8 f.nameCp = .ok f.name ∧ validUnqualified f.name = true ∧
    p.getUtf8 f.descCp = .ok f.desc ∧ f.attrs.length < 65536 ∧ ∀ a ∈ f.attrs, a.Legal p

def FieldLayout.facts (f : FieldLayout) : Option FieldFacts :=
  applyAll SFieldAttr.apply ⟨f.access &&& maskField, f.name, f.desc, false, false, none, none, [], [], [], [], []⟩ f.attrs

/-- method attributes of the proved fragment -/
inductive SMethodAttr where
  | deprecated (nc : Nat)
  | synthetic (nc : Nat)
  | code (nc : Nat) (c : CodeLayout)
  | exceptions (nc : Nat) (cps : List Nat) (names : List JStr)
  | signature (nc cp : Nat) (sig : JStr)
  | annotations (nc : Nat) (visible : Bool) (as : List SAnno)
  | typeAnnotations (nc : Nat) (visible : Bool) (as : List STypeAnno)
  | annotationDefault (nc : Nat) (e : SElem)
  /-- `MethodParameters`: (name index, name, access flags) -/
  | methodParameters (nc : Nat) (ps : List (Nat × Option JStr × Nat))
  | unknown (nc : Nat) (name : JStr) (bytes : Bytes)
  deriving Inhabited

def SMethodAttr.raw : SMethodAttr → Nat × Bytes
  | .deprecated nc => (nc, [])
  | .synthetic nc => (nc, [])
  | .code nc c => (nc, c.encode)
  | .exceptions nc cps _ => (nc, be16 cps.length ++ cps.flatMap be16)
  | .signature nc cp _ => (nc, be16 cp)
  | .annotations nc _ as => (nc, encAnnos as)
  | .typeAnnotations nc _ as => (nc, encTypeAnnos as)
  | .annotationDefault nc e => (nc, e.encode)
  | .methodParameters nc ps => (nc, be8 ps.length ++ ps.flatMap (fun q => be16 q.1 ++ be16 q.2.2))
  | .unknown nc _ b => (nc, b)

def SMethodAttr.Legal (p : Pool) (bsms : Option (List Bsm)) : SMethodAttr → Prop
  | .deprecated nc => nc < 65536 ∧ p.getUtf8 nc = .ok sDeprecated
  | .synthetic nc => nc < 65536 ∧ p.getUtf8 nc = .ok sSynthetic
  | .code nc c => nc < 65536 ∧ p.getUtf8 nc = .ok sCode ∧ c.Legal p bsms ∧ c.encode.length < 4294967296
  | .exceptions nc cps names => nc < 65536 ∧ p.getUtf8 nc = .ok sExceptions ∧ cps.length < 65536 ∧ cps.length = names.length ∧
      ∀ x ∈ cps.zip names, x.1 < 65536 ∧ p.getClass x.1 = .ok x.2
  | .signature nc cp sig => nc < 65536 ∧ p.getUtf8 nc = .ok sSignature ∧ cp < 65536 ∧ p.getUtf8 cp = .ok sig
  | .annotations nc visible as => annosLegal p nc visible as
  | .typeAnnotations nc visible as => typeAnnosLegal p .method nc visible as
  | .annotationDefault nc e => nc < 65536 ∧ p.getUtf8 nc = .ok sAnnotationDefault ∧ e.Ok p ∧ e.encode.length < 4294967296
  | .methodParameters nc ps => nc < 65536 ∧ p.getUtf8 nc = .ok sMethodParameters ∧ ps.length < 256 ∧
      ∀ q ∈ ps, q.1 < 65536 ∧ q.2.2 < 65536 ∧
        p.getOptional q.1 (fun p i => do let n ← p.getUtf8 i; checked validUnqualified n) = .ok q.2.1
  | .unknown nc name b => nc < 65536 ∧ p.getUtf8 nc = .ok name ∧ name ∉ methodAttrNames ∧ b.length < 4294967296

def SMethodAttr.apply (m : MethodFacts) : SMethodAttr → Option MethodFacts
  | .deprecated _ => some { m with deprecated := true }
  | .synthetic _ => some { m with synthetic := true }
  | .code _ c => if m.code.isNone then some { m with code := some c.facts } else none
  | .exceptions _ _ names => if m.exceptions.isNone then some { m with exceptions := some names } else none
  | .signature _ _ sig => if m.signature.isNone then some { m with signature := some sig } else none
  | .annotations _ visible as =>
    if visible then some { m with rva := m.rva ++ as.map SAnno.fact } else some { m with ria := m.ria ++ as.map SAnno.fact }
  | .typeAnnotations _ visible as =>
    if visible then some { m with rvta := m.rvta ++ as.map STypeAnno.fact } else some { m with rita := m.rita ++ as.map STypeAnno.fact }
  | .annotationDefault _ e => some { m with annotationDefault := some e.fact }
  | .methodParameters _ ps =>
    if m.params.isNone then some { m with params := some (ps.map fun q => ⟨q.2.1, q.2.2 &&& maskParam⟩) } else none
  | .unknown _ name b => some { m with attrs := m.attrs ++ [⟨name, b⟩] }

structure MethodLayout where
  access : Nat
  nameCp : Nat
  name : JStr
  descCp : Nat
  desc : JStr
  attrs : List SMethodAttr
  deriving Inhabited

def MethodLayout.encode (m : MethodLayout) : Bytes :=
  be16 m.access ++ be16 m.nameCp ++ be16 m.descCp ++ encAttrs (m.attrs.map SMethodAttr.raw)

def MethodLayout.Legal (p : Pool) (bsms : Option (List Bsm)) (m : MethodLayout) : Prop :=
  m.access < 65536 ∧ m.nameCp < 65536 ∧ m.descCp < 65536 ∧ p.getUtf8 m.nameCp = .ok m.name ∧ validMethodName m.name = true ∧
    p.getUtf8 m.descCp = .ok m.desc ∧ m.attrs.length < 65536 ∧ ∀ a ∈ m.attrs, a.Legal p bsms

def MethodLayout.facts (m : MethodLayout) : Option MethodFacts :=
  applyAll SMethodAttr.apply
    ⟨m.access &&& maskMethod, m.name, m.desc, false, false, none, none, none, [], [], [], [], none, none, []⟩ m.attrs

/-- one `InnerClasses` entry with the pool indices used -/
structure SInner where
  innerCp : Nat
  inner : JStr
  outerCp : Nat
  outer : Option JStr
  nameCp : Nat
  name : Option JStr
  flags : Nat
  deriving Inhabited

/-- one bootstrap method: handle index, the handle it resolves to, raw argument indices -/
structure SBsm where
  handleCp : Nat
  handle : Handle
  args : List Nat
  deriving Inhabited

/-- attributes of a record component inside the proved fragment -/
inductive SRecordAttr where
  | signature (nc cp : Nat) (sig : JStr)
  | annotations (nc : Nat) (visible : Bool) (as : List SAnno)
  | typeAnnotations (nc : Nat) (visible : Bool) (as : List STypeAnno)
  | unknown (nc : Nat) (name : JStr) (bytes : Bytes)
  deriving Inhabited

/-- names with a meaning on a record component -/
def recordAttrNames : List JStr := [sSignature, sRVA, sRIA, sRVTA, sRITA]

def SRecordAttr.raw : SRecordAttr → Nat × Bytes
  | .signature nc cp _ => (nc, be16 cp)
  | .annotations nc _ as => (nc, encAnnos as)
  | .typeAnnotations nc _ as => (nc, encTypeAnnos as)
  | .unknown nc _ b => (nc, b)

def SRecordAttr.Legal (p : Pool) : SRecordAttr → Prop
  | .signature nc cp sig => nc < 65536 ∧ p.getUtf8 nc = .ok sSignature ∧ cp < 65536 ∧ p.getUtf8 cp = .ok sig
  | .annotations nc visible as => annosLegal p nc visible as
  | .typeAnnotations nc visible as => typeAnnosLegal p .field nc visible as
  | .unknown nc name b => nc < 65536 ∧ p.getUtf8 nc = .ok name ∧ name ∉ recordAttrNames ∧ b.length < 4294967296

def SRecordAttr.apply (c : RecordComponent) : SRecordAttr → Option RecordComponent
  | .signature _ _ sig => if c.signature.isNone then some { c with signature := some sig } else none
  | .annotations _ visible as =>
    if visible then some { c with rva := c.rva ++ as.map SAnno.fact } else some { c with ria := c.ria ++ as.map SAnno.fact }
  | .typeAnnotations _ visible as =>
    if visible then some { c with rvta := c.rvta ++ as.map STypeAnno.fact } else some { c with rita := c.rita ++ as.map STypeAnno.fact }
  | .unknown _ name b => some { c with attrs := c.attrs ++ [⟨name, b⟩] }

structure RecordLayout where
  nameCp : Nat
  name : JStr
  descCp : Nat
  desc : JStr
  attrs : List SRecordAttr
  deriving Inhabited

def RecordLayout.encode (c : RecordLayout) : Bytes :=
  be16 c.nameCp ++ be16 c.descCp ++ encAttrs (c.attrs.map SRecordAttr.raw)

def RecordLayout.Legal (p : Pool) (c : RecordLayout) : Prop :=
  c.nameCp < 65536 ∧ c.descCp < 65536 ∧ p.getUtf8 c.nameCp = .ok c.name ∧ p.getUtf8 c.descCp = .ok c.desc ∧
    c.attrs.length < 65536 ∧ ∀ a ∈ c.attrs, a.Legal p

def RecordLayout.facts (c : RecordLayout) : Option RecordComponent :=
  applyAll SRecordAttr.apply ⟨c.name, c.desc, none, [], [], [], [], []⟩ c.attrs

/-- `requires` entry: module index/name, flags, version index/version -/
structure SRequires where
  cp : Nat
  name : JStr
  flags : Nat
  vcp : Nat
  version : Option JStr
  deriving Inhabited

/-- `exports` / `opens` entry: package index/name, flags, target modules -/
structure SExports where
  cp : Nat
  name : JStr
  flags : Nat
  to : List (Nat × JStr)
  deriving Inhabited

/-- `provides` entry: service class, implementations -/
structure SProvides where
  cp : Nat
  name : JStr
  with_ : List (Nat × JStr)
  deriving Inhabited

structure SModule where
  cp : Nat
  name : JStr
  flags : Nat
  vcp : Nat
  version : Option JStr
  requires : List SRequires
  exports : List SExports
  opens : List SExports
  uses : List (Nat × JStr)
  provides : List SProvides
  deriving Inhabited

def encRefs (xs : List (Nat × JStr)) : Bytes := be16 xs.length ++ xs.flatMap (fun x => be16 x.1)

def SRequires.encode (r : SRequires) : Bytes := be16 r.cp ++ be16 r.flags ++ be16 r.vcp
def SExports.encode (e : SExports) : Bytes := be16 e.cp ++ be16 e.flags ++ encRefs e.to
def SProvides.encode (e : SProvides) : Bytes := be16 e.cp ++ encRefs e.with_

def SModule.encode (m : SModule) : Bytes :=
  be16 m.cp ++ be16 m.flags ++ be16 m.vcp ++ (be16 m.requires.length ++ m.requires.flatMap SRequires.encode)
    ++ (be16 m.exports.length ++ m.exports.flatMap SExports.encode) ++ (be16 m.opens.length ++ m.opens.flatMap SExports.encode)
    ++ encRefs m.uses ++ (be16 m.provides.length ++ m.provides.flatMap SProvides.encode)

/-- a `u2` count followed by that many pool indices, each resolving through `get` to the listed value -/
def refsLegal (get : Nat → Outcome JStr) (xs : List (Nat × JStr)) : Prop :=
  xs.length < 65536 ∧ ∀ x ∈ xs, x.1 < 65536 ∧ get x.1 = .ok x.2

def SRequires.Legal (p : Pool) (r : SRequires) : Prop :=
  r.cp < 65536 ∧ r.flags < 65536 ∧ r.vcp < 65536 ∧ p.getModule r.cp = .ok r.name ∧ p.getOptional r.vcp Pool.getUtf8 = .ok r.version

def SExports.Legal (p : Pool) (e : SExports) : Prop :=
  e.cp < 65536 ∧ e.flags < 65536 ∧ p.getPackage e.cp = .ok e.name ∧ refsLegal p.getModule e.to

def SProvides.Legal (p : Pool) (e : SProvides) : Prop :=
  e.cp < 65536 ∧ p.getClass e.cp = .ok e.name ∧ refsLegal p.getClass e.with_

def SModule.Legal (p : Pool) (m : SModule) : Prop :=
  m.cp < 65536 ∧ m.flags < 65536 ∧ m.vcp < 65536 ∧ p.getModule m.cp = .ok m.name ∧ p.getOptional m.vcp Pool.getUtf8 = .ok m.version ∧
    m.requires.length < 65536 ∧ (∀ r ∈ m.requires, r.Legal p) ∧ m.exports.length < 65536 ∧ (∀ e ∈ m.exports, e.Legal p) ∧
    m.opens.length < 65536 ∧ (∀ e ∈ m.opens, e.Legal p) ∧ refsLegal p.getClass m.uses ∧
    m.provides.length < 65536 ∧ (∀ e ∈ m.provides, e.Legal p)

def SModule.fact (m : SModule) : Module :=
  { name := m.name, flags := m.flags &&& maskModule, version := m.version,
    requires := m.requires.map (fun r => ⟨r.name, r.flags &&& maskRequires, r.version⟩),
    exports := m.exports.map (fun e => ⟨e.name, e.flags &&& maskExports, e.to.map (·.2)⟩),
    opens := m.opens.map (fun e => ⟨e.name, e.flags &&& maskExports, e.to.map (·.2)⟩),
    uses := m.uses.map (·.2),
    provides := m.provides.map (fun e => ⟨e.name, e.with_.map (·.2)⟩) }

/-- class attributes of the proved fragment -/
inductive SClassAttr where
  | deprecated (nc : Nat)
  | synthetic (nc : Nat)
  | sourceFile (nc cp : Nat) (s : JStr)
  | signature (nc cp : Nat) (sig : JStr)
  | innerClasses (nc : Nat) (es : List SInner)
  | enclosingMethod (nc clsCp : Nat) (cls : JStr) (mCp : Nat) (m : Option (JStr × JStr))
  | nestHost (nc cp : Nat) (c : JStr)
  | nestMembers (nc : Nat) (cps : List Nat) (names : List JStr)
  | permittedSubclasses (nc : Nat) (cps : List Nat) (names : List JStr)
  | bootstrapMethods (nc : Nat) (ms : List SBsm)
  | annotations (nc : Nat) (visible : Bool) (as : List SAnno)
  | typeAnnotations (nc : Nat) (visible : Bool) (as : List STypeAnno)
  | sourceDebugExtension (nc : Nat) (s : JStr)
  | record (nc : Nat) (comps : List RecordLayout)
  | module (nc : Nat) (m : SModule)
  | modulePackages (nc : Nat) (ps : List (Nat × JStr))
  | moduleMainClass (nc cp : Nat) (c : JStr)
  | unknown (nc : Nat) (name : JStr) (bytes : Bytes)
  deriving Inhabited

def SInner.encode (e : SInner) : Bytes := be16 e.innerCp ++ be16 e.outerCp ++ be16 e.nameCp ++ be16 e.flags
def SBsm.encode (m : SBsm) : Bytes := be16 m.handleCp ++ be16 m.args.length ++ m.args.flatMap be16

def SClassAttr.raw : SClassAttr → Nat × Bytes
  | .deprecated nc => (nc, [])
  | .synthetic nc => (nc, [])
  | .sourceFile nc cp _ => (nc, be16 cp)
  | .signature nc cp _ => (nc, be16 cp)
  | .innerClasses nc es => (nc, be16 es.length ++ es.flatMap SInner.encode)
  | .enclosingMethod nc clsCp _ mCp _ => (nc, be16 clsCp ++ be16 mCp)
  | .nestHost nc cp _ => (nc, be16 cp)
  | .nestMembers nc cps _ => (nc, be16 cps.length ++ cps.flatMap be16)
  | .permittedSubclasses nc cps _ => (nc, be16 cps.length ++ cps.flatMap be16)
  | .bootstrapMethods nc ms => (nc, be16 ms.length ++ ms.flatMap SBsm.encode)
  | .annotations nc _ as => (nc, encAnnos as)
  | .typeAnnotations nc _ as => (nc, encTypeAnnos as)
  | .sourceDebugExtension nc s => (nc, Mutf8.encode s)
  | .record nc comps => (nc, be16 comps.length ++ comps.flatMap RecordLayout.encode)
  | .module nc m => (nc, m.encode)
  | .modulePackages nc ps => (nc, encRefs ps)
  | .moduleMainClass nc cp _ => (nc, be16 cp)
  | .unknown nc _ b => (nc, b)

def SInner.Legal (p : Pool) (e : SInner) : Prop :=
  e.innerCp < 65536 ∧ e.outerCp < 65536 ∧ e.nameCp < 65536 ∧ e.flags < 65536 ∧ p.getClass e.innerCp = .ok e.inner ∧
    p.getOptional e.outerCp Pool.getClass = .ok e.outer ∧ p.getOptional e.nameCp Pool.getUtf8 = .ok e.name

def SBsm.Legal (p : Pool) (m : SBsm) : Prop :=
  m.handleCp < 65536 ∧ p.getMethodHandle m.handleCp = .ok m.handle ∧ m.args.length < 65536 ∧ ∀ a ∈ m.args, a < 65536

def classRefsLegal (p : Pool) (cps : List Nat) (names : List JStr) : Prop :=
  cps.length < 65536 ∧ cps.length = names.length ∧ ∀ x ∈ cps.zip names, x.1 < 65536 ∧ p.getClass x.1 = .ok x.2

def SClassAttr.Legal (p : Pool) : SClassAttr → Prop
  | .deprecated nc => nc < 65536 ∧ p.getUtf8 nc = .ok sDeprecated
  | .synthetic nc => nc < 65536 ∧ p.getUtf8 nc = .ok sSynthetic
  | .sourceFile nc cp s => nc < 65536 ∧ p.getUtf8 nc = .ok sSourceFile ∧ cp < 65536 ∧ p.getUtf8 cp = .ok s
  | .signature nc cp sig => nc < 65536 ∧ p.getUtf8 nc = .ok sSignature ∧ cp < 65536 ∧ p.getUtf8 cp = .ok sig
  | .innerClasses nc es => nc < 65536 ∧ p.getUtf8 nc = .ok sInnerClasses ∧ es.length < 65536 ∧ ∀ e ∈ es, e.Legal p
  | .enclosingMethod nc clsCp cls mCp m => nc < 65536 ∧ p.getUtf8 nc = .ok sEnclosingMethod ∧ clsCp < 65536 ∧ mCp < 65536 ∧
      p.getClass clsCp = .ok cls ∧ p.getOptional mCp Pool.getMethodNameAndType = .ok m
  | .nestHost nc cp c => nc < 65536 ∧ p.getUtf8 nc = .ok sNestHost ∧ cp < 65536 ∧ p.getClass cp = .ok c
  | .nestMembers nc cps names => nc < 65536 ∧ p.getUtf8 nc = .ok sNestMembers ∧ classRefsLegal p cps names
  | .permittedSubclasses nc cps names => nc < 65536 ∧ p.getUtf8 nc = .ok sPermittedSubclasses ∧ classRefsLegal p cps names
  | .bootstrapMethods nc ms => nc < 65536 ∧ p.getUtf8 nc = .ok sBootstrapMethods ∧ ms.length < 65536 ∧ (∀ m ∈ ms, m.Legal p) ∧
      (be16 ms.length ++ ms.flatMap SBsm.encode).length < 4294967296
  | .annotations nc visible as => annosLegal p nc visible as
  | .typeAnnotations nc visible as => typeAnnosLegal p .cls nc visible as
  | .sourceDebugExtension nc s => nc < 65536 ∧ p.getUtf8 nc = .ok sSourceDebugExtension ∧ Mutf8.Encodable s = true ∧
      (Mutf8.encode s).length < 4294967296
  | .record nc comps => nc < 65536 ∧ p.getUtf8 nc = .ok sRecord ∧ comps.length < 65536 ∧ (∀ c ∈ comps, c.Legal p) ∧
      (be16 comps.length ++ comps.flatMap RecordLayout.encode).length < 4294967296
  | .module nc m => nc < 65536 ∧ p.getUtf8 nc = .ok sModule ∧ m.Legal p ∧ m.encode.length < 4294967296
  | .modulePackages nc ps => nc < 65536 ∧ p.getUtf8 nc = .ok sModulePackages ∧ refsLegal p.getPackage ps
  | .moduleMainClass nc cp c => nc < 65536 ∧ p.getUtf8 nc = .ok sModuleMainClass ∧ cp < 65536 ∧ p.getClass cp = .ok c
  | .unknown nc name b => nc < 65536 ∧ p.getUtf8 nc = .ok name ∧ name ∉ classAttrNames ∧ b.length < 4294967296

/-- the description of the class so far, the bootstrap table, and whether a `Record` attribute was seen -/
abbrev ClassAcc := ClassFacts × Option (List Bsm) × Bool

def SClassAttr.apply (st : ClassAcc) : SClassAttr → Option ClassAcc
  | .deprecated _ => some ({ st.1 with deprecated := true }, st.2)
  | .synthetic _ => some ({ st.1 with synthetic := true }, st.2)
  | .sourceFile _ _ s => if st.1.sourceFile.isNone then some ({ st.1 with sourceFile := some s }, st.2) else none
  | .signature _ _ s => if st.1.signature.isNone then some ({ st.1 with signature := some s }, st.2) else none
  | .innerClasses _ es =>
    if st.1.innerClasses.isNone then
      some ({ st.1 with innerClasses := some (es.map fun e => ⟨e.inner, e.outer, e.name, e.flags &&& maskInner⟩) }, st.2)
    else none
  | .enclosingMethod _ _ cls _ m =>
    if st.1.enclosingMethod.isNone then some ({ st.1 with enclosingMethod := some (cls, m) }, st.2) else none
  | .nestHost _ _ c => if st.1.nestHost.isNone then some ({ st.1 with nestHost := some c }, st.2) else none
  | .nestMembers _ _ names => if st.1.nestMembers.isNone then some ({ st.1 with nestMembers := some names }, st.2) else none
  | .permittedSubclasses _ _ names =>
    if st.1.permittedSubclasses.isNone then some ({ st.1 with permittedSubclasses := some names }, st.2) else none
  | .bootstrapMethods _ ms => if st.2.1.isNone then some (st.1, some (ms.map fun m => ⟨m.handle, m.args⟩), st.2.2) else none
  | .annotations _ visible as =>
    if visible then some ({ st.1 with rva := st.1.rva ++ as.map SAnno.fact }, st.2)
    else some ({ st.1 with ria := st.1.ria ++ as.map SAnno.fact }, st.2)
  | .typeAnnotations _ visible as =>
    if visible then some ({ st.1 with rvta := st.1.rvta ++ as.map STypeAnno.fact }, st.2)
    else some ({ st.1 with rita := st.1.rita ++ as.map STypeAnno.fact }, st.2)
  | .sourceDebugExtension _ s =>
    if st.1.sourceDebugExtension.isNone then some ({ st.1 with sourceDebugExtension := some s }, st.2) else none
  | .record _ comps =>
    if st.2.2 then none
    else match mapOpt RecordLayout.facts comps with
      | some cs => some ({ st.1 with recordComponents := st.1.recordComponents ++ cs }, st.2.1, true)
      | none => none
  | .module _ m => if st.1.module.isNone then some ({ st.1 with module := some m.fact }, st.2) else none
  | .modulePackages _ ps =>
    if st.1.modulePackages.isNone then some ({ st.1 with modulePackages := some (ps.map (·.2)) }, st.2) else none
  | .moduleMainClass _ _ c =>
    if st.1.moduleMainClass.isNone then some ({ st.1 with moduleMainClass := some c }, st.2) else none
  | .unknown _ name b => some ({ st.1 with attrs := st.1.attrs ++ [⟨name, b⟩] }, st.2)

structure ClassLayout where
  minor : Nat
  major : Nat
  pool : List PoolEntry
  access : Nat
  thisCp : Nat
  name : JStr
  superCp : Nat
  super : Option JStr
  interfaces : List (Nat × JStr)
  fields : List FieldLayout
  methods : List MethodLayout
  attrs : List SClassAttr
  deriving Inhabited

/-- the `ClassFile` structure (JVMS §4.1) -/
def ClassLayout.encode (c : ClassLayout) : Bytes :=
  be32 0xCAFEBABE ++ be16 c.minor ++ be16 c.major ++ encPool c.pool ++ be16 c.access ++ be16 c.thisCp ++ be16 c.superCp
    ++ be16 c.interfaces.length ++ c.interfaces.flatMap (fun i => be16 i.1)
    ++ be16 c.fields.length ++ c.fields.flatMap FieldLayout.encode
    ++ be16 c.methods.length ++ c.methods.flatMap MethodLayout.encode
    ++ encAttrs (c.attrs.map SClassAttr.raw)

def ClassLayout.base (c : ClassLayout) : ClassFacts :=
  { minor := c.minor, major := c.major, access := c.access &&& maskClass, name := c.name, super := c.super,
    interfaces := c.interfaces.map (·.2), fields := [], methods := [], deprecated := false, synthetic := false,
    innerClasses := none, enclosingMethod := none, signature := none, sourceFile := none,
    sourceDebugExtension := none, rva := [], ria := [], rvta := [], rita := [], module := none,
    modulePackages := none, moduleMainClass := none, nestHost := none, nestMembers := none,
    permittedSubclasses := none, recordComponents := [], attrs := [] }

/-- the label-free facts the layout denotes (`none`: a single-instance attribute occurs twice) -/
def ClassLayout.facts (c : ClassLayout) : Option ClassFacts :=
  match applyAll SClassAttr.apply (c.base, none, false) c.attrs, mapOpt FieldLayout.facts c.fields, mapOpt MethodLayout.facts c.methods with
  | some (cf, _), some fs, some ms => some { cf with fields := fs, methods := ms }
  | _, _, _ => none

/-- the bootstrap table the class attributes establish -/
def ClassLayout.bsms (c : ClassLayout) : Option (List Bsm) :=
  match applyAll SClassAttr.apply (c.base, none, false) c.attrs with
  | some (_, b, _) => b
  | none => none

structure ClassLayout.Legal (c : ClassLayout) : Prop where
  version : c.minor < 65536 ∧ c.major < 65536 ∧ (c.major < 67 ∨ (c.major = 67 ∧ c.minor = 0))
  poolOk : ∀ e ∈ c.pool, PoolEntryOk e
  poolCount : poolCount c.pool < 65536
  access : c.access < 65536
  this : c.thisCp < 65536 ∧ (poolTable c.pool).getObjClass c.thisCp = .ok c.name
  super : c.superCp < 65536 ∧ (poolTable c.pool).getOptional c.superCp Pool.getObjClass = .ok c.super
  nInterfaces : c.interfaces.length < 65536
  interfaces : ∀ i ∈ c.interfaces, i.1 < 65536 ∧ (poolTable c.pool).getObjClass i.1 = .ok i.2
  nFields : c.fields.length < 65536
  fields : ∀ f ∈ c.fields, f.Legal (poolTable c.pool)
  nMethods : c.methods.length < 65536
  methods : ∀ m ∈ c.methods, m.Legal (poolTable c.pool) c.bsms
  nAttrs : c.attrs.length < 65536
  attrs : ∀ a ∈ c.attrs, a.Legal (poolTable c.pool)
  /-- single-instance attributes occur at most once -/
  unique : c.facts.isSome = true

end Spec
end ClassRead
