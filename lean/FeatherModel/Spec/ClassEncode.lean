import FeatherModel.Model.ClassRead

/-!
# C01 — specification side: the JVMS encoding of a `Code` attribute as a function of free *choices*

Independent of the reader (it only shares the *types* of the facts).  A method body is described by
`CodeLayout`: the instructions with branch targets given as **instruction indices**, and for every instruction
the encoding choices that do not change its meaning:

* `form`: `short` (`xload_<n>`, `ldc`), `plain` (`xload n`, `ldc_w`, `goto`, `iinc`), `wide` (`wide xload`, `ldc2_w`,
  `goto_w`, `jsr_w`, `wide iinc`, `wide ret`);
* `cp`: which constant-pool index is used for the symbolic operand (any index that resolves to it: pool order,
  duplicates and unused entries are therefore free);
* `pad`: the value of the 0–3 padding bytes of a switch (their number is forced by the position) and of the `count`
  byte of `invokeinterface`.

`encode` lays the instructions out (JVMS §6.5), computes every offset from the positions this very layout
produces, then the exception table and the attributes of `Code` in the chosen order.
-/

namespace ClassRead
namespace Spec

inductive Form where
  | short | plain | wide
  deriving DecidableEq, Repr, Inhabited

structure SInsn where
  insn : Insn
  form : Form
  cp : Nat
  pad : Nat
  deriving Inhabited

/-- number of padding bytes of a switch whose opcode is at offset `at` -/
def padLen (at_ : Nat) : Nat := 3 - at_ % 4

/-- encoded size of an instruction placed at offset `at` -/
def SInsn.size (at_ : Nat) (si : SInsn) : Nat :=
  match si.insn, si.form with
  | .simple _, _ => 1
  | .bipush _, _ => 2
  | .sipush _, _ => 3
  | .ldc _, .short => 2
  | .ldc _, _ => 3
  | .load _ _, .short => 1
  | .load _ _, .plain => 2
  | .load _ _, .wide => 4
  | .store _ _, .short => 1
  | .store _ _, .plain => 2
  | .store _ _, .wide => 4
  | .iinc _ _, .wide => 6
  | .iinc _ _, _ => 3
  | .branch _ _, _ => 3
  | .goto _, .wide => 5
  | .goto _, _ => 3
  | .jsr _, .wide => 5
  | .jsr _, _ => 3
  | .ret _, .wide => 4
  | .ret _, _ => 2
  | .tableswitch _ _ _ tbl, _ => 1 + padLen at_ + 12 + 4 * tbl.length
  | .lookupswitch _ pairs, _ => 1 + padLen at_ + 8 + 8 * pairs.length
  | .field _ _, _ => 3
  | .invokevirtual _, _ => 3
  | .invokespecial _ _, _ => 3
  | .invokestatic _ _, _ => 3
  | .invokeinterface _, _ => 5
  | .invokedynamic _, _ => 5
  | .new _, _ => 3
  | .newarray _, _ => 2
  | .anewarray _, _ => 3
  | .checkcast _, _ => 3
  | .instanceof _, _ => 3
  | .multianewarray _ _, _ => 4

/-- offset reached after laying out `xs` from offset `at` -/
def endPos : List SInsn → Nat → Nat
  | [], at_ => at_
  | x :: xs, at_ => endPos xs (at_ + x.size at_)

/-- offset of instruction `i` (`i = length`: the code length) -/
def codePos (insns : List SInsn) (i : Nat) : Nat := endPos (insns.take i) 0

/-- signed offset from the instruction at `at` to instruction `t` -/
def relOff (pos : Nat → Nat) (at_ t : Nat) : Int := (pos t : Int) - (at_ : Int)

/-- bytes of one instruction placed at offset `at`; `pos` gives the offset of every instruction -/
def SInsn.encode (pos : Nat → Nat) (at_ : Nat) (si : SInsn) : Bytes :=
  match si.insn, si.form with
  | .simple op, _ => [op]
  | .bipush v, _ => [0x10, ofI8 v]
  | .sipush v, _ => 0x11 :: be16 (ofI16 v)
  | .ldc _, .short => [0x12, si.cp]
  | .ldc _, .plain => 0x13 :: be16 si.cp
  | .ldc _, .wide => 0x14 :: be16 si.cp
  | .load k i, .short => [0x1a + k * 4 + i]
  | .load k i, .plain => [0x15 + k, i]
  | .load k i, .wide => [0xc4, 0x15 + k] ++ be16 i
  | .store k i, .short => [0x3b + k * 4 + i]
  | .store k i, .plain => [0x36 + k, i]
  | .store k i, .wide => [0xc4, 0x36 + k] ++ be16 i
  | .iinc i v, .wide => [0xc4, 0x84] ++ be16 i ++ be16 (ofI16 v)
  | .iinc i v, _ => [0x84, i, ofI8 v]
  | .branch op t, _ => op :: be16 (ofI16 (relOff pos at_ t))
  | .goto t, .wide => 0xc8 :: be32 (ofI32 (relOff pos at_ t))
  | .goto t, _ => 0xa7 :: be16 (ofI16 (relOff pos at_ t))
  | .jsr t, .wide => 0xc9 :: be32 (ofI32 (relOff pos at_ t))
  | .jsr t, _ => 0xa8 :: be16 (ofI16 (relOff pos at_ t))
  | .ret i, .wide => [0xc4, 0xa9] ++ be16 i
  | .ret i, _ => [0xa9, i]
  | .tableswitch d lo hi tbl, _ =>
    0xaa :: List.replicate (padLen at_) si.pad ++ be32 (ofI32 (relOff pos at_ d)) ++ be32 (ofI32 lo) ++ be32 (ofI32 hi)
      ++ tbl.flatMap (fun t => be32 (ofI32 (relOff pos at_ t)))
  | .lookupswitch d pairs, _ =>
    0xab :: List.replicate (padLen at_) si.pad ++ be32 (ofI32 (relOff pos at_ d)) ++ be32 pairs.length
      ++ pairs.flatMap (fun kt => be32 (ofI32 kt.1) ++ be32 (ofI32 (relOff pos at_ kt.2)))
  | .field op _, _ => op :: be16 si.cp
  | .invokevirtual _, _ => 0xb6 :: be16 si.cp
  | .invokespecial _ _, _ => 0xb7 :: be16 si.cp
  | .invokestatic _ _, _ => 0xb8 :: be16 si.cp
  | .invokeinterface _, _ => 0xb9 :: be16 si.cp ++ [si.pad, 0]
  | .invokedynamic _, _ => 0xba :: be16 si.cp ++ [0, 0]
  | .new _, _ => 0xbb :: be16 si.cp
  | .newarray a, _ => [0xbc, a]
  | .anewarray _, _ => 0xbd :: be16 si.cp
  | .checkcast _, _ => 0xc0 :: be16 si.cp
  | .instanceof _, _ => 0xc1 :: be16 si.cp
  | .multianewarray _ d, _ => 0xc5 :: be16 si.cp ++ [d]

/-- the code array: instructions one after the other -/
def encInsns (pos : Nat → Nat) : List SInsn → Nat → Bytes
  | [], _ => []
  | x :: xs, at_ => x.encode pos at_ ++ encInsns pos xs (at_ + x.size at_)

def inI8 (v : Int) : Prop := -128 ≤ v ∧ v < 128
def inI16 (v : Int) : Prop := -32768 ≤ v ∧ v < 32768
def inI32 (v : Int) : Prop := -2147483648 ≤ v ∧ v < 2147483648

/-- the choices made for an instruction are admissible: the form can hold the operands, the pool index resolves to
the symbolic operand, targets exist.  `n` = number of instructions. -/
def SInsn.Legal (p : Pool) (bsms : Option (List Bsm)) (n : Nat) (pos : Nat → Nat) (at_ : Nat) (si : SInsn) : Prop :=
  match si.insn, si.form with
  | .simple op, _ => isSimpleOp op = true
  | .bipush v, _ => inI8 v
  | .sipush v, _ => inI16 v
  | .ldc k, .short => si.cp < 256 ∧ p.getLoadable bsms si.cp = .ok k
  | .ldc k, _ => si.cp < 65536 ∧ p.getLoadable bsms si.cp = .ok k
  | .load k i, .short => k < 5 ∧ i < 4
  | .load k i, .plain => k < 5 ∧ i < 256
  | .load k i, .wide => k < 5 ∧ i < 65536
  | .store k i, .short => k < 5 ∧ i < 4
  | .store k i, .plain => k < 5 ∧ i < 256
  | .store k i, .wide => k < 5 ∧ i < 65536
  | .iinc i v, .wide => i < 65536 ∧ inI16 v
  | .iinc i v, .plain => i < 256 ∧ inI8 v
  | .iinc _ _, .short => False
  | .branch op t, _ => isCondBranchOp op = true ∧ t < n ∧ inI16 (relOff pos at_ t)
  | .goto t, .wide => t < n
  | .goto t, .plain => t < n ∧ inI16 (relOff pos at_ t)
  | .goto _, .short => False
  | .jsr t, .wide => t < n
  | .jsr t, .plain => t < n ∧ inI16 (relOff pos at_ t)
  | .jsr _, .short => False
  | .ret i, .wide => i < 65536
  | .ret i, .plain => i < 256
  | .ret _, .short => False
  | .tableswitch d lo hi tbl, _ =>
    d < n ∧ (∀ t ∈ tbl, t < n) ∧ inI32 lo ∧ inI32 hi ∧ lo ≤ hi ∧ (tbl.length : Int) = hi - lo + 1 ∧ tbl.length < 16384 ∧ si.pad < 256
  | .lookupswitch d pairs, _ =>
    d < n ∧ (∀ kt ∈ pairs, kt.2 < n ∧ inI32 kt.1) ∧ pairs.length < 8192 ∧ si.pad < 256
  | .field op r, _ => 0xb2 ≤ op ∧ op ≤ 0xb5 ∧ si.cp < 65536 ∧ p.getFieldRef si.cp = .ok r
  | .invokevirtual m, _ => si.cp < 65536 ∧ p.getMethodRef si.cp = .ok m
  | .invokespecial m itf, _ => si.cp < 65536 ∧ p.getMethodRefOrInterface si.cp = .ok (m, itf)
  | .invokestatic m itf, _ => si.cp < 65536 ∧ p.getMethodRefOrInterface si.cp = .ok (m, itf)
  | .invokeinterface m, _ => si.cp < 65536 ∧ p.getInterfaceMethodRef si.cp = .ok m ∧ si.pad < 256
  | .invokedynamic d, _ => si.cp < 65536 ∧ ∃ d', p.getInvokeDynamic bsms si.cp = .ok d' ∧ d' = d
  | .new c, _ => si.cp < 65536 ∧ p.getClass si.cp = .ok c
  | .newarray a, _ => 4 ≤ a ∧ a ≤ 11
  | .anewarray c, _ => si.cp < 65536 ∧ p.getClass si.cp = .ok c
  | .checkcast c, _ => si.cp < 65536 ∧ p.getClass si.cp = .ok c
  | .instanceof c, _ => si.cp < 65536 ∧ p.getClass si.cp = .ok c
  | .multianewarray c d, _ => si.cp < 65536 ∧ p.getClass si.cp = .ok c ∧ d < 256

/-- branch targets of an instruction, in the order the first pass of the reader meets them -/
def targetsOf : Insn → List Nat
  | .branch _ t => [t]
  | .goto t => [t]
  | .jsr t => [t]
  | .tableswitch d _ _ tbl => d :: tbl
  | .lookupswitch d pairs => d :: pairs.map (·.2)
  | _ => []

/-- rename the targets of an instruction -/
def mapT (f : Nat → Nat) : Insn → Insn
  | .branch op t => .branch op (f t)
  | .goto t => .goto (f t)
  | .jsr t => .jsr (f t)
  | .tableswitch d lo hi tbl => .tableswitch (f d) lo hi (tbl.map f)
  | .lookupswitch d pairs => .lookupswitch (f d) (pairs.map fun kt => (kt.1, f kt.2))
  | i => i

/-! ## the whole `Code` attribute -/

/-- all instructions of a method are legally encoded; the code array is non-empty and shorter than 65536 bytes -/
structure CodeLegal (p : Pool) (bsms : Option (List Bsm)) (insns : List SInsn) : Prop where
  nonempty : 0 < insns.length
  small : codePos insns insns.length ≤ 65535
  legal : ∀ i (h : i < insns.length), insns[i].Legal p bsms insns.length (codePos insns) (codePos insns i)

/-- exception table entry: protected range `[start, end_)` (`end_` may be the number of instructions = end of the
code), handler, and the pool index of the caught class (0 = any) -/
structure SException where
  start : Nat
  end_ : Nat
  handler : Nat
  catchCp : Nat
  catch_ : Option JStr
  deriving Inhabited

/-- one `LocalVariableTable` / `LocalVariableTypeTable` entry: live range `[start, end_)` in instructions -/
structure SLv where
  start : Nat
  end_ : Nat
  nameCp : Nat
  name : JStr
  descCp : Nat
  desc : JStr
  index : Nat
  deriving Inhabited

/-- the attributes of `Code` inside the proved fragment, in file order; `nameCp` is the pool index of the attribute name -/
inductive SCodeAttr where
  | lines (nameCp : Nat) (entries : List (Nat × Nat))
  | lvt (nameCp : Nat) (entries : List SLv)
  | lvtt (nameCp : Nat) (entries : List SLv)
  | unknown (nameCp : Nat) (name : JStr) (bytes : Bytes)
  deriving Inhabited

structure CodeLayout where
  maxStack : Nat
  maxLocals : Nat
  insns : List SInsn
  exceptions : List SException
  attrs : List SCodeAttr
  deriving Inhabited

def SException.encode (pos : Nat → Nat) (e : SException) : Bytes :=
  be16 (pos e.start) ++ be16 (pos e.end_) ++ be16 (pos e.handler) ++ be16 e.catchCp

def SLv.encode (pos : Nat → Nat) (v : SLv) : Bytes :=
  be16 (pos v.start) ++ be16 (pos v.end_ - pos v.start) ++ be16 v.nameCp ++ be16 v.descCp ++ be16 v.index

/-- `attribute_name_index`, `attribute_length`, body -/
def attrFrame (nameCp : Nat) (body : Bytes) : Bytes := be16 nameCp ++ be32 body.length ++ body

def SCodeAttr.encode (pos : Nat → Nat) : SCodeAttr → Bytes
  | .lines n es => attrFrame n (be16 es.length ++ es.flatMap (fun e => be16 (pos e.1) ++ be16 e.2))
  | .lvt n es => attrFrame n (be16 es.length ++ es.flatMap (SLv.encode pos))
  | .lvtt n es => attrFrame n (be16 es.length ++ es.flatMap (SLv.encode pos))
  | .unknown n _ b => attrFrame n b

def CodeLayout.pos (c : CodeLayout) : Nat → Nat := codePos c.insns

/-- the body of the `Code` attribute -/
def CodeLayout.encode (c : CodeLayout) : Bytes :=
  be16 c.maxStack ++ be16 c.maxLocals ++ be32 (c.pos c.insns.length) ++ encInsns c.pos c.insns 0
    ++ be16 c.exceptions.length ++ c.exceptions.flatMap (SException.encode c.pos)
    ++ be16 c.attrs.length ++ c.attrs.flatMap (SCodeAttr.encode c.pos)

/-- names the reader gives a meaning to inside `Code`; an `unknown` attribute must not use one of them -/
def codeAttrNames : List JStr :=
  [sStackMapTable, sStackMap, sLineNumberTable, sLocalVariableTable, sLocalVariableTypeTable, sRVTA, sRITA]

def SException.Legal (p : Pool) (n : Nat) (e : SException) : Prop :=
  e.start < n ∧ e.end_ ≤ n ∧ e.handler < n ∧ e.catchCp < 65536 ∧ p.getOptional e.catchCp Pool.getClass = .ok e.catch_

def SLv.Legal (p : Pool) (n : Nat) (v : SLv) : Prop :=
  v.start < n ∧ v.start ≤ v.end_ ∧ v.end_ ≤ n ∧ v.nameCp < 65536 ∧ v.descCp < 65536 ∧ v.index < 65536 ∧
    p.getUtf8 v.nameCp = .ok v.name ∧ validUnqualified v.name = true ∧ p.getUtf8 v.descCp = .ok v.desc

def SCodeAttr.Legal (p : Pool) (n : Nat) : SCodeAttr → Prop
  | .lines nc es => nc < 65536 ∧ p.getUtf8 nc = .ok sLineNumberTable ∧ es.length < 65536 ∧ ∀ e ∈ es, e.1 < n ∧ e.2 < 65536
  | .lvt nc es => nc < 65536 ∧ p.getUtf8 nc = .ok sLocalVariableTable ∧ es.length < 65536 ∧ ∀ e ∈ es, e.Legal p n
  | .lvtt nc es => nc < 65536 ∧ p.getUtf8 nc = .ok sLocalVariableTypeTable ∧ es.length < 65536 ∧ ∀ e ∈ es, e.Legal p n
  | .unknown nc name b => nc < 65536 ∧ p.getUtf8 nc = .ok name ∧ name ∉ codeAttrNames ∧ b.length < 4294967296

/-- number of label look-ups an attribute causes (bounds the label counter) -/
def SCodeAttr.labelRefs : SCodeAttr → Nat
  | .lines _ es => es.length
  | .lvt _ es => 2 * es.length
  | .lvtt _ es => 2 * es.length
  | .unknown _ _ _ => 0

def CodeLayout.labelRefs (c : CodeLayout) : Nat :=
  (c.insns.map (fun si => (targetsOf si.insn).length)).sum + 3 * c.exceptions.length + (c.attrs.map SCodeAttr.labelRefs).sum

structure CodeLayout.Legal (p : Pool) (bsms : Option (List Bsm)) (c : CodeLayout) : Prop where
  code : CodeLegal p bsms c.insns
  maxStack : c.maxStack < 65536
  maxLocals : c.maxLocals < 65536
  nExc : c.exceptions.length < 65536
  exc : ∀ e ∈ c.exceptions, e.Legal p c.insns.length
  nAttrs : c.attrs.length < 65536
  attrs : ∀ a ∈ c.attrs, a.Legal p c.insns.length
  /-- the reader numbers labels in a `u16`: fewer than 65535 label references (a method with more panics the reader) -/
  refs : c.labelRefs < 65535

/-! ### what the layout denotes: the label-free description of the method body -/

def SLv.fact (typeTable : Bool) (v : SLv) : Lv :=
  if typeTable then ⟨v.start, v.end_, v.name, none, some v.desc, v.index⟩ else ⟨v.start, v.end_, v.name, some v.desc, none, v.index⟩

/-- line table delivered for the attributes seen so far (`none` until the first `LineNumberTable`) -/
def linesOf : List SCodeAttr → Option (List (Nat × Nat))
  | [] => none
  | .lines _ es :: r => some (es ++ (linesOf r).getD [])
  | _ :: r => linesOf r

def localsOf : List SCodeAttr → Option (List Lv)
  | [] => none
  | .lvt _ es :: r => some (es.map (SLv.fact false) ++ (localsOf r).getD [])
  | .lvtt _ es :: r => some (es.map (SLv.fact true) ++ (localsOf r).getD [])
  | _ :: r => localsOf r

def unknownsOf : List SCodeAttr → List Attr
  | [] => []
  | .unknown _ name b :: r => ⟨name, b⟩ :: unknownsOf r
  | _ :: r => unknownsOf r

/-- the facts: instructions with their targets as instruction indices, no label carriers -/
def CodeLayout.facts (c : CodeLayout) : Code :=
  { maxStack := c.maxStack, maxLocals := c.maxLocals,
    insns := c.insns.map (fun si => ⟨none, none, si.insn⟩),
    exceptions := c.exceptions.map (fun e => ⟨e.start, e.end_, e.handler, e.catch_⟩),
    lastLabel := none,
    lines := linesOf c.attrs, locals := localsOf c.attrs, rvta := [], ritva := [], attrs := unknownsOf c.attrs }

end Spec
end ClassRead
