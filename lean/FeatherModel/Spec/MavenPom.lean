import FeatherModel.Model.Maven
import FeatherModel.Spec.MavenScope

/-!
# Maven's rules for effective POMs and transitive dependencies, written as rules (C19)

Fuel-free reading of the model's recursive functions (`Eff`, `DepTreeOf`, `Resolves`: "some amount of fuel gives this
answer"; `Thm.C19.*_fuel_independent` show that the answer does not depend on the amount) and the rules they are proved
to satisfy, stated without any loop, stack or queue:

* **inheritance** (`inheritCoord`): a POM without `groupId` / `version` takes them from its parent's effective POM;
  `artifactId` and `packaging` are never inherited; a parent must have packaging `pom`; without a parent both must be
  present;
* **dependency management** (`Managed`): the POM's own `<dependencyManagement>` entries in declaration order, each
  `import`-scoped entry replaced by the effective dependency management of the BOM it names; then the parent's effective
  dependency management;
* **dependencies**: every own `<dependency>` completed from the first managed entry with the same
  (group, artifact, classifier, type) (`fillDep`: an omitted version / scope / optional flag is taken from it, an explicit
  one wins); then the parent's effective dependencies;
* **transitive dependencies** (`transitive`): a dependency is followed unless it is optional or the scope table says
  "omitted"; it is followed with the scope the table gives for (scope of the depending node, declared scope or `compile`).
-/

namespace Maven

/-! ## fuel-free relations -/

/-- `e` is the effective POM of `c`, read from repository `r` -/
def Eff (U : Universe) (rs : List Resolver) (c : Coord) (r : Resolver) (e : PomDone) : Prop :=
  ∃ n, getMergedPom U rs n c = .ok (r, e)

/-- `e` is the effective POM of `c` (whatever repository serves it) -/
def EffPom (U : Universe) (rs : List Resolver) (c : Coord) (e : PomDone) : Prop := ∃ r, Eff U rs c r e

/-- `t` is the full (unmediated) dependency tree of `c` required with scope `s` -/
def DepTreeOf (U : Universe) (rs : List Resolver) (c : Coord) (s : Scope) (t : Tree Found) : Prop :=
  ∃ n, depTree U rs n c s = .ok t

/-- `get_maven_dependencies` answers `l` -/
def Resolves (U : Universe) (rs : List Resolver) (roots : List (Coord × Scope)) (l : List Found) : Prop :=
  ∃ n, resolve U rs n roots = .ok l

/-! ## inheritance of coordinates -/

def parDM (par : Option PomDone) : List DepDone := (par.map (·.depMgmt)).getD []
def parDeps (par : Option PomDone) : List DepDone := (par.map (·.deps)).getD []

/-- the coordinate of a POM given its parent's effective POM -/
def inheritCoord (par : Option PomDone) (child : Pom) : Option Coord :=
  match par with
  | some p =>
    if p.coord.type_ = jstr "pom" then
      some { group := child.group.getD p.coord.group, artifact := child.artifact,
             version := child.version.getD p.coord.version, classifier := none,
             type_ := child.packaging.getD (jstr "jar") }
    else none
  | none =>
    match child.group, child.version with
    | some g, some v =>
      some { group := g, artifact := child.artifact, version := v, classifier := none,
             type_ := child.packaging.getD (jstr "jar") }
    | _, _ => none

/-! ## dependency management -/

/-- a managed entry that is not an import, as declared -/
def managedEntry (x : RawDep (Option Scope)) (v : JStr) : DepDone :=
  { coord := depCoord x.group x.artifact v x.type_ x.classifier, scope := x.scope.join, optional := x.optional }

/-- own `<dependencyManagement>` entries with imports expanded in place; `E` = "is the effective POM of" -/
inductive Managed (E : Coord → PomDone → Prop) : List (RawDep (Option Scope)) → List DepDone → Prop
  | nil : Managed E [] []
  | entry {x : RawDep (Option Scope)} {v : JStr} {rest : List (RawDep (Option Scope))} {r : List DepDone} :
      x.version = some v → x.scope ≠ some none → Managed E rest r → Managed E (x :: rest) (managedEntry x v :: r)
  | imp {x : RawDep (Option Scope)} {v : JStr} {rest : List (RawDep (Option Scope))} {r : List DepDone} {bom : PomDone} :
      x.version = some v → x.scope = some none → E (depCoord x.group x.artifact v x.type_ x.classifier) bom →
      Managed E rest r → Managed E (x :: rest) (bom.depMgmt ++ r)

/-- the parent's effective POM, if the POM names a parent -/
def ParentEff (E : Coord → PomDone → Prop) (pc : Option Coord) (par : Option PomDone) : Prop :=
  match pc with
  | none => par = none
  | some c => ∃ ep, par = some ep ∧ E c ep

/-- one application of Maven's effective-POM rule: the POM document of `c` comes from the first repository serving it,
everything else from the effective POMs (`E`) of its parent and of the BOMs it imports -/
def EffRule (U : Universe) (rs : List Resolver) (E : Coord → PomDone → Prop) (c : Coord) (r : Resolver) (e : PomDone) :
    Prop :=
  ∃ (pom : Pom) (par : Option PomDone) (own deps : List DepDone) (coord : Coord),
    tryGetPom U rs c = .ok (r, pom) ∧
    ParentEff E pom.parentCoord par ∧
    inheritCoord par pom = some coord ∧
    Managed E pom.depMgmt own ∧
    fillDeps (own ++ parDM par) pom.deps = some deps ∧
    e = { coord := coord, depMgmt := own ++ parDM par, deps := deps ++ parDeps par }

/-! ## transitive dependencies -/

def Scope.toSpec : Scope → Spec.MavenScope.S
  | .compile => .compile | .runtime => .runtime | .test => .test | .system => .system | .provided => .provided

def Scope.ofSpec : Spec.MavenScope.S → Scope
  | .compile => .compile | .runtime => .runtime | .test => .test | .system => .system | .provided => .provided

/-- the dependencies of an effective POM that are followed from a node of scope `scope`, with the scope they get:
optional ones and those the documented table omits are cut -/
def transitive (scope : Scope) (deps : List DepDone) : List (Coord × Scope) :=
  deps.filterMap fun d =>
    if d.optional = some true then none
    else (Spec.MavenScope.table scope.toSpec (d.scope.getD .compile).toSpec).map fun s => (d.coord, Scope.ofSpec s)

/-- trees built for a list of (coordinate, scope) requests, in order -/
inductive TreesFor (T : Coord → Scope → Tree Found → Prop) : List (Coord × Scope) → List (Tree Found) → Prop
  | nil : TreesFor T [] []
  | cons {c : Coord} {s : Scope} {t : Tree Found} {rest : List (Coord × Scope)} {ts : List (Tree Found)} :
      T c s t → TreesFor T rest ts → TreesFor T ((c, s) :: rest) (t :: ts)

/-- the dependency-tree rule: a node for the artifact itself, one subtree per followed dependency of its effective POM -/
def TreeRule (U : Universe) (rs : List Resolver) (T : Coord → Scope → Tree Found → Prop)
    (c : Coord) (s : Scope) (t : Tree Found) : Prop :=
  ∃ (r : Resolver) (e : PomDone) (cs : List (Tree Found)),
    Eff U rs c r e ∧ TreesFor T (transitive s e.deps) cs ∧
    t = .node { resolver := r, coord := c, scope := s } cs

/-! ## acyclic universes -/

/-- a rank function witnessing that what resolution may touch is acyclic: the rank decreases from a POM to the parent
it names, to the BOMs it imports, and from an artifact to the dependencies of its effective POM -/
structure Ranked (U : Universe) (rs : List Resolver) (rank : Coord → Nat) : Prop where
  parent : ∀ c r pom pc, tryGetPom U rs c = .ok (r, pom) → pom.parentCoord = some pc → rank pc < rank c
  imports : ∀ c r pom x v, tryGetPom U rs c = .ok (r, pom) → x ∈ pom.depMgmt → x.scope = some none →
    x.version = some v → rank (depCoord x.group x.artifact v x.type_ x.classifier) < rank c
  deps : ∀ c r e d, Eff U rs c r e → d ∈ e.deps → rank d.coord < rank c

end Maven
