import FeatherModel.Base.Sexp

/-!
# JVMS §4.3 descriptor grammar (specification, independent of any parser)

```
FieldDescriptor  := FieldType
FieldType        := BaseType | ObjectType | ArrayType
BaseType         := B | C | D | F | I | J | S | Z
ObjectType       := L ClassName ;
ArrayType        := [ ComponentType            ComponentType := FieldType
MethodDescriptor := ( ParameterDescriptor* ) ReturnDescriptor
ReturnDescriptor := FieldType | V
```
Strings are `JStr = List Nat` (code points). A `ClassName` inside `L…;` is any non-empty string without `;`
(JVMS additionally forbids `.` and `[`; nothing here depends on that, so the grammar below is the larger one).
The JVMS limit of 255 array dimensions is not imposed either.

The inductive types are the *derivation trees* of the grammar; `print` flattens a tree to its string. A string is in the
grammar iff it is `print d` for a well-formed tree `d` (`Desc.WF`: class names valid).

`parseField?` … are a *recogniser* used only by the drivers to decide oracle domains; its soundness w.r.t. the grammar
(`Lemmas/DescGrammar.lean`) is proved, the theorems of C06 never mention it.
-/

namespace Spec.Desc

def CH_L : Nat := 76
def SEMI : Nat := 59
def LBRACK : Nat := 91
def LPAREN : Nat := 40
def RPAREN : Nat := 41
def CH_V : Nat := 86

inductive Prim where
  | B | C | D | F | I | J | S | Z
  deriving Repr, DecidableEq, BEq

def Prim.char : Prim → Nat
  | .B => 66 | .C => 67 | .D => 68 | .F => 70 | .I => 73 | .J => 74 | .S => 83 | .Z => 90

inductive FieldTy where
  | prim (p : Prim)
  | obj (name : JStr)
  | arr (elem : FieldTy)
  deriving Repr, DecidableEq, BEq

structure MethodTy where
  params : List FieldTy
  /-- `none` = `V` -/
  ret : Option FieldTy
  deriving Repr, DecidableEq, BEq

/-- a field, method or return descriptor -/
inductive Desc where
  | field (t : FieldTy)
  | method (m : MethodTy)
  | ret (r : Option FieldTy)
  deriving Repr, DecidableEq, BEq

/-- `ClassName` of an `ObjectType`: non-empty, no `;` -/
def validName (n : JStr) : Prop := n ≠ [] ∧ SEMI ∉ n

instance (n : JStr) : Decidable (validName n) := by unfold validName; exact inferInstance

def FieldTy.WF : FieldTy → Prop
  | .prim _ => True
  | .obj n => validName n
  | .arr e => e.WF

def MethodTy.WF (m : MethodTy) : Prop :=
  (∀ p ∈ m.params, p.WF) ∧ (∀ r, m.ret = some r → r.WF)

def Desc.WF : Desc → Prop
  | .field t => t.WF
  | .method m => m.WF
  | .ret r => ∀ t, r = some t → t.WF

/-! ## printer -/

def printField : FieldTy → JStr
  | .prim p => [p.char]
  | .obj n => CH_L :: n ++ [SEMI]
  | .arr e => LBRACK :: printField e

def printReturn : Option FieldTy → JStr
  | none => [CH_V]
  | some t => printField t

def printParams : List FieldTy → JStr
  | [] => []
  | p :: ps => printField p ++ printParams ps

def printMethod (m : MethodTy) : JStr :=
  LPAREN :: printParams m.params ++ RPAREN :: printReturn m.ret

def print : Desc → JStr
  | .field t => printField t
  | .method m => printMethod m
  | .ret r => printReturn r

/-! ## renaming of class names (shape preserving by construction) -/

def FieldTy.map (f : JStr → JStr) : FieldTy → FieldTy
  | .prim p => .prim p
  | .obj n => .obj (f n)
  | .arr e => .arr (e.map f)

def MethodTy.map (f : JStr → JStr) (m : MethodTy) : MethodTy :=
  { params := m.params.map (FieldTy.map f), ret := m.ret.map (FieldTy.map f) }

def Desc.map (f : JStr → JStr) : Desc → Desc
  | .field t => .field (t.map f)
  | .method m => .method (m.map f)
  | .ret r => .ret (r.map (FieldTy.map f))

/-- the class names of a descriptor, left to right -/
def FieldTy.names : FieldTy → List JStr
  | .prim _ => []
  | .obj n => [n]
  | .arr e => e.names

def namesOfList : List FieldTy → List JStr
  | [] => []
  | p :: ps => p.names ++ namesOfList ps

def namesOfOpt : Option FieldTy → List JStr
  | none => []
  | some t => t.names

def Desc.names : Desc → List JStr
  | .field t => t.names
  | .method m => namesOfList m.params ++ namesOfOpt m.ret
  | .ret r => namesOfOpt r

/-! ## recogniser (driver side only) -/

def primOfChar (c : Nat) : Option Prim :=
  if c = 66 then some .B else if c = 67 then some .C else if c = 68 then some .D else if c = 70 then some .F
  else if c = 73 then some .I else if c = 74 then some .J else if c = 83 then some .S else if c = 90 then some .Z
  else none

/-- split at the first `;` -/
def splitSemi : List Nat → Option (List Nat × List Nat)
  | [] => none
  | c :: rest =>
    if c = SEMI then some ([], rest)
    else
      match splitSemi rest with
      | some (a, b) => some (c :: a, b)
      | none => none

/-- one `FieldType` at the front; returns the tree and the remaining input -/
def parseFieldPrefix : List Nat → Option (FieldTy × List Nat)
  | [] => none
  | c :: rest =>
    if c = LBRACK then
      match parseFieldPrefix rest with
      | some (t, r) => some (.arr t, r)
      | none => none
    else if c = CH_L then
      match splitSemi rest with
      | some (n, r) => if n = [] then none else some (.obj n, r)
      | none => none
    else
      match primOfChar c with
      | some p => some (.prim p, rest)
      | none => none

def parseField? (s : JStr) : Option FieldTy :=
  match parseFieldPrefix s with
  | some (t, []) => some t
  | _ => none

def parseReturn? (s : JStr) : Option (Option FieldTy) :=
  if s = [CH_V] then some none else (parseField? s).map some

/-- parameters up to and including `)`; fuel = input length suffices -/
def parseParams : Nat → List Nat → Option (List FieldTy × List Nat)
  | 0, _ => none
  | _ + 1, [] => none
  | fuel + 1, c :: rest =>
    if c = RPAREN then some ([], rest)
    else
      match parseFieldPrefix (c :: rest) with
      | none => none
      | some (t, r) =>
        match parseParams fuel r with
        | none => none
        | some (ts, r') => some (t :: ts, r')

def parseMethod? (s : JStr) : Option MethodTy :=
  match s with
  | [] => none
  | c :: rest =>
    if c = LPAREN then
      match parseParams (rest.length + 1) rest with
      | none => none
      | some (ps, r) =>
        match parseReturn? r with
        | none => none
        | some ret => some { params := ps, ret := ret }
    else none

/-- field, method or return descriptor (a field descriptor is also a return descriptor: reported as `field`) -/
def parse? (s : JStr) : Option Desc :=
  match parseMethod? s with
  | some m => some (.method m)
  | none =>
    match parseReturn? s with
    | some none => some (.ret none)
    | some (some t) => some (.field t)
    | none => none

end Spec.Desc
