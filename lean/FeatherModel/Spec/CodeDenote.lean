import FeatherModel.Model.CodeWrite
import FeatherModel.Spec.CodeDecode

/-!
# When does a decoded instruction sequence denote a list of model instructions?

`lp` is the label table (label ↦ address). A conditional jump may be denoted either by the same conditional branch
or by the *trampoline* `if<not cond> L; goto[_w] target; L:` where `L` is the address right after the `goto`.
-/

namespace CodeDenote
open CodeWrite CodeDecode

/-- label `t` designates address `a` -/
def lands (lp : Nat → Option Nat) (t : Nat) (a : Int) : Bool :=
  match lp t with
  | some p => (p : Int) == a
  | none => false

def landsAll (lp : Nat → Option Nat) : List Nat → List Int → Bool
  | [], [] => true
  | t :: ts, a :: as => lands lp t a && landsAll lp ts as
  | _, _ => false

def landsPairs (lp : Nat → Option Nat) : List (Int × Nat) → List (Int × Int) → Bool
  | [], [] => true
  | kt :: ts, ka :: as => (kt.1 == ka.1) && lands lp kt.2 ka.2 && landsPairs lp ts as
  | _, _ => false

/-- one decoded instruction denotes one model instruction -/
def denote1 (lp : Nat → Option Nat) : Insn → DInsn → Bool
  | .simple op, .simple op' => op == op'
  | .bipush v, .bipush v' => v == v'
  | .sipush v, .sipush v' => v == v'
  | .ldc idx false, .ldc idx' => idx == idx'
  | .ldc idx true, .ldc2 idx' => idx == idx'
  | .load k i, .load k' i' => k == k' && i == i'
  | .store k i, .store k' i' => k == k' && i == i'
  | .iinc i v, .iinc i' v' => i == i' && v == v'
  | .ret i, .ret i' => i == i'
  | .ifc c t, .ifc op a => (c.opcode == op) && lands lp t a
  | .goto t, .goto a => lands lp t a
  | .jsr t, .jsr a => lands lp t a
  | .tableswitch d lo hi tb, .tableswitch a lo' hi' os => lands lp d a && lo == lo' && hi == hi' && landsAll lp tb os
  | .lookupswitch d ps, .lookupswitch a ps' => lands lp d a && landsPairs lp ps ps'
  | .cp op i, .cp op' i' => op == op' && i == i'
  | .invokeinterface i desc, .invokeinterface i' c' => i == i' && (match argsSize desc with | .ok c => c == c' | _ => false)
  | .newarray t, .newarray t' => t == t'
  | .multianewarray i d, .multianewarray i' d' => i == i' && d == d'
  | .invokedynamic i, .invokedynamic i' => i == i'
  | _, _ => false

/-- the decoded items, starting with the one for instruction number `k`, denote the instructions `is`;
`pos` gives the address each instruction must start at -/
def matchAll (lp : Nat → Option Nat) (pos : Nat → Option Nat) : Nat → List Insn → List (Nat × Nat × DInsn) → Bool
  | _, [], [] => true
  | _, [], _ :: _ => false
  | _, _ :: _, [] => false
  | k, i :: is, (pc, len, d) :: ds =>
    pos k == some pc &&
    (if denote1 lp i d then matchAll lp pos (k + 1) is ds
     else
       match i, d, ds with
       | .ifc c t, .ifc op a, (pc2, len2, .goto g) :: ds' =>
         op == negIf c.opcode && pc2 == pc + len && a == ((pc2 + len2 : Nat) : Int) && lands lp t g &&
           matchAll lp pos (k + 1) is ds'
       | _, _, _ => false)

/-- the final bytes `fin` of instruction `i` at address `p` decode (whatever follows them) to an instruction denoting
`i`, or to the inverted-condition trampoline for `i` -/
inductive Decoded (lp : Nat → Option Nat) (p : Nat) (i : Insn) (fin : Bytes) : Prop
  | single (d : DInsn) : 1 ≤ fin.length → (∀ rest, decodeOne p (fin ++ rest) = some (d, fin.length)) →
      denote1 lp i d = true → Decoded lp p i fin
  | tramp (c : Cond) (t : Nat) (g : Int) : i = .ifc c t → fin.length = 8 →
      (∀ rest, decodeOne p (fin ++ rest) = some (.ifc (negIf c.opcode) ((p + 8 : Nat) : Int), 3)) →
      (∀ rest, decodeOne (p + 3) ((fin ++ rest).drop 3) = some (.goto g, 5)) →
      lands lp t g = true → Decoded lp p i fin

/-- operands fit the Rust types of the tree (`i8`, `i16`, `u16`, `i32`), the opcode of an operand-less instruction
is one (JVMS §6.5), local-variable kinds are `i l f d a` -/
def wt : Insn → Bool
  | .simple op => isSimple op
  | .bipush v => decide (-128 ≤ v) && decide (v ≤ 127)
  | .sipush v => decide (-32768 ≤ v) && decide (v ≤ 32767)
  | .ldc idx _ => decide (idx ≤ 65535)
  | .load k i => decide (k ≤ 4) && decide (i ≤ 65535)
  | .store k i => decide (k ≤ 4) && decide (i ≤ 65535)
  | .iinc i v => decide (i ≤ 65535) && decide (-32768 ≤ v) && decide (v ≤ 32767)
  | .ret i => decide (i ≤ 65535)
  | .ifc _ _ => true
  | .goto _ => true
  | .jsr _ => true
  | .tableswitch _ lo hi _ =>
    decide (-2147483648 ≤ lo) && decide (lo ≤ 2147483647) && decide (-2147483648 ≤ hi) && decide (hi ≤ 2147483647)
  | .lookupswitch _ ps => ps.all (fun kp => decide (-2147483648 ≤ kp.1) && decide (kp.1 ≤ 2147483647))
  | .cp op idx => isCp op && decide (idx ≤ 65535)
  | .invokeinterface idx _ => decide (idx ≤ 65535)
  | .newarray t => decide (t ≤ 255)
  | .multianewarray idx d => decide (idx ≤ 65535) && decide (d ≤ 255)
  | .invokedynamic idx => decide (idx ≤ 65535)

end CodeDenote
