import FeatherModel.Model.CodeWrite
import FeatherModel.Spec.CodeDecode

/-!
# When does a decoded instruction sequence denote a list of model instructions?

`lp` is the label table (label ↦ address). A conditional jump may be denoted either by the same conditional branch
or by the *trampoline* `if<not cond> L; goto[_w] target; L:` where `L` is the address right after the `goto`.
-/

namespace CodeDenote
open CodeWrite CodeDecode

/-- label `t` designates address `a` -/
def lands (lp : Nat → Option Nat) (t : Nat) (a : Int) : Bool :=
  match lp t with
  | some p => (p : Int) == a
  | none => false

def landsAll (lp : Nat → Option Nat) : List Nat → List Int → Bool
  | [], [] => true
  | t :: ts, a :: as => lands lp t a && landsAll lp ts as
  | _, _ => false

def landsPairs (lp : Nat → Option Nat) : List (Int × Nat) → List (Int × Int) → Bool
  | [], [] => true
  | kt :: ts, ka :: as => (kt.1 == ka.1) && lands lp kt.2 ka.2 && landsPairs lp ts as
  | _, _ => false

/-- one decoded instruction denotes one model instruction -/
def denote1 (lp : Nat → Option Nat) : Insn → DInsn → Bool
  | .simple op, .simple op' => op == op'
  | .bipush v, .bipush v' => v == v'
  | .sipush v, .sipush v' => v == v'
  | .ldc idx false, .ldc idx' => idx == idx'
  | .ldc idx true, .ldc2 idx' => idx == idx'
  | .load k i, .load k' i' => k == k' && i == i'
  | .store k i, .store k' i' => k == k' && i == i'
  | .iinc i v, .iinc i' v' => i == i' && v == v'
  | .ret i, .ret i' => i == i'
  | .ifc c t, .ifc op a => (c.opcode == op) && lands lp t a
  | .goto t, .goto a => lands lp t a
  | .jsr t, .jsr a => lands lp t a
  | .tableswitch d lo hi tb, .tableswitch a lo' hi' os => lands lp d a && lo == lo' && hi == hi' && landsAll lp tb os
  | .lookupswitch d ps, .lookupswitch a ps' => lands lp d a && landsPairs lp ps ps'
  | _, _ => false

/-- the decoded items, starting with the one for instruction number `k`, denote the instructions `is`;
`pos` gives the address each instruction must start at -/
def matchAll (lp : Nat → Option Nat) (pos : Nat → Option Nat) : Nat → List Insn → List (Nat × Nat × DInsn) → Bool
  | _, [], [] => true
  | _, [], _ :: _ => false
  | _, _ :: _, [] => false
  | k, i :: is, (pc, len, d) :: ds =>
    pos k == some pc &&
    (if denote1 lp i d then matchAll lp pos (k + 1) is ds
     else
       match i, d, ds with
       | .ifc c t, .ifc op a, (pc2, len2, .goto g) :: ds' =>
         op == negIf c.opcode && pc2 == pc + len && a == ((pc2 + len2 : Nat) : Int) && lands lp t g &&
           matchAll lp pos (k + 1) is ds'
       | _, _, _ => false)

end CodeDenote
