import FeatherModel.Model.RawLayout

/-!
# C20 — the class-file format as the JVMS prescribes it (trusted transcription of JVMS SE 21 §4.1, §4.4–§4.7)

Two independent artefacts, neither derived from `raw_class_file`:

* **signature tables** (`structs`, `enums`, `attrs`): for every structure the items on the wire, in order, with the JVMS
  item names and widths (`u1/u2/u4` = `Prim.u8/u16/u32`), tables with the width of their count item.  `Thm/C20.lean`
  compares the layouts translated from `lib.rs` with these tables by `decide`.
  Structures are keyed by the crate's type names (the JVMS has no names for most table entries); attributes are keyed by
  their JVMS name.  Item names follow the JVMS; where the crate spells an item differently the crate's spelling is
  used and marked.
* **frame walker** (`walk`): an executable reader that only follows the framing of a class file — constant-pool slots,
  counts, `attribute_length`s, and for every predefined attribute the shape of its body — and accepts iff every
  length matches and the input is consumed exactly.  It is what "other readers see the same structure" means in the
  oracles of C20 (the harness has the same walker in Rust, `fvh::jvmsframe`).
-/

namespace JvmsRaw
open RawLayout

/-! ## signature tables -/

inductive Elem where
  | p (w : Prim)
  | s (ty : JStr)
  deriving DecidableEq, Repr

inductive Item where
  /-- fixed-width item -/
  | p (name : JStr) (w : Prim)
  /-- `cnt`-wide count item followed by that many elements -/
  | tbl (name : JStr) (cnt : Prim) (el : Elem)
  /-- table whose number of elements is given by an earlier item -/
  | impl (name : JStr) (el : Elem)
  /-- table whose entries take up one or two *slots* each (§4.4.5) and which is filled until as many slots are taken as
  an earlier item says (§4.1: `cp_info constant_pool[constant_pool_count-1]`) -/
  | slots (name : JStr) (el : Elem)
  /-- one nested structure -/
  | one (name : JStr) (ty : JStr)
  deriving DecidableEq, Repr

def u1 (n : String) : Item := .p (jstr n) .u8
def u2 (n : String) : Item := .p (jstr n) .u16
def u4 (n : String) : Item := .p (jstr n) .u32
/-- `u2 xs_count; u2 xs[xs_count]` and friends -/
def tab (n : String) (cnt : Prim) (w : Prim) : Item := .tbl (jstr n) cnt (.p w)
def tabS (n : String) (cnt : Prim) (ty : String) : Item := .tbl (jstr n) cnt (.s (jstr ty))

/-- structures (§4.1, §4.5, §4.6 and the table entries of §4.7), by the crate's type name -/
def structs : List (JStr × List Item) := [
  (jstr "ClassFile", [u4 "magic", u2 "minor_version", u2 "major_version", u2 "constant_pool_count",
    .slots (jstr "constant_pool") (.s (jstr "CpInfo")), u2 "access_flags", u2 "this_class", u2 "super_class",
    tab "interfaces" .u16 .u16, tabS "fields" .u16 "FieldInfo", tabS "methods" .u16 "MethodInfo",
    tabS "attributes" .u16 "AttributeInfo"]),
  (jstr "FieldInfo", [u2 "access_flags", u2 "name_index", u2 "descriptor_index", tabS "attributes" .u16 "AttributeInfo"]),
  (jstr "MethodInfo", [u2 "access_flags", u2 "name_index", u2 "descriptor_index", tabS "attributes" .u16 "AttributeInfo"]),
  (jstr "ExceptionTableEntry", [u2 "start_pc", u2 "end_pc", u2 "handler_pc", u2 "catch_type"]),
  (jstr "InnerClassesEntry", [u2 "inner_class_info_index", u2 "outer_class_info_index", u2 "inner_name_index",
    u2 "inner_class_access_flags"]),
  (jstr "LineNumberTableEntry", [u2 "start_pc", u2 "line_number"]),
  (jstr "LocalVariableTableEntry", [u2 "start_pc", u2 "length", u2 "name_index", u2 "descriptor_index", u2 "index"]),
  (jstr "LocalVariableTypeTableEntry", [u2 "start_pc", u2 "length", u2 "name_index", u2 "signature_index", u2 "index"]),
  (jstr "Annotation", [u2 "type_index", tabS "element_value_pairs" .u16 "ElementValuePairsEntry"]),
  (jstr "ElementValuePairsEntry", [u2 "element_name_index", .one (jstr "value") (jstr "ElementValue")]),
  -- JVMS: `u2 num_annotations; annotation annotations[num_annotations]`
  (jstr "ParameterAnnotationEntry", [tabS "annotations" .u16 "Annotation"]),
  -- JVMS: `bootstrap_arguments`; the crate spells it `boostrap_arguments`
  (jstr "BootstrapMethodsEntry", [u2 "bootstrap_method_ref", tab "boostrap_arguments" .u16 .u16]),
  (jstr "MethodParametersEntry", [u2 "name_index", u2 "access_flags"]),
  (jstr "ModuleRequiresEntry", [u2 "requires_index", u2 "requires_flags", u2 "requires_version_index"]),
  (jstr "ModuleExportsEntry", [u2 "exports_index", u2 "exports_flags", tab "exports_to_index" .u16 .u16]),
  (jstr "ModuleOpensEntry", [u2 "opens_index", u2 "opens_flags", tab "opens_to_index" .u16 .u16]),
  (jstr "ModuleProvidesEntry", [u2 "provides_index", tab "provides_with_index" .u16 .u16]),
  (jstr "RecordComponentInfo", [u2 "name_index", u2 "descriptor_index", tabS "attributes" .u16 "AttributeInfo"])
]

/-- tagged unions other than `attribute_info`: tag width and, per tag (pattern), the items after the tag -/
def enums : List (JStr × Prim × List (Pat × List Item)) := [
  -- §4.4
  (jstr "CpInfo", .u8, [
    (.lit 7, [u2 "name_index"]),
    (.lit 9, [u2 "class_index", u2 "name_and_type_index"]),
    (.lit 10, [u2 "class_index", u2 "name_and_type_index"]),
    (.lit 11, [u2 "class_index", u2 "name_and_type_index"]),
    (.lit 8, [u2 "string_index"]),
    (.lit 3, [u4 "bytes"]),
    (.lit 4, [u4 "bytes"]),
    (.lit 5, [u4 "high_bytes", u4 "low_bytes"]),
    (.lit 6, [u4 "high_bytes", u4 "low_bytes"]),
    (.lit 12, [u2 "name_index", u2 "descriptor_index"]),
    -- `u2 length; u1 bytes[length]`
    (.lit 1, [tab "bytes" .u16 .u8]),
    (.lit 15, [u1 "reference_kind", u2 "reference_index"]),
    (.lit 16, [u2 "descriptor_index"]),
    (.lit 17, [u2 "bootstrap_method_attr_index", u2 "name_and_type_index"]),
    (.lit 18, [u2 "bootstrap_method_attr_index", u2 "name_and_type_index"]),
    (.lit 19, [u2 "name_index"]),
    (.lit 20, [u2 "name_index"])]),
  -- §4.7.4 verification_type_info
  (jstr "VerificationTypeInfo", .u8, [
    (.lit 0, []), (.lit 1, []), (.lit 2, []), (.lit 3, []), (.lit 4, []), (.lit 5, []), (.lit 6, []),
    (.lit 7, [u2 "cpool_index"]), (.lit 8, [u2 "offset"])]),
  -- §4.7.4 stack_map_frame (offset_delta / k of the first, second and fourth kind are part of frame_type)
  (jstr "StackMapFrame", .u8, [
    (.range 0 63, []),
    (.range 64 127, [.one (jstr "stack") (jstr "VerificationTypeInfo")]),
    (.lit 247, [u2 "offset_delta", .one (jstr "stack") (jstr "VerificationTypeInfo")]),
    (.range 248 250, [u2 "offset_delta"]),
    (.lit 251, [u2 "offset_delta"]),
    (.range 252 254, [u2 "offset_delta", .impl (jstr "locals") (.s (jstr "VerificationTypeInfo"))]),
    (.lit 255, [u2 "offset_delta", tabS "locals" .u16 "VerificationTypeInfo", tabS "stack" .u16 "VerificationTypeInfo"])]),
  -- §4.7.16.1 element_value
  (jstr "ElementValue", .u8, [
    (.lit 66, [u2 "const_value_index"]), (.lit 67, [u2 "const_value_index"]), (.lit 68, [u2 "const_value_index"]),
    (.lit 70, [u2 "const_value_index"]), (.lit 73, [u2 "const_value_index"]), (.lit 74, [u2 "const_value_index"]),
    (.lit 83, [u2 "const_value_index"]), (.lit 90, [u2 "const_value_index"]), (.lit 115, [u2 "const_value_index"]),
    (.lit 101, [u2 "type_name_index", u2 "const_name_index"]),
    (.lit 99, [u2 "class_info_index"]),
    (.lit 64, [.one (jstr "annotation_value") (jstr "Annotation")]),
    (.lit 91, [tabS "values" .u16 "ElementValue"])])
]

/-- §4.7.2 – §4.7.31: the items of each predefined attribute after `attribute_name_index` and `attribute_length`
(the two `*TypeAnnotations` attributes are not modelled by the crate and are read as unknown attributes) -/
def attrs : List (JStr × List Item) := [
  (jstr "ConstantValue", [u2 "constantvalue_index"]),
  (jstr "Code", [u2 "max_stack", u2 "max_locals", tab "code" .u32 .u8, tabS "exception_table" .u16 "ExceptionTableEntry",
    tabS "attributes" .u16 "AttributeInfo"]),
  (jstr "StackMapTable", [tabS "entries" .u16 "StackMapFrame"]),
  (jstr "Exceptions", [tab "exception_index_table" .u16 .u16]),
  (jstr "InnerClasses", [tabS "classes" .u16 "InnerClassesEntry"]),
  (jstr "EnclosingMethod", [u2 "class_index", u2 "method_index"]),
  (jstr "Synthetic", []),
  (jstr "Signature", [u2 "signature_index"]),
  (jstr "SourceFile", [u2 "sourcefile_index"]),
  -- `u1 debug_extension[attribute_length]`: the count item *is* `attribute_length`
  (jstr "SourceDebugExtension", [tab "debug_extension" .u32 .u8]),
  (jstr "LineNumberTable", [tabS "line_number_table" .u16 "LineNumberTableEntry"]),
  (jstr "LocalVariableTable", [tabS "local_variable_table" .u16 "LocalVariableTableEntry"]),
  (jstr "LocalVariableTypeTable", [tabS "local_variable_type_table" .u16 "LocalVariableTypeTableEntry"]),
  (jstr "Deprecated", []),
  (jstr "RuntimeVisibleAnnotations", [tabS "annotations" .u16 "Annotation"]),
  (jstr "RuntimeInvisibleAnnotations", [tabS "annotations" .u16 "Annotation"]),
  -- `u1 num_parameters`
  (jstr "RuntimeVisibleParameterAnnotations", [tabS "parameter_annotations" .u8 "ParameterAnnotationEntry"]),
  (jstr "RuntimeInvisibleParameterAnnotations", [tabS "parameter_annotations" .u8 "ParameterAnnotationEntry"]),
  (jstr "AnnotationDefault", [.one (jstr "default_value") (jstr "ElementValue")]),
  (jstr "BootstrapMethods", [tabS "bootstrap_methods" .u16 "BootstrapMethodsEntry"]),
  -- `u1 parameters_count` (§4.7.24)
  (jstr "MethodParameters", [tabS "parameters" .u8 "MethodParametersEntry"]),
  (jstr "Module", [u2 "module_name_index", u2 "module_flags", u2 "module_version_index",
    tabS "requires" .u16 "ModuleRequiresEntry", tabS "exports" .u16 "ModuleExportsEntry",
    tabS "opens" .u16 "ModuleOpensEntry", tab "uses_index" .u16 .u16, tabS "provides" .u16 "ModuleProvidesEntry"]),
  (jstr "ModulePackages", [tab "package_index" .u16 .u16]),
  (jstr "ModuleMainClass", [u2 "main_class_index"]),
  (jstr "NestHost", [u2 "host_class_index"]),
  (jstr "NestMembers", [tab "classes" .u16 .u16]),
  (jstr "Record", [tabS "components" .u16 "RecordComponentInfo"]),
  (jstr "PermittedSubclasses", [tab "classes" .u16 .u16])
]

/-- an attribute the format does not know: `u1 info[attribute_length]` -/
def unknownAttr : List Item := [tab "info" .u32 .u8]

/-- §4.4.5: `long` and `double` entries take two constant-pool slots -/
def slots (tag : Nat) : Nat := if tag = 5 ∨ tag = 6 then 2 else 1

/-! ## signature of a translated layout -/

def assoc {α : Type} (k : JStr) : List (JStr × α) → Option α
  | [] => none
  | (k', v) :: r => if k' = k then some v else assoc k r

def assocPat {α : Type} (k : Pat) : List (Pat × α) → Option α
  | [] => none
  | (k', v) :: r => if k' = k then some v else assocPat k r

def nameOf (names : List JStr) (id : Nat) : JStr := (names[id]?).getD []

def elemOf (names : List JStr) : Ty → Elem
  | .prim p => .p p
  | .ref id => .s (nameOf names id)
  | _ => .s []

def constItems (names : List JStr) : List Const → List Item
  | [] => []
  | c :: cs => .p (nameOf names c.name) c.p :: constItems names cs

def fieldItems (names : List JStr) : List Field → List Item
  | [] => []
  | f :: fds =>
    (match f.kind with
     | .field (.prim p) _ => [Item.p (nameOf names f.name) p]
     | .field (.vecCnt c el) _ => [Item.tbl (nameOf names f.name) c (elemOf names el)]
     | .field (.vecLen _ el) _ => [Item.impl (nameOf names f.name) (elemOf names el)]
     | .field (.vecSlots _ _ el) _ => [Item.slots (nameOf names f.name) (elemOf names el)]
     | .field (.ref id) _ => [Item.one (nameOf names f.name) (nameOf names id)]
     | .nowrite _ _ => []) ++ constItems names f.post ++ fieldItems names fds

/-- what a body puts on the wire: constants and fields in order (`nowrite` fields are not on the wire) -/
def bodyItems (names : List JStr) (b : Body) : List Item := constItems names b.pre ++ fieldItems names b.fields

def dropItem (n : JStr) : List Item → List Item
  | [] => []
  | .p m w :: r => if m = n then r else .p m w :: dropItem n r
  | i :: r => i :: dropItem n r

/-- items of an attribute variant after the two header items -/
def attrItems (names : List JStr) (v : Variant) : List Item := dropItem (jstr "attribute_length") (bodyItems names v.body)

/-- an attribute variant conforms: it is guarded by the attribute's name, is called like it, and has the JVMS items -/
def attrVariantConforms (names : List JStr) (v : Variant) : Bool :=
  match v.guard with
  | some g => nameOf names v.name == g && assoc g attrs == some (attrItems names v)
  | none => attrItems names v == unknownAttr

/-- conformance of one definition; attribute variants guarded by a name in `skip` are not compared -/
def defConformsX (names : List JStr) (skip : List JStr) : Def → Bool
  | .struct name body => assoc (nameOf names name) structs == some (bodyItems names body)
  | .enum name _ tagTy variants _ =>
    if nameOf names name = jstr "AttributeInfo" then
      tagTy == .u16 && variants.all fun v =>
        (match v.guard with | some g => skip.contains g | none => false) || attrVariantConforms names v
    else
      match assoc (nameOf names name) enums with
      | some (tt, vs) =>
        tagTy == tt && variants.length == vs.length &&
          variants.all fun v => v.guard.isNone && assocPat v.pat vs == some (bodyItems names v.body)
      | none => false

/-- full conformance of one definition with the JVMS tables -/
def defConforms (names : List JStr) : Def → Bool := defConformsX names []

/-- the tag a pool entry value is written with (variants of the pool entry type have literal tags) -/
def entryTag (variants : List Variant) : Val → Option Nat
  | .node k _ =>
    (match variants[k]? with
     | some v => (match v.tagWrite.e with | .lit t => some t | _ => none)
     | none => none)
  | _ => none

/-- §4.4.5 for one entry value -/
def jvmsSlots (variants : List Variant) (e : Val) : Nat :=
  match entryTag variants e with | some t => slots t | none => 1

/-- §4.1: "The value of the constant_pool_count item is equal to the number of entries in the constant_pool table plus
one", where long and double entries count twice (§4.4.5) -/
def jvmsPoolCount (variants : List Variant) (es : List Val) : Nat :=
  1 + (es.map (jvmsSlots variants)).sum

/-- §4.4.5 against the slot table of the implementation (`CpInfo::slots`, translated into `Env.wide`): the table names
variants of the pool entry type only, and a variant is in it iff the JVMS gives the tag it is written with two slots -/
def slotsConform (variants : List Variant) (wide : List Nat) : Bool :=
  wide.all (· < variants.length) &&
  (List.range variants.length).all fun k =>
    match variants[k]? with
    | some v => (match v.tagWrite.e with
                 | .lit t => wide.contains k == (slots t == 2)
                 | _ => false)
    | none => true

/-- every predefined attribute of the table is modelled by some variant -/
def attrsCovered (variants : List Variant) : Bool :=
  attrs.all fun a => variants.any fun v => v.guard == some a.1

/-! ## frame walker -/

namespace Walk

/-- a parser step: `none` = malformed, `some rest` = consumed a prefix -/
abbrev P := Bytes → Option Bytes

def n1 : Bytes → Option (Nat × Bytes)
  | a :: r => some (a, r)
  | _ => none
def n2 : Bytes → Option (Nat × Bytes)
  | a :: b :: r => some (a * 256 + b, r)
  | _ => none
def n4 : Bytes → Option (Nat × Bytes)
  | a :: b :: c :: d :: r => some (a * 16777216 + b * 65536 + c * 256 + d, r)
  | _ => none

def skip : Nat → P
  | 0, bs => some bs
  | _ + 1, [] => none
  | n + 1, _ :: r => skip n r

/-- the first `n` bytes (reversed accumulator `acc`) and the rest; `none` if the input is shorter -/
def splitAux : Nat → Bytes → Bytes → Option (Bytes × Bytes)
  | 0, acc, bs => some (acc.reverse, bs)
  | _ + 1, _, [] => none
  | n + 1, acc, a :: r => splitAux n (a :: acc) r
def splitN (n : Nat) (bs : Bytes) : Option (Bytes × Bytes) := splitAux n [] bs
def rep (f : P) : Nat → P
  | 0, bs => some bs
  | n + 1, bs => (f bs).bind (rep f n)
def tbl1 (f : P) : P := fun bs => (n1 bs).bind fun (n, r) => rep f n r
def tbl2 (f : P) : P := fun bs => (n2 bs).bind fun (n, r) => rep f n r
def seq (f g : P) : P := fun bs => (f bs).bind g

def vti : P := fun bs =>
  (n1 bs).bind fun (t, r) => if t ≤ 6 then some r else if t ≤ 8 then skip 2 r else none

def frame : P := fun bs =>
  (n1 bs).bind fun (t, r) =>
    if t ≤ 63 then some r
    else if t ≤ 127 then vti r
    else if t = 247 then seq (skip 2) vti r
    else if 248 ≤ t ∧ t ≤ 251 then skip 2 r
    else if 252 ≤ t ∧ t ≤ 254 then seq (skip 2) (rep vti (t - 251)) r
    else if t = 255 then seq (skip 2) (seq (tbl2 vti) (tbl2 vti)) r
    else none

mutual
def elementValue : Nat → P
  | 0, _ => none
  | f + 1, bs =>
    (n1 bs).bind fun (t, r) =>
      if t = 66 ∨ t = 67 ∨ t = 68 ∨ t = 70 ∨ t = 73 ∨ t = 74 ∨ t = 83 ∨ t = 90 ∨ t = 115 ∨ t = 99 then skip 2 r
      else if t = 101 then skip 4 r
      else if t = 64 then annotation f r
      else if t = 91 then tbl2 (elementValue f) r
      else none
def annotation : Nat → P
  | 0, _ => none
  | f + 1, bs => seq (skip 2) (tbl2 (seq (skip 2) (elementValue f))) bs
end

/-- the Utf8 entries of the constant pool by index -/
abbrev Utf8s := List (Nat × Bytes)

def utf8At (pool : Utf8s) (i : Nat) : Option Bytes :=
  match pool with
  | [] => none
  | (k, v) :: r => if k = i then some v else utf8At r i

def moduleBody : P :=
  seq (skip 6) (seq (tbl2 (skip 6)) (seq (tbl2 (seq (skip 4) (tbl2 (skip 2)))) (seq (tbl2 (seq (skip 4) (tbl2 (skip 2))))
    (seq (tbl2 (skip 2)) (tbl2 (seq (skip 2) (tbl2 (skip 2))))))))

/-- one attribute -/
def attrInfo (pool : Utf8s) : Nat → P
  | 0, _ => none
  | f + 1, bs =>
    (n2 bs).bind fun (ni, r1) =>
    (n4 r1).bind fun (len, r2) =>
    match splitN len r2 with
    | none => none
    | some (body, rest) =>
      match utf8At pool ni with
      | none => none
      | some name =>
        let attributes : P := tbl2 (attrInfo pool f)
        let p : Option P :=
          if name = jstr "ConstantValue" then some (skip 2)
          else if name = jstr "Code" then
            some (seq (skip 4) (seq (fun bs => (n4 bs).bind fun (n, r) => skip n r) (seq (tbl2 (skip 8)) attributes)))
          else if name = jstr "StackMapTable" then some (tbl2 frame)
          else if name = jstr "Exceptions" then some (tbl2 (skip 2))
          else if name = jstr "InnerClasses" then some (tbl2 (skip 8))
          else if name = jstr "EnclosingMethod" then some (skip 4)
          else if name = jstr "Synthetic" then some (skip 0)
          else if name = jstr "Signature" then some (skip 2)
          else if name = jstr "SourceFile" then some (skip 2)
          else if name = jstr "LineNumberTable" then some (tbl2 (skip 4))
          else if name = jstr "LocalVariableTable" then some (tbl2 (skip 10))
          else if name = jstr "LocalVariableTypeTable" then some (tbl2 (skip 10))
          else if name = jstr "Deprecated" then some (skip 0)
          else if name = jstr "RuntimeVisibleAnnotations" ∨ name = jstr "RuntimeInvisibleAnnotations" then
            some (tbl2 (annotation len))
          else if name = jstr "RuntimeVisibleParameterAnnotations" ∨ name = jstr "RuntimeInvisibleParameterAnnotations" then
            some (tbl1 (tbl2 (annotation len)))
          else if name = jstr "AnnotationDefault" then some (elementValue (len + 1))
          else if name = jstr "BootstrapMethods" then some (tbl2 (seq (skip 2) (tbl2 (skip 2))))
          else if name = jstr "MethodParameters" then some (tbl1 (skip 4))
          else if name = jstr "Module" then some moduleBody
          else if name = jstr "ModulePackages" then some (tbl2 (skip 2))
          else if name = jstr "ModuleMainClass" then some (skip 2)
          else if name = jstr "NestHost" then some (skip 2)
          else if name = jstr "NestMembers" then some (tbl2 (skip 2))
          else if name = jstr "Record" then some (tbl2 (seq (skip 4) attributes))
          else if name = jstr "PermittedSubclasses" then some (tbl2 (skip 2))
          else none
        match p with
        | none => some rest
        | some p => if p body = some [] then some rest else none

/-- constant pool: `i` = index of the next entry, `count` = constant_pool_count; collects the Utf8 entries.  A long or
double entry takes the indices `i` and `i + 1` (§4.4.5); an entry that ends past `count - 1` is malformed. -/
def pool (count : Nat) : Nat → Nat → Utf8s → Bytes → Option (Utf8s × Bytes)
  | 0, _, _, _ => none
  | fuel + 1, i, acc, bs =>
    if i = count then some (acc, bs)
    else if i > count then none
    else
      (n1 bs).bind fun (t, r) =>
        if t = 1 then
          (n2 r).bind fun (n, r2) =>
            match splitN n r2 with
            | some (s, r3) => pool count fuel (i + 1) ((i, s) :: acc) r3
            | none => none
        else if t = 3 ∨ t = 4 ∨ t = 9 ∨ t = 10 ∨ t = 11 ∨ t = 12 ∨ t = 17 ∨ t = 18 then (skip 4 r).bind (pool count fuel (i + 1) acc)
        else if t = 5 ∨ t = 6 then (skip 8 r).bind (pool count fuel (i + 2) acc)
        else if t = 7 ∨ t = 8 ∨ t = 16 ∨ t = 19 ∨ t = 20 then (skip 2 r).bind (pool count fuel (i + 1) acc)
        else if t = 15 then (skip 3 r).bind (pool count fuel (i + 1) acc)
        else none

/-- §4.1: the whole input is one well-framed class file -/
def classFile (bs : Bytes) : Bool :=
  match n4 bs with
  | some (magic, r0) =>
    if magic ≠ 3405691582 then false else
    match skip 4 r0 with
    | none => false
    | some r1 =>
      match n2 r1 with
      | none => false
      | some (count, r2) =>
        if count = 0 then false else
        match pool count (count + 1) 1 [] r2 with
        | none => false
        | some (utf8s, r3) =>
          let fuel := bs.length + 1
          let attributes : P := tbl2 (attrInfo utf8s fuel)
          let member : P := seq (skip 6) attributes
          (seq (skip 6) (seq (tbl2 (skip 2)) (seq (tbl2 member) (seq (tbl2 member) attributes))) r3) == some []
  | none => false

end Walk

end JvmsRaw
