import FeatherModel.Model.Maven

/-!
# Level-order specification of Maven's dependency mediation (C19)

"Nearest wins, first declaration breaks ties; the subtrees of losers are discarded", written level by level, without
any queue:

* level 0 of the *considered* nodes are the roots, in declaration order;
* going through a level from left to right, a considered node is **kept** iff its collision id has not been claimed by a
  kept node of a smaller level or by an earlier node of the same level;
* the considered nodes of level `d+1` are the children of the kept nodes of level `d`, in order (children of a node that
  was not kept are never considered: its whole subtree is discarded).

`levelRun` is the generic form (any stateful predicate threaded left to right through the levels); `Level.levels` is the
trace (considered nodes per level, each with its verdict) that the theorems of `Thm/C19.lean` talk about.
-/

namespace Maven
open Tree (sizeList)

/-- serve one level: retain the children of every node in order; returns the final state, the serialisation entries of
the level's nodes and the kept nodes of the next level -/
def processLevel {α σ : Type} (f : σ → α → Bool × σ) : σ → List (Tree α) → σ × List (α × Nat) × List (Tree α)
  | s, [] => (s, [], [])
  | s, t :: ts =>
    let r := filterS f s t.children
    let rest := processLevel f r.1 ts
    (rest.1, (t.data, r.2.length) :: rest.2.1, r.2 ++ rest.2.2)

theorem sizeList_processLevel_le {α σ : Type} (f : σ → α → Bool × σ) (s : σ) (ts : List (Tree α)) :
    sizeList (processLevel f s ts).2.2 + ts.length ≤ sizeList ts := by
  induction ts generalizing s with
  | nil => simp [processLevel, Tree.sizeList]
  | cons t ts ih =>
    simp only [processLevel, sizeList_append, Tree.sizeList, size_eq, List.length_cons]
    have h1 := sizeList_filterS_le f s t.children
    have h2 := ih (filterS f s t.children).1
    omega

/-- level-by-level run: all nodes of a level are served before any node of the next level -/
def levelRun {α σ : Type} (f : σ → α → Bool × σ) (s : σ) (level : List (Tree α)) : List (α × Nat) :=
  match level with
  | [] => []
  | t :: ts =>
    let r := processLevel f s (t :: ts)
    r.2.1 ++ levelRun f r.1 r.2.2
termination_by sizeList level
decreasing_by
  have := sizeList_processLevel_le f s (t :: ts)
  simp only [List.length_cons] at this
  omega

/-! ## The mediation trace -/

/-- the verdicts of one left-to-right pass over a list of considered nodes -/
def verdicts {α σ : Type} (f : σ → α → Bool × σ) : σ → List (Tree α) → List (α × Bool)
  | _, [] => []
  | s, t :: ts => (t.data, (f s t.data).1) :: verdicts f (f s t.data).2 ts

/-- considered nodes (with verdict) per level, starting from a level of already kept nodes:
the first entry lists the children of `level`'s nodes -/
def levelsFrom {α σ : Type} (f : σ → α → Bool × σ) (s : σ) (level : List (Tree α)) : List (List (α × Bool)) :=
  match level with
  | [] => []
  | t :: ts =>
    let considered := (t :: ts).flatMap Tree.children
    let r := filterS f s considered
    verdicts f s considered :: levelsFrom f r.1 r.2
termination_by sizeList level
decreasing_by
  have h := sizeList_filterS_le f s ((t :: ts).flatMap Tree.children)
  have h2 : ∀ l : List (Tree α), sizeList (l.flatMap Tree.children) + l.length ≤ sizeList l := by
    intro l
    induction l with
    | nil => simp [Tree.sizeList]
    | cons a l ih => simp only [List.flatMap_cons, sizeList_append, Tree.sizeList, size_eq, List.length_cons]; omega
  have := h2 (t :: ts)
  simp only [List.length_cons] at this
  omega

/-- the whole trace for a forest: level 0 = the roots -/
def levels {α σ : Type} (f : σ → α → Bool × σ) (s : σ) (forest : List (Tree α)) : List (List (α × Bool)) :=
  let r := filterS f s forest
  verdicts f s forest :: levelsFrom f r.1 r.2

/-! ## Reading the trace -/

/-- the entries with verdict "kept", in order -/
def keptOf {α : Type} (l : List (α × Bool)) : List α := (l.filter (·.2)).map (·.1)

/-- the considered nodes in the order they are considered: level by level (nearest first), declaration order inside a
level -/
def considered {α σ : Type} (f : σ → α → Bool × σ) (s : σ) (forest : List (Tree α)) : List (α × Bool) :=
  (levels f s forest).flatten

/-- one left-to-right pass of a stateful predicate over plain data -/
def verdictsL {α σ : Type} (f : σ → α → Bool × σ) : σ → List α → List (α × Bool)
  | _, [] => []
  | s, a :: as => (a, (f s a).1) :: verdictsL f (f s a).2 as

/-- the "first seen" predicate of nearest-wins mediation: keep a node iff its id has not been seen before -/
def firstSeen {α ι : Type} [DecidableEq ι] (idOf : α → ι) (seen : List ι) (a : α) : Bool × List ι :=
  (!seen.contains (idOf a), idOf a :: seen)

/-- `out` is obtained from `forest` by deleting whole subtrees (siblings keep their order, a kept node keeps its
ancestors): the shape of every mediation result -/
inductive Pruned {α : Type} : List (Tree α) → List (Tree α) → Prop
  | nil : Pruned [] []
  | drop {t : Tree α} {ts us : List (Tree α)} : Pruned ts us → Pruned (t :: ts) us
  | keep {d : α} {cs ds ts us : List (Tree α)} :
      Pruned cs ds → Pruned ts us → Pruned (Tree.node d cs :: ts) (Tree.node d ds :: us)

/-- breadth-first order, written level by level: all roots, then all their children, then all grandchildren, ... -/
def levelOrder {α : Type} (level : List (Tree α)) : List α :=
  match level with
  | [] => []
  | t :: ts => (t :: ts).map Tree.data ++ levelOrder ((t :: ts).flatMap Tree.children)
termination_by sizeList level
decreasing_by
  have h2 : ∀ l : List (Tree α), sizeList (l.flatMap Tree.children) + l.length ≤ sizeList l := by
    intro l
    induction l with
    | nil => simp [Tree.sizeList]
    | cons a l ih => simp only [List.flatMap_cons, sizeList_append, Tree.sizeList, size_eq, List.length_cons]; omega
  have := h2 (t :: ts)
  simp only [List.length_cons] at this
  omega

end Maven
