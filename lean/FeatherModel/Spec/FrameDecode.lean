import FeatherModel.Base.Sexp

/-!
# Independent decoder of the `StackMapTable` attribute, transcribed from JVMS §4.7.4

```
StackMapTable_attribute { u2 attribute_name_index; u4 attribute_length; u2 number_of_entries;
                          stack_map_frame entries[number_of_entries]; }
```

Written from the structure definitions of the specification, not by inverting the writer model:

* `verification_type_info` is a one-byte tag: `ITEM_Top` 0, `ITEM_Integer` 1, `ITEM_Float` 2, `ITEM_Double` 3,
  `ITEM_Long` 4, `ITEM_Null` 5, `ITEM_UninitializedThis` 6, `ITEM_Object` 7 followed by `u2 cpool_index`,
  `ITEM_Uninitialized` 8 followed by `u2 offset` (the offset of the `new` instruction);
* `frame_type` 0–63 `same_frame` (`offset_delta` = `frame_type`), 64–127 `same_locals_1_stack_item_frame`
  (`offset_delta` = `frame_type − 64`, one type), 128–246 reserved, 247 `same_locals_1_stack_item_frame_extended`
  (`u2 offset_delta`, one type), 248–250 `chop_frame` (`u2 offset_delta`, the last `k = 251 − frame_type` locals are
  absent), 251 `same_frame_extended` (`u2 offset_delta`), 252–254 `append_frame` (`u2 offset_delta`,
  `k = frame_type − 251` additional locals), 255 `full_frame` (`u2 offset_delta`, `u2 number_of_locals`, locals,
  `u2 number_of_stack_items`, stack);
* "The bytecode offset at which a frame applies is calculated by taking the `offset_delta` of the frame and adding
  `offset_delta + 1` to the bytecode offset of the previous frame, unless the previous frame is the initial frame of
  the method, in which case the bytecode offset is `offset_delta`."

Frames are decoded to **absolute bytecode offsets**. `none` = malformed (truncated, reserved tag, bytes left over).
-/

namespace FrameDecode

/-- a decoded `verification_type_info` -/
inductive DType where
  | top | int | float | double | long | null | uninitThis
  /-- `Object_variable_info`: index of a `CONSTANT_Class_info` -/
  | object (cpIndex : Nat)
  /-- `Uninitialized_variable_info`: offset of the `new` instruction that created the object -/
  | uninit (offset : Nat)
  deriving DecidableEq, Repr

/-- a decoded `stack_map_frame` without its `offset_delta` -/
inductive DFrame where
  | same
  | same1 (stack : DType)
  | chop (k : Nat)
  | append (locals : List DType)
  | full (locals stack : List DType)
  deriving DecidableEq, Repr

def u1 : Bytes → Option (Nat × Bytes)
  | a :: r => some (a, r)
  | _ => none

def u2 : Bytes → Option (Nat × Bytes)
  | a :: b :: r => some (a * 256 + b, r)
  | _ => none

def vtype (bs : Bytes) : Option (DType × Bytes) :=
  match u1 bs with
  | none => none
  | some (tag, r) =>
    if tag = 0 then some (.top, r)
    else if tag = 1 then some (.int, r)
    else if tag = 2 then some (.float, r)
    else if tag = 3 then some (.double, r)
    else if tag = 4 then some (.long, r)
    else if tag = 5 then some (.null, r)
    else if tag = 6 then some (.uninitThis, r)
    else if tag = 7 then
      match u2 r with
      | none => none
      | some (i, r) => some (.object i, r)
    else if tag = 8 then
      match u2 r with
      | none => none
      | some (o, r) => some (.uninit o, r)
    else none

/-- `n` consecutive `verification_type_info`s -/
def vtypes : Nat → Bytes → Option (List DType × Bytes)
  | 0, bs => some ([], bs)
  | n + 1, bs =>
    match vtype bs with
    | none => none
    | some (t, r) =>
      match vtypes n r with
      | none => none
      | some (ts, r) => some (t :: ts, r)

/-- `u2 count; verification_type_info items[count]` -/
def vtypes16 (bs : Bytes) : Option (List DType × Bytes) :=
  match u2 bs with
  | none => none
  | some (n, r) => vtypes n r

/-- one `stack_map_frame`: (`offset_delta`, frame) -/
def frame (bs : Bytes) : Option ((Nat × DFrame) × Bytes) :=
  match u1 bs with
  | none => none
  | some (t, r) =>
    if t ≤ 63 then some ((t, .same), r)
    else if t ≤ 127 then
      match vtype r with
      | none => none
      | some (v, r) => some ((t - 64, .same1 v), r)
    else if t ≤ 246 then none
    else
      match u2 r with
      | none => none
      | some (d, r) =>
        if t = 247 then
          match vtype r with
          | none => none
          | some (v, r) => some ((d, .same1 v), r)
        else if t ≤ 250 then some ((d, .chop (251 - t)), r)
        else if t = 251 then some ((d, .same), r)
        else if t ≤ 254 then
          match vtypes (t - 251) r with
          | none => none
          | some (vs, r) => some ((d, .append vs), r)
        else if t = 255 then
          match vtypes16 r with
          | none => none
          | some (ls, r) =>
            match vtypes16 r with
            | none => none
            | some (ss, r) => some ((d, .full ls ss), r)
        else none

/-- the bytecode offset a frame applies to; `prev` = offset of the previous explicit frame (`none`: the previous frame
is the implicit initial frame of the method) -/
def applyOffset (prev : Option Nat) (delta : Nat) : Nat :=
  match prev with
  | none => delta
  | some p => p + delta + 1

/-- `n` frames: (absolute offset, frame) -/
def frames : Nat → Option Nat → Bytes → Option (List (Nat × DFrame) × Bytes)
  | 0, _, bs => some ([], bs)
  | n + 1, prev, bs =>
    match frame bs with
    | none => none
    | some ((d, f), r) =>
      match frames n (some (applyOffset prev d)) r with
      | none => none
      | some (fs, r) => some ((applyOffset prev d, f) :: fs, r)

/-- the body of a `StackMapTable` attribute: `number_of_entries`, the entries, nothing else -/
def table (body : Bytes) : Option (List (Nat × DFrame)) :=
  match u2 body with
  | none => none
  | some (n, r) =>
    match frames n none r with
    | some (fs, []) => some fs
    | _ => none

end FrameDecode
