import FeatherModel.Base.Sexp

/-!
# Trusted transcription of the numeric tables of the class-file format (JVMS SE 21)

Independent of the Rust code and of the hand-written models: written from the specification.

* §6.5 / §7 "Opcode Mnemonics by Opcode": mnemonic, opcode, operand bytes (`opcodes`, `reserved`);
  the instructions that are short forms / wide-index forms of another instruction (`forms`), the `wide` formats
  (`wideForms`), the conditional branches and their negations (`negations`);
* §4.4 Table 4.4-A constant-pool tags with their payload (`poolTags`), §5.4.3.5 Table 5.4.3.5-A method-handle kinds;
* §4.7 Table 4.7-A predefined attribute names (`attributeNames`);
* §4.7.4 `StackMapTable` frame types and `verification_type_info` tags;
* §4.7.16.1 Table 4.7.16.1-A `element_value` tags;
* §4.7.20 Tables 4.7.20-A/B `target_type` values;
* Table 6.5.newarray-A array type codes;
* access-flag masks: Tables 4.1-B (class), 4.5-A (field), 4.6-A (method), 4.7.6-A (inner class), §4.7.24 (parameter),
  §4.7.25 (module, requires, exports, opens).

Names are `jstr "…"` (code points); nothing here is compared as a Lean `String`.
-/

namespace JvmsTables

/-- what follows the opcode byte -/
inductive Operands where
  /-- `n` operand bytes that are not a branch offset -/
  | bytes (n : Nat)
  /-- `branchbyte1 branchbyte2`: a signed 16-bit offset from the address of this opcode -/
  | branch16
  /-- `branchbyte1..4`: a signed 32-bit offset -/
  | branch32
  /-- 0–3 padding bytes, `default`, `low`, `high`, `high - low + 1` offsets (all 32-bit) -/
  | tableswitch
  /-- 0–3 padding bytes, `default`, `npairs`, `npairs` × (`match`, `offset`) -/
  | lookupswitch
  /-- modifies the following instruction, see `wideForms` -/
  | wide
  deriving DecidableEq, Repr

open Operands

/-- §6.5: (opcode, mnemonic, operands), by opcode. Opcodes 0–201 are exactly the instructions of a class file. -/
def opcodes : List (Nat × JStr × Operands) := [
  (0x00, jstr "nop", bytes 0), (0x01, jstr "aconst_null", bytes 0), (0x02, jstr "iconst_m1", bytes 0),
  (0x03, jstr "iconst_0", bytes 0), (0x04, jstr "iconst_1", bytes 0), (0x05, jstr "iconst_2", bytes 0),
  (0x06, jstr "iconst_3", bytes 0), (0x07, jstr "iconst_4", bytes 0), (0x08, jstr "iconst_5", bytes 0),
  (0x09, jstr "lconst_0", bytes 0), (0x0a, jstr "lconst_1", bytes 0),
  (0x0b, jstr "fconst_0", bytes 0), (0x0c, jstr "fconst_1", bytes 0), (0x0d, jstr "fconst_2", bytes 0),
  (0x0e, jstr "dconst_0", bytes 0), (0x0f, jstr "dconst_1", bytes 0),
  (0x10, jstr "bipush", bytes 1), (0x11, jstr "sipush", bytes 2),
  (0x12, jstr "ldc", bytes 1), (0x13, jstr "ldc_w", bytes 2), (0x14, jstr "ldc2_w", bytes 2),
  (0x15, jstr "iload", bytes 1), (0x16, jstr "lload", bytes 1), (0x17, jstr "fload", bytes 1),
  (0x18, jstr "dload", bytes 1), (0x19, jstr "aload", bytes 1),
  (0x1a, jstr "iload_0", bytes 0), (0x1b, jstr "iload_1", bytes 0), (0x1c, jstr "iload_2", bytes 0), (0x1d, jstr "iload_3", bytes 0),
  (0x1e, jstr "lload_0", bytes 0), (0x1f, jstr "lload_1", bytes 0), (0x20, jstr "lload_2", bytes 0), (0x21, jstr "lload_3", bytes 0),
  (0x22, jstr "fload_0", bytes 0), (0x23, jstr "fload_1", bytes 0), (0x24, jstr "fload_2", bytes 0), (0x25, jstr "fload_3", bytes 0),
  (0x26, jstr "dload_0", bytes 0), (0x27, jstr "dload_1", bytes 0), (0x28, jstr "dload_2", bytes 0), (0x29, jstr "dload_3", bytes 0),
  (0x2a, jstr "aload_0", bytes 0), (0x2b, jstr "aload_1", bytes 0), (0x2c, jstr "aload_2", bytes 0), (0x2d, jstr "aload_3", bytes 0),
  (0x2e, jstr "iaload", bytes 0), (0x2f, jstr "laload", bytes 0), (0x30, jstr "faload", bytes 0), (0x31, jstr "daload", bytes 0),
  (0x32, jstr "aaload", bytes 0), (0x33, jstr "baload", bytes 0), (0x34, jstr "caload", bytes 0), (0x35, jstr "saload", bytes 0),
  (0x36, jstr "istore", bytes 1), (0x37, jstr "lstore", bytes 1), (0x38, jstr "fstore", bytes 1),
  (0x39, jstr "dstore", bytes 1), (0x3a, jstr "astore", bytes 1),
  (0x3b, jstr "istore_0", bytes 0), (0x3c, jstr "istore_1", bytes 0), (0x3d, jstr "istore_2", bytes 0), (0x3e, jstr "istore_3", bytes 0),
  (0x3f, jstr "lstore_0", bytes 0), (0x40, jstr "lstore_1", bytes 0), (0x41, jstr "lstore_2", bytes 0), (0x42, jstr "lstore_3", bytes 0),
  (0x43, jstr "fstore_0", bytes 0), (0x44, jstr "fstore_1", bytes 0), (0x45, jstr "fstore_2", bytes 0), (0x46, jstr "fstore_3", bytes 0),
  (0x47, jstr "dstore_0", bytes 0), (0x48, jstr "dstore_1", bytes 0), (0x49, jstr "dstore_2", bytes 0), (0x4a, jstr "dstore_3", bytes 0),
  (0x4b, jstr "astore_0", bytes 0), (0x4c, jstr "astore_1", bytes 0), (0x4d, jstr "astore_2", bytes 0), (0x4e, jstr "astore_3", bytes 0),
  (0x4f, jstr "iastore", bytes 0), (0x50, jstr "lastore", bytes 0), (0x51, jstr "fastore", bytes 0), (0x52, jstr "dastore", bytes 0),
  (0x53, jstr "aastore", bytes 0), (0x54, jstr "bastore", bytes 0), (0x55, jstr "castore", bytes 0), (0x56, jstr "sastore", bytes 0),
  (0x57, jstr "pop", bytes 0), (0x58, jstr "pop2", bytes 0), (0x59, jstr "dup", bytes 0), (0x5a, jstr "dup_x1", bytes 0),
  (0x5b, jstr "dup_x2", bytes 0), (0x5c, jstr "dup2", bytes 0), (0x5d, jstr "dup2_x1", bytes 0), (0x5e, jstr "dup2_x2", bytes 0),
  (0x5f, jstr "swap", bytes 0),
  (0x60, jstr "iadd", bytes 0), (0x61, jstr "ladd", bytes 0), (0x62, jstr "fadd", bytes 0), (0x63, jstr "dadd", bytes 0),
  (0x64, jstr "isub", bytes 0), (0x65, jstr "lsub", bytes 0), (0x66, jstr "fsub", bytes 0), (0x67, jstr "dsub", bytes 0),
  (0x68, jstr "imul", bytes 0), (0x69, jstr "lmul", bytes 0), (0x6a, jstr "fmul", bytes 0), (0x6b, jstr "dmul", bytes 0),
  (0x6c, jstr "idiv", bytes 0), (0x6d, jstr "ldiv", bytes 0), (0x6e, jstr "fdiv", bytes 0), (0x6f, jstr "ddiv", bytes 0),
  (0x70, jstr "irem", bytes 0), (0x71, jstr "lrem", bytes 0), (0x72, jstr "frem", bytes 0), (0x73, jstr "drem", bytes 0),
  (0x74, jstr "ineg", bytes 0), (0x75, jstr "lneg", bytes 0), (0x76, jstr "fneg", bytes 0), (0x77, jstr "dneg", bytes 0),
  (0x78, jstr "ishl", bytes 0), (0x79, jstr "lshl", bytes 0), (0x7a, jstr "ishr", bytes 0), (0x7b, jstr "lshr", bytes 0),
  (0x7c, jstr "iushr", bytes 0), (0x7d, jstr "lushr", bytes 0), (0x7e, jstr "iand", bytes 0), (0x7f, jstr "land", bytes 0),
  (0x80, jstr "ior", bytes 0), (0x81, jstr "lor", bytes 0), (0x82, jstr "ixor", bytes 0), (0x83, jstr "lxor", bytes 0),
  (0x84, jstr "iinc", bytes 2),
  (0x85, jstr "i2l", bytes 0), (0x86, jstr "i2f", bytes 0), (0x87, jstr "i2d", bytes 0), (0x88, jstr "l2i", bytes 0),
  (0x89, jstr "l2f", bytes 0), (0x8a, jstr "l2d", bytes 0), (0x8b, jstr "f2i", bytes 0), (0x8c, jstr "f2l", bytes 0),
  (0x8d, jstr "f2d", bytes 0), (0x8e, jstr "d2i", bytes 0), (0x8f, jstr "d2l", bytes 0), (0x90, jstr "d2f", bytes 0),
  (0x91, jstr "i2b", bytes 0), (0x92, jstr "i2c", bytes 0), (0x93, jstr "i2s", bytes 0),
  (0x94, jstr "lcmp", bytes 0), (0x95, jstr "fcmpl", bytes 0), (0x96, jstr "fcmpg", bytes 0), (0x97, jstr "dcmpl", bytes 0),
  (0x98, jstr "dcmpg", bytes 0),
  (0x99, jstr "ifeq", branch16), (0x9a, jstr "ifne", branch16), (0x9b, jstr "iflt", branch16), (0x9c, jstr "ifge", branch16),
  (0x9d, jstr "ifgt", branch16), (0x9e, jstr "ifle", branch16),
  (0x9f, jstr "if_icmpeq", branch16), (0xa0, jstr "if_icmpne", branch16), (0xa1, jstr "if_icmplt", branch16),
  (0xa2, jstr "if_icmpge", branch16), (0xa3, jstr "if_icmpgt", branch16), (0xa4, jstr "if_icmple", branch16),
  (0xa5, jstr "if_acmpeq", branch16), (0xa6, jstr "if_acmpne", branch16),
  (0xa7, jstr "goto", branch16), (0xa8, jstr "jsr", branch16), (0xa9, jstr "ret", bytes 1),
  (0xaa, jstr "tableswitch", tableswitch), (0xab, jstr "lookupswitch", lookupswitch),
  (0xac, jstr "ireturn", bytes 0), (0xad, jstr "lreturn", bytes 0), (0xae, jstr "freturn", bytes 0), (0xaf, jstr "dreturn", bytes 0),
  (0xb0, jstr "areturn", bytes 0), (0xb1, jstr "return", bytes 0),
  (0xb2, jstr "getstatic", bytes 2), (0xb3, jstr "putstatic", bytes 2), (0xb4, jstr "getfield", bytes 2), (0xb5, jstr "putfield", bytes 2),
  (0xb6, jstr "invokevirtual", bytes 2), (0xb7, jstr "invokespecial", bytes 2), (0xb8, jstr "invokestatic", bytes 2),
  (0xb9, jstr "invokeinterface", bytes 4), (0xba, jstr "invokedynamic", bytes 4),
  (0xbb, jstr "new", bytes 2), (0xbc, jstr "newarray", bytes 1), (0xbd, jstr "anewarray", bytes 2),
  (0xbe, jstr "arraylength", bytes 0), (0xbf, jstr "athrow", bytes 0),
  (0xc0, jstr "checkcast", bytes 2), (0xc1, jstr "instanceof", bytes 2),
  (0xc2, jstr "monitorenter", bytes 0), (0xc3, jstr "monitorexit", bytes 0),
  (0xc4, jstr "wide", wide), (0xc5, jstr "multianewarray", bytes 3),
  (0xc6, jstr "ifnull", branch16), (0xc7, jstr "ifnonnull", branch16),
  (0xc8, jstr "goto_w", branch32), (0xc9, jstr "jsr_w", branch32)
]

/-- §6.2 reserved opcodes: may not appear in a class file -/
def reserved : List (Nat × JStr) := [(0xca, jstr "breakpoint"), (0xfe, jstr "impdep1"), (0xff, jstr "impdep2")]

/-- instructions that are another instruction in a different encoding: (opcode, the general form, implicit operand).
`<t>load_<n>` / `<t>store_<n>` "is the same as `<t>load` / `<t>store` with an index of `<n>`"; `ldc_w` is `ldc` with a
two-byte index, `ldc2_w` is its variant for `long` / `double` constants; `goto_w` / `jsr_w` are `goto` / `jsr` with a
four-byte offset. -/
def forms : List (Nat × Nat × Option Nat) := [
  (0x13, 0x12, none), (0x14, 0x12, none),
  (0x1a, 0x15, some 0), (0x1b, 0x15, some 1), (0x1c, 0x15, some 2), (0x1d, 0x15, some 3),
  (0x1e, 0x16, some 0), (0x1f, 0x16, some 1), (0x20, 0x16, some 2), (0x21, 0x16, some 3),
  (0x22, 0x17, some 0), (0x23, 0x17, some 1), (0x24, 0x17, some 2), (0x25, 0x17, some 3),
  (0x26, 0x18, some 0), (0x27, 0x18, some 1), (0x28, 0x18, some 2), (0x29, 0x18, some 3),
  (0x2a, 0x19, some 0), (0x2b, 0x19, some 1), (0x2c, 0x19, some 2), (0x2d, 0x19, some 3),
  (0x3b, 0x36, some 0), (0x3c, 0x36, some 1), (0x3d, 0x36, some 2), (0x3e, 0x36, some 3),
  (0x3f, 0x37, some 0), (0x40, 0x37, some 1), (0x41, 0x37, some 2), (0x42, 0x37, some 3),
  (0x43, 0x38, some 0), (0x44, 0x38, some 1), (0x45, 0x38, some 2), (0x46, 0x38, some 3),
  (0x47, 0x39, some 0), (0x48, 0x39, some 1), (0x49, 0x39, some 2), (0x4a, 0x39, some 3),
  (0x4b, 0x3a, some 0), (0x4c, 0x3a, some 1), (0x4d, 0x3a, some 2), (0x4e, 0x3a, some 3),
  (0xc8, 0xa7, none), (0xc9, 0xa8, none)
]

/-- §6.5 *wide*: the opcodes that may follow `wide` and the number of bytes after that opcode
(format 1: `indexbyte1 indexbyte2`; format 2, `iinc`: `indexbyte1 indexbyte2 constbyte1 constbyte2`) -/
def wideForms : List (Nat × Nat) := [
  (0x15, 2), (0x16, 2), (0x17, 2), (0x18, 2), (0x19, 2),
  (0x36, 2), (0x37, 2), (0x38, 2), (0x39, 2), (0x3a, 2),
  (0xa9, 2), (0x84, 4)
]

/-- the conditional branches, each with the one that branches exactly when it does not -/
def negations : List (Nat × Nat) := [
  (0x99, 0x9a), (0x9a, 0x99), (0x9b, 0x9c), (0x9c, 0x9b), (0x9d, 0x9e), (0x9e, 0x9d),
  (0x9f, 0xa0), (0xa0, 0x9f), (0xa1, 0xa2), (0xa2, 0xa1), (0xa3, 0xa4), (0xa4, 0xa3),
  (0xa5, 0xa6), (0xa6, 0xa5), (0xc6, 0xc7), (0xc7, 0xc6)
]

/-! ## lookups -/

/-- `opcodes` lists the opcodes 0..201 in order without gaps, so the position in the table is the opcode (checked:
`Thm.C01.jvms_tables_consistent`) -/
def mnemonic? (op : Nat) : Option JStr := (opcodes[op]?).map (·.2.1)
def operands? (op : Nat) : Option Operands := (opcodes[op]?).map (·.2.2)
/-- the general form of an opcode (itself unless listed in `forms`) -/
def baseOf (op : Nat) : Nat := ((forms.lookup op).map (·.1)).getD op
def implicitIndex? (op : Nat) : Option Nat := (forms.lookup op).bind (·.2)

/-! ## §4.1 / §4.4 -/

def magic : Nat := 0xCAFEBABE

/-- Table 4.4-A with the `cp_info` layouts of §4.4.1–§4.4.11: (tag, `CONSTANT_<name>`, widths of the fixed items after the
tag, whether `bytes[length]` follows, constant-pool indices occupied (§4.4.5: 8-byte constants take two)) -/
def poolTags : List (Nat × JStr × List Nat × Bool × Nat) := [
  (1, jstr "Utf8", [2], true, 1),
  (3, jstr "Integer", [4], false, 1),
  (4, jstr "Float", [4], false, 1),
  (5, jstr "Long", [4, 4], false, 2),
  (6, jstr "Double", [4, 4], false, 2),
  (7, jstr "Class", [2], false, 1),
  (8, jstr "String", [2], false, 1),
  (9, jstr "Fieldref", [2, 2], false, 1),
  (10, jstr "Methodref", [2, 2], false, 1),
  (11, jstr "InterfaceMethodref", [2, 2], false, 1),
  (12, jstr "NameAndType", [2, 2], false, 1),
  (15, jstr "MethodHandle", [1, 2], false, 1),
  (16, jstr "MethodType", [2], false, 1),
  (17, jstr "Dynamic", [2, 2], false, 1),
  (18, jstr "InvokeDynamic", [2, 2], false, 1),
  (19, jstr "Module", [2], false, 1),
  (20, jstr "Package", [2], false, 1)
]

/-- Table 5.4.3.5-A: (kind, `REF_<name>`) -/
def methodHandleKinds : List (Nat × JStr) := [
  (1, jstr "getField"), (2, jstr "getStatic"), (3, jstr "putField"), (4, jstr "putStatic"),
  (5, jstr "invokeVirtual"), (6, jstr "invokeStatic"), (7, jstr "invokeSpecial"), (8, jstr "newInvokeSpecial"),
  (9, jstr "invokeInterface")
]

/-- Table 4.7-A: the predefined attributes -/
def attributeNames : List JStr := [
  jstr "ConstantValue", jstr "Code", jstr "StackMapTable", jstr "Exceptions", jstr "InnerClasses", jstr "EnclosingMethod",
  jstr "Synthetic", jstr "Signature", jstr "SourceFile", jstr "SourceDebugExtension", jstr "LineNumberTable",
  jstr "LocalVariableTable", jstr "LocalVariableTypeTable", jstr "Deprecated", jstr "RuntimeVisibleAnnotations",
  jstr "RuntimeInvisibleAnnotations", jstr "RuntimeVisibleParameterAnnotations", jstr "RuntimeInvisibleParameterAnnotations",
  jstr "RuntimeVisibleTypeAnnotations", jstr "RuntimeInvisibleTypeAnnotations", jstr "AnnotationDefault", jstr "BootstrapMethods",
  jstr "MethodParameters", jstr "Module", jstr "ModulePackages", jstr "ModuleMainClass", jstr "NestHost", jstr "NestMembers",
  jstr "Record", jstr "PermittedSubclasses"
]

/-- the CLDC (Java ME) predecessor of `StackMapTable`; not a JVMS SE attribute -/
def cldcAttributeNames : List JStr := [jstr "StackMap"]

/-! ## §4.7.4 -/

/-- `stack_map_frame` by `frame_type`: (first, last, union member, the frame it denotes, where `offset_delta` comes from:
`some k` = `frame_type - k`, `none` = an explicit `u2`) -/
def frameTypes : List (Nat × Nat × JStr × JStr × Option Nat) := [
  (0, 63, jstr "same_frame", jstr "same", some 0),
  (64, 127, jstr "same_locals_1_stack_item_frame", jstr "same_locals_1_stack_item", some 64),
  (247, 247, jstr "same_locals_1_stack_item_frame_extended", jstr "same_locals_1_stack_item", none),
  (248, 250, jstr "chop_frame", jstr "chop", none),
  (251, 251, jstr "same_frame_extended", jstr "same", none),
  (252, 254, jstr "append_frame", jstr "append", none),
  (255, 255, jstr "full_frame", jstr "full", none)
]
/-- tags 128–246 are reserved for future use -/
def frameReserved : Nat × Nat := (128, 246)
/-- `chop_frame`: `k = 251 - frame_type` locals are absent; `append_frame`: `k = frame_type - 251` additional locals -/
def chopFrom : Nat := 251
def appendFrom : Nat := 251

/-- `verification_type_info`: (tag, `ITEM_<name>`, bytes after the tag) -/
def verificationTypes : List (Nat × JStr × Nat) := [
  (0, jstr "Top", 0), (1, jstr "Integer", 0), (2, jstr "Float", 0), (3, jstr "Double", 0), (4, jstr "Long", 0),
  (5, jstr "Null", 0), (6, jstr "UninitializedThis", 0), (7, jstr "Object", 2), (8, jstr "Uninitialized", 2)
]

/-! ## §4.7.16.1 -/

/-- Table 4.7.16.1-A: (tag character, type, the constant-pool entry kind of `const_value_index`, `""` for the other
union members) -/
def elementValueTags : List (Nat × JStr × JStr) := [
  (66, jstr "byte", jstr "Integer"), (67, jstr "char", jstr "Integer"), (68, jstr "double", jstr "Double"),
  (70, jstr "float", jstr "Float"), (73, jstr "int", jstr "Integer"), (74, jstr "long", jstr "Long"),
  (83, jstr "short", jstr "Integer"), (90, jstr "boolean", jstr "Integer"), (115, jstr "String", jstr "Utf8"),
  (101, jstr "enum", []), (99, jstr "class", []), (64, jstr "annotation", []), (91, jstr "array", [])
]

/-! ## §4.7.20 -/

/-- Tables 4.7.20-A/B: (`target_type`, kind of target — spelt as in `com.sun.tools.javac.code.TargetType`, the JVMS gives
prose only —, `target_info` union member) -/
def targetTypes : List (Nat × JStr × JStr) := [
  (0x00, jstr "CLASS_TYPE_PARAMETER", jstr "type_parameter_target"),
  (0x01, jstr "METHOD_TYPE_PARAMETER", jstr "type_parameter_target"),
  (0x10, jstr "CLASS_EXTENDS", jstr "supertype_target"),
  (0x11, jstr "CLASS_TYPE_PARAMETER_BOUND", jstr "type_parameter_bound_target"),
  (0x12, jstr "METHOD_TYPE_PARAMETER_BOUND", jstr "type_parameter_bound_target"),
  (0x13, jstr "FIELD", jstr "empty_target"),
  (0x14, jstr "METHOD_RETURN", jstr "empty_target"),
  (0x15, jstr "METHOD_RECEIVER", jstr "empty_target"),
  (0x16, jstr "METHOD_FORMAL_PARAMETER", jstr "formal_parameter_target"),
  (0x17, jstr "THROWS", jstr "throws_target"),
  (0x40, jstr "LOCAL_VARIABLE", jstr "localvar_target"),
  (0x41, jstr "RESOURCE_VARIABLE", jstr "localvar_target"),
  (0x42, jstr "EXCEPTION_PARAMETER", jstr "catch_target"),
  (0x43, jstr "INSTANCEOF", jstr "offset_target"),
  (0x44, jstr "NEW", jstr "offset_target"),
  (0x45, jstr "CONSTRUCTOR_REFERENCE", jstr "offset_target"),
  (0x46, jstr "METHOD_REFERENCE", jstr "offset_target"),
  (0x47, jstr "CAST", jstr "type_argument_target"),
  (0x48, jstr "CONSTRUCTOR_INVOCATION_TYPE_ARGUMENT", jstr "type_argument_target"),
  (0x49, jstr "METHOD_INVOCATION_TYPE_ARGUMENT", jstr "type_argument_target"),
  (0x4a, jstr "CONSTRUCTOR_REFERENCE_TYPE_ARGUMENT", jstr "type_argument_target"),
  (0x4b, jstr "METHOD_REFERENCE_TYPE_ARGUMENT", jstr "type_argument_target")
]

/-! ## newarray -/

/-- Table 6.5.newarray-A -/
def arrayTypes : List (Nat × JStr) := [
  (4, jstr "T_BOOLEAN"), (5, jstr "T_CHAR"), (6, jstr "T_FLOAT"), (7, jstr "T_DOUBLE"),
  (8, jstr "T_BYTE"), (9, jstr "T_SHORT"), (10, jstr "T_INT"), (11, jstr "T_LONG")
]

/-! ## access flags: (`ACC_<NAME>` lower-cased, mask), in the order of the tables -/

/-- Table 4.1-B -/
def classFlags : List (JStr × Nat) := [
  (jstr "public", 0x0001), (jstr "final", 0x0010), (jstr "super", 0x0020), (jstr "interface", 0x0200), (jstr "abstract", 0x0400),
  (jstr "synthetic", 0x1000), (jstr "annotation", 0x2000), (jstr "enum", 0x4000), (jstr "module", 0x8000)]
/-- Table 4.5-A -/
def fieldFlags : List (JStr × Nat) := [
  (jstr "public", 0x0001), (jstr "private", 0x0002), (jstr "protected", 0x0004), (jstr "static", 0x0008), (jstr "final", 0x0010),
  (jstr "volatile", 0x0040), (jstr "transient", 0x0080), (jstr "synthetic", 0x1000), (jstr "enum", 0x4000)]
/-- Table 4.6-A -/
def methodFlags : List (JStr × Nat) := [
  (jstr "public", 0x0001), (jstr "private", 0x0002), (jstr "protected", 0x0004), (jstr "static", 0x0008), (jstr "final", 0x0010),
  (jstr "synchronized", 0x0020), (jstr "bridge", 0x0040), (jstr "varargs", 0x0080), (jstr "native", 0x0100),
  (jstr "abstract", 0x0400), (jstr "strict", 0x0800), (jstr "synthetic", 0x1000)]
/-- Table 4.7.6-A -/
def innerClassFlags : List (JStr × Nat) := [
  (jstr "public", 0x0001), (jstr "private", 0x0002), (jstr "protected", 0x0004), (jstr "static", 0x0008), (jstr "final", 0x0010),
  (jstr "interface", 0x0200), (jstr "abstract", 0x0400), (jstr "synthetic", 0x1000), (jstr "annotation", 0x2000),
  (jstr "enum", 0x4000)]
/-- §4.7.24 `MethodParameters` -/
def parameterFlags : List (JStr × Nat) := [(jstr "final", 0x0010), (jstr "synthetic", 0x1000), (jstr "mandated", 0x8000)]
/-- §4.7.25 `module_flags` -/
def moduleFlags : List (JStr × Nat) := [(jstr "open", 0x0020), (jstr "synthetic", 0x1000), (jstr "mandated", 0x8000)]
/-- §4.7.25 `requires_flags` -/
def requiresFlags : List (JStr × Nat) := [
  (jstr "transitive", 0x0020), (jstr "static_phase", 0x0040), (jstr "synthetic", 0x1000), (jstr "mandated", 0x8000)]
/-- §4.7.25 `exports_flags` -/
def exportsFlags : List (JStr × Nat) := [(jstr "synthetic", 0x1000), (jstr "mandated", 0x8000)]
/-- §4.7.25 `opens_flags` -/
def opensFlags : List (JStr × Nat) := [(jstr "synthetic", 0x1000), (jstr "mandated", 0x8000)]

/-! ## name comparison -/

def lowerChar (c : Nat) : Nat := if 65 ≤ c ∧ c ≤ 90 then c + 32 else c
/-- ASCII lower case -/
def lower (s : JStr) : JStr := s.map lowerChar
/-- ASCII lower case without underscores: `IF_ICMPEQ`, `if_icmpeq` and `IfICmpEq` all become `ificmpeq` -/
def squash (s : JStr) : JStr := (s.filter (· != 95)).map lowerChar

end JvmsTables
