import FeatherModel.Model.Descriptor

/-!
# JVMS §4.2 / §4.3 grammar of names and descriptors (specification for C18)

A transcription of the Java Virtual Machine Specification, independent of the parser model: it only shares the
*value* types `Prim`, `Base`, `Ty` (the structure a descriptor denotes) and the character constants with
`Model/Descriptor.lean`; none of the model's functions is mentioned here.

    FieldDescriptor:  FieldType
    FieldType:        BaseType | ObjectType | ArrayType
    BaseType:         B | C | D | F | I | J | S | Z
    ObjectType:       L ClassName ;
    ArrayType:        [ ComponentType            ComponentType: FieldType
    MethodDescriptor: ( {ParameterDescriptor} ) ReturnDescriptor
    ReturnDescriptor: FieldType | V                                            (§4.3.2, §4.3.3)

"An array type descriptor is valid only if it represents 255 or fewer dimensions." (§4.3.2)
ClassName: binary name in internal form = identifiers separated by `/` (§4.2.1); an identifier = unqualified name =
at least one code point, none of `. ; [ /` (§4.2.2); method names additionally exclude `<` `>` except for the two
special names `<init>` and `<clinit>`.
-/

namespace DescriptorGrammar
open Descriptor

/-- §4.2.2 unqualified name -/
def Ident (s : JStr) : Prop := s ≠ [] ∧ ∀ c ∈ s, c ≠ DOT ∧ c ≠ SEMI ∧ c ≠ LBRACKET ∧ c ≠ SLASH

/-- §4.2.2 method name -/
def MethodIdent (s : JStr) : Prop :=
  s = jstr "<init>" ∨ s = jstr "<clinit>" ∨
    (s ≠ [] ∧ ∀ c ∈ s, c ≠ DOT ∧ c ≠ SEMI ∧ c ≠ LBRACKET ∧ c ≠ SLASH ∧ c ≠ cLT ∧ c ≠ cGT)

/-- §4.2.1 binary class name in internal form: `Ident ("/" Ident)*` -/
inductive ClassName : JStr → Prop where
  | one {i : JStr} : Ident i → ClassName i
  | cons {i rest : JStr} : Ident i → ClassName rest → ClassName (i ++ SLASH :: rest)

/-- the structure denoted by a non-array field type -/
inductive BaseTy : JStr → Base → Prop where
  | prim (p : Prim) : BaseTy [p.char] (.prim p)
  | obj {n : JStr} : ClassName n → BaseTy (cL :: n ++ [SEMI]) (.obj n)

/-- `FieldTy s t`: `s` is a field descriptor and denotes `t`.  The array rule is the recursive JVMS one; the
dimension count is what `Type::Array(dims, _)` records, capped at 255. -/
inductive FieldTy : JStr → Ty → Prop where
  | prim (p : Prim) : FieldTy [p.char] (.prim p)
  | obj {n : JStr} : ClassName n → FieldTy (cL :: n ++ [SEMI]) (.obj n)
  | arr1 {s : JStr} {b : Base} : BaseTy s b → FieldTy (LBRACKET :: s) (.arr 1 b)
  | arrS {s : JStr} {d : Nat} {b : Base} : FieldTy s (.arr d b) → d < 255 → FieldTy (LBRACKET :: s) (.arr (d + 1) b)

inductive ReturnTy : JStr → Option Ty → Prop where
  | void : ReturnTy [cV] none
  | ty {s : JStr} {t : Ty} : FieldTy s t → ReturnTy s (some t)

inductive ParamsTy : JStr → List Ty → Prop where
  | nil : ParamsTy [] []
  | cons {s r : JStr} {t : Ty} {ts : List Ty} : FieldTy s t → ParamsTy r ts → ParamsTy (s ++ r) (t :: ts)

inductive MethodTy : JStr → List Ty × Option Ty → Prop where
  | mk {ps r : JStr} {ts : List Ty} {rt : Option Ty} :
      ParamsTy ps ts → ReturnTy r rt → MethodTy (LPAREN :: ps ++ RPAREN :: r) (ts, rt)

/-- what the *documentation* of `ArrClassName` promises: "always start with `[` followed by a field descriptor",
i.e. an array field descriptor -/
def ArrayDescriptor (s : JStr) : Prop := ∃ d b, FieldTy s (.arr d b)

/-- what the documentation of `ClassName` promises: "can both be an array class name as allowed by `ArrClassName`
and an object class name as allowed by `ObjClassName`" (error text: "must be either array field descriptor; or must
consist out of `/` separated non-empty parts, and not contain any of `.`, `;`, `[`") -/
def AnyClassName (s : JStr) : Prop := ClassName s ∨ ArrayDescriptor s

end DescriptorGrammar
