/-!
# Maven's documented scope-composition table (trusted transcription)

Source: "Introduction to the Dependency Mechanism", section *Dependency Scope*
(https://maven.apache.org/guides/introduction/introduction-to-dependency-mechanism.html#dependency-scope):

> If a dependency is set to the scope in the left column, a transitive dependency of that dependency with the scope
> across the top row results in a dependency in the main project with the scope listed at the intersection.
> If no scope is listed, it means the dependency is omitted.

```
            | compile   | provided | runtime  | test
  compile   | compile   |    -     | runtime  |  -
  provided  | provided  |    -     | provided |  -
  runtime   | runtime   |    -     | runtime  |  -
  test      | test      |    -     | test     |  -
```

The documented table has no `system` row or column.  The guide describes `system` as "similar to `provided`", so the
extension used here treats it like `provided`: a transitive `system` dependency is omitted (column), and the
transitive dependencies of a `system` dependency keep the scope `system` (row; the `provided` row keeps `provided`).
This file is written independently of the Rust source; ids are the scope ids used throughout
(0 compile, 1 runtime, 2 test, 3 system, 4 provided).
-/

namespace Spec.MavenScope

inductive S where
  | compile | runtime | test | system | provided
  deriving DecidableEq, Repr

def S.id : S → Nat
  | .compile => 0 | .runtime => 1 | .test => 2 | .system => 3 | .provided => 4

def S.all : List S := [.compile, .runtime, .test, .system, .provided]

/-- the four scopes of the documented table -/
def S.documented : List S := [.compile, .provided, .runtime, .test]

/-- `table left top`: row = scope of the direct dependency, column = scope of its transitive dependency;
`none` is the `-` of the table (omitted) -/
def table : S → S → Option S
  -- row compile
  | .compile, .compile => some .compile
  | .compile, .provided => none
  | .compile, .runtime => some .runtime
  | .compile, .test => none
  -- row provided
  | .provided, .compile => some .provided
  | .provided, .provided => none
  | .provided, .runtime => some .provided
  | .provided, .test => none
  -- row runtime
  | .runtime, .compile => some .runtime
  | .runtime, .provided => none
  | .runtime, .runtime => some .runtime
  | .runtime, .test => none
  -- row test
  | .test, .compile => some .test
  | .test, .provided => none
  | .test, .runtime => some .test
  | .test, .test => none
  -- extension: `system` "similar to provided"
  | _, .system => none
  | .system, .compile => some .system
  | .system, .provided => none
  | .system, .runtime => some .system
  | .system, .test => none

/-- the same table on scope ids (`none` for ids that are not scopes) -/
def tableId (left top : Nat) : Option (Option Nat) :=
  match S.all.find? (·.id == left), S.all.find? (·.id == top) with
  | some l, some t => some ((table l t).map S.id)
  | _, _ => none

/-- the scope names as written in a POM -/
def S.name : S → List Nat
  | .compile => [99, 111, 109, 112, 105, 108, 101]
  | .runtime => [114, 117, 110, 116, 105, 109, 101]
  | .test => [116, 101, 115, 116]
  | .system => [115, 121, 115, 116, 101, 109]
  | .provided => [112, 114, 111, 118, 105, 100, 101, 100]

end Spec.MavenScope
