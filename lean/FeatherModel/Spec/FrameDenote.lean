import FeatherModel.Model.FrameWrite
import FeatherModel.Spec.FrameDecode

/-!
# When a decoded `StackMapTable` denotes a list of frames

The decoder of `Spec/FrameDecode.lean` yields frames at absolute bytecode offsets whose verification types carry a
constant-pool index (`Object`) or a bytecode offset (`Uninitialized`). It denotes the frames of the tree when

* there are as many frames, in the same order, each at the offset the tree's frame is attached to;
* the frames are of the same kind with the same chop count / the same number of locals and stack items;
* every type is the same item; an `Object` type's index designates, in the constant pool that is written to the file, a
  `CONSTANT_Class_info` whose name is the class of the tree's type; an `Uninitialized` type's offset is the bytecode
  offset of its label.
-/

namespace FrameDenote
open FrameWrite FrameDecode
open PoolWrite (Pool)

/-- index `i` holds a `CONSTANT_Class_info` whose `name_index` holds the `CONSTANT_Utf8_info` `c` -/
def clsAt (p : Pool) (c : JStr) (i : Nat) : Bool :=
  match p.get i with
  | some (.cls u) => p.get u == some (.utf8 c)
  | _ => false

def denotesV (lp : Nat → Option Nat) (p : Pool) : VType → DType → Bool
  | .top, .top => true
  | .int, .int => true
  | .float, .float => true
  | .double, .double => true
  | .long, .long => true
  | .null, .null => true
  | .uninitThis, .uninitThis => true
  | .object c, .object i => clsAt p c i
  | .uninit l, .uninit o => lp l == some o
  | _, _ => false

def denotesVs (lp : Nat → Option Nat) (p : Pool) : List VType → List DType → Bool
  | [], [] => true
  | v :: vs, d :: ds => denotesV lp p v d && denotesVs lp p vs ds
  | _, _ => false

def denotesF (lp : Nat → Option Nat) (p : Pool) : Frame → DFrame → Bool
  | .same, .same => true
  | .same1 v, .same1 d => denotesV lp p v d
  | .chop k, .chop k' => k == k'
  | .append ls, .append ds => denotesVs lp p ls ds
  | .full ls ss, .full dl dss => denotesVs lp p ls dl && denotesVs lp p ss dss
  | _, _ => false

/-- frame by frame: same offset, the decoded frame denotes the tree's frame -/
def denotesAll (lp : Nat → Option Nat) (p : Pool) : List (Nat × Frame) → List (Nat × DFrame) → Bool
  | [], [] => true
  | (o, f) :: fs, (o', d) :: ds => o == o' && denotesF lp p f d && denotesAll lp p fs ds
  | _, _ => false

/-! ## the frames the writer accepts (JVMS §4.7.4: a chop frame removes 1–3 locals, an append frame adds 1–3, counts are `u2`) -/

/-- the label of an `Uninitialized` type has a bytecode offset -/
def vtypeOk (lp : Nat → Option Nat) : VType → Bool
  | .uninit l => (lp l).isSome
  | _ => true

def frameOk (lp : Nat → Option Nat) : Frame → Bool
  | .same => true
  | .same1 v => vtypeOk lp v
  | .chop k => decide (1 ≤ k ∧ k ≤ 3)
  | .append ls => decide (1 ≤ ls.length ∧ ls.length ≤ 3) && ls.all (vtypeOk lp)
  | .full ls ss => decide (ls.length ≤ 65535) && ls.all (vtypeOk lp) && (decide (ss.length ≤ 65535) && ss.all (vtypeOk lp))

/-- at most 65535 frames, each acceptable -/
def tableOk (lp : Nat → Option Nat) (fs : List (Nat × Frame)) : Bool :=
  decide (fs.length ≤ 65535) && fs.all (fun f => frameOk lp f.2)

/-- number of `Object` types (each needs at most two new pool entries: the name and the class) -/
def vObjects : List VType → Nat
  | [] => 0
  | .object _ :: vs => vObjects vs + 1
  | _ :: vs => vObjects vs

def objects : Frame → Nat
  | .same1 v => vObjects [v]
  | .append ls => vObjects ls
  | .full ls ss => vObjects ls + vObjects ss
  | _ => 0

def objectsAll : List (Nat × Frame) → Nat
  | [] => 0
  | f :: fs => objects f.2 + objectsAll fs

/-! ## hypotheses of the theorems -/

/-- every label with an offset has a `u16` offset (the label table of `write_code`) -/
def LpOk (lp : Nat → Option Nat) : Prop := ∀ t x, lp t = some x → x ≤ 65535

/-- frames at strictly increasing `u16` offsets, all behind `prev`: what `write_code` collects (one frame per
instruction, instructions at increasing offsets) -/
def Incr : Option Nat → List (Nat × Frame) → Prop
  | _, [] => True
  | prev, (o, _) :: fs => (match prev with | none => True | some q => q < o) ∧ o ≤ 65535 ∧ Incr (some o) fs

end FrameDenote
