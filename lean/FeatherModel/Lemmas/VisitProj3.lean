import FeatherModel.Lemmas.VisitProj2

/-!
# C17 lemmas — projection, third part: `Code`, methods
-/

set_option linter.unusedSimpArgs false

namespace Visit

/-! ## code attributes: relation between what the full and the masked attribute loop accumulate -/

structure AccRel (P : Ev → Option Ev) (cm : Mask) (aF aM : KAcc) : Prop where
  evs : aM.evs = aF.evs.filterMap P
  frames : aM.frames = if cm .stackMapTable then aF.frames else none
  lines : aM.lines = if cm .lineNumberTable then aF.lines else []
  locals : aM.locals = lvProj cm aF.locals

theorem accRel_init (P : Ev → Option Ev) (cm : Mask) : AccRel P cm {} {} :=
  ⟨rfl, by simp, by simp, rfl⟩

theorem accAdd_rel_on {P : Ev → Option Ev} {cm : Mask} {i : Nat} {a : Attr} {aF aF' aM : KAcc}
    (hP : ∀ unk k pay, P (.kAttr i unk k pay) = keepIf (cm (evBit unk k)) (.kAttr i unk k pay))
    (hon : cm (codeBit a.k) = true) (h : accAdd i a aF = .ok aF') (hr : AccRel P cm aF aM) :
    ∃ aM', accAdd i a aM = .ok aM' ∧ AccRel P cm aF' aM' := by
  obtain ⟨r1, r2, r3, r4⟩ := hr
  unfold accAdd at h ⊢
  cases hk : a.k <;> simp only [hk, codeBit] at h hon ⊢
  case stackMapTable | stackMap =>
    split at h
    · simp at h
    · rename_i hn
      simp at h; subst h
      simp only [hon, if_true] at r2
      simp only [r2, hn]
      exact ⟨_, rfl, ⟨r1, by simp [hon], r3, r4⟩⟩
  case lineNumberTable =>
    simp at h; subst h
    exact ⟨_, rfl, ⟨r1, r2, by simp [r3, hon], r4⟩⟩
  case lvt =>
    simp at h; subst h
    exact ⟨_, rfl, ⟨r1, r2, r3, by simp [r4, hon, lvProj_append, lvProj_d]⟩⟩
  case lvtt =>
    simp at h; subst h
    exact ⟨_, rfl, ⟨r1, r2, r3, by simp [r4, hon, lvProj_append, lvProj_s]⟩⟩
  all_goals
    simp at h; subst h
    exact ⟨_, rfl, ⟨by simp [r1, List.filterMap_append, hP, keepIf, evBit, hon], r2, r3, r4⟩⟩

theorem accAdd_rel_off {P : Ev → Option Ev} {cm : Mask} {i : Nat} {a : Attr} {aF aF' aM : KAcc}
    (hP : ∀ unk k pay, P (.kAttr i unk k pay) = keepIf (cm (evBit unk k)) (.kAttr i unk k pay))
    (hoff : cm (codeBit a.k) = false) (h : accAdd i a aF = .ok aF') (hr : AccRel P cm aF aM) :
    AccRel P cm aF' aM := by
  obtain ⟨r1, r2, r3, r4⟩ := hr
  unfold accAdd at h
  cases hk : a.k <;> simp only [hk, codeBit] at h hoff
  case stackMapTable | stackMap =>
    split at h
    · simp at h
    · simp at h; subst h
      exact ⟨r1, by simp [r2, hoff], r3, r4⟩
  case lineNumberTable =>
    simp at h; subst h
    exact ⟨r1, r2, by simp [r3, hoff], r4⟩
  case lvt =>
    simp at h; subst h
    exact ⟨r1, r2, r3, by simp [r4, hoff, lvProj_append, lvProj_d]⟩
  case lvtt =>
    simp at h; subst h
    exact ⟨r1, r2, r3, by simp [r4, hoff, lvProj_append, lvProj_s]⟩
  all_goals
    simp at h; subst h
    exact ⟨by simp [r1, List.filterMap_append, hP, keepIf, evBit, hoff], r2, r3, r4⟩

theorem readCodeAttrs_proj {avail i : Nat} {P : Ev → Option Ev} {cm : Mask}
    (hP : ∀ unk k pay, P (.kAttr i unk k pay) = keepIf (cm (evBit unk k)) (.kAttr i unk k pay)) :
    ∀ (as : List Attr) (aF aM : KAcc) (p q : Nat) (aF' : KAcc),
      as.all codeAttrExact = true → AccRel P cm aF aM →
      readCodeAttrs avail i allMask aF as p = .ok (q, aF') →
      ∃ aM', readCodeAttrs avail i cm aM as p = .ok (q, aM') ∧ AccRel P cm aF' aM' := by
  intro as
  induction as with
  | nil =>
    intro aF aM p q aF' _ hr h
    simp [readCodeAttrs] at h; obtain ⟨rfl, rfl⟩ := h
    exact ⟨aM, by simp [readCodeAttrs], hr⟩
  | cons a as ih =>
    intro aF aM p q aF' hx hr h
    simp only [List.all_cons, Bool.and_eq_true] at hx
    have hx1 := hx.1
    simp only [codeAttrExact, beq_iff_eq] at hx1
    simp only [readCodeAttrs] at h ⊢
    obtain ⟨p1, hp1, h⟩ := bind_ok.mp h
    simp only [allMask, if_true] at h
    obtain ⟨q2, hq2, h⟩ := bind_ok.mp h
    obtain ⟨_, hex, h⟩ := bind_ok.mp h
    obtain ⟨aF1, hadd, h⟩ := bind_ok.mp h
    have h2 := need_ok hq2
    by_cases hm : cm (codeBit a.k) = true
    · obtain ⟨aM1, hadd', hr1⟩ := accAdd_rel_on hP hm hadd hr
      obtain ⟨aM', hres, hr'⟩ := ih _ _ _ _ _ hx.2 hr1 h
      exact ⟨aM', by simp [hp1, hm, hq2, hex, hadd', hres, bind, Except.bind], hr'⟩
    · have hm' : cm (codeBit a.k) = false := by simpa using hm
      have hr1 := accAdd_rel_off hP hm' hadd hr
      have hpos : p1 + a.len = q2 := by omega
      obtain ⟨aM', hres, hr'⟩ := ih _ _ _ _ _ hx.2 hr1 h
      exact ⟨aM', by simp [hp1, hm', hpos, hres, bind, Except.bind], hr'⟩

/-- every event the attribute loop of `read_code` delivers at once belongs to the code of method `i` -/
theorem accAdd_evs {i : Nat} {a : Attr} {acc acc' : KAcc} (h : accAdd i a acc = .ok acc') :
    acc'.evs = acc.evs ∨ ∃ unk, acc'.evs = acc.evs ++ [Ev.kAttr i unk a.k a.pay] := by
  unfold accAdd at h
  cases hk : a.k <;> simp only [hk] at h <;> (try split at h) <;> simp at h <;> subst h <;> simp

theorem accAdd_evs_shape {i : Nat} {a : Attr} {acc acc' : KAcc} (h : accAdd i a acc = .ok acc')
    (hs : ∀ e ∈ acc.evs, ∃ unk k pay, e = Ev.kAttr i unk k pay) :
    ∀ e ∈ acc'.evs, ∃ unk k pay, e = Ev.kAttr i unk k pay := by
  rcases accAdd_evs h with h1 | ⟨unk, h1⟩
  · rw [h1]; exact hs
  · rw [h1]
    intro e he
    rw [List.mem_append] at he
    rcases he with he | he
    · exact hs e he
    · simp at he; exact ⟨_, _, _, he⟩

theorem readCodeAttrs_evs_shape {avail i : Nat} {m : Mask} :
    ∀ (as : List Attr) (acc : KAcc) (p : Nat) (res : Nat × KAcc),
      (∀ e ∈ acc.evs, ∃ unk k pay, e = Ev.kAttr i unk k pay) →
      readCodeAttrs avail i m acc as p = .ok res →
      ∀ e ∈ res.2.evs, ∃ unk k pay, e = Ev.kAttr i unk k pay := by
  intro as
  induction as with
  | nil => intro acc p res hs h; simp [readCodeAttrs] at h; subst h; exact hs
  | cons a as ih =>
    intro acc p res hs h
    simp only [readCodeAttrs] at h
    obtain ⟨p1, hp1, h⟩ := bind_ok.mp h
    split at h
    · obtain ⟨q2, hq2, h⟩ := bind_ok.mp h
      obtain ⟨_, hex, h⟩ := bind_ok.mp h
      obtain ⟨acc1, hadd, h⟩ := bind_ok.mp h
      exact ih _ _ _ (accAdd_evs_shape hadd hs) h
    · exact ih _ _ _ hs h

theorem codeTail_drop {cfg : Cfg} {i : Nat} {c : Code} {acc : KAcc} (hn : codeMaskOf cfg i = none)
    (hs : ∀ e ∈ acc.evs, ∃ unk k pay, e = Ev.kAttr i unk k pay) :
    (codeTail i c acc).filterMap (proj cfg) = [] := by
  have h1 : acc.evs.filterMap (proj cfg) = [] := by
    rw [List.filterMap_eq_nil_iff]
    intro e he
    obtain ⟨unk, k, pay, rfl⟩ := hs e he
    simp [hn]
  unfold codeTail
  simp only [List.filterMap_append, h1, List.nil_append]
  simp [hn, keepIf]

theorem codeTail_proj {cfg : Cfg} {i : Nat} {c : Code} {cm : Mask} {aF aM : KAcc}
    (hcm : codeMaskOf cfg i = some cm) (hr : AccRel (proj cfg) cm aF aM) :
    codeTail i c aM = (codeTail i c aF).filterMap (proj cfg) := by
  obtain ⟨r1, r2, r3, r4⟩ := hr
  unfold codeTail
  simp only [List.filterMap_append, r1, r2]
  congr 1
  congr 1
  · congr 1
    simp [hcm, keepIf]
  · rw [r3]
    cases hl : cm .lineNumberTable
    · cases hh : aF.lines.isEmpty <;> simp [hh, hcm, hl, keepIf]
    · cases hh : aF.lines.isEmpty <;> simp [hh, hcm, hl, keepIf]
  · rw [r4]
    cases hh : aF.locals.isEmpty
    · simp only [hh, Bool.false_eq_true, if_false, List.filterMap_cons, proj_codeLocals, hcm]
      cases hf : (lvProj cm aF.locals).isEmpty
      · simp [hf]
      · simp [hf]
    · have : aF.locals = [] := by simpa using hh
      simp [this]

/-! ## the `Code` arm -/

def fullMc : MethodCfg := { mask := allMask, code := true, codeV := some allMask }

theorem readCode_proj {avail : Nat} {cfg : Cfg} {m : Mask} {mc : MethodCfg} {i : Nat}
    (hc : cfg.cls = some m) (hmi : cfg.methodsI = true) (hm : cfg.method i = some mc) {c : Code} {p p' : Nat} {evs : List Ev}
    (hx : c.exact = true) (h : readCode avail i fullMc c p = .ok (p', evs)) :
    readCode avail i mc c p = .ok (p', evs.filterMap (proj cfg)) := by
  have hpos := readCode_pos hx h
  simp at hpos
  have hx' := hx
  simp only [Code.exact, Bool.and_eq_true, beq_iff_eq] at hx'
  unfold readCode at h ⊢
  simp only [fullMc, if_true] at h
  obtain ⟨q1, hq1, h⟩ := bind_ok.mp h
  obtain ⟨q2, hq2, h⟩ := bind_ok.mp h
  obtain ⟨r', hr', h⟩ := bind_ok.mp h
  obtain ⟨q, accF⟩ := r'
  obtain ⟨_, hex, h⟩ := bind_ok.mp h
  simp [pure_ok] at h
  obtain ⟨rfl, rfl⟩ := h
  have hshape := readCodeAttrs_evs_shape _ _ _ _ (by simp) hr'
  cases hcode : mc.code with
  | false =>
    have hn : codeMaskOf cfg i = none := by simp [codeMaskOf, hc, hm, hcode]
    have := codeTail_drop (c := c) hn hshape
    simp [hpos, hc, hmi, hm, hcode, hn, keepIf, List.filterMap_append, this]
  | true =>
    cases hcv : mc.codeV with
    | none =>
      have hn : codeMaskOf cfg i = none := by simp [codeMaskOf, hc, hm, hcode, hcv]
      have := codeTail_drop (c := c) hn hshape
      simp [hpos, hc, hmi, hm, hcode, hn, keepIf, List.filterMap_append, this]
    | some cm =>
      have hcm : codeMaskOf cfg i = some cm := by simp [codeMaskOf, hc, hmi, hm, hcode, hcv]
      obtain ⟨aM', hres, hrel⟩ := readCodeAttrs_proj (P := proj cfg) (cm := cm)
        (by intro unk k pay; simp [hcm]) _ _ _ _ _ _ hx'.2 (accRel_init _ _) hr'
      have ht := codeTail_proj (c := c) hcm hrel
      simp [hq1, hq2, hres, hex, bind, Except.bind, pure_ok, hc, hmi, hm, hcode, hcm, keepIf, List.filterMap_append, ht]

/-- events of the `Code` arm vanish for a visitor that receives nothing of method `i` -/
theorem readCode_drop {avail : Nat} {cfg : Cfg} {i : Nat} {mc : MethodCfg}
    (hcb : proj cfg (.codeBegin i) = none) (hn : codeMaskOf cfg i = none)
    {c : Code} {p : Nat} {res : Nat × List Ev} (h : readCode avail i mc c p = .ok res) :
    res.2.filterMap (proj cfg) = [] := by
  unfold readCode at h
  split at h
  · split at h
    · simp at h; subst h; simp [hcb]
    · obtain ⟨q1, hq1, h⟩ := bind_ok.mp h
      obtain ⟨q2, hq2, h⟩ := bind_ok.mp h
      obtain ⟨r', hr', h⟩ := bind_ok.mp h
      obtain ⟨q, acc⟩ := r'
      obtain ⟨_, hex, h⟩ := bind_ok.mp h
      simp [pure_ok] at h; subst h
      have hshape := readCodeAttrs_evs_shape _ _ _ _ (by simp) hr'
      have := codeTail_drop (c := c) hn hshape
      simp only [List.filterMap_cons, hcb, proj_codeMaxs, hn, Option.isSome_none, keepIf, List.filterMap_append,
        this, proj_codeEnd]
      simp
  · simp at h; subst h; rfl

/-! ## methods -/

theorem readMethodAttrs_proj {avail : Nat} {cfg : Cfg} {m : Mask} {mc : MethodCfg} {i : Nat}
    (hc : cfg.cls = some m) (hmi : cfg.methodsI = true) (hm : cfg.method i = some mc) :
    ∀ (as : List MAttr) (p p' : Nat) (evs : List Ev) (d sy : Bool),
      as.all mattrExact = true → readMethodAttrs avail i fullMc as p = .ok (p', evs, d, sy) →
      readMethodAttrs avail i mc as p = .ok (p', evs.filterMap (proj cfg), d, sy) := by
  intro as
  induction as with
  | nil => intro p p' evs d sy _ h; simp [readMethodAttrs] at h ⊢; obtain ⟨rfl, rfl, rfl, rfl⟩ := h; simp
  | cons a as ih =>
    intro p p' evs d sy hx h
    simp only [List.all_cons, Bool.and_eq_true] at hx
    cases a with
    | leaf a =>
      simp only [readMethodAttrs] at h ⊢
      obtain ⟨q, hq, h⟩ := bind_ok.mp h
      obtain ⟨s, hs, h⟩ := bind_ok.mp h
      obtain ⟨r', hr', h⟩ := bind_ok.mp h
      obtain ⟨p2, evs2, d2, sy2⟩ := r'
      simp [pure_ok] at h
      obtain ⟨rfl, rfl, rfl, rfl⟩ := h
      have h1 := leaf1_proj (m := mc.mask) (proj cfg)
        (by intro unk k pay; simp [hc, hmi, hm]) (by simpa [mattrExact] using hx.1) hs
      have h2 := ih _ _ _ _ _ hx.2 hr'
      simp [hq, h1, h2, bind, Except.bind, pure_ok, List.filterMap_append]
    | code c =>
      simp only [readMethodAttrs] at h ⊢
      obtain ⟨q, hq, h⟩ := bind_ok.mp h
      obtain ⟨r1, hr1, h⟩ := bind_ok.mp h
      obtain ⟨q1, e1⟩ := r1
      obtain ⟨r', hr', h⟩ := bind_ok.mp h
      obtain ⟨p2, evs2, d2, sy2⟩ := r'
      simp [pure_ok] at h
      obtain ⟨rfl, rfl, rfl, rfl⟩ := h
      have h1 := readCode_proj hc hmi hm (by simpa [mattrExact] using hx.1) hr1
      have h2 := ih _ _ _ _ _ hx.2 hr'
      simp [hq, h1, h2, bind, Except.bind, pure_ok, List.filterMap_append]

theorem readMethodAttrs_skip {avail i : Nat} :
    ∀ (as : List MAttr) (p : Nat) (res : Nat × List Ev × Bool × Bool),
      as.all mattrExact = true → readMethodAttrs avail i fullMc as p = .ok res →
      skipAttrsGo avail (mattrLens as) p = .ok res.1 := by
  intro as
  induction as with
  | nil => intro p res _ h; simp [readMethodAttrs] at h; subst h; simp [mattrLens, skipAttrsGo]
  | cons a as ih =>
    intro p res hx h
    simp only [List.all_cons, Bool.and_eq_true] at hx
    cases a with
    | leaf a =>
      simp only [readMethodAttrs] at h
      obtain ⟨q, hq, h⟩ := bind_ok.mp h
      obtain ⟨s, hs, h⟩ := bind_ok.mp h
      obtain ⟨r', hr', h⟩ := bind_ok.mp h
      obtain ⟨p2, evs2, d2, sy2⟩ := r'
      simp [pure_ok] at h; subst h
      have h1 := leaf1_pos (by simpa [mattrExact] using hx.1) hs
      have h2 := ih _ _ hx.2 hr'
      simp only [mattrLens, List.map_cons, mattrLen, skipAttrsGo, hq, bind, Except.bind]
      rw [← h1]; exact h2
    | code c =>
      simp only [readMethodAttrs] at h
      obtain ⟨q, hq, h⟩ := bind_ok.mp h
      obtain ⟨r1, hr1, h⟩ := bind_ok.mp h
      obtain ⟨q1, e1⟩ := r1
      obtain ⟨r', hr', h⟩ := bind_ok.mp h
      obtain ⟨p2, evs2, d2, sy2⟩ := r'
      simp [pure_ok] at h; subst h
      have h1 := readCode_pos (by simpa [mattrExact] using hx.1) hr1
      simp at h1
      have h2 := ih _ _ hx.2 hr'
      simp only [mattrLens, List.map_cons, mattrLen, skipAttrsGo, hq, bind, Except.bind]
      rw [← h1]; exact h2

theorem readMethodAttrs_drop {avail : Nat} {cfg : Cfg} {i : Nat} {mc : MethodCfg}
    (hma : ∀ unk k pay, proj cfg (.mAttr i unk k pay) = none)
    (hcb : proj cfg (.codeBegin i) = none) (hn : codeMaskOf cfg i = none) :
    ∀ (as : List MAttr) (p : Nat) (res : Nat × List Ev × Bool × Bool),
      readMethodAttrs avail i mc as p = .ok res → res.2.1.filterMap (proj cfg) = [] := by
  intro as
  induction as with
  | nil => intro p res h; simp [readMethodAttrs] at h; subst h; rfl
  | cons a as ih =>
    intro p res h
    cases a with
    | leaf a =>
      simp only [readMethodAttrs] at h
      obtain ⟨q, hq, h⟩ := bind_ok.mp h
      obtain ⟨s, hs, h⟩ := bind_ok.mp h
      obtain ⟨r', hr', h⟩ := bind_ok.mp h
      obtain ⟨p2, evs2, d2, sy2⟩ := r'
      simp [pure_ok] at h; subst h
      have h1 := leaf1_evs_drop (proj cfg) hma hs
      have h2 : evs2.filterMap (proj cfg) = [] := ih _ _ hr'
      simp only [List.filterMap_append, h1, h2, List.append_nil]
    | code c =>
      simp only [readMethodAttrs] at h
      obtain ⟨q, hq, h⟩ := bind_ok.mp h
      obtain ⟨r1, hr1, h⟩ := bind_ok.mp h
      obtain ⟨q1, e1⟩ := r1
      obtain ⟨r', hr', h⟩ := bind_ok.mp h
      obtain ⟨p2, evs2, d2, sy2⟩ := r'
      simp [pure_ok] at h; subst h
      have h1 : e1.filterMap (proj cfg) = [] := readCode_drop hcb hn hr1
      have h2 : evs2.filterMap (proj cfg) = [] := ih _ _ hr'
      simp only [List.filterMap_append, h1, h2, List.append_nil]

theorem full_method (i : Nat) : full.method i = some fullMc := rfl

theorem readMethod_proj {avail : Nat} {cfg : Cfg} {m : Mask} (hc : cfg.cls = some m) (hmi : cfg.methodsI = true)
    {i : Nat} {mt : Method} {p p' : Nat} {evs : List Ev}
    (hx : mt.attrs.all mattrExact = true) (h : readMethod avail full i mt p = .ok (p', evs)) :
    readMethod avail cfg i mt p = .ok (p', evs.filterMap (proj cfg)) := by
  simp only [readMethod, full_method] at h
  obtain ⟨q, hq, h⟩ := bind_ok.mp h
  obtain ⟨_, hn, h⟩ := bind_ok.mp h
  obtain ⟨q2, hq2, h⟩ := bind_ok.mp h
  obtain ⟨r', hr', h⟩ := bind_ok.mp h
  obtain ⟨p2, evs2, d2, sy2⟩ := r'
  simp [pure_ok] at h
  obtain ⟨rfl, rfl⟩ := h
  simp only [readMethod, hq, hn, bind, Except.bind]
  cases hcm : cfg.method i with
  | none =>
    have hs := readMethodAttrs_skip _ _ _ hx hr'
    have hd := readMethodAttrs_drop (cfg := cfg) (i := i)
      (by intro unk k pay; simp [hc, hcm]) (by simp [hc, hcm]) (by simp [codeMaskOf, hc, hcm]) _ _ _ hr'
    simp only at hs hd
    simp [skipAttrs, hq2, hs, bind, Except.bind, pure_ok, List.filterMap_append, hc, hmi, hcm, keepIf, hd]
  | some mc =>
    have h1 := readMethodAttrs_proj hc hmi hcm _ _ _ _ _ _ hx hr'
    simp [hq2, h1, bind, Except.bind, pure_ok, List.filterMap_append, hc, hmi, hcm, keepIf]

theorem readMethods_proj {avail : Nat} {cfg : Cfg} {m : Mask} (hc : cfg.cls = some m) (hmi : cfg.methodsI = true) :
    ∀ (ms : List Method) (i p p' : Nat) (evs : List Ev),
      ms.all (fun m => m.attrs.all mattrExact) = true →
      readMethods avail full i ms p = .ok (p', evs) →
      readMethods avail cfg i ms p = .ok (p', evs.filterMap (proj cfg)) := by
  intro ms
  induction ms with
  | nil => intro i p p' evs _ h; simp [readMethods] at h ⊢; obtain ⟨rfl, rfl⟩ := h; simp
  | cons f fs ih =>
    intro i p p' evs hx h
    simp only [List.all_cons, Bool.and_eq_true] at hx
    simp only [readMethods] at h ⊢
    obtain ⟨r1, h1, h⟩ := bind_ok.mp h
    obtain ⟨p1, e1⟩ := r1
    obtain ⟨r2, h2, h⟩ := bind_ok.mp h
    obtain ⟨p2, e2⟩ := r2
    simp [pure_ok] at h
    obtain ⟨rfl, rfl⟩ := h
    have a1 := readMethod_proj hc hmi hx.1 h1
    have a2 := ih _ _ _ _ hx.2 h2
    simp [a1, a2, bind, Except.bind, pure_ok, List.filterMap_append]

end Visit
