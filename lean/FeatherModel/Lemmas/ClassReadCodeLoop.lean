import FeatherModel.Lemmas.ClassReadCodeAttrs

/-! C01 lemmas: the whole attribute loop of `read_code`, then `read_code` itself on an encoded `CodeLayout`. -/

namespace ClassRead
open Outcome Spec

theorem appendOpt_step_lines (lf : Labels) (pos : Nat → Nat) (x : Option (List (Nat × Nat))) (a : SCodeAttr) (as : List SCodeAttr) :
    appendOpt (appendOpt x (linesRaw lf pos [a])) (linesRaw lf pos as) = appendOpt x (linesRaw lf pos (a :: as)) := by
  cases a <;> simp [linesRaw, appendOpt]
  case lines nc es => cases linesRaw lf pos as <;> simp

theorem appendOpt_step_locals (lf : Labels) (pos : Nat → Nat) (x : Option (List Lv)) (a : SCodeAttr) (as : List SCodeAttr) :
    appendOpt (appendOpt x (localsRaw lf pos [a])) (localsRaw lf pos as) = appendOpt x (localsRaw lf pos (a :: as)) := by
  cases a <;> simp [localsRaw, appendOpt]
  case lvt nc es => cases localsRaw lf pos as <;> simp
  case lvtt nc es => cases localsRaw lf pos as <;> simp

theorem appendOpt_none_left {α : Type} (x : Option (List α)) : appendOpt none x = x := by
  cases x <;> simp [appendOpt]

theorem unknownsOf_cons (a : SCodeAttr) (as : List SCodeAttr) : unknownsOf (a :: as) = unknownsOf [a] ++ unknownsOf as := by
  cases a <;> simp [unknownsOf]

theorem tAnnosRaw_cons (lf : Labels) (pos : Nat → Nat) (v : Bool) (a : SCodeAttr) (as : List SCodeAttr) :
    tAnnosRaw lf pos v (a :: as) = tAnnosRaw lf pos v [a] ++ tAnnosRaw lf pos v as := by
  cases a <;> simp [tAnnosRaw]

def framesCount (as : List SCodeAttr) : Nat := (as.filter isFramesAttr).length

theorem framesCount_cons (a : SCodeAttr) (as : List SCodeAttr) :
    framesCount (a :: as) = (if isFramesAttr a then 1 else 0) + framesCount as := by
  simp only [framesCount, List.filter_cons]
  cases isFramesAttr a <;> simp <;> omega

theorem framesOf_cons_not (a : SCodeAttr) (as : List SCodeAttr) (h : isFramesAttr a = false) : framesOf (a :: as) = framesOf as := by
  cases a <;> simp [framesOf, SCodeAttr.isFrames] at h ⊢

theorem framesOf_none (as : List SCodeAttr) (h : framesCount as = 0) : framesOf as = [] := by
  induction as with
  | nil => rfl
  | cons a as ih =>
    rw [framesCount_cons] at h
    cases ha : isFramesAttr a with
    | true => simp [ha] at h
    | false => rw [framesOf_cons_not a as ha]; exact ih (by simp [ha] at h; exact h)

theorem readCodeAttrs_ok (p : Pool) (pos : Nat → Nat) (n cl : Nat) (hp : PosOk pos n cl)
    (hmono : ∀ a b, a ≤ b → b ≤ n → pos a ≤ pos b) (hmonoS : ∀ a b, a < b → b ≤ n → pos a < pos b)
    (as : List SCodeAttr) (has : ∀ a ∈ as, a.Legal p n pos)
    (st : CodeAttrState) (r : Bytes) (hwf : st.labels.WF) (hcl : st.labels.codeLength = cl)
    (hcnt : st.labels.count + (as.map SCodeAttr.labelRefs).sum < 65536)
    (hone : framesCount as ≤ 1) (hfr : st.frames.isSome = true → framesCount as = 0) :
    ∃ st', readCodeAttrs p as.length st (as.flatMap (SCodeAttr.encode pos) ++ r) = ok (st', r) ∧ st'.labels.WF ∧
      Labels.Le st.labels st'.labels ∧
      st'.attrs = st.attrs ++ unknownsOf as ∧ (∀ pc ∈ as.flatMap (attrRefs pos), (st'.labels.get pc).isSome = true) ∧
      ∀ lf, Labels.Le st'.labels lf →
        st'.lines = appendOpt st.lines (linesRaw lf pos as) ∧ st'.locals = appendOpt st.locals (localsRaw lf pos as) ∧
        st'.frames.getD [] = (if framesCount as = 0 then st.frames.getD [] else framesRaw lf pos (framesOf as)) ∧
        st'.rvta = st.rvta ++ tAnnosRaw lf pos true as ∧ st'.ritva = st.ritva ++ tAnnosRaw lf pos false as := by
  induction as generalizing st with
  | nil =>
    exact ⟨st, by simp [readCodeAttrs], hwf, Labels.Le.refl _, by simp [unknownsOf], by simp,
      fun lf _ => by simp [linesRaw, localsRaw, appendOpt, framesCount, tAnnosRaw]⟩
  | cons a as ih =>
    simp only [List.map_cons, List.sum_cons] at hcnt
    rw [framesCount_cons] at hone hfr
    have hfra : isFramesAttr a = true → st.frames = none := by
      intro h
      cases hs : st.frames with
      | none => rfl
      | some _ => have := hfr (by simp [hs]); simp [h] at this
    obtain ⟨st1, h1, hwf1, hle1, hc1, ha1, hr1, hl1⟩ := readCodeAttr_ok p pos n cl hp hmono a (has a (by simp)) hmonoS st
      (as.flatMap (SCodeAttr.encode pos) ++ r) hwf hcl (by omega) hfra
    have hfr1 : st1.frames.isSome = true → framesCount as = 0 := by
      intro h
      have := (hl1 st1.labels (Labels.Le.refl _)).2.2.1
      cases hia : isFramesAttr a with
      | true => simp [hia] at hone; omega
      | false =>
        have e : st1.frames = st.frames := by
          cases a <;> simp [SCodeAttr.isFrames] at hia <;> simpa using this
        rw [e] at h
        have := hfr h
        simp [hia] at this
        exact this
    obtain ⟨st2, h2, hwf2, hle2, ha2, hr2, hl2⟩ := ih (fun b hb => has b (by simp [hb])) st1 hwf1
      (hle1.1.symm.trans hcl) (by omega) (by have := hone; split at this <;> omega) hfr1
    refine ⟨st2, ?_, hwf2, hle1.trans hle2, ?_, ?_, ?_⟩
    · simp only [List.length_cons, readCodeAttrs, List.flatMap_cons, List.append_assoc, h1, ok_bind, h2]
    · rw [ha2, ha1, unknownsOf_cons a as, List.append_assoc]
    · intro pc hpc
      simp only [List.flatMap_cons, List.mem_append] at hpc
      rcases hpc with hpc | hpc
      · exact isSome_of_le hle2 (hr1 pc hpc)
      · exact hr2 pc hpc
    · intro lf hlf
      obtain ⟨e1, e2, e5, e7, e8⟩ := hl1 lf (hle2.trans hlf)
      obtain ⟨e3, e4, e6, e9, e10⟩ := hl2 lf hlf
      rw [e3, e1, e4, e2, appendOpt_step_lines, appendOpt_step_locals]
      refine ⟨rfl, rfl, ?_, by rw [e9, e7, tAnnosRaw_cons lf pos true a as, List.append_assoc],
        by rw [e10, e8, tAnnosRaw_cons lf pos false a as, List.append_assoc]⟩
      rw [e6, framesCount_cons]
      cases hia : isFramesAttr a with
      | true =>
        have hz : framesCount as = 0 := by simp [hia] at hone; omega
        cases a <;> simp [SCodeAttr.isFrames] at hia
        simp [hz, e5, framesOf]
      | false =>
        have e : st1.frames = st.frames := by
          cases a <;> simp [SCodeAttr.isFrames] at hia <;> simpa using e5
        rw [framesOf_cons_not a as hia, e]
        simp

/-- the raw (label-id) form of what `read_code` delivers for a layout, relative to the final label table -/
def Spec.CodeLayout.raw (c : CodeLayout) (lf : Labels) : Code :=
  { maxStack := c.maxStack, maxLocals := c.maxLocals,
    insns := entriesFrom lf c.pos (framesOf c.attrs) 0 c.insns,
    exceptions := c.exceptions.map (fun e => ⟨labOf lf c.pos e.start, labOf lf c.pos e.end_, labOf lf c.pos e.handler, e.catch_⟩),
    lastLabel := lf.get (c.pos c.insns.length),
    lines := linesRaw lf c.pos c.attrs, locals := localsRaw lf c.pos c.attrs,
    rvta := tAnnosRaw lf c.pos true c.attrs, ritva := tAnnosRaw lf c.pos false c.attrs,
    attrs := unknownsOf c.attrs }

/-- every offset the layout refers to (branch targets, exception ranges and handlers, line and local entries) -/
def Spec.CodeLayout.refOffsets (c : CodeLayout) : List Nat :=
  targetOffsets c.pos c.insns ++ c.exceptions.flatMap (fun e => [c.pos e.start, c.pos e.end_, c.pos e.handler])
    ++ c.attrs.flatMap (attrRefs c.pos)

theorem legal_targets_lt (p : Pool) (bsms : Option (List Bsm)) (n : Nat) (pos : Nat → Nat) (a : Nat) (si : SInsn)
    (hl : si.Legal p bsms n pos a) (t : Nat) (ht : t ∈ targetsOf si.insn) : t < n := by
  obtain ⟨insn, form, cp, pad⟩ := si
  cases insn with
  | branch op t' =>
    simp only [targetsOf, List.mem_singleton] at ht; subst ht
    simp only [SInsn.Legal] at hl; exact hl.2.1
  | goto t' =>
    simp only [targetsOf, List.mem_singleton] at ht; subst ht
    cases form with
    | short => simp [SInsn.Legal] at hl
    | plain => simp only [SInsn.Legal] at hl; exact hl.1
    | wide => simp only [SInsn.Legal] at hl; exact hl
  | jsr t' =>
    simp only [targetsOf, List.mem_singleton] at ht; subst ht
    cases form with
    | short => simp [SInsn.Legal] at hl
    | plain => simp only [SInsn.Legal] at hl; exact hl.1
    | wide => simp only [SInsn.Legal] at hl; exact hl
  | tableswitch d lo hi tbl =>
    have hl' : d < n ∧ (∀ t ∈ tbl, t < n) := by
      cases form <;> (simp only [SInsn.Legal] at hl; exact ⟨hl.1, hl.2.1⟩)
    simp only [targetsOf, List.mem_cons] at ht
    rcases ht with rfl | ht
    · exact hl'.1
    · exact hl'.2 t ht
  | lookupswitch d pairs =>
    have hl' : d < n ∧ (∀ kt ∈ pairs, kt.2 < n ∧ inI32 kt.1) := by
      cases form <;> (simp only [SInsn.Legal] at hl; exact ⟨hl.1, hl.2.1⟩)
    simp only [targetsOf, List.mem_cons, List.mem_map] at ht
    rcases ht with rfl | ⟨kt, hkt, rfl⟩
    · exact hl'.1
    · exact (hl'.2 kt hkt).1
  | _ => simp [targetsOf] at ht

theorem framesLegal_increasing (p : Pool) (n : Nat) (pos : Nat → Nat) (prev : Option Nat) (fs : List SFrame)
    (h : framesLegal p n pos prev fs) : Increasing (match prev with | none => 0 | some i => i + 1) fs ∧ ∀ f ∈ fs, f.at_ < n := by
  induction fs generalizing prev with
  | nil => exact ⟨trivial, by simp⟩
  | cons f fs ih =>
    obtain ⟨h1, h2, _, _, h5⟩ := h
    obtain ⟨i1, i2⟩ := ih (some f.at_) h5
    refine ⟨⟨?_, i1⟩, ?_⟩
    · cases prev with
      | none => exact Nat.zero_le _
      | some i => exact h2
    · intro g hg
      rcases List.mem_cons.mp hg with rfl | hg
      · exact h1
      · exact i2 g hg

theorem framesOf_mem (as : List SCodeAttr) (f : SFrame) (hf : f ∈ framesOf as) : ∃ nc fs, SCodeAttr.frames nc fs ∈ as ∧ f ∈ fs ∧ framesOf as = fs := by
  induction as with
  | nil => simp [framesOf] at hf
  | cons a as ih =>
    cases a with
    | frames nc fs => exact ⟨nc, fs, by simp, by simpa [framesOf] using hf, rfl⟩
    | lines _ _ => obtain ⟨nc, fs, h1, h2, h3⟩ := ih (by simpa [framesOf] using hf); exact ⟨nc, fs, by simp [h1], h2, by simpa [framesOf] using h3⟩
    | lvt _ _ => obtain ⟨nc, fs, h1, h2, h3⟩ := ih (by simpa [framesOf] using hf); exact ⟨nc, fs, by simp [h1], h2, by simpa [framesOf] using h3⟩
    | lvtt _ _ => obtain ⟨nc, fs, h1, h2, h3⟩ := ih (by simpa [framesOf] using hf); exact ⟨nc, fs, by simp [h1], h2, by simpa [framesOf] using h3⟩
    | typeAnnos _ _ _ => obtain ⟨nc, fs, h1, h2, h3⟩ := ih (by simpa [framesOf] using hf); exact ⟨nc, fs, by simp [h1], h2, by simpa [framesOf] using h3⟩
    | unknown _ _ _ => obtain ⟨nc, fs, h1, h2, h3⟩ := ih (by simpa [framesOf] using hf); exact ⟨nc, fs, by simp [h1], h2, by simpa [framesOf] using h3⟩

theorem sum_targets_length (pos : Nat → Nat) (xs : List SInsn) :
    (targetOffsets pos xs).length = (xs.map (fun si => (targetsOf si.insn).length)).sum := by
  induction xs with
  | nil => simp [targetOffsets]
  | cons x xs ih =>
    simp only [targetOffsets, List.flatMap_cons, List.length_append, List.length_map, List.map_cons, List.sum_cons] at ih ⊢
    rw [ih]

theorem readCode_encode (p : Pool) (bsms : Option (List Bsm)) (c : CodeLayout) (hleg : c.Legal p bsms) (r : Bytes) :
    ∃ lf, lf.WF ∧ lf.codeLength = c.pos c.insns.length ∧ (∀ pc ∈ c.refOffsets, (lf.get pc).isSome = true) ∧
      readCode p bsms (c.encode ++ r) = ok (c.raw lf, r) := by
  have hcode := hleg.code
  have hclpos : 0 < (c.pos c.insns.length) := by
    have := endPos_ge c.insns 0
    have hn := hcode.nonempty
    show 0 < codePos c.insns c.insns.length
    unfold codePos; rw [List.take_length]; omega
  have hsmall : (c.pos c.insns.length) ≤ 65535 := hcode.small
  have hp : PosOk c.pos c.insns.length (c.pos c.insns.length) := ⟨fun t ht => codePos_mono c.insns t c.insns.length ht (Nat.le_refl _),
    fun t ht => codePos_le_end c.insns t ht, hsmall⟩
  have hmono : ∀ a b, a ≤ b → b ≤ c.insns.length → c.pos a ≤ c.pos b := by
    intro a b hab hb
    rcases Nat.lt_or_ge a b with h | h
    · exact Nat.le_of_lt (codePos_mono c.insns a b h hb)
    · have : a = b := by omega
      subst this; exact Nat.le_refl _
  have hmonoS : ∀ a b, a < b → b ≤ c.insns.length → c.pos a < c.pos b := fun a b hab hb => codePos_mono c.insns a b hab hb
  have hrefs := hleg.refs
  unfold CodeLayout.labelRefs at hrefs
  -- pass 1
  have hbytes : (encInsns c.pos c.insns 0).length = (c.pos c.insns.length) := by
    have := encInsns_length c.pos c.insns 0
    show _ = codePos c.insns c.insns.length
    unfold codePos; rw [List.take_length]; omega
  have hp1 := pass1_suffix p bsms c.insns hcode [] c.insns rfl (c.pos c.insns.length) (by
    have := endPos_ge c.insns 0
    show c.insns.length ≤ codePos c.insns c.insns.length
    unfold codePos; rw [List.take_length]; omega) (Labels.new (c.pos c.insns.length))
  simp only [List.length_nil, codePos_zero] at hp1
  change pass1 _ _ (0, encInsns c.pos c.insns 0) = createAll _ (targetOffsets c.pos c.insns) at hp1
  obtain ⟨l1, hc1, hwf1, hle1, hall1, hcnt1⟩ := createAll_spec (Labels.new (c.pos c.insns.length)) (Labels.wf_new (c.pos c.insns.length))
    (targetOffsets c.pos c.insns)
    (by
      intro pc hpc
      simp only [targetOffsets, List.mem_flatMap, List.mem_map] at hpc
      obtain ⟨si, hsi, t, ht, rfl⟩ := hpc
      obtain ⟨i, hi, rfl⟩ := List.getElem_of_mem hsi
      have hl := hcode.legal i hi
      show c.pos t < (c.pos c.insns.length)
      apply hp.lt
      exact legal_targets_lt p bsms _ _ _ _ hl t ht)
    (by
      rw [sum_targets_length]
      simp [Labels.new]; omega)
  have hcl1 : l1.codeLength = (c.pos c.insns.length) := hle1.1.symm
  -- exception table
  obtain ⟨ex, l2, h2, hwf2, hle2, hcnt2, hr2, hv2⟩ := readVecS_stepOk (readException p) (SException.encode c.pos)
    (fun lf e => (⟨labOf lf c.pos e.start, labOf lf c.pos e.end_, labOf lf c.pos e.handler, e.catch_⟩ : ExceptionEntry))
    (fun _ => 3) (fun e => [c.pos e.start, c.pos e.end_, c.pos e.handler]) (c.pos c.insns.length) c.exceptions
    (fun e he l r hwf hcl hcnt => readException_ok p c.pos c.insns.length (c.pos c.insns.length) hp e (hleg.exc e he) l r hwf hcl hcnt)
    l1 hwf1 hcl1 (by
      rw [sum_map_const]
      rw [sum_targets_length] at hcnt1
      simp [Labels.new] at hcnt1
      omega)
    (be16 c.attrs.length ++ c.attrs.flatMap (SCodeAttr.encode c.pos) ++ r)
  rw [sum_map_const] at hcnt2
  rw [sum_targets_length] at hcnt1
  simp only [Labels.new, Nat.zero_add] at hcnt1
  -- attributes
  obtain ⟨st, h3, hwf3, hle3, ha3, hr3, hl3⟩ := readCodeAttrs_ok p c.pos c.insns.length (c.pos c.insns.length) hp hmono hmonoS
    c.attrs hleg.attrs ⟨l2, none, none, none, [], [], []⟩ r hwf2 (hle2.1.symm.trans hcl1) (by simp only []; omega)
    (by simpa [framesCount] using hleg.oneFrames) (by simp)
  simp only [] at hle3 ha3 hl3 hr3
  have hlf := hl3 st.labels (Labels.Le.refl _)
  -- pass 2
  have hlab : ∀ i (h : i < c.insns.length), TargetsLabelled st.labels c.pos c.insns[i].insn := by
    intro i hi t ht
    have hmem : c.pos t ∈ targetOffsets c.pos c.insns := by
      simp only [targetOffsets, List.mem_flatMap, List.mem_map]
      exact ⟨c.insns[i], List.getElem_mem hi, t, ht, rfl⟩
    have := hall1 _ hmem
    cases hg : l1.get (c.pos t) with
    | none => simp [hg] at this
    | some id => rw [(hle2.trans hle3).2 _ _ hg]; rfl
  -- the frames the loop left, and their labels
  have hfrs : st.frames.getD [] = framesRaw st.labels c.pos (framesOf c.attrs) := by
    have := hlf.2.2.1
    by_cases hz : framesCount c.attrs = 0
    · simp only [hz, if_true, Option.getD_none] at this
      rw [this, framesOf_none c.attrs hz]; rfl
    · simp only [hz, if_false] at this; exact this
  have hframes : Increasing 0 (framesOf c.attrs) ∧ ∀ f ∈ framesOf c.attrs, f.at_ < c.insns.length ∧ (st.labels.get (c.pos f.at_)).isSome = true := by
    cases hfo : framesOf c.attrs with
    | nil => exact ⟨trivial, by simp⟩
    | cons f0 rest =>
      obtain ⟨nc, fs, hm, _, hfs⟩ := framesOf_mem c.attrs f0 (by rw [hfo]; simp)
      have hla := hleg.attrs _ hm
      simp only [SCodeAttr.Legal] at hla
      obtain ⟨i1, i2⟩ := framesLegal_increasing p c.insns.length c.pos none fs hla.2.2.2.1
      rw [← hfo, hfs]
      refine ⟨i1, fun f hf => ⟨i2 f hf, hr3 _ ?_⟩⟩
      simp only [List.mem_flatMap]
      exact ⟨_, hm, by simp only [attrRefs, List.mem_flatMap]; exact ⟨f, hf, by simp⟩⟩
  have hp2 := pass2_suffix p bsms c.insns hcode st.labels hwf3 hlab [] c.insns rfl (c.pos c.insns.length) (by
    have := endPos_ge c.insns 0
    show c.insns.length ≤ codePos c.insns c.insns.length
    unfold codePos; rw [List.take_length]; omega) [] (framesOf c.attrs) hframes.1 hframes.2 st.frames hfrs
  simp only [List.length_nil, codePos_zero, List.reverse_nil, List.nil_append] at hp2
  change pass2 p bsms st.labels _ st.frames [] (0, encInsns c.pos c.insns 0) = ok (entriesFrom st.labels c.pos (framesOf c.attrs) 0 c.insns) at hp2
  refine ⟨st.labels, hwf3, (hle3.1.symm.trans (hle2.1.symm.trans hcl1)), ?_, ?_⟩
  · intro pc hpc
    simp only [CodeLayout.refOffsets, List.mem_append] at hpc
    rcases hpc with (hpc | hpc) | hpc
    · exact isSome_of_le (hle2.trans hle3) (hall1 pc hpc)
    · exact isSome_of_le hle3 (hr2 pc hpc)
    · exact hr3 pc hpc
  have hne0 : (decide ((c.pos c.insns.length) = 0) || decide ((c.pos c.insns.length) > 65535)) = false := by
    simp only [Bool.or_eq_false_iff, decide_eq_false_iff_not]; omega
  have hms := hleg.maxStack
  have hml := hleg.maxLocals
  have hcl32 : (c.pos c.insns.length) < 4294967296 := by omega
  have htake : takeN (c.pos c.insns.length) (encInsns c.pos c.insns 0 ++ (be16 c.exceptions.length ++ (c.exceptions.flatMap (SException.encode c.pos)
      ++ (be16 c.attrs.length ++ (c.attrs.flatMap (SCodeAttr.encode c.pos) ++ r))))) =
      ok (encInsns c.pos c.insns 0, be16 c.exceptions.length ++ (c.exceptions.flatMap (SException.encode c.pos)
      ++ (be16 c.attrs.length ++ (c.attrs.flatMap (SCodeAttr.encode c.pos) ++ r)))) := by
    rw [← hbytes]; exact takeN_append _ _
  have h2' : readVecS (readException p) c.exceptions.length l1 (c.exceptions.flatMap (SException.encode c.pos)
      ++ (be16 c.attrs.length ++ (c.attrs.flatMap (SCodeAttr.encode c.pos) ++ r))) =
      ok (ex, l2, be16 c.attrs.length ++ (c.attrs.flatMap (SCodeAttr.encode c.pos) ++ r)) := by
    simpa [List.append_assoc] using h2
  show readCode p bsms (c.encode ++ r) = ok (c.raw st.labels, r)
  simp only [readCode, CodeLayout.encode, List.append_assoc, u16_be16 _ hms, u16_be16 _ hml, u32_be32 _ hcl32, ok_bind,
    hne0, Bool.false_eq_true, if_false, htake, hp1, hc1, u16_be16 _ hleg.nExc, h2',
    u16_be16 _ hleg.nAttrs, h3, hp2, pure_eq]
  simp only [CodeLayout.raw, hv2 st.labels hle3, hlf.1, hlf.2.1, hlf.2.2.2.1, hlf.2.2.2.2, appendOpt_none_left, ha3, List.nil_append]

end ClassRead
