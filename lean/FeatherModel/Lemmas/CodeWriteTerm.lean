import FeatherModel.Model.CodeWrite

/-!
# The retry loop of `write_code` terminates

Every failed attempt inserts the index of an instruction that was written in its *narrow* form, i.e. one that is not
yet in `wide`; indices are `< n`. So `wide` grows strictly inside `{0..n-1}` and `n + 1` attempts always suffice.
-/

namespace CodeWrite

/-- all unwritten labels pushed while emitting instruction `k` carry `k`; a narrow reservation only when `k ∉ wide` -/
def UnwOk (k : Nat) (isWide : Bool) (us : List Unwritten) : Prop :=
  ∀ u ∈ us, u.insnIdx = k ∧ (u.wide = false → isWide = false)

theorem unwOk_nil (k : Nat) (b : Bool) : UnwOk k b [] := by
  intro u hu; cases hu

theorem unwOk_append {k : Nat} {b : Bool} {xs ys : List Unwritten} (hx : UnwOk k b xs) (hy : UnwOk k b ys) :
    UnwOk k b (xs ++ ys) := by
  intro u hu
  rcases List.mem_append.mp hu with h | h
  · exact hx u h
  · exact hy u h

theorem swLabel_unw (lbl : Nat → Option Nat) (p k wp t : Nat) (b : Bool) : UnwOk k b (swLabel lbl p k wp t).2 := by
  unfold swLabel
  cases lbl t with
  | some tp => exact unwOk_nil k b
  | none =>
    intro u hu
    simp at hu
    subst hu
    simp

theorem swTable_unw (lbl : Nat → Option Nat) (p k : Nat) (b : Bool) (ts : List Nat) :
    ∀ wp, UnwOk k b (swTable lbl p k wp ts).2 := by
  induction ts with
  | nil => intro wp; exact unwOk_nil k b
  | cons t ts ih =>
    intro wp
    simp only [swTable]
    exact unwOk_append (swLabel_unw lbl p k wp t b) (ih (wp + 4))

theorem swPairs_unw (lbl : Nat → Option Nat) (p k : Nat) (b : Bool) (ps : List (Int × Nat)) :
    ∀ wp, UnwOk k b (swPairs lbl p k wp ps).2 := by
  induction ps with
  | nil => intro wp; exact unwOk_nil k b
  | cons kt ps ih =>
    intro wp
    simp only [swPairs]
    exact unwOk_append (swLabel_unw lbl p k (wp + 4) kt.2 b) (ih (wp + 8))

theorem encIf_unw {c : Cond} {isWide : Bool} {lbl : Nat → Option Nat} {p k t : Nat} {r : Bytes × List Unwritten}
    (h : encIf c isWide lbl p k t = .ok r) : UnwOk k isWide r.2 := by
  unfold encIf at h
  split at h
  · split at h
    · cases h; exact unwOk_nil _ _
    · split at h
      · cases h
      · cases h; exact unwOk_nil _ _
  · split at h
    · split at h
      · cases h
      · cases h
        intro u hu
        simp at hu
        subst hu
        simp
    · cases h
      intro u hu
      simp at hu
      subst hu
      rename_i hw
      simp [hw]

theorem encGoto_unw {op wop : Nat} {isWide : Bool} {lbl : Nat → Option Nat} {p k t : Nat} {r : Bytes × List Unwritten}
    (h : encGoto op wop isWide lbl p k t = .ok r) : UnwOk k isWide r.2 := by
  unfold encGoto at h
  split at h
  · split at h <;> (cases h; exact unwOk_nil _ _)
  · split at h
    · cases h
      intro u hu
      simp at hu
      subst hu
      simp
    · cases h
      intro u hu
      simp at hu
      subst hu
      rename_i hw
      simp [hw]

theorem encTableSwitch_unw {lbl : Nat → Option Nat} {p k d : Nat} {lo hi : Int} {tb : List Nat} {b : Bool}
    {r : Bytes × List Unwritten} (h : encTableSwitch lbl p k d lo hi tb = .ok r) : UnwOk k b r.2 := by
  unfold encTableSwitch at h
  simp only at h
  split at h
  · cases h
  · split at h
    · cases h
    · split at h
      · cases h
      · cases h
        exact unwOk_append (swLabel_unw _ _ _ _ _ _) (swTable_unw _ _ _ _ _ _)

theorem encLookupSwitch_unw {lbl : Nat → Option Nat} {p k d : Nat} {ps : List (Int × Nat)} {b : Bool}
    {r : Bytes × List Unwritten} (h : encLookupSwitch lbl p k d ps = .ok r) : UnwOk k b r.2 := by
  unfold encLookupSwitch at h
  simp only at h
  split at h
  · cases h
  · cases h
    exact unwOk_append (swLabel_unw _ _ _ _ _ _) (swPairs_unw _ _ _ _ _ _)

theorem encInsn_unw {isWide : Bool} {lbl : Nat → Option Nat} {p k : Nat} {i : Insn} {r : Bytes × List Unwritten}
    (h : encInsn isWide lbl p k i = .ok r) : UnwOk k isWide r.2 := by
  cases i with
  | ifc c t => exact encIf_unw h
  | goto t => exact encGoto_unw h
  | jsr t => exact encGoto_unw h
  | tableswitch d lo hi tb => exact encTableSwitch_unw h
  | lookupswitch d ps => exact encLookupSwitch_unw h
  | invokeinterface idx desc =>
    simp only [encInsn] at h
    split at h
    · cases h
    · cases h; exact unwOk_nil _ _
  | _ => simp only [encInsn] at h; cases h; exact unwOk_nil _ _


/-! ## one attempt -/

/-- what `step` does, as an equation -/
theorem step_ok {wide : List Nat} {i : Insn} {s s' : St} (h : step wide i s = .ok s') :
    s.w.size ≤ 65535 ∧
    ∃ r, encInsn (wide.contains s.pos.size) (fun t => (s.pos.push s.w.size)[t]?) s.w.size s.pos.size i = .ok r ∧
      s' = ⟨s.w ++ r.1, s.pos.push s.w.size, s.unw ++ r.2⟩ := by
  obtain ⟨w, pos, unw⟩ := s
  simp only [step] at h
  split at h
  · cases h
  · rename_i hle
    split at h
    · cases h
    · rename_i r hr
      cases h
      exact ⟨Nat.le_of_not_lt hle, r, hr, rfl⟩

/-- unwritten labels of an attempt: index of a processed instruction; narrow ones are not in `wide` -/
def UnwInv (wide : List Nat) (hi : Nat) (us : List Unwritten) : Prop :=
  ∀ u ∈ us, u.insnIdx < hi ∧ (u.wide = false → wide.contains u.insnIdx = false)

theorem pass_inv (wide : List Nat) (is : List Insn) :
    ∀ (s s' : St), pass wide is s = .ok s' → UnwInv wide s.pos.size s.unw.toList →
      s'.pos.size = s.pos.size + is.length ∧ UnwInv wide (s.pos.size + is.length) s'.unw.toList := by
  induction is with
  | nil =>
    intro s s' h hinv
    simp only [pass] at h
    cases h
    exact ⟨by simp, by simpa using hinv⟩
  | cons i is ih =>
    intro s s' h hinv
    simp only [pass] at h
    split at h
    · cases h
    · rename_i s1 hs1
      obtain ⟨_, r, hr, rfl⟩ := step_ok hs1
      have hu := encInsn_unw hr
      have hinv1 : UnwInv wide (s.pos.size + 1) (s.unw ++ r.2).toList := by
        intro u hu'
        simp only [Array.toList_appendList, List.mem_append] at hu'
        rcases hu' with h1 | h1
        · obtain ⟨b, c⟩ := hinv u h1
          exact ⟨by omega, c⟩
        · obtain ⟨a, b⟩ := hu u h1
          exact ⟨by omega, by intro hw; rw [a]; exact b hw⟩
      have := ih _ s' h (by simpa using hinv1)
      simp only [Array.size_push] at this
      obtain ⟨h1, h2⟩ := this
      refine ⟨by simp [h1]; omega, ?_⟩
      have e : s.pos.size + (i :: is).length = s.pos.size + 1 + is.length := by simp; omega
      rw [e]; exact h2

/-- a retry names an instruction that reserved narrow space -/
theorem resolve_retry (lp : Nat → Option Nat) (us : List Unwritten) :
    ∀ (w : Array Nat) (idx : Nat), resolve lp us w = .retry idx → ∃ u ∈ us, u.wide = false ∧ u.insnIdx = idx := by
  induction us with
  | nil => intro w idx h; simp [resolve] at h
  | cons u us ih =>
    intro w idx h
    simp only [resolve] at h
    split at h
    · cases h
    · split at h
      · obtain ⟨v, hv, hp⟩ := ih _ _ h
        exact ⟨v, List.mem_cons_of_mem _ hv, hp⟩
      · split at h
        · obtain ⟨v, hv, hp⟩ := ih _ _ h
          exact ⟨v, List.mem_cons_of_mem _ hv, hp⟩
        · rename_i hw _
          cases h
          exact ⟨u, List.mem_cons_self, by simpa using hw, rfl⟩

/-! ## the measure: instructions not yet in `wide` -/

def free (n : Nat) (wide : List Nat) : Nat := ((List.range n).filter (fun k => !wide.contains k)).length

theorem filter_length_lt {α : Type} (p q : α → Bool) (l : List α) (hqp : ∀ x, q x = true → p x = true)
    (a : α) (ha : a ∈ l) (hpa : p a = true) (hqa : q a = false) :
    (l.filter q).length < (l.filter p).length := by
  induction l with
  | nil => cases ha
  | cons x xs ih =>
    have hle : (xs.filter q).length ≤ (xs.filter p).length := by
      clear ih ha
      induction xs with
      | nil => simp
      | cons y ys ihy =>
        simp only [List.filter_cons]
        cases hq : q y with
        | true => simp [hqp y hq]; exact ihy
        | false => cases p y <;> simp <;> omega
    rcases List.mem_cons.mp ha with rfl | hmem
    · simp only [List.filter_cons, hpa, hqa]
      simp; omega
    · have := ih hmem
      simp only [List.filter_cons]
      cases hq : q x with
      | true => simp [hqp x hq]; exact this
      | false => cases p x <;> simp <;> omega

theorem free_cons_lt {n idx : Nat} {wide : List Nat} (hlt : idx < n) (hnot : wide.contains idx = false) :
    free n (idx :: wide) < free n wide := by
  unfold free
  apply filter_length_lt (fun k => !wide.contains k) (fun k => !(idx :: wide).contains k) (List.range n) _ idx
    (List.mem_range.mpr hlt)
  · simp only [hnot, Bool.not_false]
  · simp
  · intro x hx
    simp only [List.contains_cons, Bool.not_eq_true', Bool.or_eq_false_iff] at hx
    simp only [hx.2, Bool.not_false]

theorem free_le (n : Nat) (wide : List Nat) : free n wide ≤ n := by
  unfold free
  have := List.length_filter_le (fun k => !wide.contains k) (List.range n)
  simpa using this

/-- a retry of `write` inserts an instruction index `< n` that is not yet in `wide` -/
theorem retry_fresh {is : List Insn} {wide : List Nat} {s : St} {idx : Nat}
    (hs : pass wide is St.init = .ok s)
    (hres : resolve (labelPos s.pos s.w.size) s.unw.toList s.w = .retry idx) :
    idx < is.length ∧ wide.contains idx = false := by
  obtain ⟨u, hu, hnarrow, hidx⟩ := resolve_retry _ _ _ _ hres
  have hinv := (pass_inv wide is St.init s hs (by intro u hu; simp [St.init] at hu)).2
  obtain ⟨hlt, hnw⟩ := hinv u hu
  simp only [St.init, List.size_toArray, List.length_nil, Nat.zero_add] at hlt
  rw [hidx] at hlt
  have hnc := hnw hnarrow
  rw [hidx] at hnc
  exact ⟨hlt, hnc⟩

/-- **termination**: with more fuel than instructions outside `wide`, the loop never runs out of fuel -/
theorem write_fuel (is : List Insn) :
    ∀ (fuel : Nat) (wide : List Nat), free is.length wide < fuel → write is fuel wide ≠ .outOfFuel := by
  intro fuel
  induction fuel with
  | zero => intro wide h; omega
  | succ fuel ih =>
    intro wide h
    simp only [write]
    cases hs : pass wide is St.init with
    | error e => cases e <;> simp
    | ok s =>
      simp only []
      cases hres : resolve (labelPos s.pos s.w.size) s.unw.toList s.w with
      | fail => simp
      | retry idx =>
        simp only []
        obtain ⟨hlt, hnc⟩ := retry_fresh hs hres
        have := free_cons_lt hlt hnc
        exact ih (idx :: wide) (by omega)
      | done w =>
        simp only []
        split <;> simp

/-- the result does not depend on the fuel once there is enough of it -/
theorem write_fuel_indep (is : List Insn) :
    ∀ (fuel fuel' : Nat) (wide : List Nat), free is.length wide < fuel → free is.length wide < fuel' →
      write is fuel wide = write is fuel' wide := by
  intro fuel
  induction fuel with
  | zero => intro fuel' wide h; omega
  | succ fuel ih =>
    intro fuel' wide h h'
    cases fuel' with
    | zero => omega
    | succ fuel' =>
      simp only [write]
      cases hs : pass wide is St.init with
      | error e => cases e <;> rfl
      | ok s =>
        simp only []
        cases hres : resolve (labelPos s.pos s.w.size) s.unw.toList s.w with
        | fail => rfl
        | retry idx =>
          simp only []
          obtain ⟨hlt, hnc⟩ := retry_fresh hs hres
          have := free_cons_lt hlt hnc
          exact ih fuel' (idx :: wide) (by omega) (by omega)
        | done w => rfl

/-- on success: one element of `wide` per failed attempt, all distinct instruction indices -/
theorem write_wide_bound (is : List Insn) :
    ∀ (fuel : Nat) (wide : List Nat) (res : Result), write is fuel wide = .ok res →
      wide.length + free is.length wide ≤ is.length → res.wide.length + free is.length res.wide ≤ is.length := by
  intro fuel
  induction fuel with
  | zero => intro wide res h; simp [write] at h
  | succ fuel ih =>
    intro wide res h hb
    simp only [write] at h
    cases hs : pass wide is St.init with
    | error e => rw [hs] at h; cases e <;> simp at h
    | ok s =>
      rw [hs] at h
      simp only [] at h
      cases hres : resolve (labelPos s.pos s.w.size) s.unw.toList s.w with
      | fail => rw [hres] at h; simp at h
      | retry idx =>
        rw [hres] at h
        simp only [] at h
        obtain ⟨hlt, hnc⟩ := retry_fresh hs hres
        have := free_cons_lt hlt hnc
        exact ih (idx :: wide) res h (by simp only [List.length_cons]; omega)
      | done w =>
        rw [hres] at h
        simp only [] at h
        split at h
        · cases h
        · cases h; exact hb

end CodeWrite
