import FeatherModel.Spec.DescriptorGrammar

/-! Lemmas about the name predicates of `Model/Descriptor.lean` versus the declarative specs of
`Spec/DescriptorGrammar.lean`. -/

namespace Descriptor
open DescriptorGrammar

/-! ## lists: first occurrence of a separator -/

theorem first_sep (c : Nat) (s : List Nat) :
    c ∉ s ∨ ∃ i rest, s = i ++ c :: rest ∧ c ∉ i := by
  induction s with
  | nil => left; simp
  | cons x xs ih =>
    by_cases hx : x = c
    · right; exact ⟨[], xs, by simp [hx], by simp⟩
    · rcases ih with h | ⟨i, rest, h1, h2⟩
      · left
        simp only [List.mem_cons, not_or]
        exact ⟨fun e => hx e.symm, h⟩
      · right
        refine ⟨x :: i, rest, by simp [h1], ?_⟩
        simp only [List.mem_cons, not_or]
        exact ⟨fun e => hx e.symm, h2⟩

theorem splitOn_ne_nil (c : Nat) (s : JStr) : splitOn c s ≠ [] := by
  induction s with
  | nil => simp [splitOn]
  | cons x xs ih =>
    simp only [splitOn]
    split
    · simp
    · split
      · simp
      · simp

theorem splitOn_no_sep {c : Nat} {s : JStr} (h : c ∉ s) : splitOn c s = [s] := by
  induction s with
  | nil => simp [splitOn]
  | cons x xs ih =>
    simp only [List.mem_cons, not_or] at h
    simp only [splitOn]
    rw [if_neg (fun e => h.1 e.symm), ih h.2]

theorem splitOn_append {c : Nat} {i : JStr} (rest : JStr) (h : c ∉ i) :
    splitOn c (i ++ c :: rest) = i :: splitOn c rest := by
  induction i with
  | nil => simp [splitOn]
  | cons x xs ih =>
    simp only [List.mem_cons, not_or] at h
    simp only [List.cons_append, splitOn]
    rw [if_neg (fun e => h.1 e.symm), ih h.2]

/-! ## unqualified and method names -/

theorem validUnqualified_iff (s : JStr) : validUnqualified s = true ↔ Ident s := by
  unfold validUnqualified Ident
  simp only [Bool.and_eq_true, Bool.not_eq_true', List.isEmpty_eq_false_iff, List.all_eq_true,
    Bool.or_eq_false_iff, beq_eq_false_iff_ne, ne_eq]
  constructor
  · intro ⟨h1, h2⟩
    exact ⟨h1, fun c hc => by have := h2 c hc; simp_all⟩
  · intro ⟨h1, h2⟩
    exact ⟨h1, fun c hc => by have := h2 c hc; simp_all⟩

theorem validMethod_iff (s : JStr) : validMethod s = true ↔ MethodIdent s := by
  unfold validMethod MethodIdent
  simp only [Bool.or_eq_true, beq_iff_eq, Bool.and_eq_true, Bool.not_eq_true', List.isEmpty_eq_false_iff,
    List.all_eq_true, Bool.or_eq_false_iff, beq_eq_false_iff_ne, ne_eq]
  constructor
  · intro h
    rcases h with (h | h) | ⟨h1, h2⟩
    · exact Or.inl h
    · exact Or.inr (Or.inl h)
    · exact Or.inr (Or.inr ⟨h1, fun c hc => by have := h2 c hc; simp_all⟩)
  · intro h
    rcases h with h | h | ⟨h1, h2⟩
    · exact Or.inl (Or.inl h)
    · exact Or.inl (Or.inr h)
    · exact Or.inr ⟨h1, fun c hc => by have := h2 c hc; simp_all⟩

theorem Ident_no_slash {i : JStr} (h : Ident i) : SLASH ∉ i := fun hm => (h.2 _ hm).2.2.2 rfl
theorem Ident_no_semi {i : JStr} (h : Ident i) : SEMI ∉ i := fun hm => (h.2 _ hm).2.1 rfl
theorem Ident_no_bracket {i : JStr} (h : Ident i) : LBRACKET ∉ i := fun hm => (h.2 _ hm).2.2.1 rfl

/-! ## class names -/

theorem ClassName_ne_nil {s : JStr} (h : ClassName s) : s ≠ [] := by
  cases h with
  | one hi => exact hi.1
  | cons hi _ =>
    intro e
    have := List.append_eq_nil_iff.mp e
    simp at this

theorem ClassName_no_semi {s : JStr} (h : ClassName s) : SEMI ∉ s := by
  induction h with
  | one hi => exact (Ident_no_semi hi)
  | cons hi _ ih =>
    simp only [List.mem_append, List.mem_cons, not_or]
    exact ⟨(Ident_no_semi hi), by decide, ih⟩

theorem ClassName_no_bracket {s : JStr} (h : ClassName s) : LBRACKET ∉ s := by
  induction h with
  | one hi => exact (Ident_no_bracket hi)
  | cons hi _ ih =>
    simp only [List.mem_append, List.mem_cons, not_or]
    exact ⟨(Ident_no_bracket hi), by decide, ih⟩

theorem startsWithBracket_false_of_not_mem {s : JStr} (h : LBRACKET ∉ s) : startsWithBracket s = false := by
  cases s with
  | nil => rfl
  | cons x xs =>
    simp only [List.mem_cons, not_or] at h
    simp only [startsWithBracket, List.head?_cons, beq_eq_false_iff_ne, ne_eq, Option.some.injEq]
    exact fun e => h.1 e.symm

theorem startsWithBracket_iff (s : JStr) : startsWithBracket s = true ↔ s.head? = some LBRACKET := by
  simp [startsWithBracket]

theorem segs_of_ClassName {s : JStr} (h : ClassName s) : (splitOn SLASH s).all validUnqualified = true := by
  induction h with
  | one hi =>
    rw [splitOn_no_sep (Ident_no_slash hi)]
    simp [(validUnqualified_iff _).mpr hi]
  | cons hi _ ih =>
    rw [splitOn_append _ (Ident_no_slash hi)]
    simp only [List.all_cons, Bool.and_eq_true]
    exact ⟨(validUnqualified_iff _).mpr hi, ih⟩

theorem ClassName_of_segs : ∀ (n : Nat) (s : JStr), s.length < n →
    (splitOn SLASH s).all validUnqualified = true → ClassName s := by
  intro n
  induction n with
  | zero => intro s h; omega
  | succ n ih =>
    intro s hlen h
    rcases first_sep SLASH s with hs | ⟨i, rest, hs, hi⟩
    · rw [splitOn_no_sep hs] at h
      simp only [List.all_cons, List.all_nil, Bool.and_true] at h
      exact ClassName.one ((validUnqualified_iff _).mp h)
    · subst hs
      rw [splitOn_append _ hi] at h
      simp only [List.all_cons, Bool.and_eq_true] at h
      refine ClassName.cons ((validUnqualified_iff _).mp h.1) (ih rest ?_ h.2)
      simp at hlen; omega

theorem segs_iff_ClassName (s : JStr) : (splitOn SLASH s).all validUnqualified = true ↔ ClassName s :=
  ⟨ClassName_of_segs (s.length + 1) s (Nat.lt_succ_self _), segs_of_ClassName⟩

theorem validObj_iff (s : JStr) : validObj s = true ↔ ClassName s := by
  unfold validObj
  simp only [Bool.and_eq_true, Bool.not_eq_true']
  constructor
  · intro ⟨_, h⟩; exact (segs_iff_ClassName s).mp h
  · intro h
    exact ⟨startsWithBracket_false_of_not_mem (ClassName_no_bracket h), segs_of_ClassName h⟩

/-- class names = `/`-joined identifiers (the form used in the property text) -/
theorem ClassName_iff_joined (s : JStr) :
    ClassName s ↔ ∃ parts : List JStr, parts ≠ [] ∧ (∀ p ∈ parts, Ident p) ∧ s = [SLASH].intercalate parts := by
  constructor
  · intro h
    induction h with
    | one hi => exact ⟨[_], by simp, by simpa using hi, by simp [List.intercalate]⟩
    | cons hi _ ih =>
      obtain ⟨parts, hne, hall, hs⟩ := ih
      rename_i i rest _
      refine ⟨i :: parts, by simp, ?_, ?_⟩
      · intro p hp
        rcases List.mem_cons.mp hp with rfl | hp
        · exact hi
        · exact hall p hp
      · cases parts with
        | nil => exact absurd rfl hne
        | cons q qs =>
          rw [hs]
          simp [List.intercalate, List.intersperse]
  · intro ⟨parts, hne, hall, hs⟩
    subst hs
    induction parts with
    | nil => exact absurd rfl hne
    | cons p ps ih =>
      cases ps with
      | nil =>
        have : [SLASH].intercalate [p] = p := by simp [List.intercalate]
        rw [this]
        exact ClassName.one (hall p (by simp))
      | cons q qs =>
        have : [SLASH].intercalate (p :: q :: qs) = p ++ SLASH :: [SLASH].intercalate (q :: qs) := by
          simp [List.intercalate, List.intersperse]
        rw [this]
        exact ClassName.cons (hall p (by simp)) (ih (by simp) (fun x hx => hall x (List.mem_cons_of_mem _ hx)))

/-! ## join / split / simple name produce valid names (the `// SAFETY:` comments in class.rs) -/

theorem Ident_append_dollar {a b : JStr} (ha : Ident a) (hb : Ident b) : Ident (a ++ 36 :: b) := by
  refine ⟨by simp, ?_⟩
  intro c hc
  simp only [List.mem_append, List.mem_cons] at hc
  rcases hc with hc | rfl | hc
  · exact ha.2 c hc
  · decide
  · exact hb.2 c hc

theorem ClassName_join_ident {a i : JStr} (ha : Ident a) (hi : ClassName i) : ClassName (a ++ 36 :: i) := by
  cases hi with
  | one h => exact ClassName.one (Ident_append_dollar ha h)
  | cons h hr =>
    rename_i i0 rest
    have : a ++ 36 :: (i0 ++ SLASH :: rest) = (a ++ 36 :: i0) ++ SLASH :: rest := by simp
    rw [this]
    exact ClassName.cons (Ident_append_dollar ha h) hr

theorem ClassName_join {p i : JStr} (hp : ClassName p) (hi : ClassName i) : ClassName (p ++ 36 :: i) := by
  induction hp with
  | one h => exact ClassName_join_ident h hi
  | cons h _ ih =>
    rename_i i0 rest _
    have : (i0 ++ SLASH :: rest) ++ 36 :: i = i0 ++ SLASH :: (rest ++ 36 :: i) := by simp
    rw [this]
    exact ClassName.cons h ih

end Descriptor
