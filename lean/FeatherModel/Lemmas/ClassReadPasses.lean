import FeatherModel.Lemmas.ClassReadPass1
import FeatherModel.Lemmas.ClassReadDecode
import FeatherModel.Lemmas.ClassReadLayout

/-! C01 lemmas: the two loops of `read_code` over a whole legal code array. -/

namespace ClassRead
open Outcome Spec

theorem createAll_append (l : Labels) (xs ys : List Nat) :
    createAll l (xs ++ ys) = (do let l' ← createAll l xs; createAll l' ys) := by
  induction xs generalizing l with
  | nil => simp [createAll]
  | cons x xs ih =>
    simp only [List.cons_append, createAll]
    cases l.create x <;> simp [ih]

theorem createAll_spec (l : Labels) (hwf : l.WF) (pcs : List Nat) (hpc : ∀ pc ∈ pcs, pc < l.codeLength)
    (hcnt : l.count + pcs.length < 65536) :
    ∃ l', createAll l pcs = ok l' ∧ l'.WF ∧ Labels.Le l l' ∧ (∀ pc ∈ pcs, (l'.get pc).isSome = true) ∧
      l'.count ≤ l.count + pcs.length := by
  induction pcs generalizing l with
  | nil => exact ⟨l, rfl, hwf, Labels.Le.refl l, by simp, by simp⟩
  | cons pc pcs ih =>
    obtain ⟨l1, h1, hwf1, hle1, ⟨id, hg1⟩, hc1⟩ := Labels.create_spec hwf (hpc pc (by simp)) (by simp at hcnt; omega)
    have hcl : l1.codeLength = l.codeLength := hle1.1.symm
    obtain ⟨l2, h2, hwf2, hle2, hall, hc2⟩ := ih l1 hwf1 (fun q hq => by rw [hcl]; exact hpc q (by simp [hq]))
      (by simp at hcnt; omega)
    refine ⟨l2, by simp [createAll, h1, h2], hwf2, hle1.trans hle2, ?_, by simp; omega⟩
    intro q hq
    rcases List.mem_cons.mp hq with rfl | hq
    · rw [hle2.2 _ _ hg1]; rfl
    · exact hall q hq

/-- all branch targets of a list of instructions, as offsets, in first-pass order -/
def targetOffsets (pos : Nat → Nat) (xs : List SInsn) : List Nat :=
  xs.flatMap (fun si => (targetsOf si.insn).map pos)

theorem pass1_suffix (p : Pool) (bsms : Option (List Bsm)) (insns : List SInsn) (hleg : CodeLegal p bsms insns)
    (pre xs : List SInsn) (hins : insns = pre ++ xs) (fuel : Nat) (hfuel : xs.length ≤ fuel) (l : Labels) :
    pass1 fuel l (codePos insns pre.length, encInsns (codePos insns) xs (codePos insns pre.length))
      = createAll l (targetOffsets (codePos insns) xs) := by
  induction xs generalizing pre fuel l with
  | nil => cases fuel <;> simp [pass1, encInsns, targetOffsets, createAll]
  | cons x xs ih =>
    have hlen : pre.length < insns.length := by simp [hins]
    have hx : insns[pre.length] = x := by simp [hins]
    have hlx := hleg.legal pre.length hlen
    rw [hx] at hlx
    have hpos : ∀ t, t < insns.length → codePos insns t ≤ 65535 := fun t ht =>
      Nat.le_trans (codePos_le_end insns t (Nat.le_of_lt ht)) hleg.small
    have ha := hpos pre.length hlen
    have hnext : codePos insns (pre.length + 1) = codePos insns pre.length + x.size (codePos insns pre.length) := by
      rw [codePos_succ insns pre.length hlen, hx]
    cases fuel with
    | zero => simp at hfuel
    | succ fuel =>
      have hne : (x.encode (codePos insns) (codePos insns pre.length) ++
          encInsns (codePos insns) xs (codePos insns pre.length + x.size (codePos insns pre.length))).isEmpty = false := by
        have := SInsn.encode_ne_nil (codePos insns) (codePos insns pre.length) x
        cases h : x.encode (codePos insns) (codePos insns pre.length) with
        | nil => exact absurd h this
        | cons b bs => simp
      simp only [pass1, encInsns, hne, Bool.false_eq_true, if_false,
        pass1Step_encode p bsms l insns.length (codePos insns) _ x hlx ha hpos]
      have ih' := ih (pre ++ [x]) (by simp [hins]) fuel (by simp at hfuel; omega)
      simp only [List.length_append, List.length_singleton, hnext] at ih'
      simp only [targetOffsets, List.flatMap_cons, createAll_append]
      cases hc : createAll l (List.map (codePos insns) (targetsOf x.insn)) with
      | err => simp
      | crash s => simp
      | ok l1 => simp [ih' l1, targetOffsets]

/-- the instruction entries the second pass delivers for the instructions `xs` starting at index `k` -/
def entriesFrom (l : Labels) (pos : Nat → Nat) : Nat → List SInsn → List InsnEntry
  | _, [] => []
  | k, x :: xs => ⟨l.get (pos k), none, mapT (labOf l pos) x.insn⟩ :: entriesFrom l pos (k + 1) xs

theorem pass2_suffix (p : Pool) (bsms : Option (List Bsm)) (insns : List SInsn) (hleg : CodeLegal p bsms insns)
    (l : Labels) (hlab : ∀ i (h : i < insns.length), TargetsLabelled l (codePos insns) insns[i].insn)
    (pre xs : List SInsn) (hins : insns = pre ++ xs) (fuel : Nat) (hfuel : xs.length ≤ fuel) (acc : List InsnEntry) :
    pass2 p bsms l fuel none acc (codePos insns pre.length, encInsns (codePos insns) xs (codePos insns pre.length))
      = ok (acc.reverse ++ entriesFrom l (codePos insns) pre.length xs) := by
  induction xs generalizing pre fuel acc with
  | nil => cases fuel <;> simp [pass2, encInsns, entriesFrom]
  | cons x xs ih =>
    have hlen : pre.length < insns.length := by simp [hins]
    have hx : insns[pre.length] = x := by simp [hins]
    have hlx := hleg.legal pre.length hlen
    have hlb := hlab pre.length hlen
    rw [hx] at hlx hlb
    have hpos : ∀ t, t < insns.length → codePos insns t ≤ 65535 := fun t ht =>
      Nat.le_trans (codePos_le_end insns t (Nat.le_of_lt ht)) hleg.small
    have ha := hpos pre.length hlen
    have hnext : codePos insns (pre.length + 1) = codePos insns pre.length + x.size (codePos insns pre.length) := by
      rw [codePos_succ insns pre.length hlen, hx]
    cases fuel with
    | zero => simp at hfuel
    | succ fuel =>
      have hne : (x.encode (codePos insns) (codePos insns pre.length) ++
          encInsns (codePos insns) xs (codePos insns pre.length + x.size (codePos insns pre.length))).isEmpty = false := by
        have := SInsn.encode_ne_nil (codePos insns) (codePos insns pre.length) x
        cases h : x.encode (codePos insns) (codePos insns pre.length) with
        | nil => exact absurd h this
        | cons b bs => simp
      have ih' := ih (pre ++ [x]) (by simp [hins]) fuel (by simp at hfuel; omega)
      simp only [List.length_append, List.length_singleton, hnext] at ih'
      simp only [pass2, encInsns, hne, Bool.false_eq_true, if_false,
        decodeInsn_encode p bsms l insns.length (codePos insns) _ x hlx ha hpos hlb, ok_bind, takeFrame, ih',
        List.reverse_cons, List.append_assoc, List.singleton_append, entriesFrom]

end ClassRead
