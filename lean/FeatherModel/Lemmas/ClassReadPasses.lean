import FeatherModel.Lemmas.ClassReadPass1
import FeatherModel.Lemmas.ClassReadDecode
import FeatherModel.Lemmas.ClassReadLayout

/-! C01 lemmas: the two loops of `read_code` over a whole legal code array. -/

namespace ClassRead
open Outcome Spec

theorem createAll_append (l : Labels) (xs ys : List Nat) :
    createAll l (xs ++ ys) = (do let l' ← createAll l xs; createAll l' ys) := by
  induction xs generalizing l with
  | nil => simp [createAll]
  | cons x xs ih =>
    simp only [List.cons_append, createAll]
    cases l.create x <;> simp [ih]

theorem createAll_spec (l : Labels) (hwf : l.WF) (pcs : List Nat) (hpc : ∀ pc ∈ pcs, pc < l.codeLength)
    (hcnt : l.count + pcs.length < 65536) :
    ∃ l', createAll l pcs = ok l' ∧ l'.WF ∧ Labels.Le l l' ∧ (∀ pc ∈ pcs, (l'.get pc).isSome = true) ∧
      l'.count ≤ l.count + pcs.length := by
  induction pcs generalizing l with
  | nil => exact ⟨l, rfl, hwf, Labels.Le.refl l, by simp, by simp⟩
  | cons pc pcs ih =>
    obtain ⟨l1, h1, hwf1, hle1, ⟨id, hg1⟩, hc1⟩ := Labels.create_spec hwf (hpc pc (by simp)) (by simp at hcnt; omega)
    have hcl : l1.codeLength = l.codeLength := hle1.1.symm
    obtain ⟨l2, h2, hwf2, hle2, hall, hc2⟩ := ih l1 hwf1 (fun q hq => by rw [hcl]; exact hpc q (by simp [hq]))
      (by simp at hcnt; omega)
    refine ⟨l2, by simp [createAll, h1, h2], hwf2, hle1.trans hle2, ?_, by simp; omega⟩
    intro q hq
    rcases List.mem_cons.mp hq with rfl | hq
    · rw [hle2.2 _ _ hg1]; rfl
    · exact hall q hq

/-- all branch targets of a list of instructions, as offsets, in first-pass order -/
def targetOffsets (pos : Nat → Nat) (xs : List SInsn) : List Nat :=
  xs.flatMap (fun si => (targetsOf si.insn).map pos)

theorem pass1_suffix (p : Pool) (bsms : Option (List Bsm)) (insns : List SInsn) (hleg : CodeLegal p bsms insns)
    (pre xs : List SInsn) (hins : insns = pre ++ xs) (fuel : Nat) (hfuel : xs.length ≤ fuel) (l : Labels) :
    pass1 fuel l (codePos insns pre.length, encInsns (codePos insns) xs (codePos insns pre.length))
      = createAll l (targetOffsets (codePos insns) xs) := by
  induction xs generalizing pre fuel l with
  | nil => cases fuel <;> simp [pass1, encInsns, targetOffsets, createAll]
  | cons x xs ih =>
    have hlen : pre.length < insns.length := by simp [hins]
    have hx : insns[pre.length] = x := by simp [hins]
    have hlx := hleg.legal pre.length hlen
    rw [hx] at hlx
    have hpos : ∀ t, t < insns.length → codePos insns t ≤ 65535 := fun t ht =>
      Nat.le_trans (codePos_le_end insns t (Nat.le_of_lt ht)) hleg.small
    have ha := hpos pre.length hlen
    have hnext : codePos insns (pre.length + 1) = codePos insns pre.length + x.size (codePos insns pre.length) := by
      rw [codePos_succ insns pre.length hlen, hx]
    cases fuel with
    | zero => simp at hfuel
    | succ fuel =>
      have hne : (x.encode (codePos insns) (codePos insns pre.length) ++
          encInsns (codePos insns) xs (codePos insns pre.length + x.size (codePos insns pre.length))).isEmpty = false := by
        have := SInsn.encode_ne_nil (codePos insns) (codePos insns pre.length) x
        cases h : x.encode (codePos insns) (codePos insns pre.length) with
        | nil => exact absurd h this
        | cons b bs => simp
      simp only [pass1, encInsns, hne, Bool.false_eq_true, if_false,
        pass1Step_encode p bsms l insns.length (codePos insns) _ x hlx ha hpos]
      have ih' := ih (pre ++ [x]) (by simp [hins]) fuel (by simp at hfuel; omega)
      simp only [List.length_append, List.length_singleton, hnext] at ih'
      simp only [targetOffsets, List.flatMap_cons, createAll_append]
      cases hc : createAll l (List.map (codePos insns) (targetsOf x.insn)) with
      | err => simp
      | crash s => simp
      | ok l1 => simp [ih' l1, targetOffsets]

/-- the instruction entries the second pass delivers for the instructions `xs` starting at index `k`; `rem` = the
frames not yet attached -/
def entriesFrom (l : Labels) (pos : Nat → Nat) : List SFrame → Nat → List SInsn → List InsnEntry
  | _, _, [] => []
  | [], k, x :: xs => ⟨l.get (pos k), none, mapT (labOf l pos) x.insn⟩ :: entriesFrom l pos [] (k + 1) xs
  | f :: rest, k, x :: xs =>
    if f.at_ = k then ⟨l.get (pos k), some (f.kind.raw l pos), mapT (labOf l pos) x.insn⟩ :: entriesFrom l pos rest (k + 1) xs
    else ⟨l.get (pos k), none, mapT (labOf l pos) x.insn⟩ :: entriesFrom l pos (f :: rest) (k + 1) xs

/-- frames describe instructions `≥ k`, in strictly increasing order -/
def Increasing : Nat → List SFrame → Prop
  | _, [] => True
  | k, f :: fs => k ≤ f.at_ ∧ Increasing (f.at_ + 1) fs

theorem Increasing.mono {k k' : Nat} (h : k' ≤ k) {fs : List SFrame} (hi : Increasing k fs) : Increasing k' fs := by
  cases fs with
  | nil => trivial
  | cons f fs => exact ⟨Nat.le_trans h hi.1, hi.2⟩

theorem takeFrame_none (frs : Option (List (Nat × Frame))) (label : Option Nat) (h : frs.getD [] = []) :
    takeFrame frs label = (none, frs) := by
  cases frs with
  | none => cases label <;> rfl
  | some l => simp at h; subst h; cases label <;> rfl

theorem pass2_suffix (p : Pool) (bsms : Option (List Bsm)) (insns : List SInsn) (hleg : CodeLegal p bsms insns)
    (l : Labels) (hwf : l.WF) (hlab : ∀ i (h : i < insns.length), TargetsLabelled l (codePos insns) insns[i].insn)
    (pre xs : List SInsn) (hins : insns = pre ++ xs) (fuel : Nat) (hfuel : xs.length ≤ fuel) (acc : List InsnEntry)
    (rem : List SFrame) (hinc : Increasing pre.length rem)
    (hremlab : ∀ f ∈ rem, f.at_ < insns.length ∧ (l.get (codePos insns f.at_)).isSome = true)
    (frs : Option (List (Nat × Frame))) (hfrs : frs.getD [] = framesRaw l (codePos insns) rem) :
    pass2 p bsms l fuel frs acc (codePos insns pre.length, encInsns (codePos insns) xs (codePos insns pre.length))
      = ok (acc.reverse ++ entriesFrom l (codePos insns) rem pre.length xs) := by
  induction xs generalizing pre fuel acc rem frs with
  | nil => cases fuel <;> simp [pass2, encInsns, entriesFrom]
  | cons x xs ih =>
    have hlen : pre.length < insns.length := by simp [hins]
    have hx : insns[pre.length] = x := by simp [hins]
    have hlx := hleg.legal pre.length hlen
    have hlb := hlab pre.length hlen
    rw [hx] at hlx hlb
    have hpos : ∀ t, t < insns.length → codePos insns t ≤ 65535 := fun t ht =>
      Nat.le_trans (codePos_le_end insns t (Nat.le_of_lt ht)) hleg.small
    have ha := hpos pre.length hlen
    have hnext : codePos insns (pre.length + 1) = codePos insns pre.length + x.size (codePos insns pre.length) := by
      rw [codePos_succ insns pre.length hlen, hx]
    cases fuel with
    | zero => simp at hfuel
    | succ fuel =>
      have hne : (x.encode (codePos insns) (codePos insns pre.length) ++
          encInsns (codePos insns) xs (codePos insns pre.length + x.size (codePos insns pre.length))).isEmpty = false := by
        have := SInsn.encode_ne_nil (codePos insns) (codePos insns pre.length) x
        cases h : x.encode (codePos insns) (codePos insns pre.length) with
        | nil => exact absurd h this
        | cons b bs => simp
      have ih' := fun acc rem hinc hremlab frs hfrs => ih (pre ++ [x]) (by simp [hins]) fuel (by simp at hfuel; omega) acc rem
        (by simpa using hinc) hremlab frs hfrs
      simp only [List.length_append, List.length_singleton, hnext] at ih'
      simp only [pass2, encInsns, hne, Bool.false_eq_true, if_false,
        decodeInsn_encode p bsms l insns.length (codePos insns) _ x hlx ha hpos hlb, ok_bind]
      cases rem with
      | nil =>
        simp only [framesRaw, List.map_nil] at hfrs
        rw [takeFrame_none frs _ hfrs]
        simp only []
        rw [ih' _ [] trivial (by simp) frs (by simpa [framesRaw] using hfrs)]
        simp [entriesFrom]
      | cons f rest =>
        obtain ⟨hk, hrest⟩ := hinc
        obtain ⟨hfn, hfl⟩ := hremlab f (by simp)
        have hfrs' : frs = some ((labOf l (codePos insns) f.at_, f.kind.raw l (codePos insns)) :: framesRaw l (codePos insns) rest) := by
          cases frs with
          | none => simp [framesRaw] at hfrs
          | some v => simp [framesRaw] at hfrs ⊢; exact hfrs
        cases hgf : l.get (codePos insns f.at_) with
        | none => simp [hgf] at hfl
        | some idf =>
          have hlabf : labOf l (codePos insns) f.at_ = idf := by simp [labOf, hgf]
          by_cases hfk : f.at_ = pre.length
          · -- the frame belongs to this instruction
            have hgk : l.get (codePos insns pre.length) = some idf := by rw [← hfk]; exact hgf
            rw [hfrs', hgk]
            simp only [takeFrame, hlabf, if_true]
            rw [ih' _ rest (by rw [← hfk]; exact hrest) (fun g hg => hremlab g (by simp [hg])) (some (framesRaw l (codePos insns) rest)) rfl]
            simp [entriesFrom, hfk, hgk]
          · -- a later instruction: no label here equals the frame's label
            have hnot : takeFrame frs (l.get (codePos insns pre.length)) = (none, frs) := by
              rw [hfrs']
              cases hgk : l.get (codePos insns pre.length) with
              | none => rfl
              | some idk =>
                have : idf ≠ idk := by
                  intro e; subst e
                  have := hwf.inj _ _ _ hgf hgk
                  exact hfk (codePos_inj insns f.at_ pre.length (Nat.le_of_lt hfn) (Nat.le_of_lt hlen) this)
                simp [takeFrame, hlabf, this]
            rw [hnot]
            simp only []
            rw [ih' _ (f :: rest) ⟨by omega, hrest⟩ hremlab frs hfrs]
            simp [entriesFrom, hfk]

end ClassRead
