import FeatherModel.Lemmas.VisitProj3

/-!
# C17 lemmas — projection, fourth part: the whole class (declined or visited)
-/

set_option linter.unusedSimpArgs false

namespace Visit

/-! ## a declined class receives nothing but `visit_class` -/

theorem recMaskOf_cls_none {cfg : Cfg} (hc : cfg.cls = none) (r : Nat) : recMaskOf cfg r = none := by
  simp [recMaskOf, hc]

theorem codeMaskOf_cls_none {cfg : Cfg} (hc : cfg.cls = none) (i : Nat) : codeMaskOf cfg i = none := by
  simp [codeMaskOf, hc]

theorem readClassAttrs_drop_all {avail : Nat} {cfg cfg0 : Cfg} {m0 : Mask} (hc : cfg.cls = none) :
    ∀ (as : List CAttr) (st : CSt) (p : Nat) (res : Nat × List Ev × Bool × Bool),
      readClassAttrs avail cfg0 m0 st as p = .ok res → res.2.1.filterMap (proj cfg) = [] := by
  intro as
  induction as with
  | nil => intro st p res h; simp [readClassAttrs] at h; subst h; rfl
  | cons a as ih =>
    intro st p res h
    cases a with
    | leaf a =>
      simp only [readClassAttrs] at h
      obtain ⟨q, hq, h⟩ := bind_ok.mp h
      split at h
      · simp at h
      · obtain ⟨s, hs, h⟩ := bind_ok.mp h
        obtain ⟨r', hr', h⟩ := bind_ok.mp h
        obtain ⟨p2, evs2, d2, sy2⟩ := r'
        simp [pure_ok] at h; subst h
        have h1 := leaf1_evs_drop (proj cfg) (by intro unk k pay; simp [hc]) hs
        have h2 : evs2.filterMap (proj cfg) = [] := ih _ _ _ hr'
        simp only [List.filterMap_append, h1, h2, List.append_nil]
    | record len comps =>
      simp only [readClassAttrs] at h
      obtain ⟨q, hq, h⟩ := bind_ok.mp h
      split at h
      · split at h
        · simp at h
        · obtain ⟨q2, hq2, h⟩ := bind_ok.mp h
          obtain ⟨r1, hr1, h⟩ := bind_ok.mp h
          obtain ⟨q3, e1⟩ := r1
          obtain ⟨_, hex, h⟩ := bind_ok.mp h
          obtain ⟨r', hr', h⟩ := bind_ok.mp h
          obtain ⟨p2, evs2, d2, sy2⟩ := r'
          simp [pure_ok] at h; subst h
          have h1 : e1.filterMap (proj cfg) = [] := readRecComps_drop
            (by intro r h; simp [hc]) (recMaskOf_cls_none hc) _ _ _ _ hr1
          have h2 : evs2.filterMap (proj cfg) = [] := ih _ _ _ hr'
          simp only [List.filterMap_append, h1, h2, List.append_nil]
      · obtain ⟨r', hr', h⟩ := bind_ok.mp h
        obtain ⟨p2, evs2, d2, sy2⟩ := r'
        simp [pure_ok] at h; subst h
        exact ih _ _ _ hr'

theorem readFields_drop_all {avail : Nat} {cfg cfg0 : Cfg} (hc : cfg.cls = none) :
    ∀ (fs : List Field) (i p : Nat) (res : Nat × List Ev),
      readFields avail cfg0 i fs p = .ok res → res.2.filterMap (proj cfg) = [] := by
  intro fs
  induction fs with
  | nil => intro i p res h; simp [readFields] at h; subst h; rfl
  | cons f fs ih =>
    intro i p res h
    simp only [readFields] at h
    obtain ⟨r1, h1, h⟩ := bind_ok.mp h
    obtain ⟨p1, e1⟩ := r1
    obtain ⟨r2, h2, h⟩ := bind_ok.mp h
    obtain ⟨p2, e2⟩ := r2
    simp [pure_ok] at h; subst h
    have a2 : e2.filterMap (proj cfg) = [] := ih _ _ _ h2
    have a1 : e1.filterMap (proj cfg) = [] := by
      simp only [readField] at h1
      obtain ⟨q, hq, h1⟩ := bind_ok.mp h1
      split at h1
      · obtain ⟨q2, hq2, h1⟩ := bind_ok.mp h1
        simp [pure_ok] at h1; obtain ⟨_, rfl⟩ := h1
        simp [hc, keepIf]
      · obtain ⟨q2, hq2, h1⟩ := bind_ok.mp h1
        obtain ⟨r', hr', h1⟩ := bind_ok.mp h1
        obtain ⟨p3, evs3, d3, sy3⟩ := r'
        simp [pure_ok] at h1; obtain ⟨_, rfl⟩ := h1
        have hd := readLeafs_evs_drop (proj cfg) (by intro unk k pay; simp [hc]) _ _ _ hr'
        simp only at hd
        simp [List.filterMap_append, hc, keepIf, hd]
    simp only [List.filterMap_append, a1, a2, List.append_nil]

theorem readMethods_drop_all {avail : Nat} {cfg cfg0 : Cfg} (hc : cfg.cls = none) :
    ∀ (ms : List Method) (i p : Nat) (res : Nat × List Ev),
      readMethods avail cfg0 i ms p = .ok res → res.2.filterMap (proj cfg) = [] := by
  intro ms
  induction ms with
  | nil => intro i p res h; simp [readMethods] at h; subst h; rfl
  | cons f fs ih =>
    intro i p res h
    simp only [readMethods] at h
    obtain ⟨r1, h1, h⟩ := bind_ok.mp h
    obtain ⟨p1, e1⟩ := r1
    obtain ⟨r2, h2, h⟩ := bind_ok.mp h
    obtain ⟨p2, e2⟩ := r2
    simp [pure_ok] at h; subst h
    have a2 : e2.filterMap (proj cfg) = [] := ih _ _ _ h2
    have a1 : e1.filterMap (proj cfg) = [] := by
      simp only [readMethod] at h1
      obtain ⟨q, hq, h1⟩ := bind_ok.mp h1
      split at h1
      · obtain ⟨q2, hq2, h1⟩ := bind_ok.mp h1
        simp [pure_ok] at h1; obtain ⟨_, rfl⟩ := h1
        simp [hc, keepIf]
      · obtain ⟨q2, hq2, h1⟩ := bind_ok.mp h1
        obtain ⟨r', hr', h1⟩ := bind_ok.mp h1
        obtain ⟨p3, evs3, d3, sy3⟩ := r'
        simp [pure_ok] at h1; obtain ⟨_, rfl⟩ := h1
        have hd := readMethodAttrs_drop (cfg := cfg)
          (by intro unk k pay; simp [hc]) (by simp [hc]) (codeMaskOf_cls_none hc _) _ _ _ hr'
        simp only at hd
        simp [List.filterMap_append, hc, keepIf, hd]
    simp only [List.filterMap_append, a1, a2, List.append_nil]

/-! ## the whole class -/

theorem framesExact_parts {c : ClassFrame} (h : framesExact c = true) :
    c.fields.all (fun f => f.attrs.all (leafExact fieldAct)) = true ∧
    c.methods.all (fun m => m.attrs.all mattrExact) = true ∧ c.attrs.all cattrExact = true := by
  simp only [framesExact, Bool.and_eq_true] at h
  exact ⟨h.1.1, h.1.2, h.2⟩

theorem full_cls : full.cls = some allMask := rfl

/-- **projection**: whenever the full read of an exactly framed class succeeds, the read with any configuration
succeeds, consumes the same bytes and delivers `proj cfg` of the full read's events, in the same order -/
theorem readWith_proj {cfg : Cfg} {c : ClassFrame} {avail n : Nat} {evs : List Ev}
    (hx : framesExact c = true) (h : readWith full c avail = .ok (n, evs)) :
    readWith cfg c avail = .ok (n, evs.filterMap (proj cfg)) := by
  obtain ⟨hxf, hxm, hxa⟩ := framesExact_parts hx
  simp only [readWith, full_cls] at h
  obtain ⟨fs, hfs, h⟩ := bind_ok.mp h
  split at h
  · simp at h
  · rename_i hok
    obtain ⟨p1, hp1, h⟩ := bind_ok.mp h
    obtain ⟨p2, hp2, h⟩ := bind_ok.mp h
    obtain ⟨p3, hp3, h⟩ := bind_ok.mp h
    obtain ⟨p4, hp4, h⟩ := bind_ok.mp h
    obtain ⟨p5, hp5, h⟩ := bind_ok.mp h
    obtain ⟨r', hr', h⟩ := bind_ok.mp h
    obtain ⟨p6, cevs, d, sy⟩ := r'
    obtain ⟨q1, hq1, h⟩ := bind_ok.mp h
    obtain ⟨r2, hr2, h⟩ := bind_ok.mp h
    obtain ⟨q2, fevs⟩ := r2
    obtain ⟨q3, hq3, h⟩ := bind_ok.mp h
    obtain ⟨r3, hr3, h⟩ := bind_ok.mp h
    obtain ⟨q4, mevs⟩ := r3
    simp [pure_ok] at h
    obtain ⟨rfl, rfl⟩ := h
    obtain rfl : q1 = p1 := by have := need_ok hp1; have := need_ok hq1; omega
    simp only [readWith, hfs, hok, hp1, hp2, hp3, hp4, bind, Except.bind]
    cases hc : cfg.cls with
    | none =>
      have hs := readClassAttrs_skip _ _ _ _ hxa hr'
      have d1 : cevs.filterMap (proj cfg) = [] := readClassAttrs_drop_all hc _ _ _ _ hr'
      have d2 : fevs.filterMap (proj cfg) = [] := readFields_drop_all hc _ _ _ _ hr2
      have d3 : mevs.filterMap (proj cfg) = [] := readMethods_drop_all hc _ _ _ _ hr3
      simp only at hs
      simp [skipAttrs, hp5, hs, bind, Except.bind, pure_ok, List.filterMap_append, hc, keepIf, d1, d2, d3]
    | some m =>
      have a1 := readClassAttrs_proj hc _ {} {} _ _ _ _ _ hxa rfl (by simp) hr'
      have a2 := readFields_proj hc _ _ _ _ _ hxf hr2
      have a3 := readMethods_proj hc _ _ _ _ _ hxm hr3
      simp [hp5, a1, hq1, a2, hq3, a3, bind, Except.bind, pure_ok, List.filterMap_append, hc, keepIf]

end Visit
