import FeatherModel.Lemmas.VisitProj3

/-!
# C17 lemmas — projection, fourth part: the whole class (declined or visited)
-/

set_option linter.unusedSimpArgs false

namespace Visit

/-! ## a declined class receives nothing but `visit_class` -/

theorem recMaskOf_cls_none {cfg : Cfg} (hc : cfg.cls = none) (r : Nat) : recMaskOf cfg r = none := by
  simp [recMaskOf, hc]

theorem codeMaskOf_cls_none {cfg : Cfg} (hc : cfg.cls = none) (i : Nat) : codeMaskOf cfg i = none := by
  simp [codeMaskOf, hc]

theorem readClassAttrs_drop_all {avail : Nat} {cfg cfg0 : Cfg} {m0 : Mask} (hc : cfg.cls = none) :
    ∀ (as : List CAttr) (st : CSt) (p : Nat) (res : Nat × List Ev × Bool × Bool),
      readClassAttrs avail cfg0 m0 st as p = .ok res → res.2.1.filterMap (proj cfg) = [] := by
  intro as
  induction as with
  | nil => intro st p res h; simp [readClassAttrs] at h; subst h; rfl
  | cons a as ih =>
    intro st p res h
    cases a with
    | leaf a =>
      simp only [readClassAttrs] at h
      obtain ⟨q, hq, h⟩ := bind_ok.mp h
      split at h
      · simp at h
      · obtain ⟨s, hs, h⟩ := bind_ok.mp h
        obtain ⟨r', hr', h⟩ := bind_ok.mp h
        obtain ⟨p2, evs2, d2, sy2⟩ := r'
        simp [pure_ok] at h; subst h
        have h1 := leaf1_evs_drop (proj cfg) (by intro unk k pay; simp [hc]) hs
        have h2 : evs2.filterMap (proj cfg) = [] := ih _ _ _ hr'
        simp only [List.filterMap_append, h1, h2, List.append_nil]
    | record len comps =>
      simp only [readClassAttrs] at h
      obtain ⟨q, hq, h⟩ := bind_ok.mp h
      split at h
      · split at h
        · simp at h
        · obtain ⟨q2, hq2, h⟩ := bind_ok.mp h
          obtain ⟨r1, hr1, h⟩ := bind_ok.mp h
          obtain ⟨q3, e1⟩ := r1
          obtain ⟨_, hex, h⟩ := bind_ok.mp h
          obtain ⟨r', hr', h⟩ := bind_ok.mp h
          obtain ⟨p2, evs2, d2, sy2⟩ := r'
          simp [pure_ok] at h; subst h
          have h1 : e1.filterMap (proj cfg) = [] := readRecComps_drop
            (by intro r h; simp [hc]) (recMaskOf_cls_none hc) _ _ _ _ hr1
          have h2 : evs2.filterMap (proj cfg) = [] := ih _ _ _ hr'
          simp only [List.filterMap_append, h1, h2, List.append_nil]
      · obtain ⟨r', hr', h⟩ := bind_ok.mp h
        obtain ⟨p2, evs2, d2, sy2⟩ := r'
        simp [pure_ok] at h; subst h
        exact ih _ _ _ hr'

/-- a visitor whose class visitor is absent (`visit_class` broke) or reports `interests.fields = false` receives nothing of
any field -/
theorem proj_fields_none {cfg : Cfg} (hd : cfg.cls = none ∨ cfg.fieldsI = false) :
    (∀ i h, proj cfg (.fieldBegin i h) = none) ∧ (∀ i unk k pay, proj cfg (.fAttr i unk k pay) = none) ∧
    (∀ i d s, proj cfg (.fieldFlags i d s) = none) ∧ (∀ i, proj cfg (.fieldEnd i) = none) := by
  rcases hd with hc | hf
  · refine ⟨?_, ?_, ?_, ?_⟩ <;> intros <;> simp [hc, keepIf]
  · refine ⟨?_, ?_, ?_, ?_⟩
    · intro i h; simp [hf, keepIf]
    · intro i unk k pay; simp only [proj_fAttr]; cases cfg.cls <;> cases cfg.field i <;> simp [hf, keepIf]
    · intro i d s; simp [hf, keepIf]
    · intro i; simp [hf, keepIf]

/-- same for the methods and their `Code`s with `interests.methods = false` -/
theorem proj_methods_none {cfg : Cfg} (hd : cfg.cls = none ∨ cfg.methodsI = false) :
    (∀ i h, proj cfg (.methodBegin i h) = none) ∧ (∀ i unk k pay, proj cfg (.mAttr i unk k pay) = none) ∧
    (∀ i d s, proj cfg (.methodFlags i d s) = none) ∧ (∀ i, proj cfg (.methodEnd i) = none) ∧
    (∀ i, proj cfg (.codeBegin i) = none) ∧ (∀ i, codeMaskOf cfg i = none) := by
  rcases hd with hc | hf
  · refine ⟨?_, ?_, ?_, ?_, ?_, ?_⟩ <;> intros <;> simp [hc, keepIf, codeMaskOf]
  · refine ⟨?_, ?_, ?_, ?_, ?_, ?_⟩
    · intro i h; simp [hf, keepIf]
    · intro i unk k pay; simp only [proj_mAttr]; cases cfg.cls <;> cases cfg.method i <;> simp [hf, keepIf]
    · intro i d s; simp [hf, keepIf]
    · intro i; simp [hf, keepIf]
    · intro i; simp only [proj_codeBegin]; cases cfg.cls <;> cases cfg.method i <;> simp [hf, keepIf]
    · intro i; simp only [codeMaskOf]; cases cfg.cls <;> cases cfg.method i <;> simp [hf]

theorem readFields_drop_all {avail : Nat} {cfg cfg0 : Cfg} (hd : cfg.cls = none ∨ cfg.fieldsI = false) :
    ∀ (fs : List Field) (i p : Nat) (res : Nat × List Ev),
      readFields avail cfg0 i fs p = .ok res → res.2.filterMap (proj cfg) = [] := by
  obtain ⟨hb, ha, hfl, he⟩ := proj_fields_none hd
  intro fs
  induction fs with
  | nil => intro i p res h; simp [readFields] at h; subst h; rfl
  | cons f fs ih =>
    intro i p res h
    simp only [readFields] at h
    obtain ⟨r1, h1, h⟩ := bind_ok.mp h
    obtain ⟨p1, e1⟩ := r1
    obtain ⟨r2, h2, h⟩ := bind_ok.mp h
    obtain ⟨p2, e2⟩ := r2
    simp [pure_ok] at h; subst h
    have a2 : e2.filterMap (proj cfg) = [] := ih _ _ _ h2
    have a1 : e1.filterMap (proj cfg) = [] := by
      simp only [readField] at h1
      obtain ⟨q, hq, h1⟩ := bind_ok.mp h1
      obtain ⟨_, _, h1⟩ := bind_ok.mp h1
      split at h1
      · obtain ⟨q2, hq2, h1⟩ := bind_ok.mp h1
        simp [pure_ok] at h1; obtain ⟨_, rfl⟩ := h1
        simp only [List.filterMap_cons, hb, List.filterMap_nil]
      · obtain ⟨q2, hq2, h1⟩ := bind_ok.mp h1
        obtain ⟨r', hr', h1⟩ := bind_ok.mp h1
        obtain ⟨p3, evs3, d3, sy3⟩ := r'
        simp [pure_ok] at h1; obtain ⟨_, rfl⟩ := h1
        have hd' := readLeafs_evs_drop (proj cfg) (ha i) _ _ _ hr'
        simp only at hd'
        simp only [List.filterMap_cons, List.filterMap_append, hb, hfl, he, hd', List.filterMap_nil, List.append_nil]
    simp only [List.filterMap_append, a1, a2, List.append_nil]

theorem readMethods_drop_all {avail : Nat} {cfg cfg0 : Cfg} (hd : cfg.cls = none ∨ cfg.methodsI = false) :
    ∀ (ms : List Method) (i p : Nat) (res : Nat × List Ev),
      readMethods avail cfg0 i ms p = .ok res → res.2.filterMap (proj cfg) = [] := by
  obtain ⟨hb, ha, hfl, he, hcb, hn⟩ := proj_methods_none hd
  intro ms
  induction ms with
  | nil => intro i p res h; simp [readMethods] at h; subst h; rfl
  | cons f fs ih =>
    intro i p res h
    simp only [readMethods] at h
    obtain ⟨r1, h1, h⟩ := bind_ok.mp h
    obtain ⟨p1, e1⟩ := r1
    obtain ⟨r2, h2, h⟩ := bind_ok.mp h
    obtain ⟨p2, e2⟩ := r2
    simp [pure_ok] at h; subst h
    have a2 : e2.filterMap (proj cfg) = [] := ih _ _ _ h2
    have a1 : e1.filterMap (proj cfg) = [] := by
      simp only [readMethod] at h1
      obtain ⟨q, hq, h1⟩ := bind_ok.mp h1
      obtain ⟨_, _, h1⟩ := bind_ok.mp h1
      split at h1
      · obtain ⟨q2, hq2, h1⟩ := bind_ok.mp h1
        simp [pure_ok] at h1; obtain ⟨_, rfl⟩ := h1
        simp only [List.filterMap_cons, hb, List.filterMap_nil]
      · obtain ⟨q2, hq2, h1⟩ := bind_ok.mp h1
        obtain ⟨r', hr', h1⟩ := bind_ok.mp h1
        obtain ⟨p3, evs3, d3, sy3⟩ := r'
        simp [pure_ok] at h1; obtain ⟨_, rfl⟩ := h1
        have hd' := readMethodAttrs_drop (cfg := cfg) (ha i) (hcb i) (hn i) _ _ _ hr'
        simp only at hd'
        simp only [List.filterMap_cons, List.filterMap_append, hb, hfl, he, hd', List.filterMap_nil, List.append_nil]
    simp only [List.filterMap_append, a1, a2, List.append_nil]

/-! ## the whole class -/

theorem framesExact_parts {c : ClassFrame} (h : framesExact c = true) :
    c.fields.all (fun f => f.attrs.all (leafExact fieldAct)) = true ∧
    c.methods.all (fun m => m.attrs.all mattrExact) = true ∧ c.attrs.all cattrExact = true := by
  simp only [framesExact, Bool.and_eq_true] at h
  exact ⟨h.1.1, h.1.2, h.2⟩

theorem full_cls : full.cls = some allMask := rfl

theorem full_fieldsI : full.fieldsI = true := rfl
theorem full_methodsI : full.methodsI = true := rfl

/-- the fields inside `with_pos`: visited and projected, or — `interests.fields = false` — skipped like before `visit_class`
(`hp2`: that loop succeeded from the same position), ending at the same position with no event -/
theorem readFieldsI_proj {avail : Nat} {cfg : Cfg} {m : Mask} (hc : cfg.cls = some m)
    {fs : List Field} {p p2 q2 : Nat} {fevs : List Ev}
    (hxf : fs.all (fun f => f.attrs.all (leafExact fieldAct)) = true)
    (hp2 : skipMembers avail (fs.map (fun f => attrLens f.attrs)) p = .ok p2)
    (h : readFields avail full 0 fs p = .ok (q2, fevs)) :
    readFieldsI avail cfg fs p = .ok (q2, fevs.filterMap (proj cfg)) := by
  unfold readFieldsI
  cases hf : cfg.fieldsI with
  | true => simpa using readFields_proj hc hf _ _ _ _ _ hxf h
  | false =>
    have d2 : fevs.filterMap (proj cfg) = [] := readFields_drop_all (Or.inr hf) _ _ _ _ h
    have e1 := skipMembers_pos _ _ _ hp2
    have e2 := readFields_pos _ _ _ _ hxf h
    rw [fields_sum] at e1
    simp only at e2
    have : p2 = q2 := by omega
    subst this
    simp [hp2, bind, Except.bind, pure_ok, d2]

/-- the methods inside `with_pos`: read and projected, or — `interests.methods = false` — not read at all -/
theorem readMethodsI_proj {avail : Nat} {cfg : Cfg} {m : Mask} (hc : cfg.cls = some m)
    {ms : List Method} {q : Nat} {mevs : List Ev}
    (hxm : ms.all (fun m => m.attrs.all mattrExact) = true)
    (h : readMethodsI avail full ms q = .ok mevs) :
    readMethodsI avail cfg ms q = .ok (mevs.filterMap (proj cfg)) := by
  unfold readMethodsI at h ⊢
  simp only [full_methodsI, if_true] at h
  obtain ⟨q3, hq3, h⟩ := bind_ok.mp h
  obtain ⟨r3, hr3, h⟩ := bind_ok.mp h
  obtain ⟨q4, mevs'⟩ := r3
  simp [pure_ok] at h
  subst h
  cases hmi : cfg.methodsI with
  | true =>
    have a3 := readMethods_proj hc hmi _ _ _ _ _ hxm hr3
    simp [hq3, a3, bind, Except.bind, pure_ok]
  | false =>
    have d3 : mevs'.filterMap (proj cfg) = [] := readMethods_drop_all (Or.inr hmi) _ _ _ _ hr3
    simp [pure_ok, d3]

/-- **projection**: whenever the full read of an exactly framed class succeeds, the read with any configuration
succeeds, consumes the same bytes and delivers `proj cfg` of the full read's events, in the same order -/
theorem readWith_proj {cfg : Cfg} {c : ClassFrame} {avail n : Nat} {evs : List Ev}
    (hx : framesExact c = true) (h : readWith full c avail = .ok (n, evs)) :
    readWith cfg c avail = .ok (n, evs.filterMap (proj cfg)) := by
  obtain ⟨hxf, hxm, hxa⟩ := framesExact_parts hx
  simp only [readWith, full_cls] at h
  obtain ⟨fs, hfs, h⟩ := bind_ok.mp h
  split at h
  · simp at h
  · rename_i hok
    obtain ⟨p1, hp1, h⟩ := bind_ok.mp h
    obtain ⟨p2, hp2, h⟩ := bind_ok.mp h
    obtain ⟨p3, hp3, h⟩ := bind_ok.mp h
    obtain ⟨p4, hp4, h⟩ := bind_ok.mp h
    obtain ⟨p5, hp5, h⟩ := bind_ok.mp h
    obtain ⟨r', hr', h⟩ := bind_ok.mp h
    obtain ⟨p6, cevs, d, sy⟩ := r'
    obtain ⟨q1, hq1, h⟩ := bind_ok.mp h
    obtain ⟨r2, hr2, h⟩ := bind_ok.mp h
    obtain ⟨q2, fevs⟩ := r2
    obtain ⟨mevs, hr3, h⟩ := bind_ok.mp h
    simp [pure_ok] at h
    obtain ⟨rfl, rfl⟩ := h
    obtain rfl : q1 = p1 := by have := need_ok hp1; have := need_ok hq1; omega
    simp only [readFieldsI, full_fieldsI, if_true] at hr2
    simp only [readWith, hfs, hok, hp1, hp2, hp3, hp4, bind, Except.bind]
    cases hc : cfg.cls with
    | none =>
      have hs := readClassAttrs_skip _ _ _ _ hxa hr'
      have d1 : cevs.filterMap (proj cfg) = [] := readClassAttrs_drop_all hc _ _ _ _ hr'
      have d2 : fevs.filterMap (proj cfg) = [] := readFields_drop_all (Or.inl hc) _ _ _ _ hr2
      have d3 : mevs.filterMap (proj cfg) = [] := by
        simp only [readMethodsI, full_methodsI, if_true] at hr3
        obtain ⟨q3, hq3, hr3⟩ := bind_ok.mp hr3
        obtain ⟨r3, hr3', hr3⟩ := bind_ok.mp hr3
        obtain ⟨q4, mevs'⟩ := r3
        simp [pure_ok] at hr3
        subst hr3
        exact readMethods_drop_all (Or.inl hc) _ _ _ _ hr3'
      simp only at hs
      simp [skipAttrs, hp5, hs, bind, Except.bind, pure_ok, List.filterMap_append, hc, keepIf, d1, d2, d3]
    | some m =>
      have a1 := readClassAttrs_proj hc _ {} {} _ _ _ _ _ hxa rfl (by simp) hr'
      have a2 := readFieldsI_proj hc hxf hp2 hr2
      have a3 := readMethodsI_proj hc hxm hr3
      simp [hp5, a1, hq1, a2, a3, bind, Except.bind, pure_ok, List.filterMap_append, hc, keepIf]

end Visit
