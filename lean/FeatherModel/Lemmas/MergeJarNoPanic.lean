import FeatherModel.Lemmas.MergeJarTotal

/-! Lemmas for C13, part 7: no input makes the merge panic (the `unreachable!()` arm of `merge_slice` is unreachable). -/
set_option linter.unusedSectionVars false
namespace MergeJar
open Outcome

/-- the outcome is `ok` or `err` -/
def NoPanic {α : Type} (o : Outcome α) : Prop := ∀ site, o ≠ Outcome.panic site

theorem noPanic_ok {α : Type} (a : α) : NoPanic (ok a) := fun _ h => by cases h
theorem noPanic_err {α : Type} : NoPanic (err : Outcome α) := fun _ h => by cases h

theorem noPanic_bind {α β : Type} {x : Outcome α} {f : α → Outcome β} (hx : NoPanic x) (hf : ∀ a, NoPanic (f a)) :
    NoPanic (x >>= f) := by
  cases x with
  | ok a => exact hf a
  | err => exact noPanic_err
  | panic s => exact absurd rfl (hx s)

theorem noPanic_mapM' {α β : Type} {f : α → Outcome β} {l : List α} (h : ∀ k ∈ l, NoPanic (f k)) :
    NoPanic (mapM' f l) := by
  induction l with
  | nil => exact noPanic_ok _
  | cons x xs ih =>
    have hx := h x List.mem_cons_self
    have hxs := ih (fun k hk => h k (List.mem_cons_of_mem _ hk))
    simp only [mapM']
    cases hf : f x with
    | ok y =>
      simp only
      cases hr : mapM' f xs with
      | ok ys => exact noPanic_ok _
      | err => exact noPanic_err
      | panic s => exact absurd hr (hxs s)
    | err => exact noPanic_err
    | panic s => exact absurd hf (hx s)

theorem noPanic_mergeEq {α : Type} [BEq α] (c s : α) : NoPanic (mergeEq c s) := by
  unfold mergeEq; split
  · exact noPanic_err
  · exact noPanic_ok _

theorem noPanic_mergeFromClient {α : Type} [BEq α] (c s : α) : NoPanic (mergeFromClient c s) := by
  unfold mergeFromClient; split
  · exact noPanic_err
  · exact noPanic_ok _

theorem noPanic_innerMember (c s : Member) : NoPanic (innerMember c s) := by
  unfold innerMember
  refine noPanic_bind (noPanic_mergeEq _ _) (fun _ => ?_)
  refine noPanic_bind (noPanic_mergeEq _ _) (fun _ => ?_)
  refine noPanic_bind (noPanic_mergeFromClient _ _) (fun _ => ?_)
  refine noPanic_bind (noPanic_mergeFromClient _ _) (fun _ => ?_)
  exact noPanic_ok _

theorem noPanic_memberElem {c s : List Member} {i : JStr × JStr}
    (hi : i ∈ mergePreserveOrder (c.map memberKey) (s.map memberKey)) : NoPanic (memberElem c s i) := by
  unfold memberElem
  cases hc : get i (collect memberKey c) with
  | some ec =>
    cases hs : get i (collect memberKey s) with
    | some es =>
      simp only
      split
      · exact noPanic_ok _
      · exact noPanic_innerMember _ _
    | none => exact noPanic_ok _
  | none =>
    have hnc := get_collect_none hc
    cases hs : get i (collect memberKey s) with
    | some es => exact noPanic_ok _
    | none =>
      have hns := get_collect_none hs
      exfalso
      cases mpo_mem_subset _ _ i hi with
      | inl h =>
        obtain ⟨m, hm, hk⟩ := List.mem_map.mp h
        exact hnc m hm hk
      | inr h =>
        obtain ⟨m, hm, hk⟩ := List.mem_map.mp h
        exact hns m hm hk

theorem noPanic_mergeMembers (c s : List Member) : NoPanic (mergeMembers c s) := by
  rw [mergeMembers_eq]
  exact noPanic_mapM' (fun k hk => noPanic_memberElem hk)

theorem noPanic_innerElem {c s : List Inner} {i : JStr}
    (hi : i ∈ mergePreserveOrder (c.map (·.name)) (s.map (·.name))) : NoPanic (innerElem c s i) := by
  unfold innerElem
  cases hc : get i (collect (fun x : Inner => x.name) c) with
  | some ec =>
    cases hs : get i (collect (fun x : Inner => x.name) s) with
    | some es =>
      simp only
      split
      · exact noPanic_ok _
      · exact noPanic_err
    | none => exact noPanic_ok _
  | none =>
    have hnc := get_collect_none hc
    cases hs : get i (collect (fun x : Inner => x.name) s) with
    | some es => exact noPanic_ok _
    | none =>
      have hns := get_collect_none hs
      exfalso
      cases mpo_mem_subset _ _ i hi with
      | inl h =>
        obtain ⟨m, hm, hk⟩ := List.mem_map.mp h
        exact hnc m hm hk
      | inr h =>
        obtain ⟨m, hm, hk⟩ := List.mem_map.mp h
        exact hns m hm hk

theorem noPanic_mergeInners (c s : List Inner) : NoPanic (mergeInners c s) := by
  rw [mergeInners_eq]
  exact noPanic_mapM' (fun k hk => noPanic_innerElem hk)

theorem noPanic_mergeClass (c s : Class) : NoPanic (mergeClass c s) := by
  unfold mergeClass
  simp only []
  refine noPanic_bind (noPanic_mergeFromClient _ _) (fun _ => ?_)
  refine noPanic_bind (noPanic_mergeFromClient _ _) (fun _ => ?_)
  refine noPanic_bind (noPanic_mergeEq _ _) (fun _ => ?_)
  refine noPanic_bind (noPanic_mergeEq _ _) (fun _ => ?_)
  refine noPanic_bind (noPanic_mergeMembers _ _) (fun _ => ?_)
  refine noPanic_bind (noPanic_mergeMembers _ _) (fun _ => ?_)
  refine noPanic_bind (noPanic_mergeFromClient _ _) (fun _ => ?_)
  refine noPanic_bind (noPanic_mergeFromClient _ _) (fun _ => ?_)
  refine noPanic_bind (noPanic_mergeInners _ _) (fun _ => ?_)
  exact noPanic_ok _

theorem noPanic_mergeClassEntry (rc : ClsRepr) (cc cs : Class) : NoPanic (mergeClassEntry rc cc cs) := by
  unfold mergeClassEntry
  split
  · exact noPanic_ok _
  · exact noPanic_bind (noPanic_mergeClass _ _) (fun _ => noPanic_ok _)

theorem noPanic_mergeEntry (n : JStr) (cmb : Comb) : NoPanic (mergeEntry n cmb) := by
  unfold mergeEntry
  split
  · exact noPanic_ok _
  · split
    · exact noPanic_ok _
    · cases cmb with
      | client c => exact noPanic_ok _
      | server s =>
        simp only
        split
        · exact noPanic_ok _
        · exact noPanic_ok _
      | both c s =>
        simp only
        split
        · exact noPanic_ok _
        · exact noPanic_bind (noPanic_mergeClassEntry _ _ _) (fun _ => noPanic_ok _)
        · exact noPanic_ok _
        · exact noPanic_err

theorem noPanic_mergeEntries (l : List (JStr × Comb)) : NoPanic (mergeEntries l) := by
  induction l with
  | nil => exact noPanic_ok _
  | cons e rest ih =>
    obtain ⟨n, cmb⟩ := e
    have he := noPanic_mergeEntry n cmb
    simp only [mergeEntries]
    cases hm : mergeEntry n cmb with
    | ok o =>
      cases o with
      | none => exact ih
      | some e =>
        simp only
        cases hr : mergeEntries rest with
        | ok r => exact noPanic_ok _
        | err => exact noPanic_err
        | panic s => exact absurd hr (ih s)
    | err => exact noPanic_err
    | panic s => exact absurd hm (he s)

theorem noPanic_mergeJar (client server : Jar) : NoPanic (mergeJar client server) :=
  noPanic_mergeEntries _

/-- ok, or a clean error -/
theorem ok_or_err_of_noPanic {α : Type} {o : Outcome α} (h : NoPanic o) : o = err ∨ ∃ a, o = ok a := by
  cases o with
  | ok a => exact Or.inr ⟨a, rfl⟩
  | err => exact Or.inl rfl
  | panic s => exact absurd rfl (h s)

end MergeJar
