import FeatherModel.Model.ClassReadCode

/-! C01 lemmas: which arm of the two opcode dispatches an opcode selects (finite checks). -/

namespace ClassRead

theorem isSimpleOp_lt (op : Nat) (h : isSimpleOp op = true) : op < 256 := by
  simp only [isSimpleOp, Bool.or_eq_true, Bool.and_eq_true, decide_eq_true_eq, beq_iff_eq] at h
  omega

theorem isCondBranchOp_lt (op : Nat) (h : isCondBranchOp op = true) : op < 256 := by
  simp only [isCondBranchOp, Bool.or_eq_true, Bool.and_eq_true, decide_eq_true_eq, beq_iff_eq] at h
  omega

theorem opKind_simple (op : Nat) (h : isSimpleOp op = true) : opKind op = .simple := by simp [opKind, h]

theorem opKind_cond_aux : ∀ op, op < 256 → isCondBranchOp op = true → opKind op = .cond := by decide +kernel
theorem opKind_cond (op : Nat) (h : isCondBranchOp op = true) : opKind op = .cond :=
  opKind_cond_aux op (isCondBranchOp_lt op h) h

theorem opKind_load_aux : ∀ k, k < 5 → opKind (0x15 + k) = .load k := by decide +kernel
theorem opKind_store_aux : ∀ k, k < 5 → opKind (0x36 + k) = .store k := by decide +kernel
theorem opKind_loadN_aux : ∀ k, k < 5 → ∀ i, i < 4 → opKind (0x1a + k * 4 + i) = .loadN k i := by decide +kernel
theorem opKind_storeN_aux : ∀ k, k < 5 → ∀ i, i < 4 → opKind (0x3b + k * 4 + i) = .storeN k i := by decide +kernel
theorem opKind_field_aux : ∀ op, op < 256 → 0xb2 ≤ op → op ≤ 0xb5 → opKind op = .field := by decide +kernel

theorem p1Kind_simple_aux : ∀ op, op < 256 → isSimpleOp op = true → p1Kind op = .skip 0 := by decide +kernel
theorem p1Kind_simple (op : Nat) (h : isSimpleOp op = true) : p1Kind op = .skip 0 :=
  p1Kind_simple_aux op (isSimpleOp_lt op h) h
theorem p1Kind_cond_aux : ∀ op, op < 256 → isCondBranchOp op = true → p1Kind op = .branch16 := by decide +kernel
theorem p1Kind_cond (op : Nat) (h : isCondBranchOp op = true) : p1Kind op = .branch16 :=
  p1Kind_cond_aux op (isCondBranchOp_lt op h) h
theorem p1Kind_load_aux : ∀ k, k < 5 → p1Kind (0x15 + k) = .skip 1 := by decide +kernel
theorem p1Kind_store_aux : ∀ k, k < 5 → p1Kind (0x36 + k) = .skip 1 := by decide +kernel
theorem p1Kind_loadN_aux : ∀ k, k < 5 → ∀ i, i < 4 → p1Kind (0x1a + k * 4 + i) = .skip 0 := by decide +kernel
theorem p1Kind_storeN_aux : ∀ k, k < 5 → ∀ i, i < 4 → p1Kind (0x3b + k * 4 + i) = .skip 0 := by decide +kernel
theorem p1Kind_field_aux : ∀ op, op < 256 → 0xb2 ≤ op → op ≤ 0xb5 → p1Kind op = .skip 2 := by decide +kernel

/-- the wide sub-opcodes -/
theorem wideLoad_aux : ∀ k, k < 5 → ((0x15 ≤ 0x15 + k && 0x15 + k ≤ 0x19) = true) := by decide +kernel
theorem wideStore_aux : ∀ k, k < 5 → ((0x15 ≤ 0x36 + k && 0x36 + k ≤ 0x19) = false ∧ (0x36 ≤ 0x36 + k && 0x36 + k ≤ 0x3a) = true) := by decide +kernel

end ClassRead
