import FeatherModel.Lemmas.ClassWriteFullAttr
import FeatherModel.Lemmas.ClassWriteFullCodeArray

/-!
# C02 (whole writer) — the constant-pool operands of the instructions of `write_code`, and when the writer's layout of
an instruction is legal
-/

namespace ClassWriteFull
open PoolWrite (Entry)
open FramePool (Good Le)
open ClassRead ClassRead.Spec

/-! ## member references, method handles, loadable constants -/

/-- index `i` holds a `Fieldref` (9) / `Methodref` (10) / `InterfaceMethodref` (11) for `r` -/
def RefAt (p : Pool) (i kind : Nat) (r : MemberRef) : Prop :=
  ∃ c nt, p.get i = some (if kind = 9 then .fieldRef c nt else if kind = 10 then .methodRef c nt else .ifaceMethodRef c nt) ∧
    ClsAt p c r.cls ∧ NatAt p nt r.name r.desc

theorem RefAt.mono {p q : Pool} (h : Le p q) {i kind : Nat} {r : MemberRef} : RefAt p i kind r → RefAt q i kind r
  | ⟨c, nt, a, b, d⟩ => ⟨c, nt, h _ _ a, b.mono h, d.mono h⟩

theorem putRef_spec {p p' : Pool} {kind : Nat} {r : MemberRef} {i : Nat} (hg : Good p)
    (h : putRef p kind r = .ok (i, p')) : Step p p' ∧ RefAt p' i kind r ∧ i < 65536 := by
  have h' := opt_eq_ok.mp h
  unfold PoolWrite.putRef at h'
  split at h'
  · cases h'
  · rename_i c p1 h1
    split at h'
    · cases h'
    · rename_i nt p2 h2
      obtain ⟨s1, a1, _⟩ := putClass_spec hg (opt_eq_ok.mpr h1)
      obtain ⟨s2, a2, _⟩ := putNameAndType_spec s1.good (opt_eq_ok.mpr h2)
      obtain ⟨s3, a3, b3⟩ := put_spec s2.good (opt_eq_ok.mpr h')
      exact ⟨(s1.trans s2).trans s3, ⟨c, nt, a3, a1.mono (s2.trans s3).le, a2.mono s3.le⟩, b3⟩

/-- names a member reference must have for the reader to accept it -/
def fieldRefOk (r : MemberRef) : Prop := validObjClassName r.cls = true ∧ validUnqualified r.name = true
def methodRefOk (r : MemberRef) : Prop := validClassName r.cls = true ∧ validMethodName r.name = true

theorem getFieldRef_of {q : Pool} (hq : Good q) {i : Nat} {r : MemberRef} (h : RefAt q i 9 r) (hv : fieldRefOk r) :
    (rpool q).getFieldRef i = .ok r := by
  obtain ⟨c, nt, a, b, d⟩ := h
  simp only [if_true] at a
  simp [Pool.getFieldRef, rget_of_get hq.1 a, conv, getObjClass_of hq b hv.1, Pool.getFieldNameAndType,
    getNameAndType_of hq d, checked, hv.2, bind, Outcome.bind]

theorem getMethodRef_of {q : Pool} (hq : Good q) {i : Nat} {r : MemberRef} (h : RefAt q i 10 r) (hv : methodRefOk r) :
    (rpool q).getMethodRef i = .ok r := by
  obtain ⟨c, nt, a, b, d⟩ := h
  simp only [show (10 : Nat) ≠ 9 by decide, if_false, if_true] at a
  simp [Pool.getMethodRef, rget_of_get hq.1 a, conv, getClass_of hq b hv.1, Pool.getMethodNameAndType,
    getNameAndType_of hq d, checked, hv.2, bind, Outcome.bind]

theorem getInterfaceMethodRef_of {q : Pool} (hq : Good q) {i : Nat} {r : MemberRef} (h : RefAt q i 11 r)
    (hv : methodRefOk r) : (rpool q).getInterfaceMethodRef i = .ok r := by
  obtain ⟨c, nt, a, b, d⟩ := h
  simp only [show (11 : Nat) ≠ 9 by decide, show (11 : Nat) ≠ 10 by decide, if_false] at a
  simp [Pool.getInterfaceMethodRef, rget_of_get hq.1 a, conv, getClass_of hq b hv.1, Pool.getMethodNameAndType,
    getNameAndType_of hq d, checked, hv.2, bind, Outcome.bind]

theorem getMethodRefOrInterface_of {q : Pool} (hq : Good q) {i : Nat} {r : MemberRef} {itf : Bool}
    (h : RefAt q i (if itf then 11 else 10) r) (hv : methodRefOk r) :
    (rpool q).getMethodRefOrInterface i = .ok (r, itf) := by
  obtain ⟨c, nt, a, b, d⟩ := h
  cases itf with
  | true =>
    simp only [if_true, show (11 : Nat) ≠ 9 by decide, show (11 : Nat) ≠ 10 by decide, if_false] at a
    simp [Pool.getMethodRefOrInterface, rget_of_get hq.1 a, conv, getClass_of hq b hv.1, Pool.getMethodNameAndType,
      getNameAndType_of hq d, checked, hv.2, bind, Outcome.bind]
  | false =>
    simp only [Bool.false_eq_true, if_false, show (10 : Nat) ≠ 9 by decide, if_true] at a
    simp [Pool.getMethodRefOrInterface, rget_of_get hq.1 a, conv, getClass_of hq b hv.1, Pool.getMethodNameAndType,
      getNameAndType_of hq d, checked, hv.2, bind, Outcome.bind]

/-- a method handle of the tree the reader accepts again: reference kind 1..9, the `bool` only on `InvokeStatic` /
`InvokeSpecial`, names valid for the kind of reference -/
def handleOk (h : ClassRead.Handle) : Prop :=
  1 ≤ h.kind ∧ h.kind ≤ 9 ∧ ((h.kind ≠ 6 ∧ h.kind ≠ 7) → h.itf = false) ∧
    (if h.kind ≤ 4 then fieldRefOk h.ref else methodRefOk h.ref)

def HandleAt (p : Pool) (i : Nat) (h : ClassRead.Handle) : Prop :=
  ∃ ri, p.get i = some (.methodHandle h.kind ri) ∧ RefAt p ri (handleOf h).refKind h.ref

theorem HandleAt.mono {p q : Pool} (hl : Le p q) {i : Nat} {h : ClassRead.Handle} : HandleAt p i h → HandleAt q i h
  | ⟨ri, a, b⟩ => ⟨ri, hl _ _ a, b.mono hl⟩

theorem putHandle_spec {p p' : Pool} {h : ClassRead.Handle} {i : Nat} (hg : Good p)
    (hp : putHandle p h = .ok (i, p')) : Step p p' ∧ HandleAt p' i h ∧ i < 65536 := by
  have h' := opt_eq_ok.mp hp
  unfold BootstrapWrite.putHandle at h'
  split at h'
  · cases h'
  · rename_i ri p1 h1
    obtain ⟨s1, a1, _⟩ := putRef_spec (r := h.ref) (kind := (handleOf h).refKind) hg (opt_eq_ok.mpr h1)
    obtain ⟨s2, a2, b2⟩ := put_spec s1.good (opt_eq_ok.mpr h')
    exact ⟨s1.trans s2, ⟨ri, a2, a1.mono s2.le⟩, b2⟩

theorem getMethodHandle_of {q : Pool} (hq : Good q) {i : Nat} {h : ClassRead.Handle} (ha : HandleAt q i h)
    (hv : handleOk h) : (rpool q).getMethodHandle i = .ok h := by
  obtain ⟨ri, a, b⟩ := ha
  obtain ⟨h1, h9, hitf, hn⟩ := hv
  obtain ⟨kind, ref, itf⟩ := h
  simp only at h1 h9 hitf hn a b
  simp only [handleOf] at b
  have hk : kind = 1 ∨ kind = 2 ∨ kind = 3 ∨ kind = 4 ∨ kind = 5 ∨ kind = 6 ∨ kind = 7 ∨ kind = 8 ∨ kind = 9 := by omega
  rcases hk with rfl | rfl | rfl | rfl | rfl | rfl | rfl | rfl | rfl
  all_goals simp only [Pool.getMethodHandle, rget_of_get hq.1 a, conv, bind, Outcome.bind]
  · have := hitf (by decide); subst this
    simp at b hn
    simp [getFieldRef_of hq b hn]
  · have := hitf (by decide); subst this
    simp at b hn
    simp [getFieldRef_of hq b hn]
  · have := hitf (by decide); subst this
    simp at b hn
    simp [getFieldRef_of hq b hn]
  · have := hitf (by decide); subst this
    simp at b hn
    simp [getFieldRef_of hq b hn]
  · have := hitf (by decide); subst this
    simp at b hn
    simp [getMethodRef_of hq b hn]
  · simp at hn
    have b' : RefAt q ri (if itf then 11 else 10) ref := by cases itf <;> simpa using b
    simp [getMethodRefOrInterface_of hq b' hn]
  · simp at hn
    have b' : RefAt q ri (if itf then 11 else 10) ref := by cases itf <;> simpa using b
    simp [getMethodRefOrInterface_of hq b' hn]
  · have := hitf (by decide); subst this
    simp at b hn
    simp [getMethodRef_of hq b hn]
  · have := hitf (by decide); subst this
    simp at b hn
    simp [getInterfaceMethodRef_of hq b hn]

/-- loadable constants of the proved fragment: everything but `Dynamic` -/
def loadableOk : Loadable → Prop
  | .cls c => validClassName c = true
  | .handle h => handleOk h
  | .dyn .. => False
  | _ => True

def LoadableAt (p : Pool) (i : Nat) : Loadable → Prop
  | .int v => p.get i = some (.int v)
  | .float b => p.get i = some (.float b)
  | .long v => p.get i = some (.long v)
  | .double b => p.get i = some (.double b)
  | .cls c => ClsAt p i c
  | .str s => StrAt p i s
  | .handle h => HandleAt p i h
  | .mtype d => ∃ u, p.get i = some (.methodType u) ∧ Utf8At p u d
  | .dyn .. => False

theorem LoadableAt.mono {p q : Pool} (h : Le p q) {i : Nat} {c : Loadable} (a : LoadableAt p i c) : LoadableAt q i c := by
  cases c <;> simp only [LoadableAt] at a ⊢
  · exact h _ _ a
  · exact h _ _ a
  · exact h _ _ a
  · exact h _ _ a
  · exact a.mono h
  · exact a.mono h
  · exact a.mono h
  · obtain ⟨u, x, y⟩ := a; exact ⟨u, h _ _ x, y.mono h⟩

theorem putLoadable_spec {p p' : Pool} {bs bs' : List Bsm} {c : Loadable} {i : Nat} (hg : Good p) (hok : loadableOk c)
    (h : putLoadable p bs c = .ok (i, p', bs')) : bs' = bs ∧ Step p p' ∧ LoadableAt p' i c ∧ i < 65536 := by
  cases c with
  | int v =>
    rw [putLoadable] at h
    split at h
    · rename_i i' p1 h1; cases h; obtain ⟨s, a, b⟩ := put_spec hg h1; exact ⟨rfl, s, a, b⟩
    · cases h
  | float v =>
    rw [putLoadable] at h
    split at h
    · rename_i i' p1 h1; cases h; obtain ⟨s, a, b⟩ := put_spec hg h1; exact ⟨rfl, s, a, b⟩
    · cases h
  | long v =>
    rw [putLoadable] at h
    split at h
    · rename_i i' p1 h1; cases h; obtain ⟨s, a, b⟩ := put_spec hg h1; exact ⟨rfl, s, a, b⟩
    · cases h
  | double v =>
    rw [putLoadable] at h
    split at h
    · rename_i i' p1 h1; cases h; obtain ⟨s, a, b⟩ := put_spec hg h1; exact ⟨rfl, s, a, b⟩
    · cases h
  | cls c =>
    rw [putLoadable] at h
    split at h
    · rename_i i' p1 h1; cases h; obtain ⟨s, a, b⟩ := putClass_spec hg h1; exact ⟨rfl, s, a, b⟩
    · cases h
  | str c =>
    rw [putLoadable] at h
    split at h
    · rename_i i' p1 h1; cases h; obtain ⟨s, a, b⟩ := putString_spec hg h1; exact ⟨rfl, s, a, b⟩
    · cases h
  | handle hd =>
    rw [putLoadable] at h
    split at h
    · rename_i i' p1 h1; cases h; obtain ⟨s, a, b⟩ := putHandle_spec hg h1; exact ⟨rfl, s, a, b⟩
    · cases h
  | mtype d =>
    rw [putLoadable] at h
    split at h
    · rename_i i' p1 h1
      cases h
      obtain ⟨⟨u, p0⟩, e1, e2⟩ := bind_eq_ok.mp h1
      obtain ⟨s1, a1, _⟩ := putUtf8_spec hg e1
      obtain ⟨s2, a2, b2⟩ := put_spec s1.good e2
      exact ⟨rfl, s1.trans s2, ⟨u, a2, a1.mono s2.le⟩, b2⟩
    · cases h
  | dyn n d hd args => exact absurd hok (by simp [loadableOk])

theorem getLoadableFuel_succ (rp : ClassRead.Pool) (bsms : Option (List ClassRead.Bsm)) (fuel i : Nat) :
    rp.getLoadableFuel bsms (fuel + 1) i = (do
      match ← rp.get i with
      | .int v => Outcome.ok (.int v)
      | .float v => Outcome.ok (.float v)
      | .long v => Outcome.ok (.long v)
      | .double v => Outcome.ok (.double v)
      | .cls _ => do let c ← rp.getClass i; pure (.cls c)
      | .str n => do let s ← rp.getUtf8 n; pure (.str s)
      | .methodHandle _ _ => do let h ← rp.getMethodHandle i; pure (.handle h)
      | .methodType d => do let s ← rp.getUtf8 d; pure (.mtype s)
      | .dynamic b nt => do
        let (name, desc) ← rp.getFieldNameAndType nt
        let m ← Pool.bsmAt bsms b
        let args ← Pool.mapArgs (rp.getLoadableFuel bsms fuel) m.args
        pure (.dyn name desc m.handle args)
      | _ => Outcome.err) := by
  rw [Pool.getLoadableFuel]
  rfl

theorem getLoadable_of {q : Pool} (hq : Good q) (bsms : Option (List ClassRead.Bsm)) {i : Nat} {c : Loadable}
    (h : LoadableAt q i c) (hok : loadableOk c) : (rpool q).getLoadable bsms i = .ok c := by
  unfold Pool.getLoadable
  rw [getLoadableFuel_succ]
  cases c <;> simp only [LoadableAt, loadableOk] at h hok
  · simp [rget_of_get hq.1 h, conv, bind, Outcome.bind]
  · simp [rget_of_get hq.1 h, conv, bind, Outcome.bind]
  · simp [rget_of_get hq.1 h, conv, bind, Outcome.bind]
  · simp [rget_of_get hq.1 h, conv, bind, Outcome.bind]
  · have hc := getClass_of hq h hok
    obtain ⟨u, a, b⟩ := h
    simp [rget_of_get hq.1 a, conv, hc, bind, Outcome.bind]
  · obtain ⟨u, a, b⟩ := h
    simp [rget_of_get hq.1 a, conv, getUtf8_of hq b, bind, Outcome.bind]
  · have hc := getMethodHandle_of hq h hok
    obtain ⟨ri, a, b⟩ := h
    simp [rget_of_get hq.1 a, conv, hc, bind, Outcome.bind]
  · obtain ⟨u, a, b⟩ := h
    simp [rget_of_get hq.1 a, conv, getUtf8_of hq b, bind, Outcome.bind]

/-! ## one instruction -/

/-- operands of an instruction of the proved fragment that do not depend on the pool or on positions: the ranges of
duke's tree types, valid names where the reader validates them, no `invokedynamic`, no `Dynamic` constant -/
def insnOk : ClassRead.Insn → Prop
  | .simple op => isSimpleOp op = true
  | .bipush v => inI8 v
  | .sipush v => inI16 v
  | .ldc c => loadableOk c
  | .load k i => k < 5 ∧ i < 65536
  | .store k i => k < 5 ∧ i < 65536
  | .iinc i v => i < 65536 ∧ inI16 v
  | .branch _ _ => True
  | .goto _ => True
  | .jsr _ => True
  | .ret i => i < 65536
  | .tableswitch _ lo hi tbl => inI32 lo ∧ inI32 hi ∧ lo ≤ hi ∧ (tbl.length : Int) = hi - lo + 1 ∧ tbl.length < 16384
  | .lookupswitch _ pairs => (∀ kt ∈ pairs, inI32 kt.1) ∧ pairs.length < 8192
  | .field op r => 0xb2 ≤ op ∧ op ≤ 0xb5 ∧ fieldRefOk r
  | .invokevirtual m => methodRefOk m
  | .invokespecial m _ => methodRefOk m
  | .invokestatic m _ => methodRefOk m
  | .invokeinterface m => methodRefOk m
  | .invokedynamic _ => False
  | .new c => validClassName c = true
  | .newarray a => 4 ≤ a ∧ a ≤ 11
  | .anewarray c => validClassName c = true
  | .checkcast c => validClassName c = true
  | .instanceof c => validClassName c = true
  | .multianewarray c d => validClassName c = true ∧ d < 256

/-- `insnOk` does not look at targets -/
theorem insnOk_mapT (f : Nat → Nat) (ri : ClassRead.Insn) : insnOk (mapT f ri) ↔ insnOk ri := by
  cases ri with
  | lookupswitch d pairs =>
    simp only [mapT, insnOk, List.length_map]
    constructor
    · intro ⟨h1, h2⟩
      exact ⟨fun kt hkt => h1 (kt.1, f kt.2) (List.mem_map.mpr ⟨kt, hkt, rfl⟩), h2⟩
    · intro ⟨h1, h2⟩
      refine ⟨fun kt hkt => ?_, h2⟩
      obtain ⟨x, hx, rfl⟩ := List.mem_map.mp hkt
      exact h1 x hx
  | tableswitch d lo hi tbl => simp [mapT, insnOk]
  | _ => simp [mapT, insnOk]

/-- what the pool index of an instruction must resolve to -/
def poolPart (rp : ClassRead.Pool) (bsms : Option (List ClassRead.Bsm)) (cp : Nat) : ClassRead.Insn → Prop
  | .ldc k => rp.getLoadable bsms cp = .ok k
  | .field _ r => rp.getFieldRef cp = .ok r
  | .invokevirtual m => rp.getMethodRef cp = .ok m
  | .invokespecial m itf => rp.getMethodRefOrInterface cp = .ok (m, itf)
  | .invokestatic m itf => rp.getMethodRefOrInterface cp = .ok (m, itf)
  | .invokeinterface m => rp.getInterfaceMethodRef cp = .ok m
  | .new c => rp.getClass cp = .ok c
  | .anewarray c => rp.getClass cp = .ok c
  | .checkcast c => rp.getClass cp = .ok c
  | .instanceof c => rp.getClass cp = .ok c
  | .multianewarray c _ => rp.getClass cp = .ok c
  | _ => True

theorem argsSize_lt {d : JStr} {c : Nat} (h : CodeWrite.argsSize d = .ok c) : c < 256 := by
  unfold CodeWrite.argsSize at h
  split at h
  · rename_i rest
    exact loop (rest.length + 1) rest 1 c (by omega) h
  · cases h
where
  loop : ∀ (fuel : Nat) (cs : List Nat) (size c : Nat), size ≤ 255 → CodeWrite.argsLoop fuel cs size = .ok c → c < 256
    | 0, _, _, _, _, h => by simp [CodeWrite.argsLoop] at h
    | fuel + 1, cs, size, c, hs, h => by
      unfold CodeWrite.argsLoop at h
      split at h
      · cases h
      · rename_i ch rest
        split at h
        · cases h; omega
        · split at h
          · split at h
            · cases h
            · exact loop fuel _ _ c (by omega) h
          · split at h
            · cases h
            · split at h
              · split at h
                · cases h
                · split at h
                  · cases h
                  · exact loop fuel _ _ c (by omega) h
              · split at h
                · cases h
                · exact loop fuel _ _ c (by omega) h

/-- **legality of the writer's layout of one instruction**: operands in range, pool index resolving to the operand,
targets inside the method and every offset within 16 bits -/
theorem sinsn_legal {rp : ClassRead.Pool} {bsms : Option (List ClassRead.Bsm)} {n : Nat} {pos : Nat → Nat} {a cp : Nat}
    {ri : ClassRead.Insn} (hok : insnOk ri) (hop : ∀ op t, ri = .branch op t → isCondBranchOp op = true)
    (hcp : cp < 65536) (hpool : poolPart rp bsms cp ri)
    (ht : ∀ t ∈ targetsOf ri, t < n ∧ inI16 (relOff pos a t)) : (sinsnOf cp ri).Legal rp bsms n pos a := by
  cases ri with
  | simple op => exact hok
  | bipush v => exact hok
  | sipush v => exact hok
  | ldc c =>
    simp only [poolPart] at hpool
    by_cases h2 : isTwoSlot c = true
    · simp only [sinsnOf, formOf, h2, if_true, SInsn.Legal]
      exact ⟨hcp, hpool⟩
    · by_cases h3 : cp ≤ 255
      · simp only [sinsnOf, formOf, h2, h3, if_true, SInsn.Legal]
        exact ⟨by omega, hpool⟩
      · simp only [sinsnOf, formOf, h2, h3, if_false, SInsn.Legal]
        exact ⟨hcp, hpool⟩
  | load k i =>
    simp only [insnOk] at hok
    by_cases h2 : i < 4
    · simp only [sinsnOf, formOf, localForm, h2, if_true, SInsn.Legal]
      exact ⟨hok.1, trivial⟩
    · by_cases h3 : i ≤ 255
      · simp only [sinsnOf, formOf, localForm, h2, h3, if_true, if_false, SInsn.Legal]
        exact ⟨hok.1, by omega⟩
      · simp only [sinsnOf, formOf, localForm, h2, h3, if_false, SInsn.Legal]
        exact hok
  | store k i =>
    simp only [insnOk] at hok
    by_cases h2 : i < 4
    · simp only [sinsnOf, formOf, localForm, h2, if_true, SInsn.Legal]
      exact ⟨hok.1, trivial⟩
    · by_cases h3 : i ≤ 255
      · simp only [sinsnOf, formOf, localForm, h2, h3, if_true, if_false, SInsn.Legal]
        exact ⟨hok.1, by omega⟩
      · simp only [sinsnOf, formOf, localForm, h2, h3, if_false, SInsn.Legal]
        exact hok
  | iinc i v =>
    simp only [insnOk] at hok
    by_cases h2 : i ≤ 255 ∧ -128 ≤ v ∧ v ≤ 127
    · simp only [sinsnOf, formOf, h2, and_self, if_true, SInsn.Legal]
      exact ⟨by omega, ⟨h2.2.1, by omega⟩⟩
    · simp only [sinsnOf, formOf, h2, if_false, SInsn.Legal]
      exact hok
  | branch op t =>
    have := ht t (by simp [targetsOf])
    exact ⟨hop op t rfl, this.1, this.2⟩
  | goto t => exact ht t (by simp [targetsOf])
  | jsr t => exact ht t (by simp [targetsOf])
  | ret i =>
    simp only [insnOk] at hok
    by_cases h2 : i ≤ 255
    · simp only [sinsnOf, formOf, h2, if_true, SInsn.Legal]
      omega
    · simp only [sinsnOf, formOf, h2, if_false, SInsn.Legal]
      exact hok
  | tableswitch d lo hi tbl =>
    simp only [insnOk] at hok
    obtain ⟨h1, h2, h3, h4, h5⟩ := hok
    exact ⟨(ht d (by simp [targetsOf])).1, fun t htm => (ht t (by simp [targetsOf, htm])).1, h1, h2, h3, h4, h5,
      by simp [sinsnOf, padOf]⟩
  | lookupswitch d pairs =>
    simp only [insnOk] at hok
    refine ⟨(ht d (by simp [targetsOf])).1, fun kt hkt => ⟨(ht kt.2 ?_).1, hok.1 kt hkt⟩, hok.2, by simp [sinsnOf, padOf]⟩
    simp only [targetsOf, List.mem_cons, List.mem_map]
    exact Or.inr ⟨kt, hkt, rfl⟩
  | field op r => exact ⟨hok.1, hok.2.1, hcp, hpool⟩
  | invokevirtual m => exact ⟨hcp, hpool⟩
  | invokespecial m itf => exact ⟨hcp, hpool⟩
  | invokestatic m itf => exact ⟨hcp, hpool⟩
  | invokeinterface m =>
    refine ⟨hcp, hpool, ?_⟩
    simp only [sinsnOf, padOf]
    split
    · rename_i c hc; exact argsSize_lt hc
    · omega
  | invokedynamic d => exact absurd hok (by simp [insnOk])
  | new c => exact ⟨hcp, hpool⟩
  | newarray a' => exact hok
  | anewarray c => exact ⟨hcp, hpool⟩
  | checkcast c => exact ⟨hcp, hpool⟩
  | instanceof c => exact ⟨hcp, hpool⟩
  | multianewarray c d => exact ⟨hcp, hpool, hok.2⟩

/-- **the pool puts of one instruction**: `putInsn` yields `cw cp` of the instruction with its labels renamed, the pool
index resolves to the operand in every later pool, no bootstrap method is created -/
theorem putInsn_spec {lab : Nat → Nat} {p p' : Pool} {bs bs' : List Bsm} {ri : ClassRead.Insn} {i : CodeWrite.Insn}
    (hg : Good p) (hok : insnOk ri) (h : putInsn lab p bs ri = .ok (i, p', bs')) :
    bs' = bs ∧ Step p p' ∧ ∃ cp, cw cp (mapT lab ri) = some i ∧ cp < 65536 ∧
      (∀ op t, ri = .branch op t → isCondBranchOp op = true) ∧
      Sound p' (fun rp => ∀ bsms, poolPart rp bsms cp (mapT lab ri)) := by
  have plain : ∀ {j : CodeWrite.Insn}, putInsn lab p bs ri = .ok (j, p, bs) → j = i ∧ p' = p ∧ bs' = bs := by
    intro j hj
    rw [hj] at h
    have := ok_inj.mp h
    simp only [Prod.mk.injEq] at this
    exact ⟨this.1, this.2.1.symm, this.2.2.symm⟩
  cases ri with
  | simple op =>
    obtain ⟨rfl, rfl, rfl⟩ := plain rfl
    exact ⟨rfl, Step.refl hg, 0, rfl, by omega, (fun _ _ h => by cases h), fun _ _ _ => trivial⟩
  | bipush v =>
    obtain ⟨rfl, rfl, rfl⟩ := plain rfl
    exact ⟨rfl, Step.refl hg, 0, rfl, by omega, (fun _ _ h => by cases h), fun _ _ _ => trivial⟩
  | sipush v =>
    obtain ⟨rfl, rfl, rfl⟩ := plain rfl
    exact ⟨rfl, Step.refl hg, 0, rfl, by omega, (fun _ _ h => by cases h), fun _ _ _ => trivial⟩
  | load k ix =>
    obtain ⟨rfl, rfl, rfl⟩ := plain rfl
    exact ⟨rfl, Step.refl hg, 0, rfl, by omega, (fun _ _ h => by cases h), fun _ _ _ => trivial⟩
  | store k ix =>
    obtain ⟨rfl, rfl, rfl⟩ := plain rfl
    exact ⟨rfl, Step.refl hg, 0, rfl, by omega, (fun _ _ h => by cases h), fun _ _ _ => trivial⟩
  | iinc ix v =>
    obtain ⟨rfl, rfl, rfl⟩ := plain rfl
    exact ⟨rfl, Step.refl hg, 0, rfl, by omega, (fun _ _ h => by cases h), fun _ _ _ => trivial⟩
  | goto t =>
    obtain ⟨rfl, rfl, rfl⟩ := plain rfl
    exact ⟨rfl, Step.refl hg, 0, rfl, by omega, (fun _ _ h => by cases h), fun _ _ _ => trivial⟩
  | jsr t =>
    obtain ⟨rfl, rfl, rfl⟩ := plain rfl
    exact ⟨rfl, Step.refl hg, 0, rfl, by omega, (fun _ _ h => by cases h), fun _ _ _ => trivial⟩
  | ret ix =>
    obtain ⟨rfl, rfl, rfl⟩ := plain rfl
    exact ⟨rfl, Step.refl hg, 0, rfl, by omega, (fun _ _ h => by cases h), fun _ _ _ => trivial⟩
  | tableswitch d lo hi tbl =>
    obtain ⟨rfl, rfl, rfl⟩ := plain rfl
    exact ⟨rfl, Step.refl hg, 0, rfl, by omega, (fun _ _ h => by cases h), fun _ _ _ => trivial⟩
  | lookupswitch d ps =>
    obtain ⟨rfl, rfl, rfl⟩ := plain rfl
    exact ⟨rfl, Step.refl hg, 0, rfl, by omega, (fun _ _ h => by cases h), fun _ _ _ => trivial⟩
  | newarray a =>
    obtain ⟨rfl, rfl, rfl⟩ := plain rfl
    exact ⟨rfl, Step.refl hg, 0, rfl, by omega, (fun _ _ h => by cases h), fun _ _ _ => trivial⟩
  | branch op t =>
    simp only [putInsn] at h
    split at h
    · cases h
    · rename_i c hc
      have := ok_inj.mp h
      simp only [Prod.mk.injEq] at this
      obtain ⟨rfl, rfl, rfl⟩ := this
      refine ⟨rfl, Step.refl hg, 0, by simp [cw, mapT, hc], by omega, ?_, fun _ _ _ => trivial⟩
      intro op' t' he
      cases he
      exact condOfOp_isCond hc
  | ldc c =>
    obtain ⟨⟨cp, p1, bs1⟩, h1, h2⟩ := bind_eq_ok.mp h
    have := pure_eq_ok.mp h2
    simp only [Prod.mk.injEq] at this
    obtain ⟨rfl, rfl, rfl⟩ := this
    obtain ⟨rfl, s, a, b⟩ := putLoadable_spec hg hok h1
    exact ⟨rfl, s, cp, rfl, b, (fun _ _ h => by cases h), fun q hq bsms => getLoadable_of hq.good bsms (a.mono hq.le) hok⟩
  | field op r =>
    obtain ⟨⟨cp, p1⟩, h1, h2⟩ := bind_eq_ok.mp h
    have := pure_eq_ok.mp h2
    simp only [Prod.mk.injEq] at this
    obtain ⟨rfl, rfl, rfl⟩ := this
    obtain ⟨s, a, b⟩ := putRef_spec hg h1
    exact ⟨rfl, s, cp, rfl, b, (fun _ _ h => by cases h), fun q hq _ => getFieldRef_of hq.good (a.mono hq.le) hok.2.2⟩
  | invokevirtual m =>
    obtain ⟨⟨cp, p1⟩, h1, h2⟩ := bind_eq_ok.mp h
    have := pure_eq_ok.mp h2
    simp only [Prod.mk.injEq] at this
    obtain ⟨rfl, rfl, rfl⟩ := this
    obtain ⟨s, a, b⟩ := putRef_spec hg h1
    exact ⟨rfl, s, cp, rfl, b, (fun _ _ h => by cases h), fun q hq _ => getMethodRef_of hq.good (a.mono hq.le) hok⟩
  | invokespecial m itf =>
    obtain ⟨⟨cp, p1⟩, h1, h2⟩ := bind_eq_ok.mp h
    have := pure_eq_ok.mp h2
    simp only [Prod.mk.injEq] at this
    obtain ⟨rfl, rfl, rfl⟩ := this
    obtain ⟨s, a, b⟩ := putRef_spec hg h1
    exact ⟨rfl, s, cp, rfl, b, (fun _ _ h => by cases h),
      fun q hq _ => getMethodRefOrInterface_of hq.good (a.mono hq.le) hok⟩
  | invokestatic m itf =>
    obtain ⟨⟨cp, p1⟩, h1, h2⟩ := bind_eq_ok.mp h
    have := pure_eq_ok.mp h2
    simp only [Prod.mk.injEq] at this
    obtain ⟨rfl, rfl, rfl⟩ := this
    obtain ⟨s, a, b⟩ := putRef_spec hg h1
    exact ⟨rfl, s, cp, rfl, b, (fun _ _ h => by cases h),
      fun q hq _ => getMethodRefOrInterface_of hq.good (a.mono hq.le) hok⟩
  | invokeinterface m =>
    obtain ⟨⟨cp, p1⟩, h1, h2⟩ := bind_eq_ok.mp h
    have := pure_eq_ok.mp h2
    simp only [Prod.mk.injEq] at this
    obtain ⟨rfl, rfl, rfl⟩ := this
    obtain ⟨s, a, b⟩ := putRef_spec hg h1
    exact ⟨rfl, s, cp, rfl, b, (fun _ _ h => by cases h),
      fun q hq _ => getInterfaceMethodRef_of hq.good (a.mono hq.le) hok⟩
  | invokedynamic d => exact absurd hok (by simp [insnOk])
  | new c =>
    obtain ⟨⟨cp, p1⟩, h1, h2⟩ := bind_eq_ok.mp h
    have := pure_eq_ok.mp h2
    simp only [Prod.mk.injEq] at this
    obtain ⟨rfl, rfl, rfl⟩ := this
    obtain ⟨s, a, b⟩ := putClass_spec hg h1
    exact ⟨rfl, s, cp, rfl, b, (fun _ _ h => by cases h), fun q hq _ => getClass_of hq.good (a.mono hq.le) hok⟩
  | anewarray c =>
    obtain ⟨⟨cp, p1⟩, h1, h2⟩ := bind_eq_ok.mp h
    have := pure_eq_ok.mp h2
    simp only [Prod.mk.injEq] at this
    obtain ⟨rfl, rfl, rfl⟩ := this
    obtain ⟨s, a, b⟩ := putClass_spec hg h1
    exact ⟨rfl, s, cp, rfl, b, (fun _ _ h => by cases h), fun q hq _ => getClass_of hq.good (a.mono hq.le) hok⟩
  | checkcast c =>
    obtain ⟨⟨cp, p1⟩, h1, h2⟩ := bind_eq_ok.mp h
    have := pure_eq_ok.mp h2
    simp only [Prod.mk.injEq] at this
    obtain ⟨rfl, rfl, rfl⟩ := this
    obtain ⟨s, a, b⟩ := putClass_spec hg h1
    exact ⟨rfl, s, cp, rfl, b, (fun _ _ h => by cases h), fun q hq _ => getClass_of hq.good (a.mono hq.le) hok⟩
  | instanceof c =>
    obtain ⟨⟨cp, p1⟩, h1, h2⟩ := bind_eq_ok.mp h
    have := pure_eq_ok.mp h2
    simp only [Prod.mk.injEq] at this
    obtain ⟨rfl, rfl, rfl⟩ := this
    obtain ⟨s, a, b⟩ := putClass_spec hg h1
    exact ⟨rfl, s, cp, rfl, b, (fun _ _ h => by cases h), fun q hq _ => getClass_of hq.good (a.mono hq.le) hok⟩
  | multianewarray c d =>
    obtain ⟨⟨cp, p1⟩, h1, h2⟩ := bind_eq_ok.mp h
    have := pure_eq_ok.mp h2
    simp only [Prod.mk.injEq] at this
    obtain ⟨rfl, rfl, rfl⟩ := this
    obtain ⟨s, a, b⟩ := putClass_spec hg h1
    exact ⟨rfl, s, cp, rfl, b, (fun _ _ h => by cases h), fun q hq _ => getClass_of hq.good (a.mono hq.le) hok.1⟩

end ClassWriteFull
