import FeatherModel.Lemmas.ClassWriteFullAttr

/-!
# C02 (whole writer) — the constant-pool operands of the instructions of `write_code`, and when the writer's layout of
an instruction is legal
-/

namespace ClassWriteFull
open PoolWrite (Entry)
open FramePool (Good Le)
open ClassRead ClassRead.Spec

/-! ## member references, method handles, loadable constants -/

/-- index `i` holds a `Fieldref` (9) / `Methodref` (10) / `InterfaceMethodref` (11) for `r` -/
def RefAt (p : Pool) (i kind : Nat) (r : MemberRef) : Prop :=
  ∃ c nt, p.get i = some (if kind = 9 then .fieldRef c nt else if kind = 10 then .methodRef c nt else .ifaceMethodRef c nt) ∧
    ClsAt p c r.cls ∧ NatAt p nt r.name r.desc

theorem RefAt.mono {p q : Pool} (h : Le p q) {i kind : Nat} {r : MemberRef} : RefAt p i kind r → RefAt q i kind r
  | ⟨c, nt, a, b, d⟩ => ⟨c, nt, h _ _ a, b.mono h, d.mono h⟩

theorem putRef_spec {p p' : Pool} {kind : Nat} {r : MemberRef} {i : Nat} (hg : Good p)
    (h : putRef p kind r = .ok (i, p')) : Step p p' ∧ RefAt p' i kind r ∧ i < 65536 := by
  have h' := opt_eq_ok.mp h
  unfold PoolWrite.putRef at h'
  split at h'
  · cases h'
  · rename_i c p1 h1
    split at h'
    · cases h'
    · rename_i nt p2 h2
      obtain ⟨s1, a1, _⟩ := putClass_spec hg (opt_eq_ok.mpr h1)
      obtain ⟨s2, a2, _⟩ := putNameAndType_spec s1.good (opt_eq_ok.mpr h2)
      obtain ⟨s3, a3, b3⟩ := put_spec s2.good (opt_eq_ok.mpr h')
      exact ⟨(s1.trans s2).trans s3, ⟨c, nt, a3, a1.mono (s2.trans s3).le, a2.mono s3.le⟩, b3⟩

/-- names a member reference must have for the reader to accept it -/
def fieldRefOk (r : MemberRef) : Prop := validObjClassName r.cls = true ∧ validUnqualified r.name = true
def methodRefOk (r : MemberRef) : Prop := validClassName r.cls = true ∧ validMethodName r.name = true

theorem getFieldRef_of {q : Pool} (hq : Good q) {i : Nat} {r : MemberRef} (h : RefAt q i 9 r) (hv : fieldRefOk r) :
    (rpool q).getFieldRef i = .ok r := by
  obtain ⟨c, nt, a, b, d⟩ := h
  simp only [if_true] at a
  simp [Pool.getFieldRef, rget_of_get hq.1 a, conv, getObjClass_of hq b hv.1, Pool.getFieldNameAndType,
    getNameAndType_of hq d, checked, hv.2, bind, Outcome.bind]

theorem getMethodRef_of {q : Pool} (hq : Good q) {i : Nat} {r : MemberRef} (h : RefAt q i 10 r) (hv : methodRefOk r) :
    (rpool q).getMethodRef i = .ok r := by
  obtain ⟨c, nt, a, b, d⟩ := h
  simp only [show (10 : Nat) ≠ 9 by decide, if_false, if_true] at a
  simp [Pool.getMethodRef, rget_of_get hq.1 a, conv, getClass_of hq b hv.1, Pool.getMethodNameAndType,
    getNameAndType_of hq d, checked, hv.2, bind, Outcome.bind]

theorem getInterfaceMethodRef_of {q : Pool} (hq : Good q) {i : Nat} {r : MemberRef} (h : RefAt q i 11 r)
    (hv : methodRefOk r) : (rpool q).getInterfaceMethodRef i = .ok r := by
  obtain ⟨c, nt, a, b, d⟩ := h
  simp only [show (11 : Nat) ≠ 9 by decide, show (11 : Nat) ≠ 10 by decide, if_false] at a
  simp [Pool.getInterfaceMethodRef, rget_of_get hq.1 a, conv, getClass_of hq b hv.1, Pool.getMethodNameAndType,
    getNameAndType_of hq d, checked, hv.2, bind, Outcome.bind]

theorem getMethodRefOrInterface_of {q : Pool} (hq : Good q) {i : Nat} {r : MemberRef} {itf : Bool}
    (h : RefAt q i (if itf then 11 else 10) r) (hv : methodRefOk r) :
    (rpool q).getMethodRefOrInterface i = .ok (r, itf) := by
  obtain ⟨c, nt, a, b, d⟩ := h
  cases itf with
  | true =>
    simp only [if_true, show (11 : Nat) ≠ 9 by decide, show (11 : Nat) ≠ 10 by decide, if_false] at a
    simp [Pool.getMethodRefOrInterface, rget_of_get hq.1 a, conv, getClass_of hq b hv.1, Pool.getMethodNameAndType,
      getNameAndType_of hq d, checked, hv.2, bind, Outcome.bind]
  | false =>
    simp only [Bool.false_eq_true, if_false, show (10 : Nat) ≠ 9 by decide, if_true] at a
    simp [Pool.getMethodRefOrInterface, rget_of_get hq.1 a, conv, getClass_of hq b hv.1, Pool.getMethodNameAndType,
      getNameAndType_of hq d, checked, hv.2, bind, Outcome.bind]

/-- a method handle of the tree the reader accepts again: reference kind 1..9, the `bool` only on `InvokeStatic` /
`InvokeSpecial`, names valid for the kind of reference -/
def handleOk (h : ClassRead.Handle) : Prop :=
  1 ≤ h.kind ∧ h.kind ≤ 9 ∧ ((h.kind ≠ 6 ∧ h.kind ≠ 7) → h.itf = false) ∧
    (if h.kind ≤ 4 then fieldRefOk h.ref else methodRefOk h.ref)

def HandleAt (p : Pool) (i : Nat) (h : ClassRead.Handle) : Prop :=
  ∃ ri, p.get i = some (.methodHandle h.kind ri) ∧ RefAt p ri (handleOf h).refKind h.ref

theorem HandleAt.mono {p q : Pool} (hl : Le p q) {i : Nat} {h : ClassRead.Handle} : HandleAt p i h → HandleAt q i h
  | ⟨ri, a, b⟩ => ⟨ri, hl _ _ a, b.mono hl⟩

theorem putHandle_spec {p p' : Pool} {h : ClassRead.Handle} {i : Nat} (hg : Good p)
    (hp : putHandle p h = .ok (i, p')) : Step p p' ∧ HandleAt p' i h ∧ i < 65536 := by
  have h' := opt_eq_ok.mp hp
  unfold BootstrapWrite.putHandle at h'
  split at h'
  · cases h'
  · rename_i ri p1 h1
    obtain ⟨s1, a1, _⟩ := putRef_spec (r := h.ref) (kind := (handleOf h).refKind) hg (opt_eq_ok.mpr h1)
    obtain ⟨s2, a2, b2⟩ := put_spec s1.good (opt_eq_ok.mpr h')
    exact ⟨s1.trans s2, ⟨ri, a2, a1.mono s2.le⟩, b2⟩

theorem getMethodHandle_of {q : Pool} (hq : Good q) {i : Nat} {h : ClassRead.Handle} (ha : HandleAt q i h)
    (hv : handleOk h) : (rpool q).getMethodHandle i = .ok h := by
  obtain ⟨ri, a, b⟩ := ha
  obtain ⟨h1, h9, hitf, hn⟩ := hv
  obtain ⟨kind, ref, itf⟩ := h
  simp only at h1 h9 hitf hn a b
  simp only [handleOf] at b
  have hk : kind = 1 ∨ kind = 2 ∨ kind = 3 ∨ kind = 4 ∨ kind = 5 ∨ kind = 6 ∨ kind = 7 ∨ kind = 8 ∨ kind = 9 := by omega
  rcases hk with rfl | rfl | rfl | rfl | rfl | rfl | rfl | rfl | rfl
  all_goals simp only [Pool.getMethodHandle, rget_of_get hq.1 a, conv, bind, Outcome.bind]
  · have := hitf (by decide); subst this
    simp at b hn
    simp [getFieldRef_of hq b hn]
  · have := hitf (by decide); subst this
    simp at b hn
    simp [getFieldRef_of hq b hn]
  · have := hitf (by decide); subst this
    simp at b hn
    simp [getFieldRef_of hq b hn]
  · have := hitf (by decide); subst this
    simp at b hn
    simp [getFieldRef_of hq b hn]
  · have := hitf (by decide); subst this
    simp at b hn
    simp [getMethodRef_of hq b hn]
  · simp at hn
    have b' : RefAt q ri (if itf then 11 else 10) ref := by cases itf <;> simpa using b
    simp [getMethodRefOrInterface_of hq b' hn]
  · simp at hn
    have b' : RefAt q ri (if itf then 11 else 10) ref := by cases itf <;> simpa using b
    simp [getMethodRefOrInterface_of hq b' hn]
  · have := hitf (by decide); subst this
    simp at b hn
    simp [getMethodRef_of hq b hn]
  · have := hitf (by decide); subst this
    simp at b hn
    simp [getInterfaceMethodRef_of hq b hn]

/-- loadable constants of the proved fragment: everything but `Dynamic` -/
def loadableOk : Loadable → Prop
  | .cls c => validClassName c = true
  | .handle h => handleOk h
  | .dyn .. => False
  | _ => True

def LoadableAt (p : Pool) (i : Nat) : Loadable → Prop
  | .int v => p.get i = some (.int v)
  | .float b => p.get i = some (.float b)
  | .long v => p.get i = some (.long v)
  | .double b => p.get i = some (.double b)
  | .cls c => ClsAt p i c
  | .str s => StrAt p i s
  | .handle h => HandleAt p i h
  | .mtype d => ∃ u, p.get i = some (.methodType u) ∧ Utf8At p u d
  | .dyn .. => False

theorem LoadableAt.mono {p q : Pool} (h : Le p q) {i : Nat} {c : Loadable} (a : LoadableAt p i c) : LoadableAt q i c := by
  cases c <;> simp only [LoadableAt] at a ⊢
  · exact h _ _ a
  · exact h _ _ a
  · exact h _ _ a
  · exact h _ _ a
  · exact a.mono h
  · exact a.mono h
  · exact a.mono h
  · obtain ⟨u, x, y⟩ := a; exact ⟨u, h _ _ x, y.mono h⟩

theorem putLoadable_spec {p p' : Pool} {bs bs' : List Bsm} {c : Loadable} {i : Nat} (hg : Good p) (hok : loadableOk c)
    (h : putLoadable p bs c = .ok (i, p', bs')) : bs' = bs ∧ Step p p' ∧ LoadableAt p' i c ∧ i < 65536 := by
  cases c with
  | int v =>
    rw [putLoadable] at h
    split at h
    · rename_i i' p1 h1; cases h; obtain ⟨s, a, b⟩ := put_spec hg h1; exact ⟨rfl, s, a, b⟩
    · cases h
  | float v =>
    rw [putLoadable] at h
    split at h
    · rename_i i' p1 h1; cases h; obtain ⟨s, a, b⟩ := put_spec hg h1; exact ⟨rfl, s, a, b⟩
    · cases h
  | long v =>
    rw [putLoadable] at h
    split at h
    · rename_i i' p1 h1; cases h; obtain ⟨s, a, b⟩ := put_spec hg h1; exact ⟨rfl, s, a, b⟩
    · cases h
  | double v =>
    rw [putLoadable] at h
    split at h
    · rename_i i' p1 h1; cases h; obtain ⟨s, a, b⟩ := put_spec hg h1; exact ⟨rfl, s, a, b⟩
    · cases h
  | cls c =>
    rw [putLoadable] at h
    split at h
    · rename_i i' p1 h1; cases h; obtain ⟨s, a, b⟩ := putClass_spec hg h1; exact ⟨rfl, s, a, b⟩
    · cases h
  | str c =>
    rw [putLoadable] at h
    split at h
    · rename_i i' p1 h1; cases h; obtain ⟨s, a, b⟩ := putString_spec hg h1; exact ⟨rfl, s, a, b⟩
    · cases h
  | handle hd =>
    rw [putLoadable] at h
    split at h
    · rename_i i' p1 h1; cases h; obtain ⟨s, a, b⟩ := putHandle_spec hg h1; exact ⟨rfl, s, a, b⟩
    · cases h
  | mtype d =>
    rw [putLoadable] at h
    split at h
    · rename_i i' p1 h1
      cases h
      obtain ⟨⟨u, p0⟩, e1, e2⟩ := bind_eq_ok.mp h1
      obtain ⟨s1, a1, _⟩ := putUtf8_spec hg e1
      obtain ⟨s2, a2, b2⟩ := put_spec s1.good e2
      exact ⟨rfl, s1.trans s2, ⟨u, a2, a1.mono s2.le⟩, b2⟩
    · cases h
  | dyn n d hd args => exact absurd hok (by simp [loadableOk])

theorem getLoadableFuel_succ (rp : ClassRead.Pool) (bsms : Option (List ClassRead.Bsm)) (fuel i : Nat) :
    rp.getLoadableFuel bsms (fuel + 1) i = (do
      match ← rp.get i with
      | .int v => Outcome.ok (.int v)
      | .float v => Outcome.ok (.float v)
      | .long v => Outcome.ok (.long v)
      | .double v => Outcome.ok (.double v)
      | .cls _ => do let c ← rp.getClass i; pure (.cls c)
      | .str n => do let s ← rp.getUtf8 n; pure (.str s)
      | .methodHandle _ _ => do let h ← rp.getMethodHandle i; pure (.handle h)
      | .methodType d => do let s ← rp.getUtf8 d; pure (.mtype s)
      | .dynamic b nt => do
        let (name, desc) ← rp.getFieldNameAndType nt
        let m ← Pool.bsmAt bsms b
        let args ← Pool.mapArgs (rp.getLoadableFuel bsms fuel) m.args
        pure (.dyn name desc m.handle args)
      | _ => Outcome.err) := by
  rw [Pool.getLoadableFuel]
  rfl

theorem getLoadable_of {q : Pool} (hq : Good q) (bsms : Option (List ClassRead.Bsm)) {i : Nat} {c : Loadable}
    (h : LoadableAt q i c) (hok : loadableOk c) : (rpool q).getLoadable bsms i = .ok c := by
  unfold Pool.getLoadable
  rw [getLoadableFuel_succ]
  cases c <;> simp only [LoadableAt, loadableOk] at h hok
  · simp [rget_of_get hq.1 h, conv, bind, Outcome.bind]
  · simp [rget_of_get hq.1 h, conv, bind, Outcome.bind]
  · simp [rget_of_get hq.1 h, conv, bind, Outcome.bind]
  · simp [rget_of_get hq.1 h, conv, bind, Outcome.bind]
  · have hc := getClass_of hq h hok
    obtain ⟨u, a, b⟩ := h
    simp [rget_of_get hq.1 a, conv, hc, bind, Outcome.bind]
  · obtain ⟨u, a, b⟩ := h
    simp [rget_of_get hq.1 a, conv, getUtf8_of hq b, bind, Outcome.bind]
  · have hc := getMethodHandle_of hq h hok
    obtain ⟨ri, a, b⟩ := h
    simp [rget_of_get hq.1 a, conv, hc, bind, Outcome.bind]
  · obtain ⟨u, a, b⟩ := h
    simp [rget_of_get hq.1 a, conv, getUtf8_of hq b, bind, Outcome.bind]

end ClassWriteFull
