import FeatherModel.Model.Tiny

/-! Text-level lemmas for the Tiny v2 round trip (C03): escaping, cell and line splitting, decimal numbers. -/

namespace Tiny

/-! ## escape / unescape -/

theorem escape_nil : escape [] = [] := rfl

/-- the piece `escape` writes for one character -/
def escChar (c : Nat) : JStr :=
  if c = 92 then [92, 92] else if c = 10 then [92, 110] else if c = 13 then [92, 114] else if c = 9 then [92, 116] else [c]

theorem escape_cons (c : Nat) (r : JStr) : escape (c :: r) = escChar c ++ escape r := by
  simp only [escape, List.flatMap_cons, escChar]

theorem escChar_clean (c : Nat) : 9 ∉ escChar c ∧ 10 ∉ escChar c ∧ 13 ∉ escChar c := by
  unfold escChar
  split
  · simp
  · split
    · simp
    · split
      · simp
      · split
        · simp
        · rename_i h1 h2 h3 h4
          simp only [List.mem_singleton]
          exact ⟨fun h => h4 h.symm, fun h => h2 h.symm, fun h => h3 h.symm⟩

/-- an escaped comment contains no TAB, LF or CR: it is one cell of one line -/
theorem escape_clean (d : JStr) : 9 ∉ escape d ∧ 10 ∉ escape d ∧ 13 ∉ escape d := by
  induction d with
  | nil => simp [escape]
  | cons c r ih =>
    rw [escape_cons]
    have hc := escChar_clean c
    simp only [List.mem_append, not_or]
    exact ⟨⟨hc.1, ih.1⟩, ⟨hc.2.1, ih.2.1⟩, ⟨hc.2.2, ih.2.2⟩⟩

theorem escape_no_lf (d : JStr) : 10 ∉ escape d := (escape_clean d).2.1

theorem unescape_cons_of_ne (a : Nat) (h : a ≠ 92) : ∀ t : JStr, unescape (a :: t) = a :: unescape t
  | [] => rfl
  | b :: r => by simp [unescape, h]

/-- **`unescape` undoes `escape` on every comment** -/
theorem unescape_escape : ∀ d : JStr, unescape (escape d) = d
  | [] => rfl
  | c :: r => by
    have ih := unescape_escape r
    rw [escape_cons]
    unfold escChar
    split
    · rename_i h; subst h
      simp [unescape, ih]
    · rename_i h92
      split
      · rename_i h; subst h
        simp [unescape, ih]
      · split
        · rename_i h; subst h
          simp [unescape, ih]
        · split
          · rename_i h; subst h
            simp [unescape, ih]
          · simp only [List.singleton_append]
            rw [unescape_cons_of_ne c h92, ih]

/-- `escape` is injective -/
theorem escape_injective {a b : JStr} (h : escape a = escape b) : a = b := by
  rw [← unescape_escape a, ← unescape_escape b, h]

theorem escape_getLast (d : JStr) : (escape d).getLast? ≠ some 13 :=
  fun h => (escape_clean d).2.2 (List.mem_of_getLast? h)

/-! ## cells: `split('\t')` -/

theorem splitOn_ne_nil (sep : Nat) : ∀ l : List Nat, splitOn sep l ≠ []
  | [] => by simp [splitOn]
  | c :: r => by
    simp only [splitOn]
    split
    · simp
    · split <;> simp

theorem splitOn_append (sep : Nat) : ∀ (f : List Nat), sep ∉ f → ∀ rest : List Nat,
    splitOn sep (f ++ sep :: rest) = f :: splitOn sep rest
  | [], _, rest => by simp [splitOn]
  | c :: f, h, rest => by
    simp only [List.mem_cons, not_or] at h
    have hc : ¬ c = sep := fun h' => h.1 h'.symm
    simp only [List.cons_append, splitOn, if_neg hc]
    rw [splitOn_append sep f h.2 rest]

theorem splitOn_single (sep : Nat) : ∀ (f : List Nat), sep ∉ f → splitOn sep f = [f]
  | [], _ => rfl
  | c :: f, h => by
    simp only [List.mem_cons, not_or] at h
    have hc : ¬ c = sep := fun h' => h.1 h'.symm
    simp only [splitOn, if_neg hc]
    rw [splitOn_single sep f h.2]

/-- splitting a written row gives back its cells -/
theorem splitOn_cells (sep : Nat) (f : List Nat) (hf : sep ∉ f) :
    ∀ cs : List (List Nat), (∀ c ∈ cs, sep ∉ c) → splitOn sep (f ++ cs.flatMap (sep :: ·)) = f :: cs
  | [], _ => by simp [splitOn_single sep f hf]
  | c :: cs, h => by
    simp only [List.flatMap_cons, List.cons_append]
    rw [splitOn_append sep f hf]
    rw [splitOn_cells sep c (h c List.mem_cons_self) cs (fun x hx => h x (List.mem_cons_of_mem _ hx))]

/-- a written line: indentation, first field, TAB-prefixed cells -/
def mkLine (indent : Nat) (first : JStr) (cells : List JStr) : List Nat :=
  List.replicate indent 9 ++ (first ++ cells.flatMap (9 :: ·))

theorem takeWhile_replicate_tab (n : Nat) (rest : List Nat) (h : rest.head? ≠ some 9) :
    (List.replicate n 9 ++ rest).takeWhile (· == 9) = List.replicate n 9 := by
  induction n with
  | zero =>
    cases rest with
    | nil => rfl
    | cons c r =>
      have : c ≠ 9 := by simpa using h
      simp [this]
  | succ n ih => simp [List.replicate_succ, ih]

theorem tinyLine_mkLine (indent : Nat) (first : JStr) (cells : List JStr)
    (h1 : first ≠ []) (h2 : 9 ∉ first) (h3 : ∀ c ∈ cells, 9 ∉ c) :
    tinyLine (mkLine indent first cells) = { indent := indent, first := first, fields := cells } := by
  have hh : (first ++ cells.flatMap (9 :: ·)).head? ≠ some 9 := by
    cases first with
    | nil => exact absurd rfl h1
    | cons c r =>
      simp only [List.mem_cons, not_or] at h2
      simpa using fun h => h2.1 h.symm
  unfold tinyLine mkLine
  simp only [takeWhile_replicate_tab _ _ hh, List.length_replicate]
  have : (List.replicate indent 9 ++ (first ++ cells.flatMap (9 :: ·))).drop indent = first ++ cells.flatMap (9 :: ·) := by
    rw [List.drop_append]
    simp
  rw [this, splitOn_cells 9 first h2 cells h3]

/-! ## lines -/

/-- a line that `BufRead::lines` gives back unchanged -/
def LineOk (l : List Nat) : Prop := 10 ∉ l ∧ l.getLast? ≠ some 13

theorem lines_append : ∀ (l : List Nat), LineOk l → ∀ rest : List Nat, lines (l ++ 10 :: rest) = l :: lines rest
  | [], _, [] => by simp [lines]
  | [], _, b :: r => by simp [lines]
  | [a], h, rest => by
    have h10 : ¬ a = 10 := by simpa using fun h' : a = 10 => h.1 (by simp [h'])
    have h13 : ¬ a = 13 := by simpa [LineOk] using h.2
    have := lines_append [] (by simp [LineOk]) rest
    simp only [List.nil_append] at this
    simp only [List.cons_append, List.nil_append, lines, if_neg h10, h13, false_and, if_false, this]
  | a :: b :: l, h, rest => by
    have h10 : ¬ a = 10 := fun h' => h.1 (by simp [h'])
    have hb10 : ¬ b = 10 := fun h' => h.1 (by simp [h'])
    have hrest : LineOk (b :: l) := ⟨fun h' => h.1 (List.mem_cons_of_mem _ h'), by simpa [List.getLast?_cons_cons] using h.2⟩
    have := lines_append (b :: l) hrest rest
    simp only [List.cons_append] at this
    simp only [List.cons_append, lines, if_neg h10, hb10, and_false, if_false, this]

theorem lines_write : ∀ ls : List (List Nat), (∀ l ∈ ls, LineOk l) → lines (ls.flatMap (· ++ [10])) = ls
  | [], _ => rfl
  | l :: ls, h => by
    simp only [List.flatMap_cons, List.append_assoc, List.singleton_append]
    rw [lines_append l (h l List.mem_cons_self), lines_write ls (fun x hx => h x (List.mem_cons_of_mem _ hx))]

/-! ## decimal numbers -/

def isDigit (c : Nat) : Prop := 48 ≤ c ∧ c ≤ 57

theorem digitsAux_spec : ∀ (fuel n : Nat) (acc : List Nat), n < fuel → (∀ c ∈ acc, isDigit c) →
    (∀ c ∈ digitsAux fuel n acc, isDigit c) ∧ digitsAux fuel n acc ≠ [] ∧
    ∀ a, (digitsAux fuel n acc).foldl (fun a c => a * 10 + (c - 48)) a
        = acc.foldl (fun a c => a * 10 + (c - 48)) (a * 10 ^ (digitsAux fuel n []).length + n)
  | 0, n, acc, h, _ => by omega
  | fuel + 1, n, acc, h, hacc => by
    simp only [digitsAux]
    split
    · rename_i hn
      refine ⟨?_, by simp, ?_⟩
      · intro c hc
        rcases List.mem_cons.mp hc with rfl | hc
        · exact ⟨by omega, by omega⟩
        · exact hacc c hc
      · intro a
        simp only [List.foldl_cons, List.length_cons, List.length_nil]
        congr 1
        omega
    · rename_i hn
      have hd : isDigit (48 + n % 10) := ⟨by omega, by omega⟩
      have ih := digitsAux_spec fuel (n / 10) ((48 + n % 10) :: acc) (by omega) (by
        intro c hc
        rcases List.mem_cons.mp hc with rfl | hc
        · exact hd
        · exact hacc c hc)
      have ih0 := digitsAux_spec fuel (n / 10) [(48 + n % 10)] (by omega) (by
        intro c hc
        rcases List.mem_cons.mp hc with rfl | hc
        · exact hd
        · simp at hc)
      refine ⟨ih.1, ih.2.1, ?_⟩
      intro a
      rw [ih.2.2 a]
      simp only [List.foldl_cons]
      congr 1
      -- length of the digits of n = length of digits of n/10 + 1
      have hlen : (digitsAux fuel (n / 10) [48 + n % 10]).length = (digitsAux fuel (n / 10) []).length + 1 := by
        exact digitsAux_length fuel (n / 10) [48 + n % 10] (by omega)
      rw [hlen, Nat.pow_succ]
      have := Nat.div_add_mod n 10
      have e : 48 + n % 10 - 48 = n % 10 := by omega
      rw [e, Nat.add_mul, Nat.mul_assoc]
      omega
where
  digitsAux_length : ∀ (fuel n : Nat) (acc : List Nat), n < fuel →
      (digitsAux fuel n acc).length = (digitsAux fuel n []).length + acc.length
    | 0, n, acc, h => by omega
    | fuel + 1, n, acc, h => by
      simp only [digitsAux]
      split
      · simp only [List.length_cons, List.length_nil]; omega
      · rw [digitsAux_length fuel (n / 10) _ (by omega), digitsAux_length fuel (n / 10) [48 + n % 10] (by omega)]
        simp only [List.length_cons, List.length_nil]
        omega

theorem natDigits_digits (n : Nat) : ∀ c ∈ natDigits n, isDigit c :=
  (digitsAux_spec (n + 1) n [] (by omega) (by simp)).1

theorem natDigits_ne_nil (n : Nat) : natDigits n ≠ [] :=
  (digitsAux_spec (n + 1) n [] (by omega) (by simp)).2.1

theorem natDigits_value (n : Nat) : (natDigits n).foldl (fun a c => a * 10 + (c - 48)) 0 = n := by
  have := (digitsAux_spec (n + 1) n [] (by omega) (by simp)).2.2 0
  simpa [natDigits] using this

/-- `parse::<usize>` reads back what `Display` printed -/
theorem parseUsize_natDigits (n : Nat) (h : n < USIZE_LIMIT) : parseUsize (natDigits n) = some n := by
  have hd := natDigits_digits n
  have hne := natDigits_ne_nil n
  obtain ⟨c, r, hcr⟩ := List.exists_cons_of_ne_nil hne
  have hc : isDigit c := hd c (by rw [hcr]; exact List.mem_cons_self)
  have h43 : c ≠ 43 := by unfold isDigit at hc; omega
  have hall : (natDigits n).all (fun c => decide (48 ≤ c) && decide (c ≤ 57)) = true := by
    simp only [List.all_eq_true, Bool.and_eq_true, decide_eq_true_eq]
    exact hd
  have hv := natDigits_value n
  have hs : stripPlus (c :: r) = c :: r := by
    unfold stripPlus
    split
    · rename_i heq; simp only [List.cons.injEq] at heq; exact absurd heq.1 h43
    · rfl
  unfold parseUsize
  rw [hcr] at hall hv ⊢
  rw [hs]
  simp only [List.isEmpty_cons, Bool.false_eq_true, if_false, hall, if_true, hv, h]

end Tiny
