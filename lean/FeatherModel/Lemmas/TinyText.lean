import FeatherModel.Model.Tiny

/-! Text-level lemmas for the Tiny v2 round trip (C03): escaping, cell and line splitting, decimal numbers. -/

namespace Tiny

/-! ## escape / unescape -/

theorem escape_nil : escape [] = [] := rfl

theorem escape_cons (c : Nat) (r : JStr) :
    escape (c :: r) = if c = 10 then 92 :: 110 :: escape r else c :: escape r := by
  simp only [escape, List.flatMap_cons]
  split <;> simp

theorem escape_no_lf (d : JStr) : 10 ∉ escape d := by
  induction d with
  | nil => simp [escape]
  | cons c r ih =>
    rw [escape_cons]
    split
    · simp [ih]
    · rename_i h
      simp only [List.mem_cons, not_or]
      exact ⟨fun h' => h h'.symm, ih⟩

theorem escape_mem {d : JStr} {x : Nat} (hx : x ∈ escape d) : x ∈ d ∨ x = 92 ∨ x = 110 := by
  induction d with
  | nil => simp [escape] at hx
  | cons c r ih =>
    rw [escape_cons] at hx
    split at hx
    · simp only [List.mem_cons] at hx
      rcases hx with h | h | h
      · exact Or.inr (Or.inl h)
      · exact Or.inr (Or.inr h)
      · rcases ih h with h | h
        · exact Or.inl (List.mem_cons_of_mem _ h)
        · exact Or.inr h
    · simp only [List.mem_cons] at hx
      rcases hx with h | h
      · exact Or.inl (by simp [h])
      · rcases ih h with h | h
        · exact Or.inl (List.mem_cons_of_mem _ h)
        · exact Or.inr h

theorem escape_head (c : Nat) (r : JStr) : (escape (c :: r)).head? = some (if c = 10 then 92 else c) := by
  rw [escape_cons]; split <;> rfl

/-- `unescape` undoes `escape` on comments that do not contain a backslash directly followed by `n` -/
theorem unescape_escape : ∀ d : JStr, noBsN d = true → unescape (escape d) = d
  | [], _ => rfl
  | [c], _ => by
    rw [escape_cons, escape_nil]
    split
    · rename_i h; subst h; simp [unescape]
    · simp [unescape]
  | a :: b :: r, h => by
    simp only [noBsN, Bool.and_eq_true, Bool.not_eq_true', Bool.and_eq_false_iff, beq_eq_false_iff_ne] at h
    have ih := unescape_escape (b :: r) h.2
    rw [escape_cons]
    split
    · rename_i ha
      simp only [unescape, ih, ha]
      simp
    · rename_i ha
      have hb : escape (b :: r) = (if b = 10 then 92 else b) :: (escape (b :: r)).tail := by
        rw [escape_cons]; split <;> rfl
      rw [hb, unescape]
      have : ¬ (a = 92 ∧ (if b = 10 then 92 else b) = 110) := by
        rintro ⟨h1, h2⟩
        split at h2
        · omega
        · rcases h.1 with h' | h'
          · exact h' h1
          · exact h' h2
      rw [if_neg this, ← hb, ih]

theorem escape_getLast (d : JStr) (h : d.getLast? ≠ some 13) : (escape d).getLast? ≠ some 13 := by
  induction d with
  | nil => simp [escape]
  | cons c r ih =>
    cases r with
    | nil =>
      rw [escape_cons, escape_nil]
      split
      · simp
      · simpa using h
    | cons b r =>
      have hr : (b :: r).getLast? ≠ some 13 := by simpa [List.getLast?_cons_cons] using h
      have := ih hr
      have hne : escape (b :: r) ≠ [] := by
        rw [escape_cons]; split <;> simp
      rw [escape_cons]
      obtain ⟨x, y, hxy⟩ := List.exists_cons_of_ne_nil hne
      split
      · rw [hxy] at this ⊢
        simpa [List.getLast?_cons_cons] using this
      · rw [hxy] at this ⊢
        simpa [List.getLast?_cons_cons] using this

/-! ## cells: `split('\t')` -/

theorem splitOn_ne_nil (sep : Nat) : ∀ l : List Nat, splitOn sep l ≠ []
  | [] => by simp [splitOn]
  | c :: r => by
    simp only [splitOn]
    split
    · simp
    · split <;> simp

theorem splitOn_append (sep : Nat) : ∀ (f : List Nat), sep ∉ f → ∀ rest : List Nat,
    splitOn sep (f ++ sep :: rest) = f :: splitOn sep rest
  | [], _, rest => by simp [splitOn]
  | c :: f, h, rest => by
    simp only [List.mem_cons, not_or] at h
    have hc : ¬ c = sep := fun h' => h.1 h'.symm
    simp only [List.cons_append, splitOn, if_neg hc]
    rw [splitOn_append sep f h.2 rest]

theorem splitOn_single (sep : Nat) : ∀ (f : List Nat), sep ∉ f → splitOn sep f = [f]
  | [], _ => rfl
  | c :: f, h => by
    simp only [List.mem_cons, not_or] at h
    have hc : ¬ c = sep := fun h' => h.1 h'.symm
    simp only [splitOn, if_neg hc]
    rw [splitOn_single sep f h.2]

/-- splitting a written row gives back its cells -/
theorem splitOn_cells (sep : Nat) (f : List Nat) (hf : sep ∉ f) :
    ∀ cs : List (List Nat), (∀ c ∈ cs, sep ∉ c) → splitOn sep (f ++ cs.flatMap (sep :: ·)) = f :: cs
  | [], _ => by simp [splitOn_single sep f hf]
  | c :: cs, h => by
    simp only [List.flatMap_cons, List.cons_append]
    rw [splitOn_append sep f hf]
    rw [splitOn_cells sep c (h c List.mem_cons_self) cs (fun x hx => h x (List.mem_cons_of_mem _ hx))]

/-- a written line: indentation, first field, TAB-prefixed cells -/
def mkLine (indent : Nat) (first : JStr) (cells : List JStr) : List Nat :=
  List.replicate indent 9 ++ (first ++ cells.flatMap (9 :: ·))

theorem takeWhile_replicate_tab (n : Nat) (rest : List Nat) (h : rest.head? ≠ some 9) :
    (List.replicate n 9 ++ rest).takeWhile (· == 9) = List.replicate n 9 := by
  induction n with
  | zero =>
    cases rest with
    | nil => rfl
    | cons c r =>
      have : c ≠ 9 := by simpa using h
      simp [List.takeWhile, this]
  | succ n ih => simp [List.replicate_succ, List.takeWhile, ih]

theorem tinyLine_mkLine (indent : Nat) (first : JStr) (cells : List JStr)
    (h1 : first ≠ []) (h2 : 9 ∉ first) (h3 : ∀ c ∈ cells, 9 ∉ c) :
    tinyLine (mkLine indent first cells) = { indent := indent, first := first, fields := cells } := by
  have hh : (first ++ cells.flatMap (9 :: ·)).head? ≠ some 9 := by
    cases first with
    | nil => exact absurd rfl h1
    | cons c r =>
      simp only [List.mem_cons, not_or] at h2
      simpa using fun h => h2.1 h.symm
  unfold tinyLine mkLine
  simp only [takeWhile_replicate_tab _ _ hh, List.length_replicate]
  have : (List.replicate indent 9 ++ (first ++ cells.flatMap (9 :: ·))).drop indent = first ++ cells.flatMap (9 :: ·) := by
    rw [List.drop_append]
    simp
  rw [this, splitOn_cells 9 first h2 cells h3]

/-! ## lines -/

/-- a line that `BufRead::lines` gives back unchanged -/
def LineOk (l : List Nat) : Prop := 10 ∉ l ∧ l.getLast? ≠ some 13

theorem lines_append : ∀ (l : List Nat), LineOk l → ∀ rest : List Nat, lines (l ++ 10 :: rest) = l :: lines rest
  | [], _, [] => by simp [lines]
  | [], _, b :: r => by simp [lines]
  | [a], h, rest => by
    have h10 : ¬ a = 10 := by simpa using fun h' : a = 10 => h.1 (by simp [h'])
    have h13 : ¬ a = 13 := by simpa [LineOk] using h.2
    have := lines_append [] (by simp [LineOk]) rest
    simp only [List.nil_append] at this
    simp only [List.cons_append, List.nil_append, lines, if_neg h10, h13, false_and, if_false, this]
  | a :: b :: l, h, rest => by
    have h10 : ¬ a = 10 := fun h' => h.1 (by simp [h'])
    have hb10 : ¬ b = 10 := fun h' => h.1 (by simp [h'])
    have hrest : LineOk (b :: l) := ⟨fun h' => h.1 (List.mem_cons_of_mem _ h'), by simpa [List.getLast?_cons_cons] using h.2⟩
    have := lines_append (b :: l) hrest rest
    simp only [List.cons_append] at this
    simp only [List.cons_append, lines, if_neg h10, hb10, and_false, if_false, this]

theorem lines_write : ∀ ls : List (List Nat), (∀ l ∈ ls, LineOk l) → lines (ls.flatMap (· ++ [10])) = ls
  | [], _ => rfl
  | l :: ls, h => by
    simp only [List.flatMap_cons, List.append_assoc, List.singleton_append]
    rw [lines_append l (h l List.mem_cons_self), lines_write ls (fun x hx => h x (List.mem_cons_of_mem _ hx))]

/-! ## decimal numbers -/

def isDigit (c : Nat) : Prop := 48 ≤ c ∧ c ≤ 57

theorem digitsAux_spec : ∀ (fuel n : Nat) (acc : List Nat), n < fuel → (∀ c ∈ acc, isDigit c) →
    (∀ c ∈ digitsAux fuel n acc, isDigit c) ∧ digitsAux fuel n acc ≠ [] ∧
    ∀ a, (digitsAux fuel n acc).foldl (fun a c => a * 10 + (c - 48)) a
        = acc.foldl (fun a c => a * 10 + (c - 48)) (a * 10 ^ (digitsAux fuel n []).length + n)
  | 0, n, acc, h, _ => by omega
  | fuel + 1, n, acc, h, hacc => by
    simp only [digitsAux]
    split
    · rename_i hn
      refine ⟨?_, by simp, ?_⟩
      · intro c hc
        rcases List.mem_cons.mp hc with rfl | hc
        · exact ⟨by omega, by omega⟩
        · exact hacc c hc
      · intro a
        simp only [List.foldl_cons, List.length_cons, List.length_nil]
        congr 1
        omega
    · rename_i hn
      have hd : isDigit (48 + n % 10) := ⟨by omega, by omega⟩
      have ih := digitsAux_spec fuel (n / 10) ((48 + n % 10) :: acc) (by omega) (by
        intro c hc
        rcases List.mem_cons.mp hc with rfl | hc
        · exact hd
        · exact hacc c hc)
      have ih0 := digitsAux_spec fuel (n / 10) [(48 + n % 10)] (by omega) (by
        intro c hc
        rcases List.mem_cons.mp hc with rfl | hc
        · exact hd
        · simp at hc)
      refine ⟨ih.1, ih.2.1, ?_⟩
      intro a
      rw [ih.2.2 a]
      simp only [List.foldl_cons]
      congr 1
      -- length of the digits of n = length of digits of n/10 + 1
      have hlen : (digitsAux fuel (n / 10) [48 + n % 10]).length = (digitsAux fuel (n / 10) []).length + 1 := by
        exact digitsAux_length fuel (n / 10) [48 + n % 10] (by omega)
      rw [hlen, Nat.pow_succ]
      have := Nat.div_add_mod n 10
      have e : 48 + n % 10 - 48 = n % 10 := by omega
      rw [e, Nat.add_mul, Nat.mul_assoc]
      omega
where
  digitsAux_length : ∀ (fuel n : Nat) (acc : List Nat), n < fuel →
      (digitsAux fuel n acc).length = (digitsAux fuel n []).length + acc.length
    | 0, n, acc, h => by omega
    | fuel + 1, n, acc, h => by
      simp only [digitsAux]
      split
      · simp only [List.length_cons, List.length_nil]; omega
      · rw [digitsAux_length fuel (n / 10) _ (by omega), digitsAux_length fuel (n / 10) [48 + n % 10] (by omega)]
        simp only [List.length_cons, List.length_nil]
        omega

theorem natDigits_digits (n : Nat) : ∀ c ∈ natDigits n, isDigit c :=
  (digitsAux_spec (n + 1) n [] (by omega) (by simp)).1

theorem natDigits_ne_nil (n : Nat) : natDigits n ≠ [] :=
  (digitsAux_spec (n + 1) n [] (by omega) (by simp)).2.1

theorem natDigits_value (n : Nat) : (natDigits n).foldl (fun a c => a * 10 + (c - 48)) 0 = n := by
  have := (digitsAux_spec (n + 1) n [] (by omega) (by simp)).2.2 0
  simpa [natDigits] using this

/-- `parse::<usize>` reads back what `Display` printed -/
theorem parseUsize_natDigits (n : Nat) (h : n < USIZE_LIMIT) : parseUsize (natDigits n) = some n := by
  have hd := natDigits_digits n
  have hne := natDigits_ne_nil n
  obtain ⟨c, r, hcr⟩ := List.exists_cons_of_ne_nil hne
  have hc : isDigit c := hd c (by rw [hcr]; exact List.mem_cons_self)
  have h43 : c ≠ 43 := by unfold isDigit at hc; omega
  have hall : (natDigits n).all (fun c => decide (48 ≤ c) && decide (c ≤ 57)) = true := by
    simp only [List.all_eq_true, Bool.and_eq_true, decide_eq_true_eq]
    exact hd
  have hv := natDigits_value n
  have hs : stripPlus (c :: r) = c :: r := by
    unfold stripPlus
    split
    · rename_i heq; simp only [List.cons.injEq] at heq; exact absurd heq.1 h43
    · rfl
  unfold parseUsize
  rw [hcr] at hall hv ⊢
  rw [hs]
  simp only [List.isEmpty_cons, Bool.false_eq_true, if_false, hall, if_true, hv, h]

end Tiny
