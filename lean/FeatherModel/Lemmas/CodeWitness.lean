import FeatherModel.Lemmas.CodeChunks

/-!
# Long runs of one-byte instructions (to build witnesses at the 65535-byte limit without evaluating 65535 steps)
-/

namespace CodeWrite

theorem pass_append (wide : List Nat) (a b : List Insn) : ∀ s,
    pass wide (a ++ b) s = (match pass wide a s with | .error e => .error e | .ok s' => pass wide b s') := by
  induction a with
  | nil => intro s; rfl
  | cons i a ih =>
    intro s
    simp only [List.cons_append, pass]
    cases step wide i s with
    | error e => rfl
    | ok s1 => exact ih s1

theorem step_simple (wide : List Nat) (op : Nat) (s : St) (h : s.w.size ≤ 65535) :
    step wide (.simple op) s = .ok ⟨s.w ++ [op], s.pos.push s.w.size, s.unw ++ ([] : List Unwritten)⟩ := by
  obtain ⟨w, pos, unw⟩ := s
  simp only [step]
  have : ¬ w.size > 65535 := by simp at h; omega
  simp [this, encInsn]

/-- `m` one-byte instructions: `m` more bytes, `m` more positions, nothing else changes -/
theorem pass_replicate (wide : List Nat) (op : Nat) : ∀ (m : Nat) (s : St), s.w.size + m ≤ 65536 →
    ∃ s', pass wide (List.replicate m (.simple op)) s = .ok s' ∧ s'.w.size = s.w.size + m ∧
      s'.pos.size = s.pos.size + m ∧ s'.unw.toList = s.unw.toList ∧ ∀ t, t < s.pos.size → s'.pos[t]? = s.pos[t]? := by
  intro m
  induction m with
  | zero => intro s _; exact ⟨s, rfl, rfl, rfl, rfl, fun _ _ => rfl⟩
  | succ m ih =>
    intro s h
    simp only [List.replicate_succ, pass]
    rw [step_simple wide op s (by omega)]
    simp only []
    obtain ⟨s', h1, h2, h3, h4, h5⟩ := ih ⟨s.w ++ [op], s.pos.push s.w.size, s.unw ++ ([] : List Unwritten)⟩ (by
      have : (s.w ++ [op]).size = s.w.size + 1 := by
        rw [← Array.length_toList, Array.toList_appendList]; simp
      simp only [this]; omega)
    refine ⟨s', h1, ?_, ?_, ?_, ?_⟩
    · rw [h2]
      have : (s.w ++ [op]).size = s.w.size + 1 := by
        rw [← Array.length_toList, Array.toList_appendList]; simp
      simp only [this]; omega
    · rw [h3]; simp; omega
    · rw [h4]; simp
    · intro t ht
      rw [h5 t (by simp; omega)]
      simp [Array.getElem?_push, show t ≠ s.pos.size by omega]

/-- after `1 + m` one-byte instructions from the empty state: position of instruction 0 is 0 -/
theorem pass_nops (wide : List Nat) (op m : Nat) (h : 1 + m ≤ 65536) :
    ∃ s', pass wide (List.replicate (m + 1) (.simple op)) St.init = .ok s' ∧ s'.w.size = m + 1 ∧
      s'.pos.size = m + 1 ∧ s'.unw.toList = [] ∧ s'.pos[0]? = some 0 := by
  simp only [List.replicate_succ, pass]
  rw [step_simple wide op St.init (by simp [St.init])]
  simp only []
  obtain ⟨s', h1, h2, h3, h4, h5⟩ := pass_replicate wide op m ⟨St.init.w ++ [op], St.init.pos.push St.init.w.size,
    St.init.unw ++ ([] : List Unwritten)⟩ (by simp [St.init]; omega)
  refine ⟨s', h1, ?_, ?_, ?_, ?_⟩
  · rw [h2]; simp [St.init]; omega
  · rw [h3]; simp [St.init]; omega
  · rw [h4]; simp [St.init]
  · rw [h5 0 (by simp [St.init])]; simp [St.init]

/-- a conditional branch at offset 65533 back to instruction 0: the first attempt is an error (136eeb3; was a panic) -/
theorem if_end_err (pre : List Insn) (s : St) (hs : pass [] pre St.init = .ok s) (hw : s.w.size = 65533)
    (hp : 0 < s.pos.size) (h0 : s.pos[0]? = some 0) (c : Cond) (fuel : Nat) :
    write (pre ++ [.ifc c 0]) (fuel + 1) [] = .err := by
  rw [write, pass_append, hs]
  obtain ⟨w, pos, unw⟩ := s
  simp only at hw hp h0
  have hlbl : (pos.push w.size)[0]? = some 0 := by
    rw [Array.getElem?_push]; simp [show ¬ (0 = pos.size) by omega, h0]
  have hle : ¬ (w.size > 65535) := by omega
  have hnf : fitsI16 (offs w.size 0) = false := by simp [fitsI16, offs, hw]
  have hgt : w.size + 3 > 65535 := by omega
  simp only [pass, step, hle, if_false, encInsn, encIf, hlbl, hnf, Bool.false_eq_true, hgt, if_true]

/-- a conditional branch at offset 65533 to the last label of a 65536-byte attempt: the label is truncated to 0,
the branch is marked wide, the second attempt is an error (136eeb3; was a panic) -/
theorem if_last_label_err (pre : List Insn) (s : St) (hs : ∀ wide, pass wide pre St.init = .ok s)
    (hw : s.w.size = 65533) (hp : s.pos.size = pre.length) (hu : s.unw.toList = []) (c : Cond) (fuel : Nat) :
    write (pre ++ [.ifc c (pre.length + 1)]) (fuel + 2) [] = .err := by
  obtain ⟨w, pos, unw⟩ := s
  simp only at hw hp hu
  have hnone : ∀ x, (pos.push x)[pre.length + 1]? = none := by
    intro x; apply Array.getElem?_eq_none; simp; omega
  have hle : ¬ (w.size > 65535) := by omega
  have hgt : w.size + 3 > 65535 := by omega
  let u : Unwritten := ⟨w.size, pos.size, pre.length + 1, w.size + 1, false⟩
  -- first attempt: narrow reservation, last label = 65536 % 65536 = 0, retry
  have h1 : pass [] (pre ++ [.ifc c (pre.length + 1)]) St.init =
      .ok (⟨w ++ (c.opcode :: i16b I16MAX), pos.push w.size, unw ++ [u]⟩ : St) := by
    rw [pass_append, hs []]
    simp only [pass, step, hle, if_false, encInsn, encIf, hnone, List.contains_nil, Bool.false_eq_true]
    rfl
  have hsz : (w ++ (c.opcode :: i16b I16MAX)).size = 65536 := by
    rw [← Array.length_toList, Array.toList_appendList]; simp [i16b, u16b, hw]
  have hlp : labelPos (pos.push w.size) 65536 (pre.length + 1) = some 0 := by
    simp [labelPos, hnone, hp]
  have hnf : fitsI16 (offs w.size 0) = false := by simp [fitsI16, offs, hw]
  have h2 : resolve (labelPos (pos.push w.size) (w ++ (c.opcode :: i16b I16MAX)).size)
      (unw ++ [u]).toList (w ++ (c.opcode :: i16b I16MAX)) = .retry pos.size := by
    rw [hsz]
    simp only [Array.toList_appendList, hu, List.nil_append, resolve, u, hlp, Bool.false_eq_true, if_false, hnf]
  rw [write, h1]
  simp only [h2]
  -- second attempt: the instruction is in `wide`, its label still unknown during the pass
  rw [write, pass_append, hs [pos.size]]
  simp only [pass, step, hle, if_false, encInsn, encIf, hnone, List.contains_cons, beq_self_eq_true, Bool.true_or,
    if_true, hgt]

theorem step_simple_wide (wide : List Nat) (op : Nat) (s : St) : step wide (.simple op) s = step [] (.simple op) s := by
  obtain ⟨w, pos, unw⟩ := s
  simp only [step, encInsn]

theorem pass_replicate_wide (wide : List Nat) (op : Nat) : ∀ (m : Nat) (s : St),
    pass wide (List.replicate m (.simple op)) s = pass [] (List.replicate m (.simple op)) s := by
  intro m
  induction m with
  | zero => intro s; rfl
  | succ m ih =>
    intro s
    simp only [List.replicate_succ, pass, step_simple_wide wide op s]
    cases step [] (.simple op) s with
    | error e => rfl
    | ok s1 => exact ih s1

end CodeWrite
