import FeatherModel.Lemmas.DiffAList

/-!
# `apply_diff_map` key by key (generic in the level)
-/

namespace DiffModel
open AList

section generic
variable {K D T : Type} [BEq K] [LawfulBEq K]

/-- per-key behaviour of the model, written with the model's own case functions -/
def applySpecM (ops : Ops K D T) (ns N : Nat) (child : D → T → Option T) (k : K) :
    Option D → Option T → Option (Option T)
  | .none, t => some t
  | some d, .none => (applyAbsent ops ns N child k d).map some
  | some d, some t => applyPresent ops ns child d t

def Loop1Post (ops : Ops K D T) (ns N : Nat) (child : D → T → Option T)
    (targets : AList K T) (diffs : AList K D) (results : AList K T) :
    Option (AList K T × AList K D) → Prop
  | .none => ∃ k t, lookup k targets = some t ∧ applySpecM ops ns N child k (lookup k diffs) (some t) = none
  | some (res, left) =>
    NoDup left ∧ (∀ k, lookup k left = if (lookup k targets).isSome then none else lookup k diffs) ∧
    ∀ k, match lookup k targets with
      | .none => lookup k res = lookup k results
      | some t => applySpecM ops ns N child k (lookup k diffs) (some t) = some (lookup k res)

theorem nodup_cons_iff' {V : Type} {k : K} {v : V} {m : AList K V} :
    NoDup ((k, v) :: m) ↔ lookup k m = none ∧ NoDup m := by
  unfold NoDup
  simp only [keys, List.map_cons, List.nodup_cons]
  rw [lookup_eq_none_iff]
  rfl

theorem beq_false_of_ne {a b : K} (h : a ≠ b) : (a == b) = false := by
  cases hh : (a == b) with
  | false => rfl
  | true => exact absurd (by simpa using hh) h

theorem applyLoop1_spec (ops : Ops K D T) (ns N : Nat) (child : D → T → Option T) :
    ∀ (targets : AList K T) (diffs : AList K D) (results : AList K T),
      NoDup targets → NoDup diffs → (∀ k, (lookup k targets).isSome → lookup k results = none) →
      Loop1Post ops ns N child targets diffs results (applyLoop1 ops ns child targets diffs results) := by
  intro targets
  induction targets with
  | nil =>
    intro diffs results _ hnD _
    simp only [applyLoop1, Loop1Post]
    refine ⟨hnD, ?_, ?_⟩
    · intro k; simp [lookup]
    · intro k; simp [lookup]
  | cons e rest ih =>
    obtain ⟨key, target⟩ := e
    intro diffs results hnT hnD hres
    obtain ⟨hkr, hnR⟩ := nodup_cons_iff'.mp hnT
    have hlk : ∀ k, lookup k ((key, target) :: rest) = if key == k then some target else lookup k rest :=
      fun k => rfl
    simp only [applyLoop1]
    cases hs : swapRemove key diffs with
    | none =>
      have hld := swapRemove_none hs
      simp only
      have hpre : ∀ k, (lookup k rest).isSome → lookup k (AList.insert key target results) = none := by
        intro k hk
        have hne : key ≠ k := by intro e; subst e; rw [hkr] at hk; simp at hk
        rw [lookup_insert, beq_false_of_ne hne]
        simp only [Bool.false_eq_true, if_false]
        apply hres
        rw [hlk, beq_false_of_ne hne]; simpa using hk
      have := ih diffs (AList.insert key target results) hnR hnD hpre
      cases hr : applyLoop1 ops ns child rest diffs (AList.insert key target results) with
      | none =>
        rw [hr] at this
        simp only [Loop1Post] at this ⊢
        obtain ⟨k, t, h1, h2⟩ := this
        have hne : key ≠ k := by intro e; subst e; rw [hkr] at h1; cases h1
        exact ⟨k, t, by rw [hlk, beq_false_of_ne hne]; simpa using h1, h2⟩
      | some q =>
        obtain ⟨res, left⟩ := q
        rw [hr] at this
        simp only [Loop1Post] at this ⊢
        obtain ⟨h1, h2, h3⟩ := this
        refine ⟨h1, ?_, ?_⟩
        · intro k
          rw [h2 k, hlk]
          by_cases hk : key = k
          · subst hk; simp [hkr, hld]
          · simp [beq_false_of_ne hk]
        · intro k
          rw [hlk]
          by_cases hk : key = k
          · subst hk
            have h3k := h3 key
            rw [hkr] at h3k
            simp only at h3k
            simp only [beq_self_eq_true, if_true, hld, applySpecM]
            rw [h3k, lookup_insert]; simp
          · simp only [beq_false_of_ne hk, Bool.false_eq_true, if_false]
            have h3k := h3 k
            cases hl : lookup k rest with
            | none =>
              rw [hl] at h3k; simp only at h3k ⊢
              rw [h3k, lookup_insert, beq_false_of_ne hk]; simp
            | some t => rw [hl] at h3k; simpa using h3k
    | some q =>
      obtain ⟨d, diffs'⟩ := q
      obtain ⟨hld, _⟩ := swapRemove_some hs
      obtain ⟨hnD', hkd', hother⟩ := swapRemove_rest hs hnD
      simp only
      cases hp : applyPresent ops ns child d target with
      | none =>
        simp only [Loop1Post]
        exact ⟨key, target, by simp [hlk], by simp [hld, applySpecM, hp]⟩
      | some ot =>
        -- the results handed to the rest of the loop
        have key_fact : ∀ (results' : AList K T),
            (∀ k, key ≠ k → lookup k results' = lookup k results) →
            lookup key results' = ot →
            Loop1Post ops ns N child ((key, target) :: rest) diffs results
              (applyLoop1 ops ns child rest diffs' results') := by
          intro results' hsame hkey
          have hpre : ∀ k, (lookup k rest).isSome → lookup k results' = none := by
            intro k hk
            have hne : key ≠ k := by intro e; subst e; rw [hkr] at hk; simp at hk
            rw [hsame k hne]
            apply hres
            rw [hlk, beq_false_of_ne hne]; simpa using hk
          have := ih diffs' results' hnR hnD' hpre
          cases hr : applyLoop1 ops ns child rest diffs' results' with
          | none =>
            rw [hr] at this
            simp only [Loop1Post] at this ⊢
            obtain ⟨k, t, h1, h2⟩ := this
            have hne : key ≠ k := by intro e; subst e; rw [hkr] at h1; cases h1
            refine ⟨k, t, by rw [hlk, beq_false_of_ne hne]; simpa using h1, ?_⟩
            rw [← hother k (Ne.symm hne)]; exact h2
          | some q =>
            obtain ⟨res, left⟩ := q
            rw [hr] at this
            simp only [Loop1Post] at this ⊢
            obtain ⟨h1, h2, h3⟩ := this
            refine ⟨h1, ?_, ?_⟩
            · intro k
              rw [h2 k, hlk]
              by_cases hk : key = k
              · subst hk; simp [hkr, hkd']
              · simp [beq_false_of_ne hk, hother k (Ne.symm hk)]
            · intro k
              rw [hlk]
              by_cases hk : key = k
              · subst hk
                have h3k := h3 key
                rw [hkr] at h3k
                simp only at h3k
                simp only [beq_self_eq_true, if_true, hld, applySpecM, hp]
                rw [h3k, hkey]
              · simp only [beq_false_of_ne hk, Bool.false_eq_true, if_false]
                have h3k := h3 k
                cases hl : lookup k rest with
                | none =>
                  rw [hl] at h3k; simp only at h3k ⊢
                  rw [h3k, hsame k hk]
                | some t =>
                  rw [hl] at h3k; simp only at h3k ⊢
                  rw [← hother k (Ne.symm hk)]; exact h3k
        cases ot with
        | none =>
          simp only
          apply key_fact results (fun _ _ => rfl)
          apply hres; simp [hlk]
        | some t' =>
          simp only
          apply key_fact (AList.insert key t' results)
          · intro k hk; rw [lookup_insert, beq_false_of_ne hk]; simp
          · rw [lookup_insert]; simp

def Loop2Post (ops : Ops K D T) (ns N : Nat) (child : D → T → Option T)
    (left : AList K D) (results : AList K T) : Option (AList K T) → Prop
  | .none => ∃ k d, lookup k left = some d ∧ applyAbsent ops ns N child k d = none
  | some res =>
    ∀ k, match lookup k left with
      | .none => lookup k res = lookup k results
      | some d => (applyAbsent ops ns N child k d).map some = some (lookup k res)

theorem applyLoop2_spec (ops : Ops K D T) (ns N : Nat) (child : D → T → Option T) :
    ∀ (left : AList K D) (results : AList K T), NoDup left →
      Loop2Post ops ns N child left results (applyLoop2 ops ns N child left results) := by
  intro left
  induction left with
  | nil =>
    intro results _
    simp only [applyLoop2, Loop2Post]
    intro k; simp [lookup]
  | cons e rest ih =>
    obtain ⟨key, d⟩ := e
    intro results hn
    obtain ⟨hkr, hnR⟩ := nodup_cons_iff'.mp hn
    have hlk : ∀ k, lookup k ((key, d) :: rest) = if key == k then some d else lookup k rest := fun k => rfl
    simp only [applyLoop2]
    cases ha : applyAbsent ops ns N child key d with
    | none =>
      simp only [Loop2Post]
      exact ⟨key, d, by simp [hlk], ha⟩
    | some t =>
      simp only
      have := ih (AList.insert key t results) hnR
      cases hr : applyLoop2 ops ns N child rest (AList.insert key t results) with
      | none =>
        rw [hr] at this
        simp only [Loop2Post] at this ⊢
        obtain ⟨k, d', h1, h2⟩ := this
        have hne : key ≠ k := by intro e; subst e; rw [hkr] at h1; cases h1
        exact ⟨k, d', by rw [hlk, beq_false_of_ne hne]; simpa using h1, h2⟩
      | some res =>
        rw [hr] at this
        simp only [Loop2Post] at this ⊢
        intro k
        rw [hlk]
        by_cases hk : key = k
        · subst hk
          have hk3 := this key
          rw [hkr] at hk3
          simp only at hk3
          simp only [beq_self_eq_true, if_true, ha, Option.map_some]
          rw [hk3, lookup_insert]; simp
        · simp only [beq_false_of_ne hk, Bool.false_eq_true, if_false]
          have hk3 := this k
          cases hl : lookup k rest with
          | none =>
            rw [hl] at hk3; simp only at hk3 ⊢
            rw [hk3, lookup_insert, beq_false_of_ne hk]; simp
          | some d' => rw [hl] at hk3; simpa using hk3

/-- **`apply_diff_map`, key by key**: it is refused exactly when some key is refused, and otherwise every key of the
result is what the per-key function says -/
def MapPost (ops : Ops K D T) (ns N : Nat) (child : D → T → Option T)
    (diffs : AList K D) (targets : AList K T) : Option (AList K T) → Prop
  | .none => ∃ k, applySpecM ops ns N child k (lookup k diffs) (lookup k targets) = none
  | some res => ∀ k, applySpecM ops ns N child k (lookup k diffs) (lookup k targets) = some (lookup k res)

theorem applyMap_spec (ops : Ops K D T) (ns N : Nat) (child : D → T → Option T)
    (diffs : AList K D) (targets : AList K T) (hnD : NoDup diffs) (hnT : NoDup targets) :
    MapPost ops ns N child diffs targets (applyMap ops ns N child diffs targets) := by
  have h1 := applyLoop1_spec ops ns N child targets diffs [] hnT hnD (fun _ _ => rfl)
  unfold applyMap
  cases hr : applyLoop1 ops ns child targets diffs [] with
  | none =>
    rw [hr] at h1
    simp only [Loop1Post] at h1
    obtain ⟨k, t, hk, hbad⟩ := h1
    simp only [MapPost]
    exact ⟨k, by rw [hk]; exact hbad⟩
  | some q =>
    obtain ⟨res1, left⟩ := q
    rw [hr] at h1
    simp only [Loop1Post] at h1
    obtain ⟨hnL, hleft, hres1⟩ := h1
    simp only
    have h2 := applyLoop2_spec ops ns N child left res1 hnL
    cases hr2 : applyLoop2 ops ns N child left res1 with
    | none =>
      rw [hr2] at h2
      simp only [Loop2Post] at h2
      obtain ⟨k, d, hk, hbad⟩ := h2
      simp only [MapPost]
      refine ⟨k, ?_⟩
      have hl := hleft k
      rw [hk] at hl
      cases ht : lookup k targets with
      | some t => rw [ht] at hl; simp at hl
      | none =>
        rw [ht] at hl
        simp only [Option.isSome_none, Bool.false_eq_true, if_false] at hl
        rw [← hl]
        simp [applySpecM, hbad]
    | some res =>
      rw [hr2] at h2
      simp only [Loop2Post] at h2
      simp only [MapPost]
      intro k
      have hl := hleft k
      have h2k := h2 k
      have h1k := hres1 k
      cases ht : lookup k targets with
      | some t =>
        rw [ht] at hl h1k
        simp only [Option.isSome_some, if_true] at hl
        rw [hl] at h2k
        simp only at h2k h1k
        rw [h2k]; exact h1k
      | none =>
        rw [ht] at hl h1k
        simp only [Option.isSome_none, Bool.false_eq_true, if_false] at hl
        simp only at h1k
        cases hd : lookup k diffs with
        | none =>
          rw [hd] at hl
          rw [hl] at h2k
          simp only at h2k
          simp only [applySpecM]
          rw [h2k, h1k]; rfl
        | some d =>
          rw [hd] at hl
          rw [hl] at h2k
          simp only at h2k
          simp only [applySpecM]
          exact h2k

omit [BEq K] [LawfulBEq K] in
/-- the model's per-key function is the explicit table `applySpec` -/
theorem applySpecM_eq (ops : Ops K D T) (ns N : Nat) (child : D → T → Option T) (k : K)
    (od : Option D) (ot : Option T) :
    applySpecM ops ns N child k od ot = applySpec ops ns N child k od ot := by
  cases od with
  | none => rfl
  | some d =>
    cases ot with
    | none =>
      simp only [applySpecM, applySpec, applyAbsent, changeName]
      cases ops.action d with
      | none => rfl
      | remove a => rfl
      | edit a b => rfl
      | add b =>
        simp only
        by_cases h0 : ns = 0
        · simp [h0]
        · by_cases h1 : (ops.names (ops.fromKey N k))[ns]? = some none <;> simp [h0, h1]
    | some t =>
      simp only [applySpecM, applySpec, applyPresent, changeName]
      cases ops.action d with
      | none => rfl
      | add b =>
        simp only
        by_cases h0 : ns = 0
        · simp [h0]
        · by_cases h1 : (ops.names t)[ns]? = some none <;> simp [h0, h1]
      | remove a =>
        simp only
        by_cases h0 : ns = 0
        · simp [h0]
        · by_cases h1 : (ops.names t)[ns]? = some (some a) <;> simp [h0, h1]
      | edit a b =>
        simp only
        by_cases h0 : ns = 0
        · simp [h0]
        · by_cases h1 : (ops.names t)[ns]? = some (some a) <;> simp [h0, h1]

end generic

end DiffModel
