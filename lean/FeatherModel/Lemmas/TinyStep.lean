import FeatherModel.Lemmas.TinyCanon

/-! What one accepted line does to the tree `Tiny.read` is building (C03): it changes nothing, or appends one fresh entry
under a new key to the node that is currently open, or sets the absent comment of the open node. Nothing else. -/

namespace Tiny

inductive ParamStep : LineKind → Param → Param → Prop
  | doc {p : Param} {d : JStr} : p.doc = none → ParamStep .doc p { p with doc := some d }

inductive FieldStep : LineKind → Field → Field → Prop
  | doc {f : Field} {d : JStr} : f.doc = none → FieldStep .doc f { f with doc := some d }

inductive MethodStep : LineKind → Method → Method → Prop
  | doc {m : Method} {d : JStr} : m.doc = none → MethodStep .doc m { m with doc := some d }
  | addParam {m : Method} {p : Param} : p.doc = none → AList.contains p.index m.params = false →
      MethodStep .par m { m with params := m.params ++ [(p.index, p)] }
  | inParam {κ : LineKind} {m : Method} {init : AList Nat Param} {k : Nat} {p p' : Param} :
      m.params = init ++ [(k, p)] → ParamStep κ p p' → MethodStep κ m { m with params := init ++ [(k, p')] }

inductive ClassStep : LineKind → Class → Class → Prop
  | doc {c : Class} {d : JStr} : c.doc = none → ClassStep .doc c { c with doc := some d }
  | addField {c : Class} {f : Field} {name : JStr} : f.doc = none → firstName f.names = some name →
      AList.contains (name, f.desc) c.fields = false →
      ClassStep .fld c { c with fields := c.fields ++ [((name, f.desc), f)] }
  | addMethod {c : Class} {m : Method} {name : JStr} : m.doc = none → m.params = [] → firstName m.names = some name →
      AList.contains (name, m.desc) c.methods = false →
      ClassStep .mth c { c with methods := c.methods ++ [((name, m.desc), m)] }
  | inField {κ : LineKind} {c : Class} {init : AList MemberKey Field} {k : MemberKey} {f f' : Field} :
      c.fields = init ++ [(k, f)] → FieldStep κ f f' → ClassStep κ c { c with fields := init ++ [(k, f')] }
  | inMethod {κ : LineKind} {c : Class} {init : AList MemberKey Method} {k : MemberKey} {m m' : Method} :
      c.methods = init ++ [(k, m)] → MethodStep κ m m' → ClassStep κ c { c with methods := init ++ [(k, m')] }

/-- the only ways an accepted line of kind `κ` changes the class map -/
inductive TreeStep : LineKind → AList JStr Class → AList JStr Class → Prop
  | skip {cs : AList JStr Class} : TreeStep .skip cs cs
  | addClass {cs : AList JStr Class} {key : JStr} {c : Class} : c.doc = none → c.fields = [] → c.methods = [] →
      firstName c.names = some key → AList.contains key cs = false → TreeStep .cls cs (cs ++ [(key, c)])
  | inClass {κ : LineKind} {init : AList JStr Class} {k : JStr} {c c' : Class} :
      ClassStep κ c c' → TreeStep κ (init ++ [(k, c)]) (init ++ [(k, c')])

/-! ## inversion of the helpers -/

theorem modLast_some {α : Type} {f : α → Option α} :
    ∀ {l l' : List α}, modLast f l = some l' → ∃ init x y, l = init ++ [x] ∧ f x = some y ∧ l' = init ++ [y]
  | [], _, h => by simp [modLast] at h
  | [x], l', h => by
    simp only [modLast] at h
    cases hx : f x with
    | none => simp [hx] at h
    | some y =>
      simp only [hx, Option.map_some, Option.some.injEq] at h
      exact ⟨[], x, y, rfl, hx, h.symm⟩
  | x :: y :: r, l', h => by
    simp only [modLast] at h
    cases hr : modLast f (y :: r) with
    | none => simp [hr] at h
    | some t =>
      simp only [hr, Option.map_some, Option.some.injEq] at h
      obtain ⟨init, a, b, h1, h2, h3⟩ := modLast_some hr
      exact ⟨x :: init, a, b, by rw [h1]; rfl, h2, by rw [← h, h3]; rfl⟩

theorem modLastV_some {K V : Type} {g : V → Option V} {m m' : AList K V} (h : modLastV g m = some m') :
    ∃ init k v v', m = init ++ [(k, v)] ∧ g v = some v' ∧ m' = init ++ [(k, v')] := by
  obtain ⟨init, ⟨k, v⟩, y, h1, h2, h3⟩ := modLast_some h
  cases hg : g v with
  | none => simp [hg] at h2
  | some v' =>
    simp only [hg, Option.map_some, Option.some.injEq] at h2
    exact ⟨init, k, v, v', h1, hg, by rw [h3, ← h2]⟩

theorem map_some' {α β : Type} {f : α → β} {o : Option α} {b : β} (h : o.map f = some b) : ∃ a, o = some a ∧ f a = b := by
  cases o with
  | none => simp at h
  | some a => exact ⟨a, rfl, by simpa using h⟩

theorem insertNew_some {K V : Type} [BEq K] {k : K} {v : V} {m m' : AList K V} (h : AList.insertNew k v m = some m') :
    AList.contains k m = false ∧ m' = m ++ [(k, v)] := by
  unfold AList.insertNew at h
  split at h
  · simp at h
  · rename_i hc
    simp only [Option.some.injEq] at h
    exact ⟨by simpa using hc, h.symm⟩

theorem setDoc_some {old new : Option JStr} {l : TLine} (h : setDoc old l = some new) :
    old = none ∧ ∃ d, new = some d ∧ commentOf l = some d := by
  unfold setDoc at h
  cases hc : commentOf l with
  | none => simp [hc] at h
  | some c =>
    simp only [hc] at h
    split at h
    · simp at h
    · rename_i ho
      simp only [Option.some.injEq] at h
      refine ⟨by simpa using ho, c, h.symm, rfl⟩

/-- a class line: the row must have a non-empty first cell, which is the new key -/
theorem addClass_some {n : Nat} {l : TLine} {cs cs' : AList JStr Class} (h : addClass n l cs = some cs') :
    ∃ (names : Names) (key : JStr), intoNames validClass n l.fields = some names ∧ firstName names = some key ∧
      AList.contains key cs = false ∧ cs' = cs ++ [(key, { names := names, doc := none, fields := [], methods := [] })] := by
  unfold addClass at h
  cases h1 : intoNames validClass n l.fields with
  | none => simp [h1] at h
  | some names =>
    simp only [h1] at h
    cases h2 : firstName names with
    | none => simp [h2] at h
    | some key =>
      simp only [h2] at h
      obtain ⟨h3, h4⟩ := insertNew_some h
      exact ⟨names, key, rfl, h2, h3, h4⟩

theorem addField_some {n : Nat} {l : TLine} {c c' : Class} (h : addField n l c = some c') :
    ∃ (desc : JStr) (rest : List JStr) (names : Names) (name : JStr), l.fields = desc :: rest ∧
      intoNames validUnq n rest = some names ∧ firstName names = some name ∧
      AList.contains (name, desc) c.fields = false ∧
      c' = { c with fields := c.fields ++ [((name, desc), { desc := desc, names := names, doc := none })] } := by
  unfold addField at h
  cases h0 : l.fields with
  | nil => simp [h0] at h
  | cons desc rest =>
    simp only [h0] at h
    cases h1 : intoNames validUnq n rest with
    | none => simp [h1] at h
    | some names =>
      simp only [h1] at h
      cases h2 : firstName names with
      | none => simp [h2] at h
      | some name =>
        simp only [h2] at h
        cases h3 : AList.insertNew (name, desc) ({ desc := desc, names := names, doc := none } : Field) c.fields with
        | none => simp [h3] at h
        | some fs =>
          simp only [h3, Option.some.injEq] at h
          obtain ⟨h4, h5⟩ := insertNew_some h3
          exact ⟨desc, rest, names, name, rfl, h1, h2, h4, by rw [← h, h5]⟩

theorem addMethod_some {n : Nat} {l : TLine} {c c' : Class} (h : addMethod n l c = some c') :
    ∃ (desc : JStr) (rest : List JStr) (names : Names) (name : JStr), l.fields = desc :: rest ∧
      intoNames validMethod n rest = some names ∧ firstName names = some name ∧
      AList.contains (name, desc) c.methods = false ∧
      c' = { c with methods := c.methods ++ [((name, desc), { desc := desc, names := names, doc := none, params := [] })] } := by
  unfold addMethod at h
  cases h0 : l.fields with
  | nil => simp [h0] at h
  | cons desc rest =>
    simp only [h0] at h
    cases h1 : intoNames validMethod n rest with
    | none => simp [h1] at h
    | some names =>
      simp only [h1] at h
      cases h2 : firstName names with
      | none => simp [h2] at h
      | some name =>
        simp only [h2] at h
        cases h3 : AList.insertNew (name, desc) ({ desc := desc, names := names, doc := none, params := [] } : Method) c.methods with
        | none => simp [h3] at h
        | some ms =>
          simp only [h3, Option.some.injEq] at h
          obtain ⟨h4, h5⟩ := insertNew_some h3
          exact ⟨desc, rest, names, name, rfl, h1, h2, h4, by rw [← h, h5]⟩

theorem addParam_some {n : Nat} {l : TLine} {m m' : Method} (h : addParam n l m = some m') :
    ∃ (idx : JStr) (rest : List JStr) (index : Nat) (names : Names), l.fields = idx :: rest ∧
      parseUsize idx = some index ∧ intoNames validUnq n rest = some names ∧
      AList.contains index m.params = false ∧
      m' = { m with params := m.params ++ [(index, { index := index, names := names, doc := none })] } := by
  unfold addParam at h
  cases h0 : l.fields with
  | nil => simp [h0] at h
  | cons idx rest =>
    simp only [h0] at h
    cases h1 : parseUsize idx with
    | none => simp [h1] at h
    | some index =>
      simp only [h1] at h
      cases h2 : intoNames validUnq n rest with
      | none => simp [h2] at h
      | some names =>
        simp only [h2] at h
        cases h3 : AList.insertNew index ({ index := index, names := names, doc := none } : Param) m.params with
        | none => simp [h3] at h
        | some ps =>
          simp only [h3, Option.some.injEq] at h
          obtain ⟨h4, h5⟩ := insertNew_some h3
          exact ⟨idx, rest, index, names, rfl, h1, h2, h4, by rw [← h, h5]⟩

theorem classDoc_some {l : TLine} {c c' : Class} (h : classDoc l c = some c') : ClassStep .doc c c' := by
  obtain ⟨d, hd, rfl⟩ := map_some' h
  obtain ⟨h1, d', rfl, _⟩ := setDoc_some hd
  exact .doc h1

theorem fieldDoc_some {l : TLine} {f f' : Field} (h : fieldDoc l f = some f') : FieldStep .doc f f' := by
  obtain ⟨d, hd, rfl⟩ := map_some' h
  obtain ⟨h1, d', rfl, _⟩ := setDoc_some hd
  exact .doc h1

theorem methodDoc_some {l : TLine} {m m' : Method} (h : methodDoc l m = some m') : MethodStep .doc m m' := by
  obtain ⟨d, hd, rfl⟩ := map_some' h
  obtain ⟨h1, d', rfl, _⟩ := setDoc_some hd
  exact .doc h1

theorem paramDoc_some {l : TLine} {p p' : Param} (h : paramDoc l p = some p') : ParamStep .doc p p' := by
  obtain ⟨d, hd, rfl⟩ := map_some' h
  obtain ⟨h1, d', rfl, _⟩ := setDoc_some hd
  exact .doc h1

theorem inLastField_some {κ : LineKind} {g : Field → Option Field} (hg : ∀ f f', g f = some f' → FieldStep κ f f')
    {c c' : Class} (h : inLastField g c = some c') : ClassStep κ c c' := by
  obtain ⟨fs, hfs, rfl⟩ := map_some' h
  obtain ⟨init, k, f, f', h1, h2, rfl⟩ := modLastV_some hfs
  exact .inField h1 (hg f f' h2)

theorem inLastMethod_some {κ : LineKind} {g : Method → Option Method} (hg : ∀ m m', g m = some m' → MethodStep κ m m')
    {c c' : Class} (h : inLastMethod g c = some c') : ClassStep κ c c' := by
  obtain ⟨ms, hms, rfl⟩ := map_some' h
  obtain ⟨init, k, m, m', h1, h2, rfl⟩ := modLastV_some hms
  exact .inMethod h1 (hg m m' h2)

theorem inLastParam_some {κ : LineKind} {g : Param → Option Param} (hg : ∀ p p', g p = some p' → ParamStep κ p p')
    {m m' : Method} (h : inLastParam g m = some m') : MethodStep κ m m' := by
  obtain ⟨ps, hps, rfl⟩ := map_some' h
  obtain ⟨init, k, p, p', h1, h2, rfl⟩ := modLastV_some hps
  exact .inParam h1 (hg p p' h2)

theorem inClass_some {κ : LineKind} {g : Class → Option Class} (hg : ∀ c c', g c = some c' → ClassStep κ c c')
    {cs cs' : AList JStr Class} (h : modLastV g cs = some cs') : TreeStep κ cs cs' := by
  obtain ⟨init, k, c, c', rfl, h2, rfl⟩ := modLastV_some h
  exact .inClass (hg c c' h2)

theorem addField_step {n : Nat} {l : TLine} {c c' : Class} (h : addField n l c = some c') : ClassStep .fld c c' := by
  obtain ⟨desc, rest, names, name, _, _, h3, h4, rfl⟩ := addField_some h
  exact ClassStep.addField (f := { desc := desc, names := names, doc := none }) rfl h3 h4

theorem addMethod_step {n : Nat} {l : TLine} {c c' : Class} (h : addMethod n l c = some c') : ClassStep .mth c c' := by
  obtain ⟨desc, rest, names, name, _, _, h3, h4, rfl⟩ := addMethod_some h
  exact ClassStep.addMethod (m := { desc := desc, names := names, doc := none, params := [] }) rfl rfl h3 h4

theorem addParam_step {n : Nat} {l : TLine} {m m' : Method} (h : addParam n l m = some m') : MethodStep .par m m' := by
  obtain ⟨idx, rest, index, names, _, _, _, h4, rfl⟩ := addParam_some h
  exact MethodStep.addParam (p := { index := index, names := names, doc := none }) rfl h4

/-! ## the step -/

/-- **what an accepted line does**: nothing (`skip`), or exactly one of the changes listed in `TreeStep`, of the kind
the line has; the depth afterwards is at most one more than the indentation and the member kind follows `kindAfter` -/
theorem step_treeStep {n : Nat} {s s' : St} {l : TLine} (h : step n s l = some s') :
    TreeStep (lineKind s.kind l) s.classes s'.classes ∧ s'.kind = kindAfter s.kind l ∧ l.indent ≤ s.depth ∧
      l.indent ≤ s'.depth ∧ s'.depth ≤ l.indent + 1 := by
  have hMF : ¬ M_ = F_ := by decide
  have hCF : ¬ C_ = F_ := by decide
  have hCM : ¬ C_ = M_ := by decide
  have hCP : ¬ C_ = P_ := by decide
  unfold step at h
  split at h
  · simp at h
  · rename_i hdepth
    have hd : l.indent ≤ s.depth := by omega
    split at h
    · -- indentation 0
      rename_i hi
      split at h
      · rename_i hf
        obtain ⟨cs, hcs, rfl⟩ := map_some' h
        obtain ⟨names, key, _, h2, h3, rfl⟩ := addClass_some hcs
        refine ⟨?_, ?_, hd, ?_, ?_⟩
        · simp only [lineKind, hi, hf, if_true]
          exact TreeStep.addClass (c := { names := names, doc := none, fields := [], methods := [] }) rfl rfl rfl h2 h3
        · simp [kindAfter, hi]
        · simp [hi]
        · simp [hi]
      · rename_i hf
        simp only [Option.some.injEq] at h
        subst h
        refine ⟨?_, ?_, hd, ?_, ?_⟩
        · simp only [lineKind, hi, hf, if_false]
          exact .skip
        · simp [kindAfter, hi]
        · simp [hi]
        · simp [hi]
    · -- indentation 1
      rename_i hi
      split at h
      · rename_i hf
        obtain ⟨cs, hcs, rfl⟩ := map_some' h
        refine ⟨?_, ?_, hd, ?_, ?_⟩
        · simp only [lineKind, hi, hf, if_true]
          exact inClass_some (fun c c' hc => addField_step hc) hcs
        · simp [kindAfter, hi, hf]
        · simp [hi]
        · simp [hi]
      · rename_i hf
        split at h
        · rename_i hm
          obtain ⟨cs, hcs, rfl⟩ := map_some' h
          refine ⟨?_, ?_, hd, ?_, ?_⟩
          · simp only [lineKind, hi, hm, hMF, if_true, if_false]
            exact inClass_some (fun c c' hc => addMethod_step hc) hcs
          · simp [kindAfter, hi, hm, hMF]
          · simp [hi]
          · simp [hi]
        · rename_i hm
          split at h
          · rename_i hc
            obtain ⟨cs, hcs, rfl⟩ := map_some' h
            refine ⟨?_, ?_, hd, ?_, ?_⟩
            · simp only [lineKind, hi, hc, hCF, hCM, if_true, if_false]
              exact inClass_some (fun c c' hc => classDoc_some hc) hcs
            · simp [kindAfter, hi, hf, hm]
            · simp [hi]
            · simp [hi]
          · rename_i hc
            simp only [Option.some.injEq] at h
            subst h
            refine ⟨?_, ?_, hd, ?_, ?_⟩
            · simp only [lineKind, hi, hf, hm, hc, if_false]
              exact .skip
            · simp [kindAfter, hi, hf, hm]
            · simp [hi]
            · simp [hi]
    · -- indentation 2
      rename_i hi
      split at h
      · rename_i hk
        split at h
        · rename_i hc
          obtain ⟨cs, hcs, rfl⟩ := map_some' h
          refine ⟨?_, ?_, hd, ?_, ?_⟩
          · simp only [lineKind, hi, hk, hc, if_true]
            exact inClass_some (fun c c' h1 => inLastField_some (fun f f' h2 => fieldDoc_some h2) h1) hcs
          · simp [kindAfter, hi]
          · simp [hi]
          · simp [hi]
        · rename_i hc
          simp only [Option.some.injEq] at h
          subst h
          refine ⟨?_, ?_, hd, ?_, ?_⟩
          · simp only [lineKind, hi, hk, hc, if_false]
            exact .skip
          · simp [kindAfter, hi]
          · simp [hi]
          · simp [hi]
      · rename_i hk
        split at h
        · rename_i hp
          obtain ⟨cs, hcs, rfl⟩ := map_some' h
          refine ⟨?_, ?_, hd, ?_, ?_⟩
          · simp only [lineKind, hi, hk, hp, if_true]
            exact inClass_some (fun c c' h1 => inLastMethod_some (fun m m' h2 => addParam_step h2) h1) hcs
          · simp [kindAfter, hi]
          · simp [hi]
          · simp [hi]
        · rename_i hp
          split at h
          · rename_i hc
            obtain ⟨cs, hcs, rfl⟩ := map_some' h
            refine ⟨?_, ?_, hd, ?_, ?_⟩
            · simp only [lineKind, hi, hk, hc, hCP, if_true, if_false]
              exact inClass_some (fun c c' h1 => inLastMethod_some (fun m m' h2 => methodDoc_some h2) h1) hcs
            · simp [kindAfter, hi]
            · simp [hi]
            · simp [hi]
          · rename_i hc
            simp only [Option.some.injEq] at h
            subst h
            refine ⟨?_, ?_, hd, ?_, ?_⟩
            · simp only [lineKind, hi, hk, hp, hc, if_false]
              exact .skip
            · simp [kindAfter, hi]
            · simp [hi]
            · simp [hi]
    · -- indentation 3
      rename_i hi
      split at h
      · rename_i hc
        obtain ⟨cs, hcs, rfl⟩ := map_some' h
        refine ⟨?_, ?_, hd, ?_, ?_⟩
        · simp only [lineKind, hi, hc, if_true]
          exact inClass_some (fun c c' h1 => inLastMethod_some (fun m m' h2 =>
            inLastParam_some (fun p p' h3 => paramDoc_some h3) h2) h1) hcs
        · simp [kindAfter, hi]
        · simp [hi]
        · simp [hi]
      · rename_i hc
        simp only [Option.some.injEq] at h
        subst h
        refine ⟨?_, ?_, hd, ?_, ?_⟩
        · simp only [lineKind, hi, hc, if_false]
          exact .skip
        · simp [kindAfter, hi]
        · simp [hi]
        · simp [hi]
    · simp at h

end Tiny
