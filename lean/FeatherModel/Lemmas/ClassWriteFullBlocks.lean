import FeatherModel.Lemmas.ClassWriteFullAttr

/-!
# C02 (whole writer) — the attribute blocks shared by all owners: what a successful block wrote and what the indices
in it denote
-/

namespace ClassWriteFull
open PoolWrite (Entry)
open FramePool (Good Le)
open ClassRead ClassRead.Spec

/-- the block wrote one attribute named `name` with body `body` -/
def Present (o : Option Bytes) (p' : Pool) (name : JStr) (body : Bytes) : Prop :=
  ∃ nc, o = some (attrFrame nc body) ∧ nc < 65536 ∧ Utf8At p' nc name

theorem flagAttr_spec {flag : Bool} {name : JStr} {p p' : Pool} {o : Option Bytes} (hg : Good p)
    (h : flagAttr flag name p = .ok (o, p')) :
    Step p p' ∧ ((flag = false ∧ o = none) ∨ (flag = true ∧ Present o p' name [])) := by
  rcases onlyIf_inv h with ⟨hc, b, hb, rfl⟩ | ⟨hc, rfl, rfl⟩
  · obtain ⟨i, p1, bb, h1, h2, rfl⟩ := attrFix_inv hb
    have := ok_inj.mp h2
    cases this
    obtain ⟨s, a, hi⟩ := putUtf8_spec hg h1
    exact ⟨s, Or.inr ⟨hc, i, by simp [attrFrame], hi, a⟩⟩
  · exact ⟨Step.refl hg, Or.inl ⟨hc, rfl⟩⟩

/-- a fixed-length attribute whose body is one `u2` index obtained from a put -/
theorem fix2_spec {name : JStr} {put1 : Pool → Except Fail (Nat × Pool)} {p p' : Pool} {b : Bytes} (hg : Good p)
    (h : attrFix name 2 (fun p => idx16 (put1 p)) p = .ok (b, p')) :
    ∃ nc p1 cp, Step p p1 ∧ Utf8At p1 nc name ∧ nc < 65536 ∧ put1 p1 = .ok (cp, p') ∧ b = attrFrame nc (be16 cp) := by
  obtain ⟨i, p1, bb, h1, h2, rfl⟩ := attrFix_inv h
  obtain ⟨cp, h3, rfl⟩ := idx16_inv h2
  obtain ⟨s, a, hi⟩ := putUtf8_spec hg h1
  exact ⟨i, p1, cp, s, a, hi, h3, by simp [attrFrame, be16]⟩

theorem sigAttr_spec {sig : Option JStr} {p p' : Pool} {o : Option Bytes} (hg : Good p)
    (h : sigAttr sig p = .ok (o, p')) :
    Step p p' ∧ ((sig = none ∧ o = none) ∨
      (∃ s cp, sig = some s ∧ Present o p' sSignature (be16 cp) ∧ cp < 65536 ∧ Utf8At p' cp s)) := by
  rcases ifSome_inv h with ⟨s, b, rfl, hb, rfl⟩ | ⟨rfl, rfl, rfl⟩
  · obtain ⟨nc, p1, cp, s1, a1, hn, h3, rfl⟩ := fix2_spec hg hb
    obtain ⟨s2, a2, hc⟩ := putUtf8_spec s1.good h3
    exact ⟨s1.trans s2, Or.inr ⟨s, cp, rfl, ⟨nc, rfl, hn, a1.mono s2.le⟩, hc, a2⟩⟩
  · exact ⟨Step.refl hg, Or.inl ⟨rfl, rfl⟩⟩

/-- an attribute whose body is one `u2` Utf8 / class index (`SourceFile`, `NestHost`, `ModuleMainClass`) -/
theorem utf8Attr_spec {name : JStr} {x : Option JStr} {p p' : Pool} {o : Option Bytes} (hg : Good p)
    (h : ifSome x (fun s => attrFix name 2 (fun p => idx16 (putUtf8 p s))) p = .ok (o, p')) :
    Step p p' ∧ ((x = none ∧ o = none) ∨
      (∃ s cp, x = some s ∧ Present o p' name (be16 cp) ∧ cp < 65536 ∧ Utf8At p' cp s)) := by
  rcases ifSome_inv h with ⟨s, b, rfl, hb, rfl⟩ | ⟨rfl, rfl, rfl⟩
  · obtain ⟨nc, p1, cp, s1, a1, hn, h3, rfl⟩ := fix2_spec hg hb
    obtain ⟨s2, a2, hc⟩ := putUtf8_spec s1.good h3
    exact ⟨s1.trans s2, Or.inr ⟨s, cp, rfl, ⟨nc, rfl, hn, a1.mono s2.le⟩, hc, a2⟩⟩
  · exact ⟨Step.refl hg, Or.inl ⟨rfl, rfl⟩⟩

theorem classAttr_spec {name : JStr} {x : Option JStr} {p p' : Pool} {o : Option Bytes} (hg : Good p)
    (h : ifSome x (fun s => attrFix name 2 (fun p => idx16 (putClass p s))) p = .ok (o, p')) :
    Step p p' ∧ ((x = none ∧ o = none) ∨
      (∃ s cp, x = some s ∧ Present o p' name (be16 cp) ∧ cp < 65536 ∧ ClsAt p' cp s)) := by
  rcases ifSome_inv h with ⟨s, b, rfl, hb, rfl⟩ | ⟨rfl, rfl, rfl⟩
  · obtain ⟨nc, p1, cp, s1, a1, hn, h3, rfl⟩ := fix2_spec hg hb
    obtain ⟨s2, a2, hc⟩ := putClass_spec s1.good h3
    exact ⟨s1.trans s2, Or.inr ⟨s, cp, rfl, ⟨nc, rfl, hn, a1.mono s2.le⟩, hc, a2⟩⟩
  · exact ⟨Step.refl hg, Or.inl ⟨rfl, rfl⟩⟩

/-- a `u2`-counted list of class references as an optional attribute (`Exceptions`, `NestMembers`, `PermittedSubclasses`) -/
theorem classListAttr_spec {name : JStr} {x : Option (List JStr)} {p p' : Pool} {o : Option Bytes} (hg : Good p)
    (h : ifSome x (fun cs => attrBuf name (writeClassList cs)) p = .ok (o, p')) :
    Step p p' ∧ ((x = none ∧ o = none) ∨
      (∃ (cs : List JStr) (cps : List Nat), x = some cs ∧ Present o p' name (be16 cps.length ++ cps.flatMap be16) ∧ cps.length = cs.length ∧
        cps.length < 65536 ∧ ∀ y ∈ cps.zip cs, y.1 < 65536 ∧ ClsAt p' y.1 y.2)) := by
  rcases ifSome_inv h with ⟨cs, b, rfl, hb, rfl⟩ | ⟨rfl, rfl, rfl⟩
  · obtain ⟨bb, p1, i, h1, h2, _, rfl⟩ := attrBuf_inv hb
    obtain ⟨s1, cps, rfl, hl, hlt, hr⟩ := classList_spec hg h1
    obtain ⟨s2, a2, hi⟩ := putUtf8_spec s1.good h2
    exact ⟨s1.trans s2, Or.inr ⟨cs, cps, rfl, ⟨i, rfl, hi, a2⟩, hl, hlt, fun y hy => ⟨(hr y hy).1, (hr y hy).2.mono s2.le⟩⟩⟩
  · exact ⟨Step.refl hg, Or.inl ⟨rfl, rfl⟩⟩

/-- the unknown attributes: name index + bytes each -/
theorem unknownAttrs_spec : ∀ (as : List Attr) {p p' : Pool} {bs : List Bytes}, Good p →
    runAttrs (unknownAttrs as) p = .ok (bs, p') →
    Step p p' ∧ ∃ ncs : List Nat, ncs.length = as.length ∧ bs = (ncs.zip as).map (fun x => attrFrame x.1 x.2.bytes) ∧
      ∀ x ∈ ncs.zip as, x.1 < 65536 ∧ Utf8At p' x.1 x.2.name ∧ x.2.bytes.length < 4294967296 := by
  intro as
  induction as with
  | nil =>
    intro p p' bs hg h
    obtain ⟨rfl, rfl⟩ := runAttrs_nil_inv h
    exact ⟨Step.refl hg, [], rfl, rfl, by simp⟩
  | cons a as ih =>
    intro p p' bs hg h
    obtain ⟨o, p1, bs1, h1, h2, rfl⟩ := runAttrs_cons_inv h
    obtain ⟨b, hb, rfl⟩ := always_inv h1
    obtain ⟨i, h3, hl, rfl⟩ := unknownAttr_inv hb
    obtain ⟨s1, a1, hi⟩ := putUtf8_spec hg h3
    obtain ⟨s2, ncs, hlen, rfl, hr⟩ := ih s1.good h2
    refine ⟨s1.trans s2, i :: ncs, by simp [hlen], by simp, ?_⟩
    intro x hx
    simp only [List.zip_cons_cons, List.mem_cons] at hx
    rcases hx with rfl | hx
    · exact ⟨hi, a1.mono s2.le, by simp only; omega⟩
    · exact hr x hx

/-- annotation blocks of an owner without annotations write nothing -/
theorem annoBlocks_nil (wt : Target → Except Fail Bytes) (p : Pool) :
    runAttrs (annoBlocks wt [] [] [] []) p = .ok ([], p) := by
  simp [annoBlocks, runAttrs, annosAttr, typeAnnosAttr, onlyIf, bind, Except.bind, pure, Except.pure]

/-! ## folding the attributes back into facts -/

theorem applyAll_append {σ α : Type} (step : σ → α → Option σ) (st : σ) (xs ys : List α) :
    applyAll step st (xs ++ ys) = (applyAll step st xs).bind (fun s => applyAll step s ys) := by
  induction xs generalizing st with
  | nil => rfl
  | cons x xs ih =>
    simp only [List.cons_append, applyAll]
    cases step st x with
    | none => rfl
    | some s => exact ih s

theorem applyAll_toList {σ α : Type} (step : σ → α → Option σ) (st : σ) (o : Option α) :
    applyAll step st o.toList = match o with | none => some st | some a => step st a := by
  cases o with
  | none => rfl
  | some a => simp only [Option.toList, applyAll]; cases step st a <;> rfl

theorem zip_map_fst_length {α β : Type} (xs : List α) (ys : List β) (h : xs.length = ys.length) :
    (xs.zip ys).map (·.2) = ys := by
  induction xs generalizing ys with
  | nil => cases ys with
    | nil => rfl
    | cons _ _ => simp at h
  | cons x xs ih => cases ys with
    | nil => simp at h
    | cons y ys => simp [ih ys (by simpa using h)]

theorem map_eq_of_zip {α β : Type} (g : α → β) : ∀ (ls : List α) (xs : List β), ls.length = xs.length →
    (∀ x ∈ ls.zip xs, g x.1 = x.2) → ls.map g = xs := by
  intro ls
  induction ls with
  | nil => intro xs hl _; cases xs with
    | nil => rfl
    | cons _ _ => simp at hl
  | cons l ls ih =>
    intro xs hl h
    cases xs with
    | nil => simp at hl
    | cons x xs =>
      have h0 := h (l, x) (by simp)
      simp only at h0
      rw [List.map_cons, h0, ih xs (by simpa using hl) (fun y hy => h y (by simp [hy]))]

theorem zip_mem_of_mem {α β : Type} {ls : List α} {xs : List β} (hl : ls.length = xs.length) {l : α} (hm : l ∈ ls) :
    ∃ x ∈ xs, (l, x) ∈ ls.zip xs := by
  obtain ⟨k, hk, hlk⟩ := List.getElem_of_mem hm
  refine ⟨xs[k]'(by omega), List.getElem_mem _, ?_⟩
  rw [← hlk]
  exact List.mem_iff_getElem.mpr ⟨k, by rw [List.length_zip]; omega, by simp⟩

theorem toList_map {α β : Type} (f : α → β) (o : Option α) : (o.map f).toList = o.toList.map f := by
  cases o <;> rfl

end ClassWriteFull
