import FeatherModel.Lemmas.CodeInsnDecode

/-!
# `tableswitch` / `lookupswitch`: final bytes and what they decode to
-/

namespace CodeWrite
open CodeDecode CodeDenote

/-- the final bytes of a jump table: 32-bit offsets relative to the switch opcode at `p` -/
def finTable (lp : Nat → Option Nat) (p : Nat) : List Nat → Option Bytes
  | [] => some []
  | t :: ts =>
    match lp t, finTable lp p ts with
    | some tp, some r => some (i32b (offs p tp) ++ r)
    | _, _ => none

def finPairs (lp : Nat → Option Nat) (p : Nat) : List (Int × Nat) → Option Bytes
  | [] => some []
  | kt :: ps =>
    match lp kt.2, finPairs lp p ps with
    | some tp, some r => some (i32b kt.1 ++ i32b (offs p tp) ++ r)
    | _, _ => none

theorem i32b_length (v : Int) : (i32b v).length = 4 := rfl

/-- one 32-bit label slot at `wp`, surrounded by `X` and `Y` -/
theorem swLabel_resolve {lbl lp : Nat → Option Nat} (hok : LabelsOk lbl lp) (base p k wp t : Nat) (X Y : Bytes)
    (_hb : base ≤ wp) (hx : X.length = wp - base) :
    resolveAt base lp (swLabel lbl p k wp t).2 (X ++ (swLabel lbl p k wp t).1 ++ Y) =
      (lp t).map (fun tp => X ++ i32b (offs p tp) ++ Y) := by
  unfold swLabel
  cases hl : lbl t with
  | some tp =>
    simp only [resolveAt_nil, hok.sub _ _ hl, Option.map_some]
  | none =>
    simp only [resolveAt_single, patchVal]
    cases hlp : lp t with
    | none => simp
    | some tp =>
      simp only [if_true, Option.map_some, Option.some.injEq]
      have e : wp - base = X.length + 0 := by omega
      rw [e, List.append_assoc, patchL_append_right, patchL_exact _ _ _ (by simp [i32b_length]), List.append_assoc]

theorem swTable_resolve {lbl lp : Nat → Option Nat} (hok : LabelsOk lbl lp) (base p k : Nat) (Y : Bytes)
    (ts : List Nat) : ∀ (wp : Nat) (X : Bytes), base ≤ wp → X.length = wp - base →
      resolveAt base lp (swTable lbl p k wp ts).2 (X ++ (swTable lbl p k wp ts).1 ++ Y) =
        (finTable lp p ts).map (fun b => X ++ b ++ Y) := by
  induction ts with
  | nil => intro wp X _ _; simp [swTable, finTable, resolveAt_nil]
  | cons t ts ih =>
    intro wp X hb hx
    simp only [swTable, finTable]
    rw [resolveAt_append]
    have e1 : X ++ ((swLabel lbl p k wp t).1 ++ (swTable lbl p k (wp + 4) ts).1) ++ Y =
        X ++ (swLabel lbl p k wp t).1 ++ ((swTable lbl p k (wp + 4) ts).1 ++ Y) := by simp
    rw [e1, swLabel_resolve hok base p k wp t X _ hb hx]
    cases hlp : lp t with
    | none => simp
    | some tp =>
      simp only [Option.map_some, Option.bind_some]
      have e2 : X ++ i32b (offs p tp) ++ ((swTable lbl p k (wp + 4) ts).1 ++ Y) =
          (X ++ i32b (offs p tp)) ++ (swTable lbl p k (wp + 4) ts).1 ++ Y := by simp
      rw [e2, ih (wp + 4) (X ++ i32b (offs p tp)) (by omega) (by simp [i32b_length]; omega)]
      cases finTable lp p ts with
      | none => simp
      | some r => simp

theorem swPairs_resolve {lbl lp : Nat → Option Nat} (hok : LabelsOk lbl lp) (base p k : Nat) (Y : Bytes)
    (ps : List (Int × Nat)) : ∀ (wp : Nat) (X : Bytes), base ≤ wp → X.length = wp - base →
      resolveAt base lp (swPairs lbl p k wp ps).2 (X ++ (swPairs lbl p k wp ps).1 ++ Y) =
        (finPairs lp p ps).map (fun b => X ++ b ++ Y) := by
  induction ps with
  | nil => intro wp X _ _; simp [swPairs, finPairs, resolveAt_nil]
  | cons kt ps ih =>
    intro wp X hb hx
    simp only [swPairs, finPairs]
    rw [resolveAt_append]
    have e1 : X ++ (i32b kt.1 ++ (swLabel lbl p k (wp + 4) kt.2).1 ++ (swPairs lbl p k (wp + 8) ps).1) ++ Y =
        (X ++ i32b kt.1) ++ (swLabel lbl p k (wp + 4) kt.2).1 ++ ((swPairs lbl p k (wp + 8) ps).1 ++ Y) := by simp
    rw [e1, swLabel_resolve hok base p k (wp + 4) kt.2 (X ++ i32b kt.1) _ (by omega) (by simp [i32b_length]; omega)]
    cases hlp : lp kt.2 with
    | none => simp
    | some tp =>
      simp only [Option.map_some, Option.bind_some]
      have e2 : X ++ i32b kt.1 ++ i32b (offs p tp) ++ ((swPairs lbl p k (wp + 8) ps).1 ++ Y) =
          (X ++ i32b kt.1 ++ i32b (offs p tp)) ++ (swPairs lbl p k (wp + 8) ps).1 ++ Y := by simp
      rw [e2, ih (wp + 8) (X ++ i32b kt.1 ++ i32b (offs p tp)) (by omega) (by simp [i32b_length]; omega)]
      cases finPairs lp p ps with
      | none => simp
      | some r => simp


/-- the absolute targets a resolved jump table decodes to -/
def tgts (lp : Nat → Option Nat) (ts : List Nat) : List Int := ts.map (fun t => (((lp t).getD 0 : Nat) : Int))
def ptgts (lp : Nat → Option Nat) (ps : List (Int × Nat)) : List (Int × Int) :=
  ps.map (fun kt => (kt.1, (((lp kt.2).getD 0 : Nat) : Int)))

theorem readOffsets_finTable {lp : Nat → Option Nat} {p : Nat} (hp : p ≤ 65535)
    (hb : ∀ t x, lp t = some x → x ≤ 65535) (ts : List Nat) :
    ∀ b, finTable lp p ts = some b → (∀ rest, readOffsets p ts.length (b ++ rest) = some (tgts lp ts, rest)) ∧
      landsAll lp ts (tgts lp ts) = true := by
  induction ts with
  | nil =>
    intro b h
    simp only [finTable, Option.some.injEq] at h
    subst h
    exact ⟨fun rest => by simp [readOffsets, tgts], by simp [landsAll, tgts]⟩
  | cons t ts ih =>
    intro b h
    simp only [finTable] at h
    cases hl : lp t with
    | none => simp [hl] at h
    | some tp =>
      cases hf : finTable lp p ts with
      | none => simp [hl, hf] at h
      | some r =>
        simp only [hl, hf, Option.some.injEq] at h
        subst h
        obtain ⟨h1, h2⟩ := ih r hf
        have hr := offs_range hp (hb _ _ hl)
        refine ⟨fun rest => ?_, ?_⟩
        · simp only [i32b_eq, List.length_cons, List.cons_append, List.nil_append, readOffsets, h1 rest,
            s32_i32b _ hr.1 hr.2]
          simp [offs, tgts, hl]; omega
        · simp only [tgts, List.map_cons, hl, Option.getD_some, landsAll, lands_self hl, Bool.true_and]
          exact h2

theorem readPairs_finPairs {lp : Nat → Option Nat} {p : Nat} (hp : p ≤ 65535)
    (hb : ∀ t x, lp t = some x → x ≤ 65535) (ps : List (Int × Nat)) :
    (ps.all (fun kp => decide (-2147483648 ≤ kp.1) && decide (kp.1 ≤ 2147483647)) = true) →
    ∀ b, finPairs lp p ps = some b → (∀ rest, readPairs p ps.length (b ++ rest) = some (ptgts lp ps, rest)) ∧
      landsPairs lp ps (ptgts lp ps) = true := by
  induction ps with
  | nil =>
    intro _ b h
    simp only [finPairs, Option.some.injEq] at h
    subst h
    exact ⟨fun rest => by simp [readPairs, ptgts], by simp [landsPairs, ptgts]⟩
  | cons kt ps ih =>
    intro hk b h
    simp only [List.all_cons, Bool.and_eq_true, decide_eq_true_eq] at hk
    simp only [finPairs] at h
    cases hl : lp kt.2 with
    | none => simp [hl] at h
    | some tp =>
      cases hf : finPairs lp p ps with
      | none => simp [hl, hf] at h
      | some r =>
        simp only [hl, hf, Option.some.injEq] at h
        subst h
        obtain ⟨h1, h2⟩ := ih (by simpa using hk.2) r hf
        have hr := offs_range hp (hb _ _ hl)
        refine ⟨fun rest => ?_, ?_⟩
        · simp only [i32b_eq, List.length_cons, List.cons_append, List.nil_append, readPairs, h1 rest,
            s32_i32b _ hr.1 hr.2, s32_i32b _ hk.1.1 hk.1.2]
          simp [offs, ptgts, hl]; omega
        · simp only [ptgts, List.map_cons, hl, Option.getD_some, landsPairs, lands_self hl, Bool.and_true,
            beq_self_eq_true, Bool.true_and]
          exact h2

theorem finTable_length {lp : Nat → Option Nat} {p : Nat} (ts : List Nat) :
    ∀ b, finTable lp p ts = some b → b.length = 4 * ts.length := by
  induction ts with
  | nil => intro b h; simp only [finTable, Option.some.injEq] at h; subst h; rfl
  | cons t ts ih =>
    intro b h
    simp only [finTable] at h
    split at h
    · rename_i r _ hr
      cases h
      simp [i32b_length, ih _ hr]; omega
    · cases h

theorem finPairs_length {lp : Nat → Option Nat} {p : Nat} (ps : List (Int × Nat)) :
    ∀ b, finPairs lp p ps = some b → b.length = 8 * ps.length := by
  induction ps with
  | nil => intro b h; simp only [finPairs, Option.some.injEq] at h; subst h; rfl
  | cons t ts ih =>
    intro b h
    simp only [finPairs] at h
    split at h
    · rename_i r _ hr
      cases h
      simp [i32b_length, ih _ hr]; omega
    · cases h

end CodeWrite

namespace CodeDecode

theorem decodeOne_tableswitch (pc : Nat) (pre : Bytes) (hpre : pre.length = switchPad pc)
    (d1 d2 d3 d4 l1 l2 l3 l4 h1 h2 h3 h4 : Nat) (tl : Bytes) :
    decodeOne pc (0xaa :: (pre ++ d1 :: d2 :: d3 :: d4 :: l1 :: l2 :: l3 :: l4 :: h1 :: h2 :: h3 :: h4 :: tl)) =
      (if s32 l1 l2 l3 l4 ≤ s32 h1 h2 h3 h4 then
        match readOffsets pc (s32 h1 h2 h3 h4 - s32 l1 l2 l3 l4 + 1).toNat tl with
        | some (os, _) =>
          some (.tableswitch ((pc : Int) + s32 d1 d2 d3 d4) (s32 l1 l2 l3 l4) (s32 h1 h2 h3 h4) os,
            1 + switchPad pc + 12 + 4 * os.length)
        | none => none
      else none) := by
  have hd : (pre ++ d1 :: d2 :: d3 :: d4 :: l1 :: l2 :: l3 :: l4 :: h1 :: h2 :: h3 :: h4 :: tl).drop (switchPad pc) =
      d1 :: d2 :: d3 :: d4 :: l1 :: l2 :: l3 :: l4 :: h1 :: h2 :: h3 :: h4 :: tl := by
    rw [← hpre]; exact List.drop_left
  simp [decodeOne, isSimple, isIf, hd]
  split
  · cases readOffsets pc (s32 h1 h2 h3 h4 - s32 l1 l2 l3 l4 + 1).toNat tl with
    | none => rfl
    | some x => rfl
  · rfl

theorem decodeOne_lookupswitch (pc : Nat) (pre : Bytes) (hpre : pre.length = switchPad pc)
    (d1 d2 d3 d4 n1 n2 n3 n4 : Nat) (tl : Bytes) :
    decodeOne pc (0xab :: (pre ++ d1 :: d2 :: d3 :: d4 :: n1 :: n2 :: n3 :: n4 :: tl)) =
      (if 0 ≤ s32 n1 n2 n3 n4 then
        match readPairs pc (s32 n1 n2 n3 n4).toNat tl with
        | some (ps, _) =>
          some (.lookupswitch ((pc : Int) + s32 d1 d2 d3 d4) ps, 1 + switchPad pc + 8 + 8 * ps.length)
        | none => none
      else none) := by
  have hd : (pre ++ d1 :: d2 :: d3 :: d4 :: n1 :: n2 :: n3 :: n4 :: tl).drop (switchPad pc) =
      d1 :: d2 :: d3 :: d4 :: n1 :: n2 :: n3 :: n4 :: tl := by
    rw [← hpre]; exact List.drop_left
  simp [decodeOne, isSimple, isIf, hd]
  split
  · cases readPairs pc (s32 n1 n2 n3 n4).toNat tl with
    | none => rfl
    | some x => rfl
  · rfl

end CodeDecode

namespace CodeWrite
open CodeDecode CodeDenote

theorem tableswitch_decoded {lp lbl : Nat → Option Nat} {p k d : Nat} {lo hi : Int} {tb : List Nat}
    {r : Bytes × List Unwritten} {fin : Bytes} (hp : p ≤ 65535) (hok : LabelsOk lbl lp)
    (hwt : wt (.tableswitch d lo hi tb) = true)
    (henc : encTableSwitch lbl p k d lo hi tb = .ok r) (hres : resolveAt p lp r.2 r.1 = some fin) :
    Decoded lp p (.tableswitch d lo hi tb) fin := by
  simp only [wt, Bool.and_eq_true, decide_eq_true_eq] at hwt
  obtain ⟨⟨⟨hlo1, hlo2⟩, hhi1⟩, hhi2⟩ := hwt
  unfold encTableSwitch at henc
  simp only at henc
  split at henc
  · cases henc
  · rename_i hle
    split at henc
    · cases henc
    · split at henc
      · cases henc
      · rename_i hlen
        cases henc
        simp only at hres
        -- the default slot
        rw [resolveAt_append] at hres
        have e1 : 0xaa :: List.replicate (padLen p) 0 ++ (swLabel lbl p k (p + 1 + padLen p) d).1 ++ i32b lo ++ i32b hi ++
              (swTable lbl p k (p + 1 + padLen p + 12) tb).1 =
            (0xaa :: List.replicate (padLen p) 0) ++ (swLabel lbl p k (p + 1 + padLen p) d).1 ++
              (i32b lo ++ i32b hi ++ (swTable lbl p k (p + 1 + padLen p + 12) tb).1) := by simp
        rw [e1, swLabel_resolve hok p p k (p + 1 + padLen p) d _ _ (by omega) (by simp; omega)] at hres
        cases hld : lp d with
        | none => simp [hld] at hres
        | some dtp =>
          simp only [hld, Option.map_some, Option.bind_some] at hres
          have e2 : (0xaa :: List.replicate (padLen p) 0) ++ i32b (offs p dtp) ++
                (i32b lo ++ i32b hi ++ (swTable lbl p k (p + 1 + padLen p + 12) tb).1) =
              ((0xaa :: List.replicate (padLen p) 0) ++ i32b (offs p dtp) ++ i32b lo ++ i32b hi) ++
                (swTable lbl p k (p + 1 + padLen p + 12) tb).1 ++ [] := by simp
          rw [e2, swTable_resolve hok p p k [] tb (p + 1 + padLen p + 12) _ (by omega)
            (by simp [i32b_length]; omega)] at hres
          cases hft : finTable lp p tb with
          | none => simp [hft] at hres
          | some b =>
            simp only [hft, Option.map_some, Option.some.injEq, List.append_nil] at hres
            subst hres
            have hdr := offs_range hp (hok.bound _ _ hld)
            have hbl := finTable_length tb b hft
            have hn : (hi - lo + 1).toNat = tb.length := by omega
            obtain ⟨hro, hla⟩ := readOffsets_finTable hp hok.bound tb b hft
            refine .single (.tableswitch (dtp : Int) lo hi (tgts lp tb)) (by simp) (fun rest => ?_) ?_
            · have hpre : (List.replicate (padLen p) 0).length = switchPad p := by
                simp [padLen_eq_switchPad]
              have hd := decodeOne_tableswitch p (List.replicate (padLen p) 0) hpre
              simp only [i32b_eq, List.cons_append, List.nil_append, List.append_assoc] at hd ⊢
              rw [hd]
              simp only [s32_i32b _ hlo1 hlo2, s32_i32b _ hhi1 hhi2, s32_i32b _ hdr.1 hdr.2]
              have hle' : lo ≤ hi := by omega
              simp only [hle', if_true, hn, hro rest]
              simp only [List.length_cons, List.length_append, List.length_replicate, hbl, tgts, List.length_map,
                padLen_eq_switchPad]
              simp [offs]; omega
            · simp [denote1, lands_self hld, hla]

theorem lookupswitch_decoded {lp lbl : Nat → Option Nat} {p k d : Nat} {ps : List (Int × Nat)}
    {r : Bytes × List Unwritten} {fin : Bytes} (hp : p ≤ 65535) (hok : LabelsOk lbl lp)
    (hwt : wt (.lookupswitch d ps) = true) (hfl : fin.length ≤ 65535)
    (henc : encLookupSwitch lbl p k d ps = .ok r) (hres : resolveAt p lp r.2 r.1 = some fin) :
    Decoded lp p (.lookupswitch d ps) fin := by
  simp only [wt] at hwt
  unfold encLookupSwitch at henc
  simp only at henc
  split at henc
  · cases henc
  · cases henc
    simp only at hres
    rw [resolveAt_append] at hres
    have e1 : 0xab :: List.replicate (padLen p) 0 ++ (swLabel lbl p k (p + 1 + padLen p) d).1 ++ i32b ↑ps.length ++
          (swPairs lbl p k (p + 1 + padLen p + 8) ps).1 =
        (0xab :: List.replicate (padLen p) 0) ++ (swLabel lbl p k (p + 1 + padLen p) d).1 ++
          (i32b ↑ps.length ++ (swPairs lbl p k (p + 1 + padLen p + 8) ps).1) := by simp
    rw [e1, swLabel_resolve hok p p k (p + 1 + padLen p) d _ _ (by omega) (by simp; omega)] at hres
    cases hld : lp d with
    | none => simp [hld] at hres
    | some dtp =>
      simp only [hld, Option.map_some, Option.bind_some] at hres
      have e2 : (0xab :: List.replicate (padLen p) 0) ++ i32b (offs p dtp) ++
            (i32b ↑ps.length ++ (swPairs lbl p k (p + 1 + padLen p + 8) ps).1) =
          ((0xab :: List.replicate (padLen p) 0) ++ i32b (offs p dtp) ++ i32b ↑ps.length) ++
            (swPairs lbl p k (p + 1 + padLen p + 8) ps).1 ++ [] := by simp
      rw [e2, swPairs_resolve hok p p k [] ps (p + 1 + padLen p + 8) _ (by omega)
        (by simp [i32b_length]; omega)] at hres
      cases hft : finPairs lp p ps with
      | none => simp [hft] at hres
      | some b =>
        simp only [hft, Option.map_some, Option.some.injEq, List.append_nil] at hres
        subst hres
        have hdr := offs_range hp (hok.bound _ _ hld)
        have hbl := finPairs_length ps b hft
        have hnb : ps.length ≤ 65535 := by
          simp only [List.length_append, hbl] at hfl
          omega
        obtain ⟨hro, hla⟩ := readPairs_finPairs hp hok.bound ps hwt b hft
        refine .single (.lookupswitch (dtp : Int) (ptgts lp ps)) (by simp) (fun rest => ?_) ?_
        · have hpre : (List.replicate (padLen p) 0).length = switchPad p := by
            simp [padLen_eq_switchPad]
          have hd := decodeOne_lookupswitch p (List.replicate (padLen p) 0) hpre
          simp only [i32b_eq, List.cons_append, List.nil_append, List.append_assoc] at hd ⊢
          rw [hd]
          have hn1 : -2147483648 ≤ (ps.length : Int) := by omega
          have hn2 : (ps.length : Int) ≤ 2147483647 := by omega
          simp only [s32_i32b _ hn1 hn2, s32_i32b _ hdr.1 hdr.2]
          have hle' : (0 : Int) ≤ ps.length := by omega
          simp only [hle', if_true, Int.toNat_natCast, hro rest]
          simp only [List.length_cons, List.length_append, List.length_replicate, hbl, ptgts, List.length_map,
            padLen_eq_switchPad]
          simp [offs]; omega
        · simp [denote1, lands_self hld, hla]

theorem plain_enc (p : Nat) (i : Insn)
    (hnl : plainInsn i = true) (a a' : Bool) (b b' : Nat → Option Nat) (k k' : Nat) :
    encInsn a b p k i = encInsn a' b' p k' i := by
  cases i <;> first | rfl | simp [plainInsn] at hnl

theorem plain_unw {p k : Nat} {i : Insn} {a : Bool} {b : Nat → Option Nat} {r : Bytes × List Unwritten}
    (hnl : plainInsn i = true) (h : encInsn a b p k i = .ok r) : r.2 = [] := by
  cases i <;> first | (simp only [encInsn] at h; cases h; rfl) | (simp only [encInsn] at h; split at h <;> cases h; rfl) | simp [plainInsn] at hnl

/-- **one instruction**: whatever form the writer chose for instruction `i`, its final bytes decode to `i` -/
theorem encInsn_decoded {lp lbl : Nat → Option Nat} {p k : Nat} {i : Insn} {isWide : Bool}
    {r : Bytes × List Unwritten} {fin : Bytes} (hp : p ≤ 65535) (hok : LabelsOk lbl lp) (hwt : wt i = true)
    (hfl : fin.length ≤ 65535) (henc : encInsn isWide lbl p k i = .ok r) (hres : resolveAt p lp r.2 r.1 = some fin) :
    Decoded lp p i fin := by
  have plainCase : plainInsn i = true → Decoded lp p i fin := by
    intro hnl
    have hu := plain_unw hnl henc
    rw [hu, resolveAt_nil] at hres
    cases hres
    refine plain_decoded lp p i hwt r.1 hnl (fun a b k' => ?_)
    rw [plain_enc p i hnl a isWide b lbl k' k, henc]
    cases r; simp only at hu; subst hu; rfl
  cases i with
  | ifc c t => exact if_decoded hp hok henc hres
  | goto t => exact goto_decoded hp hok henc hres
  | jsr t => exact jsr_decoded hp hok henc hres
  | tableswitch d lo hi tb => exact tableswitch_decoded hp hok hwt henc hres
  | lookupswitch d ps => exact lookupswitch_decoded hp hok hwt hfl henc hres
  | _ => exact plainCase rfl

end CodeWrite
