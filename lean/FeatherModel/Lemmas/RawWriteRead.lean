import FeatherModel.Lemmas.RawReadWrite

/-! C20: what the checking reader (`strict = true`) accepts is re-written byte for byte; the checking reader refines the
plain one. -/

namespace RawLayout

/-- the input consists of bytes -/
def IsBytes (bs : Bytes) : Prop := ∀ x ∈ bs, x < 256

theorem IsBytes.suffix {a r bs : Bytes} (h : IsBytes bs) (e : a ++ r = bs) : IsBytes r := by
  intro x hx; exact h x (by rw [← e]; simp [hx])

/-- bytes of constants with the given values -/
def encConsts : List Const → List Nat → Bytes
  | c :: cs, n :: ns => be c.p n ++ encConsts cs ns
  | _, _ => []

theorem readConsts_enc : ∀ (cs : List Const) (binds binds' : Binds) (bs r : Bytes) (vals : List Nat),
    IsBytes bs → readConsts binds cs bs = .ok (binds', vals, r) →
    encConsts cs vals ++ r = bs ∧ vals.length = cs.length := by
  intro cs
  induction cs with
  | nil =>
    intro binds binds' bs r vals _ h
    simp [readConsts] at h
    obtain ⟨_, rfl, rfl⟩ := h
    simp [encConsts]
  | cons c cs ih =>
    intro binds binds' bs r vals hb h
    simp only [readConsts] at h
    split at h
    · cases h
    · rename_i n r1 ht
      obtain ⟨_, he⟩ := be_takeBE c.p bs r1 n hb ht
      split at h
      · cases hrec : readConsts ((c.name, n) :: binds) cs r1 with
        | ok x =>
          obtain ⟨b2, ns, r2⟩ := x
          rw [hrec] at h
          simp at h
          obtain ⟨_, rfl, rfl⟩ := h
          obtain ⟨h1, h2⟩ := ih _ b2 r1 r2 ns (hb.suffix he) hrec
          simp [encConsts, h1, he, h2]
        | err => rw [hrec] at h; cases h
        | panic => rw [hrec] at h; cases h
        | fuel => rw [hrec] at h; cases h
      · cases h

theorem writeConsts_of_vals (tl : Option Nat) (ctx : List (Nat × Val)) : ∀ (cs : List Const) (vals : List Nat),
    constVals tl ctx cs = some vals → writeConsts tl ctx cs = some (encConsts cs vals) := by
  intro cs
  induction cs with
  | nil => intro vals h; simp [constVals] at h; subst h; rfl
  | cons c cs ih =>
    intro vals h
    simp only [constVals] at h
    split at h
    · rename_i n r hn hr
      simp at h; subst h
      simp [writeConsts, hn, ih r hr, encConsts]
    · cases h

theorem constVals_split (tl : Option Nat) (ctx : List (Nat × Val)) : ∀ (cs ds : List Const) (x y : List Nat),
    x.length = cs.length → constVals tl ctx (cs ++ ds) = some (x ++ y) →
    constVals tl ctx cs = some x ∧ constVals tl ctx ds = some y := by
  intro cs
  induction cs with
  | nil =>
    intro ds x y hl h
    cases x with
    | nil => simpa [constVals] using h
    | cons _ _ => simp at hl
  | cons c cs ih =>
    intro ds x y hl h
    cases x with
    | nil => simp at hl
    | cons n x =>
      simp only [List.cons_append, constVals] at h
      split at h
      · rename_i m r hm hr
        simp at h
        obtain ⟨rfl, rfl⟩ := h
        obtain ⟨h1, h2⟩ := ih ds x y (by simpa using hl) hr
        simp [constVals, hm, h1, h2]
      · cases h

/-- re-writing statement for a reader of referenced definitions -/
def RecWR (env : Env) (rc : Rec) : Prop :=
  ∀ id pool bs v r, IsBytes bs → rc id pool bs = .ok (v, r) → ∃ b, writeV env (.ref id) v = some b ∧ b ++ r = bs

theorem readN_wr (env : Env) (el : Ty) (rd : Bytes → Res (Val × Bytes))
    (hrd : ∀ bs v r, IsBytes bs → rd bs = .ok (v, r) → ∃ b, writeV env el v = some b ∧ b ++ r = bs) :
    ∀ (n : Nat) (bs : Bytes) (vs : List Val) (r : Bytes), IsBytes bs → readN rd n bs = .ok (vs, r) →
      vs.length = n ∧ ∃ b, writeAll env el vs = some b ∧ b ++ r = bs := by
  intro n
  induction n with
  | zero =>
    intro bs vs r _ h
    simp [readN] at h
    obtain ⟨rfl, rfl⟩ := h
    exact ⟨rfl, [], rfl, rfl⟩
  | succ n ih =>
    intro bs vs r hb h
    simp only [readN] at h
    cases h1 : rd bs with
    | ok x =>
      obtain ⟨v, bs1⟩ := x
      rw [h1] at h; simp only [Res.bind_ok] at h
      obtain ⟨a, ha, hea⟩ := hrd bs v bs1 hb h1
      cases h2 : readN rd n bs1 with
      | ok y =>
        obtain ⟨ws, r2⟩ := y
        rw [h2] at h; simp at h
        obtain ⟨rfl, rfl⟩ := h
        obtain ⟨hl, w, hw, hew⟩ := ih bs1 ws r2 (hb.suffix hea) h2
        refine ⟨by simp [hl], a ++ w, by simp [writeAll, ha, hw], ?_⟩
        rw [List.append_assoc, hew, hea]
      | err => rw [h2] at h; cases h
      | panic => rw [h2] at h; cases h
      | fuel => rw [h2] at h; cases h
    | err => rw [h1] at h; cases h
    | panic => rw [h1] at h; cases h
    | fuel => rw [h1] at h; cases h

/-- what the slot-counting loop returns takes up exactly the slots asked for and re-writes to the bytes consumed -/
theorem readSlots_wr (env : Env) (wide : List Nat) (el : Ty) (rd : Bytes → Res (Val × Bytes))
    (hrd : ∀ bs v r, IsBytes bs → rd bs = .ok (v, r) → ∃ b, writeV env el v = some b ∧ b ++ r = bs) :
    ∀ (N n : Nat), n ≤ N → ∀ (bs : Bytes) (vs : List Val) (r : Bytes), IsBytes bs →
      readSlots wide rd n bs = .ok (vs, r) →
      slotsAll wide vs = n ∧ ∃ b, writeAll env el vs = some b ∧ b ++ r = bs := by
  intro N
  induction N with
  | zero =>
    intro n hn bs vs r _ h
    have : n = 0 := by omega
    subst this
    simp [readSlots] at h
    obtain ⟨rfl, rfl⟩ := h
    exact ⟨rfl, [], rfl, rfl⟩
  | succ N ih =>
    intro n hn bs vs r hb h
    cases n with
    | zero =>
      simp [readSlots] at h
      obtain ⟨rfl, rfl⟩ := h
      exact ⟨rfl, [], rfl, rfl⟩
    | succ n =>
      simp only [readSlots] at h
      cases h1 : rd bs with
      | ok x =>
        obtain ⟨v, bs1⟩ := x
        rw [h1] at h; simp only [Res.bind_ok] at h
        obtain ⟨a, ha, hea⟩ := hrd bs v bs1 hb h1
        -- the recursive call, on `m` slots
        have step : ∀ m, m ≤ N → ∀ (y : Res (List Val × Bytes)), y = readSlots wide rd m bs1 →
            (y.bind fun (vs, r) => Res.ok (v :: vs, r)) = .ok (vs, r) →
            ∃ ws, vs = v :: ws ∧ slotsAll wide ws = m ∧ ∃ b, writeAll env el (v :: ws) = some b ∧ b ++ r = bs := by
          intro m hm y hy hbind
          cases h2 : readSlots wide rd m bs1 with
          | ok z =>
            obtain ⟨ws, r2⟩ := z
            rw [hy, h2] at hbind; simp at hbind
            obtain ⟨rfl, rfl⟩ := hbind
            obtain ⟨hs, w, hw, hew⟩ := ih m hm bs1 ws r2 (hb.suffix hea) h2
            refine ⟨ws, rfl, hs, a ++ w, by simp [writeAll, ha, hw], ?_⟩
            rw [List.append_assoc, hew, hea]
          | err => rw [hy, h2] at hbind; cases hbind
          | panic => rw [hy, h2] at hbind; cases hbind
          | fuel => rw [hy, h2] at hbind; cases hbind
        cases hwd : isWide wide v with
        | true =>
          simp only [hwd, if_true] at h
          cases n with
          | zero => cases h
          | succ m =>
            obtain ⟨ws, rfl, hs, hb'⟩ := step m (by omega) _ rfl h
            exact ⟨by simp [slotsAll, slotsV, hwd, hs]; omega, hb'⟩
        | false =>
          simp only [hwd] at h
          obtain ⟨ws, rfl, hs, hb'⟩ := step n (by omega) _ rfl (by simpa using h)
          exact ⟨by simp [slotsAll, slotsV, hwd, hs]; omega, hb'⟩
      | err => rw [h1] at h; cases h
      | panic => rw [h1] at h; cases h
      | fuel => rw [h1] at h; cases h

theorem readTy_wr (env : Env) (rc : Rec) (hrc : RecWR env rc) : ∀ (ty : Ty) (pool : Pool) (binds : Binds)
    (bs : Bytes) (v : Val) (r : Bytes), IsBytes bs → readTy rc pool binds ty bs = .ok (v, r) →
    ∃ b, writeV env ty v = some b ∧ b ++ r = bs := by
  intro ty
  induction ty with
  | prim p =>
    intro pool binds bs v r hb h
    simp only [readTy] at h
    split at h
    · rename_i n r1 ht
      simp at h; obtain ⟨rfl, rfl⟩ := h
      obtain ⟨hlt, he⟩ := be_takeBE p bs r1 n hb ht
      exact ⟨be p n, by simp [writeV, hlt], he⟩
    · cases h
  | vecCnt c el ih =>
    intro pool binds bs v r hb h
    simp only [readTy] at h
    split at h
    · rename_i n r1 ht
      obtain ⟨hlt, he⟩ := be_takeBE c bs r1 n hb ht
      cases h2 : readN (readTy rc pool binds el) n r1 with
      | ok y =>
        obtain ⟨vs, r2⟩ := y
        rw [h2] at h; simp at h
        obtain ⟨rfl, rfl⟩ := h
        obtain ⟨hl, w, hw, hew⟩ := readN_wr env el _ (fun bs v r hb h => ih pool binds bs v r hb h) n r1 vs r2 (hb.suffix he) h2
        refine ⟨be c n ++ w, by simp [writeV, hw, hl, Nat.mod_eq_of_lt hlt], ?_⟩
        rw [List.append_assoc, hew, he]
      | err => rw [h2] at h; cases h
      | panic => rw [h2] at h; cases h
      | fuel => rw [h2] at h; cases h
    · cases h
  | vecLen e el ih =>
    intro pool binds bs v r hb h
    simp only [readTy] at h
    split at h
    · rename_i n hn
      cases h2 : readN (readTy rc pool binds el) n bs with
      | ok y =>
        obtain ⟨vs, r2⟩ := y
        rw [h2] at h; simp at h
        obtain ⟨rfl, rfl⟩ := h
        obtain ⟨_, w, hw, hew⟩ := readN_wr env el _ (fun bs v r hb h => ih pool binds bs v r hb h) n bs vs r2 hb h2
        exact ⟨w, by simp [writeV, hw], hew⟩
      | err => rw [h2] at h; cases h
      | panic => rw [h2] at h; cases h
      | fuel => rw [h2] at h; cases h
    · cases h
  | vecSlots e wd el ih =>
    intro pool binds bs v r hb h
    simp only [readTy] at h
    split at h
    · rename_i n hn
      cases h2 : readSlots wd (readTy rc pool binds el) n bs with
      | ok y =>
        obtain ⟨vs, r2⟩ := y
        rw [h2] at h; simp at h
        obtain ⟨rfl, rfl⟩ := h
        obtain ⟨_, w, hw, hew⟩ :=
          readSlots_wr env wd el _ (fun bs v r hb h => ih pool binds bs v r hb h) n n (Nat.le_refl _) bs vs r2 hb h2
        exact ⟨w, by simp [writeV, hw], hew⟩
      | err => rw [h2] at h; cases h
      | panic => rw [h2] at h; cases h
      | fuel => rw [h2] at h; cases h
    · cases h
  | ref id =>
    intro pool binds bs v r hb h
    exact hrc id pool bs v r hb h

theorem readFields_wr (env : Env) (rc : Rec) (hrc : RecWR env rc) : ∀ (fds : List Field) (pool : Pool) (binds : Binds)
    (bs : Bytes) (vs : List Val) (tr : List Nat) (r : Bytes), IsBytes bs →
    readFields rc pool binds fds bs = .ok (vs, tr, r) →
    ∀ (tl : Option Nat) (ctx : List (Nat × Val)), constVals tl ctx (allPost fds) = some tr →
      ∃ w, writeFields env tl ctx fds vs = some w ∧ w ++ r = bs := by
  intro fds
  induction fds with
  | nil =>
    intro pool binds bs vs tr r _ h tl ctx _
    simp [readFields] at h
    obtain ⟨rfl, _, rfl⟩ := h
    exact ⟨[], rfl, rfl⟩
  | cons f fds ih =>
    intro pool binds bs vs tr r hb h tl ctx hcv
    simp only [readFields] at h
    split at h
    · -- field
      rename_i ty sp hk
      cases h1 : readTy rc pool binds ty bs with
      | ok x =>
        obtain ⟨v, bs1⟩ := x
        rw [h1] at h; simp only [Res.bind_ok] at h
        obtain ⟨a, ha, hea⟩ := readTy_wr env rc hrc ty pool binds bs v bs1 hb h1
        have hb1 := hb.suffix hea
        cases h2 : readConsts (bindVal f.name v binds) f.post bs1 with
        | ok y =>
          obtain ⟨binds2, t1, bs2⟩ := y
          rw [h2] at h; simp only [Res.bind_ok] at h
          obtain ⟨hec, hl1⟩ := readConsts_enc f.post _ binds2 bs1 bs2 t1 hb1 h2
          have hb2 := hb1.suffix hec
          cases h3 : readFields rc (poolAfter sp v pool) binds2 fds bs2 with
          | ok z =>
            obtain ⟨ws, t2, r3⟩ := z
            rw [h3] at h; simp at h
            obtain ⟨rfl, rfl, rfl⟩ := h
            simp only [allPost] at hcv
            obtain ⟨hc1, hc2⟩ := constVals_split tl ctx f.post (allPost fds) t1 t2 hl1 hcv
            obtain ⟨w, hw, hew⟩ := ih _ binds2 bs2 ws t2 r3 hb2 h3 tl ctx hc2
            refine ⟨a ++ (encConsts f.post t1 ++ w), ?_, ?_⟩
            · simp [writeFields, hk, ha, writeConsts_of_vals tl ctx f.post t1 hc1, hw]
            · rw [List.append_assoc, List.append_assoc, hew, hec, hea]
          | err => rw [h3] at h; cases h
          | panic => rw [h3] at h; cases h
          | fuel => rw [h3] at h; cases h
        | err => rw [h2] at h; cases h
        | panic => rw [h2] at h; cases h
        | fuel => rw [h2] at h; cases h
      | err => rw [h1] at h; cases h
      | panic => rw [h1] at h; cases h
      | fuel => rw [h1] at h; cases h
    · -- nowrite
      rename_i p e hk
      split at h
      · cases h
      · rename_i n hn
        cases h2 : readConsts ((f.name, n) :: binds) f.post bs with
        | ok y =>
          obtain ⟨binds2, t1, bs2⟩ := y
          rw [h2] at h; simp only [Res.bind_ok] at h
          obtain ⟨hec, hl1⟩ := readConsts_enc f.post _ binds2 bs bs2 t1 hb h2
          have hb2 := hb.suffix hec
          cases h3 : readFields rc pool binds2 fds bs2 with
          | ok z =>
            obtain ⟨ws, t2, r3⟩ := z
            rw [h3] at h; simp at h
            obtain ⟨rfl, rfl, rfl⟩ := h
            simp only [allPost] at hcv
            obtain ⟨hc1, hc2⟩ := constVals_split tl ctx f.post (allPost fds) t1 t2 hl1 hcv
            obtain ⟨w, hw, hew⟩ := ih _ binds2 bs2 ws t2 r3 hb2 h3 tl ctx hc2
            refine ⟨encConsts f.post t1 ++ w, ?_, ?_⟩
            · simp [writeFields, hk, writeConsts_of_vals tl ctx f.post t1 hc1, hw]
            · rw [List.append_assoc, hew, hec]
          | err => rw [h3] at h; cases h
          | panic => rw [h3] at h; cases h
          | fuel => rw [h3] at h; cases h
        | err => rw [h2] at h; cases h
        | panic => rw [h2] at h; cases h
        | fuel => rw [h2] at h; cases h

end RawLayout
