import FeatherModel.Lemmas.ClassWriteFullCodeInsnPool
import FeatherModel.Lemmas.ClassWriteFullCodeResolve

/-!
# C02 (whole writer) — the instruction list of `write_code`: the pool puts of all instructions and the legality of the
code array's layout
-/

namespace ClassWriteFull
open PoolWrite (Entry)
open FramePool (Good Le)
open ClassRead ClassRead.Spec

/-- the syntactic size bound of a tree instruction: the longest encoding the writer has for it -/
def maxSizeR (ri : ClassRead.Insn) : Nat :=
  match cw 0 ri with
  | some i => maxSize i
  | none => 0

theorem cw_maxSize {cp : Nat} {ri : ClassRead.Insn} {i : CodeWrite.Insn} (h : cw cp ri = some i) : maxSize i = maxSizeR ri := by
  cases ri with
  | branch op t =>
    simp only [cw, Option.map_eq_some_iff] at h
    obtain ⟨c, hc, rfl⟩ := h
    simp [maxSizeR, cw, hc, maxSize]
  | _ => cases h; rfl

theorem maxSizeR_mapT (f : Nat → Nat) (ri : ClassRead.Insn) : maxSizeR (mapT f ri) = maxSizeR ri := by
  cases ri with
  | branch op t => simp only [mapT, maxSizeR, cw]; cases condOfOp op <;> rfl
  | tableswitch d lo hi tbl => simp [mapT, maxSizeR, cw, maxSize]
  | lookupswitch d ps => simp [mapT, maxSizeR, cw, maxSize]
  | _ => rfl

theorem CwAll.sizes {rcs : List (ClassRead.Insn × Nat)} {is : List CodeWrite.Insn} (h : CwAll rcs is) :
    (is.map maxSize).sum = (rcs.map fun x => maxSizeR x.1).sum := by
  induction h with
  | nil => rfl
  | cons h1 _ ih => simp [ih, cw_maxSize h1]

/-- **the pool puts of all instructions** -/
theorem putInsns_spec {lab : Nat → Nat} : ∀ (es : List InsnEntry) {p p' : Pool} {bs bs' : List Bsm} {is : List CodeWrite.Insn},
    Good p → BsOk bs → (∀ e ∈ es, insnOk e.insn) → putInsns lab p bs es = .ok (is, p', bs') →
    (Step p p' ∧ BsExt bs bs' ∧ BsOk bs') ∧ ∃ rcs : List (ClassRead.Insn × Nat), rcs.map (·.1) = es.map (fun e => mapT lab e.insn) ∧
      CwAll rcs is ∧ (∀ x ∈ rcs, x.2 < 65536) ∧
      (∀ e ∈ es, ∀ op t, e.insn = .branch op t → isCondBranchOp op = true) ∧
      ∀ x ∈ rcs, Sound2 p' bs' (fun rp bsms => poolPart rp bsms x.2 x.1)
  | [], p, p', bs, bs', is, hg, hb, _, h => by
    have := ok_inj.mp h
    simp only [Prod.mk.injEq] at this
    obtain ⟨rfl, rfl, rfl⟩ := this
    exact ⟨⟨Step.refl hg, BsExt.refl _, hb⟩, [], rfl, CwAll.nil, by simp, by simp, by simp⟩
  | e :: es, p, p', bs, bs', is, hg, hb, hok, h => by
    obtain ⟨⟨i, p1, bs1⟩, h1, h⟩ := bind_eq_ok.mp h
    obtain ⟨⟨is', p2, bs2⟩, h2, h⟩ := bind_eq_ok.mp h
    have := pure_eq_ok.mp h
    simp only [Prod.mk.injEq] at this
    obtain ⟨rfl, rfl, rfl⟩ := this
    obtain ⟨⟨s1, e1, o1⟩, cp, hcw, hcp, hbr, hsd⟩ := putInsn_spec hg hb (hok e List.mem_cons_self) h1
    obtain ⟨⟨s2, e2, o2⟩, rcs, hm, hall, hcps, hbrs, hsds⟩ := putInsns_spec es s1.good o1
      (fun x hx => hok x (List.mem_cons_of_mem _ hx)) h2
    refine ⟨⟨s1.trans s2, e1.trans e2, o2⟩, (mapT lab e.insn, cp) :: rcs, by simp [hm], CwAll.cons hcw hall, ?_, ?_, ?_⟩
    · intro x hx
      rcases List.mem_cons.mp hx with rfl | hx
      · exact hcp
      · exact hcps x hx
    · intro x hx
      rcases List.mem_cons.mp hx with rfl | hx
      · exact hbr
      · exact hbrs x hx
    · intro x hx
      rcases List.mem_cons.mp hx with rfl | hx
      · exact hsd.mono s2.le e2
      · exact hsds x hx

theorem sinsnsOf_length (rcs : List (ClassRead.Insn × Nat)) : (sinsnsOf rcs).length = rcs.length := by simp [sinsnsOf]

theorem sinsnsOf_getElem (rcs : List (ClassRead.Insn × Nat)) (i : Nat) (h : i < (sinsnsOf rcs).length) :
    (sinsnsOf rcs)[i] = sinsnOf (rcs[i]'(by simpa [sinsnsOf] using h)).2 (rcs[i]'(by simpa [sinsnsOf] using h)).1 := by
  simp [sinsnsOf]

theorem inI16_relOff {pos : Nat → Nat} {a t : Nat} (ha : a ≤ 32767) (ht : pos t ≤ 32767) : inI16 (relOff pos a t) := by
  unfold inI16 relOff
  omega

/-- the code array's layout is legal: every instruction by `sinsn_legal`, offsets within 16 bits because the code is at
most 32767 bytes long -/
theorem code_legal {rp : ClassRead.Pool} {bsms : Option (List ClassRead.Bsm)} {rcs : List (ClassRead.Insn × Nat)}
    (hpos : 0 < codePos (sinsnsOf rcs) rcs.length) (hsmall : codePos (sinsnsOf rcs) rcs.length ≤ 32767)
    (hok : ∀ x ∈ rcs, insnOk x.1 ∧ (∀ op t, x.1 = .branch op t → isCondBranchOp op = true) ∧ x.2 < 65536 ∧
      poolPart rp bsms x.2 x.1 ∧ ∀ t ∈ targetsOf x.1, t < rcs.length) :
    CodeLegal rp bsms (sinsnsOf rcs) := by
  have hlen := sinsnsOf_length rcs
  refine ⟨?_, by rw [hlen]; omega, ?_⟩
  · rw [hlen]
    cases rcs with
    | nil => simp [sinsnsOf, codePos, endPos] at hpos
    | cons _ _ => simp
  · intro i hi
    rw [sinsnsOf_getElem rcs i hi]
    have hi' : i < rcs.length := by omega
    obtain ⟨h1, h2, h3, h4, h5⟩ := hok rcs[i] (List.getElem_mem hi')
    have hposi : codePos (sinsnsOf rcs) i ≤ 32767 := by
      have := codePos_le_end (sinsnsOf rcs) i (by omega)
      rw [hlen] at this
      omega
    refine sinsn_legal h1 h2 h3 h4 (fun t ht => ⟨by rw [hlen]; exact h5 t ht, inI16_relOff hposi ?_⟩)
    have := codePos_le_end (sinsnsOf rcs) t (by have := h5 t ht; omega)
    rw [hlen] at this
    omega

end ClassWriteFull
