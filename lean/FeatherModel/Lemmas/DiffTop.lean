import FeatherModel.Lemmas.DiffLevels

/-!
# `diff` then `apply` for whole mapping sets; the Boolean content equality of the driver follows from the propositional one
-/

deriving instance ReflBEq for Param
deriving instance ReflBEq for Field

namespace DiffModel
open AList

/-- `get_namespace` of the second of two different names -/
theorem getNamespace_second {m : Mappings} {n0 n1 : JStr} (h : m.ns = [n0, n1]) (hne : n0 ≠ n1) :
    m.getNamespace n1 = some 1 := by
  unfold Mappings.getNamespace
  rw [h]
  simp [Mappings.getNamespace.go, hne]

theorem csrc_of_paramSrcless {a b : Mappings} (h : ParamSrcless a b) {k : JStr} {cb : Class}
    (hb : (k, cb) ∈ b.classes) :
    CSrc (match lookup k a.classes with
      | some ca => ca.methods
      | none => []) cb := by
  intro m hm p hp
  have := h (k, cb) hb m hm p hp
  simp only [methodParams] at this
  cases hla : lookup k a.classes with
  | none =>
    rw [hla] at this
    simpa [lookup] using this
  | some ca =>
    rw [hla] at this
    simp only at this ⊢
    cases hlm : lookup m.1 ca.methods with
    | none => rw [hlm] at this; simpa [lookup] using this
    | some ma =>
      rw [hlm] at this
      simp only at this ⊢
      cases hlp : lookup p.1 ma.params <;> rw [hlp] at this <;> simpa using this

/-- **`diff` then `apply`** on the proved domain, propositional form -/
theorem diff_apply_eqv {a b : Mappings} {d : Diff} {n0 n1 : JStr} (wa : WF a) (wb : WF b)
    (hns : a.ns = [n0, n1]) (hne : n0 ≠ n1) (hsrc : ParamSrcless a b) (hd : diff a b = some d) :
    ∃ r, applyTo d a n1 = some r ∧ MappingsEqv r b := by
  obtain ⟨hna, wca⟩ := wa
  obtain ⟨hnb, wcb⟩ := wb
  unfold diff at hd
  have hla : a.ns.length = 2 := by rw [hns]; rfl
  by_cases hl : a.ns.length ≠ 2 ∨ b.ns.length ≠ 2
  · simp [hl] at hd
  · simp only [hl, if_false] at hd
    by_cases hab : a.ns ≠ b.ns
    · simp [hab] at hd
    · simp only [hab, if_false] at hd
      have hab' : a.ns = b.ns := Classical.not_not.mp hab
      have hlb : b.ns.length = 2 := by rw [← hab']; exact hla
      cases hz : zipMap diffClass a.classes b.classes with
      | none => rw [hz] at hd; simp at hd
      | some cs =>
        rw [hz] at hd
        simp only [Option.some.injEq] at hd
        subst hd
        obtain ⟨res, hres, hrel⟩ := diff_apply_map classOps 1 2 (applyClass 1 2) diffClass ClassEqv hna hnb
          (by
            intro k ca cb dd hlka hlkb hdd
            have wA := wca _ (mem_of_lookup hlka)
            have wB := wcb _ (mem_of_lookup hlkb)
            rw [hla] at wA
            rw [hlb] at wB
            have hs := csrc_of_paramSrcless hsrc (mem_of_lookup hlkb)
            simp only [hlka] at hs
            exact class_AB wA wB hs hdd)
          (by
            intro k ca dd hlka _ hdd
            have wA := wca _ (mem_of_lookup hlka)
            rw [hla] at wA
            exact class_A wA.1 hdd)
          (by
            intro k cb dd hlka hlkb hdd
            have wB := wcb _ (mem_of_lookup hlkb)
            rw [hlb] at wB
            have hs := csrc_of_paramSrcless hsrc (mem_of_lookup hlkb)
            simp only [hlka] at hs
            exact class_B wB hs hdd)
          hz
        refine ⟨{ ns := a.ns, doc := b.doc, classes := res }, ?_, ?_⟩
        · unfold applyTo
          rw [getNamespace_second hns hne]
          simp only [applyAt, applyInfo, genDiffDoc_AB, hla, hres]
        · exact ⟨hab', rfl, hrel⟩

/-! ## the Boolean content equality (what the oracles evaluate) follows -/

theorem eqvMap_of_rel {K V : Type} [BEq K] [LawfulBEq K] {R : V → V → Prop} {r : V → V → Bool}
    (hr : ∀ x y, R x y → r x y = true) {a b : AList K V} (h : ∀ k, OptRel R (lookup k a) (lookup k b)) :
    eqvMap r a b = true := by
  unfold eqvMap
  rw [List.all_eq_true]
  intro k _
  have := h k
  cases ha : lookup k a <;> cases hb : lookup k b <;> simp_all [OptRel]

theorem optRel_of_eq {T : Type} {x y : Option T} (h : x = y) : OptRel (fun a b => a = b) x y := by
  subst h; cases x <;> simp [OptRel]

theorem eqvMethod_of {m' mb : Method} (h : MethodEqv m' mb) : eqvMethod m' mb = true := by
  obtain ⟨h1, h2, h3, h4⟩ := h
  unfold eqvMethod
  simp only [h1, h2, h3, beq_self_eq_true, Bool.true_and]
  exact eqvMap_of_rel (R := fun a b => a = b) (by intro x y e; subst e; exact BEq.rfl) (fun k => optRel_of_eq (h4 k))

theorem eqvClass_of {c' cb : Class} (h : ClassEqv c' cb) : eqvClass c' cb = true := by
  obtain ⟨h1, h2, h3, h4⟩ := h
  unfold eqvClass
  simp only [h1, h2, beq_self_eq_true, Bool.true_and, Bool.and_eq_true]
  exact ⟨eqvMap_of_rel (R := fun a b => a = b) (by intro x y e; subst e; exact BEq.rfl) (fun k => optRel_of_eq (h3 k)),
    eqvMap_of_rel (fun _ _ => eqvMethod_of) h4⟩

theorem eqvMappings_of {r b : Mappings} (h : MappingsEqv r b) : eqvMappings r b = true := by
  obtain ⟨h1, h2, h3⟩ := h
  unfold eqvMappings
  simp only [h1, h2, beq_self_eq_true, Bool.true_and]
  exact eqvMap_of_rel (fun _ _ => eqvClass_of) h3

end DiffModel
