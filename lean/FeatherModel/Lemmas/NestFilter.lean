import FeatherModel.Lemmas.NestNames

/-!
# C14 lemmas: the filter closure of `nest_jar` against its state-free specification
-/

namespace Nest

/-- the state reached after the closure ran over `older` (most recent first) agrees with the specification -/
structure StateOk (names : List JStr) (older : List Nest) (st : FState) : Prop where
  present : ∀ c, st.inJar.contains c = presentRev names older c
  inJarEq : st.inJar = names ++ st.created

theorem stateOk_init (names : List JStr) : StateOk names [] { inJar := names, created := [], kept := [] } :=
  ⟨fun _ => rfl, by simp⟩

theorem contains_append_singleton (l : List JStr) (a c : JStr) :
    (l ++ [a]).contains c = (l.contains c || c == a) := by
  simp [List.contains_eq_mem, List.mem_append]
  by_cases h : c = a <;> simp [h]

theorem mem_of_contains {l : List JStr} {c : JStr} (h : l.contains c = true) : c ∈ l := by
  simpa using h

theorem contains_of_mem {l : List JStr} {c : JStr} (h : c ∈ l) : l.contains c = true := by
  simpa using h

theorem filterStep_absent (mm : AList JStr (List (JStr × JStr))) (st : FState) (n : Nest)
    (h : st.inJar.contains n.className = false) : filterStep mm st n = st := by
  unfold filterStep
  rw [if_neg (by rw [h]; exact Bool.false_ne_true)]

theorem filterStep_present (mm : AList JStr (List (JStr × JStr))) (st : FState) (n : Nest)
    (h : st.inJar.contains n.className = true) :
    filterStep mm st n =
      if kindRule mm n = true then { synthEncl st n with kept := (synthEncl st n).kept ++ [n] } else synthEncl st n := by
  unfold filterStep
  rw [if_pos h]

theorem synthEncl_kept (st : FState) (n : Nest) : (synthEncl st n).kept = st.kept := by
  unfold synthEncl
  split <;> rfl

theorem synthEncl_there (st : FState) (n : Nest) (h : st.inJar.contains n.enclClass = true) : synthEncl st n = st := by
  unfold synthEncl
  rw [if_pos h]

theorem synthEncl_missing (st : FState) (n : Nest) (h : st.inJar.contains n.enclClass = false)
    (he : ∃ names, st.inJar = names ++ st.created) :
    synthEncl st n = { st with inJar := st.inJar ++ [n.enclClass], created := st.created ++ [n.enclClass] } := by
  obtain ⟨names, he⟩ := he
  have hnc : st.created.contains n.enclClass = false := by
    cases hcc : st.created.contains n.enclClass with
    | false => rfl
    | true =>
      have : n.enclClass ∈ st.inJar := by rw [he]; exact List.mem_append_right _ (mem_of_contains hcc)
      rw [contains_of_mem this] at h
      exact Bool.noConfusion h
  unfold synthEncl
  rw [if_neg (by rw [h]; exact Bool.false_ne_true), if_neg (by rw [hnc]; exact Bool.false_ne_true)]

theorem stateOk_synth {names : List JStr} {older : List Nest} {st : FState} (h : StateOk names older st) (n : Nest)
    (h1 : st.inJar.contains n.className = true) : StateOk names (n :: older) (synthEncl st n) := by
  obtain ⟨hp, he⟩ := h
  cases h2 : st.inJar.contains n.enclClass with
  | true =>
    rw [synthEncl_there st n h2]
    refine ⟨?_, he⟩
    intro c
    simp only [presentRev]
    rw [← hp, ← hp, h1, Bool.and_true]
    by_cases hc : c = n.enclClass
    · subst hc; rw [h2]; rfl
    · rw [beq_false_of_ne hc, Bool.or_false]
  | false =>
    rw [synthEncl_missing st n h2 ⟨names, he⟩]
    refine ⟨?_, ?_⟩
    · intro c
      show (st.inJar ++ [n.enclClass]).contains c = _
      rw [contains_append_singleton]
      simp only [presentRev]
      rw [← hp, ← hp, h1, Bool.and_true]
    · show st.inJar ++ [n.enclClass] = names ++ (st.created ++ [n.enclClass])
      rw [he, List.append_assoc]

theorem stateOk_step {names : List JStr} {mm : AList JStr (List (JStr × JStr))} {older : List Nest} {st : FState}
    (h : StateOk names older st) (n : Nest) : StateOk names (n :: older) (filterStep mm st n) := by
  cases h1 : st.inJar.contains n.className with
  | false =>
    rw [filterStep_absent mm st n h1]
    refine ⟨?_, h.inJarEq⟩
    intro c
    simp only [presentRev]
    rw [← h.present, ← h.present, h1, Bool.and_false, Bool.or_false]
  | true =>
    rw [filterStep_present mm st n h1]
    have := stateOk_synth h n h1
    split
    · exact ⟨this.present, this.inJarEq⟩
    · exact this

theorem filterStep_kept {names : List JStr} {mm : AList JStr (List (JStr × JStr))} {older : List Nest} {st : FState}
    (h : StateOk names older st) (n : Nest) :
    (filterStep mm st n).kept =
      st.kept ++ (if presentRev names older n.className && kindRule mm n then [n] else []) := by
  rw [← h.present]
  cases h1 : st.inJar.contains n.className with
  | false => rw [filterStep_absent mm st n h1]; simp
  | true =>
    rw [filterStep_present mm st n h1]
    cases hk : kindRule mm n with
    | false => simp [synthEncl_kept]
    | true => simp [synthEncl_kept]

theorem filterStep_created {names : List JStr} {mm : AList JStr (List (JStr × JStr))} {older : List Nest} {st : FState}
    (h : StateOk names older st) (n : Nest) :
    (filterStep mm st n).created =
      st.created ++ (if presentRev names older n.className && !presentRev names older n.enclClass then [n.enclClass] else []) := by
  rw [← h.present, ← h.present]
  cases h1 : st.inJar.contains n.className with
  | false => rw [filterStep_absent mm st n h1]; simp
  | true =>
    rw [filterStep_present mm st n h1]
    have hc : (if kindRule mm n = true then { synthEncl st n with kept := (synthEncl st n).kept ++ [n] } else synthEncl st n).created
        = (synthEncl st n).created := by split <;> rfl
    rw [hc]
    cases h2 : st.inJar.contains n.enclClass with
    | true => rw [synthEncl_there st n h2]; simp
    | false => rw [synthEncl_missing st n h2 ⟨names, h.inJarEq⟩]; simp

theorem foldl_filterStep_spec (names : List JStr) (mm : AList JStr (List (JStr × JStr))) :
    ∀ (todo : Nests) (older : List Nest) (st : FState), StateOk names older st →
      (todo.foldl (filterStep mm) st).kept = st.kept ++ keptSpecGo names mm older todo ∧
      (todo.foldl (filterStep mm) st).created = st.created ++ createdSpecGo names older todo ∧
      StateOk names (todo.reverse ++ older) (todo.foldl (filterStep mm) st) := by
  intro todo
  induction todo with
  | nil => intro older st h; simp [keptSpecGo, createdSpecGo, h]
  | cons n rest ih =>
    intro older st h
    simp only [List.foldl_cons, keptSpecGo, createdSpecGo]
    obtain ⟨h1, h2, h3⟩ := ih (n :: older) (filterStep mm st n) (stateOk_step h n)
    refine ⟨?_, ?_, ?_⟩
    · rw [h1, filterStep_kept h, List.append_assoc]
    · rw [h2, filterStep_created h, List.append_assoc]
    · simpa using h3

theorem filterRun_spec (jar : Jar) (ns : Nests) :
    (filterRun jar ns).kept = keptSpec jar ns ∧ (filterRun jar ns).created = createdSpec jar ns ∧
    StateOk (jarNames jar) ns.reverse (filterRun jar ns) := by
  have := foldl_filterStep_spec (jarNames jar) (methodsMap (classesOf jar)) ns [] _ (stateOk_init (jarNames jar))
  simpa [filterRun, keptSpec, createdSpec, jarNames] using this

/-! ## consequences -/

theorem presentRev_mono (names : List JStr) (m : Nest) (older : List Nest) (c : JStr)
    (h : presentRev names older c = true) : presentRev names (m :: older) c = true := by
  simp [presentRev, h]

/-- present = in the jar, or the enclosing class of an earlier nest -/
theorem presentRev_cases (names : List JStr) : ∀ (older : List Nest) (c : JStr), presentRev names older c = true →
    names.contains c = true ∨ ∃ m ∈ older, m.enclClass = c := by
  intro older
  induction older with
  | nil => intro c h; exact Or.inl h
  | cons m rest ih =>
    intro c h
    simp only [presentRev, Bool.or_eq_true, Bool.and_eq_true, beq_iff_eq] at h
    rcases h with h | ⟨h, _⟩
    · rcases ih c h with h | ⟨m', hm', e⟩
      · exact Or.inl h
      · exact Or.inr ⟨m', List.mem_cons_of_mem _ hm', e⟩
    · exact Or.inr ⟨m, List.mem_cons_self, h.symm⟩

theorem presentRev_of_names (names : List JStr) : ∀ (older : List Nest) (c : JStr), names.contains c = true →
    presentRev names older c = true := by
  intro older
  induction older with
  | nil => intro c h; exact h
  | cons m rest ih => intro c h; exact presentRev_mono names m rest c (ih c h)

/-- on tables in which no listed class has to be synthesised, `keptSpecGo` is a plain filter -/
theorem keptSpecGo_eq_filter (names : List JStr) (mm : AList JStr (List (JStr × JStr))) (all : Nests)
    (hall : ∀ n ∈ all, names.contains n.className = true ∨ ∀ m ∈ all, m.enclClass ≠ n.className) :
    ∀ (todo : Nests) (older : List Nest), (∀ n ∈ todo, n ∈ all) → (∀ n ∈ older, n ∈ all) →
      keptSpecGo names mm older todo = todo.filter (fun n => names.contains n.className && kindRule mm n) := by
  intro todo
  induction todo with
  | nil => intro older _ _; rfl
  | cons n rest ih =>
    intro older h1 h2
    have hn : n ∈ all := h1 n List.mem_cons_self
    have hp : presentRev names older n.className = names.contains n.className := by
      cases hc : names.contains n.className with
      | true => exact presentRev_of_names names older _ hc
      | false =>
        cases hpr : presentRev names older n.className with
        | false => rfl
        | true =>
          exfalso
          rcases presentRev_cases names older _ hpr with h | ⟨m, hm, e⟩
          · rw [hc] at h; exact Bool.noConfusion h
          · rcases hall n hn with h | h
            · rw [hc] at h; exact Bool.noConfusion h
            · exact h m (h2 m hm) e
    simp only [keptSpecGo, hp, List.filter_cons]
    rw [ih (n :: older) (fun x hx => h1 x (List.mem_cons_of_mem _ hx))
      (fun x hx => by rcases List.mem_cons.mp hx with rfl | hx; exact hn; exact h2 x hx)]
    split <;> simp

/-- the synthesised classes are not in the jar, are enclosing classes of listed nests, and are created once -/
theorem createdSpecGo_mem (names : List JStr) : ∀ (todo : Nests) (older : List Nest) (c : JStr),
    c ∈ createdSpecGo names older todo →
    presentRev names older c = false ∧ ∃ n ∈ todo, n.enclClass = c := by
  intro todo
  induction todo with
  | nil => intro older c h; simp [createdSpecGo] at h
  | cons n rest ih =>
    intro older c h
    simp only [createdSpecGo, List.mem_append] at h
    rcases h with h | h
    · split at h
      · rename_i hcond
        simp only [List.mem_singleton] at h
        subst h
        simp only [Bool.and_eq_true, Bool.not_eq_true'] at hcond
        exact ⟨hcond.2, n, List.mem_cons_self, rfl⟩
      · simp at h
    · obtain ⟨hp, m, hm, e⟩ := ih (n :: older) c h
      refine ⟨?_, m, List.mem_cons_of_mem _ hm, e⟩
      cases hpo : presentRev names older c with
      | false => rfl
      | true => rw [presentRev_mono names n older c hpo] at hp; exact Bool.noConfusion hp

theorem presentRev_mono_append (names : List JStr) (older : List Nest) (c : JStr) (h : presentRev names older c = true) :
    ∀ l : List Nest, presentRev names (l ++ older) c = true := by
  intro l
  induction l with
  | nil => exact h
  | cons m rest ih => exact presentRev_mono names m (rest ++ older) c ih

/-- an applied nest was listed, passes the rule of its kind, and at the end its class and its enclosing class are present -/
theorem keptSpecGo_mem (names : List JStr) (mm : AList JStr (List (JStr × JStr))) : ∀ (todo : Nests) (older : List Nest) (n : Nest),
    n ∈ keptSpecGo names mm older todo →
    n ∈ todo ∧ kindRule mm n = true ∧ presentRev names (todo.reverse ++ older) n.className = true ∧
      presentRev names (todo.reverse ++ older) n.enclClass = true := by
  intro todo
  induction todo with
  | nil => intro older n h; simp [keptSpecGo] at h
  | cons x rest ih =>
    intro older n h
    simp only [keptSpecGo, List.mem_append] at h
    have hrev : (x :: rest).reverse ++ older = rest.reverse ++ (x :: older) := by simp
    rw [hrev]
    rcases h with h | h
    · split at h
      · rename_i hc
        simp only [List.mem_singleton] at h
        subst h
        simp only [Bool.and_eq_true] at hc
        refine ⟨List.mem_cons_self, hc.2, ?_, ?_⟩
        · exact presentRev_mono_append names _ _ (presentRev_mono names n older _ hc.1) _
        · apply presentRev_mono_append
          simp [presentRev, hc.1]
      · simp at h
    · obtain ⟨h1, h2, h3, h4⟩ := ih (x :: older) n h
      exact ⟨List.mem_cons_of_mem _ h1, h2, h3, h4⟩

/-- `present` at the end of the run is: in the jar or synthesised -/
theorem present_final (jar : Jar) (ns : Nests) (c : JStr) :
    presentRev (jarNames jar) ns.reverse c = true ↔ c ∈ jarNames jar ∨ c ∈ createdSpec jar ns := by
  obtain ⟨_, h2, h3⟩ := filterRun_spec jar ns
  rw [← h3.present, ← h2, h3.inJarEq]
  simp [List.contains_eq_mem]

end Nest
