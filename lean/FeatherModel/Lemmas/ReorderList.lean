import FeatherModel.Model.Reorder
import FeatherModel.Lemmas.AList

/-!
# List-level lemmas for C08: position-wise relations, `mapOpt`, `buildMap`, association-list lookups
-/

namespace Reorder

/-- two lists of the same length are related position by position (entry order preserved) -/
inductive ListRel {α β : Type} (R : α → β → Prop) : List α → List β → Prop
  | nil : ListRel R [] []
  | cons {a b l l'} : R a b → ListRel R l l' → ListRel R (a :: l) (b :: l')

namespace ListRel
variable {α β γ : Type} {R : α → β → Prop}

theorem length_eq {l : List α} {l' : List β} (h : ListRel R l l') : l.length = l'.length := by
  induction h with
  | nil => rfl
  | cons _ _ ih => simp [ih]

theorem get {l : List α} {l' : List β} (h : ListRel R l l') :
    ∀ (i : Nat) (hi : i < l.length) (hi' : i < l'.length), R l[i] l'[i] := by
  induction h with
  | nil => intro i hi; simp at hi
  | cons hab _ ih =>
    intro i hi hi'
    cases i with
    | zero => exact hab
    | succ i => exact ih i (by simpa using hi) (by simpa using hi')

theorem of_get : ∀ {l : List α} {l' : List β}, l.length = l'.length →
    (∀ (i : Nat) (hi : i < l.length) (hi' : i < l'.length), R l[i] l'[i]) → ListRel R l l'
  | [], [], _, _ => .nil
  | [], _ :: _, h, _ => by simp at h
  | _ :: _, [], h, _ => by simp at h
  | a :: l, b :: l', h, hg =>
    .cons (hg 0 (by simp) (by simp))
      (of_get (by simpa using h) (fun i hi hi' => hg (i + 1) (by simpa using hi) (by simpa using hi')))

/-- the index-wise reading of `ListRel` -/
theorem iff_get {l : List α} {l' : List β} :
    ListRel R l l' ↔ l.length = l'.length ∧ ∀ (i : Nat) (hi : i < l.length) (hi' : i < l'.length), R l[i] l'[i] :=
  ⟨fun h => ⟨h.length_eq, h.get⟩, fun ⟨h1, h2⟩ => of_get h1 h2⟩

theorem imp_mem {S : α → β → Prop} {l : List α} {l' : List β} (h : ListRel R l l')
    (himp : ∀ a ∈ l, ∀ b ∈ l', R a b → S a b) : ListRel S l l' := by
  induction h with
  | nil => exact .nil
  | cons hab _ ih =>
    refine .cons (himp _ List.mem_cons_self _ List.mem_cons_self hab) (ih ?_)
    intro a ha b hb
    exact himp a (List.mem_cons_of_mem _ ha) b (List.mem_cons_of_mem _ hb)

theorem flip {l : List α} {l' : List β} (h : ListRel R l l') : ListRel (fun b a => R a b) l' l := by
  induction h with
  | nil => exact .nil
  | cons hab _ ih => exact .cons hab ih

theorem refl_mem {R : α → α → Prop} {l : List α} (h : ∀ a ∈ l, R a a) : ListRel R l l := by
  induction l with
  | nil => exact .nil
  | cons a l ih =>
    exact .cons (h a List.mem_cons_self) (ih (fun x hx => h x (List.mem_cons_of_mem _ hx)))

theorem mem_left {l : List α} {l' : List β} (h : ListRel R l l') {a : α} (ha : a ∈ l) : ∃ b ∈ l', R a b := by
  induction h with
  | nil => simp at ha
  | cons hab _ ih =>
    rcases List.mem_cons.mp ha with rfl | ha
    · exact ⟨_, List.mem_cons_self, hab⟩
    · obtain ⟨b, hb, hr⟩ := ih ha
      exact ⟨b, List.mem_cons_of_mem _ hb, hr⟩

/-- a functional relation determines the mapped list -/
theorem map_eq {f : α → γ} {g : β → γ} {l : List α} {l' : List β} (h : ListRel (fun a b => g b = f a) l l') :
    l'.map g = l.map f := by
  induction h with
  | nil => rfl
  | cons hab _ ih => simp [hab, ih]

theorem eq_of_eq {l l' : List α} (h : ListRel (fun a b => b = a) l l') : l' = l := by
  have := map_eq (f := fun a : α => a) (g := fun a : α => a) h
  simpa using this

theorem map_left {f : γ → α} {l : List γ} {l' : List β} :
    ListRel R (l.map f) l' ↔ ListRel (fun c b => R (f c) b) l l' := by
  constructor
  · intro h
    induction l generalizing l' with
    | nil => cases h; exact .nil
    | cons c l ih =>
      cases h with
      | cons hab hr => exact .cons hab (ih hr)
  · intro h
    induction h with
    | nil => exact .nil
    | cons hab _ ih => exact .cons hab ih

end ListRel

/-! ## `mapOpt` -/

theorem mapOpt_iff {α β : Type} {f : α → Option β} {l : List α} {l' : List β} :
    mapOpt f l = some l' ↔ ListRel (fun a b => f a = some b) l l' := by
  constructor
  · intro h
    induction l generalizing l' with
    | nil => simp [mapOpt] at h; subst h; exact .nil
    | cons a l ih =>
      simp only [mapOpt] at h
      cases hf : f a with
      | none => rw [hf] at h; simp at h
      | some b =>
        rw [hf] at h
        cases hr : mapOpt f l with
        | none => rw [hr] at h; simp at h
        | some bs =>
          rw [hr] at h
          simp only [Option.some.injEq] at h
          subst h
          exact .cons hf (ih hr)
  · intro h
    induction h with
    | nil => rfl
    | cons hab _ ih => simp [mapOpt, hab, ih]

/-! ## association lists -/

theorem contains_false_iff {K V : Type} [BEq K] [LawfulBEq K] {k : K} {m : AList K V} :
    AList.contains k m = false ↔ k ∉ AList.keys m := by
  induction m with
  | nil => simp [AList.contains, AList.lookup, AList.keys]
  | cons e rest ih =>
    obtain ⟨k0, v0⟩ := e
    simp only [AList.contains, AList.lookup, AList.keys, List.map_cons, List.mem_cons, not_or] at ih ⊢
    by_cases hk : (k0 == k) = true
    · have : k0 = k := by simpa using hk
      simp [this]
    · have hne : ¬ k0 = k := by simpa using hk
      simp only [hk]
      constructor
      · intro h
        exact ⟨fun h' => hne h'.symm, ih.mp h⟩
      · intro h
        exact ih.mpr h.2

theorem lookup_of_mem_nodup {K V : Type} [BEq K] [LawfulBEq K] {m : AList K V} {k : K} {v : V}
    (hnd : (AList.keys m).Nodup) (hmem : (k, v) ∈ m) : AList.lookup k m = some v := by
  induction m with
  | nil => simp at hmem
  | cons e rest ih =>
    obtain ⟨k0, v0⟩ := e
    simp only [AList.keys, List.map_cons, List.nodup_cons] at hnd
    simp only [AList.lookup]
    rcases List.mem_cons.mp hmem with h | h
    · cases h; simp
    · have hne : ¬ (k0 == k) = true := by
        intro hk
        have : k0 = k := by simpa using hk
        subst this
        exact hnd.1 (List.mem_map.mpr ⟨(k0, v), h, rfl⟩)
      simp only [hne]
      exact ih hnd.2 h

theorem lookup_none_of_not_mem {K V : Type} [BEq K] [LawfulBEq K] {m : AList K V} {k : K}
    (h : k ∉ AList.keys m) : AList.lookup k m = none := by
  have := contains_false_iff.mpr h
  simpa [AList.contains] using this

/-! ## `buildMap` = collect, then the keys must be pairwise different -/

theorem buildMap_iff_acc {K V W : Type} [BEq K] [LawfulBEq K] {mk : V → Option (K × W)} :
    ∀ (vs : List V) (acc r : AList K W), buildMap mk vs acc = some r ↔
      ∃ kvs, mapOpt mk vs = some kvs ∧ r = acc ++ kvs ∧ (∀ k ∈ AList.keys kvs, k ∉ AList.keys acc) ∧
        (AList.keys kvs).Nodup := by
  intro vs
  induction vs with
  | nil =>
    intro acc r
    simp only [buildMap, mapOpt, Option.some.injEq]
    constructor
    · intro h; subst h; exact ⟨[], rfl, by simp, by simp [AList.keys], by simp [AList.keys]⟩
    · rintro ⟨kvs, h1, h2, _, _⟩; subst h1; simp [h2]
  | cons v vs ih =>
    intro acc r
    simp only [buildMap, mapOpt]
    cases hmk : mk v with
    | none => simp
    | some kw =>
      obtain ⟨k, w⟩ := kw
      simp only [AList.insertNew]
      by_cases hc : AList.contains k acc = true
      · simp only [hc, if_true]
        constructor
        · intro h; simp at h
        · rintro ⟨kvs, h1, _, h3, _⟩
          exfalso
          cases hr : mapOpt mk vs with
          | none => rw [hr] at h1; simp at h1
          | some bs =>
            rw [hr] at h1
            simp only [Option.some.injEq] at h1
            subst h1
            have := h3 k (by simp [AList.keys])
            have hc' : AList.contains k acc = false := contains_false_iff.mpr this
            rw [hc] at hc'; simp at hc'
      · have hc' : AList.contains k acc = false := by simpa using hc
        have hk : k ∉ AList.keys acc := contains_false_iff.mp hc'
        simp only [hc', Bool.false_eq_true, if_false]
        rw [ih]
        constructor
        · rintro ⟨kvs, h1, h2, h3, h4⟩
          refine ⟨(k, w) :: kvs, by simp [h1], by simp [h2], ?_, ?_⟩
          · intro k' hk'
            simp only [AList.keys, List.map_cons, List.mem_cons] at hk'
            rcases hk' with rfl | hk'
            · exact hk
            · have := h3 k' hk'
              simp only [AList.keys, List.map_append, List.mem_append, not_or] at this
              exact this.1
          · simp only [AList.keys, List.map_cons, List.nodup_cons]
            refine ⟨?_, h4⟩
            intro hmem
            have := h3 k hmem
            simp [AList.keys] at this
        · rintro ⟨kvs, h1, h2, h3, h4⟩
          cases hr : mapOpt mk vs with
          | none => rw [hr] at h1; simp at h1
          | some bs =>
            rw [hr] at h1
            simp only [Option.some.injEq] at h1
            subst h1
            simp only [AList.keys, List.map_cons, List.nodup_cons] at h4
            refine ⟨bs, rfl, by simp [h2], ?_, h4.2⟩
            intro k' hk'
            simp only [AList.keys, List.map_append, List.mem_append, not_or, List.map_cons, List.map_nil,
              List.mem_singleton]
            refine ⟨h3 k' (by simp [AList.keys]; exact Or.inr (by simpa [AList.keys] using hk')), ?_⟩
            intro heq
            subst heq
            exact h4.1 hk'

theorem buildMap_iff {K V W : Type} [BEq K] [LawfulBEq K] {mk : V → Option (K × W)} {vs : List V} {r : AList K W} :
    buildMap mk vs [] = some r ↔ mapOpt mk vs = some r ∧ (AList.keys r).Nodup := by
  rw [buildMap_iff_acc]
  constructor
  · rintro ⟨kvs, h1, h2, _, h4⟩
    simp only [List.nil_append] at h2
    subst h2
    exact ⟨h1, h4⟩
  · rintro ⟨h1, h2⟩
    exact ⟨r, h1, by simp, by simp [AList.keys], h2⟩

end Reorder
