import FeatherModel.Lemmas.MergeJarClass
import FeatherModel.Model.MergeJarDom

/-! Lemmas for C13, part 5: the entry table of `merge` (`combine`, `mergeEntry`, `mergeEntries`). -/
set_option linter.unusedSectionVars false
namespace MergeJar
open Outcome

/-! ### lookups in a jar -/
section Get
variable {T : Type}

theorem get_none_iff (k : JStr) (m : List (JStr × T)) : get k m = none ↔ k ∉ m.map (·.1) := by
  induction m with
  | nil => simp [get]
  | cons e rest ih =>
    obtain ⟨k', v⟩ := e
    simp only [get, List.map_cons, List.mem_cons, not_or]
    by_cases h : (k' == k) = true
    · have e : k' = k := by simpa using h
      simp [e]
    · have hne : ¬ k = k' := fun e => h (by simp [e])
      simp only [h, Bool.false_eq_true, if_false, ih]
      exact ⟨fun x => ⟨hne, x⟩, fun x => x.2⟩

theorem get_isNone (k : JStr) (m : List (JStr × T)) : (get k m).isNone = !(m.map (·.1)).contains k := by
  cases h : get k m with
  | none =>
    have := (get_none_iff k m).mp h
    simp only [Option.isNone_none]
    symm
    simpa using this
  | some v =>
    have : ¬ (k ∉ m.map (·.1)) := fun hx => by rw [(get_none_iff k m).mpr hx] at h; simp at h
    simp only [Option.isNone_some]
    symm
    simpa using this

theorem get_some_mem {k : JStr} {m : List (JStr × T)} {v : T} (h : get k m = some v) : (k, v) ∈ m := by
  induction m with
  | nil => simp [get] at h
  | cons e rest ih =>
    obtain ⟨k', v'⟩ := e
    simp only [get] at h
    by_cases hk : (k' == k) = true
    · simp only [hk, if_true, Option.some.injEq] at h
      have e : k' = k := by simpa using hk
      subst e; subst h
      exact List.mem_cons_self
    · simp only [hk, Bool.false_eq_true, if_false] at h
      exact List.mem_cons_of_mem _ (ih h)

theorem get_of_mem_nodup {k : JStr} {m : List (JStr × T)} {v : T} (hm : (k, v) ∈ m) (hnd : (m.map (·.1)).Nodup) :
    get k m = some v := by
  induction m with
  | nil => simp at hm
  | cons e rest ih =>
    obtain ⟨k', v'⟩ := e
    simp only [List.map_cons, List.nodup_cons, List.mem_map, not_exists, not_and] at hnd
    simp only [List.mem_cons, Prod.mk.injEq] at hm
    simp only [get]
    cases hm with
    | inl e => obtain ⟨e1, e2⟩ := e; subst e1; subst e2; simp
    | inr hmem =>
      have : (k' == k) = false := by
        simp only [beq_eq_false_iff_ne, ne_eq]
        intro e; subst e
        exact hnd.1 (k', v) hmem rfl
      simp only [this, Bool.false_eq_true, if_false]
      exact ih hmem hnd.2
end Get

theorem filter_map_fst {A B : Type} (l : List (A × B)) (p : A × B → Bool) (q : A → Bool)
    (h : ∀ e ∈ l, p e = q e.1) : (l.filter p).map (·.1) = (l.map (·.1)).filter q := by
  induction l with
  | nil => rfl
  | cons e rest ih =>
    have he := h e List.mem_cons_self
    have ih' := ih (fun x hx => h x (List.mem_cons_of_mem _ hx))
    simp only [List.filter_cons, List.map_cons, he]
    by_cases hq : q e.1 = true
    · simp [hq, ih']
    · simp [hq, ih']

/-! ### combine -/

theorem map_fst_map_pair {A B C : Type} (l : List (A × B)) (g : A × B → C) :
    (l.map (fun e => (e.1, g e))).map (·.1) = l.map (·.1) := by
  rw [List.map_map]; apply List.map_congr_left; intro e _; rfl

theorem combine_names (client server : Jar) :
    (combine client server).map (·.1) = names client ++ (names server).filter (fun n => !(names client).contains n) := by
  unfold combine names
  rw [List.map_append, map_fst_map_pair, map_fst_map_pair,
    filter_map_fst server _ (fun n => !(client.map (·.1)).contains n) (fun e _ => get_isNone e.1 client)]

theorem combine_client_only {client server : Jar} {n : JStr} {e : Entry} (hm : (n, e) ∈ client)
    (hs : get n server = none) : (n, Comb.client e) ∈ combine client server := by
  unfold combine
  apply List.mem_append_left
  simp only [List.mem_map]
  exact ⟨(n, e), hm, by simp only [hs]⟩

theorem combine_both {client server : Jar} {n : JStr} {e es : Entry} (hm : (n, e) ∈ client)
    (hs : get n server = some es) : (n, Comb.both e es) ∈ combine client server := by
  unfold combine
  apply List.mem_append_left
  simp only [List.mem_map]
  exact ⟨(n, e), hm, by simp only [hs]⟩

theorem combine_server_only {client server : Jar} {n : JStr} {e : Entry} (hm : (n, e) ∈ server)
    (hc : get n client = none) : (n, Comb.server e) ∈ combine client server := by
  unfold combine
  apply List.mem_append_right
  simp only [List.mem_map, List.mem_filter]
  exact ⟨(n, e), ⟨hm, by simp [hc]⟩, rfl⟩

/-- what kind of combination each element of `combine` is -/
theorem combine_mem {client server : Jar} {n : JStr} {cmb : Comb} (h : (n, cmb) ∈ combine client server) :
    (∃ e, (n, e) ∈ client ∧ ((get n server = none ∧ cmb = Comb.client e) ∨ ∃ es, get n server = some es ∧ cmb = Comb.both e es)) ∨
    (∃ e, (n, e) ∈ server ∧ get n client = none ∧ cmb = Comb.server e) := by
  unfold combine at h
  simp only [List.mem_append, List.mem_map, List.mem_filter] at h
  rcases h with ⟨e, he, heq⟩ | ⟨e, ⟨he, hnone⟩, heq⟩
  · left
    obtain ⟨n', e'⟩ := e
    simp only [Prod.mk.injEq] at heq
    obtain ⟨e1, e2⟩ := heq
    subst e1
    refine ⟨e', he, ?_⟩
    cases hg : get n' server with
    | none => left; simp only [hg] at e2; exact ⟨rfl, e2.symm⟩
    | some es => right; simp only [hg] at e2; exact ⟨es, rfl, e2.symm⟩
  · right
    obtain ⟨n', e'⟩ := e
    simp only [Prod.mk.injEq] at heq
    obtain ⟨e1, e2⟩ := heq
    subst e1
    refine ⟨e', he, ?_, e2.symm⟩
    cases hg : get n' client with
    | none => rfl
    | some x => simp [hg] at hnone

/-! ### mergeEntry: when an entry is dropped -/

/-- the entry is kept (not `continue`d) -/
def keepE (n : JStr) (cmb : Comb) : Bool :=
  n == MANIFEST || (!isSig n && (match cmb with | Comb.server _ => !isBundled n | _ => true))

theorem isSig_MANIFEST : isSig MANIFEST = false := by decide
theorem isBundled_MANIFEST : isBundled MANIFEST = false := by decide

theorem mergeEntry_isSome {n : JStr} {cmb : Comb} {o : Option Entry} (h : mergeEntry n cmb = ok o) :
    o.isSome = keepE n cmb := by
  unfold mergeEntry at h
  unfold keepE
  by_cases hm : (n == MANIFEST) = true
  · simp only [hm, if_true, Outcome.ok.injEq] at h
    subst h; simp only [hm, Bool.true_or]; rfl
  · simp only [hm, Bool.false_eq_true, if_false] at h
    simp only [hm, Bool.false_or]
    by_cases hs : isSig n = true
    · simp only [hs, if_true, Outcome.ok.injEq] at h
      subst h; simp only [hs, Bool.not_true, Bool.false_and]; rfl
    · simp only [hs, Bool.false_eq_true, if_false] at h
      have hs' : isSig n = false := by simpa using hs
      simp only [hs', Bool.not_false, Bool.true_and]
      cases cmb with
      | client c => simp only [Outcome.ok.injEq] at h; subst h; rfl
      | server s =>
        simp only at h ⊢
        by_cases hb : isBundled n = true
        · simp only [hb, if_true, Outcome.ok.injEq] at h; subst h; simp [hb]
        · simp only [hb, Bool.false_eq_true, if_false, Outcome.ok.injEq] at h; subst h
          have hb' : isBundled n = false := by simpa using hb
          simp only [hb']; rfl
      | both c s =>
        simp only at h ⊢
        split at h
        · simp only [Outcome.ok.injEq] at h; subst h; rfl
        · obtain ⟨m, _, h⟩ := bind_ok h
          simp only [pure_eq_ok, Outcome.ok.injEq] at h; subst h; rfl
        · simp only [Outcome.ok.injEq] at h; subst h; rfl
        · simp at h

/-! ### mergeEntries -/

theorem mergeEntries_cons_ok {n : JStr} {cmb : Comb} {rest : List (JStr × Comb)} {r : Jar}
    (h : mergeEntries ((n, cmb) :: rest) = ok r) :
    ∃ o r', mergeEntry n cmb = ok o ∧ mergeEntries rest = ok r' ∧
      r = (match o with | none => r' | some e => (n, e) :: r') := by
  simp only [mergeEntries] at h
  cases he : mergeEntry n cmb with
  | ok o =>
    rw [he] at h
    cases o with
    | none => exact ⟨none, r, rfl, h, rfl⟩
    | some e =>
      simp only at h
      cases hr : mergeEntries rest with
      | ok r' => rw [hr] at h; simp only [Outcome.ok.injEq] at h; exact ⟨some e, r', rfl, rfl, h.symm⟩
      | err => rw [hr] at h; simp at h
      | panic s => rw [hr] at h; simp at h
  | err => rw [he] at h; simp at h
  | panic s => rw [he] at h; simp at h

theorem mergeEntries_names {l : List (JStr × Comb)} {r : Jar} (h : mergeEntries l = ok r) :
    r.map (·.1) = (l.filter (fun e => keepE e.1 e.2)).map (·.1) := by
  induction l generalizing r with
  | nil => simp only [mergeEntries, Outcome.ok.injEq] at h; subst h; rfl
  | cons e rest ih =>
    obtain ⟨n, cmb⟩ := e
    obtain ⟨o, r', ho, hr', hr⟩ := mergeEntries_cons_ok h
    have hk := mergeEntry_isSome ho
    have ih' := ih hr'
    subst hr
    simp only [List.filter_cons]
    cases o with
    | none =>
      have : keepE n cmb = false := by simpa using hk.symm
      simp only [this, Bool.false_eq_true, if_false]
      exact ih'
    | some e =>
      have : keepE n cmb = true := by simpa using hk.symm
      simp only [this, if_true, List.map_cons, ih']

theorem mergeEntries_mem {l : List (JStr × Comb)} {r : Jar} (h : mergeEntries l = ok r) :
    ∀ n cmb, (n, cmb) ∈ l → ∃ o, mergeEntry n cmb = ok o ∧ ∀ e, o = some e → (n, e) ∈ r := by
  induction l generalizing r with
  | nil => intro n cmb hm; simp at hm
  | cons e rest ih =>
    obtain ⟨n0, cmb0⟩ := e
    obtain ⟨o, r', ho, hr', hr⟩ := mergeEntries_cons_ok h
    intro n cmb hm
    simp only [List.mem_cons, Prod.mk.injEq] at hm
    cases hm with
    | inl e =>
      obtain ⟨e1, e2⟩ := e
      subst e1; subst e2
      refine ⟨o, ho, ?_⟩
      intro e he
      subst he
      subst hr
      exact List.mem_cons_self
    | inr hmem =>
      obtain ⟨o', ho', hin⟩ := ih hr' n cmb hmem
      refine ⟨o', ho', ?_⟩
      intro e he
      have := hin e he
      subst hr
      cases o with
      | none => exact this
      | some e0 => exact List.mem_cons_of_mem _ this

theorem mergeEntries_src {l : List (JStr × Comb)} {r : Jar} (h : mergeEntries l = ok r) :
    ∀ n e, (n, e) ∈ r → ∃ cmb, (n, cmb) ∈ l ∧ mergeEntry n cmb = ok (some e) := by
  induction l generalizing r with
  | nil => simp only [mergeEntries, Outcome.ok.injEq] at h; subst h; intro n e hm; simp at hm
  | cons e0 rest ih =>
    obtain ⟨n0, cmb0⟩ := e0
    obtain ⟨o, r', ho, hr', hr⟩ := mergeEntries_cons_ok h
    intro n e hm
    subst hr
    cases o with
    | none =>
      obtain ⟨cmb, hc, hcm⟩ := ih hr' n e hm
      exact ⟨cmb, List.mem_cons_of_mem _ hc, hcm⟩
    | some e1 =>
      simp only [List.mem_cons, Prod.mk.injEq] at hm
      cases hm with
      | inl e2 =>
        obtain ⟨e3, e4⟩ := e2
        subst e3; subst e4
        exact ⟨cmb0, List.mem_cons_self, ho⟩
      | inr hmem =>
        obtain ⟨cmb, hc, hcm⟩ := ih hr' n e hmem
        exact ⟨cmb, List.mem_cons_of_mem _ hc, hcm⟩

theorem mergeEntries_total {l : List (JStr × Comb)} (h : ∀ p ∈ l, ∃ o, mergeEntry p.1 p.2 = ok o) :
    ∃ r, mergeEntries l = ok r := by
  induction l with
  | nil => exact ⟨[], rfl⟩
  | cons e rest ih =>
    obtain ⟨n, cmb⟩ := e
    obtain ⟨o, ho⟩ := h (n, cmb) List.mem_cons_self
    obtain ⟨r', hr'⟩ := ih (fun p hp => h p (List.mem_cons_of_mem _ hp))
    simp only at ho
    cases o with
    | none => exact ⟨r', by simp only [mergeEntries, ho, hr']⟩
    | some e => exact ⟨(n, e) :: r', by simp only [mergeEntries, ho, hr']⟩

/-! ### names of the merged jar -/

theorem mergeJar_names {client server r : Jar} (h : mergeJar client server = ok r) :
    names r = (names client ++ (names server).filter (fun n => !(names client).contains n)).filter (kept client) := by
  unfold mergeJar at h
  have h1 := mergeEntries_names h
  have h2 : ((combine client server).filter (fun e => keepE e.1 e.2)).map (·.1) =
      ((combine client server).map (·.1)).filter (kept client) := by
    apply filter_map_fst
    intro e he
    obtain ⟨n, cmb⟩ := e
    simp only
    unfold keepE kept
    by_cases hm : (n == MANIFEST) = true
    · have e : n = MANIFEST := by simpa using hm
      subst e
      simp [isSig_MANIFEST, isBundled_MANIFEST]
    · simp only [hm, Bool.false_or]
      rcases combine_mem he with ⟨e, hec, hcase⟩ | ⟨e, hes, hnc, hcmb⟩
      · have hin : n ∈ names client := by
          simp only [names, List.mem_map]
          exact ⟨(n, e), hec, rfl⟩
        rcases hcase with ⟨_, hcmb⟩ | ⟨es, _, hcmb⟩ <;> subst hcmb <;> simp [hin]
      · subst hcmb
        have hin : n ∉ names client := (get_none_iff n client).mp hnc
        simp [hin]
  rw [h2, combine_names] at h1
  exact h1

end MergeJar
