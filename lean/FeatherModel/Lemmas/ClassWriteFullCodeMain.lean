import FeatherModel.Lemmas.ClassWriteFullCode
import FeatherModel.Lemmas.ClassWriteFullCodeFacts

/-!
# C02 (whole writer) — `write_code`, assembled: the written `Code` body is `CodeLayout.encode` of a legal layout whose
facts are the method body with its labels resolved
-/

namespace ClassWriteFull
open PoolWrite (Entry)
open FramePool (Good Le)
open ClassRead ClassRead.Spec
open FrameReadBack (posOf)

theorem toList_map_enc (cpos : Nat → Nat) (lo : Option SCodeAttr) :
    (lo.map (SCodeAttr.encode cpos)).toList = lo.toList.map (SCodeAttr.encode cpos) := by
  cases lo <;> rfl

theorem mapT_branch {f : Nat → Nat} {ri : ClassRead.Insn} {op t : Nat} (h : mapT f ri = .branch op t) :
    ∃ t', ri = .branch op t' := by
  cases ri <;> simp only [mapT] at h <;> try cases h
  exact ⟨_, rfl⟩

theorem mem_ite_none {α : Type} {c : Prop} [Decidable c] {x a : α} (h : a ∈ (if c then none else some x)) : a = x := by
  split at h
  · cases h
  · exact (Option.mem_some_iff.mp h).symm

theorem mem_ite_some {α : Type} {c : Prop} [Decidable c] {x a : α} (h : a ∈ (if c then some x else none)) : a = x := by
  split at h
  · exact (Option.mem_some_iff.mp h).symm
  · cases h

theorem ta_refs {sas : List SCodeTypeAnno} {as' : List TypeAnno} (h : sas.map SCodeTypeAnno.fact = as') :
    (sas.map fun a => codeTargetRefs a.target).sum = (as'.map fun a => codeTargetRefs a.target).sum := by
  subst h
  simp [List.map_map, Function.comp_def, SCodeTypeAnno.fact]

theorem vtypeOf_vtMapL (lab : Nat → Nat) (v : ClassRead.VType) : vtypeOf id (vtMapL lab v) = vtypeOf lab v := by
  cases v <;> rfl

theorem frameOf_frMapL (lab : Nat → Nat) (f : ClassRead.Frame) : frameOf id (frMapL lab f) = frameOf lab f := by
  cases f <;> simp [frameOf, frMapL, vtypeOf_vtMapL, List.map_map, Function.comp_def]

theorem zipWith_maps {α β γ δ : Type} (F : β → γ → δ) (g : α → β) (h : α → γ) : ∀ (l : List α),
    List.zipWith F (l.map g) (l.map h) = l.map (fun a => F (g a) (h a))
  | [] => rfl
  | a :: l => by simp [zipWith_maps F g h l]

/-- what the two local-variable tables denote together -/
theorem localsOf_tables {nc2 nc3 : Nat} {l2 l3 : List SLv} {D S : List Lv} (r : List SCodeAttr) (hr : localsOf r = none)
    (h2 : l2.map (SLv.fact false) = D) (h3 : l3.map (SLv.fact true) = S) (hne : D ++ S ≠ []) :
    localsOf ((if 0 < D.length then some (SCodeAttr.lvt nc2 l2) else none).toList ++
      ((if 0 < S.length then some (SCodeAttr.lvtt nc3 l3) else none).toList ++ r)) = some (D ++ S) := by
  subst h2 h3
  cases l2 with
  | nil =>
    cases l3 with
    | nil => simp at hne
    | cons x xs => simp [localsOf, hr]
  | cons y ys =>
    cases l3 with
    | nil => simp [localsOf, hr]
    | cons x xs => simp [localsOf, hr]

theorem sum_zero_of : ∀ (l : List Nat), (∀ v ∈ l, v = 0) → l.sum = 0
  | [], _ => rfl
  | a :: l, h => by
    simp [h a List.mem_cons_self, sum_zero_of l (fun v hv => h v (List.mem_cons_of_mem _ hv))]

/-- the unknown attributes denote themselves -/
theorem unknownsOf_unknowns : ∀ (ncs : List Nat) (as : List Attr), ncs.length = as.length →
    unknownsOf ((ncs.zip as).map fun x => SCodeAttr.unknown x.1 x.2.name x.2.bytes) = as
  | _, [], _ => by simp [unknownsOf]
  | [], _ :: _, h => by simp at h
  | n :: ncs, a :: as, h => by
    simp only [List.zip_cons_cons, List.map_cons, unknownsOf]
    rw [unknownsOf_unknowns ncs as (by simpa using h)]

/-- **`write_code`** (fragment `RCodeOk` of the resolved body): the bytes are the encoding of a layout that is legal in
every later pool with every later bootstrap table and denotes the method body with its labels renamed to instruction
indices; bootstrap rows are only appended -/
theorem writeCode_spec {c : Code} {p p' : Pool} {bs bs' : List Bsm} {b : Bytes} {lab : Nat → Nat}
    (hlab : labOf (labelIndex c.insns c.lastLabel) c.insns.length = lab) (hg : Good p) (hb : BsOk bs)
    (hok : RCodeOk (relabel lab c)) (h : writeCode c p bs = .ok (b, p', bs')) :
    (Step p p' ∧ BsExt bs bs' ∧ BsOk bs') ∧ ∃ cl : CodeLayout, b = cl.encode ∧
      Sound2 p' bs' (fun rp bsms => cl.Legal rp bsms) ∧ cl.facts = relabel lab c := by
  obtain ⟨is, p1, res, eb, p2, smt, p3, as, ab, h1, hres, h2, h3, h4, h5, rfl⟩ := writeCode_inv hlab h
  have hn : (relabel lab c).insns.length = c.insns.length := by simp [relabel]
  -- the conditions of the fragment, on the tree
  have hins : ∀ e ∈ c.insns, insnOk e.insn ∧ (∀ t ∈ targetsOf (mapT lab e.insn), t < c.insns.length) ∧
      ∀ f, e.frame = some f → frameOkR c.insns.length (frMapL lab f) := by
    intro e he
    have := hok.insns ⟨none, e.frame.map (frMapL lab), mapT lab e.insn⟩
      (by simp only [relabel]; exact List.mem_map.mpr ⟨e, he, rfl⟩)
    rw [hn] at this
    refine ⟨(insnOk_mapT lab e.insn).mp this.1, this.2.1, fun f hf => ?_⟩
    exact this.2.2 (frMapL lab f) (by simp [hf])
  have hexc : ∀ e ∈ c.exceptions, lab e.start < c.insns.length ∧ lab e.end_ ≤ c.insns.length ∧
      lab e.handler < c.insns.length ∧ ∀ cl, e.catch_ = some cl → validClassName cl = true := by
    intro e he
    have := hok.exceptions ⟨lab e.start, lab e.end_, lab e.handler, e.catch_⟩
      (by simp only [relabel]; exact List.mem_map.mpr ⟨e, he, rfl⟩)
    rw [hn] at this
    exact this
  -- the instructions
  obtain ⟨⟨s1, eb1, ob1⟩, rcs, hm, hall, hcps, hbr, hsd⟩ := putInsns_spec c.insns hg hb (fun e he => (hins e he).1) h1
  have hlen : rcs.length = c.insns.length := by
    have := congrArg List.length hm
    simpa using this
  have hsize : (is.map maxSize).sum ≤ 32767 := by
    rw [hall.sizes]
    have e1 : (rcs.map fun x => maxSizeR x.1) = (rcs.map (·.1)).map maxSizeR := by simp
    rw [e1, hm]
    have := hok.size
    simpa [relabel, List.map_map, Function.comp_def] using this
  obtain ⟨hcode, hlabel, hnone, hend, hpos, hsmall⟩ := writeCode_enc hall hsize res hres
  have hslen := sinsnsOf_length rcs
  have hlp : LpEq (fun id => res.label (lab id)) lab (codePos (sinsnsOf rcs)) := by
    intro id a ha
    have ha : res.label (lab id) = some a := ha
    by_cases hle : lab id ≤ rcs.length
    · rw [hlabel _ hle] at ha
      exact (Option.some.inj ha).symm
    · rw [hnone _ (by omega)] at ha
      cases ha
  have hrc : ∀ x ∈ rcs, ∃ e ∈ c.insns, x.1 = mapT lab e.insn := by
    intro x hx
    have : x.1 ∈ rcs.map (·.1) := List.mem_map_of_mem hx
    rw [hm] at this
    obtain ⟨e, he, hxe⟩ := List.mem_map.mp this
    exact ⟨e, he, hxe.symm⟩
  have hcodeq : res.code = encInsns (codePos (sinsnsOf rcs)) (sinsnsOf rcs) 0 := by
    rw [hcode]
    apply encInsns_congr
    intro si hsi t ht
    obtain ⟨x, hx, rfl⟩ := List.mem_map.mp hsi
    obtain ⟨e, he, hxe⟩ := hrc x hx
    have htn : t < c.insns.length := (hins e he).2.1 t (by simpa [sinsnOf, hxe] using ht)
    simp [posOf, hlabel t (by omega)]
  -- the exception table
  obtain ⟨s2, sexcs, rfl, hel, helt, her⟩ := table_spec (writeException (fun id => res.label (lab id)))
    (SException.encode (codePos (sinsnsOf rcs))) (fun p e l => ExcAt p lab e l) (fun p p' a l hle hr => hr.mono hle)
    (fun p p' a b hg h => writeException_spec hlp hg h) s1.good h2
  -- the stack map frames
  have hpsz : res.pos.size = c.insns.length := by
    rw [CodeWrite.writeCode_pos_size is res hres, ← hall.length, hlen]
  obtain ⟨t0, nc0, sfs, hsmt, c0, hffact, hfrefs⟩ := framesBlock_spec (n := c.insns.length)
    (cpos := codePos (sinsnsOf rcs)) (fs := c.insns.map fun e => e.frame.map (frameOf lab)) hpsz
    (fun j hj => hlabel j (by omega))
    (fun a b hab hb => codePos_mono (sinsnsOf rcs) a b hab (by rw [hslen]; omega))
    (by rw [← hlen, hend]; exact hsmall)
    (by
      intro f hf
      obtain ⟨e, he, hfe⟩ := List.mem_map.mp hf
      cases hfr : e.frame with
      | none => rw [hfr] at hfe; cases hfe
      | some f0 =>
        rw [hfr] at hfe
        cases hfe
        rw [rdFrame_frameOf]
        exact (hins e he).2.2 f0 hfr)
    s2.good h3
  -- the attribute blocks
  obtain ⟨r0, q5, ru, h4k, ku, rfl⟩ := runAttrs_append_inv h4
  obtain ⟨o1, q1, r1, e1, k1, rfl⟩ := runAttrs_cons_inv h4k
  obtain ⟨o2, q2, r2, e2, k2, rfl⟩ := runAttrs_cons_inv k1
  obtain ⟨o3, q3, r3, e3, k3, rfl⟩ := runAttrs_cons_inv k2
  obtain ⟨o4, q4, r4, e4, k4, rfl⟩ := runAttrs_cons_inv k3
  obtain ⟨o5, q5, r5, e5, k5, rfl⟩ := runAttrs_cons_inv k4
  obtain ⟨rfl, rfl⟩ := runAttrs_nil_inv k5
  obtain ⟨t1, nc1, c1⟩ := linesBlock_spec (n := c.insns.length) hlp t0.good (by
    intro ls hls e he
    have := hok.lines (ls.map fun ln => (lab ln.1, ln.2)) (by simp [relabel, hls]) (lab e.1, e.2)
      (List.mem_map.mpr ⟨e, he, rfl⟩)
    rw [hn] at this
    exact this) e1
  -- local variables
  have hlocals : ∃ (lo2 lo3 : Option SCodeAttr), Step q1 q3 ∧ CBlock o2 q3 (codePos (sinsnsOf rcs)) c.insns.length lo2 ∧
      CBlock o3 q3 (codePos (sinsnsOf rcs)) c.insns.length lo3 ∧ (∀ a ∈ lo2, ctag a = 2) ∧ (∀ a ∈ lo3, ctag a = 3) ∧
      (∀ r, localsOf r = none → localsOf (lo2.toList ++ (lo3.toList ++ r)) = (relabel lab c).locals) ∧
      ((lo2.toList ++ lo3.toList).map SCodeAttr.labelRefs).sum = 2 * ((relabel lab c).locals.getD []).length := by
    cases hloc : c.locals with
    | none =>
      rw [hloc] at e2 e3
      have a2 := ok_inj.mp (show (Except.ok (none, q1) : Except Fail (Option Bytes × Pool)) = .ok (o2, q2) from e2)
      simp only [Prod.mk.injEq] at a2
      obtain ⟨rfl, rfl⟩ := a2
      have a3 := ok_inj.mp (show (Except.ok (none, q1) : Except Fail (Option Bytes × Pool)) = .ok (o3, q3) from e3)
      simp only [Prod.mk.injEq] at a3
      obtain ⟨rfl, rfl⟩ := a3
      exact ⟨none, none, Step.refl t1.good, cblock_none _ _ _, cblock_none _ _ _, by simp, by simp,
        fun r hr => by simp [relabel, hloc, hr], by simp [relabel, hloc]⟩
    | some vs =>
      rw [hloc] at e2 e3
      obtain ⟨hvne, hord, hvok⟩ := hok.locals (vs.map fun v => { v with start := lab v.start, end_ := lab v.end_ })
        (by simp [relabel, hloc])
      rw [hn] at hvok
      have hvok' : ∀ v ∈ vs, v.desc.isSome ≠ v.sig.isSome ∧ lab v.start < c.insns.length ∧ lab v.start ≤ lab v.end_ ∧
          lab v.end_ ≤ c.insns.length ∧ v.index < 65536 ∧ validUnqualified v.name = true := by
        intro v hv
        exact hvok _ (List.mem_map.mpr ⟨v, hv, rfl⟩)
      obtain ⟨u2, nc2, l2, b2, hl2, hr2⟩ := lvBlock_spec (n := c.insns.length) hlp false t1.good
        (fun v hv => (hvok' v hv).2) e2
      obtain ⟨u3, nc3, l3, b3, hl3, hr3⟩ := lvBlock_spec (n := c.insns.length) hlp true u2.good
        (fun v hv => (hvok' v hv).2) e3
      simp only [Bool.false_eq_true, if_false, if_true] at b2 b3
      -- facts of the rows
      have hf2 : l2.map (SLv.fact false) = (vs.filter fun v => v.desc.isSome).map
          (fun v => ({ v with start := lab v.start, end_ := lab v.end_ } : Lv)) := by
        apply map_eq_of_zip _ l2 _ (by rw [hl2, lvCount_eq]; simp [lvText])
        intro x hx
        rw [List.zip_map_right] at hx
        obtain ⟨y, hy, rfl⟩ := List.mem_map.mp hx
        have hy' : y ∈ l2.zip (vs.filter fun v => (lvText false v).isSome) := by simpa [lvText] using hy
        obtain ⟨a1, a2, a3, a4, a5⟩ := hr2 y hy'
        have hy2 : y.2 ∈ vs := (List.mem_filter.mp (List.of_mem_zip hy').2).1
        have hex := (hvok' y.2 hy2).1
        simp only [lvText, Bool.false_eq_true, if_false] at a4
        have hsig : y.2.sig = none := by
          cases hs : y.2.sig with
          | none => rfl
          | some _ => simp [a4, hs] at hex
        obtain ⟨⟨s1', e1', ncp, nm1, dcp, d1, ix1⟩, ⟨st, en, nm, ds, sg, ix⟩⟩ := y
        simp only at a1 a2 a3 a4 a5 hsig
        subst_vars
        simp [SLv.fact]
      have hf3 : l3.map (SLv.fact true) = (vs.filter fun v => v.sig.isSome).map
          (fun v => ({ v with start := lab v.start, end_ := lab v.end_ } : Lv)) := by
        apply map_eq_of_zip _ l3 _ (by rw [hl3, lvCount_eq]; simp [lvText])
        intro x hx
        rw [List.zip_map_right] at hx
        obtain ⟨y, hy, rfl⟩ := List.mem_map.mp hx
        have hy' : y ∈ l3.zip (vs.filter fun v => (lvText true v).isSome) := by simpa [lvText] using hy
        obtain ⟨a1, a2, a3, a4, a5⟩ := hr3 y hy'
        have hy2 : y.2 ∈ vs := (List.mem_filter.mp (List.of_mem_zip hy').2).1
        have hex := (hvok' y.2 hy2).1
        simp only [lvText, if_true] at a4
        have hdesc : y.2.desc = none := by
          cases hs : y.2.desc with
          | none => rfl
          | some _ => simp [a4, hs] at hex
        obtain ⟨⟨s1', e1', ncp, nm1, dcp, d1, ix1⟩, ⟨st, en, nm, ds, sg, ix⟩⟩ := y
        simp only at a1 a2 a3 a4 a5 hdesc
        subst_vars
        simp [SLv.fact]
      -- the order condition, on the original entries
      have hord' : vs.map (fun v => ({ v with start := lab v.start, end_ := lab v.end_ } : Lv)) =
          (vs.filter fun v => v.desc.isSome).map (fun v => ({ v with start := lab v.start, end_ := lab v.end_ } : Lv)) ++
          (vs.filter fun v => v.sig.isSome).map (fun v => ({ v with start := lab v.start, end_ := lab v.end_ } : Lv)) := by
        rw [List.filter_map, List.filter_map] at hord
        exact hord
      have hcnt2 : lvCount false vs = ((vs.filter fun v => v.desc.isSome).map
          (fun v => ({ v with start := lab v.start, end_ := lab v.end_ } : Lv))).length := by
        rw [lvCount_eq]; simp [lvText]
      have hcnt3 : lvCount true vs = ((vs.filter fun v => v.sig.isSome).map
          (fun v => ({ v with start := lab v.start, end_ := lab v.end_ } : Lv))).length := by
        rw [lvCount_eq]; simp [lvText]
      refine ⟨_, _, u2.trans u3, b2.mono u3.le, b3, ?_, ?_, ?_, ?_⟩
      · intro a ha; rw [mem_ite_some ha]; rfl
      · intro a ha; rw [mem_ite_some ha]; rfl
      · intro r hr
        rw [hcnt2, hcnt3]
        have := localsOf_tables (nc2 := nc2) (nc3 := nc3) r hr hf2 hf3 (by
          rw [← hord']
          intro hnil
          have := congrArg List.length hnil
          simp at this
          exact hvne (by simpa using this))
        rw [this, ← hord']
        simp [relabel, hloc]
      · have hlen2 : l2.length = lvCount false vs := hl2
        have hlen3 : l3.length = lvCount true vs := hl3
        have htot : lvCount false vs + lvCount true vs = vs.length := by
          have := congrArg List.length hord'
          simp only [List.length_map, List.length_append] at this
          rw [hcnt2, hcnt3]
          simp only [List.length_map]
          omega
        by_cases hz2 : 0 < lvCount false vs <;> by_cases hz3 : 0 < lvCount true vs <;>
          simp [hz2, hz3, SCodeAttr.labelRefs, relabel, hloc, hlen2, hlen3] <;> omega
  obtain ⟨lo2, lo3, t23, c2, c3, tg2, tg3, hlocs, hlocrefs⟩ := hlocals
  -- type annotations
  have hrv : CodeTypeAnnosOk lab c.insns.length c.rvta := by
    intro a ha
    have := hok.rvta { a with target := tgMapL lab a.target } (by simp only [relabel]; exact List.mem_map.mpr ⟨a, ha, rfl⟩)
    rw [hn, tgMapL_id] at this
    exact this
  have hri : CodeTypeAnnosOk lab c.insns.length c.ritva := by
    intro a ha
    have := hok.ritva { a with target := tgMapL lab a.target } (by simp only [relabel]; exact List.mem_map.mpr ⟨a, ha, rfl⟩)
    rw [hn, tgMapL_id] at this
    exact this
  obtain ⟨t4, nc4, sas4, c4, hf4⟩ := taBlock_spec (n := c.insns.length) hlp true t23.good hrv e4
  obtain ⟨t5, nc5, sas5, c5, hf5⟩ := taBlock_spec (n := c.insns.length) hlp false t4.good hri e5
  obtain ⟨t6, ncs, hnlen, rfl, hunk⟩ := unknownAttrs_spec c.attrs t5.good ku
  obtain ⟨hcount, rfl⟩ := attrsBytes_inv h5
  -- the layout
  let lo6 : List SCodeAttr := (ncs.zip c.attrs).map fun x => SCodeAttr.unknown x.1 x.2.name x.2.bytes
  have tl6 : ∀ a ∈ lo6, ctag a = 5 := by
    intro a ha
    obtain ⟨x, _, rfl⟩ := List.mem_map.mp ha
    rfl
  let lo1 : Option SCodeAttr := c.lines.map fun ls => SCodeAttr.lines nc1 (ls.map fun e => (lab e.1, e.2))
  let lo0 : Option SCodeAttr := if sfs = [] then none else some (SCodeAttr.frames nc0 sfs)
  let lo4 : Option SCodeAttr := if c.rvta = [] then none else some (.typeAnnos nc4 true sas4)
  let lo5 : Option SCodeAttr := if c.ritva = [] then none else some (.typeAnnos nc5 false sas5)
  let rest : List SCodeAttr := lo1.toList ++ (lo2.toList ++ (lo3.toList ++ (lo4.toList ++ (lo5.toList ++ lo6))))
  let attrs : List SCodeAttr := lo0.toList ++ rest
  have hbytes : smtBytes smt ++
      ((o1.toList ++ (o2.toList ++ (o3.toList ++ (o4.toList ++ (o5.toList ++ []))))) ++
        (ncs.zip c.attrs).map (fun x => attrFrame x.1 x.2.bytes)) =
      attrs.map (SCodeAttr.encode (codePos (sinsnsOf rcs))) := by
    have h6 : (ncs.zip c.attrs).map (fun x => attrFrame x.1 x.2.bytes) =
        lo6.map (SCodeAttr.encode (codePos (sinsnsOf rcs))) := by
      simp [lo6, List.map_map, Function.comp_def, SCodeAttr.encode]
    rw [hsmt, c1.1, c2.1, c3.1, c4.1, c5.1, h6]
    simp only [toList_map_enc, attrs, rest, List.map_append, List.map_nil, List.append_nil, List.append_assoc]
    rfl
  have tg0 : ∀ a ∈ lo0, ctag a = 0 := by
    intro a ha
    rw [mem_ite_none (show a ∈ (if sfs = [] then none else some (SCodeAttr.frames nc0 sfs)) from ha)]
    rfl
  have tg1 : ∀ a ∈ lo1, ctag a = 1 := by
    intro a ha
    simp only [lo1, Option.mem_def, Option.map_eq_some_iff] at ha
    obtain ⟨ls, _, rfl⟩ := ha
    rfl
  have tg4 : ∀ a ∈ lo4, ctag a = 4 := by intro a ha; rw [mem_ite_none (show a ∈ (if c.rvta = [] then none else some (SCodeAttr.typeAnnos nc4 true sas4)) from ha)]; rfl
  have tg5 : ∀ a ∈ lo5, ctag a = 4 := by intro a ha; rw [mem_ite_none (show a ∈ (if c.ritva = [] then none else some (SCodeAttr.typeAnnos nc5 false sas5)) from ha)]; rfl
  have s45 := t4.trans (t5.trans t6)
  have s345 := t23.trans s45
  have s1345 := t1.trans s345
  have sall := t0.trans s1345
  refine ⟨⟨s1.trans (s2.trans sall), eb1, ob1⟩, ⟨c.maxStack, c.maxLocals, sinsnsOf rcs, sexcs, attrs⟩, ?_, ?_, ?_⟩
  · -- the bytes
    simp only [CodeLayout.encode, CodeLayout.pos]
    rw [hbytes, List.length_map, hslen, hend, ← hcodeq]
    simp [List.flatMap, List.append_assoc]
  · -- legality
    intro q bs'' hq hbs
    have hq5 : Ext p' q := hq
    have hq4 : Ext q4 q := hq.of_le (t5.trans t6).le
    have hq5' : Ext q5 q := hq.of_le t6.le
    have hq3 : Ext q3 q := hq.of_le s45.le
    have hq1 : Ext q1 q := hq.of_le s345.le
    have hq0 : Ext p3 q := hq.of_le s1345.le
    have hq2 : Ext p2 q := hq.of_le sall.le
    have hqp1 : Ext p1 q := hq2.of_le s2.le
    refine ⟨?_, hok.maxStack, hok.maxLocals, helt, ?_, ?_, ?_, ?_, ?_⟩
    · -- the code array
      refine code_legal (by rw [hend]; exact hpos) (by rw [hend]; exact hsmall) ?_
      intro x hx
      obtain ⟨e, he, hxe⟩ := hrc x hx
      refine ⟨by rw [hxe]; exact (insnOk_mapT lab e.insn).mpr (hins e he).1, ?_, hcps x hx, hsd x hx q bs'' hqp1 hbs, ?_⟩
      · intro op t hop
        rw [hxe] at hop
        obtain ⟨t', hi⟩ := mapT_branch hop
        exact hbr e he op t' hi
      · rw [hxe, hlen]
        exact (hins e he).2.1
    · -- exceptions
      intro l hl
      obtain ⟨e, he, hz⟩ := zip_mem_of_mem hel hl
      rw [hslen, hlen]
      have := hexc e he
      exact exception_legal hq.good ((her _ hz).mono hq2.le) ⟨this.1, this.2.1, this.2.2.1⟩ this.2.2.2
    · -- number of attributes
      rw [hbytes, List.length_map] at hcount
      show attrs.length < 65536
      omega
    · -- every attribute
      intro a ha
      simp only [attrs, rest, List.mem_append, Option.mem_toList] at ha
      rw [hslen, hlen]
      rcases ha with ha | ha | ha | ha | ha | ha | ha
      · exact c0 a ha q hq0
      · exact c1.2 a ha q hq1
      · exact c2.2 a ha q hq3
      · exact c3.2 a ha q hq3
      · exact c4.2 a ha q hq4
      · exact c5.2 a ha q hq5'
      · obtain ⟨x, hx, rfl⟩ := List.mem_map.mp ha
        obtain ⟨hn', hu, hbl⟩ := hunk x hx
        exact ⟨hn', getUtf8_of hq.good (hu.mono hq.le),
          hok.attrs x.2 (by simp only [relabel]; exact (List.of_mem_zip hx).2), hbl⟩
    · -- at most one StackMapTable
      have hrest : rest.filter SCodeAttr.isFrames = [] := by
        rw [List.filter_eq_nil_iff]
        intro a ha
        simp only [rest, List.mem_append, Option.mem_toList] at ha
        rcases ha with ha | ha | ha | ha | ha | ha
        · have := tg1 a ha; cases a <;> simp_all [ctag, SCodeAttr.isFrames]
        · have := tg2 a ha; cases a <;> simp_all [ctag, SCodeAttr.isFrames]
        · have := tg3 a ha; cases a <;> simp_all [ctag, SCodeAttr.isFrames]
        · have := tg4 a ha; cases a <;> simp_all [ctag, SCodeAttr.isFrames]
        · have := tg5 a ha; cases a <;> simp_all [ctag, SCodeAttr.isFrames]
        · obtain ⟨x, _, rfl⟩ := List.mem_map.mp ha
          simp [SCodeAttr.isFrames]
      have hfil : attrs.filter SCodeAttr.isFrames = lo0.toList.filter SCodeAttr.isFrames := by
        show (lo0.toList ++ rest).filter SCodeAttr.isFrames = _
        rw [List.filter_append, hrest, List.append_nil]
      show (attrs.filter SCodeAttr.isFrames).length ≤ 1
      rw [hfil]
      have h0 : (lo0.toList.filter SCodeAttr.isFrames).length ≤ lo0.toList.length := List.length_filter_le _ _
      have h1 : lo0.toList.length ≤ 1 := by cases lo0 <;> simp
      omega
    · -- label references
      have href := hok.refs
      have r0 : ((sinsnsOf rcs).map fun si => (targetsOf si.insn).length).sum =
          ((relabel lab c).insns.map fun e => (targetsOf e.insn).length).sum := by
        have : (sinsnsOf rcs).map (fun si => (targetsOf si.insn).length) = (rcs.map (·.1)).map (fun i => (targetsOf i).length) := by
          simp [sinsnsOf, sinsnOf, List.map_map, Function.comp_def]
        rw [this, hm]
        simp [relabel, List.map_map, Function.comp_def]
      have r1 : sexcs.length = (relabel lab c).exceptions.length := by rw [hel]; simp [relabel]
      have r2 : (lo1.toList.map SCodeAttr.labelRefs).sum = ((relabel lab c).lines.getD []).length := by
        cases hl : c.lines <;> simp [lo1, hl, relabel, SCodeAttr.labelRefs]
      have r4 : (lo4.toList.map SCodeAttr.labelRefs).sum = ((relabel lab c).rvta.map fun a => codeTargetRefs a.target).sum := by
        by_cases hnil : c.rvta = []
        · simp [lo4, hnil, relabel]
        · simp only [lo4, hnil, if_false, Option.toList, List.map_cons, List.map_nil, List.sum_cons, List.sum_nil,
            SCodeAttr.labelRefs, Nat.add_zero]
          rw [ta_refs hf4]
          simp [relabel]
      have r5 : (lo5.toList.map SCodeAttr.labelRefs).sum = ((relabel lab c).ritva.map fun a => codeTargetRefs a.target).sum := by
        by_cases hnil : c.ritva = []
        · simp [lo5, hnil, relabel]
        · simp only [lo5, hnil, if_false, Option.toList, List.map_cons, List.map_nil, List.sum_cons, List.sum_nil,
            SCodeAttr.labelRefs, Nat.add_zero]
          rw [ta_refs hf5]
          simp [relabel]
      have r00 : (lo0.toList.map SCodeAttr.labelRefs).sum =
          ((relabel lab c).insns.map fun e => frameRefsO e.frame).sum := by
        have e1 : (lo0.toList.map SCodeAttr.labelRefs).sum = (sfs.map (fun f => f.kind.labelRefs + 1)).sum := by
          by_cases hnil : sfs = []
          · simp [lo0, hnil]
          · simp [lo0, hnil, SCodeAttr.labelRefs]
        rw [e1, hfrefs, collectIdx_sum FrameReadBack.labelDemand _ _ 0 (by simp [hpsz])]
        simp only [relabel, List.map_map, Function.comp_def]
        congr 1
        apply List.map_congr_left
        intro e _
        cases e.frame with
        | none => rfl
        | some f => simp [frameRefsO, frameRefs, frameOf_frMapL]
      have r6 : (lo6.map SCodeAttr.labelRefs).sum = 0 := by
        apply sum_zero_of
        intro v hv
        obtain ⟨a, ha, rfl⟩ := List.mem_map.mp hv
        obtain ⟨x, _, rfl⟩ := List.mem_map.mp ha
        rfl
      have rsum : (attrs.map SCodeAttr.labelRefs).sum = (lo0.toList.map SCodeAttr.labelRefs).sum +
          ((lo1.toList.map SCodeAttr.labelRefs).sum +
          (((lo2.toList ++ lo3.toList).map SCodeAttr.labelRefs).sum + ((lo4.toList.map SCodeAttr.labelRefs).sum +
            (lo5.toList.map SCodeAttr.labelRefs).sum))) := by
        simp only [attrs, rest, List.map_append, List.sum_append, List.map_nil, List.sum_nil, r6]
        omega
      show CodeLayout.labelRefs ⟨c.maxStack, c.maxLocals, sinsnsOf rcs, sexcs, attrs⟩ < 65535
      simp only [CodeLayout.labelRefs]
      rw [r0, r1, rsum, r00, r2, hlocrefs, r4, r5]
      unfold codeRefs at href
      omega
  · -- the facts
    have tagsRest : ∀ a ∈ rest, ctag a = 1 ∨ ctag a = 2 ∨ ctag a = 3 ∨ ctag a = 4 ∨ ctag a = 5 := by
      intro a ha
      simp only [rest, List.mem_append, Option.mem_toList] at ha
      rcases ha with ha | ha | ha | ha | ha | ha
      · exact Or.inl (tg1 a ha)
      · exact Or.inr (Or.inl (tg2 a ha))
      · exact Or.inr (Or.inr (Or.inl (tg3 a ha)))
      · exact Or.inr (Or.inr (Or.inr (Or.inl (tg4 a ha))))
      · exact Or.inr (Or.inr (Or.inr (Or.inl (tg5 a ha))))
      · exact Or.inr (Or.inr (Or.inr (Or.inr (tl6 a ha))))
    have tl0 : ∀ a ∈ lo0.toList, ctag a = 0 := tag_toList tg0
    have f0 : framesOf attrs = sfs := by
      have hr := framesOf_skip rest [] (fun a ha => by rcases tagsRest a ha with h | h | h | h | h <;> omega)
      simp only [List.append_nil, framesOf] at hr
      show framesOf (lo0.toList ++ rest) = sfs
      by_cases hnil : sfs = []
      · have h0 : lo0 = none := by simp [lo0, hnil]
        rw [h0, hnil]
        exact hr
      · have h0 : lo0 = some (SCodeAttr.frames nc0 sfs) := by simp [lo0, hnil]
        rw [h0]
        rfl
    have tl2 : ∀ a ∈ lo2.toList, ctag a = 2 := tag_toList tg2
    have tl3 : ∀ a ∈ lo3.toList, ctag a = 3 := tag_toList tg3
    have tl4 : ∀ a ∈ lo4.toList, ctag a = 4 := tag_toList tg4
    have tl5 : ∀ a ∈ lo5.toList, ctag a = 4 := tag_toList tg5
    have tl1 : ∀ a ∈ lo1.toList, ctag a = 1 := tag_toList tg1
    have f5 : unknownsOf attrs = c.attrs := by
      simp only [attrs, rest]
      rw [unknownsOf_skip _ _ (fun a ha => by rw [tl0 a ha]; decide), unknownsOf_skip _ _ (fun a ha => by rw [tl1 a ha]; decide),
        unknownsOf_skip _ _ (fun a ha => by rw [tl2 a ha]; decide), unknownsOf_skip _ _ (fun a ha => by rw [tl3 a ha]; decide),
        unknownsOf_skip _ _ (fun a ha => by rw [tl4 a ha]; decide), unknownsOf_skip _ _ (fun a ha => by rw [tl5 a ha]; decide)]
      exact unknownsOf_unknowns ncs c.attrs hnlen
    have l6 : linesOf lo6 = none := by
      have := linesOf_skip lo6 [] (fun a ha => by rw [tl6 a ha]; decide)
      simpa [linesOf] using this
    have v6 : localsOf lo6 = none := by
      have := localsOf_skip lo6 [] (fun a ha => by rw [tl6 a ha]; decide)
      simpa [localsOf] using this
    have a6 : ∀ v : Bool, typeAnnosOf v lo6 = [] := by
      intro v
      have := typeAnnosOf_skip v lo6 [] (fun a ha => by rw [tl6 a ha]; decide)
      simpa [typeAnnosOf] using this
    have fi : factEntries (framesOf attrs) 0 (sinsnsOf rcs) = (relabel lab c).insns := by
      rw [f0, factEntries_collect (sinsnsOf rcs) res.pos.toList (c.insns.map fun e => e.frame.map (frameOf lab)) 0 sfs
        (by simp [hpsz, hslen, hlen]) (by simp [hslen, hlen]) hffact]
      have h1 : List.zipWith (fun (si : SInsn) (f : Option FrameWrite.Frame) => (⟨none, f.map rdFrame, si.insn⟩ : InsnEntry))
          (sinsnsOf rcs) (c.insns.map fun e => e.frame.map (frameOf lab)) =
          List.zipWith (fun (i : ClassRead.Insn) (f : Option FrameWrite.Frame) => (⟨none, f.map rdFrame, i⟩ : InsnEntry))
            ((sinsnsOf rcs).map (·.insn)) (c.insns.map fun e => e.frame.map (frameOf lab)) := by
        rw [List.zipWith_map_left]
      have h2 : (sinsnsOf rcs).map (·.insn) = c.insns.map (fun e => mapT lab e.insn) := by
        rw [← hm]; simp [sinsnsOf, sinsnOf, List.map_map, Function.comp_def]
      rw [h1, h2, zipWith_maps]
      simp only [relabel]
      apply List.map_congr_left
      intro e _
      cases e.frame with
      | none => rfl
      | some f => simp [rdFrame_frameOf]
    have fe : sexcs.map (fun e => (⟨e.start, e.end_, e.handler, e.catch_⟩ : ExceptionEntry)) = (relabel lab c).exceptions := by
      simp only [relabel]
      apply map_eq_of_zip _ sexcs _ (by simp [hel])
      intro x hx
      rw [List.zip_map_right] at hx
      obtain ⟨y, hy, rfl⟩ := List.mem_map.mp hx
      obtain ⟨a1, a2, a3, a4, _⟩ := her y hy
      simp [a1, a2, a3, a4]
    have fl : linesOf attrs = (relabel lab c).lines := by
      have hrest' : linesOf (lo2.toList ++ (lo3.toList ++ (lo4.toList ++ (lo5.toList ++ lo6)))) = none := by
        rw [linesOf_skip _ _ (fun a ha => by rw [tl2 a ha]; decide), linesOf_skip _ _ (fun a ha => by rw [tl3 a ha]; decide),
          linesOf_skip _ _ (fun a ha => by rw [tl4 a ha]; decide), linesOf_skip _ _ (fun a ha => by rw [tl5 a ha]; decide)]
        exact l6
      simp only [attrs, rest]
      rw [linesOf_skip _ _ (fun a ha => by rw [tl0 a ha]; decide)]
      cases hl : c.lines with
      | none => simp [lo1, hl, relabel, hrest']
      | some ls => simp [lo1, hl, relabel, linesOf, hrest']
    have fv : localsOf attrs = (relabel lab c).locals := by
      simp only [attrs, rest]
      rw [localsOf_skip _ _ (fun a ha => by rw [tl0 a ha]; decide), localsOf_skip _ _ (fun a ha => by rw [tl1 a ha]; decide)]
      apply hlocs
      rw [localsOf_skip _ _ (fun a ha => by rw [tl4 a ha]; decide), localsOf_skip _ _ (fun a ha => by rw [tl5 a ha]; decide)]
      exact v6
    have ft : ∀ v : Bool, typeAnnosOf v attrs = typeAnnosOf v (lo4.toList ++ (lo5.toList ++ lo6)) := by
      intro v
      simp only [attrs, rest]
      rw [typeAnnosOf_skip v _ _ (fun a ha => by rw [tl0 a ha]; decide),
        typeAnnosOf_skip v _ _ (fun a ha => by rw [tl1 a ha]; decide),
        typeAnnosOf_skip v _ _ (fun a ha => by rw [tl2 a ha]; decide),
        typeAnnosOf_skip v _ _ (fun a ha => by rw [tl3 a ha]; decide)]
    have fa1 : typeAnnosOf true attrs = (relabel lab c).rvta := by
      rw [ft]
      by_cases h4n : c.rvta = [] <;> by_cases h5n : c.ritva = [] <;>
        simp [lo4, lo5, h4n, h5n, typeAnnosOf, relabel, hf4, a6]
    have fa2 : typeAnnosOf false attrs = (relabel lab c).ritva := by
      rw [ft]
      by_cases h4n : c.rvta = [] <;> by_cases h5n : c.ritva = [] <;>
        simp [lo4, lo5, h4n, h5n, typeAnnosOf, relabel, hf5, a6]
    show CodeLayout.facts ⟨c.maxStack, c.maxLocals, sinsnsOf rcs, sexcs, attrs⟩ = relabel lab c
    simp only [CodeLayout.facts, fi, fe, fl, fv, fa1, fa2, f5]
    simp only [relabel]

end ClassWriteFull
