import FeatherModel.Model.VersionGraph
import FeatherModel.Lemmas.VersionGraphAlias

/-! What the file names of a directory say does not depend on the order of the files; the sorted listing. -/

namespace VG

theorem any_perm {α : Type} {l l' : List α} (h : l'.Perm l) (f : α → Bool) : l'.any f = l.any f := by
  cases hb : l.any f with
  | true =>
    rw [List.any_eq_true] at hb ⊢
    obtain ⟨x, hx, hf⟩ := hb
    exact ⟨x, h.mem_iff.mpr hx, hf⟩
  | false =>
    rw [List.any_eq_false] at hb ⊢
    intro x hx
    exact hb x (h.mem_iff.mp hx)

theorem dirVersions_mem_perm {d d' : List (JStr × Bytes)} (hp : d'.Perm d) (n : JStr) :
    n ∈ dirVersions d' ↔ n ∈ dirVersions d :=
  (hp.flatMap_right fileVersions).mem_iff

theorem splitsOf_mem_congr {a b : List JStr} (h : ∀ x, x ∈ a ↔ x ∈ b) (x : JStr) : x ∈ splitsOf a ↔ x ∈ splitsOf b := by
  rw [mem_splitsOf, mem_splitsOf, h x]

/-- without ambiguity, what a key stands for depends on the set of version strings only -/
theorem ownerOf_congr {a b : List JStr} (h : ∀ x, x ∈ a ↔ x ∈ b) (hd : KeysDisjoint (splitsOf b)) (k : JStr) :
    ownerOf a k = ownerOf b k := by
  have hda : KeysDisjoint (splitsOf a) := keysDisjoint_congr (fun x => (splitsOf_mem_congr h x).symm) hd
  cases ho : ownerOf b k with
  | some q =>
    obtain ⟨sp, n⟩ := q
    obtain ⟨hn, hk⟩ := ownerOf_some ho
    exact ownerOf_eq hda ((splitsOf_mem_congr h n).mpr hn) hk
  | none =>
    cases ho' : ownerOf a k with
    | none => rfl
    | some q =>
      obtain ⟨sp, n⟩ := q
      obtain ⟨hn, hk⟩ := ownerOf_some ho'
      have := ownerOf_eq hd ((splitsOf_mem_congr h n).mp hn) hk
      rw [ho] at this
      simp at this

theorem nodeOf_congr {a b : List JStr} (h : ∀ x, x ∈ a ↔ x ∈ b) (hd : KeysDisjoint (splitsOf b)) (vs : JStr) :
    nodeOf a vs = nodeOf b vs := by
  unfold nodeOf
  rw [ownerOf_congr h hd]

theorem nodeStrings_mem_congr {a b : List JStr} (h : ∀ x, x ∈ a ↔ x ∈ b) (hd : KeysDisjoint (splitsOf b)) (x : JStr) :
    x ∈ nodeStrings a ↔ x ∈ nodeStrings b := by
  rw [mem_nodeStrings, mem_nodeStrings, h x, ownerOf_congr h hd]

theorem nodeEdges_perm {d d' : List (JStr × Bytes)} (hp : d'.Perm d) (hd : KeysDisjoint (splitsOf (dirVersions d))) :
    (nodeEdges d').Perm (nodeEdges d) := by
  rw [nodeEdges_eq, nodeEdges_eq]
  have hfun : edgeAt (dirVersions d') = edgeAt (dirVersions d) := by
    funext e
    simp only [edgeAt, nodeOf_congr (dirVersions_mem_perm hp) hd]
  rw [hfun]
  exact (hp.filterMap fileEdge).map _

theorem pairs_perm {a b : List Edge} (h : a.Perm b) : (pairs a).Perm (pairs b) := h.map _

theorem roots_head_perm {d d' : List (JStr × Bytes)} (hp : d'.Perm d) (hd : KeysDisjoint (splitsOf (dirVersions d)))
    (hlen : (dirRoots d).length ≤ 1) :
    ((dirRoots d').map (rootAt (dirVersions d'))).head? = ((dirRoots d).map (rootAt (dirVersions d))).head? := by
  have hfun : rootAt (dirVersions d') = rootAt (dirVersions d) := by
    funext r
    simp only [rootAt, nodeOf_congr (dirVersions_mem_perm hp) hd]
  rw [hfun]
  have hperm : (dirRoots d').Perm (dirRoots d) := hp.filterMap fileRoot
  cases hr : dirRoots d with
  | nil => rw [hr] at hperm; rw [List.Perm.eq_nil hperm]
  | cons r rest =>
    cases rest with
    | nil => rw [hr] at hperm; rw [List.perm_singleton.mp hperm]
    | cons r2 rest2 => rw [hr] at hlen; simp at hlen

/-- **the closed form of the scan in terms of any listing `dir` of the same files** -/
theorem scanListed_spec_perm {files dir : List (JStr × Bytes)} (hp : files.Perm dir) :
    match scanListed files with
    | some g => dir.any badDiffName = false ∧ KeysDisjoint (splitsOf (dirVersions dir)) ∧
        (dirRoots dir).length ≤ 1 ∧ (pairs (nodeEdges dir)).Nodup ∧
        VersionsSpec g (nodeStrings (dirVersions dir)) ∧ NodesSpec g (nodeStrings (dirVersions dir)) ∧
        g.edges.Perm (nodeEdges dir) ∧ g.root = ((dirRoots dir).map (rootAt (dirVersions dir))).head?
    | none => dir.any badDiffName = true ∨ ¬ KeysDisjoint (splitsOf (dirVersions dir)) ∨
        2 ≤ (dirRoots dir).length ∨ ¬ (pairs (nodeEdges dir)).Nodup := by
  have hspec := scanListed_spec files
  have hmem := dirVersions_mem_perm hp
  have hbad : files.any badDiffName = dir.any badDiffName := any_perm hp _
  have hlen : (dirRoots files).length = (dirRoots dir).length := (hp.filterMap fileRoot).length_eq
  have hkd : KeysDisjoint (splitsOf (dirVersions files)) ↔ KeysDisjoint (splitsOf (dirVersions dir)) :=
    ⟨keysDisjoint_congr (splitsOf_mem_congr hmem), keysDisjoint_congr (fun x => (splitsOf_mem_congr hmem x).symm)⟩
  cases hs : scanListed files with
  | none =>
    rw [hs] at hspec
    simp only at hspec ⊢
    cases Classical.em (KeysDisjoint (splitsOf (dirVersions dir))) with
    | inr h => exact Or.inr (Or.inl h)
    | inl hd =>
      rcases hspec with h | h | h | h
      · exact Or.inl (hbad ▸ h)
      · exact absurd (hkd.mpr hd) h
      · exact Or.inr (Or.inr (Or.inl (hlen ▸ h)))
      · exact Or.inr (Or.inr (Or.inr (fun hn => h ((pairs_perm (nodeEdges_perm hp hd)).nodup_iff.mpr hn))))
  | some g =>
    rw [hs] at hspec
    simp only at hspec ⊢
    obtain ⟨h1, h2, h3, h4, h5, h6, h7, h8⟩ := hspec
    have hd := hkd.mp h2
    refine ⟨hbad ▸ h1, hd, hlen ▸ h3, (pairs_perm (nodeEdges_perm hp hd)).nodup_iff.mp h4,
      VersionsSpec_congr (nodeStrings_mem_congr hmem hd) h5, NodesSpec_congr (nodeStrings_mem_congr hmem hd) h6,
      h7 ▸ nodeEdges_perm hp hd, ?_⟩
    rw [h8]
    exact roots_head_perm hp hd (hlen ▸ h3)

/-! ## the sorted listing -/

theorem insertFile_perm (x : JStr × Bytes) : ∀ (ys : List (JStr × Bytes)), (insertFile x ys).Perm (x :: ys) := by
  intro ys
  induction ys with
  | nil => exact List.Perm.refl _
  | cons y ys ih =>
    simp only [insertFile]
    split
    · exact List.Perm.refl _
    · exact (ih.cons y).trans (List.Perm.swap x y ys)

theorem sortFiles_perm (dir : List (JStr × Bytes)) : (sortFiles dir).Perm dir := by
  induction dir with
  | nil => exact List.Perm.refl _
  | cons x xs ih =>
    simp only [sortFiles, List.foldr_cons] at ih ⊢
    exact (insertFile_perm x _).trans (ih.cons x)

def NameLe (a b : JStr × Bytes) : Prop := a.1 ≤ b.1

theorem insertFile_sorted (x : JStr × Bytes) : ∀ (ys : List (JStr × Bytes)), ys.Pairwise NameLe →
    (insertFile x ys).Pairwise NameLe := by
  intro ys
  induction ys with
  | nil => intro _; simp [insertFile]
  | cons y ys ih =>
    intro h
    rw [List.pairwise_cons] at h
    simp only [insertFile]
    split
    · rename_i hxy
      rw [List.pairwise_cons]
      refine ⟨?_, List.pairwise_cons.mpr h⟩
      intro z hz
      rcases List.mem_cons.mp hz with e | m
      · exact e ▸ hxy
      · exact List.le_trans hxy (h.1 z m)
    · rename_i hxy
      rw [List.pairwise_cons]
      refine ⟨?_, ih h.2⟩
      intro z hz
      rcases List.mem_cons.mp ((insertFile_perm x ys).mem_iff.mp hz) with e | m
      · subst e
        rcases List.le_total z.1 y.1 with h' | h'
        · exact absurd h' hxy
        · exact h'
      · exact h.1 z m

theorem sortFiles_sorted (dir : List (JStr × Bytes)) : (sortFiles dir).Pairwise NameLe := by
  induction dir with
  | nil => simp [sortFiles]
  | cons x xs ih =>
    simp only [sortFiles, List.foldr_cons] at ih ⊢
    exact insertFile_sorted x _ ih

/-- two listings of a directory without repeated file names sort to the same list -/
theorem sortFiles_eq_of_perm {dir dir' : List (JStr × Bytes)} (hp : dir'.Perm dir) (hnd : (dir.map Prod.fst).Nodup) :
    sortFiles dir' = sortFiles dir := by
  have hperm : (sortFiles dir').Perm (sortFiles dir) :=
    (sortFiles_perm dir').trans (hp.trans (sortFiles_perm dir).symm)
  refine List.Perm.eq_of_pairwise (le := NameLe) ?_ (sortFiles_sorted dir') (sortFiles_sorted dir) hperm
  intro a b ha hb hab hba
  have hname : a.1 = b.1 := List.le_antisymm hab hba
  have ha' : a ∈ dir := (sortFiles_perm dir).mem_iff.mp (hperm.mem_iff.mp ha)
  have hb' : b ∈ dir := (sortFiles_perm dir).mem_iff.mp hb
  exact nodup_map_inj hnd ha' hb' hname

end VG
