import FeatherModel.Lemmas.RawWriteRead

/-! C20: `write (readStrict b) = consumed prefix of b`; the checking reader refines the plain reader; fuel monotonicity. -/

namespace RawLayout

theorem readBody_wr (env : Env) (rc : Rec) (hrc : RecWR env rc) (id : Nat) (tag : Option (TExpr × Prim × Nat))
    (pool : Pool) (binds : Binds) (k : Nat) (body : Body) (bs : Bytes) (v : Val) (r : Bytes) (hb : IsBytes bs)
    (h : readBody true env id tag rc pool binds k body bs = .ok (v, r)) :
    ∃ fs a w, v = .node k fs ∧
      writeConsts (len32 (lenV env (.ref id) (.node k fs))) (mkCtx body.fields fs) body.pre = some a ∧
      writeFields env (len32 (lenV env (.ref id) (.node k fs))) (mkCtx body.fields fs) body.fields fs = some w ∧
      a ++ (w ++ r) = bs ∧
      (match tag with
       | none => True
       | some (e, p, t) => ∃ n, evalW e.bits (len32 (lenV env (.ref id) (.node k fs))) (mkCtx body.fields fs) e.e = some n ∧
          n % p.bound = t) := by
  simp only [readBody] at h
  cases h1 : readConsts binds body.pre bs with
  | ok x =>
    obtain ⟨binds1, t1, bs1⟩ := x
    rw [h1] at h; simp only [Res.bind_ok] at h
    obtain ⟨hec, hl1⟩ := readConsts_enc body.pre binds binds1 bs bs1 t1 hb h1
    cases h2 : readFields rc pool binds1 body.fields bs1 with
    | ok y =>
      obtain ⟨fs, t2, r2⟩ := y
      rw [h2] at h; simp only [Res.bind_ok, Bool.true_and] at h
      split at h
      · cases h
      · rename_i hag
        simp at h
        obtain ⟨rfl, rfl⟩ := h
        simp only [Bool.not_eq_true', Bool.not_eq_false] at hag
        simp only [nodeAgrees, Bool.and_eq_true, beq_iff_eq] at hag
        obtain ⟨hcv, htag⟩ := hag
        obtain ⟨hc1, hc2⟩ := constVals_split _ _ body.pre (allPost body.fields) t1 t2 hl1 hcv
        obtain ⟨w, hw, hew⟩ := readFields_wr env rc hrc body.fields pool binds1 bs1 fs t2 r2 (hb.suffix hec) h2 _ _ hc2
        refine ⟨fs, encConsts body.pre t1, w, rfl, writeConsts_of_vals _ _ _ _ hc1, hw, by rw [hew, hec], ?_⟩
        match tag, htag with
        | none, _ => trivial
        | some (e, p, t), htag =>
          simp only at htag ⊢
          split at htag
          · rename_i n hn
            exact ⟨n, hn, by simpa using htag⟩
          · cases htag
    | err => rw [h2] at h; cases h
    | panic => rw [h2] at h; cases h
    | fuel => rw [h2] at h; cases h
  | err => rw [h1] at h; cases h
  | panic => rw [h1] at h; cases h
  | fuel => rw [h1] at h; cases h

theorem readDef_wr (env : Env) (rc : Rec) (hrc : RecWR env rc) : RecWR env (readDef true rc env) := by
  intro id pool bs v r hb h
  simp only [readDef] at h
  split at h
  · cases h
  · -- struct
    rename_i nm body hdef
    obtain ⟨fs, a, w, rfl, ha, hw, he, _⟩ := readBody_wr env rc hrc id none pool [] 0 body bs v r hb h
    exact ⟨a ++ w, by simp [writeV, hdef, ha, hw], by rw [List.append_assoc, he]⟩
  · -- enum
    rename_i nm tn tagTy variants fb hdef
    split at h
    · cases h
    · rename_i tag bs1 ht
      obtain ⟨hlt, het⟩ := be_takeBE tagTy bs bs1 tag hb ht
      cases hs : selectVariant env.utf8 env.wide pool tag variants 0 with
      | ok x =>
        obtain ⟨i, var⟩ := x
        rw [hs] at h; simp only [Res.bind_ok] at h
        obtain ⟨_, hv⟩ := selectVariant_idx env.utf8 env.wide pool tag variants 0 i var hs
        simp at hv
        obtain ⟨fs, a, w, rfl, ha, hw, he, n, hn, hnt⟩ :=
          readBody_wr env rc hrc id (some (var.tagWrite, tagTy, tag)) pool _ i var.body bs1 v r (hb.suffix het) h
        refine ⟨be tagTy tag ++ (a ++ w), by simp [writeV, hdef, hv, hn, ha, hw, hnt], ?_⟩
        rw [List.append_assoc, List.append_assoc, he, het]
      | err => rw [hs] at h; cases h
      | panic => rw [hs] at h; cases h
      | fuel => rw [hs] at h; cases h

theorem readStrict_wr (env : Env) : ∀ fuel, RecWR env (readG true env fuel) := by
  intro fuel
  induction fuel with
  | zero => intro id pool bs v r _ h; simp [readG] at h
  | succ f ih => exact readDef_wr env _ ih

/-! ## the checking reader refines the plain reader -/

/-- every successful answer of `rc1` is also given by `rc2` -/
def RecLe (rc1 rc2 : Rec) : Prop := ∀ id pool bs x, rc1 id pool bs = .ok x → rc2 id pool bs = .ok x

theorem readN_le (rd1 rd2 : Bytes → Res (Val × Bytes)) (hle : ∀ bs x, rd1 bs = .ok x → rd2 bs = .ok x) :
    ∀ n bs x, readN rd1 n bs = .ok x → readN rd2 n bs = .ok x := by
  intro n
  induction n with
  | zero => intro bs x h; simpa [readN] using h
  | succ n ih =>
    intro bs x h
    simp only [readN] at h ⊢
    cases h1 : rd1 bs with
    | ok y =>
      rw [h1] at h; rw [hle bs y h1]
      simp only [Res.bind_ok] at h ⊢
      cases h2 : readN rd1 n y.2 with
      | ok z => rw [h2] at h; rw [ih y.2 z h2]; exact h
      | err => rw [h2] at h; cases h
      | panic => rw [h2] at h; cases h
      | fuel => rw [h2] at h; cases h
    | err => rw [h1] at h; cases h
    | panic => rw [h1] at h; cases h
    | fuel => rw [h1] at h; cases h

theorem readSlots_le (wide : List Nat) (rd1 rd2 : Bytes → Res (Val × Bytes))
    (hle : ∀ bs x, rd1 bs = .ok x → rd2 bs = .ok x) :
    ∀ N n, n ≤ N → ∀ bs x, readSlots wide rd1 n bs = .ok x → readSlots wide rd2 n bs = .ok x := by
  intro N
  induction N with
  | zero =>
    intro n hn bs x h
    have : n = 0 := by omega
    subst this; simpa [readSlots] using h
  | succ N ih =>
    intro n hn bs x h
    cases n with
    | zero => simpa [readSlots] using h
    | succ n =>
      simp only [readSlots] at h ⊢
      cases h1 : rd1 bs with
      | ok y =>
        obtain ⟨v, bs1⟩ := y
        rw [h1] at h; rw [hle bs _ h1]
        simp only [Res.bind_ok] at h ⊢
        have step : ∀ m, m ≤ N →
            ((readSlots wide rd1 m bs1).bind fun (vs, r) => Res.ok (v :: vs, r)) = .ok x →
            ((readSlots wide rd2 m bs1).bind fun (vs, r) => Res.ok (v :: vs, r)) = .ok x := by
          intro m hm hb
          cases h2 : readSlots wide rd1 m bs1 with
          | ok z => rw [h2] at hb; rw [ih m hm bs1 z h2]; exact hb
          | err => rw [h2] at hb; cases hb
          | panic => rw [h2] at hb; cases hb
          | fuel => rw [h2] at hb; cases hb
        cases hwd : isWide wide v with
        | true =>
          simp only [hwd, if_true] at h ⊢
          cases n with
          | zero => cases h
          | succ m => exact step m (by omega) h
        | false =>
          simp only [hwd] at h ⊢
          exact step n (by omega) (by simpa using h)
      | err => rw [h1] at h; cases h
      | panic => rw [h1] at h; cases h
      | fuel => rw [h1] at h; cases h

theorem readTy_le (rc1 rc2 : Rec) (hle : RecLe rc1 rc2) : ∀ ty pool binds bs x,
    readTy rc1 pool binds ty bs = .ok x → readTy rc2 pool binds ty bs = .ok x := by
  intro ty
  induction ty with
  | prim p => intro pool binds bs x h; simpa [readTy] using h
  | vecCnt c el ih =>
    intro pool binds bs x h
    simp only [readTy] at h ⊢
    split at h
    · rename_i n r ht
      cases h2 : readN (readTy rc1 pool binds el) n r with
      | ok z =>
        rw [h2] at h
        rw [readN_le _ _ (fun bs x h => ih pool binds bs x h) n r z h2]
        exact h
      | err => rw [h2] at h; cases h
      | panic => rw [h2] at h; cases h
      | fuel => rw [h2] at h; cases h
    · cases h
  | vecLen e el ih =>
    intro pool binds bs x h
    simp only [readTy] at h ⊢
    split at h
    · rename_i n hn
      cases h2 : readN (readTy rc1 pool binds el) n bs with
      | ok z =>
        rw [h2] at h
        rw [readN_le _ _ (fun bs x h => ih pool binds bs x h) n bs z h2]
        exact h
      | err => rw [h2] at h; cases h
      | panic => rw [h2] at h; cases h
      | fuel => rw [h2] at h; cases h
    · cases h
  | vecSlots e wd el ih =>
    intro pool binds bs x h
    simp only [readTy] at h ⊢
    split at h
    · rename_i n hn
      cases h2 : readSlots wd (readTy rc1 pool binds el) n bs with
      | ok z =>
        rw [h2] at h
        rw [readSlots_le wd _ _ (fun bs x h => ih pool binds bs x h) n n (Nat.le_refl _) bs z h2]
        exact h
      | err => rw [h2] at h; cases h
      | panic => rw [h2] at h; cases h
      | fuel => rw [h2] at h; cases h
    · cases h
  | ref id => intro pool binds bs x h; exact hle id pool bs x h

theorem readFields_le (rc1 rc2 : Rec) (hle : RecLe rc1 rc2) : ∀ fds pool binds bs x,
    readFields rc1 pool binds fds bs = .ok x → readFields rc2 pool binds fds bs = .ok x := by
  intro fds
  induction fds with
  | nil => intro pool binds bs x h; simpa [readFields] using h
  | cons f fds ih =>
    intro pool binds bs x h
    simp only [readFields] at h ⊢
    split at h
    · rename_i ty sp hk
      cases h1 : readTy rc1 pool binds ty bs with
      | ok y =>
        rw [h1] at h; rw [readTy_le rc1 rc2 hle ty pool binds bs y h1]
        simp only [Res.bind_ok] at h ⊢
        cases h2 : readConsts (bindVal f.name y.1 binds) f.post y.2 with
        | ok z =>
          rw [h2] at h; simp only [Res.bind_ok] at h ⊢
          cases h3 : readFields rc1 (poolAfter sp y.1 pool) z.1 fds z.2.2 with
          | ok u => rw [h3] at h; rw [ih _ _ _ u h3]; exact h
          | err => rw [h3] at h; cases h
          | panic => rw [h3] at h; cases h
          | fuel => rw [h3] at h; cases h
        | err => rw [h2] at h; cases h
        | panic => rw [h2] at h; cases h
        | fuel => rw [h2] at h; cases h
      | err => rw [h1] at h; cases h
      | panic => rw [h1] at h; cases h
      | fuel => rw [h1] at h; cases h
    · rename_i p e hk
      split at h
      · cases h
      · rename_i n hn
        cases h2 : readConsts ((f.name, n) :: binds) f.post bs with
        | ok z =>
          rw [h2] at h; simp only [Res.bind_ok] at h ⊢
          cases h3 : readFields rc1 pool z.1 fds z.2.2 with
          | ok u => rw [h3] at h; rw [ih _ _ _ u h3]; exact h
          | err => rw [h3] at h; cases h
          | panic => rw [h3] at h; cases h
          | fuel => rw [h3] at h; cases h
        | err => rw [h2] at h; cases h
        | panic => rw [h2] at h; cases h
        | fuel => rw [h2] at h; cases h

/-- `readBody` is monotone in the reader of nested definitions, and dropping the check keeps every success -/
theorem readBody_le (s1 s2 : Bool) (hs : s2 = true → s1 = true) (env : Env) (rc1 rc2 : Rec) (hle : RecLe rc1 rc2)
    (id : Nat) (tag : Option (TExpr × Prim × Nat)) (pool : Pool) (binds : Binds) (k : Nat) (body : Body) (bs : Bytes)
    (x : Val × Bytes) (h : readBody s1 env id tag rc1 pool binds k body bs = .ok x) :
    readBody s2 env id tag rc2 pool binds k body bs = .ok x := by
  simp only [readBody] at h ⊢
  cases h1 : readConsts binds body.pre bs with
  | ok y =>
    rw [h1] at h; simp only [Res.bind_ok] at h ⊢
    cases h2 : readFields rc1 pool y.1 body.fields y.2.2 with
    | ok z =>
      rw [h2] at h; rw [readFields_le rc1 rc2 hle _ _ _ _ z h2]
      simp only [Res.bind_ok] at h ⊢
      split at h
      · cases h
      · rename_i hn
        have : (s2 && !nodeAgrees env id k body tag z.1 (y.2.1 ++ z.2.1)) = false := by
          cases s2 with
          | false => rfl
          | true => simp only [hs rfl, Bool.true_and] at hn; simpa using hn
        simp only [this]
        exact h
    | err => rw [h2] at h; cases h
    | panic => rw [h2] at h; cases h
    | fuel => rw [h2] at h; cases h
  | err => rw [h1] at h; cases h
  | panic => rw [h1] at h; cases h
  | fuel => rw [h1] at h; cases h

theorem readDef_le (s1 s2 : Bool) (hs : s2 = true → s1 = true) (env : Env) (rc1 rc2 : Rec) (hle : RecLe rc1 rc2) :
    RecLe (readDef s1 rc1 env) (readDef s2 rc2 env) := by
  intro id pool bs x h
  simp only [readDef] at h ⊢
  split at h
  · cases h
  · exact readBody_le s1 s2 hs env rc1 rc2 hle _ _ _ _ _ _ _ x h
  · split at h
    · cases h
    · rename_i tag bs1 ht
      cases hsel : selectVariant env.utf8 env.wide pool tag _ 0 with
      | ok y =>
        rw [hsel] at h; simp only [Res.bind_ok] at h ⊢
        exact readBody_le s1 s2 hs env rc1 rc2 hle _ _ _ _ _ _ _ x h
      | err => rw [hsel] at h; cases h
      | panic => rw [hsel] at h; cases h
      | fuel => rw [hsel] at h; cases h

/-- whatever the checking reader returns, the plain reader (the Rust code) returns too -/
theorem readStrict_le_read (env : Env) : ∀ fuel, RecLe (readG true env fuel) (readG false env fuel) := by
  intro fuel
  induction fuel with
  | zero => intro id pool bs x h; simp [readG] at h
  | succ f ih => exact readDef_le true false (by simp) env _ _ ih

/-- **fuel monotonicity**: a successful read stays the same with more fuel (fuel only bounds the nesting of definitions) -/
theorem readG_fuel_succ (s : Bool) (env : Env) : ∀ fuel, RecLe (readG s env fuel) (readG s env (fuel + 1)) := by
  intro fuel
  induction fuel with
  | zero => intro id pool bs x h; simp [readG] at h
  | succ f ih => exact readDef_le s s id env _ _ ih

theorem readG_fuel_mono (s : Bool) (env : Env) (f g : Nat) (h : f ≤ g) : RecLe (readG s env f) (readG s env g) := by
  induction h with
  | refl => intro id pool bs x h; exact h
  | step _ ih => intro id pool bs x h; exact readG_fuel_succ s env _ id pool bs x (ih id pool bs x h)

end RawLayout
