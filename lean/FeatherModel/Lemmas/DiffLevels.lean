import FeatherModel.Lemmas.DiffInverse

/-!
# `diff` then `apply` at the parameter, field, method and class level (two namespaces, target namespace 1)
-/

namespace DiffModel
open AList

theorem len2 {α : Type} {l : List α} (h : l.length = 2) : ∃ x y, l = [x, y] := by
  match l, h with
  | [x, y], _ => exact ⟨x, y, rfl⟩

theorem applyOption_fromTuple (a b : Option JStr) : applyOption (Action.fromTuple a b) a = some b := by
  cases a <;> cases b <;> simp [Action.fromTuple, applyOption]

theorem flat_some {α : Type} (x : Option α) : flat (some x) = x := by cases x <;> rfl

theorem genDiffDoc_AB (a b : Option JStr) : applyOption (genDiffDoc (some a) (some b)) a = some b := by
  unfold genDiffDoc; rw [flat_some, flat_some]; exact applyOption_fromTuple a b

theorem genDiffDoc_B (b : Option JStr) : applyOption (genDiffDoc none (some b)) none = some b := by
  unfold genDiffDoc; rw [flat_some]; exact applyOption_fromTuple none b

theorem nameAt_zero {l : Names} (h : l.length = 2) : some (nameAt l 0) = l[0]? := by
  obtain ⟨x, y, rfl⟩ := len2 h
  cases x <;> simp [nameAt]

theorem names_AB {na nb : Names} {act : Action JStr} (ha : na.length = 2) (hb : nb.length = 2)
    (h0 : na[0]? = nb[0]?) (hg : genDiffNames (some na) (some nb) = some act) :
    ∃ a1 b1, act = .edit a1 b1 ∧ changeName 1 (some a1) (some b1) na = some nb := by
  obtain ⟨x0, x1, rfl⟩ := len2 ha
  obtain ⟨y0, y1, rfl⟩ := len2 hb
  simp only [List.getElem?_cons_zero, Option.some.injEq] at h0
  subst h0
  cases x1 with
  | none => simp [genDiffNames, nameAt] at hg
  | some a1 =>
    cases y1 with
    | none => simp [genDiffNames, nameAt] at hg
    | some b1 =>
      simp only [genDiffNames, nameAt, List.getElem?_cons_succ, List.getElem?_cons_zero, Option.some.injEq] at hg
      exact ⟨a1, b1, hg.symm, by simp [changeName]⟩

theorem names_A {na : Names} {act : Action JStr} (ha : na.length = 2)
    (hg : genDiffNames (some na) none = some act) :
    ∃ a1, act = .remove a1 ∧ ∃ n', changeName 1 (some a1) none na = some n' := by
  obtain ⟨x0, x1, rfl⟩ := len2 ha
  cases x1 with
  | none => simp [genDiffNames, nameAt] at hg
  | some a1 =>
    simp only [genDiffNames, nameAt, List.getElem?_cons_succ, List.getElem?_cons_zero, Option.map_some,
      Option.some.injEq] at hg
    exact ⟨a1, hg.symm, by simp [changeName]⟩

theorem names_B {nb : Names} {act : Action JStr} {x0 : Option JStr} (hb : nb.length = 2) (h0 : nb[0]? = some x0)
    (hg : genDiffNames none (some nb) = some act) :
    ∃ b1, act = .add b1 ∧ [x0, none].set 1 (some b1) = nb := by
  obtain ⟨y0, y1, rfl⟩ := len2 hb
  simp only [List.getElem?_cons_zero, Option.some.injEq] at h0
  subst h0
  cases y1 with
  | none => simp [genDiffNames, nameAt] at hg
  | some b1 =>
    simp only [genDiffNames, nameAt, List.getElem?_cons_succ, List.getElem?_cons_zero, Option.map_some,
      Option.some.injEq] at hg
    exact ⟨b1, hg.symm, by simp⟩

theorem changeName_add2 (x : Option JStr) (b : JStr) : changeName 1 none (some b) [x, none] = some [x, some b] := by
  simp [changeName]

/-! ## parameter level -/

theorem param_AB {k : Nat} {pa pb : Param} {d : PDiff} (wa : Param.WF 2 k pa) (wb : Param.WF 2 k pb)
    (h0 : pb.names[0]? = some (nameAt pa.names 0)) (hd : diffParam (some pa) (some pb) = some d) :
    ∃ t', applyPresent paramOps 1 applyParam d pa = some (some t') ∧ t' = pb := by
  obtain ⟨ia, la⟩ := wa
  obtain ⟨ib, lb⟩ := wb
  rw [nameAt_zero la] at h0
  unfold diffParam at hd
  simp only [Option.map_some] at hd
  cases hg : genDiffNames (some pa.names) (some pb.names) with
  | none => rw [hg] at hd; simp at hd
  | some act =>
    rw [hg] at hd
    simp only [Option.some.injEq] at hd
    subst hd
    obtain ⟨a1, b1, hact, hcn⟩ := names_AB la lb h0.symm hg
    subst hact
    refine ⟨pb, ?_, rfl⟩
    simp only [applyPresent, paramOps, hcn, applyParam, genDiffDoc_AB, Option.map_some]
    cases pa; cases pb
    simp_all

theorem param_A {pa : Param} {d : PDiff} (la : pa.names.length = 2) (hd : diffParam (some pa) none = some d) :
    applyPresent paramOps 1 applyParam d pa = some none := by
  unfold diffParam at hd
  simp only [Option.map_some, Option.map_none] at hd
  cases hg : genDiffNames (some pa.names) none with
  | none => rw [hg] at hd; simp at hd
  | some act =>
    rw [hg] at hd
    simp only [Option.some.injEq] at hd
    subst hd
    obtain ⟨a1, hact, n', hcn⟩ := names_A la hg
    subst hact
    simp [applyPresent, paramOps, hcn]

theorem param_B {k : Nat} {pb : Param} {d : PDiff} (wb : Param.WF 2 k pb) (h0 : pb.names[0]? = some none)
    (hd : diffParam none (some pb) = some d) :
    ∃ t', applyAbsent paramOps 1 2 applyParam k d = some t' ∧ t' = pb := by
  obtain ⟨ib, lb⟩ := wb
  unfold diffParam at hd
  simp only [Option.map_some, Option.map_none] at hd
  cases hg : genDiffNames none (some pb.names) with
  | none => rw [hg] at hd; simp at hd
  | some act =>
    rw [hg] at hd
    simp only [Option.some.injEq] at hd
    subst hd
    obtain ⟨b1, hact, hset⟩ := names_B lb h0 hg
    subst hact
    refine ⟨pb, ?_, rfl⟩
    simp only [applyAbsent, paramOps, applyParam, genDiffDoc_B, List.replicate, changeName_add2]
    cases pb
    simp_all

/-! ## field level -/

theorem field_AB {k : MemberKey} {fa fb : Field} {d : FDiff} (wa : Field.WF 2 k fa) (wb : Field.WF 2 k fb)
    (hd : diffField (some fa) (some fb) = some d) :
    ∃ t', applyPresent fieldOps 1 applyField d fa = some (some t') ∧ t' = fb := by
  obtain ⟨da, la, na⟩ := wa
  obtain ⟨db, lb, nb⟩ := wb
  unfold diffField at hd
  simp only [Option.map_some] at hd
  cases hg : genDiffNames (some fa.names) (some fb.names) with
  | none => rw [hg] at hd; simp at hd
  | some act =>
    rw [hg] at hd
    simp only [Option.some.injEq] at hd
    subst hd
    obtain ⟨a1, b1, hact, hcn⟩ := names_AB la lb (by rw [na, nb]) hg
    subst hact
    refine ⟨fb, ?_, rfl⟩
    simp only [applyPresent, fieldOps, hcn, applyField, genDiffDoc_AB, Option.map_some]
    cases fa; cases fb
    simp_all

theorem field_A {fa : Field} {d : FDiff} (la : fa.names.length = 2) (hd : diffField (some fa) none = some d) :
    applyPresent fieldOps 1 applyField d fa = some none := by
  unfold diffField at hd
  simp only [Option.map_some, Option.map_none] at hd
  cases hg : genDiffNames (some fa.names) none with
  | none => rw [hg] at hd; simp at hd
  | some act =>
    rw [hg] at hd
    simp only [Option.some.injEq] at hd
    subst hd
    obtain ⟨a1, hact, n', hcn⟩ := names_A la hg
    subst hact
    simp [applyPresent, fieldOps, hcn]

theorem field_B {k : MemberKey} {fb : Field} {d : FDiff} (wb : Field.WF 2 k fb)
    (hd : diffField none (some fb) = some d) :
    ∃ t', applyAbsent fieldOps 1 2 applyField k d = some t' ∧ t' = fb := by
  obtain ⟨db, lb, nb⟩ := wb
  unfold diffField at hd
  simp only [Option.map_some, Option.map_none] at hd
  cases hg : genDiffNames none (some fb.names) with
  | none => rw [hg] at hd; simp at hd
  | some act =>
    rw [hg] at hd
    simp only [Option.some.injEq] at hd
    subst hd
    obtain ⟨b1, hact, hset⟩ := names_B lb nb hg
    subst hact
    refine ⟨fb, ?_, rfl⟩
    simp only [applyAbsent, fieldOps, applyField, genDiffDoc_B, fromFirstName, List.replicate, changeName_add2]
    cases fb
    simp_all

/-! ## content equality as propositions (what `eqvMappings` of `Model/DiffSpec.lean` decides) -/

/-- same descriptor, names and comment; same parameter under every index -/
def MethodEqv (m' mb : Method) : Prop :=
  m'.desc = mb.desc ∧ m'.names = mb.names ∧ m'.doc = mb.doc ∧ ∀ k, lookup k m'.params = lookup k mb.params

/-- same names and comment; same field under every key; equivalent method under every key -/
def ClassEqv (c' cb : Class) : Prop :=
  c'.names = cb.names ∧ c'.doc = cb.doc ∧ (∀ k, lookup k c'.fields = lookup k cb.fields) ∧
    ∀ k, OptRel MethodEqv (lookup k c'.methods) (lookup k cb.methods)

/-- **content equality `≈`**: same namespaces and comment; equivalent class under every key -/
def MappingsEqv (r b : Mappings) : Prop :=
  r.ns = b.ns ∧ r.doc = b.doc ∧ ∀ k, OptRel ClassEqv (lookup k r.classes) (lookup k b.classes)

theorem optRel_eq {T : Type} {x y : Option T} (h : OptRel (fun a b => a = b) x y) : x = y := by
  cases x <;> cases y <;> simp_all [OptRel]

/-- the parameter part of `ParamSrcless` for one method: `pas` are the parameters of the `a` side (`[]` if there is none) -/
def PSrc (pas : AList Nat Param) (mb : Method) : Prop :=
  ∀ p ∈ mb.params, p.2.names[0]? = some (match lookup p.1 pas with
    | some pa => nameAt pa.names 0
    | none => none)

/-- … for one class: `mas` are the methods of the `a` side -/
def CSrc (mas : AList MemberKey Method) (cb : Class) : Prop :=
  ∀ m ∈ cb.methods, PSrc (match lookup m.1 mas with
    | some ma => ma.params
    | none => []) m.2

theorem nodup_nil {K V : Type} : NoDup ([] : AList K V) := by unfold NoDup; simp [keys]

/-! ## method level -/

theorem params_inverse {pas pbs : AList Nat Param} {dm : AList Nat PDiff}
    (hna : NoDup pas) (hnb : NoDup pbs)
    (wa : ∀ e ∈ pas, Param.WF 2 e.1 e.2) (wb : ∀ e ∈ pbs, Param.WF 2 e.1 e.2)
    (hsrc : ∀ p ∈ pbs, p.2.names[0]? = some (match lookup p.1 pas with
      | some pa => nameAt pa.names 0
      | none => none))
    (hz : zipMap diffParam pas pbs = some dm) :
    ∃ res, applyMap paramOps 1 2 applyParam dm pas = some res ∧ ∀ k, lookup k res = lookup k pbs := by
  obtain ⟨res, hres, hrel⟩ := diff_apply_map paramOps 1 2 applyParam diffParam (fun a b => a = b) hna hnb
    (by
      intro k pa pb d hla hlb hd
      have h0 := hsrc (k, pb) (mem_of_lookup hlb)
      simp only [hla] at h0
      exact param_AB (wa _ (mem_of_lookup hla)) (wb _ (mem_of_lookup hlb)) h0 hd)
    (by
      intro k pa d hla _ hd
      exact param_A (wa _ (mem_of_lookup hla)).2 hd)
    (by
      intro k pb d hla hlb hd
      have h0 := hsrc (k, pb) (mem_of_lookup hlb)
      simp only [hla] at h0
      exact param_B (wb _ (mem_of_lookup hlb)) h0 hd)
    hz
  exact ⟨res, hres, fun k => optRel_eq (hrel k)⟩

theorem method_AB {k : MemberKey} {ma mb : Method} {d : MDiff} (wa : Method.WF 2 k ma) (wb : Method.WF 2 k mb)
    (hsrc : PSrc ma.params mb) (hd : diffMethod (some ma) (some mb) = some d) :
    ∃ t', applyPresent methodOps 1 (applyMethod 1 2) d ma = some (some t') ∧ MethodEqv t' mb := by
  obtain ⟨da, la, na, hna, wpa⟩ := wa
  obtain ⟨db, lb, nb, hnb, wpb⟩ := wb
  unfold diffMethod at hd
  simp only [Option.map_some, kids] at hd
  cases hg : genDiffNames (some ma.names) (some mb.names) with
  | none => rw [hg] at hd; simp at hd
  | some act =>
    rw [hg] at hd
    simp only at hd
    cases hz : zipMap diffParam ma.params mb.params with
    | none => rw [hz] at hd; simp at hd
    | some ps =>
      rw [hz] at hd
      simp only [Option.some.injEq] at hd
      subst hd
      obtain ⟨a1, b1, hact, hcn⟩ := names_AB la lb (by rw [na, nb]) hg
      subst hact
      obtain ⟨res, hres, hl⟩ := params_inverse hna hnb wpa wpb hsrc hz
      refine ⟨{ ma with names := mb.names, doc := mb.doc, params := res }, ?_, ?_⟩
      · simp only [applyPresent, methodOps, hcn, applyMethod, genDiffDoc_AB, hres, Option.map_some]
      · exact ⟨by simp [da, db], rfl, rfl, hl⟩

theorem method_A {ma : Method} {d : MDiff} (la : ma.names.length = 2) (hd : diffMethod (some ma) none = some d) :
    applyPresent methodOps 1 (applyMethod 1 2) d ma = some none := by
  unfold diffMethod at hd
  simp only [Option.map_some, Option.map_none, kids] at hd
  cases hg : genDiffNames (some ma.names) none with
  | none => rw [hg] at hd; simp at hd
  | some act =>
    rw [hg] at hd
    simp only at hd
    cases hz : zipMap diffParam ma.params [] with
    | none => rw [hz] at hd; simp at hd
    | some ps =>
      rw [hz] at hd
      simp only [Option.some.injEq] at hd
      subst hd
      obtain ⟨a1, hact, n', hcn⟩ := names_A la hg
      subst hact
      simp [applyPresent, methodOps, hcn]

theorem method_B {k : MemberKey} {mb : Method} {d : MDiff} (wb : Method.WF 2 k mb)
    (hsrc : PSrc [] mb) (hd : diffMethod none (some mb) = some d) :
    ∃ t', applyAbsent methodOps 1 2 (applyMethod 1 2) k d = some t' ∧ MethodEqv t' mb := by
  obtain ⟨db, lb, nb, hnb, wpb⟩ := wb
  unfold diffMethod at hd
  simp only [Option.map_some, Option.map_none, kids] at hd
  cases hg : genDiffNames none (some mb.names) with
  | none => rw [hg] at hd; simp at hd
  | some act =>
    rw [hg] at hd
    simp only at hd
    cases hz : zipMap diffParam [] mb.params with
    | none => rw [hz] at hd; simp at hd
    | some ps =>
      rw [hz] at hd
      simp only [Option.some.injEq] at hd
      subst hd
      obtain ⟨b1, hact, hset⟩ := names_B lb nb hg
      subst hact
      obtain ⟨res, hres, hl⟩ := params_inverse nodup_nil hnb (by intro e he; cases he) wpb hsrc hz
      refine ⟨{ desc := k.2, names := mb.names, doc := mb.doc, params := res }, ?_, ?_⟩
      · have hset' : [some k.1, some b1] = mb.names := by simpa using hset
        simp only [applyAbsent, methodOps, applyMethod, genDiffDoc_B, fromFirstName, List.replicate, changeName_add2,
          hset', hres]
      · exact ⟨db.symm, rfl, rfl, hl⟩

/-! ## class level -/

theorem fields_inverse {fas fbs : AList MemberKey Field} {dm : AList MemberKey FDiff}
    (hna : NoDup fas) (hnb : NoDup fbs)
    (wa : ∀ e ∈ fas, Field.WF 2 e.1 e.2) (wb : ∀ e ∈ fbs, Field.WF 2 e.1 e.2)
    (hz : zipMap diffField fas fbs = some dm) :
    ∃ res, applyMap fieldOps 1 2 applyField dm fas = some res ∧ ∀ k, lookup k res = lookup k fbs := by
  obtain ⟨res, hres, hrel⟩ := diff_apply_map fieldOps 1 2 applyField diffField (fun a b => a = b) hna hnb
    (by
      intro k fa fb d hla hlb hd
      exact field_AB (wa _ (mem_of_lookup hla)) (wb _ (mem_of_lookup hlb)) hd)
    (by
      intro k fa d hla _ hd
      exact field_A (wa _ (mem_of_lookup hla)).2.1 hd)
    (by
      intro k fb d _ hlb hd
      exact field_B (wb _ (mem_of_lookup hlb)) hd)
    hz
  exact ⟨res, hres, fun k => optRel_eq (hrel k)⟩

theorem methods_inverse {mas mbs : AList MemberKey Method} {dm : AList MemberKey MDiff}
    (hna : NoDup mas) (hnb : NoDup mbs)
    (wa : ∀ e ∈ mas, Method.WF 2 e.1 e.2) (wb : ∀ e ∈ mbs, Method.WF 2 e.1 e.2)
    (hsrc : ∀ m ∈ mbs, PSrc (match lookup m.1 mas with
      | some ma => ma.params
      | none => []) m.2)
    (hz : zipMap diffMethod mas mbs = some dm) :
    ∃ res, applyMap methodOps 1 2 (applyMethod 1 2) dm mas = some res ∧
      ∀ k, OptRel MethodEqv (lookup k res) (lookup k mbs) := by
  exact diff_apply_map methodOps 1 2 (applyMethod 1 2) diffMethod MethodEqv hna hnb
    (by
      intro k ma mb d hla hlb hd
      have h0 := hsrc (k, mb) (mem_of_lookup hlb)
      simp only [hla] at h0
      exact method_AB (wa _ (mem_of_lookup hla)) (wb _ (mem_of_lookup hlb)) h0 hd)
    (by
      intro k ma d hla _ hd
      exact method_A (wa _ (mem_of_lookup hla)).2.1 hd)
    (by
      intro k mb d hla hlb hd
      have h0 := hsrc (k, mb) (mem_of_lookup hlb)
      simp only [hla] at h0
      exact method_B (wb _ (mem_of_lookup hlb)) h0 hd)
    hz

theorem class_AB {k : JStr} {ca cb : Class} {d : CDiff} (wa : Class.WF 2 k ca) (wb : Class.WF 2 k cb)
    (hsrc : CSrc ca.methods cb) (hd : diffClass (some ca) (some cb) = some d) :
    ∃ t', applyPresent classOps 1 (applyClass 1 2) d ca = some (some t') ∧ ClassEqv t' cb := by
  obtain ⟨la, na, hnfa, wfa, hnma, wma⟩ := wa
  obtain ⟨lb, nb, hnfb, wfb, hnmb, wmb⟩ := wb
  unfold diffClass at hd
  simp only [Option.map_some, kids] at hd
  cases hg : genDiffNames (some ca.names) (some cb.names) with
  | none => rw [hg] at hd; simp at hd
  | some act =>
    rw [hg] at hd
    simp only at hd
    cases hzf : zipMap diffField ca.fields cb.fields with
    | none => rw [hzf] at hd; simp at hd
    | some fs =>
      rw [hzf] at hd
      simp only at hd
      cases hzm : zipMap diffMethod ca.methods cb.methods with
      | none => rw [hzm] at hd; simp at hd
      | some ms =>
        rw [hzm] at hd
        simp only [Option.some.injEq] at hd
        subst hd
        obtain ⟨a1, b1, hact, hcn⟩ := names_AB la lb (by rw [na, nb]) hg
        subst hact
        obtain ⟨rf, hrf, hlf⟩ := fields_inverse hnfa hnfb wfa wfb hzf
        obtain ⟨rm, hrm, hlm⟩ := methods_inverse hnma hnmb wma wmb hsrc hzm
        refine ⟨{ ca with names := cb.names, doc := cb.doc, fields := rf, methods := rm }, ?_, ?_⟩
        · simp only [applyPresent, classOps, hcn, applyClass, genDiffDoc_AB, hrf, hrm, Option.map_some]
        · exact ⟨rfl, rfl, hlf, hlm⟩

theorem class_A {ca : Class} {d : CDiff} (la : ca.names.length = 2) (hd : diffClass (some ca) none = some d) :
    applyPresent classOps 1 (applyClass 1 2) d ca = some none := by
  unfold diffClass at hd
  simp only [Option.map_some, Option.map_none, kids] at hd
  cases hg : genDiffNames (some ca.names) none with
  | none => rw [hg] at hd; simp at hd
  | some act =>
    rw [hg] at hd
    simp only at hd
    cases hzf : zipMap diffField ca.fields [] with
    | none => rw [hzf] at hd; simp at hd
    | some fs =>
      rw [hzf] at hd
      simp only at hd
      cases hzm : zipMap diffMethod ca.methods [] with
      | none => rw [hzm] at hd; simp at hd
      | some ms =>
        rw [hzm] at hd
        simp only [Option.some.injEq] at hd
        subst hd
        obtain ⟨a1, hact, n', hcn⟩ := names_A la hg
        subst hact
        simp [applyPresent, classOps, hcn]

theorem class_B {k : JStr} {cb : Class} {d : CDiff} (wb : Class.WF 2 k cb)
    (hsrc : CSrc [] cb) (hd : diffClass none (some cb) = some d) :
    ∃ t', applyAbsent classOps 1 2 (applyClass 1 2) k d = some t' ∧ ClassEqv t' cb := by
  obtain ⟨lb, nb, hnfb, wfb, hnmb, wmb⟩ := wb
  unfold diffClass at hd
  simp only [Option.map_some, Option.map_none, kids] at hd
  cases hg : genDiffNames none (some cb.names) with
  | none => rw [hg] at hd; simp at hd
  | some act =>
    rw [hg] at hd
    simp only at hd
    cases hzf : zipMap diffField [] cb.fields with
    | none => rw [hzf] at hd; simp at hd
    | some fs =>
      rw [hzf] at hd
      simp only at hd
      cases hzm : zipMap diffMethod [] cb.methods with
      | none => rw [hzm] at hd; simp at hd
      | some ms =>
        rw [hzm] at hd
        simp only [Option.some.injEq] at hd
        subst hd
        obtain ⟨b1, hact, hset⟩ := names_B lb nb hg
        subst hact
        obtain ⟨rf, hrf, hlf⟩ := fields_inverse nodup_nil hnfb (by intro e he; cases he) wfb hzf
        obtain ⟨rm, hrm, hlm⟩ := methods_inverse nodup_nil hnmb (by intro e he; cases he) wmb hsrc hzm
        refine ⟨{ names := cb.names, doc := cb.doc, fields := rf, methods := rm }, ?_, ?_⟩
        · have hset' : [some k, some b1] = cb.names := by simpa using hset
          simp only [applyAbsent, classOps, applyClass, genDiffDoc_B, fromFirstName, List.replicate, changeName_add2,
            hset', hrf, hrm]
        · exact ⟨rfl, rfl, hlf, hlm⟩

end DiffModel
