import FeatherModel.Lemmas.EnigmaForest

/-!
# C12: the writer on the Enigma-expressible domain
`write_one_tree_starting_at` succeeds and its lines are tokenised into `treeEL`; `figure_out_files` yields one entry per
class without a present parent; the lines of `write_all`; the files of `enigma_dir::write`.
-/

namespace Enigma

/-! ## the domain predicate -/

theorem writableB_spec {m : Mappings} (h : writableB m = true) :
    (∀ e ∈ m.classes, classOk m.classes e = true) ∧ (m.classes.map Prod.fst).Nodup ∧ (rootFileNames m.classes).Nodup := by
  simp only [writableB, Bool.and_eq_true] at h
  exact ⟨List.all_eq_true.mp h.1.1, (nodupB_iff _).mp h.1.2, (nodupB_iff _).mp h.2⟩

theorem classOk_dst_tok {classes : AList JStr Class} {key : JStr} {c : Class} (h : classOk classes (key, c) = true) :
    tokOk key = true ∧ (∀ d, dstOf c.names = some d → tokOk d = true ∧ validObjClass d = true) ∧ validObjClass key = true := by
  obtain ⟨dst, hn, _, hk, hv, hdo, _⟩ := classOk_spec h
  simp only at hn hk hdo hv
  refine ⟨hk, ?_, hv⟩
  intro d hd
  rw [hn, dstOf_pair] at hd
  subst hd
  exact ⟨(classDstOk_spec hdo).1, (classDstOk_spec hdo).2.1⟩

theorem fileNameOf_cases (key : JStr) (c : Class) :
    (dstOf c.names = none ∧ fileNameOf key c = key) ∨ ∃ d, dstOf c.names = some d ∧ fileNameOf key c = d := by
  unfold fileNameOf
  cases dstOf c.names with
  | none => exact Or.inl ⟨rfl, rfl⟩
  | some d => exact Or.inr ⟨d, rfl, rfl⟩

theorem classOk_fileName {classes : AList JStr Class} {key : JStr} {c : Class} (h : classOk classes (key, c) = true) :
    tokOk (fileNameOf key c) = true ∧ validObjClass (fileNameOf key c) = true := by
  obtain ⟨hk, hd, hv⟩ := classOk_dst_tok h
  rcases fileNameOf_cases key c with ⟨_, e⟩ | ⟨d, hdd, e⟩
  · rw [e]; exact ⟨hk, hv⟩
  · rw [e]; exact hd d hdd

/-! ## trees -/

theorem concatOpts_map_lex {β : Type} (f : β → Option (List Text)) (g : β → List ELine) :
    ∀ l : List β, (∀ e ∈ l, ∃ ls, f e = some ls ∧ Lexes ls (g e)) →
      ∃ ls, concatOpts (l.map f) = some ls ∧ Lexes ls (l.flatMap g)
  | [], _ => ⟨[], rfl, Lexes.nil⟩
  | e :: l, h => by
    obtain ⟨a, ha, la⟩ := h e List.mem_cons_self
    obtain ⟨b, hb, lb⟩ := concatOpts_map_lex f g l (fun x hx => h x (List.mem_cons_of_mem _ hx))
    refine ⟨a ++ b, by simp only [List.map_cons, concatOpts, ha, hb], ?_⟩
    rw [List.flatMap_cons]
    exact la.append lb

/-- `write_one_tree_starting_at` succeeds (the fuel is never used up) and is read as `treeEL` -/
theorem tree_lex (classes : AList JStr Class) (hok : ∀ e ∈ classes, classOk classes e = true) :
    ∀ (fuel : Nat) (key : JStr) (c : Class) (d : Nat), (key, c) ∈ classes → maxKeyLen classes < fuel + key.length →
      ∃ lines, treeLines classes fuel key c d = some lines ∧ Lexes lines (treeEL classes fuel key c d)
  | 0, key, c, d, hin, hf => by
    have := le_maxKeyLen hin
    simp only at this
    omega
  | fuel + 1, key, c, d, hin, hf => by
    have hc := hok (key, c) hin
    obtain ⟨_, _, hdoc, _, _, _, hfs, _, hms, _⟩ := classOk_spec hc
    obtain ⟨hk, hd, _⟩ := classOk_dst_tok hc
    obtain ⟨own, ho, lo⟩ := classLines_lex key c d hk (fun x hx => (hd x hx).1) hdoc hfs hms
    obtain ⟨below, hb, lb⟩ := concatOpts_map_lex (fun e : JStr × Class => treeLines classes fuel e.1 e.2 (d + 1))
      (fun e => treeEL classes fuel e.1 e.2 (d + 1)) (childrenOf classes key) (by
        intro e he
        obtain ⟨hec, hep⟩ := mem_childrenOf he
        have := parentInSet_length hep
        exact tree_lex classes hok fuel e.1 e.2 (d + 1) hec (by omega))
    refine ⟨own ++ below, by simp only [treeLines, ho, hb], ?_⟩
    simp only [treeEL]
    exact lo.append lb

/-! ## `figure_out_files` -/

theorem mapInsert_new {V : Type} (k : JStr) (v : V) : ∀ acc : AList JStr V, k ∉ acc.map Prod.fst →
    mapInsert k v acc = acc ++ [(k, v)]
  | [], _ => rfl
  | (k', v') :: rest, h => by
    simp only [List.map_cons, List.mem_cons, not_or] at h
    have hne : (k' == k) = false := beq_eq_false_iff_ne.mpr (fun e => h.1 e.symm)
    simp only [mapInsert, hne, Bool.false_eq_true, if_false, List.cons_append, mapInsert_new k v rest h.2]

/-- the entries of `file_map` before sorting: one per class without a present parent, under its file name -/
def rootEntries (classes : AList JStr Class) : AList JStr (JStr × Class) :=
  (rootsOf classes).map fun e => (fileNameOf e.1 e.2, e)

theorem fileMapFold_spec (classes : AList JStr Class) : ∀ (l : AList JStr Class) (acc : AList JStr (JStr × Class)),
    (∀ e ∈ l, tokOk (fileNameOf e.1 e.2) = true) →
    (acc.map Prod.fst ++ (l.filter (isRoot classes)).map fun e => fileNameOf e.1 e.2).Nodup →
    fileMapFold classes l acc = some (acc ++ (l.filter (isRoot classes)).map fun e => (fileNameOf e.1 e.2, e))
  | [], acc, _, _ => by simp [fileMapFold]
  | (key, c) :: rest, acc, htok, hnd => by
    cases hp : parentInSet classes key with
    | some p =>
      have hr : isRoot classes (key, c) = false := by simp [isRoot, hp]
      simp only [List.filter_cons, hr, Bool.false_eq_true, if_false] at hnd ⊢
      simp only [fileMapFold, hp]
      exact fileMapFold_spec classes rest acc (fun e he => htok e (List.mem_cons_of_mem _ he)) hnd
    | none =>
      have hr : isRoot classes (key, c) = true := by simp [isRoot, hp]
      simp only [List.filter_cons, hr, if_true, List.map_cons] at hnd ⊢
      have hnew : fileNameOf key c ∉ acc.map Prod.fst := by
        intro hm
        exact (List.nodup_append.mp hnd).2.2 _ hm _ List.mem_cons_self rfl
      simp only [fileMapFold, hp, tokOk_noSurrogate (htok (key, c) List.mem_cons_self), mapInsert_new _ _ acc hnew]
      rw [fileMapFold_spec classes rest _ (fun e he => htok e (List.mem_cons_of_mem _ he))
        (by simpa [List.map_append, List.append_assoc] using hnd)]
      simp [List.append_assoc]

theorem rootFileNames_eq (classes : AList JStr Class) :
    rootFileNames classes = (rootsOf classes).map fun e => fileNameOf e.1 e.2 := rfl

theorem fileMap_spec {m : Mappings} (h : writableB m = true) :
    fileMap m = some (isort keyLe (rootEntries m.classes)) := by
  obtain ⟨hok, _, hrf⟩ := writableB_spec h
  unfold fileMap
  rw [fileMapFold_spec m.classes m.classes [] (fun e he => (classOk_fileName (hok e he)).1)
    (by simpa [rootFileNames_eq, rootsOf] using hrf)]
  simp [rootEntries, rootsOf]

theorem rootEntries_snd (classes : AList JStr Class) : (rootEntries classes).map Prod.snd = rootsOf classes := by
  simp [rootEntries, Function.comp_def]

/-- the sorted `file_map` -/
def fileEntries (m : Mappings) : AList JStr (JStr × Class) := isort keyLe (rootEntries m.classes)

theorem fileEntries_snd_perm (m : Mappings) : ((fileEntries m).map Prod.snd).Perm (rootsOf m.classes) := by
  have := (isort_perm keyLe (rootEntries m.classes)).map Prod.snd
  rw [rootEntries_snd] at this
  exact this

theorem mem_fileEntries {m : Mappings} {x : JStr × (JStr × Class)} (hx : x ∈ fileEntries m) :
    x.2 ∈ m.classes ∧ parentInSet m.classes x.2.1 = none ∧ x.1 = fileNameOf x.2.1 x.2.2 := by
  have := mem_isort.mp hx
  simp only [rootEntries, List.mem_map] at this
  obtain ⟨e, he, rfl⟩ := this
  have := List.mem_filter.mp he
  exact ⟨this.1, by simpa [isRoot] using this.2, rfl⟩

/-! ## `write_all` -/

/-- the `EnigmaLine`s of the stream written by `write_all` -/
def allEL (m : Mappings) : List ELine :=
  (fileEntries m).flatMap fun x => treeEL m.classes (treeFuel m.classes) x.2.1 x.2.2 0

theorem fileTree_lex {m : Mappings} (hok : ∀ e ∈ m.classes, classOk m.classes e = true) {node : JStr × Class}
    (hin : node ∈ m.classes) :
    ∃ ls, fileTree m node = some ls ∧ Lexes ls (treeEL m.classes (treeFuel m.classes) node.1 node.2 0) :=
  tree_lex m.classes hok _ node.1 node.2 0 hin (by simp [treeFuel]; omega)

theorem writeAll_go_lex {m : Mappings} (hok : ∀ e ∈ m.classes, classOk m.classes e = true) :
    ∀ fm : List (JStr × (JStr × Class)), (∀ x ∈ fm, tokOk x.1 = true ∧ x.2 ∈ m.classes) →
      ∃ ls, writeAllLines.go m fm = some ls ∧
        Lexes ls (fm.flatMap fun x => treeEL m.classes (treeFuel m.classes) x.2.1 x.2.2 0)
  | [], _ => ⟨[], rfl, Lexes.nil⟩
  | (fname, node) :: rest, h => by
    obtain ⟨htok, hin⟩ := h (fname, node) List.mem_cons_self
    obtain ⟨a, ha, la⟩ := fileTree_lex hok hin
    obtain ⟨b, hb, lb⟩ := writeAll_go_lex hok rest (fun x hx => h x (List.mem_cons_of_mem _ hx))
    refine ⟨[HASH] :: (HASH :: SP :: fname) :: a ++ b, by simp only [writeAllLines.go, ha, hb], ?_⟩
    rw [List.flatMap_cons]
    have h1 := lexLine_header1
    have h2 := lexLine_header2 fname (tokOk_tok htok)
    simp only [List.cons_append]
    exact Lexes.skip h1.1 h1.2 (Lexes.skip h2.1 h2.2 (la.append lb))

theorem fileEntries_ok {m : Mappings} (hok : ∀ e ∈ m.classes, classOk m.classes e = true) :
    ∀ x ∈ fileEntries m, tokOk x.1 = true ∧ x.2 ∈ m.classes := by
  intro x hx
  obtain ⟨h1, _, h3⟩ := mem_fileEntries hx
  exact ⟨by rw [h3]; exact (classOk_fileName (hok x.2 h1)).1, h1⟩

/-- `write_all` succeeds on the domain and the reader's tokeniser sees `allEL` -/
theorem writeAll_lex {m : Mappings} (h : writableB m = true) :
    ∃ ls, writeAll m = some (render ls) ∧ Lexes ls (allEL m) := by
  obtain ⟨hok, _, _⟩ := writableB_spec h
  obtain ⟨ls, hl, lx⟩ := writeAll_go_lex hok (fileEntries m) (fileEntries_ok hok)
  refine ⟨ls, ?_, lx⟩
  simp only [writeAll, writeAllLines, fileMap_spec h]
  show (writeAllLines.go m (fileEntries m)).map render = _
  rw [hl]; rfl

/-! ## `enigma_dir::write` -/

theorem splitOn_cover {p : Nat → Bool} : ∀ {l : Text} {c : Nat}, c ∈ l → p c = false → ∃ x ∈ splitOn p l, c ∈ x
  | a :: rest, c, hc, hp => by
    by_cases ha : p a = true
    · have hne : c ≠ a := by intro e; rw [e, ha] at hp; exact absurd hp (by simp)
      rcases List.mem_cons.mp hc with e | hc
      · exact absurd e hne
      · obtain ⟨x, hx, hcx⟩ := splitOn_cover hc hp
        exact ⟨x, by simp only [splitOn, ha, if_true]; exact List.mem_cons_of_mem _ hx, hcx⟩
    · have ha' : p a = false := by simpa using ha
      obtain ⟨h, t, e1, e2⟩ := splitOn_cons_false ha' rest
      rw [e2]
      rcases List.mem_cons.mp hc with e | hc
      · exact ⟨a :: h, List.mem_cons_self, by rw [e]; exact List.mem_cons_self⟩
      · obtain ⟨x, hx, hcx⟩ := splitOn_cover hc hp
        rw [e1] at hx
        rcases List.mem_cons.mp hx with rfl | hx
        · exact ⟨a :: x, List.mem_cons_self, List.mem_cons_of_mem _ hcx⟩
        · exact ⟨x, List.mem_cons_of_mem _ hx, hcx⟩

/-- a valid class name makes a relative path without `.` -/
theorem validObjClass_path {s : JStr} (h : validObjClass s = true) : (s.contains 46 || s.head? == some 47) = false := by
  simp only [validObjClass, Bool.and_eq_true, List.all_eq_true] at h
  obtain ⟨_, hall⟩ := h
  rw [Bool.or_eq_false_iff]
  constructor
  · cases hc : s.contains 46 with
    | false => rfl
    | true =>
      have hm : 46 ∈ s := List.contains_iff_mem.mp hc
      obtain ⟨x, hx, hcx⟩ := splitOn_cover (p := (· == 47)) hm (by decide)
      have := hall x hx
      simp only [validUnq, Bool.and_eq_true, List.all_eq_true, bne_iff_ne, ne_eq] at this
      exact absurd rfl (this.2 46 hcx).1.1.1
  · cases s with
    | nil => rfl
    | cons a rest =>
      by_cases ha : a = 47
      · subst ha
        have := hall [] (by simp [splitOn])
        simp [validUnq] at this
      · simp [ha]

/-- the text of the file of one tree -/
def treeText (m : Mappings) (node : JStr × Class) : Text := render ((fileTree m node).getD [])

def fileOf (m : Mappings) (x : JStr × (JStr × Class)) : JStr × Text := (x.1 ++ extMAPPING, treeText m x.2)

theorem files_go_spec {m : Mappings} (hok : ∀ e ∈ m.classes, classOk m.classes e = true) :
    ∀ fm : List (JStr × (JStr × Class)),
      (∀ x ∈ fm, validObjClass x.1 = true ∧ x.2 ∈ m.classes) → files.go m fm = some (fm.map (fileOf m))
  | [], _ => rfl
  | (fname, node) :: rest, h => by
    obtain ⟨hv, hin⟩ := h (fname, node) List.mem_cons_self
    obtain ⟨a, ha, _⟩ := fileTree_lex hok hin
    have ih := files_go_spec hok rest (fun x hx => h x (List.mem_cons_of_mem _ hx))
    have hp := validObjClass_path hv
    simp only at hp
    simp only [files.go, hp, Bool.false_eq_true, if_false, ha, ih, List.map_cons, fileOf, treeText, Option.getD_some]

theorem files_spec {m : Mappings} (h : writableB m = true) : files m = some ((fileEntries m).map (fileOf m)) := by
  obtain ⟨hok, _, _⟩ := writableB_spec h
  simp only [files, fileMap_spec h]
  show files.go m (fileEntries m) = _
  refine files_go_spec hok _ ?_
  intro x hx
  obtain ⟨h1, _, h3⟩ := mem_fileEntries hx
  exact ⟨by rw [h3]; exact (classOk_fileName (hok x.2 h1)).2, h1⟩

end Enigma
