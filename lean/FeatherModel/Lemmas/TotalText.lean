import FeatherModel.Lemmas.TotalBase
import FeatherModel.Model.TotalText
import FeatherModel.Model.TotalWriter

/-!
# C16 — text parsers and descriptors: the slice at the leading TABs is always on a char boundary; the `[` counter
never overflows; `get_arguments_size` (after cf30e8c) never panics
-/

namespace Total.Text

open TM

/-! ## `&line[idents..]` -/

theorem utf8Len_tab : utf8Len 9 = 1 := by decide

/-- the number of leading TAB characters is a char boundary (TAB is one byte) — for *every* list of code points -/
theorem isCharBoundary_leadingTabs : ∀ l : List Nat, isCharBoundary l (leadingTabs l) = true
  | [] => by simp [leadingTabs, isCharBoundary]
  | c :: rest => by
    by_cases h : c = 9
    · subst h
      have ih := isCharBoundary_leadingTabs rest
      have : leadingTabs (9 :: rest) = leadingTabs rest + 1 := by simp [leadingTabs, List.takeWhile]
      rw [this]
      unfold isCharBoundary
      simp [utf8Len_tab, ih]
    · have : leadingTabs (c :: rest) = 0 := by simp [leadingTabs, h]
      rw [this]
      simp [isCharBoundary]

theorem sliceChecks_spec (site : Nat) : ∀ ls, Spec [] 0 (sliceChecks site ls) (fun _ => True)
  | [] => Spec.ret _ trivial
  | l :: ls => by
    unfold sliceChecks
    exact Spec.bind (Spec.strSliceFrom_true (isCharBoundary_leadingTabs l)) (fun _ _ => sliceChecks_spec site ls)

theorem unitOf_spec {α : Type} (o : Option α) : Spec [] 0 (unitOf o) (fun _ => True) := by
  unfold unitOf; split
  · exact Spec.ret _ trivial
  · exact Spec.fail

theorem tinyOp_spec (n : Nat) (b : Bytes) : Spec [] 0 (tinyOp n b) (fun _ => True) := by
  unfold tinyOp; split
  · exact Spec.fail
  · refine Spec.bind (sliceChecks_spec _ _) (fun _ _ => ?_)
    split
    · exact unitOf_spec _
    · exact Spec.fail

theorem tinyDiffOp_spec (b : Bytes) : Spec [] 0 (tinyDiffOp b) (fun _ => True) := by
  unfold tinyDiffOp; split
  · exact Spec.fail
  · exact Spec.bind (sliceChecks_spec _ _) (fun _ _ => unitOf_spec _)

theorem enigmaOp_spec (b : Bytes) : Spec [] 0 (enigmaOp b) (fun _ => True) := by
  unfold enigmaOp; split
  · exact Spec.fail
  · exact Spec.bind (sliceChecks_spec _ _) (fun _ _ => unitOf_spec _)

theorem nestsOp_spec (b : Bytes) : Spec [] 0 (nestsOp b) (fun _ => True) := by
  unfold nestsOp; split
  · exact Spec.fail
  · exact unitOf_spec _

/-! ## Enigma nesting depth -/

theorem maxTabRun_le : ∀ (t : List Nat) (cur best : Nat), maxTabRun t cur best ≤ max best (cur + t.length)
  | [], cur, best => by simp [maxTabRun]; omega
  | c :: rest, cur, best => by
    unfold maxTabRun
    split
    · have := maxTabRun_le rest (cur + 1) best
      simp only [List.length_cons]
      omega
    · have := maxTabRun_le rest 0 (max cur best)
      simp only [List.length_cons]
      omega

theorem enigmaDepth_le (t : List Nat) : enigmaDepth t ≤ t.length + 1 := by
  have := maxTabRun_le t 0 0
  unfold enigmaDepth
  omega

/-! ## descriptors -/

/-- the checked `[` counter never overflows: the `== 255` test comes first -/
theorem bracketsChecked_spec : ∀ (s : JStr) (n : Nat), n ≤ 255 → Spec [] 0 (bracketsChecked n s) (fun r => r.1 ≤ 255)
  | [], n, h => Spec.ret _ h
  | c :: rest, n, h => by
    unfold bracketsChecked
    split
    · split
      · exact Spec.fail
      · rename_i hn
        refine Spec.bind (Spec.addU8_le (by omega)) (fun n' hn' => ?_)
        have : n' = n + 1 := hn'
        exact bracketsChecked_spec rest n' (by omega)
    · exact Spec.ret _ h

/-- … and it computes what C18's `Descriptor.readBrackets` computes -/
theorem bracketsChecked_eq : ∀ (s : JStr) (n : Nat) (st : Acct), n ≤ 255 →
    bracketsChecked n s st = (match Descriptor.readBrackets n s with
      | some r => (.ok r, st)
      | none => (.err, st))
  | [], n, st, _ => by simp [bracketsChecked, Descriptor.readBrackets, ret_apply]
  | c :: rest, n, st, h => by
    unfold bracketsChecked Descriptor.readBrackets
    simp only [Descriptor.LBRACKET]
    split
    · split
      · simp [fail_apply]
      · rename_i hn
        have h1 : n + 1 ≤ 255 := by omega
        rw [bnd_apply]
        simp only [addU8, if_pos h1, ret_apply]
        exact bracketsChecked_eq rest (n + 1) st h1
    · rename_i hc
      simp [ret_apply, hc]

theorem descFieldOp_spec (s : JStr) : Spec [] 0 (descFieldOp s) (fun _ => True) := unitOf_spec _
theorem descMethodOp_spec (s : JStr) : Spec [] 0 (descMethodOp s) (fun _ => True) := unitOf_spec _
theorem descReturnOp_spec (s : JStr) : Spec [] 0 (descReturnOp s) (fun _ => True) := unitOf_spec _

/-! ## `get_arguments_size` -/

theorem argsLoop_spec : ∀ (fuel size : Nat) (s : JStr), Spec [] 0 (argsLoop fuel size s) (fun _ => True)
  | _, _, [] => by unfold argsLoop; exact Spec.fail
  | 0, size, c :: rest => by
    unfold argsLoop
    split
    · exact Spec.ret _ trivial
    · exact Spec.fail
  | fuel + 1, size, c :: rest => by
    unfold argsLoop
    split
    · exact Spec.ret _ trivial
    · dsimp only
      split
      · exact Spec.bind (Spec.guard _) (fun _ _ => argsLoop_spec fuel _ _)
      · split
        · exact Spec.fail
        · split
          · split
            · exact Spec.fail
            · exact Spec.bind (Spec.guard _) (fun _ _ => argsLoop_spec fuel _ _)
          · exact Spec.bind (Spec.guard _) (fun _ _ => argsLoop_spec fuel _ _)

theorem argSizeOp_spec (s : JStr) : Spec [] 0 (argSizeOp s) (fun _ => True) := by
  unfold argSizeOp argsSize
  refine Spec.bind (Q := fun _ => True) ?_ (fun _ _ => Spec.ret _ trivial)
  split
  · split
    · exact argsLoop_spec _ _ _
    · exact Spec.fail
  · exact Spec.fail

/-! ## the writer scenario -/

theorem ifHelperKnown_spec (p t : Nat) : Spec [] 0 (Writer.ifHelperKnown p t) (fun _ => True) := by
  unfold Writer.ifHelperKnown
  dsimp only
  split
  · exact Spec.ret _ trivial
  · exact Spec.bind (Spec.guard _) (fun _ _ => Spec.ret _ trivial)

theorem growOp_spec (nops nitf : Nat) : Spec [] 0 (Writer.growOp nops nitf) (fun _ => True) := by
  unfold Writer.growOp
  refine Spec.bind (Spec.guard _) (fun _ _ => ?_)
  dsimp only
  refine Spec.bind (ifHelperKnown_spec _ _) (fun _ _ => ?_)
  exact Spec.weaken (Spec.guard _) (fun _ _ => trivial)

end Total.Text
