import FeatherModel.Model.DummySpec

/-! Generic list facts used by the C10 proofs: `retain`-style filters, their idempotence, membership. -/

namespace DummyList
variable {K V : Type}

theorem not_isEmpty_filter (p : α → Bool) (l : List α) : (!(l.filter p).isEmpty) = l.any p := by
  induction l with
  | nil => rfl
  | cons a l ih =>
    simp only [List.filter_cons, List.any_cons]
    cases h : p a with
    | true => simp
    | false => simpa using ih

theorem not_isEmpty_map (f : α → β) (l : List α) : (!(l.map f).isEmpty) = !l.isEmpty := by
  cases l <;> rfl

/-- "filter by a rule on the value, then rewrite the survivors": the shape of every level of the specification -/
def pruneBy (p : V → Bool) (g : V → V) (l : AList K V) : AList K V :=
  (l.filter (fun e => p e.2)).map (fun e => (e.1, g e.2))

/-- `IndexMap::retain` with a rewriting closure = filter by the rule on the rewritten value, then rewrite -/
theorem retainMap_eq (f : V → V) (keep : V → Bool) (m : AList K V) :
    Dummy.retainMap f keep m = pruneBy (fun v => keep (f v)) f m := by
  unfold Dummy.retainMap pruneBy
  rw [List.filter_map]
  rfl

theorem pruneBy_congr {p p' : V → Bool} {g g' : V → V} (hp : ∀ v, p v = p' v) (hg : ∀ v, g v = g' v) (l : AList K V) :
    pruneBy p g l = pruneBy p' g' l := by
  have : p = p' := funext hp
  have : g = g' := funext hg
  subst_vars; rfl

theorem pruneBy_any (p : V → Bool) (g : V → V) (hpg : ∀ v, p (g v) = p v) (l : AList K V) :
    (pruneBy p g l).any (fun e => p e.2) = l.any (fun e => p e.2) := by
  unfold pruneBy
  induction l with
  | nil => rfl
  | cons a l ih =>
    simp only [List.filter_cons, List.any_cons]
    cases h : p a.2 with
    | true => simp [hpg, h]
    | false => simpa using ih

theorem not_isEmpty_pruneBy (p : V → Bool) (g : V → V) (l : AList K V) :
    (!(pruneBy p g l).isEmpty) = l.any (fun e => p e.2) := by
  unfold pruneBy
  rw [not_isEmpty_map, not_isEmpty_filter]

theorem pruneBy_idem (p : V → Bool) (g : V → V) (hpg : ∀ v, p (g v) = p v) (hgg : ∀ v, p v = true → g (g v) = g v)
    (l : AList K V) : pruneBy p g (pruneBy p g l) = pruneBy p g l := by
  unfold pruneBy
  induction l with
  | nil => rfl
  | cons a l ih =>
    simp only [List.filter_cons]
    cases h : p a.2 with
    | true =>
      simp only [if_true, List.map_cons, List.filter_cons, hpg, h]
      rw [ih, hgg _ h]
    | false => simpa using ih

theorem filter_idem (p : α → Bool) (l : List α) : (l.filter p).filter p = l.filter p := by
  rw [List.filter_filter]
  congr 1
  funext a
  cases p a <;> rfl

theorem any_filter_self (p : α → Bool) (l : List α) : (l.filter p).any p = l.any p := by
  induction l with
  | nil => rfl
  | cons a l ih =>
    simp only [List.filter_cons, List.any_cons]
    cases h : p a with
    | true => simp [h, ih]
    | false => simp

theorem mem_pruneBy {p : V → Bool} {g : V → V} {l : AList K V} {k : K} {v' : V} :
    (k, v') ∈ pruneBy p g l ↔ ∃ v, (k, v) ∈ l ∧ p v = true ∧ v' = g v := by
  unfold pruneBy
  simp only [List.mem_map, List.mem_filter]
  constructor
  · rintro ⟨⟨k0, v0⟩, ⟨hm, hp⟩, heq⟩
    simp only [Prod.mk.injEq] at heq
    obtain ⟨rfl, rfl⟩ := heq
    exact ⟨v0, hm, hp, rfl⟩
  · rintro ⟨v, hm, hp, rfl⟩
    exact ⟨(k, v), ⟨hm, hp⟩, rfl⟩

theorem pruneBy_keys_sublist (p : V → Bool) (g : V → V) (l : AList K V) :
    ((pruneBy p g l).map Prod.fst).Sublist (l.map Prod.fst) := by
  unfold pruneBy
  rw [List.map_map]
  have : (Prod.fst ∘ fun e : K × V => (e.1, g e.2)) = Prod.fst := by funext e; rfl
  rw [this]
  exact (List.filter_sublist).map _

/-! ### `retainK` (filterMap keeping the key) -/

theorem retainK_congr {f f' : K → V → Option V} (h : ∀ k v, f k v = f' k v) (m : AList K V) :
    Dummy.retainK f m = Dummy.retainK f' m := by
  have : f = f' := by funext k v; exact h k v
  subst this; rfl

theorem retainK_idem (f : K → V → Option V) (hf : ∀ k v v', f k v = some v' → f k v' = some v') (m : AList K V) :
    Dummy.retainK f (Dummy.retainK f m) = Dummy.retainK f m := by
  unfold Dummy.retainK
  induction m with
  | nil => rfl
  | cons a l ih =>
    simp only [List.filterMap_cons]
    cases h : f a.1 a.2 with
    | none => simpa using ih
    | some v' =>
      simp only [Option.map_some, List.filterMap_cons, hf _ _ _ h]
      rw [ih]

theorem mem_retainK {f : K → V → Option V} {m : AList K V} {k : K} {v' : V} :
    (k, v') ∈ Dummy.retainK f m ↔ ∃ v, (k, v) ∈ m ∧ f k v = some v' := by
  unfold Dummy.retainK
  simp only [List.mem_filterMap, Option.map_eq_some_iff]
  constructor
  · rintro ⟨⟨k0, v0⟩, hm, w, hw, heq⟩
    simp only [Prod.mk.injEq] at heq
    obtain ⟨rfl, rfl⟩ := heq
    exact ⟨v0, hm, hw⟩
  · rintro ⟨v, hm, hf⟩
    exact ⟨(k, v), hm, v', hf, rfl⟩

theorem retainK_keys_sublist (f : K → V → Option V) (m : AList K V) :
    ((Dummy.retainK f m).map Prod.fst).Sublist (m.map Prod.fst) := by
  unfold Dummy.retainK
  induction m with
  | nil => exact List.Sublist.slnil
  | cons a l ih =>
    simp only [List.filterMap_cons, List.map_cons]
    cases h : f a.1 a.2 with
    | none => exact List.Sublist.cons _ ih
    | some v' => exact List.Sublist.cons_cons _ ih

end DummyList
