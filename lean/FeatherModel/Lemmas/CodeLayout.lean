import FeatherModel.Lemmas.CodeSwitchDecode
import FeatherModel.Lemmas.CodeWithin
import FeatherModel.Lemmas.CodeChunks

/-!
# From the chunks of the successful attempt to the decoded instruction sequence
-/

namespace CodeWrite
open CodeDecode CodeDenote

/-- the final code from instruction `k` (at address `p`) on: one piece per instruction, each decoding to its instruction -/
inductive Layout (lp : Nat → Option Nat) (pos : Nat → Option Nat) : Nat → Nat → List Insn → List Bytes → Prop
  | nil (k p : Nat) : Layout lp pos k p [] []
  | cons {k p : Nat} {i : Insn} {is : List Insn} {fin : Bytes} {fins : List Bytes} :
      pos k = some p → Decoded lp p i fin → Layout lp pos (k + 1) (p + fin.length) is fins →
      Layout lp pos k p (i :: is) (fin :: fins)

/-- **chunks → layout**: patching the unwritten labels of all chunks finalises each chunk separately -/
theorem chunks_layout {wide : List Nat} {pos : Array Nat} {lp : Nat → Option Nat}
    (hsub : ∀ t x, pos[t]? = some x → lp t = some x) (hbound : ∀ t x, lp t = some x → x ≤ 65535)
    {k p : Nat} {is : List Insn} {cs : List (Bytes × List Unwritten)} (hc : Chunks wide pos k p is cs) :
    (∀ i ∈ is, wt i = true) → ∀ (X c : Bytes), X.length = p → c.length ≤ 65535 →
      resolveAt 0 lp (chunkUnw cs) (X ++ chunkBytes cs) = some c →
      ∃ fins, c = X ++ fins.flatten ∧ Layout lp (fun t => pos[t]?) k p is fins := by
  induction hc with
  | nil k p =>
    intro _ X c _ _ h
    simp only [chunkUnw, chunkBytes, List.map_nil, List.flatten_nil, List.append_nil, resolveAt_nil,
      Option.some.injEq] at h
    exact ⟨[], by simp [h], Layout.nil _ _⟩
  | @cons k p i is r cs hp hk henc _ ih =>
    intro hwt X c hx hcl h
    have hu : chunkUnw (r :: cs) = r.2 ++ chunkUnw cs := by simp [chunkUnw]
    have hb : X ++ chunkBytes (r :: cs) = X ++ r.1 ++ chunkBytes cs := by simp [chunkBytes]
    rw [hu, hb, resolveAt_append] at h
    have hw : Within X.length (X.length + r.1.length) r.2 := by rw [hx]; exact encInsn_within henc
    rw [resolveAt_local lp X (chunkBytes cs) r.2 r.1 hw, hx] at h
    cases hf : resolveAt p lp r.2 r.1 with
    | none => simp [hf] at h
    | some fin =>
      simp only [hf, Option.map_some, Option.bind_some] at h
      have hfl := resolveAt_length _ _ _ _ _ hf
      obtain ⟨fins, hcf, hl⟩ := ih (fun j hj => hwt j (List.mem_cons_of_mem _ hj)) (X ++ fin) c
        (by simp [hx, hfl]) hcl h
      have hfin_le : fin.length ≤ 65535 := by
        have : c.length = X.length + fin.length + fins.flatten.length := by
          rw [hcf]; simp only [List.length_append]
        omega
      have hok : LabelsOk (lblUpTo pos k) lp := by
        refine ⟨fun t x ht => ?_, hbound⟩
        unfold lblUpTo at ht
        split at ht
        · exact hsub t x ht
        · cases ht
      have hd := encInsn_decoded hp hok (hwt i List.mem_cons_self) hfin_le henc hf
      refine ⟨fin :: fins, by rw [hcf]; simp, Layout.cons hk hd ?_⟩
      rw [hfl]; exact hl

theorem neg_ne (c : Cond) : (c.opcode == negIf c.opcode) = false := by
  cases c <;> decide

/-- one step of the front-to-back decoder -/
theorem decodeAll_step (fuel pc : Nat) (bs : Bytes) (d : DInsn) (len : Nat)
    (hd : decodeOne pc bs = some (d, len)) (hl0 : len ≠ 0) (hle : len ≤ bs.length) :
    decodeAll (fuel + 1) pc bs =
      (match decodeAll fuel (pc + len) (bs.drop len) with
       | none => none
       | some rest => some ((pc, len, d) :: rest)) := by
  cases bs with
  | nil => simp at hle; omega
  | cons b bs' =>
    simp only [decodeAll, hd]
    have : ((b :: bs').drop (len - 1)).isEmpty = false := by
      rw [List.isEmpty_eq_false_iff, ne_eq, List.drop_eq_nil_iff]
      omega
    simp only [hl0, this, false_or, Bool.false_eq_true, if_false]
    cases decodeAll fuel (pc + len) ((b :: bs').drop len) <;> rfl

/-- **layout → decoded sequence**: the independent decoder reads the layout back, instruction by instruction -/
theorem layout_decode {lp pos : Nat → Option Nat} {k p : Nat} {is : List Insn} {fins : List Bytes}
    (hl : Layout lp pos k p is fins) :
    ∀ fuel, fins.flatten.length ≤ fuel → ∃ ds, decodeAll fuel p fins.flatten = some ds ∧
      matchAll lp pos k is ds = true := by
  induction hl with
  | nil k p =>
    intro fuel _
    exact ⟨[], by cases fuel <;> simp [decodeAll], by simp [matchAll]⟩
  | @cons k p i is fin fins hk hd _ ih =>
    intro fuel hfuel
    simp only [List.flatten_cons, List.length_append] at hfuel ⊢
    generalize fins.flatten = R at hfuel ih ⊢
    cases hd with
    | single d hlen hdec hden =>
      cases fuel with
      | zero => omega
      | succ fuel =>
        obtain ⟨ds, hds, hm⟩ := ih fuel (by omega)
        refine ⟨(p, fin.length, d) :: ds, ?_, ?_⟩
        · rw [decodeAll_step fuel p _ d fin.length (hdec R) (by omega) (by simp only [List.length_append]; omega)]
          simp only [List.drop_left, hds]
        · simp only [matchAll, hk, beq_self_eq_true, Bool.true_and, hden, if_true]
          exact hm
    | tramp c t g hi hlen hdec1 hdec2 hland =>
      subst hi
      cases fuel with
      | zero => omega
      | succ fuel =>
        cases fuel with
        | zero => omega
        | succ fuel =>
          obtain ⟨ds, hds, hm⟩ := ih fuel (by omega)
          refine ⟨(p, 3, .ifc (negIf c.opcode) ((p + 8 : Nat) : Int)) :: (p + 3, 5, .goto g) :: ds, ?_, ?_⟩
          · rw [decodeAll_step (fuel + 1) p _ _ 3 (hdec1 R) (by omega) (by simp only [List.length_append]; omega)]
            rw [decodeAll_step fuel (p + 3) _ _ 5 (hdec2 R) (by omega)
              (by simp only [List.length_drop, List.length_append]; omega)]
            have hd8 : ((fin ++ R).drop 3).drop 5 = R := by
              rw [List.drop_drop]
              have : 3 + 5 = fin.length := by omega
              rw [this, List.drop_left]
            have e : p + 3 + 5 = p + fin.length := by omega
            rw [hd8, e, hds]
          · have hnd : denote1 lp (.ifc c t) (.ifc (negIf c.opcode) ((p + 8 : Nat) : Int)) = false := by
              simp [denote1, neg_ne]
            simp only [matchAll, hk, beq_self_eq_true, Bool.true_and, hnd, Bool.false_eq_true, if_false]
            simp [hland, hm]

end CodeWrite
