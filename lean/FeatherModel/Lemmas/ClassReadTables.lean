import FeatherModel.Lemmas.ClassReadPasses

/-! C01 lemmas: the readers between the two passes (exception table, line numbers, local variables).  They
thread the label table; `StepOk` packages what every such step guarantees. -/

namespace ClassRead
open Outcome Spec

/-- a label-threading step succeeded: it consumed exactly its encoding, extended the table by at most `k` labels, and
its result is `val lf` for **every** later extension `lf` of the table (ids never change once handed out) -/
def StepOk {α : Type} (l : Labels) (out : Outcome (α × Labels × Bytes)) (r : Bytes) (k : Nat) (refs : List Nat)
    (val : Labels → α) : Prop :=
  ∃ v l', out = ok (v, l', r) ∧ l'.WF ∧ Labels.Le l l' ∧ l'.count ≤ l.count + k ∧
    (∀ pc ∈ refs, (l'.get pc).isSome = true) ∧ ∀ lf, Labels.Le l' lf → v = val lf

theorem isSome_of_le {l lf : Labels} (h : Labels.Le l lf) {pc : Nat} (hs : (l.get pc).isSome = true) :
    (lf.get pc).isSome = true := by
  cases hg : l.get pc with
  | none => simp [hg] at hs
  | some id => rw [h.2 _ _ hg]; rfl

/-- positions of a layout with `n` instructions inside a code array of `cl` bytes -/
structure PosOk (pos : Nat → Nat) (n cl : Nat) : Prop where
  lt : ∀ t, t < n → pos t < cl
  le : ∀ t, t ≤ n → pos t ≤ cl
  small : cl ≤ 65535

theorem labOf_of_le {l lf : Labels} (h : Labels.Le l lf) {pos : Nat → Nat} {t id : Nat} (hg : l.get (pos t) = some id) :
    labOf lf pos t = id := by
  unfold labOf; rw [h.2 _ _ hg]; rfl

theorem readVecS_stepOk {α β : Type} (elem : Labels → Bytes → Outcome (α × Labels × Bytes)) (enc : β → Bytes)
    (val : Labels → β → α) (k : β → Nat) (refs : β → List Nat) (cl : Nat) (xs : List β)
    (h : ∀ x ∈ xs, ∀ l r, l.WF → l.codeLength = cl → l.count + k x < 65536 →
      StepOk l (elem l (enc x ++ r)) r (k x) (refs x) (fun lf => val lf x))
    (l : Labels) (hwf : l.WF) (hcl : l.codeLength = cl) (hcnt : l.count + (xs.map k).sum < 65536) (r : Bytes) :
    StepOk l (readVecS elem xs.length l (xs.flatMap enc ++ r)) r (xs.map k).sum (xs.flatMap refs)
      (fun lf => xs.map (val lf)) := by
  induction xs generalizing l with
  | nil => exact ⟨[], l, by simp [readVecS], hwf, Labels.Le.refl l, by simp, by simp, by simp⟩
  | cons x xs ih =>
    simp only [List.map_cons, List.sum_cons] at hcnt
    obtain ⟨v, l1, h1, hwf1, hle1, hc1, hr1, hv1⟩ := h x (by simp) l (xs.flatMap enc ++ r) hwf hcl (by omega)
    obtain ⟨vs, l2, h2, hwf2, hle2, hc2, hr2, hv2⟩ := ih (fun y hy => h y (by simp [hy])) l1 hwf1 (hle1.1.symm.trans hcl) (by omega)
    refine ⟨v :: vs, l2, ?_, hwf2, hle1.trans hle2, by simp only [List.map_cons, List.sum_cons]; omega, ?_, ?_⟩
    · simp only [List.length_cons, readVecS, List.flatMap_cons, List.append_assoc, h1, ok_bind, h2, pure_eq]
    · intro pc hpc
      simp only [List.flatMap_cons, List.mem_append] at hpc
      rcases hpc with hpc | hpc
      · exact isSome_of_le hle2 (hr1 pc hpc)
      · exact hr2 pc hpc
    · intro lf hlf
      simp only [List.map_cons]
      rw [hv1 lf (hle2.trans hlf), hv2 lf hlf]

theorem readException_ok (p : Pool) (pos : Nat → Nat) (n cl : Nat) (hp : PosOk pos n cl) (e : SException)
    (he : e.Legal p n) (l : Labels) (r : Bytes) (hwf : l.WF) (hcl : l.codeLength = cl) (hcnt : l.count + 3 < 65536) :
    StepOk l (readException p l (e.encode pos ++ r)) r 3 [pos e.start, pos e.end_, pos e.handler]
      (fun lf => ⟨labOf lf pos e.start, labOf lf pos e.end_, labOf lf pos e.handler, e.catch_⟩) := by
  obtain ⟨hs, hen, hh, hcp, hcatch⟩ := he
  have b1 : pos e.start < 65536 := by have := hp.lt _ hs; have := hp.small; omega
  have b2 : pos e.end_ < 65536 := by have := hp.le _ hen; have := hp.small; omega
  have b3 : pos e.handler < 65536 := by have := hp.lt _ hh; have := hp.small; omega
  obtain ⟨ia, l1, h1, hwf1, hle1, hg1, hc1⟩ := Labels.getOrCreate_spec hwf (pc := pos e.start) (by rw [hcl]; exact hp.lt _ hs) (by omega)
  have hcl1 : l1.codeLength = cl := hle1.1.symm.trans hcl
  obtain ⟨ib, l2, h2, hwf2, hle2, hg2, hc2⟩ := Labels.getOrCreateExcl_spec hwf1 (pc := pos e.end_) (by rw [hcl1]; exact hp.le _ hen) (by omega)
  have hcl2 : l2.codeLength = cl := hle2.1.symm.trans hcl1
  obtain ⟨ih, l3, h3, hwf3, hle3, hg3, hc3⟩ := Labels.getOrCreate_spec hwf2 (pc := pos e.handler) (by rw [hcl2]; exact hp.lt _ hh) (by omega)
  refine ⟨⟨ia, ib, ih, e.catch_⟩, l3, ?_, hwf3, (hle1.trans hle2).trans hle3, by omega, ?_, ?_⟩
  · simp only [readException, SException.encode, List.append_assoc, u16_be16 _ b1, u16_be16 _ b2, u16_be16 _ b3,
      u16_be16 _ hcp, ok_bind, h1, h2, h3, hcatch, pure_eq]
  · intro pc hpc
    simp only [List.mem_cons, List.not_mem_nil, or_false] at hpc
    rcases hpc with rfl | rfl | rfl
    · rw [(hle2.trans hle3).2 _ _ hg1]; rfl
    · rw [hle3.2 _ _ hg2]; rfl
    · rw [hg3]; rfl
  · intro lf hlf
    simp only [labOf_of_le ((hle2.trans hle3).trans hlf) hg1, labOf_of_le (hle3.trans hlf) hg2, labOf_of_le hlf hg3]

theorem readLine_ok (pos : Nat → Nat) (n cl : Nat) (hp : PosOk pos n cl) (e : Nat × Nat) (he : e.1 < n ∧ e.2 < 65536)
    (l : Labels) (r : Bytes) (hwf : l.WF) (hcl : l.codeLength = cl) (hcnt : l.count + 1 < 65536) :
    StepOk l (readLine l (be16 (pos e.1) ++ be16 e.2 ++ r)) r 1 [pos e.1] (fun lf => (labOf lf pos e.1, e.2)) := by
  have b1 : pos e.1 < 65536 := by have := hp.lt _ he.1; have := hp.small; omega
  obtain ⟨ia, l1, h1, hwf1, hle1, hg1, hc1⟩ := Labels.getOrCreate_spec hwf (pc := pos e.1) (by rw [hcl]; exact hp.lt _ he.1) (by omega)
  refine ⟨(ia, e.2), l1, ?_, hwf1, hle1, hc1, ?_, ?_⟩
  · simp only [readLine, List.append_assoc, u16_be16 _ b1, u16_be16 _ he.2, ok_bind, h1, pure_eq]
  · intro pc hpc
    simp only [List.mem_cons, List.not_mem_nil, or_false] at hpc
    subst hpc; rw [hg1]; rfl
  · intro lf hlf; simp only [labOf_of_le hlf hg1]

theorem readLv_ok (p : Pool) (pos : Nat → Nat) (n cl : Nat) (hp : PosOk pos n cl) (hmono : ∀ a b, a ≤ b → b ≤ n → pos a ≤ pos b)
    (ty : Bool) (v : SLv) (hv : v.Legal p n)
    (l : Labels) (r : Bytes) (hwf : l.WF) (hcl : l.codeLength = cl) (hcnt : l.count + 2 < 65536) :
    StepOk l (readLv p ty l (v.encode pos ++ r)) r 2 [pos v.start, pos v.end_]
      (fun lf => (SLv.fact ty { v with start := labOf lf pos v.start, end_ := labOf lf pos v.end_ })) := by
  obtain ⟨hs, hse, hen, hnc, hdc, hix, hname, hvalid, hdesc⟩ := hv
  have b1 : pos v.start < 65536 := by have := hp.lt _ hs; have := hp.small; omega
  have hm := hmono v.start v.end_ hse hen
  have b2 : pos v.end_ - pos v.start < 65536 := by have := hp.le _ hen; have := hp.small; omega
  have hsum : pos v.start + (pos v.end_ - pos v.start) = pos v.end_ := by omega
  obtain ⟨ia, ib, l2, h2, hwf2, hle2, hg1, hg2, hc2⟩ := Labels.getOrCreateRange_spec hwf (start := pos v.start)
    (len := pos v.end_ - pos v.start) (by rw [hcl]; exact hp.lt _ hs) (by rw [hcl, hsum]; exact hp.le _ hen)
    (by rw [hcl]; exact hp.small) (by omega)
  rw [hsum] at hg2
  refine ⟨SLv.fact ty { v with start := ia, end_ := ib }, l2, ?_, hwf2, hle2, hc2, ?_, ?_⟩
  · simp only [readLv, SLv.encode, List.append_assoc, u16_be16 _ b1, u16_be16 _ b2, u16_be16 _ hnc, u16_be16 _ hdc,
      u16_be16 _ hix, ok_bind, h2, hname, hdesc, checked, hvalid, if_true, pure_eq, SLv.fact]
  · intro pc hpc
    simp only [List.mem_cons, List.not_mem_nil, or_false] at hpc
    rcases hpc with rfl | rfl
    · rw [hg1]; rfl
    · rw [hg2]; rfl
  · intro lf hlf; simp only [labOf_of_le hlf hg1, labOf_of_le hlf hg2]

end ClassRead

namespace ClassRead
open Outcome Spec

/-! ### stack map frames -/

theorem readVType_ok (p : Pool) (pos : Nat → Nat) (n cl : Nat) (hp : PosOk pos n cl) (v : SVType) (hv : v.Legal p n)
    (l : Labels) (r : Bytes) (hwf : l.WF) (hcl : l.codeLength = cl) (hcnt : l.count + v.labelRefs < 65536) :
    StepOk l (readVType p l (v.encode pos ++ r)) r v.labelRefs (v.refs pos) (fun lf => v.raw lf pos) := by
  cases v with
  | object cp c =>
    obtain ⟨h1, h2⟩ := hv
    exact ⟨.object c, l, by simp [readVType, SVType.encode, u8, u16_be16 _ h1, h2], hwf, Labels.Le.refl l, by simp,
      by simp [SVType.refs], fun lf _ => rfl⟩
  | uninit t =>
    have b1 : pos t < 65536 := by have := hp.lt _ hv; have := hp.small; omega
    obtain ⟨ia, l1, h1, hwf1, hle1, hg1, hc1⟩ := Labels.getOrCreate_spec hwf (pc := pos t) (by rw [hcl]; exact hp.lt _ hv)
      (by simp [SVType.labelRefs] at hcnt; omega)
    refine ⟨.uninit ia, l1, by simp [readVType, SVType.encode, u8, u16_be16 _ b1, h1], hwf1, hle1,
      by simpa [SVType.labelRefs] using hc1, ?_, ?_⟩
    · intro pc hpc
      simp only [SVType.refs, List.mem_singleton] at hpc
      subst hpc; rw [hg1]; rfl
    · intro lf hlf; simp only [SVType.raw, labOf_of_le hlf hg1]
  | top => exact ⟨.top, l, by simp [readVType, SVType.encode, u8], hwf, Labels.Le.refl l, by simp, by simp [SVType.refs], fun _ _ => rfl⟩
  | int => exact ⟨.int, l, by simp [readVType, SVType.encode, u8], hwf, Labels.Le.refl l, by simp, by simp [SVType.refs], fun _ _ => rfl⟩
  | float => exact ⟨.float, l, by simp [readVType, SVType.encode, u8], hwf, Labels.Le.refl l, by simp, by simp [SVType.refs], fun _ _ => rfl⟩
  | double => exact ⟨.double, l, by simp [readVType, SVType.encode, u8], hwf, Labels.Le.refl l, by simp, by simp [SVType.refs], fun _ _ => rfl⟩
  | long => exact ⟨.long, l, by simp [readVType, SVType.encode, u8], hwf, Labels.Le.refl l, by simp, by simp [SVType.refs], fun _ _ => rfl⟩
  | null => exact ⟨.null, l, by simp [readVType, SVType.encode, u8], hwf, Labels.Le.refl l, by simp, by simp [SVType.refs], fun _ _ => rfl⟩
  | uninitThis => exact ⟨.uninitThis, l, by simp [readVType, SVType.encode, u8], hwf, Labels.Le.refl l, by simp, by simp [SVType.refs], fun _ _ => rfl⟩

theorem readVTypes_ok (p : Pool) (pos : Nat → Nat) (n cl : Nat) (hp : PosOk pos n cl) (vs : List SVType)
    (hv : ∀ v ∈ vs, v.Legal p n) (l : Labels) (r : Bytes) (hwf : l.WF) (hcl : l.codeLength = cl)
    (hcnt : l.count + (vs.map SVType.labelRefs).sum < 65536) :
    StepOk l (readVecS (readVType p) vs.length l (vs.flatMap (SVType.encode pos) ++ r)) r (vs.map SVType.labelRefs).sum
      (vs.flatMap (SVType.refs pos)) (fun lf => vs.map (SVType.raw lf pos)) :=
  readVecS_stepOk (readVType p) (SVType.encode pos) (fun lf v => v.raw lf pos) SVType.labelRefs (SVType.refs pos) cl vs
    (fun v hvm l r hwf hcl hcnt => readVType_ok p pos n cl hp v (hv v hvm) l r hwf hcl hcnt) l hwf hcl hcnt r

end ClassRead
