import FeatherModel.Model.CodeWrite

/-!
# Patching reserved branch bytes: list-level view of `put_i16_at` / `put_i32_at` and of the `for unwritten` loop
-/

namespace CodeWrite

/-- list version of `putBytes` -/
def patchL : Bytes → Nat → Bytes → Bytes
  | bs, _, [] => bs
  | bs, at_, v :: vs => patchL (bs.set at_ v) (at_ + 1) vs

theorem putBytes_toList (v : Bytes) : ∀ (w : Array Nat) (at_ : Nat), (putBytes w at_ v).toList = patchL w.toList at_ v := by
  induction v with
  | nil => intro w at_; rfl
  | cons b bs ih =>
    intro w at_
    simp only [putBytes, patchL]
    rw [ih]
    simp

theorem patchL_length (v : Bytes) : ∀ (bs : Bytes) (at_ : Nat), (patchL bs at_ v).length = bs.length := by
  induction v with
  | nil => intro bs at_; rfl
  | cons b v ih => intro bs at_; simp only [patchL]; rw [ih]; simp

/-- a patch behind a prefix does not touch the prefix -/
theorem patchL_append_right (v : Bytes) : ∀ (A B : Bytes) (off : Nat),
    patchL (A ++ B) (A.length + off) v = A ++ patchL B off v := by
  induction v with
  | nil => intro A B off; rfl
  | cons b v ih =>
    intro A B off
    simp only [patchL]
    have : (A ++ B).set (A.length + off) b = A ++ B.set off b := by
      rw [List.set_append]
      have : ¬ A.length + off < A.length := by omega
      simp [this]
    rw [this]
    have e : A.length + off + 1 = A.length + (off + 1) := by omega
    rw [e, ih]

/-- a patch that ends inside the first part does not touch the second -/
theorem patchL_append_left (v : Bytes) : ∀ (A B : Bytes) (off : Nat), off + v.length ≤ A.length →
    patchL (A ++ B) off v = patchL A off v ++ B := by
  induction v with
  | nil => intro A B off _; rfl
  | cons b v ih =>
    intro A B off h
    simp only [patchL]
    simp only [List.length_cons] at h
    have : (A ++ B).set off b = A.set off b ++ B := by
      rw [List.set_append]
      have : off < A.length := by omega
      simp [this]
    rw [this, ih]
    simp; omega

/-- overwriting exactly the bytes `X` -/
theorem patchL_exact (v : Bytes) : ∀ (X B : Bytes), X.length = v.length → patchL (X ++ B) 0 v = v ++ B := by
  induction v with
  | nil => intro X B h; simp at h; subst h; rfl
  | cons b v ih =>
    intro X B h
    cases X with
    | nil => simp at h
    | cons x X =>
      simp only [patchL, List.cons_append, List.set_cons_zero]
      have := patchL_append_right v [b] (X ++ B) 0
      simp only [List.length_cons, List.length_nil, Nat.zero_add, List.cons_append, List.nil_append] at this
      rw [this, ih X B (by simpa using h)]

/-- the value patched in for an unwritten label -/
def patchVal (lp : Nat → Option Nat) (u : Unwritten) : Option Bytes :=
  match lp u.label with
  | none => none
  | some tp =>
    if u.wide then some (i32b (offs u.opcodePos tp))
    else if fitsI16 (offs u.opcodePos tp) then some (i16b (offs u.opcodePos tp))
    else none

/-- the `for unwritten` loop when it runs to completion; positions are relative to `base` -/
def resolveAt (base : Nat) (lp : Nat → Option Nat) : List Unwritten → Bytes → Option Bytes
  | [], bs => some bs
  | u :: us, bs =>
    match patchVal lp u with
    | none => none
    | some v => resolveAt base lp us (patchL bs (u.writePos - base) v)

theorem resolve_done (lp : Nat → Option Nat) (us : List Unwritten) :
    ∀ (w w' : Array Nat), resolve lp us w = .done w' → resolveAt 0 lp us w.toList = some w'.toList := by
  induction us with
  | nil => intro w w' h; simp only [resolve] at h; cases h; rfl
  | cons u us ih =>
    intro w w' h
    simp only [resolve] at h
    simp only [resolveAt, patchVal]
    split at h
    · cases h
    · rename_i tp htp
      rw [htp]
      simp only []
      split at h
      · rename_i hw
        simp only [hw, if_true]
        rw [← putBytes_toList]
        exact ih _ _ h
      · rename_i hw
        split at h
        · rename_i hf
          simp only [hw, hf, if_true]
          simp only [Bool.false_eq_true, if_false]
          rw [← putBytes_toList]
          exact ih _ _ h
        · cases h

theorem resolveAt_append (base : Nat) (lp : Nat → Option Nat) (us1 us2 : List Unwritten) :
    ∀ bs, resolveAt base lp (us1 ++ us2) bs = (resolveAt base lp us1 bs).bind (resolveAt base lp us2) := by
  induction us1 with
  | nil => intro bs; rfl
  | cons u us ih =>
    intro bs
    simp only [List.cons_append, resolveAt]
    cases patchVal lp u with
    | none => rfl
    | some v => exact ih _

theorem resolveAt_length (base : Nat) (lp : Nat → Option Nat) (us : List Unwritten) :
    ∀ bs c, resolveAt base lp us bs = some c → c.length = bs.length := by
  induction us with
  | nil => intro bs c h; simp only [resolveAt] at h; cases h; rfl
  | cons u us ih =>
    intro bs c h
    simp only [resolveAt] at h
    split at h
    · cases h
    · have := ih _ _ h
      rw [this, patchL_length]

/-- width of the space reserved for an unwritten label -/
def Unwritten.width (u : Unwritten) : Nat := if u.wide then 4 else 2

theorem patchVal_length {lp : Nat → Option Nat} {u : Unwritten} {v : Bytes} (h : patchVal lp u = some v) :
    v.length = u.width := by
  unfold patchVal at h
  split at h
  · cases h
  · split at h
    · rename_i hw; cases h; simp [Unwritten.width, hw, i32b, u32b]
    · rename_i hw
      split at h
      · cases h; simp [Unwritten.width, hw, i16b, u16b]
      · cases h

/-- all reserved spaces lie inside `[lo, hi)` -/
def Within (lo hi : Nat) (us : List Unwritten) : Prop :=
  ∀ u ∈ us, lo ≤ u.writePos ∧ u.writePos + u.width ≤ hi

/-- **locality**: patches reserved inside a region only change that region, and what they change it to does not
depend on the surroundings -/
theorem resolveAt_local (lp : Nat → Option Nat) (X Y : Bytes) (us : List Unwritten) :
    ∀ (A : Bytes), Within X.length (X.length + A.length) us →
      resolveAt 0 lp us (X ++ A ++ Y) = (resolveAt X.length lp us A).map (fun A' => X ++ A' ++ Y) := by
  induction us with
  | nil => intro A _; rfl
  | cons u us ih =>
    intro A hw
    simp only [resolveAt]
    cases hv : patchVal lp u with
    | none => rfl
    | some v =>
      simp only []
      obtain ⟨h1, h2⟩ := hw u List.mem_cons_self
      have hl := patchVal_length hv
      have e1 : patchL (X ++ A ++ Y) (u.writePos - 0) v = X ++ patchL A (u.writePos - X.length) v ++ Y := by
        have : u.writePos - 0 = X.length + (u.writePos - X.length) := by omega
        rw [this, List.append_assoc, patchL_append_right, patchL_append_left _ _ _ _ (by omega), List.append_assoc]
      rw [e1]
      have := ih (patchL A (u.writePos - X.length) v) (by
        intro u' hu'
        rw [patchL_length]
        exact hw u' (List.mem_cons_of_mem _ hu'))
      exact this

end CodeWrite
