import FeatherModel.Lemmas.TinyStep

/-! Consequences of `step_treeStep` for whole runs of the Tiny v2 reader (C03): one entry per recognised line,
well-formed result maps, closed classes are never touched again. -/

namespace Tiny

/-! ## runs -/

theorem run_cons_some {n : Nat} {s s' : St} {l : TLine} {ls : List TLine} (h : run n s (l :: ls) = some s') :
    ∃ m, step n s l = some m ∧ run n m ls = some s' := by
  simp only [run] at h
  cases hs : step n s l with
  | none => simp [hs] at h
  | some m => exact ⟨m, rfl, by simpa [hs] using h⟩

theorem run_append_some {n : Nat} : ∀ {a : List TLine} {s s' : St} {b : List TLine}, run n s (a ++ b) = some s' →
    ∃ m, run n s a = some m ∧ run n m b = some s'
  | [], s, s', b, h => ⟨s, rfl, h⟩
  | l :: a, s, s', b, h => by
    obtain ⟨m, h1, h2⟩ := run_cons_some (ls := a ++ b) h
    obtain ⟨m', h3, h4⟩ := run_append_some h2
    exact ⟨m', by simp only [run, h1, h3], h4⟩

/-- `read` succeeded: the header line was accepted, its own section gave the comment of the set, and the body (the
lines from the first one at indentation 0 on) ran through -/
theorem read_some {n : Nat} {t : List Nat} {m : Mappings} (h : read n t = some m) :
    ∃ (hd : TLine) (ls : List TLine) (s : St), textLines t = hd :: ls ∧ 2 ≤ n ∧ m.ns.length = n ∧
      headerSec none ls = some (m.doc, bodyPart ls) ∧ hd.fields = [50] :: [48] :: m.ns ∧
      run n { depth := 0, kind := .field, classes := [] } (bodyPart ls) = some s ∧ m.classes = s.classes := by
  unfold read at h
  split at h
  · simp at h
  · rename_i hn
    split at h
    · simp at h
    · rename_i hd ls htl
      split at h
      · simp at h
      · split at h
        · rename_i two zero nss hf
          split at h
          · simp at h
          · rename_i h2
            split at h
            · simp at h
            · rename_i h0
              split at h
              · simp at h
              · rename_i hlen
                split at h
                · simp at h
                · split at h
                  · simp at h
                  · rename_i doc body hsec
                    split at h
                    · simp at h
                    · rename_i s hrun
                      simp only [Option.some.injEq] at h
                      subst h
                      simp only [ne_eq, Decidable.not_not] at h2 h0 hlen
                      subst h2 h0
                      have hb := headerSec_rest ls none doc body hsec
                      subst hb
                      exact ⟨hd, ls, s, htl, by omega, hlen, hsec, hf, hrun, rfl⟩
        · simp at h

/-! ## one entry per recognised line -/

def delta (κ κ' : LineKind) : Nat := if κ = κ' then 1 else 0

theorem paramStep_counts {κ : LineKind} {p p' : Param} (h : ParamStep κ p p') :
    κ = .doc ∧ docN p'.doc = docN p.doc + 1 := by
  cases h with
  | doc h1 => simp [docN, h1]

theorem fieldStep_counts {κ : LineKind} {f f' : Field} (h : FieldStep κ f f') :
    κ = .doc ∧ docN f'.doc = docN f.doc + 1 := by
  cases h with
  | doc h1 => simp [docN, h1]

theorem methodStep_counts {κ : LineKind} {m m' : Method} (h : MethodStep κ m m') :
    (κ = .doc ∨ κ = .par) ∧ methodDocs m' = methodDocs m + delta κ .doc ∧
      m'.params.length = m.params.length + delta κ .par := by
  cases h with
  | doc h1 => simp [methodDocs, docN, h1, delta] <;> omega
  | addParam h1 h2 => simp [methodDocs, docN, h1, delta]
  | inParam h1 h2 =>
    obtain ⟨rfl, h3⟩ := paramStep_counts h2
    simp only [methodDocs, h1, List.map_append, List.sum_append, List.map_cons, List.map_nil, List.sum_cons, List.sum_nil,
      h3, delta, List.length_append, List.length_cons, List.length_nil]
    simp
    omega

theorem classStep_counts {κ : LineKind} {c c' : Class} (h : ClassStep κ c c') :
    c'.fields.length = c.fields.length + delta κ .fld ∧ c'.methods.length = c.methods.length + delta κ .mth ∧
      classParams c' = classParams c + delta κ .par ∧ classDocs c' = classDocs c + delta κ .doc := by
  cases h with
  | doc h1 => simp [classDocs, classParams, docN, h1, delta] <;> omega
  | addField h1 h2 h3 => simp [classDocs, classParams, docN, h1, delta]
  | addMethod h1 h2 h3 h4 => simp [classDocs, classParams, methodDocs, docN, h1, h2, delta]
  | inField h1 h2 =>
    obtain ⟨rfl, h3⟩ := fieldStep_counts h2
    simp only [classDocs, classParams, h1, List.map_append, List.sum_append, List.map_cons, List.map_nil, List.sum_cons,
      List.sum_nil, h3, delta, List.length_append, List.length_cons, List.length_nil]
    simp
    omega
  | inMethod h1 h2 =>
    obtain ⟨hk, h3, h4⟩ := methodStep_counts h2
    simp only [classDocs, classParams, h1, List.map_append, List.sum_append, List.map_cons, List.map_nil, List.sum_cons,
      List.sum_nil, h3, h4, List.length_append, List.length_cons, List.length_nil]
    rcases hk with rfl | rfl <;> simp [delta] <;> omega

/-- a line below a class never adds a class -/
theorem classStep_not_cls {κ : LineKind} {c c' : Class} (h : ClassStep κ c c') : delta κ .cls = 0 := by
  cases h with
  | doc => simp [delta]
  | addField => simp [delta]
  | addMethod => simp [delta]
  | inField _ hf => obtain ⟨rfl, _⟩ := fieldStep_counts hf; simp [delta]
  | inMethod _ hm => obtain ⟨hh, _⟩ := methodStep_counts hm; rcases hh with rfl | rfl <;> simp [delta]

/-- an accepted line of kind `κ` adds exactly one entry of kind `κ` and nothing else -/
theorem treeStep_counts {κ : LineKind} {cs cs' : AList JStr Class} (h : TreeStep κ cs cs') (κ' : LineKind) (hk : κ' ≠ .skip) :
    countOf κ' cs' = countOf κ' cs + delta κ κ' := by
  cases h with
  | skip => cases κ' <;> simp [delta] at hk ⊢
  | addClass h1 h2 h3 h4 h5 =>
    cases κ' <;> simp [countOf, delta, classParams, classDocs, docN, h1, h2, h3] at hk ⊢
  | inClass h1 =>
    obtain ⟨c1, c2, c3, c4⟩ := classStep_counts h1
    have c0 := classStep_not_cls h1
    cases κ' with
    | skip => exact absurd rfl hk
    | cls => simp [countOf, c0]
    | fld => simp [countOf, c1]; omega
    | mth => simp [countOf, c2]; omega
    | par => simp [countOf, c3]; omega
    | doc => simp [countOf, c4]; omega

theorem count_lineKinds_cons (κ' : LineKind) (k : Kind) (l : TLine) (ls : List TLine) :
    (lineKinds k (l :: ls)).count κ' = delta (lineKind k l) κ' + (lineKinds (kindAfter k l) ls).count κ' := by
  simp only [lineKinds, List.count_cons, delta]
  by_cases h : lineKind k l = κ'
  · simp [h]; omega
  · have : ¬ ((lineKind k l == κ') = true) := by simpa using h
    simp [h]

/-- **no merge, no loss**: over a whole run, the number of entries of every kind grows by the number of lines of that kind -/
theorem run_counts {n : Nat} (κ' : LineKind) (hk : κ' ≠ .skip) :
    ∀ (ls : List TLine) (s s' : St), run n s ls = some s' →
      countOf κ' s'.classes = countOf κ' s.classes + (lineKinds s.kind ls).count κ'
  | [], s, s', h => by
    simp only [run, Option.some.injEq] at h
    subst h
    simp [lineKinds]
  | l :: ls, s, s', h => by
    obtain ⟨m, h1, h2⟩ := run_cons_some h
    obtain ⟨ht, hkind, _⟩ := step_treeStep h1
    have ih := run_counts κ' hk ls m s' h2
    rw [ih, treeStep_counts ht κ' hk, count_lineKinds_cons, hkind]
    omega

/-! ## closed classes are final -/

theorem exists_snoc {α : Type} : ∀ {l : List α}, l ≠ [] → ∃ r y, l = r ++ [y]
  | [], h => absurd rfl h
  | [a], _ => ⟨[], a, rfl⟩
  | a :: b :: t, _ => by
    obtain ⟨r, y, h⟩ := exists_snoc (l := b :: t) (by simp)
    exact ⟨a :: r, y, by rw [h]; rfl⟩

theorem treeStep_frozen {κ : LineKind} {cs cs' : AList JStr Class} (h : TreeStep κ cs cs')
    {init : AList JStr Class} {x : JStr × Class} (hc : cs = init ++ [x]) : ∃ rest, rest ≠ [] ∧ cs' = init ++ rest := by
  cases h with
  | skip => exact ⟨[x], by simp, hc⟩
  | @addClass _ key c _ _ _ _ _ => exact ⟨[x, (key, c)], by simp, by rw [hc]; simp⟩
  | inClass h1 =>
    rename_i init' k c c'
    have := List.append_inj' hc (by simp)
    exact ⟨[(k, c')], by simp, by rw [this.1]⟩

/-- **no re-parenting**: whatever precedes the last class entry at some point of a run is still there, unchanged and
in the same place, at the end -/
theorem run_frozen {n : Nat} : ∀ (ls : List TLine) (s s' : St), run n s ls = some s' →
    ∀ {init : AList JStr Class} {x : JStr × Class}, s.classes = init ++ [x] → ∃ rest, rest ≠ [] ∧ s'.classes = init ++ rest
  | [], s, s', h, init, x, hc => by
    simp only [run, Option.some.injEq] at h
    subst h
    exact ⟨[x], by simp, hc⟩
  | l :: ls, s, s', h, init, x, hc => by
    obtain ⟨m, h1, h2⟩ := run_cons_some h
    obtain ⟨rest, hne, hm⟩ := treeStep_frozen (step_treeStep h1).1 hc
    obtain ⟨r0, y, rfl⟩ := exists_snoc hne
    obtain ⟨rest', hne', hs'⟩ := run_frozen ls m s' h2 (init := init ++ r0) (x := y) (by rw [hm, List.append_assoc])
    exact ⟨r0 ++ rest', by simp [hne'], by rw [hs', List.append_assoc]⟩

end Tiny
