import FeatherModel.Lemmas.ClassWriteFullPool

/-!
# C02 (whole writer) — the attribute combinators: inversion of successful runs
-/

namespace ClassWriteFull
open PoolWrite (Entry)
open FramePool (Good Le)
open ClassRead ClassRead.Spec

/-- `P` holds of the reader's table of every pool the writer can still reach -/
abbrev Sound (p : Pool) (P : ClassRead.Pool → Prop) : Prop := ∀ q, Ext p q → P (rpool q)

theorem Sound.mono {p p' : Pool} {P : ClassRead.Pool → Prop} (h : Sound p P) (l : Le p p') : Sound p' P :=
  fun q e => h q (e.of_le l)

theorem ok_inj {α : Type} {a b : α} : (Except.ok a : Except Fail α) = .ok b ↔ a = b := by
  constructor
  · intro h; cases h; rfl
  · intro h; rw [h]

theorem pure_eq_ok {α : Type} {a b : α} : (pure a : Except Fail α) = .ok b ↔ a = b := ok_inj

theorem idx16_inv {r : Except Fail (Nat × Pool)} {b : Bytes} {p' : Pool} (h : idx16 r = .ok (b, p')) :
    ∃ i, r = .ok (i, p') ∧ b = be16 i := by
  obtain ⟨⟨i, p1⟩, h1, h2⟩ := bind_eq_ok.mp h
  have := pure_eq_ok.mp h2
  cases this
  exact ⟨i, h1, rfl⟩

theorem attrFix_inv {name : JStr} {len : Nat} {body : Pool → W} {p p' : Pool} {b : Bytes}
    (h : attrFix name len body p = .ok (b, p')) :
    ∃ i p1 bb, putUtf8 p name = .ok (i, p1) ∧ body p1 = .ok (bb, p') ∧ b = be16 i ++ be32 len ++ bb := by
  obtain ⟨⟨i, p1⟩, h1, h2⟩ := bind_eq_ok.mp h
  obtain ⟨⟨bb, p2⟩, h3, h4⟩ := bind_eq_ok.mp h2
  have := pure_eq_ok.mp h4
  cases this
  exact ⟨i, p1, bb, h1, h3, rfl⟩

theorem attrBuf_inv {name : JStr} {body : Pool → W} {p p' : Pool} {b : Bytes}
    (h : attrBuf name body p = .ok (b, p')) :
    ∃ bb p1 i, body p = .ok (bb, p1) ∧ putUtf8 p1 name = .ok (i, p') ∧ bb.length ≤ 4294967295 ∧ b = attrFrame i bb := by
  obtain ⟨⟨bb, p1⟩, h1, h2⟩ := bind_eq_ok.mp h
  obtain ⟨⟨i, p2⟩, h3, h4⟩ := bind_eq_ok.mp h2
  obtain ⟨l, h5, h6⟩ := bind_eq_ok.mp h4
  obtain ⟨hl, rfl⟩ := cnt32_eq_ok.mp h5
  have := pure_eq_ok.mp h6
  cases this
  exact ⟨bb, p1, i, h1, h3, hl, rfl⟩

theorem unknownAttr_inv {a : Attr} {p p' : Pool} {b : Bytes} (h : unknownAttr p a = .ok (b, p')) :
    ∃ i, putUtf8 p a.name = .ok (i, p') ∧ a.bytes.length ≤ 4294967295 ∧ b = attrFrame i a.bytes := by
  obtain ⟨⟨i, p1⟩, h1, h2⟩ := bind_eq_ok.mp h
  obtain ⟨l, h5, h6⟩ := bind_eq_ok.mp h2
  obtain ⟨hl, rfl⟩ := cnt32_eq_ok.mp h5
  have := pure_eq_ok.mp h6
  cases this
  exact ⟨i, h1, hl, rfl⟩

theorem always_inv {w : Pool → W} {p p' : Pool} {o : Option Bytes} (h : always w p = .ok (o, p')) :
    ∃ b, w p = .ok (b, p') ∧ o = some b := by
  obtain ⟨⟨b, p1⟩, h1, h2⟩ := bind_eq_ok.mp h
  have := pure_eq_ok.mp h2
  cases this
  exact ⟨b, h1, rfl⟩

theorem onlyIf_inv {c : Bool} {w : Pool → W} {p p' : Pool} {o : Option Bytes} (h : onlyIf c w p = .ok (o, p')) :
    (c = true ∧ ∃ b, w p = .ok (b, p') ∧ o = some b) ∨ (c = false ∧ o = none ∧ p' = p) := by
  unfold onlyIf at h
  cases c with
  | true => exact Or.inl ⟨rfl, always_inv h⟩
  | false =>
    simp only [Bool.false_eq_true, if_false] at h
    have := ok_inj.mp h
    cases this
    exact Or.inr ⟨rfl, rfl, rfl⟩

theorem ifSome_inv {α : Type} {x : Option α} {w : α → Pool → W} {p p' : Pool} {o : Option Bytes}
    (h : ifSome x w p = .ok (o, p')) :
    (∃ a b, x = some a ∧ w a p = .ok (b, p') ∧ o = some b) ∨ (x = none ∧ o = none ∧ p' = p) := by
  unfold ifSome at h
  cases x with
  | none =>
    have := ok_inj.mp h
    cases this
    exact Or.inr ⟨rfl, rfl, rfl⟩
  | some a =>
    obtain ⟨b, h1, h2⟩ := always_inv h
    exact Or.inl ⟨a, b, rfl, h1, h2⟩

theorem runAttrs_nil_inv {p p' : Pool} {bs : List Bytes} (h : runAttrs [] p = .ok (bs, p')) : bs = [] ∧ p' = p := by
  have := ok_inj.mp h
  cases this
  exact ⟨rfl, rfl⟩

theorem runAttrs_cons_inv {w : AttrW} {ws : List AttrW} {p p' : Pool} {bs : List Bytes}
    (h : runAttrs (w :: ws) p = .ok (bs, p')) :
    ∃ o p1 bs1, w p = .ok (o, p1) ∧ runAttrs ws p1 = .ok (bs1, p') ∧ bs = o.toList ++ bs1 := by
  obtain ⟨⟨o, p1⟩, h1, h2⟩ := bind_eq_ok.mp h
  obtain ⟨⟨bs1, p2⟩, h3, h4⟩ := bind_eq_ok.mp h2
  have := pure_eq_ok.mp h4
  cases this
  exact ⟨o, p1, bs1, h1, h3, rfl⟩

theorem runAttrs_append_inv {ws vs : List AttrW} {p p' : Pool} {bs : List Bytes}
    (h : runAttrs (ws ++ vs) p = .ok (bs, p')) :
    ∃ bs1 p1 bs2, runAttrs ws p = .ok (bs1, p1) ∧ runAttrs vs p1 = .ok (bs2, p') ∧ bs = bs1 ++ bs2 := by
  induction ws generalizing p bs with
  | nil => exact ⟨[], p, bs, rfl, h, rfl⟩
  | cons w ws ih =>
    obtain ⟨o, p1, bs1, h1, h2, rfl⟩ := runAttrs_cons_inv h
    obtain ⟨b1, p2, b2, h3, h4, rfl⟩ := ih h2
    refine ⟨o.toList ++ b1, p2, b2, ?_, h4, by simp⟩
    simp [runAttrs, h1, h3, bind, Except.bind, pure, Except.pure]

theorem attrsBytes_inv {as : List Bytes} {b : Bytes} (h : attrsBytes as = .ok b) :
    as.length ≤ 65535 ∧ b = be16 as.length ++ as.flatten := by
  obtain ⟨c, h1, h2⟩ := bind_eq_ok.mp h
  obtain ⟨hl, rfl⟩ := cnt16_eq_ok.mp h1
  have := pure_eq_ok.mp h2
  exact ⟨hl, this.symm⟩

/-- `encAttrs` of a list of attributes is what `attrsBytes` emits for their framed bytes -/
theorem encAttrs_eq {A : Type} (raw : A → Nat × Bytes) (as : List A) :
    encAttrs (as.map raw) = be16 as.length ++ (as.map fun a => attrFrame (raw a).1 (raw a).2).flatten := by
  simp [encAttrs, List.flatMap, List.map_map, Function.comp_def]

/-! ## lists -/

theorem writeList_nil_inv {α : Type} {f : Pool → α → W} {p p' : Pool} {b : Bytes}
    (h : writeList f p [] = .ok (b, p')) : b = [] ∧ p' = p := by
  have := ok_inj.mp h
  cases this
  exact ⟨rfl, rfl⟩

theorem writeList_cons_inv {α : Type} {f : Pool → α → W} {a : α} {as : List α} {p p' : Pool} {b : Bytes}
    (h : writeList f p (a :: as) = .ok (b, p')) :
    ∃ b1 p1 b2, f p a = .ok (b1, p1) ∧ writeList f p1 as = .ok (b2, p') ∧ b = b1 ++ b2 := by
  obtain ⟨⟨b1, p1⟩, h1, h2⟩ := bind_eq_ok.mp h
  obtain ⟨⟨b2, p2⟩, h3, h4⟩ := bind_eq_ok.mp h2
  have := pure_eq_ok.mp h4
  cases this
  exact ⟨b1, p1, b2, h1, h3, rfl⟩

/-- a list written element by element: every element is encoded by some layout item `l` related to it by `R` in the
final pool (`R` stable under pool growth) -/
theorem writeList_spec {α β : Type} (f : Pool → α → W) (enc : β → Bytes) (R : Pool → α → β → Prop)
    (hmono : ∀ p p' a l, Le p p' → R p a l → R p' a l)
    (hf : ∀ p p' a b, Good p → f p a = .ok (b, p') → Step p p' ∧ ∃ l, b = enc l ∧ R p' a l) :
    ∀ (xs : List α) (p p' : Pool) (b : Bytes), Good p → writeList f p xs = .ok (b, p') →
      Step p p' ∧ ∃ ls : List β, b = ls.flatMap enc ∧ ls.length = xs.length ∧ ∀ x ∈ ls.zip xs, R p' x.2 x.1 := by
  intro xs
  induction xs with
  | nil =>
    intro p p' b hg h
    obtain ⟨rfl, rfl⟩ := writeList_nil_inv h
    exact ⟨Step.refl hg, [], rfl, rfl, by simp⟩
  | cons a as ih =>
    intro p p' b hg h
    obtain ⟨b1, p1, b2, h1, h2, rfl⟩ := writeList_cons_inv h
    obtain ⟨s1, l, rfl, r1⟩ := hf p p1 a b1 hg h1
    obtain ⟨s2, ls, rfl, hl, r2⟩ := ih p1 p' b2 s1.good h2
    refine ⟨s1.trans s2, l :: ls, by simp, by simp [hl], ?_⟩
    intro x hx
    simp only [List.zip_cons_cons, List.mem_cons] at hx
    rcases hx with rfl | hx
    · exact hmono _ _ _ _ s2.le r1
    · exact r2 x hx

theorem writeSlice16_inv {α : Type} {f : Pool → α → W} {xs : List α} {p p' : Pool} {b : Bytes}
    (h : writeSlice16 f p xs = .ok (b, p')) :
    xs.length ≤ 65535 ∧ ∃ bb, writeList f p xs = .ok (bb, p') ∧ b = be16 xs.length ++ bb := by
  obtain ⟨c, h1, h2⟩ := bind_eq_ok.mp h
  obtain ⟨hl, rfl⟩ := cnt16_eq_ok.mp h1
  obtain ⟨⟨bb, p1⟩, h3, h4⟩ := bind_eq_ok.mp h2
  have := pure_eq_ok.mp h4
  cases this
  exact ⟨hl, bb, h3, rfl⟩

/-- a `u2`-counted table written row by row -/
theorem table_spec {α β : Type} (f : Pool → α → W) (enc : β → Bytes) (R : Pool → α → β → Prop)
    (hmono : ∀ p p' a l, Le p p' → R p a l → R p' a l)
    (hf : ∀ p p' a b, Good p → f p a = .ok (b, p') → Step p p' ∧ ∃ l, b = enc l ∧ R p' a l)
    {xs : List α} {p p' : Pool} {b : Bytes} (hg : Good p) (h : writeSlice16 f p xs = .ok (b, p')) :
    Step p p' ∧ ∃ ls : List β, b = be16 ls.length ++ ls.flatMap enc ∧ ls.length = xs.length ∧ ls.length < 65536 ∧
      ∀ x ∈ ls.zip xs, R p' x.2 x.1 := by
  obtain ⟨hl, bb, h1, rfl⟩ := writeSlice16_inv h
  obtain ⟨s, ls, rfl, hlen, hr⟩ := writeList_spec f enc R hmono hf xs p p' bb hg h1
  exact ⟨s, ls, by rw [hlen], hlen, by omega, hr⟩

/-- a `u2`-counted list of class references (`Exceptions`, `NestMembers`, `PermittedSubclasses`, `uses`, …) -/
theorem classList_spec {cs : List JStr} {p p' : Pool} {b : Bytes} (hg : Good p)
    (h : writeSlice16 (fun p c => idx16 (putClass p c)) p cs = .ok (b, p')) :
    Step p p' ∧ ∃ cps : List Nat, b = be16 cps.length ++ cps.flatMap be16 ∧ cps.length = cs.length ∧ cps.length < 65536 ∧
      ∀ x ∈ cps.zip cs, x.1 < 65536 ∧ ClsAt p' x.1 x.2 := by
  obtain ⟨hl, bb, h1, rfl⟩ := writeSlice16_inv h
  obtain ⟨s, ls, rfl, hlen, hr⟩ := writeList_spec (fun p c => idx16 (putClass p c)) be16
    (fun p c i => i < 65536 ∧ ClsAt p i c) (fun p p' a l hle hr => ⟨hr.1, hr.2.mono hle⟩)
    (fun p p' a b hg h => by
      obtain ⟨i, h1, rfl⟩ := idx16_inv h
      obtain ⟨s, c, hi⟩ := putClass_spec hg h1
      exact ⟨s, i, rfl, hi, c⟩) cs p p' bb hg h1
  exact ⟨s, ls, by rw [hlen], hlen, by omega, hr⟩

end ClassWriteFull
