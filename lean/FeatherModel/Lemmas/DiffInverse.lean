import FeatherModel.Lemmas.DiffApply

/-!
# `diff` then `apply`: generic zip / apply composition, then the four levels
-/

namespace DiffModel
open AList

/-- two optional entries are both absent or both present and related -/
def OptRel {T : Type} (R : T → T → Prop) : Option T → Option T → Prop
  | .none, .none => True
  | some x, some y => R x y
  | _, _ => False

section zip
variable {K V W : Type} [BEq K] [LawfulBEq K]

theorem mapKeysM_spec {g : K → Option W} : ∀ {ks : List K} {r : AList K W}, mapKeysM g ks = some r →
    r.keys = ks ∧ ∀ k, (k ∈ ks → lookup k r = g k) ∧ (k ∉ ks → lookup k r = none) := by
  intro ks
  induction ks with
  | nil =>
    intro r h
    simp only [mapKeysM, Option.some.injEq] at h
    subst h
    exact ⟨rfl, fun k => ⟨fun hk => (by cases hk), fun _ => rfl⟩⟩
  | cons k0 rest ih =>
    intro r h
    simp only [mapKeysM] at h
    cases hg : g k0 with
    | none => rw [hg] at h; simp at h
    | some w =>
      rw [hg] at h
      simp only at h
      cases hr : mapKeysM g rest with
      | none => rw [hr] at h; simp at h
      | some r' =>
        rw [hr] at h
        simp only [Option.some.injEq] at h
        subst h
        obtain ⟨hk, hl⟩ := ih hr
        refine ⟨by simp [keys] at hk ⊢; exact hk, ?_⟩
        intro k
        simp only [lookup_cons, List.mem_cons, not_or]
        by_cases hk0 : k0 = k
        · subst hk0; simp [hg]
        · simp only [beq_false_of_ne hk0, Bool.false_eq_true, if_false]
          constructor
          · intro hm
            rcases hm with hm | hm
            · exact absurd hm.symm hk0
            · exact (hl k).1 hm
          · intro hm
            exact (hl k).2 hm.2

omit [BEq K] [LawfulBEq K] in
theorem mapKeysM_none {g : K → Option W} : ∀ {ks : List K}, mapKeysM g ks = none → ∃ k, k ∈ ks ∧ g k = none := by
  intro ks
  induction ks with
  | nil => intro h; simp [mapKeysM] at h
  | cons k0 rest ih =>
    intro h
    simp only [mapKeysM] at h
    cases hg : g k0 with
    | none => exact ⟨k0, List.mem_cons_self, hg⟩
    | some w =>
      rw [hg] at h
      simp only at h
      cases hr : mapKeysM g rest with
      | none =>
        obtain ⟨k, hk, hgk⟩ := ih hr
        exact ⟨k, List.mem_cons_of_mem _ hk, hgk⟩
      | some r' => rw [hr] at h; simp at h

theorem mem_zipKeys {a b : AList K V} {k : K} :
    k ∈ zipKeys a b ↔ lookup k a ≠ none ∨ lookup k b ≠ none := by
  unfold zipKeys
  simp only [List.mem_append, List.mem_filter, Bool.not_eq_eq_eq_not, Bool.not_true]
  have ha : k ∈ a.keys ↔ lookup k a ≠ none := by
    rw [Ne, lookup_eq_none_iff]; simp
  have hb : k ∈ b.keys ↔ lookup k b ≠ none := by
    rw [Ne, lookup_eq_none_iff]; simp
  have hc : contains k a = false ↔ lookup k a = none := by
    unfold contains; cases lookup k a <;> simp
  rw [ha, hb, hc]
  constructor
  · rintro (h | ⟨h, _⟩)
    · exact Or.inl h
    · exact Or.inr h
  · rintro (h | h)
    · exact Or.inl h
    · by_cases h' : lookup k a = none
      · exact Or.inr ⟨h, h'⟩
      · exact Or.inl h'

theorem nodup_zipKeys {a b : AList K V} (ha : NoDup a) (hb : NoDup b) : (zipKeys a b).Nodup := by
  unfold zipKeys
  rw [List.nodup_append]
  refine ⟨ha, List.Nodup.sublist List.filter_sublist hb, ?_⟩
  intro x hx y hy hxy
  subst hxy
  simp only [List.mem_filter, Bool.not_eq_eq_eq_not, Bool.not_true] at hy
  have : lookup x a = none := by
    have := hy.2
    unfold contains at this
    cases h : lookup x a with
    | none => rfl
    | some v => rw [h] at this; simp at this
  exact (lookup_eq_none_iff.mp this) hx

/-- **`zip_map`, key by key** -/
theorem zipMap_spec {f : Option V → Option V → Option W} {a b : AList K V} {r : AList K W}
    (ha : NoDup a) (hb : NoDup b) (h : zipMap f a b = some r) :
    NoDup r ∧ ∀ k, (lookup k a = none → lookup k b = none → lookup k r = none) ∧
      ((lookup k a ≠ none ∨ lookup k b ≠ none) → lookup k r = f (lookup k a) (lookup k b) ∧ lookup k r ≠ none) := by
  unfold zipMap at h
  obtain ⟨hk, hl⟩ := mapKeysM_spec h
  refine ⟨by unfold NoDup; rw [hk]; exact nodup_zipKeys ha hb, ?_⟩
  intro k
  constructor
  · intro h1 h2
    apply (hl k).2
    rw [mem_zipKeys]; simp [h1, h2]
  · intro h1
    have hm : k ∈ zipKeys a b := mem_zipKeys.mpr h1
    have h2 := (hl k).1 hm
    refine ⟨h2, ?_⟩
    have : k ∈ r.keys := by rw [hk]; exact hm
    intro hn
    exact (lookup_eq_none_iff.mp hn) this

end zip

section compose
variable {K D T : Type} [BEq K] [LawfulBEq K]

/-- **zip then apply**: if the per-entry diff followed by the per-entry application reproduces the `b` entry in each of
the three key situations, then the map diff followed by the map application reproduces `b` key by key -/
theorem diff_apply_map (ops : Ops K D T) (ns N : Nat) (child : D → T → Option T)
    (dfn : Option T → Option T → Option D) (R : T → T → Prop)
    {a b : AList K T} {dm : AList K D} (hna : NoDup a) (hnb : NoDup b)
    (hAB : ∀ k ta tb d, lookup k a = some ta → lookup k b = some tb → dfn (some ta) (some tb) = some d →
      ∃ t', applyPresent ops ns child d ta = some (some t') ∧ R t' tb)
    (hA : ∀ k ta d, lookup k a = some ta → lookup k b = none → dfn (some ta) none = some d →
      applyPresent ops ns child d ta = some none)
    (hB : ∀ k tb d, lookup k a = none → lookup k b = some tb → dfn none (some tb) = some d →
      ∃ t', applyAbsent ops ns N child k d = some t' ∧ R t' tb)
    (hz : zipMap dfn a b = some dm) :
    ∃ res, applyMap ops ns N child dm a = some res ∧ ∀ k, OptRel R (lookup k res) (lookup k b) := by
  obtain ⟨hnd, hzk⟩ := zipMap_spec hna hnb hz
  have hs := applyMap_spec ops ns N child dm a hnd hna
  -- the per-key outcome
  have key : ∀ k, ∃ o, applySpecM ops ns N child k (lookup k dm) (lookup k a) = some o ∧ OptRel R o (lookup k b) := by
    intro k
    obtain ⟨hz0, hz1⟩ := hzk k
    cases hla : lookup k a with
    | none =>
      cases hlb : lookup k b with
      | none =>
        rw [hz0 hla hlb]
        exact ⟨none, rfl, trivial⟩
      | some tb =>
        obtain ⟨hd, hdn⟩ := hz1 (Or.inr (by rw [hlb]; simp))
        rw [hla, hlb] at hd
        cases hdm : lookup k dm with
        | none => exact absurd hdm hdn
        | some d =>
          rw [hdm] at hd
          obtain ⟨t', ht', hr⟩ := hB k tb d hla hlb hd.symm
          exact ⟨some t', by simp [applySpecM, ht'], hr⟩
    | some ta =>
      obtain ⟨hd, hdn⟩ := hz1 (Or.inl (by rw [hla]; simp))
      rw [hla] at hd
      cases hdm : lookup k dm with
      | none => exact absurd hdm hdn
      | some d =>
        rw [hdm] at hd
        cases hlb : lookup k b with
        | none =>
          rw [hlb] at hd
          have := hA k ta d hla hlb hd.symm
          exact ⟨none, by simp [applySpecM, this], trivial⟩
        | some tb =>
          rw [hlb] at hd
          obtain ⟨t', ht', hr⟩ := hAB k ta tb d hla hlb hd.symm
          exact ⟨some t', by simp [applySpecM, ht'], hr⟩
  cases hr : applyMap ops ns N child dm a with
  | none =>
    rw [hr] at hs
    simp only [MapPost] at hs
    obtain ⟨k, hk⟩ := hs
    obtain ⟨o, ho, _⟩ := key k
    rw [hk] at ho
    cases ho
  | some res =>
    rw [hr] at hs
    simp only [MapPost] at hs
    refine ⟨res, rfl, ?_⟩
    intro k
    obtain ⟨o, ho, hrel⟩ := key k
    rw [hs k] at ho
    simp only [Option.some.injEq] at ho
    rw [ho]
    exact hrel

end compose

end DiffModel
