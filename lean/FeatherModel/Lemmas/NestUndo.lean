import FeatherModel.Lemmas.NestFold
import FeatherModel.Lemmas.NestNames
import FeatherModel.Lemmas.ReorderDesc

/-!
# C14 lemmas: un-nesting undoes nesting on the first namespace
-/

namespace Nest
open MapDesc

/-! ## the inverted table -/

theorem lookupLast_some {c r : JStr} : ∀ {l : AList JStr JStr}, lookupLast c l = some r → (c, r) ∈ l := by
  intro l
  induction l with
  | nil => intro h; simp [lookupLast] at h
  | cons e rest ih =>
    intro h
    obtain ⟨k, v⟩ := e
    simp only [lookupLast] at h
    cases hr : lookupLast c rest with
    | some r' =>
      rw [hr] at h
      simp only [Option.some.injEq] at h
      subst h
      exact List.mem_cons_of_mem _ (ih hr)
    | none =>
      rw [hr] at h
      simp only at h
      split at h
      · rename_i hk
        simp only [Option.some.injEq] at h
        have : k = c := by simpa using hk
        subst this; subst h
        exact List.mem_cons_self
      · simp at h

theorem lookupLast_none {c : JStr} : ∀ {l : AList JStr JStr}, lookupLast c l = none → ∀ kv ∈ l, kv.1 ≠ c := by
  intro l
  induction l with
  | nil => intro _ kv h; simp at h
  | cons e rest ih =>
    intro h kv hkv
    obtain ⟨k, v⟩ := e
    simp only [lookupLast] at h
    cases hr : lookupLast c rest with
    | some r' => rw [hr] at h; simp at h
    | none =>
      rw [hr] at h
      simp only at h
      rcases List.mem_cons.mp hkv with rfl | hkv
      · intro e
        simp only at e
        subst e
        simp at h
      · exact ih hr kv hkv

/-- `map_class` of the un-nesting remapper undoes `map_class` of the nesting remapper on every name whose translation
is not also the translation of a different table entry -/
theorem tableUnmap_tableMap (t : AList JStr JStr) (c : JStr) (h : noCollision t c = true) :
    tableUnmap t (tableMap t c) = c := by
  have hinj : ∀ kv ∈ t, tableMap t c = kv.2 → c = kv.1 := by
    intro kv hkv e
    unfold noCollision at h
    have := List.all_eq_true.mp h kv hkv
    simp only [Bool.or_eq_true, bne_iff_ne, ne_eq, beq_iff_eq] at this
    rcases this with h1 | h1
    · exact absurd e h1
    · exact h1
  unfold tableUnmap
  cases hl : lookupLast (tableMap t c) (t.map (fun (k, v) => (v, k))) with
  | some r =>
    have hm := lookupLast_some hl
    obtain ⟨kv, hkv, e⟩ := List.mem_map.mp hm
    obtain ⟨k, v⟩ := kv
    simp only [Prod.mk.injEq] at e
    have := hinj (k, v) hkv e.1.symm
    simp only at this
    simp only
    rw [this, e.2]
  | none =>
    simp only
    have hn := lookupLast_none hl
    unfold tableMap
    cases hlk : AList.lookup c t with
    | none => rfl
    | some r =>
      exfalso
      have hmem := AList.lookup_mem hlk
      have := hn (r, c) (List.mem_map.mpr ⟨(c, r), hmem, rfl⟩)
      apply this
      simp only [tableMap, hlk]

theorem cleanName_iff (s : JStr) : cleanName s = true ↔ s ≠ [] ∧ SEMI ∉ s := by
  unfold cleanName
  cases s with
  | nil => simp
  | cons a l => simp

theorem tableMap_clean (t : AList JStr JStr) (ht : t.all (fun kv => cleanName kv.2) = true) (c : JStr)
    (hc : cleanName c = true) : cleanName (tableMap t c) = true := by
  unfold tableMap
  cases hlk : AList.lookup c t with
  | none => exact hc
  | some r =>
    have hmem := AList.lookup_mem hlk
    exact List.all_eq_true.mp ht (c, r) hmem

theorem mapOpt_mem {α β : Type} {f : α → Option β} : ∀ {l : List α} {r : List β}, mapOpt f l = some r →
    ∀ b ∈ r, ∃ a ∈ l, f a = some b := by
  intro l
  induction l with
  | nil => intro r h b hb; simp [mapOpt] at h; subst h; simp at hb
  | cons a rest ih =>
    intro r h b hb
    simp only [mapOpt] at h
    cases hfa : f a with
    | none => rw [hfa] at h; simp at h
    | some b0 =>
      rw [hfa] at h
      cases hr : mapOpt f rest with
      | none => rw [hr] at h; simp at h
      | some bs =>
        rw [hr] at h
        simp only [Option.some.injEq] at h
        subst h
        rcases List.mem_cons.mp hb with rfl | hb
        · exact ⟨a, List.mem_cons_self, hfa⟩
        · obtain ⟨a', ha', e⟩ := ih hr b hb
          exact ⟨a', List.mem_cons_of_mem _ ha', e⟩

/-- nested names are never empty -/
theorem mapTable_values_ne_nil {ns : Nests} {t : AList JStr JStr} (h : mapTable ns = some t) :
    ∀ kv ∈ t, kv.2 ≠ [] := by
  intro kv hkv
  unfold mapTable at h
  obtain ⟨n, _, e⟩ := mapOpt_mem h kv hkv
  cases hb : build ns (fuelFor ns) n.enclClass with
  | none => rw [hb] at e; simp at e
  | some a =>
    rw [hb] at e
    simp only [Option.map_some, Option.some.injEq] at e
    rw [← e]
    simp [join]

theorem tableMap_ne_nil (t : AList JStr JStr) (ht : ∀ kv ∈ t, kv.2 ≠ []) (c : JStr) (hc : c ≠ []) : tableMap t c ≠ [] := by
  unfold tableMap
  cases hlk : AList.lookup c t with
  | none => exact hc
  | some r => exact ht (c, r) (AList.lookup_mem hlk)

/-! ## members -/

/-- what the domain gives for the classes of one descriptor -/
def DescOk (t : AList JStr JStr) (d : JStr) : Prop :=
  ∀ x ∈ Reorder.classesOf d, tableUnmap t (tableMap t x) = x ∧ tableMap t x ≠ [] ∧ SEMI ∉ tableMap t x

theorem desc_roundtrip {t : AList JStr JStr} {d d' : JStr} (hd : DescOk t d) (h : mapDesc (tableMap t) d = some d') :
    mapDesc (tableUnmap t) d' = some d :=
  Reorder.mapDesc_roundtrip h (fun x hx => (hd x hx).1) (fun x hx => (hd x hx).2)

theorem stepField_roundtrip {t : AList JStr JStr} (e e' : MemberKey × Field)
    (hwf : name0 e.2.names = some e.1.1 ∧ e.1.2 = e.2.desc) (hd : DescOk t e.2.desc)
    (h : stepField (tableMap t) e = .ok e') : stepField (tableUnmap t) e' = .ok e := by
  obtain ⟨⟨kn, kd⟩, fld⟩ := e
  simp only at hwf hd
  unfold stepField at h
  simp only at h
  cases hm : mapDesc (tableMap t) fld.desc with
  | none => rw [hm] at h; simp at h
  | some d =>
    rw [hm, hwf.1] at h
    simp only [Except.ok.injEq] at h
    subst h
    have := desc_roundtrip hd hm
    unfold stepField
    simp only [this, hwf.1]
    obtain ⟨h1, h2⟩ := hwf
    subst h2
    cases fld
    rfl

theorem stepMethod_roundtrip {t : AList JStr JStr} (e e' : MemberKey × Method)
    (hwf : name0 e.2.names = some e.1.1 ∧ e.1.2 = e.2.desc) (hd : DescOk t e.2.desc)
    (h : stepMethod (tableMap t) e = .ok e') : stepMethod (tableUnmap t) e' = .ok e := by
  obtain ⟨⟨kn, kd⟩, mth⟩ := e
  simp only at hwf hd
  unfold stepMethod at h
  simp only at h
  cases hm : mapDesc (tableMap t) mth.desc with
  | none => rw [hm] at h; simp at h
  | some d =>
    rw [hm, hwf.1] at h
    simp only [Except.ok.injEq] at h
    subst h
    have := desc_roundtrip hd hm
    unfold stepMethod
    simp only [this, hwf.1]
    obtain ⟨h1, h2⟩ := hwf
    subst h2
    cases mth
    rfl

theorem applyFields_roundtrip {t : AList JStr JStr} (fs fs1 : AList MemberKey Field)
    (hwf : ∀ e ∈ fs, name0 e.2.names = some e.1.1 ∧ e.1.2 = e.2.desc) (hd : ∀ e ∈ fs, DescOk t e.2.desc)
    (hnd : (fs.map Prod.fst).Nodup) (h : applyFields (tableMap t) fs = .ok fs1) :
    applyFields (tableUnmap t) fs1 = .ok fs := by
  unfold applyFields at h ⊢
  obtain ⟨l', h1, h2⟩ := foldAddE_ok _ _ _ _ h
  simp only [List.nil_append] at h2
  subst h2
  have h3 := mapE_roundtrip (stepField (tableMap t)) (stepField (tableUnmap t)) fs fs1
    (fun a ha b hb => stepField_roundtrip a b (hwf a ha) (hd a ha) hb) h1
  have := foldAddE_build (stepField (tableUnmap t)) fs1 fs [] h3 (by simpa using hnd)
  simpa using this

theorem applyMethods_roundtrip {t : AList JStr JStr} (ms ms1 : AList MemberKey Method)
    (hwf : ∀ e ∈ ms, name0 e.2.names = some e.1.1 ∧ e.1.2 = e.2.desc) (hd : ∀ e ∈ ms, DescOk t e.2.desc)
    (hnd : (ms.map Prod.fst).Nodup) (h : applyMethods (tableMap t) ms = .ok ms1) :
    applyMethods (tableUnmap t) ms1 = .ok ms := by
  unfold applyMethods at h ⊢
  obtain ⟨l', h1, h2⟩ := foldAddE_ok _ _ _ _ h
  simp only [List.nil_append] at h2
  subst h2
  have h3 := mapE_roundtrip (stepMethod (tableMap t)) (stepMethod (tableUnmap t)) ms ms1
    (fun a ha b hb => stepMethod_roundtrip a b (hwf a ha) (hd a ha) hb) h1
  have := foldAddE_build (stepMethod (tableUnmap t)) ms1 ms [] h3 (by simpa using hnd)
  simpa using this

/-! ## classes -/

theorem srcView_eq (m : Mappings) : srcView m = m.classes.map classView := rfl

/-- the per-class facts the two decidable domains provide -/
structure ClassOk (t : AList JStr JStr) (e : JStr × Class) : Prop where
  key : name0 e.2.names = some e.1
  keyNe : e.1 ≠ []
  keyInv : tableUnmap t (tableMap t e.1) = e.1
  dstNe : ∀ d, name1 e.2.names = some d → d ≠ []
  fwf : ∀ f ∈ e.2.fields, name0 f.2.names = some f.1.1 ∧ f.1.2 = f.2.desc
  fdesc : ∀ f ∈ e.2.fields, DescOk t f.2.desc
  fnd : (e.2.fields.map Prod.fst).Nodup
  mwf : ∀ f ∈ e.2.methods, name0 f.2.names = some f.1.1 ∧ f.1.2 = f.2.desc
  mdesc : ∀ f ∈ e.2.methods, DescOk t f.2.desc
  mnd : (e.2.methods.map Prod.fst).Nodup

theorem nameOpt_some {s : JStr} (h : s ≠ []) : nameOpt s = some s := by
  unfold nameOpt
  cases s with
  | nil => exact absurd rfl h
  | cons a l => rfl

theorem rewriteClass_roundtrip {t : AList JStr JStr} (dstf dstf2 : JStr → JStr) (hdst : ∀ d, d ≠ [] → dstf d ≠ [])
    (e e' : JStr × Class) (hok : ClassOk t e) (h : rewriteClass (tableMap t) dstf e = .ok e') :
    ∃ e'', rewriteClass (tableUnmap t) dstf2 e' = .ok e'' ∧ classView e'' = classView e := by
  obtain ⟨key, c⟩ := e
  unfold rewriteClass at h
  simp only at h
  cases hn1 : name1 c.names with
  | none => rw [hn1] at h; simp at h
  | some dst =>
    rw [hn1] at h
    simp only at h
    cases hf : applyFields (tableMap t) c.fields with
    | error x => rw [hf] at h; simp at h
    | ok fs1 =>
      rw [hf] at h
      simp only at h
      cases hm : applyMethods (tableMap t) c.methods with
      | error x => rw [hm] at h; simp at h
      | ok ms1 =>
        rw [hm] at h
        simp only at h
        cases hk : nameOpt (tableMap t key) with
        | none => rw [hk] at h; simp at h
        | some k' =>
          rw [hk] at h
          simp only [Except.ok.injEq] at h
          subst h
          have hk' : k' = tableMap t key := by
            unfold nameOpt at hk
            split at hk
            · simp at hk
            · simpa using hk.symm
          have hdne : dstf dst ≠ [] := hdst dst (hok.dstNe dst hn1)
          have hf2 := applyFields_roundtrip c.fields fs1 hok.fwf hok.fdesc hok.fnd hf
          have hm2 := applyMethods_roundtrip c.methods ms1 hok.mwf hok.mdesc hok.mnd hm
          have hinv : tableUnmap t k' = key := by rw [hk']; exact hok.keyInv
          refine ⟨(key, { c with names := [some key, nameOpt (dstf2 (dstf dst))], fields := c.fields, methods := c.methods }), ?_, ?_⟩
          · unfold rewriteClass
            simp only [name1, List.getElem?_cons_succ, List.getElem?_cons_zero, nameOpt_some hdne, hf2, hm2, hinv,
              nameOpt_some hok.keyNe]
          · have hkey := hok.key
            simp only at hkey
            simp only [classView, hkey]
            simp [name0]

theorem rewriteClasses_roundtrip {t : AList JStr JStr} (dstf dstf2 : JStr → JStr) (hdst : ∀ d, d ≠ [] → dstf d ≠ [])
    (cs cs1 : AList JStr Class) (hok : ∀ e ∈ cs, ClassOk t e) (hnd : (cs.map Prod.fst).Nodup)
    (h : rewriteClasses (tableMap t) dstf cs = .ok cs1) :
    ∃ cs2, rewriteClasses (tableUnmap t) dstf2 cs1 = .ok cs2 ∧ cs2.map classView = cs.map classView := by
  unfold rewriteClasses at h ⊢
  obtain ⟨l', h1, h2⟩ := foldAddE_ok _ _ _ _ h
  simp only [List.nil_append] at h2
  subst h2
  obtain ⟨l'', h3, h4⟩ := mapE_roundtrip_view (rewriteClass (tableMap t) dstf) (rewriteClass (tableUnmap t) dstf2)
    classView classView cs cs1 (fun a ha b hb => rewriteClass_roundtrip dstf dstf2 hdst a b (hok a ha) hb) h1
  have hkeys : l''.map Prod.fst = cs.map Prod.fst := by
    have := congrArg (List.map (fun v : ClassView => v.key)) h4
    simpa [List.map_map, Function.comp_def, classView] using this
  have := foldAddE_build (rewriteClass (tableUnmap t) dstf2) cs1 l'' [] h3 (by simpa [hkeys] using hnd)
  exact ⟨l'', by simpa using this, h4⟩

/-! ## from the decidable domains to the per-class facts -/

theorem mem_usedNames_key {m : Mappings} {e : JStr × Class} (he : e ∈ m.classes) : e.1 ∈ usedNames m := by
  unfold usedNames
  exact List.mem_flatMap.mpr ⟨e, he, List.mem_cons_self⟩

theorem mem_usedNames_field {m : Mappings} {e : JStr × Class} (he : e ∈ m.classes) {f : MemberKey × Field}
    (hf : f ∈ e.2.fields) {x : JStr} (hx : x ∈ Reorder.classesOf f.2.desc) : x ∈ usedNames m := by
  unfold usedNames
  refine List.mem_flatMap.mpr ⟨e, he, List.mem_cons_of_mem _ (List.mem_append_left _ ?_)⟩
  exact List.mem_flatMap.mpr ⟨f, hf, hx⟩

theorem mem_usedNames_method {m : Mappings} {e : JStr × Class} (he : e ∈ m.classes) {f : MemberKey × Method}
    (hf : f ∈ e.2.methods) {x : JStr} (hx : x ∈ Reorder.classesOf f.2.desc) : x ∈ usedNames m := by
  unfold usedNames
  refine List.mem_flatMap.mpr ⟨e, he, List.mem_cons_of_mem _ (List.mem_append_right _ ?_)⟩
  exact List.mem_flatMap.mpr ⟨f, hf, hx⟩

theorem wfClass_unpack {k : JStr} {c : Class} (h : wfClass k c = true) :
    name0 c.names = some k ∧ (∀ d, name1 c.names = some d → d ≠ []) ∧
    (∀ f ∈ c.fields, name0 f.2.names = some f.1.1 ∧ f.1.2 = f.2.desc) ∧ (c.fields.map Prod.fst).Nodup ∧
    (∀ f ∈ c.methods, name0 f.2.names = some f.1.1 ∧ f.1.2 = f.2.desc) ∧ (c.methods.map Prod.fst).Nodup := by
  unfold wfClass at h
  simp only [Bool.and_eq_true, beq_iff_eq, List.all_eq_true, decide_eq_true_eq] at h
  obtain ⟨⟨⟨⟨⟨h1, h2⟩, h3⟩, h4⟩, h5⟩, h6⟩ := h
  refine ⟨h1, ?_, h3, h4, h5, h6⟩
  intro d hd
  rw [hd] at h2
  intro e
  subst e
  simp at h2

theorem classOk_of_domain {m : Mappings} {t : AList JStr JStr} (hwf : wfMappings m = true)
    (ht : t.all (fun kv => cleanName kv.2) = true)
    (hu : (usedNames m).all (fun c => cleanName c && noCollision t c) = true) :
    (∀ e ∈ m.classes, ClassOk t e) ∧ (m.classes.map Prod.fst).Nodup := by
  unfold wfMappings at hwf
  simp only [Bool.and_eq_true, List.all_eq_true, decide_eq_true_eq] at hwf
  obtain ⟨hcls, hnd⟩ := hwf
  have hname : ∀ x ∈ usedNames m, cleanName x = true ∧ tableUnmap t (tableMap t x) = x ∧ tableMap t x ≠ [] ∧ SEMI ∉ tableMap t x := by
    intro x hx
    have := List.all_eq_true.mp hu x hx
    simp only [Bool.and_eq_true] at this
    have hc := (cleanName_iff _).mp (tableMap_clean t ht x this.1)
    exact ⟨this.1, tableUnmap_tableMap t x this.2, hc.1, hc.2⟩
  refine ⟨?_, hnd⟩
  intro e he
  obtain ⟨h1, h2, h3, h4, h5, h6⟩ := wfClass_unpack (hcls e he)
  have hk := hname e.1 (mem_usedNames_key he)
  exact {
    key := h1
    keyNe := ((cleanName_iff _).mp hk.1).1
    keyInv := hk.2.1
    dstNe := h2
    fwf := h3
    fdesc := fun f hf x hx => (hname x (mem_usedNames_field he hf hx)).2
    fnd := h4
    mwf := h5
    mdesc := fun f hf x hx => (hname x (mem_usedNames_method he hf hx)).2
    mnd := h6 }

/-- un-nesting a nested mapping set restores everything but the second-namespace class names -/
theorem undo_apply_main (m m1 : Mappings) (ns : Nests) (hwf : wfMappings m = true)
    (hdom : undoApplyDomain m ns = true) (h : applyNests m ns = .ok m1) :
    ∃ m2, undoNests m1 ns = .ok m2 ∧ srcView m2 = srcView m := by
  unfold undoApplyDomain at hdom
  cases ht : mapTable ns with
  | none => rw [ht] at hdom; simp at hdom
  | some t =>
    rw [ht] at hdom
    simp only [Bool.and_eq_true] at hdom
    obtain ⟨hok, hnd⟩ := classOk_of_domain hwf hdom.1 hdom.2
    unfold applyNests at h
    cases hmn : mapNests ns m with
    | none => rw [hmn] at h; simp at h
    | some mapped =>
      rw [hmn, ht] at h
      simp only at h
      cases hmt : mapTable mapped with
      | none => rw [hmt] at h; simp at h
      | some mt =>
        rw [hmt] at h
        simp only at h
        cases hr : rewriteClasses (tableMap t) (tableMap mt) m.classes with
        | error x => rw [hr] at h; simp at h
        | ok cs1 =>
          rw [hr] at h
          simp only [Except.ok.injEq] at h
          subst h
          obtain ⟨cs2, h1, h2⟩ := rewriteClasses_roundtrip (tableMap mt)
            (fun d => if containsKey ns d then dollarToUU d else d)
            (fun d hd => tableMap_ne_nil mt (mapTable_values_ne_nil hmt) d hd) m.classes cs1 hok hnd hr
          refine ⟨{ m with classes := cs2 }, ?_, ?_⟩
          · unfold undoNests
            simp only [ht, h1]
          · simp only [srcView_eq, h2]

end Nest
