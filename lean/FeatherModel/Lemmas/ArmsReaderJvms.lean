import FeatherModel.Lemmas.ArmsDefs
import FeatherModel.Lemmas.ArmsFinite

/-!
# The generated reader tables against the JVMS tables (no model involved): `arms_are_jvms`

For every opcode byte 0..255: the Rust reader has a (non-bailing) arm exactly for the opcodes of JVMS §6.5; the arm builds
the constructor named like the mnemonic of the instruction's general form, reads as many operand bytes as the JVMS says,
treats exactly the branch instructions as branches, and the first loop skips the same number of bytes.
-/

namespace Arms

open JvmsTables

def jvmsCheck (op : Nat) (e : Nat × Nat × List Nat × Nat) : Bool :=
  let a := rArmOf e op
  let o := operands? op
  decide (a = .bail) == (mnemonic? op).isNone &&
    a.operandClass == jvmsOperandClass o &&
    (decide (a = .wide) || decide ((a.ctor?.map fun c => squash (ctorName c)) = (mnemonic? (baseOf op)).map squash)) &&
    (decide (a = .wide) || decide (a.ctor? = none) || decide (a.operandBytes? = jvmsOperandBytes o)) &&
    decide (a.implicitIndex? = implicitIndex? op)

def jvmsWideCheck (w : Nat) (e : Nat × Nat × List Nat × Nat) : Bool :=
  let a := rArmOf e w
  decide ((a.ctor?.map fun c => (squash (ctorName c), a.operandBytes?)) =
    (wideForms.lookup w).map fun n => (((mnemonic? w).map squash).getD [], some n))

theorem jvms_p1_all : ((List.range 256).zip Gen.ReaderArms.p1Dense).all (fun x => x.2 == jvmsP1Class (operands? x.1)) = true := by
  decide +kernel
theorem jvms_p1w_all : ((List.range 256).zip Gen.ReaderArms.p1WideDense).all
    (fun x => (if x.2 < 16 then some x.2 else none) == wideForms.lookup x.1) = true := by decide +kernel
theorem jvms_p2_all : ((List.range 256).zip Gen.ReaderArms.p2Dense).all (fun x => jvmsCheck x.1 x.2) = true := by decide +kernel
theorem jvms_p2w_all : ((List.range 256).zip Gen.ReaderArms.p2WideDense).all (fun x => jvmsWideCheck x.1 x.2) = true := by
  decide +kernel

theorem len_p1 : Gen.ReaderArms.p1Dense.length = 256 := by decide +kernel
theorem len_p1w : Gen.ReaderArms.p1WideDense.length = 256 := by decide +kernel
theorem len_p2 : Gen.ReaderArms.p2Dense.length = 256 := by decide +kernel
theorem len_p2w : Gen.ReaderArms.p2WideDense.length = 256 := by decide +kernel

theorem arms_are_jvms (op : Nat) (hop : op < 256) :
    -- an arm that builds an instruction exactly for the opcodes of JVMS §6.5 (0..201); everything else is an error
    (rArm op = .bail ↔ mnemonic? op = none) ∧
    -- plain operands / 16-bit branch / 32-bit branch / tableswitch / lookupswitch / wide as in the JVMS
    (rArm op).operandClass = jvmsOperandClass (operands? op) ∧
    -- the constructor is named like the mnemonic of the general form
    (rArm op ≠ .wide → ((rArm op).ctor?.map fun c => squash (ctorName c)) = (mnemonic? (baseOf op)).map squash) ∧
    -- as many operand bytes as the JVMS says (fixed-length instructions)
    (∀ c, (rArm op).ctor? = some c → (rArm op).operandBytes? = jvmsOperandBytes (operands? op)) ∧
    -- `<t>load_<n>` / `<t>store_<n>` carry the index `<n>`
    (rArm op).implicitIndex? = implicitIndex? op ∧
    -- the first loop puts the opcode in the class the JVMS operand layout demands
    p1Class op = jvmsP1Class (operands? op) ∧
    -- the `wide` sub-matches of both loops: exactly the opcodes and formats of JVMS *wide*
    p1WideSkip? op = wideForms.lookup op ∧
    ((rWideArm op).ctor?.map fun c => (squash (ctorName c), (rWideArm op).operandBytes?)) =
      (wideForms.lookup op).map fun n => (((mnemonic? op).map squash).getD [], some n) := by
  have h2 := forall_of_zip_all _ 256 (5, 0, [], 0) jvmsCheck len_p2 jvms_p2_all op hop
  have e : rArmOf (Gen.ReaderArms.p2Dense.getD op (5, 0, [], 0)) op = rArm op := rfl
  simp only [jvmsCheck, e, Bool.and_eq_true, Bool.or_eq_true, beq_iff_eq, decide_eq_true_eq] at h2
  obtain ⟨⟨⟨⟨hb, hcl⟩, hn⟩, hbytes⟩, hidx⟩ := h2
  have h1 := forall_of_zip_all _ 256 21 (fun i t => t == jvmsP1Class (operands? i)) len_p1 jvms_p1_all op hop
  have h1w := forall_of_zip_all _ 256 21 (fun i t => (if t < 16 then some t else none) == wideForms.lookup i) len_p1w jvms_p1w_all op hop
  have h2w := forall_of_zip_all _ 256 (5, 0, [], 0) jvmsWideCheck len_p2w jvms_p2w_all op hop
  have ew : rArmOf (Gen.ReaderArms.p2WideDense.getD op (5, 0, [], 0)) op = rWideArm op := rfl
  simp only [jvmsWideCheck, ew, decide_eq_true_eq] at h2w
  refine ⟨?_, hcl, ?_, ?_, hidx, by simpa [p1Class] using h1, by simpa [p1WideSkip?] using h1w, h2w⟩
  · rw [← Option.isNone_iff_eq_none, ← hb]; simp
  · intro hnw; rcases hn with hn | hn
    · exact absurd hn hnw
    · exact hn
  · intro c hc
    rcases hbytes with (hw | hnone) | hb2
    · rw [hw] at hc; cases hc
    · rw [hnone] at hc; cases hc
    · exact hb2

end Arms
