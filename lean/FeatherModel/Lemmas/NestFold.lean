import FeatherModel.Model.NestDomain
import FeatherModel.Lemmas.AList

/-!
# C14 lemmas: `foldAddE` (`map_with_key_from_result_iter`) as a map followed by duplicate-free insertion
-/

namespace Nest

/-- `iter().map(step).collect::<Result<Vec<_>>>()` -/
def mapE {A B : Type} (step : A → Except String B) : List A → Except String (List B)
  | [] => .ok []
  | a :: rest =>
    match step a with
    | .error e => .error e
    | .ok b =>
      match mapE step rest with
      | .error e => .error e
      | .ok bs => .ok (b :: bs)

theorem contains_false_of_not_mem {K V : Type} [BEq K] [LawfulBEq K] (k : K) :
    ∀ (m : AList K V), k ∉ m.map Prod.fst → AList.contains k m = false := by
  intro m
  induction m with
  | nil => intro _; rfl
  | cons e rest ih =>
    intro h
    obtain ⟨k0, v0⟩ := e
    simp only [List.map_cons, List.mem_cons, not_or] at h
    have hne : (k0 == k) = false := beq_false_of_ne (fun e => h.1 e.symm)
    have := ih h.2
    simp only [AList.contains, AList.lookup, hne, Bool.false_eq_true, if_false] at this ⊢
    exact this

/-- a successful fold appended, in order, exactly the items the steps produced -/
theorem foldAddE_ok {A K V : Type} [BEq K] (step : A → Except String (K × V)) :
    ∀ (l : List A) (acc out : AList K V), foldAddE step l acc = .ok out →
      ∃ l', mapE step l = .ok l' ∧ out = acc ++ l' := by
  intro l
  induction l with
  | nil =>
    intro acc out h
    simp only [foldAddE, Except.ok.injEq] at h
    exact ⟨[], rfl, by simp [h]⟩
  | cons a rest ih =>
    intro acc out h
    simp only [foldAddE] at h
    cases hs : step a with
    | error e => rw [hs] at h; simp at h
    | ok kv =>
      obtain ⟨k, v⟩ := kv
      rw [hs] at h
      simp only at h
      cases hi : AList.insertNew k v acc with
      | none => rw [hi] at h; simp at h
      | some acc' =>
        rw [hi] at h
        simp only at h
        have hacc : acc' = acc ++ [(k, v)] := by
          unfold AList.insertNew at hi
          split at hi
          · simp at hi
          · simpa using hi.symm
        obtain ⟨l', h1, h2⟩ := ih acc' out h
        refine ⟨(k, v) :: l', ?_, ?_⟩
        · simp only [mapE, hs, h1]
        · rw [h2, hacc, List.append_assoc]; rfl

/-- conversely the fold succeeds when the produced keys are new and pairwise different -/
theorem foldAddE_build {A K V : Type} [BEq K] [LawfulBEq K] (step : A → Except String (K × V)) :
    ∀ (l : List A) (l' : List (K × V)) (acc : AList K V), mapE step l = .ok l' →
      ((acc ++ l').map Prod.fst).Nodup → foldAddE step l acc = .ok (acc ++ l') := by
  intro l
  induction l with
  | nil =>
    intro l' acc h _
    simp only [mapE, Except.ok.injEq] at h
    subst h
    simp [foldAddE]
  | cons a rest ih =>
    intro l' acc h hnd
    simp only [mapE] at h
    cases hs : step a with
    | error e => rw [hs] at h; simp at h
    | ok kv =>
      obtain ⟨k, v⟩ := kv
      rw [hs] at h
      simp only at h
      cases hr : mapE step rest with
      | error e => rw [hr] at h; simp at h
      | ok bs =>
        rw [hr] at h
        simp only [Except.ok.injEq] at h
        subst h
        have hk : AList.contains k acc = false := by
          apply contains_false_of_not_mem
          intro hmem
          rw [List.map_append, List.nodup_append] at hnd
          exact hnd.2.2 k hmem k (by simp) rfl
        have hi : AList.insertNew k v acc = some (acc ++ [(k, v)]) := by
          simp [AList.insertNew, hk]
        simp only [foldAddE, hs, hi]
        have := ih bs (acc ++ [(k, v)]) hr (by simpa [List.append_assoc] using hnd)
        rw [this, List.append_assoc]; rfl

/-- pointwise inverse steps give an inverse map, up to a view of the items -/
theorem mapE_roundtrip_view {A B C D : Type} (f : A → Except String B) (g : B → Except String C)
    (viewA : A → D) (viewC : C → D) :
    ∀ (l : List A) (l' : List B),
      (∀ a ∈ l, ∀ b, f a = .ok b → ∃ c, g b = .ok c ∧ viewC c = viewA a) →
      mapE f l = .ok l' → ∃ l'', mapE g l' = .ok l'' ∧ l''.map viewC = l.map viewA := by
  intro l
  induction l with
  | nil =>
    intro l' _ h
    simp only [mapE, Except.ok.injEq] at h
    subst h
    exact ⟨[], rfl, rfl⟩
  | cons a rest ih =>
    intro l' hp h
    simp only [mapE] at h
    cases hs : f a with
    | error e => rw [hs] at h; simp at h
    | ok b =>
      rw [hs] at h
      simp only at h
      cases hr : mapE f rest with
      | error e => rw [hr] at h; simp at h
      | ok bs =>
        rw [hr] at h
        simp only [Except.ok.injEq] at h
        subst h
        obtain ⟨c, hc, hv⟩ := hp a List.mem_cons_self b hs
        obtain ⟨l'', h1, h2⟩ := ih bs (fun x hx => hp x (List.mem_cons_of_mem _ hx)) hr
        refine ⟨c :: l'', ?_, ?_⟩
        · simp only [mapE, hc, h1]
        · simp [hv, h2]

theorem mapE_roundtrip {A B : Type} (f : A → Except String B) (g : B → Except String A) (l : List A) (l' : List B)
    (hp : ∀ a ∈ l, ∀ b, f a = .ok b → g b = .ok a) (h : mapE f l = .ok l') : mapE g l' = .ok l := by
  obtain ⟨l'', h1, h2⟩ := mapE_roundtrip_view f g id id l l' (fun a ha b hb => ⟨a, hp a ha b hb, rfl⟩) h
  simp only [List.map_id] at h2
  rw [h1, h2]

end Nest
