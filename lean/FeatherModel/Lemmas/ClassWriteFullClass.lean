import FeatherModel.Lemmas.ClassWriteFullModule

/-!
# C02 (whole writer) — the members and the class attributes of `write`, assembled
-/

namespace ClassWriteFull
open PoolWrite (Entry)
open FramePool (Good Le)
open ClassRead ClassRead.Spec

/-- conditions on a class of the proved fragment that do not depend on the pool -/
structure ClassOk (t : ClassFacts) : Prop where
  version : t.minor < 65536 ∧ t.major < 65536 ∧ (t.major < 67 ∨ (t.major = 67 ∧ t.minor = 0))
  access : t.access < 65536
  mask : t.access &&& maskClass = t.access
  name : validObjClassName t.name = true
  super : ∀ s, t.super = some s → validObjClassName s = true
  interfaces : ∀ i ∈ t.interfaces, validObjClassName i = true
  fields : ∀ f ∈ t.fields, FieldOk f
  methods : ∀ m ∈ t.methods, MethodOk m
  inner : ∀ es, t.innerClasses = some es → ∀ e ∈ es, InnerOk e
  enclosing : ∀ em, t.enclosingMethod = some em →
    validClassName em.1 = true ∧ ∀ nd, em.2 = some nd → validMethodName nd.1 = true
  sde : ∀ s, t.sourceDebugExtension = some s → Mutf8.Encodable s = true
  rva : AnnosOk t.rva
  ria : AnnosOk t.ria
  rvta : TypeAnnosOk .cls t.rvta
  rita : TypeAnnosOk .cls t.rita
  module : ∀ m, t.module = some m → ModuleOk m
  mainClass : ∀ c, t.moduleMainClass = some c → validClassName c = true
  nestHost : ∀ c, t.nestHost = some c → validClassName c = true
  nestMembers : ∀ cs, t.nestMembers = some cs → ∀ c ∈ cs, validClassName c = true
  permitted : ∀ cs, t.permittedSubclasses = some cs → ∀ c ∈ cs, validClassName c = true
  record : ∀ r ∈ t.recordComponents, RecordOk r
  unknown : ∀ a ∈ t.attrs, a.name ∉ classAttrNames

/-! ## members -/

theorem writeFields_spec : ∀ (fs : List FieldFacts) {p p' : Pool} {b : Bytes}, Good p → (∀ f ∈ fs, FieldOk f) →
    writeList writeField p fs = .ok (b, p') →
    Step p p' ∧ ∃ ls : List FieldLayout, b = ls.flatMap FieldLayout.encode ∧ ls.length = fs.length ∧
      (∀ l ∈ ls, Sound p' (fun rp => l.Legal rp)) ∧ mapOpt FieldLayout.facts ls = some fs := by
  intro fs
  induction fs with
  | nil =>
    intro p p' b hg _ h
    obtain ⟨rfl, rfl⟩ := writeList_nil_inv h
    exact ⟨Step.refl hg, [], rfl, rfl, by simp, rfl⟩
  | cons f fs ih =>
    intro p p' b hg hok h
    obtain ⟨b1, p1, b2, h1, h2, rfl⟩ := writeList_cons_inv h
    obtain ⟨s1, l, rfl, sd, hf⟩ := writeField_spec hg (hok f (by simp)) h1
    obtain ⟨s2, ls, rfl, hl, sds, hfs⟩ := ih s1.good (fun g hg' => hok g (by simp [hg'])) h2
    refine ⟨s1.trans s2, l :: ls, by simp, by simp [hl], ?_, by simp [mapOpt, hf, hfs]⟩
    intro x hx
    rcases List.mem_cons.mp hx with rfl | hx
    · exact sd.mono s2.le
    · exact sds x hx

theorem writeMethods_spec : ∀ (ms : List MethodFacts) {p p' : Pool} {bs bs' : List Bsm} {b : Bytes}, Good p → BsOk bs →
    (∀ m ∈ ms, MethodOk m) → writeMethods p bs ms = .ok (b, p', bs') →
    (Step p p' ∧ BsExt bs bs' ∧ BsOk bs') ∧ ∃ ls : List MethodLayout, b = ls.flatMap MethodLayout.encode ∧
      ls.length = ms.length ∧ (∀ l ∈ ls, Sound2 p' bs' (fun rp bsms => l.Legal rp bsms)) ∧
      ∃ ms', mapM' MethodFacts.resolve ms = some ms' ∧ mapOpt MethodLayout.facts ls = some ms' := by
  intro ms
  induction ms with
  | nil =>
    intro p p' bs bs' b hg hb _ h
    have := ok_inj.mp h
    cases this
    exact ⟨⟨Step.refl hg, BsExt.refl _, hb⟩, [], rfl, rfl, by simp, [], rfl, rfl⟩
  | cons m ms ih =>
    intro p p' bs bs' b hg hb hok h
    obtain ⟨⟨b1, p1, bs1⟩, h1, h⟩ := bind_eq_ok.mp h
    obtain ⟨⟨b2, p2, bs2⟩, h2, h⟩ := bind_eq_ok.mp h
    have := pure_eq_ok.mp h
    cases this
    obtain ⟨⟨s1, e1, o1⟩, l, rfl, sd, m', hr, hf⟩ := writeMethod_spec hg hb (hok m (by simp)) h1
    obtain ⟨⟨s2, e2, o2⟩, ls, rfl, hl, sds, ms', hrs, hfs⟩ := ih s1.good o1 (fun g hg' => hok g (by simp [hg'])) h2
    refine ⟨⟨s1.trans s2, e1.trans e2, o2⟩, l :: ls, by simp, by simp [hl], ?_, m' :: ms',
      by simp [mapM', hr, hrs, bind, Option.bind], by simp [mapOpt, hf, hfs]⟩
    intro x hx
    rcases List.mem_cons.mp hx with rfl | hx
    · exact sd.mono s2.le e2
    · exact sds x hx

/-! ## the class attributes -/

/-- the attribute fields of a class description that the attribute blocks set -/
def withAttrsOf (base t : ClassFacts) : ClassFacts :=
  { base with deprecated := base.deprecated || t.deprecated, synthetic := base.synthetic || t.synthetic,
              innerClasses := t.innerClasses, enclosingMethod := t.enclosingMethod, signature := t.signature,
              sourceFile := t.sourceFile, sourceDebugExtension := t.sourceDebugExtension,
              rva := base.rva ++ t.rva, ria := base.ria ++ t.ria, rvta := base.rvta ++ t.rvta, rita := base.rita ++ t.rita,
              module := t.module, modulePackages := t.modulePackages, moduleMainClass := t.moduleMainClass, nestHost := t.nestHost,
              nestMembers := t.nestMembers, permittedSubclasses := t.permittedSubclasses,
              recordComponents := base.recordComponents ++ t.recordComponents,
              attrs := base.attrs ++ t.attrs }

/-- the single-instance attribute fields are still unset -/
def Fresh (c : ClassFacts) : Prop :=
  c.innerClasses = none ∧ c.enclosingMethod = none ∧ c.signature = none ∧ c.sourceFile = none ∧
    c.sourceDebugExtension = none ∧ c.modulePackages = none ∧ c.moduleMainClass = none ∧ c.nestHost = none ∧
    c.nestMembers = none ∧ c.permittedSubclasses = none

/-- the result of one block, lifted to the layout: what was written is the framing of `lo`, `lo` is legal in every pool
still reachable, and folding it into the facts performs `upd` (under the precondition `pre`) -/
structure Block (o : Option Bytes) (q : Pool) (pre : ClassFacts → Prop) (upd : ClassFacts → ClassFacts) : Prop where
  ex : ∃ lo : Option SClassAttr, o = lo.map SClassAttr.frame ∧ (∀ a ∈ lo, Sound q (fun rp => a.Legal rp)) ∧
    ∀ st : ClassAcc, pre st.1 → applyAll SClassAttr.apply st lo.toList = some (upd st.1, st.2)

theorem block_absent {q : Pool} {pre : ClassFacts → Prop} {upd : ClassFacts → ClassFacts} (h : ∀ c, pre c → upd c = c) :
    Block none q pre upd :=
  ⟨none, rfl, by simp, fun st hp => by simp [applyAll, h st.1 hp]⟩

theorem block_present {q : Pool} {pre : ClassFacts → Prop} {upd : ClassFacts → ClassFacts} (a : SClassAttr)
    (hs : Sound q (fun rp => a.Legal rp)) (h : ∀ st : ClassAcc, pre st.1 → SClassAttr.apply st a = some (upd st.1, st.2)) :
    Block (some (SClassAttr.frame a)) q pre upd :=
  ⟨some a, rfl, fun x hx => by cases Option.mem_some_iff.mp hx; exact hs, fun st hp => by
    simp only [Option.toList, applyAll]
    rw [h st hp]⟩

/-- the class attributes: framing, legality, effect on the accumulator of `ClassLayout.facts` (the description so far,
the bootstrap table, whether a `Record` attribute was seen) -/
def ownClass : Own SClassAttr ClassAcc :=
  ⟨SClassAttr.frame, fun q a => Sound q (fun rp => a.Legal rp), fun hl h => h.mono hl, SClassAttr.apply⟩

/-- a block that only touches the description is a block on the accumulator -/
theorem Block.lift {o : Option Bytes} {q : Pool} {pre : ClassFacts → Prop} {upd : ClassFacts → ClassFacts}
    (b : Block o q pre upd) : GBlock ownClass o q (fun st => pre st.1) (fun st => (upd st.1, st.2)) := b.ex

/-- a run of blocks, lifted to the layout (on the accumulator) -/
def Blocks (bs : List Bytes) (q : Pool) (pre : ClassAcc → Prop) (upd : ClassAcc → ClassAcc) : Prop :=
  GBlocks ownClass bs q pre upd

theorem Blocks.consA {o : Option Bytes} {bs : List Bytes} {q1 q : Pool} {pre1 pre2 pre : ClassAcc → Prop}
    {upd1 upd2 : ClassAcc → ClassAcc} (b : GBlock ownClass o q1 pre1 upd1) (hle : Le q1 q) (r : Blocks bs q pre2 upd2)
    (hpre : ∀ c, pre c → pre1 c ∧ pre2 (upd1 c)) : Blocks (o.toList ++ bs) q pre (fun c => upd2 (upd1 c)) :=
  GBlocks.cons b hle r hpre

theorem Blocks.cons {o : Option Bytes} {bs : List Bytes} {q1 q : Pool} {pre1 : ClassFacts → Prop} {pre2 pre : ClassAcc → Prop}
    {upd1 : ClassFacts → ClassFacts} {upd2 : ClassAcc → ClassAcc} (b : Block o q1 pre1 upd1) (hle : Le q1 q)
    (r : Blocks bs q pre2 upd2) (hpre : ∀ c : ClassAcc, pre c → pre1 c.1 ∧ pre2 (upd1 c.1, c.2)) :
    Blocks (o.toList ++ bs) q pre (fun c => upd2 (upd1 c.1, c.2)) :=
  GBlocks.cons b.lift hle r hpre

end ClassWriteFull
