import FeatherModel.Model.Maven
import FeatherModel.Spec.MavenLevels

/-! Lemmas about `filterS`, `queueRun`, `levelRun`, `rebuild`, `bfs` (C19). -/

namespace Maven
open Tree (sizeList)

variable {α σ : Type}

/-! ## filterS / processLevel -/

theorem filterS_append (f : σ → α → Bool × σ) (s : σ) (a b : List (Tree α)) :
    filterS f s (a ++ b) =
      ((filterS f (filterS f s a).1 b).1, (filterS f s a).2 ++ (filterS f (filterS f s a).1 b).2) := by
  induction a generalizing s with
  | nil => simp [filterS]
  | cons t ts ih =>
    simp only [List.cons_append, filterS, ih]
    split <;> simp

theorem processLevel_eq (f : σ → α → Bool × σ) (s : σ) (level : List (Tree α)) :
    (processLevel f s level).1 = (filterS f s (level.flatMap Tree.children)).1 ∧
    (processLevel f s level).2.2 = (filterS f s (level.flatMap Tree.children)).2 ∧
    (processLevel f s level).2.1.map Prod.fst = level.map Tree.data := by
  induction level generalizing s with
  | nil => simp [processLevel, filterS]
  | cons t ts ih =>
    obtain ⟨h1, h2, h3⟩ := ih (filterS f s t.children).1
    simp only [processLevel, List.flatMap_cons, filterS_append, List.map_cons, h1, h2, h3]
    simp

/-! ## the queue serves level by level -/

theorem queueRun_nil (f : σ → α → Bool × σ) (s : σ) : queueRun f s [] = [] := by
  rw [queueRun]

theorem queueRun_cons (f : σ → α → Bool × σ) (s : σ) (t : Tree α) (q : List (Tree α)) :
    queueRun f s (t :: q) =
      (t.data, (filterS f s t.children).2.length) ::
        queueRun f (filterS f s t.children).1 (q ++ (filterS f s t.children).2) := by
  rw [queueRun]

/-- serving the rest `cur` of the current level, with the already retained part `acc` of the next level waiting
behind it, emits the entries of `cur` and leaves the whole next level in the queue -/
theorem queueRun_level (f : σ → α → Bool × σ) (cur : List (Tree α)) :
    ∀ (s : σ) (acc : List (Tree α)),
      queueRun f s (cur ++ acc) =
        (processLevel f s cur).2.1 ++
          queueRun f (processLevel f s cur).1 (acc ++ (processLevel f s cur).2.2) := by
  induction cur with
  | nil => intro s acc; simp [processLevel]
  | cons t ts ih =>
    intro s acc
    simp only [List.cons_append, queueRun_cons, processLevel, List.append_assoc, ih]

theorem levelRun_nil (f : σ → α → Bool × σ) (s : σ) : levelRun f s [] = [] := by
  rw [levelRun]

theorem levelRun_cons (f : σ → α → Bool × σ) (s : σ) (t : Tree α) (ts : List (Tree α)) :
    levelRun f s (t :: ts) =
      (processLevel f s (t :: ts)).2.1 ++
        levelRun f (processLevel f s (t :: ts)).1 (processLevel f s (t :: ts)).2.2 := by
  rw [levelRun]

theorem queueRun_eq_levelRun (f : σ → α → Bool × σ) :
    ∀ (n : Nat) (s : σ) (q : List (Tree α)), sizeList q ≤ n → queueRun f s q = levelRun f s q := by
  intro n
  induction n with
  | zero =>
    intro s q h
    cases q with
    | nil => rw [queueRun_nil, levelRun_nil]
    | cons t ts => simp [Tree.sizeList, size_eq] at h
  | succ n ih =>
    intro s q h
    cases q with
    | nil => rw [queueRun_nil, levelRun_nil]
    | cons t ts =>
      have hq := queueRun_level f (t :: ts) s []
      simp only [List.append_nil, List.nil_append] at hq
      rw [hq, levelRun_cons]
      congr 1
      apply ih
      have := sizeList_processLevel_le f s (t :: ts)
      simp only [List.length_cons] at this
      omega

end Maven
