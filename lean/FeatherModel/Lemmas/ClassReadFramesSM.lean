import FeatherModel.Lemmas.ClassReadTables

/-! C01 lemmas: `StackMapTable` — one frame, then the frame loop with its running offset. -/

namespace ClassRead
open Outcome Spec

theorem readVTypes16_ok (p : Pool) (pos : Nat → Nat) (n cl : Nat) (hp : PosOk pos n cl) (vs : List SVType) (hlen : vs.length < 65536)
    (hv : ∀ v ∈ vs, v.Legal p n) (l : Labels) (r : Bytes) (hwf : l.WF) (hcl : l.codeLength = cl)
    (hcnt : l.count + (vs.map SVType.labelRefs).sum < 65536) :
    StepOk l (readVTypes16 p l (be16 vs.length ++ vs.flatMap (SVType.encode pos) ++ r)) r (vs.map SVType.labelRefs).sum
      (vs.flatMap (SVType.refs pos)) (fun lf => vs.map (SVType.raw lf pos)) := by
  have := readVTypes_ok p pos n cl hp vs hv l r hwf hcl hcnt
  simpa [readVTypes16, List.append_assoc, u16_be16 _ hlen] using this

theorem stepOk_map {α β : Type} {l : Labels} {out : Outcome (α × Labels × Bytes)} {r : Bytes} {k : Nat} {refs : List Nat}
    {val : Labels → α} (h : StepOk l out r k refs val) (g : α → β) :
    StepOk l (do let (v, l', s) ← out; pure (g v, l', s)) r k refs (fun lf => g (val lf)) := by
  obtain ⟨v, l', h1, h2, h3, h4, h5, h6⟩ := h
  exact ⟨g v, l', by simp [h1], h2, h3, h4, h5, fun lf hlf => by rw [h6 lf hlf]⟩

theorem readFrame_ok (p : Pool) (pos : Nat → Nat) (n cl : Nat) (hp : PosOk pos n cl) (prev : Option Nat) (f : SFrame)
    (hk : f.kind.Legal p n) (hd : frameDelta prev (pos f.at_) < 65536) (hext : f.ext = false → frameDelta prev (pos f.at_) ≤ 63)
    (l : Labels) (r : Bytes) (hwf : l.WF) (hcl : l.codeLength = cl) (hcnt : l.count + f.kind.labelRefs < 65536) :
    StepOk l (readFrame p l (f.encode pos prev ++ r)) r f.kind.labelRefs (f.kind.refs pos)
      (fun lf => (frameDelta prev (pos f.at_), f.kind.raw lf pos)) := by
  obtain ⟨at_, ext, kind⟩ := f
  simp only [] at hk hd hext hcnt ⊢
  generalize hdd : frameDelta prev (pos at_) = d at hd hext
  cases kind with
  | same =>
    cases ext with
    | false =>
      have h63 := hext rfl
      exact ⟨(d, .same), l, by simp [readFrame, SFrame.encode, hdd, u8, h63], hwf, Labels.Le.refl l, by simp,
        by simp [SFrameKind.refs], fun _ _ => rfl⟩
    | true =>
      exact ⟨(d, .same), l, by simp [readFrame, SFrame.encode, hdd, u8, u16_be16 _ hd], hwf, Labels.Le.refl l, by simp,
        by simp [SFrameKind.refs], fun _ _ => rfl⟩
  | same1 v =>
    simp only [SFrameKind.Legal] at hk
    simp only [SFrameKind.labelRefs] at hcnt
    cases ext with
    | false =>
      have h63 := hext rfl
      obtain ⟨rv, l1, h1, hwf1, hle1, hc1, hr1, hv1⟩ := readVType_ok p pos n cl hp v hk l r hwf hcl hcnt
      have a1 : ¬ (64 + d ≤ 63) := by omega
      have a2 : 64 + d ≤ 127 := by omega
      have a3 : 64 + d - 64 = d := by omega
      exact ⟨(d, .same1 rv), l1, by simp [readFrame, SFrame.encode, hdd, u8, a1, a2, a3, h1], hwf1, hle1, hc1, hr1,
        fun lf hlf => by simp only [SFrameKind.raw, hv1 lf hlf]⟩
    | true =>
      obtain ⟨rv, l1, h1, hwf1, hle1, hc1, hr1, hv1⟩ := readVType_ok p pos n cl hp v hk l r hwf hcl hcnt
      exact ⟨(d, .same1 rv), l1, by simp [readFrame, SFrame.encode, hdd, u8, u16_be16 _ hd, h1], hwf1, hle1, hc1, hr1,
        fun lf hlf => by simp only [SFrameKind.raw, hv1 lf hlf]⟩
  | chop k =>
    simp only [SFrameKind.Legal] at hk
    have a1 : ¬ (251 - k ≤ 63) := by omega
    have a2 : ¬ (251 - k ≤ 127) := by omega
    have a3 : ¬ (251 - k ≤ 246) := by omega
    have a4 : ¬ (251 - k = 247) := by omega
    have a5 : 251 - k ≤ 250 := by omega
    have a6 : 251 - (251 - k) = k := by omega
    exact ⟨(d, .chop k), l, by simp [readFrame, SFrame.encode, hdd, u8, a1, a2, a3, a4, a5, a6, u16_be16 _ hd], hwf,
      Labels.Le.refl l, by simp, by simp [SFrameKind.refs], fun _ _ => rfl⟩
  | append vs =>
    simp only [SFrameKind.Legal] at hk
    simp only [SFrameKind.labelRefs] at hcnt
    obtain ⟨rv, l1, h1, hwf1, hle1, hc1, hr1, hv1⟩ := readVTypes_ok p pos n cl hp vs hk.2.2 l r hwf hcl hcnt
    have a1 : ¬ (251 + vs.length ≤ 63) := by omega
    have a2 : ¬ (251 + vs.length ≤ 127) := by omega
    have a3 : ¬ (251 + vs.length ≤ 246) := by omega
    have a4 : ¬ (251 + vs.length = 247) := by omega
    have a5 : ¬ (251 + vs.length ≤ 250) := by omega
    have a6 : ¬ (251 + vs.length = 251) := by omega
    have a7 : 251 + vs.length ≤ 254 := by omega
    have a8 : 251 + vs.length - 251 = vs.length := by omega
    have hne : vs ≠ [] := by intro h; simp [h] at hk
    exact ⟨(d, .append rv), l1, by
      simp [readFrame, SFrame.encode, hdd, u8, a1, a2, a3, a4, a5, a7, a8, u16_be16 _ hd, h1, hne], hwf1, hle1,
      by simpa [SFrameKind.labelRefs] using hc1, hr1, fun lf hlf => by simp only [SFrameKind.raw, hv1 lf hlf]⟩
  | full ls ss =>
    simp only [SFrameKind.Legal] at hk
    simp only [SFrameKind.labelRefs] at hcnt
    obtain ⟨h1, h2, h3, h4⟩ := hk
    obtain ⟨rl, l1, e1, hwf1, hle1, hc1, hr1, hv1⟩ := readVTypes16_ok p pos n cl hp ls h1 h3 l
      (be16 ss.length ++ ss.flatMap (SVType.encode pos) ++ r) hwf hcl (by omega)
    obtain ⟨rs, l2, e2, hwf2, hle2, hc2, hr2, hv2⟩ := readVTypes16_ok p pos n cl hp ss h2 h4 l1 r hwf1 (hle1.1.symm.trans hcl) (by omega)
    refine ⟨(d, .full rl rs), l2, ?_, hwf2, hle1.trans hle2, by simp only [SFrameKind.labelRefs]; omega, ?_, ?_⟩
    · simp only [List.append_assoc] at e1 e2
      simp [readFrame, SFrame.encode, hdd, u8, u16_be16 _ hd, e1, e2]
    · intro pc hpc
      simp only [SFrameKind.refs, List.mem_append] at hpc
      rcases hpc with hpc | hpc
      · exact isSome_of_le hle2 (hr1 pc hpc)
      · exact hr2 pc hpc
    · intro lf hlf
      simp only [SFrameKind.raw, hv1 lf (hle2.trans hlf), hv2 lf hlf]

/-- offset of the previous frame, as the running sum sees it -/
def prevOff (pos : Nat → Nat) : Option Nat → Nat
  | none => 0
  | some i => pos i

theorem readFrames_ok (p : Pool) (pos : Nat → Nat) (n cl : Nat) (hp : PosOk pos n cl)
    (hmonoS : ∀ a b, a < b → b ≤ n → pos a < pos b) (fs : List SFrame) (prev : Option Nat)
    (hleg : framesLegal p n pos prev fs) (l : Labels) (r : Bytes) (hwf : l.WF) (hcl : l.codeLength = cl)
    (hcnt : l.count + (fs.map (fun f => f.kind.labelRefs + 1)).sum < 65536) :
    StepOk l (readFrames p fs.length prev.isNone (prevOff pos prev) l (encFrames pos (prev.map pos) fs ++ r)) r
      (fs.map (fun f => f.kind.labelRefs + 1)).sum (fs.flatMap (fun f => f.kind.refs pos ++ [pos f.at_]))
      (fun lf => fs.map (fun f => (labOf lf pos f.at_, f.kind.raw lf pos))) := by
  induction fs generalizing prev l with
  | nil => exact ⟨[], l, by simp [readFrames, encFrames], hwf, Labels.Le.refl l, by simp, by simp, by simp⟩
  | cons f fs ih =>
    simp only [framesLegal] at hleg
    obtain ⟨hat, hprev, hk, hext, hrest⟩ := hleg
    simp only [List.map_cons, List.sum_cons] at hcnt
    have hposf : pos f.at_ < cl := hp.lt _ hat
    have hsm := hp.small
    have hdelta : frameDelta (prev.map pos) (pos f.at_) < 65536 := by
      cases prev <;> simp [frameDelta] <;> omega
    obtain ⟨⟨d, fr⟩, l1, h1, hwf1, hle1, hc1, hr1, hv1⟩ := readFrame_ok p pos n cl hp (prev.map pos) f hk hdelta hext l
      (encFrames pos (some (pos f.at_)) fs ++ r) hwf hcl (by omega)
    have hcl1 : l1.codeLength = cl := hle1.1.symm.trans hcl
    -- the running offset reaches the offset of the frame's instruction
    have hvd := hv1 l1 (Labels.Le.refl l1)
    simp only [Prod.mk.injEq] at hvd
    obtain ⟨hd, hfr⟩ := hvd
    have hoff : prevOff pos prev + (if prev.isNone = true then d else d + 1) = pos f.at_ := by
      cases prev with
      | none => simp [prevOff, hd, frameDelta]
      | some i =>
        have := hmonoS i f.at_ hprev (Nat.le_of_lt hat)
        simp [prevOff, hd, frameDelta]; omega
    have hinc : ¬ ((if prev.isNone = true then d else d + 1) > 65535 ∨ prevOff pos prev + (if prev.isNone = true then d else d + 1) > 65535) := by
      have : (if prev.isNone = true then d else d + 1) ≤ pos f.at_ := by omega
      omega
    obtain ⟨id, l2, h2, hwf2, hle2, hg2, hc2⟩ := Labels.getOrCreate_spec hwf1 (pc := pos f.at_) (by rw [hcl1]; exact hposf) (by omega)
    obtain ⟨rest, l3, h3, hwf3, hle3, hc3, hr3, hv3⟩ := ih (some f.at_) hrest l2 hwf2 (hle2.1.symm.trans hcl1) (by omega)
    refine ⟨(id, fr) :: rest, l3, ?_, hwf3, (hle1.trans hle2).trans hle3, by simp only [List.map_cons, List.sum_cons]; omega, ?_, ?_⟩
    · simp only [Option.isNone_some, prevOff, Option.map_some] at h3
      have hinc' : ¬ pos f.at_ > 65535 := by omega
      simp only [List.length_cons, readFrames, encFrames, List.append_assoc, h1, ok_bind, hoff, hinc', if_false,
        h2, h3, pure_eq]
    · intro pc hpc
      simp only [List.flatMap_cons, List.mem_append, List.mem_singleton] at hpc
      rcases hpc with (hpc | rfl) | hpc
      · exact isSome_of_le (hle2.trans hle3) (hr1 pc hpc)
      · rw [hle3.2 _ _ hg2]; rfl
      · exact hr3 pc hpc
    · intro lf hlf
      have e1 := hv1 lf ((hle2.trans hle3).trans hlf)
      simp only [Prod.mk.injEq] at e1
      simp only [List.map_cons, hv3 lf hlf, labOf_of_le (hle3.trans hlf) hg2, e1.2]

end ClassRead
