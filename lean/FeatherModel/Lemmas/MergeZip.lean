import FeatherModel.Model.Merge
import FeatherModel.Lemmas.AList

/-! Generic facts about the key-union zip of `Model/Merge.lean` (`dedup`, `unionKeys`, `collectOpt`, `zipMap`, `zipComb`,
`anyShared`). Helper lemmas for `Thm/C09.lean`. -/

namespace Merge
open AList
variable {K V W α β : Type}

theorem mem_dedup [BEq K] [LawfulBEq K] {l : List K} {k : K} : k ∈ dedup l ↔ k ∈ l := by
  induction l with
  | nil => simp [dedup]
  | cons x xs ih =>
    simp only [dedup, List.mem_cons, List.mem_filter, ih]
    constructor
    · rintro (h | ⟨h, _⟩)
      · exact Or.inl h
      · exact Or.inr h
    · rintro (h | h)
      · exact Or.inl h
      · by_cases hk : k = x
        · exact Or.inl hk
        · right; exact ⟨h, by simpa using hk⟩

theorem nodup_dedup [BEq K] [LawfulBEq K] (l : List K) : (dedup l).Nodup := by
  induction l with
  | nil => simp [dedup]
  | cons x xs ih =>
    simp only [dedup, List.nodup_cons, List.mem_filter]
    refine ⟨by simp, ?_⟩
    exact ih.sublist List.filter_sublist

theorem dedup_of_nodup [BEq K] [LawfulBEq K] {l : List K} (h : l.Nodup) : dedup l = l := by
  induction l with
  | nil => rfl
  | cons x xs ih =>
    rw [List.nodup_cons] at h
    simp only [dedup, ih h.2]
    congr 1
    rw [List.filter_eq_self]
    intro a ha
    have : a ≠ x := fun e => h.1 (e ▸ ha)
    simpa using this

theorem dedup_append [BEq K] [LawfulBEq K] {l1 : List K} (l2 : List K) (h : l1.Nodup) :
    dedup (l1 ++ l2) = l1 ++ (dedup l2).filter (fun k => !l1.contains k) := by
  induction l1 with
  | nil =>
    simp only [List.nil_append, List.contains_nil, Bool.not_false]
    exact (List.filter_eq_self.mpr (fun _ _ => rfl)).symm
  | cons x xs ih =>
    rw [List.nodup_cons] at h
    simp only [List.cons_append, dedup, ih h.2, List.filter_append, List.filter_filter]
    congr 1
    congr 1
    · rw [List.filter_eq_self]
      intro a ha
      have : a ≠ x := fun e => h.1 (e ▸ ha)
      simpa using this
    · apply List.filter_congr
      intro a _
      simp


/-! ### `AList` facts -/

theorem contains_iff_mem_keys [BEq K] [LawfulBEq K] {m : AList K V} {k : K} :
    contains k m = true ↔ k ∈ m.keys := by
  induction m with
  | nil => simp [contains, lookup, keys]
  | cons e rest ih =>
    obtain ⟨k0, v0⟩ := e
    simp only [contains, lookup, keys, List.map_cons, List.mem_cons] at ih ⊢
    by_cases hk : (k0 == k) = true
    · have : k0 = k := by simpa using hk
      simp [this]
    · simp only [hk]
      have hne : ¬ k = k0 := fun e => hk (by simp [e])
      simp only [hne, false_or]
      exact ih

theorem lookup_isSome_iff [BEq K] [LawfulBEq K] {m : AList K V} {k : K} :
    (lookup k m).isSome = true ↔ k ∈ m.keys := contains_iff_mem_keys

theorem lookup_eq_none_iff [BEq K] [LawfulBEq K] {m : AList K V} {k : K} :
    lookup k m = none ↔ k ∉ m.keys := by
  rw [← lookup_isSome_iff]
  cases lookup k m <;> simp

theorem mem_keys_of_mem {m : AList K V} {k : K} {v : V} (h : (k, v) ∈ m) : k ∈ m.keys :=
  List.mem_map.mpr ⟨(k, v), h, rfl⟩

theorem noDupKeys_iff [BEq K] [LawfulBEq K] {m : AList K V} : NoDupKeys m ↔ m.keys.Nodup := by
  induction m with
  | nil => simp [NoDupKeys, keys]
  | cons e rest ih =>
    obtain ⟨k0, v0⟩ := e
    simp only [NoDupKeys, keys, List.map_cons, List.nodup_cons]
    rw [ih]
    have : contains k0 rest = false ↔ k0 ∉ AList.keys rest := by
      rw [← contains_iff_mem_keys]; simp
    rw [this]; rfl

theorem lookup_of_mem [BEq K] [LawfulBEq K] {m : AList K V} (hn : NoDupKeys m) {k : K} {v : V}
    (h : (k, v) ∈ m) : lookup k m = some v := by
  induction m with
  | nil => simp at h
  | cons e rest ih =>
    obtain ⟨k0, v0⟩ := e
    simp only [NoDupKeys] at hn
    simp only [lookup]
    rcases List.mem_cons.mp h with h | h
    · cases h; simp
    · have hk : k ∈ AList.keys rest := mem_keys_of_mem h
      have : ¬ (k0 == k) = true := by
        intro e
        have : k0 = k := by simpa using e
        subst this
        have := contains_iff_mem_keys.mpr hk
        rw [hn.1] at this; simp at this
      simp only [this]
      exact ih hn.2 h

theorem unionKeys_eq [BEq K] [LawfulBEq K] {m n : AList K V} (hm : NoDupKeys m) (hn : NoDupKeys n) :
    unionKeys m n = m.keys ++ n.keys.filter (fun k => !contains k m) := by
  unfold unionKeys
  rw [dedup_append _ (noDupKeys_iff.mp hm), dedup_of_nodup (noDupKeys_iff.mp hn)]
  congr 1
  apply List.filter_congr
  intro k _
  congr 1
  rw [Bool.eq_iff_iff, contains_iff_mem_keys]
  simp

theorem mem_unionKeys [BEq K] [LawfulBEq K] {m n : AList K V} {k : K} :
    k ∈ unionKeys m n ↔ k ∈ m.keys ∨ k ∈ n.keys := by
  simp [unionKeys, mem_dedup]

theorem nodup_unionKeys [BEq K] [LawfulBEq K] (m n : AList K V) : (unionKeys m n).Nodup := nodup_dedup _


/-! ### `collectOpt`, `zipMap`, `mapValsM`, `zipComb` -/

theorem collectOpt_keys {g : K → Option W} {ks : List K} {r : AList K W} (h : collectOpt g ks = some r) :
    r.keys = ks := by
  induction ks generalizing r with
  | nil => simp [collectOpt] at h; subst h; rfl
  | cons k ks ih =>
    simp only [collectOpt] at h
    cases hg : g k with
    | none => rw [hg] at h; simp at h
    | some w =>
      rw [hg] at h
      cases hr : collectOpt g ks with
      | none => rw [hr] at h; simp at h
      | some r' =>
        rw [hr] at h
        simp only [Option.some.injEq] at h
        subst h
        simp [keys, List.map_cons] at *
        exact ih hr

theorem collectOpt_none_iff {g : K → Option W} {ks : List K} :
    collectOpt g ks = none ↔ ∃ k, k ∈ ks ∧ g k = none := by
  induction ks with
  | nil => simp [collectOpt]
  | cons k ks ih =>
    simp only [collectOpt]
    cases hg : g k with
    | none => simp; exact Or.inl hg
    | some w =>
      cases hr : collectOpt g ks with
      | none =>
        simp only [true_iff]
        obtain ⟨k', hk', hn⟩ := ih.mp hr
        exact ⟨k', List.mem_cons_of_mem _ hk', hn⟩
      | some r' =>
        simp only [false_iff, reduceCtorEq]
        rintro ⟨k', hk', hn⟩
        rcases List.mem_cons.mp hk' with e | e
        · subst e; rw [hg] at hn; simp at hn
        · have := ih.mpr ⟨k', e, hn⟩
          rw [hr] at this; simp at this

theorem collectOpt_lookup_mem [BEq K] [LawfulBEq K] {g : K → Option W} {ks : List K} {r : AList K W}
    (h : collectOpt g ks = some r) {k : K} (hk : k ∈ ks) : lookup k r = g k := by
  induction ks generalizing r with
  | nil => simp at hk
  | cons k0 ks ih =>
    simp only [collectOpt] at h
    cases hg : g k0 with
    | none => rw [hg] at h; simp at h
    | some w =>
      rw [hg] at h
      cases hr : collectOpt g ks with
      | none => rw [hr] at h; simp at h
      | some r' =>
        rw [hr] at h
        simp only [Option.some.injEq] at h
        subst h
        simp only [lookup]
        by_cases e : (k0 == k) = true
        · have : k0 = k := by simpa using e
          subst this; simp [hg]
        · simp only [e]
          rcases List.mem_cons.mp hk with e' | e'
          · subst e'; simp at e
          · exact ih hr e'

theorem collectOpt_lookup_not_mem [BEq K] [LawfulBEq K] {g : K → Option W} {ks : List K} {r : AList K W}
    (h : collectOpt g ks = some r) {k : K} (hk : k ∉ ks) : lookup k r = none := by
  rw [lookup_eq_none_iff, collectOpt_keys h]; exact hk

theorem combOf_eq_none {oa ob : Option α} : combOf oa ob = none ↔ oa = none ∧ ob = none := by
  cases oa <;> cases ob <;> simp [combOf]

theorem zipMap_keys [BEq K] {m n : AList K V} {f : Comb V → Option W} {r : AList K W}
    (h : zipMap m n f = some r) : r.keys = unionKeys m n := collectOpt_keys h

theorem zipMap_lookup [BEq K] [LawfulBEq K] {m n : AList K V} {f : Comb V → Option W} {r : AList K W}
    (h : zipMap m n f = some r) (k : K) : lookup k r = (combOf (lookup k m) (lookup k n)).bind f := by
  unfold zipMap at h
  cases hc : combOf (lookup k m) (lookup k n) with
  | none =>
    obtain ⟨h1, h2⟩ := combOf_eq_none.mp hc
    simp only [Option.bind_none]
    apply collectOpt_lookup_not_mem h
    rw [mem_unionKeys]
    rw [lookup_eq_none_iff] at h1 h2
    simp [h1, h2]
  | some c =>
    have hk : k ∈ unionKeys m n := by
      rw [mem_unionKeys, ← lookup_isSome_iff, ← lookup_isSome_iff]
      cases h1 : lookup k m <;> cases h2 : lookup k n <;> simp_all [combOf]
    rw [collectOpt_lookup_mem h hk]
    simp [hc]

theorem zipMap_none_iff [BEq K] [LawfulBEq K] {m n : AList K V} {f : Comb V → Option W} :
    zipMap m n f = none ↔ ∃ k c, combOf (lookup k m) (lookup k n) = some c ∧ f c = none := by
  unfold zipMap
  rw [collectOpt_none_iff]
  constructor
  · rintro ⟨k, hk, hg⟩
    cases hc : combOf (lookup k m) (lookup k n) with
    | none =>
      obtain ⟨h1, h2⟩ := combOf_eq_none.mp hc
      rw [lookup_eq_none_iff] at h1 h2
      rw [mem_unionKeys] at hk
      rcases hk with hk | hk
      · exact absurd hk h1
      · exact absurd hk h2
    | some c =>
      rw [hc] at hg
      exact ⟨k, c, hc, hg⟩
  · rintro ⟨k, c, hc, hf⟩
    refine ⟨k, ?_, by simp [hc, hf]⟩
    rw [mem_unionKeys, ← lookup_isSome_iff, ← lookup_isSome_iff]
    cases h1 : lookup k m <;> cases h2 : lookup k n <;> simp_all [combOf]

theorem mapValsM_lookup [BEq K] [LawfulBEq K] {f : K → V → Option W} {m : AList K V} {r : AList K W}
    (h : mapValsM f m = some r) (k : K) : lookup k r = (lookup k m).bind (f k) := by
  cases hl : lookup k m with
  | none => simp [mapValsM_lookup_none h hl]
  | some v =>
    obtain ⟨w, hw, hr⟩ := mapValsM_lookup_some h hl
    simp [hw, hr]

theorem mapValsM_none_iff {f : K → V → Option W} {m : AList K V} :
    mapValsM f m = none ↔ ∃ k v, (k, v) ∈ m ∧ f k v = none := by
  constructor
  · intro h
    induction m with
    | nil => simp [mapValsM] at h
    | cons e rest ih =>
      obtain ⟨k0, v0⟩ := e
      simp only [mapValsM] at h
      cases hf : f k0 v0 with
      | none => exact ⟨k0, v0, List.mem_cons_self, hf⟩
      | some w =>
        rw [hf] at h
        cases hr : mapValsM f rest with
        | none =>
          obtain ⟨k, v, hm, hn⟩ := ih hr
          exact ⟨k, v, List.mem_cons_of_mem _ hm, hn⟩
        | some r' => rw [hr] at h; simp at h
  · rintro ⟨k, v, hm, hf⟩
    exact mapValsM_none_of_mem hm hf

/-- the combination found under key `k` of a combination of maps -/
def combAt [BEq K] : Comb (AList K V) → K → Option (Comb V)
  | .a m, k => (lookup k m).map .a
  | .b n, k => (lookup k n).map .b
  | .ab m n, k => combOf (lookup k m) (lookup k n)

def combKeys [BEq K] : Comb (AList K V) → List K
  | .a m => m.keys
  | .b n => n.keys
  | .ab m n => unionKeys m n

theorem zipComb_keys [BEq K] {ab : Comb (AList K V)} {f : Comb V → Option W} {r : AList K W}
    (h : zipComb ab f = some r) : r.keys = combKeys ab := by
  cases ab with
  | a m => exact mapValsM_keys h
  | b n => exact mapValsM_keys h
  | ab m n => exact zipMap_keys h

theorem zipComb_lookup [BEq K] [LawfulBEq K] {ab : Comb (AList K V)} {f : Comb V → Option W} {r : AList K W}
    (h : zipComb ab f = some r) (k : K) : lookup k r = (combAt ab k).bind f := by
  cases ab with
  | a m =>
    rw [mapValsM_lookup h]
    simp only [combAt]
    cases lookup k m <;> simp
  | b n =>
    rw [mapValsM_lookup h]
    simp only [combAt]
    cases lookup k n <;> simp
  | ab m n => exact zipMap_lookup h k

/-- a successful zip has mapped every combination it met -/
theorem zipComb_some_of [BEq K] [LawfulBEq K] {ab : Comb (AList K V)} {f : Comb V → Option W} {r : AList K W}
    (h : zipComb ab f = some r) {k : K} {c : Comb V} (hc : combAt ab k = some c) :
    ∃ w, f c = some w ∧ lookup k r = some w := by
  have hl := zipComb_lookup h k
  rw [hc] at hl
  simp only [Option.bind_some] at hl
  cases hf : f c with
  | some w => exact ⟨w, rfl, by rw [hl, hf]⟩
  | none =>
    exfalso
    cases ab with
    | a m =>
      simp only [combAt, Option.map_eq_some_iff] at hc
      obtain ⟨v, hv, rfl⟩ := hc
      have := mapValsM_none_of_mem (f := fun _ v => f (.a v)) (lookup_mem hv) hf
      simp only [zipComb] at h; rw [this] at h; simp at h
    | b n =>
      simp only [combAt, Option.map_eq_some_iff] at hc
      obtain ⟨v, hv, rfl⟩ := hc
      have := mapValsM_none_of_mem (f := fun _ v => f (.b v)) (lookup_mem hv) hf
      simp only [zipComb] at h; rw [this] at h; simp at h
    | ab m n =>
      have := zipMap_none_iff.mpr ⟨k, c, hc, hf⟩
      simp only [zipComb] at h; rw [this] at h; simp at h

theorem combOf_left_right {oa ob : Option α} {c : Comb α} (h : combOf oa ob = some c) :
    c.left = oa ∧ c.right = ob := by
  cases oa <;> cases ob <;> simp [combOf] at h <;> subst h <;> simp [Comb.left, Comb.right]

theorem combOf_of_left_right (c : Comb α) : combOf c.left c.right = some c := by
  cases c <;> rfl

theorem Comb.left_map (g : α → β) (c : Comb α) : (c.map g).left = c.left.map g := by cases c <;> rfl
theorem Comb.right_map (g : α → β) (c : Comb α) : (c.map g).right = c.right.map g := by cases c <;> rfl

theorem combAt_map [BEq K] {oa ob : Option α} {c : Comb α} (h : combOf oa ob = some c)
    (g : α → AList K V) (k : K) :
    combAt (c.map g) k = combOf (oa.bind (fun x => lookup k (g x))) (ob.bind (fun x => lookup k (g x))) := by
  cases oa <;> cases ob <;> simp [combOf] at h <;> subst h <;> simp [Comb.map, combAt]
  · rename_i x; cases lookup k (g x) <;> rfl
  · rename_i x; cases lookup k (g x) <;> rfl

theorem combKeys_map [BEq K] {oa ob : Option α} {c : Comb α} (h : combOf oa ob = some c)
    (g : α → AList K V) : combKeys (c.map g) = sideKeys (oa.map g) (ob.map g) := by
  cases oa <;> cases ob <;> simp [combOf] at h <;> subst h <;> rfl

/-! ### conflicts -/

def combBad (conf : α → α → Bool) : Comb α → Bool
  | .ab x y => conf x y
  | _ => false

def Comb.All (P : α → Prop) : Comb α → Prop
  | .a x => P x
  | .b y => P y
  | .ab x y => P x ∧ P y

theorem anyShared_iff [BEq K] [LawfulBEq K] {m n : AList K V} {conf : V → V → Bool} (hm : NoDupKeys m) :
    anyShared m n conf = true ↔ ∃ k x y, lookup k m = some x ∧ lookup k n = some y ∧ conf x y = true := by
  unfold anyShared
  rw [List.any_eq_true]
  constructor
  · rintro ⟨⟨k, x⟩, hmem, h⟩
    simp only at h
    split at h
    · rename_i y hy
      exact ⟨k, x, y, lookup_of_mem hm hmem, hy, h⟩
    · simp at h
  · rintro ⟨k, x, y, hx, hy, hc⟩
    exact ⟨(k, x), lookup_mem hx, by simp [hy, hc]⟩

theorem zipComb_none_iff [BEq K] [LawfulBEq K] {f : Comb V → Option W} {conf : V → V → Bool} {P : V → Prop}
    (hf : ∀ c, Comb.All P c → (f c = none ↔ combBad conf c = true))
    {ab : Comb (AList K V)} (hab : Comb.All (fun m => NoDupKeys m ∧ ∀ e ∈ m, P e.2) ab) :
    zipComb ab f = none ↔ combBad (fun m n => anyShared m n conf) ab = true := by
  cases ab with
  | a m =>
    simp only [zipComb, combBad, mapValsM_none_iff]
    constructor
    · rintro ⟨k, v, hmem, hn⟩
      have := (hf (.a v) (hab.2 _ hmem)).mp hn
      simp [combBad] at this
    · intro h; simp at h
  | b n =>
    simp only [zipComb, combBad, mapValsM_none_iff]
    constructor
    · rintro ⟨k, v, hmem, hn⟩
      have := (hf (.b v) (hab.2 _ hmem)).mp hn
      simp [combBad] at this
    · intro h; simp at h
  | ab m n =>
    obtain ⟨⟨hm, hpm⟩, ⟨hn, hpn⟩⟩ := hab
    simp only [zipComb, combBad, zipMap_none_iff, anyShared_iff hm]
    constructor
    · rintro ⟨k, c, hc, hn'⟩
      cases h1 : lookup k m with
      | none =>
        cases h2 : lookup k n with
        | none => simp [h1, h2, combOf] at hc
        | some y =>
          simp only [h1, h2, combOf, Option.some.injEq] at hc; subst hc
          have := (hf (.b y) (hpn _ (lookup_mem h2))).mp hn'
          simp [combBad] at this
      | some x =>
        cases h2 : lookup k n with
        | none =>
          simp only [h1, h2, combOf, Option.some.injEq] at hc; subst hc
          have := (hf (.a x) (hpm _ (lookup_mem h1))).mp hn'
          simp [combBad] at this
        | some y =>
          simp only [h1, h2, combOf, Option.some.injEq] at hc; subst hc
          have := (hf (.ab x y) ⟨hpm _ (lookup_mem h1), hpn _ (lookup_mem h2)⟩).mp hn'
          exact ⟨k, x, y, h1, h2, this⟩
    · rintro ⟨k, x, y, hx, hy, hc⟩
      refine ⟨k, .ab x y, by simp [hx, hy, combOf], ?_⟩
      exact (hf (.ab x y) ⟨hpm _ (lookup_mem hx), hpn _ (lookup_mem hy)⟩).mpr hc

end Merge
