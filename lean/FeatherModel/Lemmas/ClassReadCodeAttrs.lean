import FeatherModel.Lemmas.ClassReadCodeTypeAnnos

/-! C01 lemmas: the attribute loop of `read_code` on the attributes of the proved fragment. -/

namespace ClassRead
open Outcome Spec

/-- `acc` extended by what further attributes deliver (`get_or_insert_with(Vec::new)` then `push`) -/
def appendOpt {α : Type} (a b : Option (List α)) : Option (List α) :=
  match b with
  | none => a
  | some y => some (a.getD [] ++ y)

def linesRaw (lf : Labels) (pos : Nat → Nat) : List SCodeAttr → Option (List (Nat × Nat))
  | [] => none
  | .lines _ es :: r => some (es.map (fun e => (labOf lf pos e.1, e.2)) ++ (linesRaw lf pos r).getD [])
  | _ :: r => linesRaw lf pos r

def lvRaw (lf : Labels) (pos : Nat → Nat) (ty : Bool) (v : SLv) : Lv :=
  SLv.fact ty { v with start := labOf lf pos v.start, end_ := labOf lf pos v.end_ }

def localsRaw (lf : Labels) (pos : Nat → Nat) : List SCodeAttr → Option (List Lv)
  | [] => none
  | .lvt _ es :: r => some (es.map (lvRaw lf pos false) ++ (localsRaw lf pos r).getD [])
  | .lvtt _ es :: r => some (es.map (lvRaw lf pos true) ++ (localsRaw lf pos r).getD [])
  | _ :: r => localsRaw lf pos r

/-- the type annotations of one visibility as the reader delivers them (label ids for instruction indices) -/
def tAnnosRaw (lf : Labels) (pos : Nat → Nat) (visible : Bool) : List SCodeAttr → List TypeAnno
  | [] => []
  | .typeAnnos _ v as :: r => (if v = visible then as.map (typeAnnoRaw lf pos) else []) ++ tAnnosRaw lf pos visible r
  | _ :: r => tAnnosRaw lf pos visible r

/-- the offsets an attribute of the fragment refers to -/
def attrRefs (pos : Nat → Nat) : SCodeAttr → List Nat
  | .frames _ fs => fs.flatMap (fun f => f.kind.refs pos ++ [pos f.at_])
  | .lines _ es => es.flatMap (fun e => [pos e.1])
  | .lvt _ es => es.flatMap (fun v => [pos v.start, pos v.end_])
  | .lvtt _ es => es.flatMap (fun v => [pos v.start, pos v.end_])
  | .typeAnnos _ _ as => as.flatMap (fun a => targetRefs pos a.target)
  | .unknown _ _ _ => []

abbrev isFramesAttr : SCodeAttr → Bool := SCodeAttr.isFrames

theorem sum_map_const {α : Type} (k : Nat) (xs : List α) : (xs.map (fun _ => k)).sum = k * xs.length := by
  induction xs with
  | nil => simp
  | cons _ _ ih => simp [List.sum_cons, ih, Nat.mul_add]; omega

theorem appendOpt_none {α : Type} (a : Option (List α)) : appendOpt a none = a := rfl

theorem appendOpt_assoc {α : Type} (a : Option (List α)) (x : List α) (b : Option (List α)) :
    appendOpt (some (a.getD [] ++ x)) b = some (a.getD [] ++ (x ++ b.getD [])) := by
  cases b <;> simp [appendOpt]

theorem ne_lines : sLineNumberTable ≠ sStackMapTable ∧ sLineNumberTable ≠ sStackMap := by decide
theorem ne_lvt : sLocalVariableTable ≠ sStackMapTable ∧ sLocalVariableTable ≠ sStackMap ∧ sLocalVariableTable ≠ sLineNumberTable := by decide
theorem ne_rvta : sRVTA ≠ sStackMapTable ∧ sRVTA ≠ sStackMap ∧ sRVTA ≠ sLineNumberTable ∧ sRVTA ≠ sLocalVariableTable ∧
    sRVTA ≠ sLocalVariableTypeTable := by decide
theorem ne_rita : sRITA ≠ sStackMapTable ∧ sRITA ≠ sStackMap ∧ sRITA ≠ sLineNumberTable ∧ sRITA ≠ sLocalVariableTable ∧
    sRITA ≠ sLocalVariableTypeTable ∧ sRITA ≠ sRVTA := by decide
theorem ne_lvtt : sLocalVariableTypeTable ≠ sStackMapTable ∧ sLocalVariableTypeTable ≠ sStackMap ∧
    sLocalVariableTypeTable ≠ sLineNumberTable ∧ sLocalVariableTypeTable ≠ sLocalVariableTable := by decide

/-- what one attribute of the fragment does to the loop state -/
theorem readCodeAttr_ok (p : Pool) (pos : Nat → Nat) (n cl : Nat) (hp : PosOk pos n cl)
    (hmono : ∀ a b, a ≤ b → b ≤ n → pos a ≤ pos b) (a : SCodeAttr) (ha : a.Legal p n pos)
    (hmonoS : ∀ a b, a < b → b ≤ n → pos a < pos b)
    (st : CodeAttrState) (r : Bytes) (hwf : st.labels.WF) (hcl : st.labels.codeLength = cl)
    (hcnt : st.labels.count + a.labelRefs < 65536) (hfr : isFramesAttr a = true → st.frames = none) :
    ∃ st', readCodeAttr p st (a.encode pos ++ r) = ok (st', r) ∧ st'.labels.WF ∧ Labels.Le st.labels st'.labels ∧
      st'.labels.count ≤ st.labels.count + a.labelRefs ∧
      st'.attrs = st.attrs ++ unknownsOf [a] ∧ (∀ pc ∈ attrRefs pos a, (st'.labels.get pc).isSome = true) ∧
      ∀ lf, Labels.Le st'.labels lf →
        st'.lines = appendOpt st.lines (linesRaw lf pos [a]) ∧ st'.locals = appendOpt st.locals (localsRaw lf pos [a]) ∧
        st'.frames = (match a with | .frames _ fs => some (framesRaw lf pos fs) | _ => st.frames) ∧
        st'.rvta = st.rvta ++ tAnnosRaw lf pos true [a] ∧ st'.ritva = st.ritva ++ tAnnosRaw lf pos false [a] := by
  cases a with
  | frames nc fs =>
    obtain ⟨hnc, hname, hlen, hfl, hbody⟩ := ha
    have hnone := hfr rfl
    obtain ⟨v, l', h1, hwf', hle', hc', hr', hv'⟩ := readFrames_ok p pos n cl hp hmonoS fs none hfl st.labels r hwf hcl
      (by simpa [SCodeAttr.labelRefs] using hcnt)
    simp only [Option.isNone_none, prevOff, Option.map_none] at h1
    refine ⟨{ st with labels := l', frames := some v }, ?_, hwf', hle', by simpa [SCodeAttr.labelRefs] using hc',
      by simp [unknownsOf], hr', ?_⟩
    · simp only [readCodeAttr, SCodeAttr.encode, attrFrame, List.append_assoc, u16_be16 _ hnc, ok_bind, hname,
        u32_be32 _ hbody, if_true, u16_be16 _ hlen, h1, hnone, insertIfEmpty, pure_eq]
    · intro lf hlf
      have := hv' lf hlf
      simp [appendOpt, linesRaw, localsRaw, this, framesRaw, tAnnosRaw]
  | lines nc es =>
    obtain ⟨hnc, hname, hlen, hes⟩ := ha
    have hbody : (be16 es.length ++ es.flatMap (fun e => be16 (pos e.1) ++ be16 e.2)).length < 4294967296 := by
      have := length_flatMap_const (fun e : Nat × Nat => be16 (pos e.1) ++ be16 e.2) 4 es (fun _ _ => by simp [be16_length])
      simp [be16_length, this]; omega
    have hk : (es.map (fun _ => 1)).sum = es.length := by simpa using sum_map_const 1 es
    obtain ⟨v, l', h1, hwf', hle', hc', hr', hv'⟩ := readVecS_stepOk readLine (fun e : Nat × Nat => be16 (pos e.1) ++ be16 e.2)
      (fun lf e => (labOf lf pos e.1, e.2)) (fun _ => 1) (fun e => [pos e.1]) cl es
      (fun e he l r hwf hcl hcnt => by
        have := readLine_ok pos n cl hp e (hes e he) l r hwf hcl hcnt
        simpa [List.append_assoc] using this)
      st.labels hwf hcl (by rw [hk]; simpa [SCodeAttr.labelRefs] using hcnt) r
    refine ⟨{ st with labels := l', lines := some (st.lines.getD [] ++ v) }, ?_, hwf', hle',
      by rw [hk] at hc'; simpa [SCodeAttr.labelRefs] using hc', by simp [unknownsOf], hr', ?_⟩
    · simp only [readCodeAttr, SCodeAttr.encode, attrFrame, List.append_assoc, u16_be16 _ hnc, ok_bind, hname,
        u32_be32 _ hbody, ne_lines.1, ne_lines.2, if_false, if_true, u16_be16 _ hlen, readLines, h1, pure_eq]
    · intro lf hlf
      have := hv' lf hlf
      simp [appendOpt, linesRaw, localsRaw, this, tAnnosRaw]
  | lvt nc es =>
    obtain ⟨hnc, hname, hlen, hes⟩ := ha
    have hbody : (be16 es.length ++ es.flatMap (SLv.encode pos)).length < 4294967296 := by
      have := length_flatMap_const (SLv.encode pos) 10 es (fun _ _ => by simp [SLv.encode, be16_length])
      simp [be16_length, this]; omega
    have hk : (es.map (fun _ => 2)).sum = 2 * es.length := sum_map_const 2 es
    obtain ⟨v, l', h1, hwf', hle', hc', hr', hv'⟩ := readVecS_stepOk (readLv p false) (SLv.encode pos)
      (fun lf e => lvRaw lf pos false e) (fun _ => 2) (fun v => [pos v.start, pos v.end_]) cl es
      (fun e he l r hwf hcl hcnt => readLv_ok p pos n cl hp hmono false e (hes e he) l r hwf hcl hcnt)
      st.labels hwf hcl (by rw [hk]; simpa [SCodeAttr.labelRefs] using hcnt) r
    refine ⟨{ st with labels := l', locals := some (st.locals.getD [] ++ v) }, ?_, hwf', hle',
      by rw [hk] at hc'; simpa [SCodeAttr.labelRefs] using hc', by simp [unknownsOf], hr', ?_⟩
    · simp only [readCodeAttr, SCodeAttr.encode, attrFrame, List.append_assoc, u16_be16 _ hnc, ok_bind, hname,
        u32_be32 _ hbody, ne_lvt.1, ne_lvt.2.1, ne_lvt.2.2, if_false, if_true, u16_be16 _ hlen, h1, pure_eq]
    · intro lf hlf
      have := hv' lf hlf
      simp [appendOpt, linesRaw, localsRaw, this, tAnnosRaw]
  | lvtt nc es =>
    obtain ⟨hnc, hname, hlen, hes⟩ := ha
    have hbody : (be16 es.length ++ es.flatMap (SLv.encode pos)).length < 4294967296 := by
      have := length_flatMap_const (SLv.encode pos) 10 es (fun _ _ => by simp [SLv.encode, be16_length])
      simp [be16_length, this]; omega
    have hk : (es.map (fun _ => 2)).sum = 2 * es.length := sum_map_const 2 es
    obtain ⟨v, l', h1, hwf', hle', hc', hr', hv'⟩ := readVecS_stepOk (readLv p true) (SLv.encode pos)
      (fun lf e => lvRaw lf pos true e) (fun _ => 2) (fun v => [pos v.start, pos v.end_]) cl es
      (fun e he l r hwf hcl hcnt => readLv_ok p pos n cl hp hmono true e (hes e he) l r hwf hcl hcnt)
      st.labels hwf hcl (by rw [hk]; simpa [SCodeAttr.labelRefs] using hcnt) r
    refine ⟨{ st with labels := l', locals := some (st.locals.getD [] ++ v) }, ?_, hwf', hle',
      by rw [hk] at hc'; simpa [SCodeAttr.labelRefs] using hc', by simp [unknownsOf], hr', ?_⟩
    · simp only [readCodeAttr, SCodeAttr.encode, attrFrame, List.append_assoc, u16_be16 _ hnc, ok_bind, hname,
        u32_be32 _ hbody, ne_lvtt.1, ne_lvtt.2.1, ne_lvtt.2.2.1, ne_lvtt.2.2.2, if_false, if_true, u16_be16 _ hlen, h1, pure_eq]
    · intro lf hlf
      have := hv' lf hlf
      simp [appendOpt, linesRaw, localsRaw, this, tAnnosRaw]
  | typeAnnos nc visible as =>
    obtain ⟨hnc, hname, hlen, hes, hbody⟩ := ha
    obtain ⟨v, l', h1, hwf', hle', hc', hr', hv'⟩ := readTypeAnnosCode_ok p pos n cl hp hmono as hlen hes st.labels r hwf hcl
      (by simpa [SCodeAttr.labelRefs] using hcnt)
    simp only [List.append_assoc] at h1
    cases visible with
    | true =>
      simp only [if_true] at hname
      refine ⟨{ st with labels := l', rvta := st.rvta ++ v }, ?_, hwf', hle', by simpa [SCodeAttr.labelRefs] using hc',
        by simp [unknownsOf], hr', ?_⟩
      · simp only [readCodeAttr, SCodeAttr.encode, attrFrame, List.append_assoc, u16_be16 _ hnc, ok_bind, hname,
          u32_be32 _ hbody, ne_rvta.1, ne_rvta.2.1, ne_rvta.2.2.1, ne_rvta.2.2.2.1, ne_rvta.2.2.2.2, if_false, if_true, h1, pure_eq]
      · intro lf hlf
        have := hv' lf hlf
        simp [appendOpt, linesRaw, localsRaw, this, tAnnosRaw]
    | false =>
      simp only [Bool.false_eq_true, if_false] at hname
      refine ⟨{ st with labels := l', ritva := st.ritva ++ v }, ?_, hwf', hle', by simpa [SCodeAttr.labelRefs] using hc',
        by simp [unknownsOf], hr', ?_⟩
      · simp only [readCodeAttr, SCodeAttr.encode, attrFrame, List.append_assoc, u16_be16 _ hnc, ok_bind, hname,
          u32_be32 _ hbody, ne_rita.1, ne_rita.2.1, ne_rita.2.2.1, ne_rita.2.2.2.1, ne_rita.2.2.2.2.1, ne_rita.2.2.2.2.2,
          if_false, if_true, h1, pure_eq]
      · intro lf hlf
        have := hv' lf hlf
        simp [appendOpt, linesRaw, localsRaw, this, tAnnosRaw]
  | unknown nc name b =>
    obtain ⟨hnc, hname, hnot, hlen⟩ := ha
    simp only [codeAttrNames, List.mem_cons, List.not_mem_nil, or_false, not_or] at hnot
    obtain ⟨n1, n2, n3, n4, n5, n6, n7⟩ := hnot
    refine ⟨{ st with attrs := st.attrs ++ [⟨name, b⟩] }, ?_, hwf, Labels.Le.refl _, by simp [SCodeAttr.labelRefs],
      by simp [unknownsOf], by simp [attrRefs], ?_⟩
    · simp only [readCodeAttr, SCodeAttr.encode, attrFrame, List.append_assoc, u16_be16 _ hnc, ok_bind, hname,
        u32_be32 _ hlen, n1, n2, n3, n4, n5, n6, n7, if_false, takeN_append, pure_eq]
    · intro lf _
      simp [appendOpt, linesRaw, localsRaw, tAnnosRaw]

end ClassRead
