import FeatherModel.Lemmas.MergeJarEntries
import FeatherModel.Lemmas.MergeJarMarks

/-! Lemmas for C13, part 6: exactly when the merge succeeds (no clean error, no panic). -/
set_option linter.unusedSectionVars false
namespace MergeJar
open Outcome

theorem nodupB_nodup {α : Type} [BEq α] [LawfulBEq α] (l : List α) : nodupB l = true ↔ l.Nodup := by
  induction l with
  | nil => simp [nodupB]
  | cons x xs ih => simp [nodupB, ih]

theorem mpo_nodup_mem {α : Type} [BEq α] [LawfulBEq α] (a b : List α) (ha : a.Nodup) (hb : b.Nodup) :
    (mergePreserveOrder a b).Nodup ∧ ∀ x, x ∈ mergePreserveOrder a b ↔ x ∈ a ∨ x ∈ b :=
  (mpoLoop_run a b True _ a b (Or.inl trivial)).exactly_once (Inv.init ha hb)

theorem mapM'_ok_all {α β : Type} {f : α → Outcome β} {l : List α} {r : List β} (h : mapM' f l = ok r) :
    ∀ k ∈ l, ∃ m, f k = ok m := by
  induction l generalizing r with
  | nil => intro k hk; simp at hk
  | cons x xs ih =>
    obtain ⟨y, ys, hy, hys, _⟩ := mapM'_ok_cons h
    intro k hk
    simp only [List.mem_cons] at hk
    cases hk with
    | inl e => subst e; exact ⟨y, hy⟩
    | inr e => exact ih hys k e

theorem innerMember_ok_flags {c s m : Member} (h : innerMember c s = ok m) :
    c.deprecated = s.deprecated ∧ c.synthetic = s.synthetic := by
  unfold innerMember mergeEq mergeFromClient at h
  by_cases h1 : (c.name != s.name) = true
  · simp [h1] at h
  · simp only [h1, Bool.false_eq_true, if_false] at h
    by_cases h2 : (c.desc != s.desc) = true
    · simp [h2] at h
    · simp only [h2, Bool.false_eq_true, if_false] at h
      by_cases h3 : (c.deprecated != s.deprecated) = true
      · simp [h3] at h
      · simp only [h3, Bool.false_eq_true, if_false] at h
        by_cases h4 : (c.synthetic != s.synthetic) = true
        · simp [h4] at h
        · exact ⟨by simpa using h3, by simpa using h4⟩

/-- a successful member merge means the asserted flags of shared members agreed -/
theorem mergeMembers_ok_flags {c s r : List Member} (h : mergeMembers c s = ok r)
    (hc : keysNodup c = true) (hs : keysNodup s = true) : sharedFlagsOk c s = true := by
  unfold keysNodup at hc hs
  rw [nodupB_nodup] at hc hs
  unfold sharedFlagsOk
  simp only [List.all_eq_true]
  intro mc hmc ms hms
  by_cases hk : memberKey mc = memberKey ms
  · have hin : memberKey mc ∈ mergePreserveOrder (c.map memberKey) (s.map memberKey) := by
      rw [(mpo_nodup_mem _ _ hc hs).2]
      exact Or.inl (List.mem_map.mpr ⟨mc, hmc, rfl⟩)
    rw [mergeMembers_eq] at h
    obtain ⟨m, hm⟩ := mapM'_ok_all h _ hin
    unfold memberElem at hm
    rw [get_collect_of_mem hmc hc, hk, get_collect_of_mem hms hs] at hm
    simp only at hm
    by_cases he : (mc == ms) = true
    · have e : mc = ms := by simpa using he
      subst e; simp
    · simp only [he, Bool.false_eq_true, if_false] at hm
      obtain ⟨h1, h2⟩ := innerMember_ok_flags hm
      simp [h1, h2]
  · have : (memberKey mc != memberKey ms) = true := by simpa using hk
    simp [this]

theorem mergeInners_ok_shared {c s r : List Inner} (h : mergeInners c s = ok r)
    (hc : nodupB (c.map (·.name)) = true) (hs : nodupB (s.map (·.name)) = true) : sharedInnersOk c s = true := by
  rw [nodupB_nodup] at hc hs
  unfold sharedInnersOk
  simp only [List.all_eq_true]
  intro ic hic is' his
  by_cases hk : ic.name = is'.name
  · have hin : ic.name ∈ mergePreserveOrder (c.map (·.name)) (s.map (·.name)) := by
      rw [(mpo_nodup_mem _ _ hc hs).2]
      exact Or.inl (List.mem_map.mpr ⟨ic, hic, rfl⟩)
    rw [mergeInners_eq] at h
    obtain ⟨m, hm⟩ := mapM'_ok_all h _ hin
    unfold innerElem at hm
    rw [get_collect_of_mem (key := fun x : Inner => x.name) hic hc, hk,
      get_collect_of_mem (key := fun x : Inner => x.name) his hs] at hm
    simp only at hm
    by_cases he : (ic == is') = true
    · simp [he]
    · simp [he] at hm
  · have : (ic.name != is'.name) = true := by simpa using hk
    simp [this]

/-- on duplicate-free key lists, `class_merger_merge` returns `Ok` exactly on `mergeOk` -/
theorem mergeClass_ok_iff {c s : Class} (hk : keysOk c s = true) :
    (∃ r, mergeClass c s = ok r) ↔ mergeOk c s = true := by
  constructor
  · intro ⟨r, h⟩
    obtain ⟨e1, e2, e3, e4, e5, e6, f, m, inn, hf, hm, hi, _⟩ := mergeClass_ok h
    unfold keysOk at hk
    simp only [Bool.and_eq_true] at hk
    obtain ⟨⟨⟨⟨⟨k1, k2⟩, k3⟩, k4⟩, k5⟩, k6⟩ := hk
    have f1 := mergeMembers_ok_flags hf k1 k2
    have f2 := mergeMembers_ok_flags hm k3 k4
    have f3 := mergeInners_ok_shared hi k5 k6
    unfold mergeOk
    simp [e1, e2, e3, e4, e5, e6, k1, k2, k3, k4, k5, k6, f1, f2, f3]
  · exact mergeClass_total

/-! ### the jar level -/

theorem mergeClassEntry_total {rc : ClsRepr} {cc cs : Class} (h : (cc == cs || mergeOk cc cs) = true) :
    ∃ m, mergeClassEntry rc cc cs = ok m := by
  unfold mergeClassEntry
  by_cases he : (cc == cs) = true
  · simp only [he, if_true]; exact ⟨_, rfl⟩
  · simp only [he, Bool.false_or] at h
    obtain ⟨m, hm⟩ := mergeClass_total h
    exact ⟨Content.cls ClsRepr.parsed m, by simp [he, hm]⟩

theorem mergeEntry_client_total (n : JStr) (c : Entry) : ∃ o, mergeEntry n (Comb.client c) = ok o := by
  unfold mergeEntry
  by_cases hm : (n == MANIFEST) = true
  · simp only [hm, if_true]; exact ⟨_, rfl⟩
  · by_cases hs : isSig n = true
    · simp only [hm, hs, Bool.false_eq_true, if_false, if_true]; exact ⟨_, rfl⟩
    · simp only [hm, hs, Bool.false_eq_true, if_false]; exact ⟨_, rfl⟩

theorem mergeEntry_server_total (n : JStr) (s : Entry) : ∃ o, mergeEntry n (Comb.server s) = ok o := by
  unfold mergeEntry
  by_cases hm : (n == MANIFEST) = true
  · simp only [hm, if_true]; exact ⟨_, rfl⟩
  · by_cases hs : isSig n = true
    · simp only [hm, hs, Bool.false_eq_true, if_false, if_true]; exact ⟨_, rfl⟩
    · by_cases hb : isBundled n = true
      · simp only [hm, hs, hb, Bool.false_eq_true, if_false, if_true]; exact ⟨_, rfl⟩
      · simp only [hm, hs, hb, Bool.false_eq_true, if_false]; exact ⟨_, rfl⟩

theorem mergeJar_total {client server : Jar} (h : jarDomain client server = true) :
    ∃ r, mergeJar client server = ok r := by
  unfold mergeJar
  apply mergeEntries_total
  intro p hp
  obtain ⟨n, cmb⟩ := p
  simp only
  rcases combine_mem hp with ⟨e, hec, hcase⟩ | ⟨e, _, _, hcmb⟩
  · rcases hcase with ⟨_, hcmb⟩ | ⟨es, hg, hcmb⟩
    · subst hcmb; exact mergeEntry_client_total n e
    · subst hcmb
      unfold jarDomain at h
      simp only [List.all_eq_true] at h
      have hd := h (n, e) hec
      simp only [hg] at hd
      unfold mergeEntry
      by_cases hm : (n == MANIFEST) = true
      · simp only [hm, if_true]; exact ⟨_, rfl⟩
      · by_cases hs : isSig n = true
        · simp only [hm, hs, Bool.false_eq_true, if_false, if_true]; exact ⟨_, rfl⟩
        · simp only [hm, hs, Bool.false_eq_true, if_false, Bool.false_or] at hd ⊢
          cases hce : e.content with
          | dir =>
            cases hcs : es.content with
            | dir => exact ⟨_, rfl⟩
            | other d => rw [hce, hcs] at hd; simp at hd
            | cls r c => rw [hce, hcs] at hd; simp at hd
          | other d =>
            cases hcs : es.content with
            | dir => rw [hce, hcs] at hd; simp at hd
            | other d' => exact ⟨_, rfl⟩
            | cls r c => rw [hce, hcs] at hd; simp at hd
          | cls rc cc =>
            cases hcs : es.content with
            | dir => rw [hce, hcs] at hd; simp at hd
            | other d' => rw [hce, hcs] at hd; simp at hd
            | cls rs cs =>
              rw [hce, hcs] at hd
              simp only at hd
              obtain ⟨m, hm'⟩ := mergeClassEntry_total (rc := rc) hd
              exact ⟨some { attr := e.attr, content := m }, by simp [hm']⟩
  · subst hcmb; exact mergeEntry_server_total n e

/-! ### rows of the entry table -/

theorem mergeJar_row {client server r : Jar} {n : JStr} {cmb : Comb} {e : Entry} (h : mergeJar client server = ok r)
    (hc : (n, cmb) ∈ combine client server) (he : mergeEntry n cmb = ok (some e)) : (n, e) ∈ r := by
  unfold mergeJar at h
  obtain ⟨o, ho, hin⟩ := mergeEntries_mem h n cmb hc
  rw [he] at ho
  simp only [Outcome.ok.injEq] at ho
  exact hin e ho.symm

theorem mergeJar_src {client server r : Jar} {n : JStr} {e : Entry} (h : mergeJar client server = ok r)
    (hm : (n, e) ∈ r) : ∃ cmb, (n, cmb) ∈ combine client server ∧ mergeEntry n cmb = ok (some e) := by
  unfold mergeJar at h
  exact mergeEntries_src h n e hm

theorem entry_unique_of_nodup {r : Jar} (h : (names r).Nodup) {n : JStr} {e e' : Entry}
    (h1 : (n, e) ∈ r) (h2 : (n, e') ∈ r) : e = e' := by
  have g1 := get_of_mem_nodup h1 h
  have g2 := get_of_mem_nodup h2 h
  rw [g1] at g2
  simpa using g2

theorem mergeEntry_client_row {n : JStr} {c : Entry} (h1 : n ≠ MANIFEST) (h2 : isSig n = false) :
    mergeEntry n (Comb.client c) = ok (some (oneSided c Side.client)) := by
  have : (n == MANIFEST) = false := by simpa using h1
  simp only [mergeEntry, this, h2, Bool.false_eq_true, if_false]

theorem mergeEntry_server_row {n : JStr} {s : Entry} (h1 : n ≠ MANIFEST) (h2 : isSig n = false)
    (h3 : isBundled n = false) : mergeEntry n (Comb.server s) = ok (some (oneSided s Side.server)) := by
  have : (n == MANIFEST) = false := by simpa using h1
  simp only [mergeEntry, this, h2, h3, Bool.false_eq_true, if_false]

theorem mergeEntry_both_cls_row {n : JStr} {c s : Entry} {rc rs : ClsRepr} {cc cs : Class} (h1 : n ≠ MANIFEST)
    (h2 : isSig n = false) (hc : c.content = Content.cls rc cc) (hs : s.content = Content.cls rs cs) :
    mergeEntry n (Comb.both c s) =
      (mergeClassEntry rc cc cs >>= fun m => pure (some { attr := c.attr, content := m })) := by
  have : (n == MANIFEST) = false := by simpa using h1
  simp only [mergeEntry, this, h2, Bool.false_eq_true, if_false, hc, hs]

theorem mergeEntry_both_other_row {n : JStr} {c s : Entry} {dc ds : Bytes} (h1 : n ≠ MANIFEST)
    (h2 : isSig n = false) (hc : c.content = Content.other dc) (hs : s.content = Content.other ds) :
    mergeEntry n (Comb.both c s) = ok (some { attr := c.attr, content := Content.other dc }) := by
  have : (n == MANIFEST) = false := by simpa using h1
  simp only [mergeEntry, this, h2, Bool.false_eq_true, if_false, hc, hs]

theorem mergeEntry_both_dir_row {n : JStr} {c s : Entry} (h1 : n ≠ MANIFEST)
    (h2 : isSig n = false) (hc : c.content = Content.dir) (hs : s.content = Content.dir) :
    mergeEntry n (Comb.both c s) = ok (some { attr := c.attr, content := Content.dir }) := by
  have : (n == MANIFEST) = false := by simpa using h1
  simp only [mergeEntry, this, h2, Bool.false_eq_true, if_false, hc, hs]

/-- whose attributes the manifest entry gets -/
def manifestAttr : Comb → Nat
  | Comb.client c => c.attr
  | Comb.server s => s.attr
  | Comb.both c _ => c.attr

theorem mergeEntry_manifest_row (cmb : Comb) :
    mergeEntry MANIFEST cmb = ok (some { attr := manifestAttr cmb, content := Content.other MANIFEST_BYTES }) := by
  cases cmb <;> simp only [mergeEntry, beq_self_eq_true, if_true, manifestAttr]

end MergeJar
