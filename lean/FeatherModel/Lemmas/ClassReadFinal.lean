import FeatherModel.Lemmas.ClassReadClassAttrs

/-! C01: `class_reader::read` on an encoded `ClassLayout`. -/

namespace ClassRead
open Outcome Spec

theorem readVec_rel {α β γ : Type} (elem : Rd α) (enc : β → Bytes) (R : α → γ → Prop) (xs : List β) (vals : List γ)
    (h : ∀ x ∈ xs, ∀ v r, (∃ k : Nat, xs[k]? = some x ∧ vals[k]? = some v) → ∃ a, elem (enc x ++ r) = ok (a, r) ∧ R a v)
    (hlen : xs.length = vals.length) (r : Bytes) :
    ∃ as, readVec elem xs.length (xs.flatMap enc ++ r) = ok (as, r) ∧ as.length = vals.length ∧
      ∀ (k : Nat) a v, as[k]? = some a → vals[k]? = some v → R a v := by
  induction xs generalizing vals with
  | nil =>
    cases vals with
    | nil => exact ⟨[], by simp [readVec], rfl, by simp⟩
    | cons _ _ => simp at hlen
  | cons x xs ih =>
    cases vals with
    | nil => simp at hlen
    | cons v vs =>
      obtain ⟨a, ha, hRa⟩ := h x (by simp) v (xs.flatMap enc ++ r) ⟨0, by simp, by simp⟩
      obtain ⟨as, has, hl, hR⟩ := ih vs (fun y hy w r' ⟨k, hk1, hk2⟩ =>
        h y (by simp [hy]) w r' ⟨k + 1, by simpa using hk1, by simpa using hk2⟩) (by simpa using hlen)
      refine ⟨a :: as, by simp [readVec, List.flatMap_cons, List.append_assoc, ha, has], by simp [hl], ?_⟩
      intro k a' v' h1 h2
      cases k with
      | zero => simp at h1 h2; subst h1; subst h2; exact hRa
      | succ k => exact hR k a' v' (by simpa using h1) (by simpa using h2)

theorem mapM'_of_rel {α β : Type} (f : α → Option β) (as : List α) (vs : List β) (hl : as.length = vs.length)
    (h : ∀ (k : Nat) a v, as[k]? = some a → vs[k]? = some v → f a = some v) : mapM' f as = some vs := by
  induction as generalizing vs with
  | nil => cases vs with
    | nil => rfl
    | cons _ _ => simp at hl
  | cons a as ih =>
    cases vs with
    | nil => simp at hl
    | cons v vs =>
      have h0 := h 0 a v (by simp) (by simp)
      have := ih vs (by simpa using hl) (fun k a' v' h1 h2 => h (k + 1) a' v' (by simpa using h1) (by simpa using h2))
      simp [mapM', h0, this]

/-- **class fidelity**: every legal encoding of a class file is read back, after label resolution, as exactly the
description it was made from, and the reader stops exactly at the end of the class file -/
theorem read_encode (c : ClassLayout) (hleg : c.Legal) (facts : ClassFacts) (hfacts : c.facts = some facts) (r : Bytes) :
    ∃ raw, read (c.encode ++ r) = ok (raw, r) ∧ raw.resolve = some facts := by
  -- unpack the denotation
  unfold ClassLayout.facts at hfacts
  cases hacc : applyAll SClassAttr.apply (c.base, none, false) c.attrs with
  | none => simp [hacc] at hfacts
  | some acc =>
    obtain ⟨cf, bs, hadRec⟩ := acc
    cases hfs : mapOpt FieldLayout.facts c.fields with
    | none => simp [hacc, hfs] at hfacts
    | some fs =>
      cases hms : mapOpt MethodLayout.facts c.methods with
      | none => simp [hacc, hfs, hms] at hfacts
      | some ms =>
        simp only [hacc, hfs, hms, Option.some.injEq] at hfacts
        have hbs : c.bsms = bs := by simp [ClassLayout.bsms, hacc]
        -- class attributes
        have hna : (c.attrs.map SClassAttr.raw).length < 65536 := by simpa using hleg.nAttrs
        obtain ⟨st, hloop, hst1, hst2, _⟩ := attrLoopRel_enc (readClassAttrs (poolTable c.pool)) (readClassAttr (poolTable c.pool)) (fun _ _ => rfl) (fun _ _ _ => rfl)
          SClassAttr.raw SClassAttr.apply CRel c.attrs
          (fun a ha sr st st' r hR hs => readClassAttr_enc (poolTable c.pool) a (hleg.attrs a ha) sr st st' r hR hs)
          ⟨c.base, none, false⟩ (c.base, none, false) (cf, bs, hadRec) ⟨rfl, rfl, rfl⟩ hacc r
        simp only [] at hst1 hst2
        -- fields
        have hfields := readVec16_flatMap (readField (poolTable c.pool)) FieldLayout.encode (fun f => (f.facts).getD default) c.fields hleg.nFields
          (fun f hf r => by
            obtain ⟨k, hk, hk'⟩ := List.getElem_of_mem hf
            have hkf : c.fields[k]? = some f := by rw [List.getElem?_eq_getElem hk, hk']
            have hl := mapOpt_length _ _ _ hfs
            have hk2 : k < fs.length := by omega
            have := mapOpt_get _ _ _ hfs k f fs[k] hkf (by rw [List.getElem?_eq_getElem hk2])
            rw [this]
            exact readField_enc (poolTable c.pool) f (hleg.fields f hf) fs[k] this r)
        have hfsmap : c.fields.map (fun f => (f.facts).getD default) = fs := by
          apply List.ext_getElem?
          intro k
          have hl := mapOpt_length _ _ _ hfs
          by_cases hk : k < c.fields.length
          · have hk2 : k < fs.length := by omega
            have := mapOpt_get _ _ _ hfs k c.fields[k] fs[k] (by rw [List.getElem?_eq_getElem hk]) (by rw [List.getElem?_eq_getElem hk2])
            simp [List.getElem?_eq_getElem hk, List.getElem?_eq_getElem hk2, this]
          · have hk2 : ¬ k < fs.length := by omega
            simp [List.getElem?_eq_none (Nat.le_of_not_lt hk), List.getElem?_eq_none (Nat.le_of_not_lt hk2)]
        rw [hfsmap] at hfields
        -- methods
        obtain ⟨mrs, hmeth, hml, hmR⟩ := readVec_rel (readMethod (poolTable c.pool) bs) MethodLayout.encode (fun mr mf => mr.resolve = some mf)
          c.methods ms
          (fun m hm v r ⟨k, hk1, hk2⟩ => by
            have := mapOpt_get _ _ _ hms k m v hk1 hk2
            exact readMethod_enc (poolTable c.pool) bs m (hbs ▸ hleg.methods m hm) v this r)
          (mapOpt_length _ _ _ hms) (encAttrs (c.attrs.map SClassAttr.raw) ++ r)
        -- skipping members
        have hskipF := skipMembers_enc FieldLayout.encode (fun f => f.attrs.map SFieldAttr.raw)
          (fun f => be16 f.access ++ be16 f.nameCp ++ be16 f.descCp) c.fields hleg.nFields
          (fun f hf => by
            obtain ⟨_, _, _, _, _, _, h7, h8⟩ := hleg.fields f hf
            refine ⟨by simp [FieldLayout.encode, List.append_assoc], by simp [be16_length], by simpa using h7, ?_⟩
            intro a ha
            obtain ⟨b, hb, rfl⟩ := List.mem_map.mp ha
            exact fieldFrameOk (poolTable c.pool) b (h8 b hb))
        have hskipM := skipMembers_enc MethodLayout.encode (fun m => m.attrs.map SMethodAttr.raw)
          (fun m => be16 m.access ++ be16 m.nameCp ++ be16 m.descCp) c.methods hleg.nMethods
          (fun m hm => by
            obtain ⟨_, _, _, _, _, _, h7, h8⟩ := hleg.methods m hm
            refine ⟨by simp [MethodLayout.encode, List.append_assoc], by simp [be16_length], by simpa using h7, ?_⟩
            intro a ha
            obtain ⟨b, hb, rfl⟩ := List.mem_map.mp ha
            exact methodFrameOk (poolTable c.pool) c.bsms b (h8 b hb))
        -- interfaces
        have hifs := readVec16_flatMap (fun s => do
            let (i, s) ← u16 s
            let c ← (poolTable c.pool).getObjClass i
            pure (c, s)) (fun (i : Nat × JStr) => be16 i.1) (fun i => i.2) c.interfaces hleg.nInterfaces
          (fun i hi r => by
            obtain ⟨h1, h2⟩ := hleg.interfaces i hi
            simp [u16_be16 _ h1, show (poolTable c.pool).getObjClass i.1 = ok i.2 from h2])
        obtain ⟨hv1, hv2, hv3⟩ := hleg.version
        have hver : (decide (c.major > 67) || (decide (c.major = 67) && decide (c.minor > 0))) = false := by
          simp only [Bool.or_eq_false_iff, Bool.and_eq_false_iff, decide_eq_false_iff_not]; omega
        refine ⟨{ st.facts with fields := fs, methods := mrs }, ?_, ?_⟩
        · simp only [read, ClassLayout.encode, List.append_assoc, u32_be32 0xCAFEBABE (by decide), ok_bind,
            show ((0xCAFEBABE : Nat) != 0xCAFEBABE) = false by decide, Bool.false_eq_true, if_false, u16_be16 _ hv1, u16_be16 _ hv2, hver,
            readPool_enc c.pool hleg.poolOk hleg.poolCount, u16_be16 _ hleg.access, u16_be16 _ hleg.this.1,
            show (poolTable c.pool).getObjClass c.thisCp = ok c.name from hleg.this.2, u16_be16 _ hleg.super.1,
            show (poolTable c.pool).getOptional c.superCp Pool.getObjClass = ok c.super from hleg.super.2]
          have hifs' := hifs (be16 c.fields.length ++ (c.fields.flatMap FieldLayout.encode ++ (be16 c.methods.length ++
            (c.methods.flatMap MethodLayout.encode ++ (encAttrs (c.attrs.map SClassAttr.raw) ++ r)))))
          try simp only [List.append_assoc] at hifs'
          simp only [hifs', ok_bind]
          have hna' : c.attrs.length < 65536 := hleg.nAttrs
          have hsF := hskipF (be16 c.methods.length ++ (c.methods.flatMap MethodLayout.encode ++ (encAttrs (c.attrs.map SClassAttr.raw) ++ r)))
          have hsM := hskipM (encAttrs (c.attrs.map SClassAttr.raw) ++ r)
          have hf' := hfields (be16 c.methods.length ++ (c.methods.flatMap MethodLayout.encode ++ (encAttrs (c.attrs.map SClassAttr.raw) ++ r)))
          have hm' : readVec16 (readMethod (poolTable c.pool) st.bsms) (be16 c.methods.length ++ (c.methods.flatMap MethodLayout.encode ++
              (encAttrs (c.attrs.map SClassAttr.raw) ++ r))) = ok (mrs, encAttrs (c.attrs.map SClassAttr.raw) ++ r) := by
            simp only [readVec16, u16_be16 _ hleg.nMethods, ok_bind, hst2]
            exact hmeth
          simp only [encAttrs, List.append_assoc, List.length_map] at hsF hsM hf' hm' ⊢
          simp only [ClassLayout.base] at hloop
          simp only [hsF, hsM, ok_bind, u16_be16 _ hna', hloop, hf', hm', pure_eq]
        · simp only [ClassFacts.resolve, mapM'_of_rel MethodFacts.resolve mrs ms hml hmR, Option.bind_eq_bind, Option.bind_some,
            Option.pure_def, hst1, ← hfacts]

end ClassRead
